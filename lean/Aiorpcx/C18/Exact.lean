import Aiorpcx.C18.RegexLemmas
/-!
# C18 — exactness of the validators for any configuration of the three shapes whose classes
are extensionally the property's classes (instantiated with the generated facts in `Props.lean`)
-/
namespace Aiorpcx.C18

/-! ## protocol -/

theorem protocol_test_exact (u : RxUse) (h t : Cls) (e : EndKind)
    (hrx : u.rx = shapeProtocol h t e) (he : endExact e u.mode = true)
    (hh : ∀ c, inCls h c = Spec.isLetter c) (ht : ∀ c, inCls t c = Spec.protoTailChar c)
    (s : Str) : u.test s = Spec.protocol s := by
  unfold RxUse.test
  rw [hrx, shapeProtocol_accepts h t e u.mode he]
  have ht' : inCls t = Spec.protoTailChar := funext ht
  cases s with
  | nil => rfl
  | cons x r => simp only [Spec.protocol, hh, ht']

/-! ## numeric -/

theorem numeric_test_exact (u : RxUse) (d : Cls) (e : EndKind)
    (hrx : u.rx = shapeNumeric d e) (he : endExact e u.mode = true)
    (hd : ∀ c, inCls d c = Spec.isDigit c) (s : Str) :
    u.test s = (!s.isEmpty && s.all Spec.isDigit) := by
  unfold RxUse.test
  rw [hrx, shapeNumeric_accepts d e u.mode he]
  have hd' : inCls d = Spec.isDigit := funext hd
  rw [hd']

/-! ## label -/

/-- label character other than the hyphen (what may begin and end a label) -/
def edgeChar (c : Nat) : Bool := Spec.labelChar c && c != 45

theorem some_bne (x y : Nat) : (some x != some y) = (x != y) := by
  simp [bne]

theorem all_last_eq (f : Nat → Bool) (r : Str) (hr : r ≠ []) :
    (r.all f && r.getLast? != some 45) = allButLast f (fun y => f y && y != 45) r := by
  induction r with
  | nil => exact absurd rfl hr
  | cons y r ih =>
    cases r with
    | nil => simp [allButLast, some_bne]
    | cons z r' =>
      have := ih (by simp)
      rw [allButLast, ← this, List.getLast?_cons_cons]
      simp [Bool.and_assoc]

theorem spec_label_cons (x : Nat) (r : Str) :
    Spec.label (x :: r) =
      (edgeChar x && (r.isEmpty || (decide (r.length ≤ 62) && allButLast Spec.labelChar edgeChar r))) := by
  cases r with
  | nil => simp [Spec.label, edgeChar, some_bne]
  | cons y r' =>
    have h := all_last_eq Spec.labelChar (y :: r') (by simp)
    have he : (fun y => Spec.labelChar y && y != 45) = edgeChar := rfl
    rw [he] at h
    rw [← h]
    simp only [Spec.label, List.length_cons, List.all_cons, List.head?_cons, List.getLast?_cons_cons,
      List.isEmpty_cons, Bool.false_or, edgeChar]
    have e1 : decide (1 ≤ r'.length + 1 + 1) = true := by simp
    have e2 : decide (r'.length + 1 + 1 ≤ 63) = decide (r'.length + 1 ≤ 62) := by
      congr 1; apply propext; omega
    rw [e1, e2]
    cases Spec.labelChar x <;> cases decide (r'.length + 1 ≤ 62) <;> cases Spec.labelChar y <;>
      cases (List.all r' Spec.labelChar) <;> simp [some_bne]

theorem label_test_exact (u : RxUse) (a b a' : Cls) (e : EndKind)
    (hrx : u.rx = shapeLabel a b a' 61 e) (he : endExact e u.mode = true)
    (ha : ∀ c, inCls a c = edgeChar c) (hb : ∀ c, inCls b c = Spec.labelChar c)
    (ha' : ∀ c, inCls a' c = edgeChar c) (s : Str) : u.test s = Spec.label s := by
  unfold RxUse.test
  rw [hrx, shapeLabel_accepts a b a' 61 e u.mode he]
  have e1 : inCls a' = edgeChar := funext ha'
  have e2 : inCls b = Spec.labelChar := funext hb
  cases s with
  | nil => simp [Spec.label]
  | cons x r => simp only [spec_label_cons, ha, e1, e2]

theorem label_test_exact_bos (u : RxUse) (a b a' : Cls) (e : EndKind)
    (hrx : u.rx = shapeLabelBos a b a' 61 e) (he : endExact e u.mode = true)
    (ha : ∀ c, inCls a c = edgeChar c) (hb : ∀ c, inCls b c = Spec.labelChar c)
    (ha' : ∀ c, inCls a' c = edgeChar c) (s : Str) : u.test s = Spec.label s := by
  have := label_test_exact ⟨shapeLabel a b a' 61 e, u.mode⟩ a b a' e rfl he ha hb ha' s
  rw [← this]
  unfold RxUse.test
  rw [hrx, shapeLabelBos_accepts a b a' 61 e u.mode he]

/-! ## host names -/

theorem splitOn_ne_nil (sep : Nat) (s : Str) : splitOn sep s ≠ [] := by
  induction s with
  | nil => simp [splitOn]
  | cons c r ih =>
    simp only [splitOn]
    split
    · simp
    · split <;> simp

theorem getLastD_mem (l : List Str) (h : l ≠ []) : l.getLastD [] ∈ l := by
  induction l with
  | nil => exact absurd rfl h
  | cons x r ih =>
    cases r with
    | nil => simp
    | cons y r' =>
      have := ih (by simp)
      simp only [List.getLastD_cons] at this ⊢
      exact List.mem_cons_of_mem _ this

theorem hostname_exact_of (cfg : Cfg)
    (hl : ∀ l, cfg.label.test l = Spec.label l)
    (hn : ∀ l, cfg.numeric.test l = (!l.isEmpty && l.all Spec.isDigit))
    (hm : cfg.hostMaxLen = 253) (s : Str) :
    isValidHostnameStr cfg s = Spec.hostname s := by
  unfold isValidHostnameStr Spec.hostname
  simp only [hm, hn]
  have hlf : cfg.label.test = Spec.label := funext hl
  rw [hlf]
  generalize stripDot s = t
  by_cases h0 : t = []
  · subst h0; simp
  · have hlen : 1 ≤ t.length := by
      cases t with
      | nil => exact absurd rfl h0
      | cons x r => simp
    have hne : t.isEmpty = false := by cases t <;> simp_all
    by_cases h1 : t.length > 253
    · have : ¬ t.length ≤ 253 := by omega
      simp [hne, h1, this]
    · have h1' : t.length ≤ 253 := by omega
      simp only [hne, Bool.false_or, decide_eq_true_eq, h1, ↓reduceIte, hlen, decide_true, h1',
        Bool.true_and]
      by_cases hall : (splitOn 46 t).all Spec.label = true
      · have hmem := getLastD_mem (splitOn 46 t) (splitOn_ne_nil 46 t)
        have hlast : Spec.label ((splitOn 46 t).getLastD []) = true :=
          List.all_eq_true.mp hall _ hmem
        have hnonempty : ((splitOn 46 t).getLastD []).isEmpty = false := by
          generalize (splitOn 46 t).getLastD [] = l at hlast
          cases l with
          | nil => simp [Spec.label] at hlast
          | cons _ _ => rfl
        simp only [hnonempty, hall, Bool.not_false, Bool.true_and]
        cases ((splitOn 46 t).getLastD []).all Spec.isDigit <;> simp
      · have hall' : (splitOn 46 t).all Spec.label = false := by
          cases h : (splitOn 46 t).all Spec.label
          · rfl
          · exact absurd h hall
        simp [hall']

end Aiorpcx.C18
