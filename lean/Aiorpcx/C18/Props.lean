import Aiorpcx.C18.Exact
import Aiorpcx.C18.RoundTrip
import Aiorpcx.C18.Defaults
import Aiorpcx.C18.Pinned
import Aiorpcx.C18.Helpers
import Aiorpcx.Facts.C18
/-!
# C18 — property theorems

Model: `Aiorpcx/C18/Model.lean` (mirrors `aiorpcx/util.py:42-248`), regex semantics:
`Aiorpcx/C18/Regex.lean`.  The configuration every theorem below talks about is
`Aiorpcx.Facts.C18.cfg`, **generated on every run by running the real functions of the current
source tree** (tools/facts/c18.py): the class of code points accepted at every position of a
protocol name / host-name label / all-digit last label (each obtained by calling the function on
every code point 0..0x10FFFF in that position), the repeat bounds and length limits (decision
tables over lengths), whether a final newline slips through (anchor kind), the port interval (every
integer -2..65537).  Nothing is read from the shape of the source, so a rewrite that keeps the
behaviour keeps the generated file byte for byte.  The `facts_*` lemmas are the proof obligations
that tie those generated values to the property's grammar (`Aiorpcx/C18/Spec.lean`); they are closed
by `rfl` (shape, anchors, bounds), by `simp` + `omega` over the concrete ranges (classes) and by
`decide` (the small behaviour tables against the model under `cfg`).

All theorems are quantified over **all** strings / integers / objects; no bound.
-/
namespace Aiorpcx.C18
open Aiorpcx.Facts.C18

/-- closes `∀ c, inCls <generated class> c = <spec class> c` for concrete ranges -/
macro "cls_exact" defs:Lean.Parser.Tactic.simpLemma,* : tactic =>
  `(tactic| (intro c
             simp only [inCls, List.any_cons, List.any_nil, $defs,*]
             rw [Bool.eq_iff_iff]
             simp
             all_goals omega))

/-! ## facts ties (proof obligations over the generated constants) -/

/-- the behaviour observed on the position and length tables fits the family of the property's
grammar (position-independent classes, contiguous lengths, one port interval, one dot stripped) -/
theorem facts_supported : supported = true ∧ unsupportedWhy = [] := ⟨rfl, rfl⟩

/-- a protocol is one character of class H, then one or more of class T, and nothing else (no
final newline slips through) -/
theorem facts_protocol_shape :
    ∃ e, cfg.protocol.rx = shapeProtocol protocol_c0 protocol_c1 e ∧
      endExact e cfg.protocol.mode = true := ⟨_, rfl, rfl⟩

/-- code points accepted as first character of a protocol = the ASCII letters -/
theorem facts_protocol_head_class : ∀ c, inCls protocol_c0 c = Spec.isLetter c := by
  cls_exact protocol_c0, Spec.isLetter

/-- code points accepted after the first = letters, digits, `+`, `-`, `.` (F1: not `,`) -/
theorem facts_protocol_tail_class : ∀ c, inCls protocol_c1 c = Spec.protoTailChar c := by
  cls_exact protocol_c1, Spec.protoTailChar, Spec.isLetter, Spec.isDigit

/-- a label is `[A]([B]{0,61}[A'])?` + exact end (F2) -/
theorem facts_label_shape :
    ∃ e, cfg.label.rx = shapeLabel label_c0 label_c1 label_c2 61 e ∧
      endExact e cfg.label.mode = true := ⟨_, rfl, rfl⟩

/-- first character of a label = ASCII letters, digits, `_` (F3: nothing else) -/
theorem facts_label_first_class : ∀ c, inCls label_c0 c = edgeChar c := by
  cls_exact label_c0, edgeChar, Spec.labelChar, Spec.isLetter, Spec.isDigit

/-- middle characters of a label = ASCII letters, digits, `-`, `_` -/
theorem facts_label_middle_class : ∀ c, inCls label_c1 c = Spec.labelChar c := by
  cls_exact label_c1, Spec.labelChar, Spec.isLetter, Spec.isDigit

/-- last character of a label = ASCII letters, digits, `_` -/
theorem facts_label_last_class : ∀ c, inCls label_c2 c = edgeChar c := by
  cls_exact label_c2, edgeChar, Spec.labelChar, Spec.isLetter, Spec.isDigit

/-- the refused last labels are `[D]+` + exact end -/
theorem facts_numeric_shape :
    ∃ e, cfg.numeric.rx = shapeNumeric numeric_c0 e ∧ endExact e cfg.numeric.mode = true :=
  ⟨_, rfl, rfl⟩

/-- one-character last labels refused although fine elsewhere = ASCII digits -/
theorem facts_numeric_class : ∀ c, inCls numeric_c0 c = Spec.isDigit c := by
  cls_exact numeric_c0, Spec.isDigit

/-- `validate_port` accepts `1 ≤ p ≤ 65535`; names longer than 253 are refused -/
theorem facts_bounds : cfg.portLo = 1 ∧ cfg.portHi = 65535 ∧ cfg.hostMaxLen = 253 := by decide

/-- the decision tables themselves: integer ports accepted on the grid -2..65537 are exactly
1..65535 and come back unchanged; well-formed names are accepted exactly at total lengths 1..253,
with or without one trailing dot; labels exactly at lengths 1..63; exactly one trailing dot is
ignored -/
theorem facts_decision_tables :
    portIntervals = [(1, 65535)] ∧ portValueIsArgument = true ∧
    hostLengths = [(1, 253)] ∧ hostLengthsDot = [(1, 253)] ∧ labelLengths = [(1, 63)] ∧
    trailingDots = [true, true, false, false] := by decide

/-- the model under the generated configuration answers the hand-picked host names exactly as the
real `is_valid_hostname` did (dots, hyphens, digits, newlines, non-ASCII) -/
theorem facts_host_table :
    hostTable.all (fun p => isValidHostnameStr cfg p.1 == p.2) = true := by decide +kernel

/-- … and the hand-picked protocol strings as the real `validate_protocol` did -/
theorem facts_proto_table :
    protoTable.all (fun p => cfg.protocol.test p.1 == p.2) = true := by decide +kernel

/-- … and the hand-picked port strings (leading zeros, signs, blanks, underscores, Unicode
digits, superscripts) as the real `validate_port` did -/
theorem facts_port_table :
    portTable.all (fun p =>
      (match validatePort (α := Unit) cfg (.str p.1) with
        | .ok n => some n
        | .error _ => none) == p.2) = true := by decide +kernel

/-- the model's `splitAddress` cuts every text over `{a 1 . : [ ] % /}` up to length 3 (585 texts)
and the longer bracket cases exactly where the real `NetAddress.from_string` did (observed through a
subclass that records what the constructor is given; `splitRows` = how many texts could be observed
that way - 601 on a tree that constructs through `cls`, reported in the evidence) -/
theorem facts_split_table :
    splitTable.length = splitRows ∧
    splitTable.all (fun r => splitAddress r.1 == (r.2.1, r.2.2)) = true := by decide +kernel

/-- the interpreter's int-string digit limit cannot refuse a five-digit port -/
theorem facts_digit_limit : cfg.maxStrDigits = 0 ∨ 5 ≤ cfg.maxStrDigits := by decide

/-- the committed digit tables are those of the interpreter running the code -/
theorem facts_digit_tables :
    Aiorpcx.Facts.C18.decimalRuns = Aiorpcx.C18.decimalRuns ∧
    Aiorpcx.Facts.C18.digitOnly = Aiorpcx.C18.digitOnly := ⟨rfl, rfl⟩

/-! ## the regexes accept exactly the property's grammar -/

theorem protocol_test_facts (s : Str) : cfg.protocol.test s = Spec.protocol s := by
  obtain ⟨e, hrx, he⟩ := facts_protocol_shape
  exact protocol_test_exact _ _ _ e hrx he facts_protocol_head_class facts_protocol_tail_class s

theorem label_test_facts (l : Str) : cfg.label.test l = Spec.label l := by
  obtain ⟨e, hrx, he⟩ := facts_label_shape
  exact label_test_exact _ _ _ _ e hrx he facts_label_first_class facts_label_middle_class
    facts_label_last_class l

theorem numeric_test_facts (l : Str) : cfg.numeric.test l = (!l.isEmpty && l.all Spec.isDigit) := by
  obtain ⟨e, hrx, he⟩ := facts_numeric_shape
  exact numeric_test_exact _ _ e hrx he facts_numeric_class l

/-- **host names.**  `is_valid_hostname(s)` is `True` exactly when, ignoring one trailing dot, `s`
is 1–253 characters of dot-separated labels of 1–63 letters, digits, hyphens or underscores that
neither begin nor end with a hyphen and whose last label is not all digits — for every string. -/
theorem hostname_exact (s : Str) : isValidHostnameStr cfg s = Spec.hostname s :=
  hostname_exact_of cfg label_test_facts numeric_test_facts facts_bounds.2.2 s

/-- the same with the grammar spelled out (`hostname_grammar`: no model helper in the statement):
accepted exactly the strings that are, ignoring one trailing dot, 1-253 characters of labels joined
by dots, each label valid, the last one not all digits -/
theorem hostname_exact_grammar (s : Str) :
    isValidHostnameStr cfg s = true ↔
      ∃ ls : List Str, ls ≠ [] ∧ (s = joinWith 46 ls ∨ s = joinWith 46 ls ++ [46]) ∧
        (∀ l ∈ ls, Spec.label l = true) ∧ (ls.getLastD []).all Spec.isDigit = false ∧
        1 ≤ (joinWith 46 ls).length ∧ (joinWith 46 ls).length ≤ 253 := by
  rw [hostname_exact]; exact hostname_grammar s

/-- non-strings: `TypeError` -/
theorem hostname_type {α : Type} (v : PyVal α) :
    isValidHostname cfg v = match v with
      | .str s => .ok (Spec.hostname s)
      | _ => .error .typeError := by
  cases v <;> simp [isValidHostname, hostname_exact]

example : isValidHostnameStr cfg [101, 120, 46, 99, 111, 109] = true := by    -- "ex.com"
  rw [hostname_exact]; decide
example : isValidHostnameStr cfg [101, 120, 46, 99, 111, 109, 10] = false := by    -- "ex.com\n"
  rw [hostname_exact]; decide
example : isValidHostnameStr cfg [383, 46, 99, 111, 109] = false := by    -- "ſ.com"
  rw [hostname_exact]; decide

/-- **protocols.**  `validate_protocol(s)` returns (the lower-cased) `s` exactly when `s` is a
letter followed by one or more letters, digits, `+`, `-` or `.`; every other string is refused
with `ValueError`, every non-string with `TypeError`. -/
theorem protocol_exact {α : Type} (v : PyVal α) :
    validateProtocol cfg v = match v with
      | .str s => if Spec.protocol s then .ok (lower s) else .error .valueError
      | _ => .error .typeError := by
  cases v <;> simp [validateProtocol, protocol_test_facts]

example : validateProtocol (α := Unit) cfg (.str [84, 99, 112]) = .ok [116, 99, 112] := by  -- "Tcp"
  rw [protocol_exact]; rfl
example : validateProtocol (α := Unit) cfg (.str [116, 44, 112]) = .error .valueError := by  -- "t,p"
  rw [protocol_exact]; rfl
example : validateProtocol (α := Unit) cfg (.str [116, 99, 112, 10]) = .error .valueError := by
  rw [protocol_exact]; rfl

theorem cfg_ok : CfgOK cfg :=
  { host := hostname_exact, proto := protocol_test_facts, lo := facts_bounds.1,
    hi := facts_bounds.2.1, digits := facts_digit_limit }

/-! ## ports -/

/-- the value of a string of Unicode decimal digits read in base 10 (`none`: empty, or some
character is not a decimal digit) -/
def Spec.decimalValue (s : Str) : Option Nat := if s.isEmpty then none else decimalFold s 0

theorem decimalFold_some_isDigit (s : Str) (v w : Nat) (h : decimalFold s v = some w) :
    s.all isDigitChar = true := by
  induction s generalizing v with
  | nil => rfl
  | cons c r ih =>
    simp only [decimalFold] at h
    cases hd : decimalVal c with
    | none => simp [hd] at h
    | some d =>
      simp only [hd] at h
      simp [isDigitChar, hd, ih _ h]

/-- **ports.**  Integers (and `bool`, a subclass) are accepted exactly in 1..65535 and returned
unchanged; a string is accepted exactly when it is a non-empty string of decimal digits (within
the interpreter's digit limit) whose value is in 1..65535, and that value is returned; every other
string — including strings of `isdigit()` characters that `int()` refuses, such as `'²'` — gives
`ValueError` and nothing else; every other type `TypeError`. -/
theorem port_exact {α : Type} (v : PyVal α) :
    validatePort cfg v = match v with
      | .int n => if Spec.port n then .ok n else .error .valueError
      | .bool b => if b then .ok 1 else .error .valueError
      | .str s =>
        if cfg.maxStrDigits ≠ 0 ∧ s.length > cfg.maxStrDigits then .error .valueError
        else match Spec.decimalValue s with
          | some n => if Spec.port n then .ok n else .error .valueError
          | none => .error .valueError
      | _ => .error .typeError := by
  have hr : ∀ n : Int, portRange cfg n = if Spec.port n then .ok n else .error .valueError := by
    intro n
    simp only [portRange, facts_bounds.1, facts_bounds.2.1, Spec.port, Bool.and_eq_true,
      decide_eq_true_eq]
  cases v with
  | int n => simp only [validatePort, hr]
  | bool b => cases b <;> simp [validatePort, hr, Spec.port]
  | str s =>
    simp only [validatePort, pyIntOfDigits, Spec.decimalValue]
    by_cases hlim : cfg.maxStrDigits ≠ 0 ∧ s.length > cfg.maxStrDigits
    · simp only [hlim]
      split <;> rfl
    · simp only [hlim, ↓reduceIte]
      by_cases hd : isDigitStr s = true
      · have he : s.isEmpty = false := by
          simp only [isDigitStr, Bool.and_eq_true, Bool.not_eq_eq_eq_not, Bool.not_true] at hd
          exact hd.1
        simp only [hd, ↓reduceIte, he, Bool.false_eq_true]
        cases hf : decimalFold s 0 with
        | none => rfl
        | some w => simp only [hr]; rfl
      · simp only [hd, Bool.false_eq_true, ↓reduceIte]
        by_cases he : s.isEmpty = true
        · simp [he]
        · simp only [he, Bool.false_eq_true, ↓reduceIte]
          cases hf : decimalFold s 0 with
          | none => rfl
          | some w =>
            have := decimalFold_some_isDigit s 0 w hf
            simp [isDigitStr, he, this] at hd
  | ip4 x => rfl
  | ip6 x => rfl
  | none => rfl
  | other => rfl

/-- the familiar reading: a non-empty string of ASCII digits (leading zeros allowed) within the
digit limit is accepted exactly when its decimal value is in 1..65535 -/
theorem port_exact_ascii {α : Type} (s : Str) (hne : s ≠ []) (hd : s.all Spec.isDigit = true)
    (hlen : cfg.maxStrDigits = 0 ∨ s.length ≤ cfg.maxStrDigits) :
    validatePort (α := α) cfg (.str s) =
      if Spec.port (parseDec s) then .ok (parseDec s) else .error .valueError := by
  rw [validatePort_ascii cfg s hne hd hlen]
  simp only [portRange, facts_bounds.1, facts_bounds.2.1, Spec.port, Bool.and_eq_true,
    decide_eq_true_eq]
  rfl

example : validatePort (α := Unit) cfg (.int 65535) = .ok 65535 := by rw [port_exact]; rfl
example : validatePort (α := Unit) cfg (.int 65536) = .error .valueError := by rw [port_exact]; rfl
example : validatePort (α := Unit) cfg (.int 0) = .error .valueError := by rw [port_exact]; rfl
example : validatePort (α := Unit) cfg (.str [48, 56, 48]) = .ok 80 := by     -- "080"
  rw [port_exact_ascii _ (by decide) (by decide) (by decide)]; rfl
example : validatePort (α := Unit) cfg (.str [178]) = .error .valueError := by    -- "²"
  rw [port_exact]; rfl
example : validatePort (α := Unit) cfg (.str [1635, 65296]) = .ok 30 := by    -- "٣０"
  rw [port_exact]; rfl

/-! ## `classify_host` -/

/-- **classify_host is total.**  A valid host name is returned as is; any other string must parse
as an IPv4 or IPv6 literal (and is returned as that address) or is refused with `ValueError`;
address objects are returned unchanged; `TypeError` only for non-strings. -/
theorem classify_host_total {α : Type} (L : IPLib α) (v : PyVal α) :
    classifyHost L cfg v = match v with
      | .str s =>
        if Spec.hostname s then .ok (.name s)
        else match ipAddress L s with
          | some ip => .ok ip
          | none => .error .valueError
      | .ip4 x => .ok (.ip4 x)
      | .ip6 x => .ok (.ip6 x)
      | _ => .error .typeError := by
  cases v with
  | str s => exact classifyHost_str L cfg cfg_ok s
  | int _ => rfl
  | bool _ => rfl
  | ip4 _ => rfl
  | ip6 _ => rfl
  | none => rfl
  | other => rfl

/-- `ip_address` never answers a host name: its results are addresses -/
theorem ipAddress_is_ip {α : Type} (L : IPLib α) (s : Str) (h : Host α)
    (hs : ipAddress L s = some h) : (∃ x, h = .ip4 x ∧ x.valid) ∨ (∃ x, h = .ip6 x) := by
  unfold ipAddress at hs
  split at hs
  · rename_i x hx
    simp only [Option.some.injEq] at hs
    exact Or.inl ⟨x, hs.symm, (parse4_chars hx).2⟩
  · cases h6 : L.parse6 s with
    | none => simp [h6] at hs
    | some y => simp [h6] at hs; exact Or.inr ⟨y, hs.symm⟩

/-! ## round trips -/

/-- **NetAddress round trip.**  For every valid `NetAddress` (host a valid name, an IPv4 or an
IPv6 address; port in 1..65535) `NetAddress.from_string(str(a)) == a`. -/
theorem netaddress_roundtrip {α : Type} (L : IPLib α) (laws : IPLaws L) (a : NetAddr α)
    (hv : a.Valid) : NetAddr.fromString L cfg (.str (a.toStr L)) = .ok a :=
  netaddr_roundtrip L laws cfg cfg_ok a hv

/-- every object `NetAddress(host, port)` constructs is valid (so the round trip applies to it) -/
theorem netaddress_constructor_valid {α : Type} (L : IPLib α) (host port : PyVal α)
    (hwf : host.WF) (a : NetAddr α) (h : mkNetAddress L cfg host port = .ok a) : a.Valid :=
  mkNetAddress_valid L cfg cfg_ok host port hwf a h

/-- **Service round trip.**  For every valid `Service`, `Service.from_string(str(s)) == s`. -/
theorem service_roundtrip {α : Type} (L : IPLib α) (laws : IPLaws L) (s : Service α)
    (hv : s.Valid) : Service.fromString L cfg (.str (s.toStr L)) = .ok s :=
  service_roundtrip_of L laws cfg cfg_ok s hv

/-- every object `Service(protocol, address)` constructs is valid -/
theorem service_constructor_valid {α : Type} (L : IPLib α) (protocol : PyVal α)
    (address : AddrArg α) (haddr : ∀ a, address = .obj a → a.Valid) (s : Service α)
    (h : mkService L cfg protocol address = .ok s) : s.Valid :=
  mkService_valid L cfg cfg_ok protocol address haddr s h

/-- the defaults of `from_string` never override what `str()` printed: the round trips hold with
any `default_func` -/
theorem netaddress_roundtrip_defaults {α : Type} (L : IPLib α) (laws : IPLaws L)
    (d : Option (PyVal α × PyVal α)) (a : NetAddr α) (hv : a.Valid) :
    NetAddr.fromStringD L cfg d (.str (a.toStr L)) = .ok a :=
  netaddr_roundtrip_defaults L laws cfg cfg_ok d a hv

theorem service_roundtrip_with_defaults {α : Type} (L : IPLib α) (laws : IPLaws L)
    (low : PyLower) (g : SvcDefaults α) (s : Service α) (hv : s.Valid) :
    Service.fromStringD L cfg low g (.str (s.toStr L)) = .ok s :=
  service_roundtrip_defaults L laws cfg cfg_ok low g s hv

/-- the laws are inhabited: an IPv6 library with one address `::` -/
def unitLib : IPLib Unit :=
  { parse6 := fun s => if s = [58, 58] then some () else none, show6 := fun _ => [58, 58] }

theorem unitLib_laws : IPLaws unitLib :=
  { roundtrip := fun _ => by simp [unitLib], colon := fun _ => by simp [unitLib] }

example : (⟨.name [101, 120, 46, 99, 111, 109], 80⟩ : NetAddr Unit).Valid :=
  ⟨by decide, by decide, by show Spec.hostname _ = true; decide⟩
example : (⟨.ip4 ⟨1, 2, 3, 4⟩, 65535⟩ : NetAddr Unit).Valid :=
  ⟨by decide, by decide, by show IP4.valid _; unfold IP4.valid; decide⟩
example : (⟨.ip6 (), 1⟩ : NetAddr Unit).Valid := ⟨by decide, by decide, trivial⟩
example : (⟨[116, 99, 112], ⟨.ip6 (), 8080⟩⟩ : Service Unit).Valid :=
  ⟨by decide, by decide, by decide, by decide, trivial⟩
example : (⟨.ip6 (), 8080⟩ : NetAddr Unit).toStr unitLib = [91, 58, 58, 93, 58, 56, 48, 56, 48] := by
  decide

/-! ## only `ValueError` or `TypeError` -/

/-- the outcome is a value, a `ValueError` or a `TypeError` -/
def Except.isVT {β : Type} : Except PyExc β → Bool
  | .ok _ => true
  | .error .valueError => true
  | .error .typeError => true
  | .error .attributeError => false

theorem isVT_error_cast {β γ : Type} (e : PyExc)
    (h : Except.isVT (.error e : Except PyExc β) = true) :
    Except.isVT (.error e : Except PyExc γ) = true := by
  cases e
  · rfl
  · rfl
  · exact h

theorem vt_portRange (c : Cfg) (n : Int) : Except.isVT (portRange c n) = true := by
  unfold portRange; split <;> rfl

theorem vt_isValidHostname {α : Type} (c : Cfg) (v : PyVal α) :
    Except.isVT (isValidHostname c v) = true := by
  cases v <;> rfl

theorem pyIntOfDigits_error (m : Nat) (s : Str) (e : PyExc)
    (h : pyIntOfDigits m s = .error e) : e = .valueError := by
  unfold pyIntOfDigits at h
  split at h
  · simp only [Except.error.injEq] at h; exact h.symm
  · split at h
    · simp at h
    · simp only [Except.error.injEq] at h; exact h.symm

theorem vt_validatePort {α : Type} (c : Cfg) (v : PyVal α) :
    Except.isVT (validatePort c v) = true := by
  cases v with
  | int n => exact vt_portRange c n
  | bool b => exact vt_portRange c _
  | str s =>
    simp only [validatePort]
    split
    · cases h : pyIntOfDigits c.maxStrDigits s with
      | ok n => exact vt_portRange c n
      | error e => rw [pyIntOfDigits_error _ _ _ h]; rfl
    · rfl
  | ip4 _ => rfl
  | ip6 _ => rfl
  | none => rfl
  | other => rfl

theorem vt_validateProtocol {α : Type} (c : Cfg) (v : PyVal α) :
    Except.isVT (validateProtocol c v) = true := by
  cases v with
  | str s => simp only [validateProtocol]; split <;> rfl
  | int _ => rfl
  | bool _ => rfl
  | ip4 _ => rfl
  | ip6 _ => rfl
  | none => rfl
  | other => rfl

theorem vt_classifyHost {α : Type} (L : IPLib α) (c : Cfg) (v : PyVal α) :
    Except.isVT (classifyHost L c v) = true := by
  cases v with
  | str s =>
    simp only [classifyHost]
    split
    · rfl
    · split <;> rfl
  | int _ => rfl
  | bool _ => rfl
  | ip4 _ => rfl
  | ip6 _ => rfl
  | none => rfl
  | other => rfl

theorem vt_mkNetAddress {α : Type} (L : IPLib α) (c : Cfg) (u u' : PyVal α) :
    Except.isVT (mkNetAddress L c u u') = true := by
  unfold mkNetAddress
  have h1 := vt_classifyHost L c u
  have h2 := vt_validatePort c u'
  cases hc : classifyHost L c u with
  | error e => rw [hc] at h1; exact isVT_error_cast e h1
  | ok h =>
    cases hp : validatePort c u' with
    | error e => rw [hp] at h2; exact isVT_error_cast e h2
    | ok p => rfl

theorem vt_fromString {α : Type} (L : IPLib α) (c : Cfg) (v : PyVal α) :
    Except.isVT (NetAddr.fromString L c v) = true := by
  cases v with
  | str s => exact vt_mkNetAddress L c _ _
  | int _ => rfl
  | bool _ => rfl
  | ip4 _ => rfl
  | ip6 _ => rfl
  | none => rfl
  | other => rfl

theorem vt_mkService {α : Type} (L : IPLib α) (c : Cfg) (v : PyVal α) (a : AddrArg α) :
    Except.isVT (mkService L c v a) = true := by
  unfold mkService
  have h1 := vt_validateProtocol c v
  cases hp : validateProtocol c v with
  | error e => rw [hp] at h1; exact isVT_error_cast e h1
  | ok p =>
    cases a with
    | obj a => rfl
    | val w =>
      have h2 := vt_fromString L c w
      simp only
      cases hf : NetAddr.fromString L c w with
      | error e => rw [hf] at h2; exact isVT_error_cast e h2
      | ok a => rfl

theorem vt_serviceFromString {α : Type} (L : IPLib α) (c : Cfg) (v : PyVal α) :
    Except.isVT (Service.fromString L c v) = true := by
  cases v with
  | str s =>
    simp only [Service.fromString]
    cases hs : splitOnce schemeSep s with
    | none => rfl
    | some pa =>
      obtain ⟨proto, addr⟩ := pa
      have h2 := vt_fromString L c (.str addr)
      simp only
      cases hf : NetAddr.fromString L c (.str addr) with
      | error e => rw [hf] at h2; exact isVT_error_cast e h2
      | ok a => exact vt_mkService L c _ _
  | int _ => rfl
  | bool _ => rfl
  | ip4 _ => rfl
  | ip6 _ => rfl
  | none => rfl
  | other => rfl

theorem vt_checkedMk {α : Type} (L : IPLib α) (c : Cfg) (h p : PyVal α) :
    Except.isVT (checkedMk L c h p) = true := by
  unfold checkedMk
  split
  · rfl
  · exact vt_mkNetAddress L c _ _

theorem vt_fromStringD {α : Type} (L : IPLib α) (c : Cfg) (d : Option (PyVal α × PyVal α))
    (v : PyVal α) : Except.isVT (NetAddr.fromStringD L c d v) = true := by
  cases v with
  | str s =>
    cases d with
    | none => exact vt_mkNetAddress L c _ _
    | some dd => exact vt_checkedMk L c _ _
  | int _ => rfl
  | bool _ => rfl
  | ip4 _ => rfl
  | ip6 _ => rfl
  | none => rfl
  | other => rfl

theorem vt_withProtocol_str {α : Type} (L : IPLib α) (c : Cfg) (low : PyLower) (g : SvcDefaults α)
    (p address : Str) : Except.isVT (withProtocol L c low g (.str p) address) = true := by
  simp only [withProtocol]
  have h2 := vt_fromStringD L c (some (g (some (low p)) .host, g (some (low p)) .port))
    (.str address)
  cases hf : NetAddr.fromStringD L c _ (.str address) with
  | error e => rw [hf] at h2; exact isVT_error_cast e h2
  | ok a => exact vt_mkService L c _ _

/-- the protocol chosen by the first half of `Service.from_string` is a string taken from the
text, or the callback's (truthy) default protocol -/
theorem pickProtocol_ok {α : Type} (g : SvcDefaults α) (s : Str) (p : PyVal α) (a : Str)
    (h : pickProtocol g s = .ok (p, a)) :
    (∃ q, p = .str q) ∨ (p = g none .protocol ∧ p.truthy = true) := by
  unfold pickProtocol at h
  split at h
  · simp only [Except.ok.injEq, Prod.mk.injEq] at h; exact Or.inl ⟨_, h.1.symm⟩
  · split at h
    · split at h
      · simp at h
      · simp only [Except.ok.injEq, Prod.mk.injEq] at h; exact Or.inl ⟨_, h.1.symm⟩
    · split at h
      · rename_i ht
        simp only [Except.ok.injEq, Prod.mk.injEq] at h
        exact Or.inr ⟨h.1.symm, by rw [← h.1]; exact ht⟩
      · simp at h

theorem pickProtocol_error {α : Type} (g : SvcDefaults α) (s : Str) (e : PyExc)
    (h : pickProtocol g s = .error e) : e = .valueError := by
  unfold pickProtocol at h
  split at h
  · simp at h
  · split at h
    · split at h
      · simp only [Except.error.injEq] at h; exact h.symm
      · simp at h
    · split at h
      · simp at h
      · simp only [Except.error.injEq] at h; exact h.symm

/-- with a `default_func`: still only ValueError / TypeError **provided** the callback's default
protocol is a string or falsy; a truthy non-string default protocol makes `protocol.lower()` raise
AttributeError (see the `example` below) -/
theorem vt_serviceFromStringD {α : Type} (L : IPLib α) (c : Cfg) (low : PyLower)
    (g : SvcDefaults α)
    (hg : (∃ p, g none .protocol = .str p) ∨ (g none .protocol).truthy = false) (v : PyVal α) :
    Except.isVT (Service.fromStringD L c low g v) = true := by
  cases v with
  | str s =>
    simp only [Service.fromStringD]
    cases hp : pickProtocol g s with
    | error e => rw [pickProtocol_error g s e hp]; rfl
    | ok pa =>
      obtain ⟨p, a⟩ := pa
      simp only
      rcases pickProtocol_ok g s p a hp with ⟨q, rfl⟩ | ⟨hd, ht⟩
      · exact vt_withProtocol_str L c low g q a
      · rcases hg with ⟨q, hq⟩ | hf
        · rw [hd, hq]; exact vt_withProtocol_str L c low g q a
        · rw [hd, hf] at ht; exact absurd ht (by decide)
  | int _ => rfl
  | bool _ => rfl
  | ip4 _ => rfl
  | ip6 _ => rfl
  | none => rfl
  | other => rfl

/-- the explicit failure mode: `default_func(None, PROTOCOL)` returning `5` -/
example : errIs (Service.fromStringD (α := Unit) noV6 repaired lower
    (fun _ part => if part = .protocol then .int 5 else .none) (.str [97])) .attributeError = true := by
  decide

/-- **no other exception.**  Whatever the arguments (of whatever type), each of the functions
returns or raises `ValueError` / `TypeError` — in particular `int()` of an `isdigit()` string that
is not decimal, and `re.match` on a non-string, are accounted for in the model. -/
theorem only_value_or_type_error {α : Type} (L : IPLib α) (v w : PyVal α) :
    Except.isVT (isValidHostname cfg v) = true ∧ Except.isVT (classifyHost L cfg v) = true ∧
    Except.isVT (validatePort cfg v) = true ∧ Except.isVT (validateProtocol cfg v) = true ∧
    Except.isVT (mkNetAddress L cfg v w) = true ∧
    Except.isVT (NetAddr.fromString L cfg v) = true ∧
    Except.isVT (mkService L cfg v (.val w)) = true ∧
    Except.isVT (Service.fromString L cfg v) = true :=
  ⟨vt_isValidHostname cfg v, vt_classifyHost L cfg v, vt_validatePort cfg v,
   vt_validateProtocol cfg v, vt_mkNetAddress L cfg v w, vt_fromString L cfg v,
   vt_mkService L cfg v _, vt_serviceFromString L cfg v⟩

example : Except.isVT (Except.error PyExc.attributeError : Except PyExc Nat) = false := rfl

/-! ## the driver's hand-written configuration satisfies the same specification -/

theorem repaired_cfg_ok : CfgOK repaired := by
  have hl : ∀ l, repaired.label.test l = Spec.label l :=
    label_test_exact_bos _ clsLabelEdge clsLabelMid clsLabelEdge .bigZ rfl rfl
      (by cls_exact clsLabelEdge, edgeChar, Spec.labelChar, Spec.isLetter, Spec.isDigit)
      (by cls_exact clsLabelMid, Spec.labelChar, Spec.isLetter, Spec.isDigit)
      (by cls_exact clsLabelEdge, edgeChar, Spec.labelChar, Spec.isLetter, Spec.isDigit)
  have hn : ∀ l, repaired.numeric.test l = (!l.isEmpty && l.all Spec.isDigit) :=
    numeric_test_exact _ clsDigit .bigZ rfl rfl (by cls_exact clsDigit, Spec.isDigit)
  exact
    { host := hostname_exact_of repaired hl hn rfl
      proto := protocol_test_exact _ clsLetter clsProtoTail .bigZ rfl rfl
        (by cls_exact clsLetter, Spec.isLetter)
        (by cls_exact clsProtoTail, Spec.protoTailChar, Spec.isLetter, Spec.isDigit)
      lo := rfl, hi := rfl, digits := by decide }

/-- so the model the harness runs (`repaired`) and the configuration generated from the source
agree on every input -/
theorem facts_agree_with_model (s : Str) :
    isValidHostnameStr cfg s = isValidHostnameStr repaired s ∧
    cfg.protocol.test s = repaired.protocol.test s := by
  rw [hostname_exact, repaired_cfg_ok.host, protocol_test_facts, repaired_cfg_ok.proto]
  exact ⟨rfl, rfl⟩

end Aiorpcx.C18
