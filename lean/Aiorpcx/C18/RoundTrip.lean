import Aiorpcx.C18.Dec
/-!
# C18 — ports as strings, `_split_address`, and the print/parse round trips, for any configuration
that validates exactly the property's grammar (`CfgOK`) and any IPv6 library obeying `IPLaws`
-/
namespace Aiorpcx.C18

/-- what the round trips need from a configuration (proved for the generated facts in `Props`) -/
structure CfgOK (cfg : Cfg) : Prop where
  host : ∀ s, isValidHostnameStr cfg s = Spec.hostname s
  proto : ∀ s, cfg.protocol.test s = Spec.protocol s
  lo : cfg.portLo = 1
  hi : cfg.portHi = 65535
  digits : cfg.maxStrDigits = 0 ∨ 5 ≤ cfg.maxStrDigits

/-- the laws assumed of the IPv6 half of `ipaddress` -/
structure IPLaws {α : Type} (L : IPLib α) : Prop where
  /-- `IPv6Address(str(ip)) == ip` -/
  roundtrip : ∀ x, L.parse6 (L.show6 x) = some x
  /-- the text of an IPv6 address contains a colon -/
  colon : ∀ x, 58 ∈ L.show6 x

/-! ## ports given as strings -/

theorem decimalVal_ascii (c : Nat) (h : isAsciiDigit c = true) : decimalVal c = some (c - 48) := by
  simp only [isAsciiDigit, Bool.and_eq_true, decide_eq_true_eq] at h
  unfold decimalVal decimalRuns
  rw [decimalValIn]
  simp [h]

theorem decimalFold_ascii (s : Str) (v : Nat) (h : s.all isAsciiDigit = true) :
    decimalFold s v = some (s.foldl (fun v c => 10 * v + (c - 48)) v) := by
  induction s generalizing v with
  | nil => rfl
  | cons c r ih =>
    simp only [List.all_cons, Bool.and_eq_true] at h
    simp only [decimalFold, decimalVal_ascii c h.1, List.foldl_cons]
    exact ih _ h.2

theorem isDigitStr_ascii (s : Str) (hne : s ≠ []) (h : s.all isAsciiDigit = true) :
    isDigitStr s = true := by
  unfold isDigitStr
  have e1 : s.isEmpty = false := by cases s <;> simp_all
  simp only [e1, Bool.not_false, Bool.true_and, List.all_eq_true]
  intro c hc
  have := List.all_eq_true.mp h c hc
  simp [isDigitChar, decimalVal_ascii c this]

/-- a non-empty string of ASCII digits within the interpreter's digit limit is accepted as a
port exactly when its decimal value is in `portLo..portHi` -/
theorem validatePort_ascii {α : Type} (cfg : Cfg) (s : Str) (hne : s ≠ [])
    (hd : s.all isAsciiDigit = true) (hlen : cfg.maxStrDigits = 0 ∨ s.length ≤ cfg.maxStrDigits) :
    validatePort (α := α) cfg (.str s) = portRange cfg (Int.ofNat (parseDec s)) := by
  unfold validatePort
  simp only [isDigitStr_ascii s hne hd, ↓reduceIte, pyIntOfDigits]
  have : ¬ (cfg.maxStrDigits ≠ 0 ∧ s.length > cfg.maxStrDigits) := by omega
  simp only [this, ↓reduceIte, decimalFold_ascii s 0 hd]
  rfl

theorem validatePort_showDec {α : Type} (cfg : Cfg) (ok : CfgOK cfg) (p : Nat)
    (h1 : 1 ≤ p) (h2 : p ≤ 65535) :
    validatePort (α := α) cfg (.str (showDec p)) = .ok (Int.ofNat p) := by
  obtain ⟨i1, i2, i3, _⟩ := showDec_spec p
  have hl : (showDec p).length ≤ 5 := showDec_length_le 4 p (by omega)
  have hd := ok.digits
  rw [validatePort_ascii cfg _ i1 i2 (by omega), i3]
  unfold portRange
  rw [ok.lo, ok.hi]
  have hpos : (1 : Int) ≤ Int.ofNat p ∧ Int.ofNat p ≤ 65535 := by
    constructor <;> simp <;> omega
  rw [if_pos hpos]

/-! ## list helpers -/

theorem getLast?_append_ne (l₁ l₂ : Str) (h : l₂ ≠ []) : (l₁ ++ l₂).getLast? = l₂.getLast? := by
  induction l₁ with
  | nil => rfl
  | cons x r ih =>
    cases hr : r ++ l₂ with
    | nil => simp at hr; exact absurd hr.2 h
    | cons y t =>
      rw [List.cons_append, hr, List.getLast?_cons_cons, ← hr, ih]

theorem getLast?_mem {l : Str} {c : Nat} (h : l.getLast? = some c) : c ∈ l := by
  induction l with
  | nil => simp at h
  | cons x r ih =>
    cases r with
    | nil => simp at h; simp [h]
    | cons y t =>
      rw [List.getLast?_cons_cons] at h
      exact List.mem_cons_of_mem _ (ih h)

theorem eq_dropLast_append {l : Str} {c : Nat} (h : l.getLast? = some c) :
    l = l.dropLast ++ [c] := by
  induction l with
  | nil => simp at h
  | cons x r ih =>
    cases r with
    | nil => simp at h; simp [h]
    | cons y t =>
      rw [List.getLast?_cons_cons] at h
      have := ih h
      simp only [List.dropLast_cons_cons, List.cons_append]
      rw [← this]

theorem findIdx_append (c : Nat) (h r : Str) (hn : c ∉ h) :
    findIdx c (h ++ c :: r) = some h.length := by
  induction h with
  | nil => simp [findIdx]
  | cons x t ih =>
    have hx : x ≠ c := fun e => hn (by simp [e])
    have ht : c ∉ t := fun e => hn (by simp [e])
    simp [findIdx, hx, ih ht]

theorem rfindIdx_none (c : Nat) (r : Str) (hn : c ∉ r) : rfindIdx c r = none := by
  induction r with
  | nil => rfl
  | cons x t ih =>
    have hx : x ≠ c := fun e => hn (by simp [e])
    have ht : c ∉ t := fun e => hn (by simp [e])
    simp [rfindIdx, ih ht, hx]

theorem rfindIdx_append (c : Nat) (h r : Str) (hn : c ∉ r) :
    rfindIdx c (h ++ c :: r) = some h.length := by
  induction h with
  | nil => simp [rfindIdx, rfindIdx_none c r hn]
  | cons x t ih => simp [rfindIdx, ih]

/-! ## `_split_address` -/

/-- `host:port` where the host neither starts with `[` nor contains a colon -/
theorem splitAddress_plain (h p : Str) (h0 : h.head? ≠ some 91) (h1 : 58 ∉ h) :
    splitAddress (h ++ 58 :: p) = (h, p) := by
  unfold splitAddress
  have hh : (h ++ 58 :: p).head? ≠ some 91 := by
    cases h with
    | nil => simp
    | cons x t => simpa using h0
  simp only [hh, ↓reduceIte, findIdx_append 58 h p h1]
  simp

/-- `[host]:port` where the port contains no `]` -/
theorem splitAddress_bracket (h p : Str) (hp : 93 ∉ p) :
    splitAddress (91 :: (h ++ 93 :: 58 :: p)) = (h, p) := by
  unfold splitAddress
  have e : rfindIdx 93 (91 :: (h ++ 93 :: 58 :: p)) = some (h.length + 1) := by
    have : 93 ∉ 58 :: p := by
      intro hm
      rcases List.mem_cons.mp hm with h58 | h'
      · omega
      · exact hp h'
    have := rfindIdx_append 93 (91 :: h) (58 :: p) this
    simpa using this
  simp only [List.head?_cons, ↓reduceIte, e]
  have l1 : (91 :: (h ++ 93 :: 58 :: p)).length ≠ h.length + 1 + 1 := by
    simp
  have l2 : (91 :: (h ++ 93 :: 58 :: p))[h.length + 1 + 1]? = some 58 := by
    have : (91 :: (h ++ 93 :: 58 :: p)) = (91 :: h ++ [93]) ++ 58 :: p := by simp
    rw [this, List.getElem?_append_right (by simp)]
    simp
  simp only [l1, ↓reduceIte, l2]
  have t1 : (List.take (h.length + 1) (91 :: (h ++ 93 :: 58 :: p))).drop 1 = h := by
    simp
  have t2 : List.drop (h.length + 1 + 2) (91 :: (h ++ 93 :: 58 :: p)) = p := by
    have : (91 :: (h ++ 93 :: 58 :: p)) = (91 :: h ++ [93, 58]) ++ p := by simp
    rw [this, List.drop_append]
    simp
  rw [t1, t2]

/-! ## characters of valid host names, dotted quads and protocols -/

theorem hostname_chars {s : Str} (h : Spec.hostname s = true) :
    ∀ c ∈ s, Spec.labelChar c = true ∨ c = 46 := by
  unfold Spec.hostname at h
  simp only [Bool.and_eq_true, decide_eq_true_eq, List.all_eq_true] at h
  obtain ⟨_, hall, _⟩ := h
  have ht : ∀ c ∈ stripDot s, Spec.labelChar c = true ∨ c = 46 := by
    intro c hc
    rcases mem_splitOn 46 (stripDot s) c hc with h1 | ⟨l, hl, hcl⟩
    · exact Or.inr h1
    · have := hall l hl
      unfold Spec.label at this
      simp only [Bool.and_eq_true, List.all_eq_true] at this
      exact Or.inl (this.1.2 c hcl)
  intro c hc
  unfold stripDot at ht
  by_cases hd : s.getLast? = some 46
  · simp only [hd, ↓reduceIte] at ht
    have hs := eq_dropLast_append hd
    rw [hs] at hc
    rcases List.mem_append.mp hc with h1 | h2
    · exact ht c h1
    · simp at h2; exact Or.inr h2
  · simp only [hd, ↓reduceIte] at ht
    exact ht c hc

theorem hostname_no_colon {s : Str} (h : Spec.hostname s = true) :
    58 ∉ s ∧ s.head? ≠ some 91 := by
  have hc := hostname_chars h
  constructor
  · intro hm
    rcases hc 58 hm with h1 | h1
    · simp [Spec.labelChar, Spec.isLetter, Spec.isDigit] at h1
    · omega
  · intro hh
    cases s with
    | nil => simp at hh
    | cons x r =>
      simp at hh
      subst hh
      rcases hc 91 (by simp) with h1 | h1
      · simp [Spec.labelChar, Spec.isLetter, Spec.isDigit] at h1
      · omega

/-- a string containing a colon is not a host name -/
theorem hostname_false_of_colon {s : Str} (h : 58 ∈ s) : Spec.hostname s = false := by
  cases hs : Spec.hostname s
  · rfl
  · exact absurd h (hostname_no_colon hs).1

/-- a string containing a colon is not an IPv4 literal -/
theorem parse4_none_of_colon {s : Str} (h : 58 ∈ s) : parse4 s = none := by
  cases hp : parse4 s with
  | none => rfl
  | some x =>
    rcases (parse4_chars hp).1 58 h with h1 | h1
    · simp [isAsciiDigit] at h1
    · omega

theorem splitOn_show4 (x : IP4) :
    splitOn 46 (show4 x) = [showDec x.a, showDec x.b, showDec x.c, showDec x.d] := by
  have na := isAsciiDigit_ne_dot (showDec_spec x.a).2.1
  have nb := isAsciiDigit_ne_dot (showDec_spec x.b).2.1
  have nc := isAsciiDigit_ne_dot (showDec_spec x.c).2.1
  have nd := isAsciiDigit_ne_dot (showDec_spec x.d).2.1
  unfold show4
  rw [splitOn_append 46 _ _ na, splitOn_append 46 _ _ nb, splitOn_append 46 _ _ nc,
    splitOn_no_sep 46 _ nd]

theorem show4_chars (x : IP4) : ∀ c ∈ show4 x, isAsciiDigit c = true ∨ c = 46 := by
  intro c hc
  unfold show4 at hc
  simp only [List.mem_append, List.mem_cons] at hc
  have d := fun n => List.all_eq_true.mp (showDec_spec n).2.1 c
  rcases hc with h | h | h | h | h | h | h
  · exact Or.inl (d _ h)
  · exact Or.inr h
  · exact Or.inl (d _ h)
  · exact Or.inr h
  · exact Or.inl (d _ h)
  · exact Or.inr h
  · exact Or.inl (d _ h)

theorem show4_no_colon (x : IP4) : 58 ∉ show4 x ∧ (show4 x).head? ≠ some 91 := by
  have hc := show4_chars x
  constructor
  · intro hm
    rcases hc 58 hm with h1 | h1
    · simp [isAsciiDigit] at h1
    · omega
  · intro hh
    cases hs : show4 x with
    | nil => rw [hs] at hh; simp at hh
    | cons y r =>
      rw [hs] at hh hc
      simp at hh
      subst hh
      rcases hc 91 (by simp) with h1 | h1
      · simp [isAsciiDigit] at h1
      · omega

/-- a dotted quad is never a host name: its last label is all digits -/
theorem hostname_show4 (x : IP4) : Spec.hostname (show4 x) = false := by
  obtain ⟨dne, dall, _, _⟩ := showDec_spec x.d
  have hstrip : stripDot (show4 x) = show4 x := by
    unfold stripDot
    have : (show4 x).getLast? ≠ some 46 := by
      intro hl
      have e : show4 x = (showDec x.a ++ (46 :: (showDec x.b ++ (46 :: (showDec x.c ++ [46]))))) ++ showDec x.d := by
        simp [show4]
      rw [e, getLast?_append_ne _ _ dne] at hl
      exact isAsciiDigit_ne_dot dall (getLast?_mem hl)
    simp [this]
  unfold Spec.hostname
  simp only [hstrip, splitOn_show4, List.getLastD_cons, List.getLastD_nil]
  have : (showDec x.d).all Spec.isDigit = true := dall
  simp [this]

/-! ## `NetAddress` -/

def NetAddr.Valid {α : Type} (a : NetAddr α) : Prop :=
  1 ≤ a.port ∧ a.port ≤ 65535 ∧
  match a.host with
  | .name s => Spec.hostname s = true
  | .ip4 x => x.valid
  | .ip6 _ => True

/-- arguments a caller can actually pass: `IPv4Address` objects are well-formed -/
def PyVal.WF {α : Type} : PyVal α → Prop
  | .ip4 x => x.valid
  | _ => True

theorem classifyHost_str {α : Type} (L : IPLib α) (cfg : Cfg) (ok : CfgOK cfg) (s : Str) :
    classifyHost L cfg (.str s) =
      if Spec.hostname s then .ok (.name s)
      else match ipAddress L s with
        | some h => .ok h
        | none => .error .valueError := by
  unfold classifyHost
  simp only
  rw [ok.host]
  rfl

theorem portRange_ok {cfg : Cfg} (ok : CfgOK cfg) {n p : Int} (h : portRange cfg n = .ok p) :
    p = n ∧ 1 ≤ n ∧ n ≤ 65535 := by
  unfold portRange at h
  rw [ok.lo, ok.hi] at h
  split at h
  · rename_i hh
    simp only [Except.ok.injEq] at h
    exact ⟨h.symm, hh⟩
  · simp at h

theorem validatePort_range {α : Type} {cfg : Cfg} (ok : CfgOK cfg) {v : PyVal α} {p : Int}
    (h : validatePort cfg v = .ok p) : 1 ≤ p ∧ p ≤ 65535 := by
  unfold validatePort at h
  split at h
  · have := portRange_ok ok h; omega
  · have := portRange_ok ok h; omega
  · split at h
    · split at h
      · have := portRange_ok ok h; omega
      · simp at h
    · simp at h
  · simp at h

/-- whatever `NetAddress(host, port)` constructs is valid -/
theorem mkNetAddress_valid {α : Type} (L : IPLib α) (cfg : Cfg) (ok : CfgOK cfg)
    (host port : PyVal α) (hwf : host.WF) (a : NetAddr α)
    (h : mkNetAddress L cfg host port = .ok a) : a.Valid := by
  unfold mkNetAddress at h
  split at h
  · simp at h
  · rename_i hst hc
    split at h
    · simp at h
    · rename_i p hp
      simp only [Except.ok.injEq] at h
      subst h
      have hr := validatePort_range ok hp
      refine ⟨hr.1, hr.2, ?_⟩
      simp only
      cases host with
      | ip4 x => simp only [classifyHost, Except.ok.injEq] at hc; subst hc; exact hwf
      | ip6 x => simp only [classifyHost, Except.ok.injEq] at hc; subst hc; trivial
      | str s =>
        rw [classifyHost_str L cfg ok] at hc
        split at hc
        · rename_i hh
          simp only [Except.ok.injEq] at hc; subst hc; exact hh
        · split at hc
          · rename_i h' hip
            simp only [Except.ok.injEq] at hc; subst hc
            unfold ipAddress at hip
            split at hip
            · rename_i x hx
              simp only [Option.some.injEq] at hip; subst hip
              exact (parse4_chars hx).2
            · cases h6 : L.parse6 s with
              | none => simp [h6] at hip
              | some y => simp [h6] at hip; subst hip; trivial
          · simp at hc
      | int _ => simp [classifyHost] at hc
      | bool _ => simp [classifyHost] at hc
      | none => simp [classifyHost] at hc
      | other => simp [classifyHost] at hc

theorem showInt_pos (n : Int) (h : 1 ≤ n) : showInt n = showDec n.toNat ∧ Int.ofNat n.toNat = n := by
  cases n with
  | ofNat k => exact ⟨rfl, rfl⟩
  | negSucc k => omega

theorem showDec_no_bracket (p : Nat) : 93 ∉ showDec p := by
  intro hm
  have := List.all_eq_true.mp (showDec_spec p).2.1 93 hm
  simp [isAsciiDigit] at this

/-- printing a valid `NetAddress` and parsing the text back gives an equal object -/
theorem netaddr_roundtrip {α : Type} (L : IPLib α) (laws : IPLaws L) (cfg : Cfg) (ok : CfgOK cfg)
    (a : NetAddr α) (hv : a.Valid) :
    NetAddr.fromString L cfg (.str (a.toStr L)) = .ok a := by
  obtain ⟨host, port⟩ := a
  obtain ⟨p1, p2, hh⟩ := hv
  simp only at p1 p2 hh
  obtain ⟨e1, e2⟩ := showInt_pos port p1
  have hport : validatePort (α := α) cfg (.str (showDec port.toNat)) = .ok port := by
    rw [validatePort_showDec cfg ok port.toNat (by omega) (by omega), e2]
  unfold NetAddr.fromString
  cases host with
  | name s =>
    have hn := hostname_no_colon hh
    simp only [NetAddr.toStr, Host.toStr, e1, splitAddress_plain s _ hn.2 hn.1]
    simp only [mkNetAddress, classifyHost_str L cfg ok, hh, ↓reduceIte, hport]
  | ip4 x =>
    have hn := show4_no_colon x
    simp only [NetAddr.toStr, Host.toStr, e1, splitAddress_plain (show4 x) _ hn.2 hn.1]
    simp only [mkNetAddress, classifyHost_str L cfg ok, hostname_show4, Bool.false_eq_true,
      ↓reduceIte, ipAddress, parse4_show4 x hh, hport]
  | ip6 x =>
    simp only [NetAddr.toStr, e1, splitAddress_bracket (L.show6 x) _ (showDec_no_bracket _)]
    have hc := laws.colon x
    simp only [mkNetAddress, classifyHost_str L cfg ok, hostname_false_of_colon hc,
      Bool.false_eq_true, ↓reduceIte, ipAddress, parse4_none_of_colon hc, laws.roundtrip x,
      Option.map_some, hport]

/-! ## `Service` -/

def Service.Valid {α : Type} (s : Service α) : Prop :=
  Spec.protocol s.protocol = true ∧ lower s.protocol = s.protocol ∧ s.address.Valid

theorem lowerChar_idem (c : Nat) : lowerChar (lowerChar c) = lowerChar c := by
  unfold lowerChar
  by_cases h : 65 ≤ c ∧ c ≤ 90
  · have h2 : ¬ (65 ≤ c + 32 ∧ c + 32 ≤ 90) := by omega
    simp [h]; omega
  · simp [h]

theorem lower_idem (s : Str) : lower (lower s) = lower s := by
  simp [lower, List.map_map, Function.comp_def, lowerChar_idem]

theorem isLetter_lower (c : Nat) : Spec.isLetter (lowerChar c) = Spec.isLetter c := by
  unfold lowerChar Spec.isLetter
  rw [Bool.eq_iff_iff]
  split <;> simp <;> omega

theorem protoTail_lower (c : Nat) : Spec.protoTailChar (lowerChar c) = Spec.protoTailChar c := by
  unfold lowerChar Spec.protoTailChar Spec.isLetter Spec.isDigit
  rw [Bool.eq_iff_iff]
  split <;> simp <;> omega

theorem protocol_lower (s : Str) : Spec.protocol (lower s) = Spec.protocol s := by
  cases s with
  | nil => rfl
  | cons c r =>
    simp only [lower, List.map_cons, Spec.protocol, isLetter_lower, List.isEmpty_map, List.all_map,
      Function.comp_def, protoTail_lower]

theorem protocol_no_colon {s : Str} (h : Spec.protocol s = true) : 58 ∉ s := by
  cases s with
  | nil => simp [Spec.protocol] at h
  | cons c r =>
    simp only [Spec.protocol, Bool.and_eq_true, List.all_eq_true] at h
    intro hm
    rcases List.mem_cons.mp hm with h1 | h1
    · subst h1; simp [Spec.isLetter] at h
    · have := h.2.2 58 h1
      simp [Spec.protoTailChar, Spec.isLetter, Spec.isDigit] at this

theorem splitOnce_scheme (p a : Str) (hp : 58 ∉ p) :
    splitOnce schemeSep (p ++ schemeSep ++ a) = some (p, a) := by
  induction p with
  | nil => simp [splitOnce, schemeSep, isPrefix]
  | cons x t ih =>
    have hx : x ≠ 58 := fun e => hp (by simp [e])
    have ht : 58 ∉ t := fun e => hp (by simp [e])
    have hx' : (58 == x) = false := by simp; omega
    simp only [List.cons_append, splitOnce, schemeSep, isPrefix, hx', Bool.false_and,
      Bool.false_eq_true, ↓reduceIte]
    have := ih ht
    simp only [schemeSep] at this
    simp only [List.append_assoc, List.cons_append, List.nil_append] at this ⊢
    rw [this]

theorem validateProtocol_str {α : Type} (cfg : Cfg) (ok : CfgOK cfg) (s : Str) :
    validateProtocol (α := α) cfg (.str s) =
      if Spec.protocol s then .ok (lower s) else .error .valueError := by
  simp only [validateProtocol, ok.proto]

/-- whatever `Service(protocol, address)` constructs (from a valid `NetAddress` object or from an
address string) is valid -/
theorem mkService_valid {α : Type} (L : IPLib α) (cfg : Cfg) (ok : CfgOK cfg)
    (protocol : PyVal α) (address : AddrArg α)
    (haddr : ∀ a, address = .obj a → a.Valid) (s : Service α)
    (h : mkService L cfg protocol address = .ok s) : s.Valid := by
  unfold mkService at h
  split at h
  · simp at h
  · rename_i p hp
    have hpv : Spec.protocol p = true ∧ lower p = p := by
      cases protocol with
      | str t =>
        rw [validateProtocol_str cfg ok] at hp
        split at hp
        · rename_i ht
          simp only [Except.ok.injEq] at hp; subst hp
          exact ⟨by rw [protocol_lower]; exact ht, lower_idem t⟩
        · simp at hp
      | int _ => simp [validateProtocol] at hp
      | bool _ => simp [validateProtocol] at hp
      | ip4 _ => simp [validateProtocol] at hp
      | ip6 _ => simp [validateProtocol] at hp
      | none => simp [validateProtocol] at hp
      | other => simp [validateProtocol] at hp
    split at h
    · rename_i a
      simp only [Except.ok.injEq] at h; subst h
      exact ⟨hpv.1, hpv.2, haddr a rfl⟩
    · rename_i v
      split at h
      · simp at h
      · rename_i a ha
        simp only [Except.ok.injEq] at h; subst h
        refine ⟨hpv.1, hpv.2, ?_⟩
        cases v with
        | str t =>
          simp only [NetAddr.fromString] at ha
          exact mkNetAddress_valid L cfg ok (.str _) (.str _) trivial a ha
        | int _ => simp [NetAddr.fromString] at ha
        | bool _ => simp [NetAddr.fromString] at ha
        | ip4 _ => simp [NetAddr.fromString] at ha
        | ip6 _ => simp [NetAddr.fromString] at ha
        | none => simp [NetAddr.fromString] at ha
        | other => simp [NetAddr.fromString] at ha

/-- printing a valid `Service` and parsing the text back gives an equal object -/
theorem service_roundtrip_of {α : Type} (L : IPLib α) (laws : IPLaws L) (cfg : Cfg) (ok : CfgOK cfg)
    (s : Service α) (hv : s.Valid) :
    Service.fromString L cfg (.str (s.toStr L)) = .ok s := by
  obtain ⟨proto, addr⟩ := s
  obtain ⟨h1, h2, h3⟩ := hv
  simp only at h1 h2 h3
  unfold Service.fromString Service.toStr
  simp only [splitOnce_scheme proto _ (protocol_no_colon h1), netaddr_roundtrip L laws cfg ok addr h3]
  simp only [mkService, validateProtocol_str cfg ok, h1, ↓reduceIte, h2]

end Aiorpcx.C18
