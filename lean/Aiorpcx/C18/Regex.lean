/-!
# C18 — Python `re` semantics for the "linear" regex fragment used by `aiorpcx/util.py`

A compiled pattern is represented in the normal form the facts extractor obtains from
`re._parser.parse(pattern, flags)`:

* a *class atom* is the set of code points the real engine accepts at that position **after
  flag application** (sorted, disjoint code-point ranges) with a counted repetition
  `{min,max}` (`max = none` is unbounded);
* `^` (`AT_BEGINNING`, no `MULTILINE`), `$` (`AT_END`: at the end **or just before a final
  newline**) and `\Z` (`AT_END_STRING`: at the end only);
* one level of optional group `( … )?`.

`pyMatch rx mode s` says whether `re.match` / `fullmatch` / `search` returns a match object.
For these constructs (no atomic groups, no possessive quantifiers, no back-references) the
backtracking engine finds a match iff one exists, so greedy/lazy order is irrelevant for the
Boolean outcome and the semantics below is the existential one, written with continuations.

No Mathlib import: the driver links this file.
-/
namespace Aiorpcx.C18

/-- Python `str`: a list of code points (lone surrogates are ordinary elements) -/
abbrev Str := List Nat

/-- a character class: code-point ranges, both ends inclusive -/
abbrev Cls := List (Nat × Nat)

def inCls (rs : Cls) (c : Nat) : Bool := rs.any fun r => r.1 ≤ c && c ≤ r.2

inductive EndKind where
  | dollar   -- `$`  = AT_END: end of string, or just before a newline that ends the string
  | bigZ     -- `\Z` = AT_END_STRING: end of string only
  deriving DecidableEq, Repr

inductive Atom where
  | cls (c : Cls) (min : Nat) (max : Option Nat)
  | bos                       -- `^` / `\A`
  | eos (k : EndKind)
  deriving DecidableEq, Repr

inductive Item where
  | atom (a : Atom)
  | opt (g : List Atom)       -- `( … )?`
  deriving DecidableEq, Repr

abbrev LinearRegex := List Item

/-- how the compiled pattern is applied at its call site -/
inductive Mode where
  | «match» | fullmatch | search
  deriving DecidableEq, Repr

def atEnd : EndKind → Str → Bool
  | .dollar, r => r == [] || r == [10]
  | .bigZ, r => r == []

/-- `c{mn,mx}` followed by the continuation `k`; the `Bool` is "still at position 0" -/
def rep (c : Cls) (k : Bool → Str → Bool) : Nat → Option Nat → Bool → Str → Bool
  | mn, _, a, [] => mn == 0 && k a []
  | mn, mx, a, x :: r =>
      (mn == 0 && k a (x :: r)) ||
      (match mx with
       | some 0 => false
       | some (m + 1) => inCls c x && rep c k (mn - 1) (some m) false r
       | none => inCls c x && rep c k (mn - 1) none false r)

def matchAtoms : List Atom → (Bool → Str → Bool) → Bool → Str → Bool
  | [], k, a, s => k a s
  | .cls c mn mx :: as, k, a, s => rep c (matchAtoms as k) mn mx a s
  | .bos :: as, k, a, s => a && matchAtoms as k a s
  | .eos e :: as, k, a, s => atEnd e s && matchAtoms as k a s

def matchItems : List Item → (Bool → Str → Bool) → Bool → Str → Bool
  | [], k, a, s => k a s
  | .atom x :: is, k, a, s => matchAtoms [x] (matchItems is k) a s
  | .opt g :: is, k, a, s => matchAtoms g (matchItems is k) a s || matchItems is k a s

/-- what must hold where the pattern ends -/
def finalK : Mode → Bool → Str → Bool
  | .fullmatch, _, r => r == []
  | _, _, _ => true

def matchAt (rx : LinearRegex) (m : Mode) (a : Bool) (s : Str) : Bool :=
  matchItems rx (finalK m) a s

/-- `search`: try every start position, left to right -/
def searchFrom (rx : LinearRegex) : Bool → Str → Bool
  | a, [] => matchAt rx .search a []
  | a, x :: r => matchAt rx .search a (x :: r) || searchFrom rx false r

/-- does `pattern.<mode>(s)` return a match object? -/
def pyMatch (rx : LinearRegex) (m : Mode) (s : Str) : Bool :=
  match m with
  | .search => searchFrom rx true s
  | m => matchAt rx m true s

end Aiorpcx.C18
