import Aiorpcx.C18.Model
/-!
# C18 — the property's grammar, written from the property text (independent of the regexes)

"A string is accepted as a host name exactly when, ignoring one trailing dot, it is 1-253
characters of dot-separated labels of 1-63 letters, digits, hyphens or underscores that neither
begin nor end with a hyphen and whose last label is not all digits; … ports are accepted exactly
in 1-65535, and protocol names exactly when they are a letter followed by one or more letters,
digits, '+', '-' or '.'."
-/
namespace Aiorpcx.C18.Spec

def isLetter (c : Nat) : Bool := (65 ≤ c && c ≤ 90) || (97 ≤ c && c ≤ 122)
def isDigit (c : Nat) : Bool := 48 ≤ c && c ≤ 57

/-- letter, digit, `+`, `-` or `.` -/
def protoTailChar (c : Nat) : Bool := isLetter c || isDigit c || c == 43 || c == 45 || c == 46

/-- a letter followed by one or more letters, digits, `+`, `-` or `.` -/
def protocol : Str → Bool
  | [] => false
  | c :: r => isLetter c && (!r.isEmpty && r.all protoTailChar)

/-- letter, digit, hyphen or underscore -/
def labelChar (c : Nat) : Bool := isLetter c || isDigit c || c == 45 || c == 95

/-- 1-63 label characters, neither beginning nor ending with a hyphen -/
def label (l : Str) : Bool :=
  decide (1 ≤ l.length) && decide (l.length ≤ 63) && l.all labelChar &&
    (l.head? != some 45 && l.getLast? != some 45)

/-- ignoring one trailing dot: 1-253 characters of dot-separated labels, last label not all digits -/
def hostname (s : Str) : Bool :=
  let t := stripDot s
  decide (1 ≤ t.length) && decide (t.length ≤ 253) &&
    ((splitOn 46 t).all label && !((splitOn 46 t).getLastD []).all isDigit)

def port (n : Int) : Bool := decide (1 ≤ n) && decide (n ≤ 65535)

end Aiorpcx.C18.Spec
