import Aiorpcx.C18.Spec
/-!
# C18 — counter-examples on the pinned tree (kept as theorems; replayed on the code by the harness)

`pinned` is the configuration of the *unrepaired* `util.py` (`Model.lean`); `validatePortPinned`,
`splitAddressPinned`, `NetAddr.fromStringPinned` are the unrepaired variants of the two functions
changed by fixes/F20 and fixes/F21.
-/
namespace Aiorpcx.C18

def okIs {β : Type} [DecidableEq β] (r : Except PyExc β) (v : β) : Bool :=
  match r with
  | .ok x => decide (x = v)
  | .error _ => false

def errIs {β : Type} (r : Except PyExc β) (e : PyExc) : Bool :=
  match r with
  | .ok _ => false
  | .error x => decide (x = e)

/-- F1: the class `[A-Za-z0-9+-.]` is the range `+`..`.` and contains `,`;
    F2: `$` matches before a trailing newline.  The repaired configuration refuses both. -/
theorem protocol_pinned_witness :
    okIs (validateProtocol (α := Unit) pinned (.str [116, 44, 112])) [116, 44, 112] = true ∧
    Spec.protocol [116, 44, 112] = false ∧
    okIs (validateProtocol (α := Unit) pinned (.str [116, 99, 112, 10])) [116, 99, 112, 10] = true ∧
    Spec.protocol [116, 99, 112, 10] = false ∧
    errIs (validateProtocol (α := Unit) repaired (.str [116, 44, 112])) .valueError = true ∧
    errIs (validateProtocol (α := Unit) repaired (.str [116, 99, 112, 10])) .valueError = true := by
  decide

/-- F2: `"ex.com\n"` and F3: `"ſ.com"`, `"K.com"` (Kelvin sign), `"İ.com"`, `"ı.com"` are accepted as
    host names by the pinned regexes (IGNORECASE on a `str` pattern folds these four letters into
    `[a-z]`), although none is in the property's grammar.  The repaired configuration refuses. -/
theorem hostname_pinned_witness :
    isValidHostnameStr pinned [101, 120, 46, 99, 111, 109, 10] = true ∧
    Spec.hostname [101, 120, 46, 99, 111, 109, 10] = false ∧
    isValidHostnameStr pinned [383, 46, 99, 111, 109] = true ∧
    Spec.hostname [383, 46, 99, 111, 109] = false ∧
    isValidHostnameStr pinned [8490, 46, 99, 111, 109] = true ∧
    isValidHostnameStr pinned [304, 46, 99, 111, 109] = true ∧
    isValidHostnameStr pinned [305, 46, 99, 111, 109] = true ∧
    isValidHostnameStr repaired [101, 120, 46, 99, 111, 109, 10] = false ∧
    isValidHostnameStr repaired [383, 46, 99, 111, 109] = false := by
  decide

def noV6 : IPLib Unit := { parse6 := fun _ => none, show6 := fun _ => [] }

/-- F20: the pinned `validate_port(True)` returns `True`, which `NetAddress.__str__` prints as
    `True`; `"a.b:True"` does not parse back. -/
theorem port_bool_pinned_witness :
    okIs (validatePortPinned (α := Unit) repaired (.bool true)) (.bool true) = true ∧
    (PortObj.bool true).toStr = [84, 114, 117, 101] ∧
    errIs (NetAddr.fromString noV6 repaired
      (.str ([97, 46, 98, 58] ++ (PortObj.bool true).toStr))) .valueError = true := by
  decide

/-- one IPv6 address with a zone id that contains `]` (accepted by `ipaddress`): `::1%]` -/
def zoneLib : IPLib Unit :=
  { parse6 := fun s => if s = [58, 58, 49, 37, 93] then some () else none,
    show6 := fun _ => [58, 58, 49, 37, 93] }

/-- F21: `str(NetAddress('::1%]', 80))` is `"[::1%]]:80"`; the pinned `_split_address` cuts at the
    first `]` and the text does not parse back; with `rfind` it does. -/
theorem split_pinned_witness :
    (⟨.ip6 (), 80⟩ : NetAddr Unit).toStr zoneLib = [91, 58, 58, 49, 37, 93, 93, 58, 56, 48] ∧
    splitAddressPinned [91, 58, 58, 49, 37, 93, 93, 58, 56, 48] = ([91], [58, 49, 37, 93, 93, 58, 56, 48]) ∧
    errIs (NetAddr.fromStringPinned zoneLib repaired
      (.str [91, 58, 58, 49, 37, 93, 93, 58, 56, 48])) .valueError = true ∧
    okIs (NetAddr.fromString zoneLib repaired
      (.str [91, 58, 58, 49, 37, 93, 93, 58, 56, 48])) ⟨.ip6 (), 80⟩ = true := by
  decide

end Aiorpcx.C18
