import Aiorpcx.C18.RoundTrip
/-!
# C18 — the `default_func` paths of `NetAddress.from_string` / `Service.from_string`
-/
namespace Aiorpcx.C18

theorem fromStringD_none {α : Type} (L : IPLib α) (cfg : Cfg) (v : PyVal α) :
    NetAddr.fromStringD L cfg none v = NetAddr.fromString L cfg v := by
  cases v <;> rfl

/-- defaults are used only for a missing part: when both parts are present in the text the result
is that of the plain `from_string` -/
theorem fromStringD_present {α : Type} (L : IPLib α) (cfg : Cfg) (d : Option (PyVal α × PyVal α))
    (s : Str) (h1 : (splitAddress s).1 ≠ []) (h2 : (splitAddress s).2 ≠ []) :
    NetAddr.fromStringD L cfg d (.str s) = NetAddr.fromString L cfg (.str s) := by
  cases d with
  | none => rfl
  | some dd =>
    obtain ⟨dh, dp⟩ := dd
    have e1 : (splitAddress s).1.isEmpty = false := by
      cases h : (splitAddress s).1 <;> simp_all
    have e2 : (splitAddress s).2.isEmpty = false := by
      cases h : (splitAddress s).2 <;> simp_all
    simp only [NetAddr.fromStringD, NetAddr.fromString, checkedMk, orDefault, e1, e2,
      Bool.false_eq_true, ↓reduceIte, PyVal.truthy, Bool.not_false, Bool.not_true, Bool.or_self]

theorem showDec_ne_nil (p : Nat) : showDec p ≠ [] := (showDec_spec p).1

/-- the text of a valid address always has both parts -/
theorem toStr_parts {α : Type} (L : IPLib α) (laws : IPLaws L) (a : NetAddr α) (hv : a.Valid) :
    (splitAddress (a.toStr L)).1 ≠ [] ∧ (splitAddress (a.toStr L)).2 ≠ [] := by
  obtain ⟨host, port⟩ := a
  obtain ⟨p1, _, hh⟩ := hv
  simp only at p1 hh
  obtain ⟨e1, _⟩ := showInt_pos port p1
  cases host with
  | name s =>
    have hh : Spec.hostname s = true := hh
    have hn := hostname_no_colon hh
    simp only [NetAddr.toStr, Host.toStr, e1, splitAddress_plain s _ hn.2 hn.1]
    refine ⟨?_, showDec_ne_nil _⟩
    intro h0
    rw [h0] at hh
    exact absurd hh (by decide)
  | ip4 x =>
    have hn := show4_no_colon x
    simp only [NetAddr.toStr, Host.toStr, e1, splitAddress_plain (show4 x) _ hn.2 hn.1]
    refine ⟨?_, showDec_ne_nil _⟩
    intro h0
    simp [show4] at h0
  | ip6 x =>
    simp only [NetAddr.toStr, e1, splitAddress_bracket (L.show6 x) _ (showDec_no_bracket _)]
    refine ⟨?_, showDec_ne_nil _⟩
    intro h0
    have := laws.colon x
    rw [h0] at this
    simp at this

/-- with any defaults, printing a valid `NetAddress` and parsing it back gives an equal object -/
theorem netaddr_roundtrip_defaults {α : Type} (L : IPLib α) (laws : IPLaws L) (cfg : Cfg)
    (ok : CfgOK cfg) (d : Option (PyVal α × PyVal α)) (a : NetAddr α) (hv : a.Valid) :
    NetAddr.fromStringD L cfg d (.str (a.toStr L)) = .ok a := by
  obtain ⟨h1, h2⟩ := toStr_parts L laws a hv
  rw [fromStringD_present L cfg d _ h1 h2]
  exact netaddr_roundtrip L laws cfg ok a hv

/-- with any `default_func`, printing a valid `Service` and parsing it back gives an equal object -/
theorem service_roundtrip_defaults {α : Type} (L : IPLib α) (laws : IPLaws L) (cfg : Cfg)
    (ok : CfgOK cfg) (low : PyLower) (g : SvcDefaults α) (s : Service α) (hv : s.Valid) :
    Service.fromStringD L cfg low g (.str (s.toStr L)) = .ok s := by
  obtain ⟨proto, addr⟩ := s
  obtain ⟨h1, h2, h3⟩ := hv
  simp only at h1 h2 h3
  unfold Service.fromStringD Service.toStr pickProtocol
  simp only [splitOnce_scheme proto _ (protocol_no_colon h1), withProtocol,
    netaddr_roundtrip_defaults L laws cfg ok _ addr h3]
  simp only [mkService, validateProtocol_str cfg ok, h1, ↓reduceIte, h2]

end Aiorpcx.C18
