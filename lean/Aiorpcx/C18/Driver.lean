import Aiorpcx.Common.Hex
import Aiorpcx.C18.Model
/-! Line-protocol driver for the C18 model (does **not** import the generated facts, so it builds
    even when a proof obligation over the facts no longer checks).

    strings : `-` (empty) or dot-separated hex code points, e.g. `74.2c.70`
    values  : `s:<string>` | `i:<int>` | `b:0` | `b:1` | `4:<a>.<b>.<c>.<d>` | `6:<string>` | `o`
    IPv6    : the `IPLib` parameter is instantiated by a table `<string>=<canonical string>` given
              after a `|` on the line (the graph of the real `ipaddress` on the strings concerned)

    lower   : `str.lower()` (the `PyLower` parameter) is ASCII lower-casing unless the line gives
              its value on a string as a token `L:<string>=<lowered string>` after the `|`

    ops (see `handle`): proto host classify port split ip4 show4 mkaddr addr svc mksvc mksvco addrd svcd
    eqaddr eqsvc rx sweep; `proto-pinned`, `host-pinned`, `split-pinned` run the pinned-tree
    variants. -/
open Aiorpcx Aiorpcx.C18

def hexNat (s : String) : Option Nat :=
  if s.isEmpty then none else
  s.toList.foldl (fun acc c => match acc, Hex.hexVal c with
    | some v, some d => some (v * 16 + d)
    | _, _ => none) (some 0)

def parseStr (s : String) : Option Str :=
  if s == "-" then some [] else (s.splitOn ".").mapM hexNat

def hexOf (n : Nat) : String := String.ofList (Nat.toDigits 16 n)

def showStr (s : Str) : String :=
  if s.isEmpty then "-" else String.intercalate "." (s.map hexOf)

abbrev V6 := Str
abbrev Table := List (Str × Str)

def lib (t : Table) : IPLib V6 :=
  { parse6 := fun s => (t.find? (fun p => p.1 == s)).map (·.2), show6 := fun x => x }

def parseIP4 (s : String) : Option IP4 :=
  match (s.splitOn ".").mapM String.toNat? with
  | some [a, b, c, d] => some ⟨a, b, c, d⟩
  | _ => none

def parseVal (s : String) : Option (PyVal V6) :=
  if s == "o" then some .other
  else if s == "n" then some .none
  else if s.startsWith "s:" then (parseStr (s.drop 2).toString).map .str
  else if s.startsWith "i:" then ((s.drop 2).toString.toInt?).map .int
  else if s == "b:0" then some (.bool false)
  else if s == "b:1" then some (.bool true)
  else if s.startsWith "4:" then (parseIP4 (s.drop 2).toString).map .ip4
  else if s.startsWith "6:" then (parseStr (s.drop 2).toString).map .ip6
  else none

def parseTable (toks : List String) : Option Table :=
  toks.mapM fun t => match t.splitOn "=" with
    | [k, v] => match parseStr k, parseStr v with
      | some k, some v => some (k, v)
      | _, _ => none
    | _ => none

def showExc : PyExc → String
  | .valueError => "ValueError"
  | .typeError => "TypeError"
  | .attributeError => "AttributeError"

def showIP4 (x : IP4) : String := s!"{x.a}.{x.b}.{x.c}.{x.d}"

def showHost : Host V6 → String
  | .name s => "N:" ++ showStr s
  | .ip4 x => "4:" ++ showIP4 x
  | .ip6 x => "6:" ++ showStr x

def showAddr (a : NetAddr V6) : String := showHost a.host ++ ":" ++ toString a.port
def showSvc (s : Service V6) : String := showStr s.protocol ++ "//" ++ showAddr s.address

def showRes {β : Type} (f : β → String) : Except PyExc β → String
  | .ok v => "ok " ++ f v
  | .error e => showExc e

/-! regex encoding: items separated by `;` — `^`, `$`, `Z`, `c<min>,<max|*>:<lo>-<hi>,…` (hex),
    `?(` atom `&` atom … `)` -/
def parseCls (s : String) : Option Cls :=
  if s.isEmpty then some [] else
  (s.splitOn ",").mapM fun r => match r.splitOn "-" with
    | [a, b] => match hexNat a, hexNat b with
      | some a, some b => some (a, b)
      | _, _ => none
    | _ => none

def parseAtom (s : String) : Option Atom :=
  if s == "^" then some .bos
  else if s == "$" then some (.eos .dollar)
  else if s == "Z" then some (.eos .bigZ)
  else if s.startsWith "c" then
    match (s.drop 1).toString.splitOn ":" with
    | [bounds, cls] =>
      match bounds.splitOn ",", parseCls cls with
      | [mn, mx], some c =>
        match mn.toNat?, (if mx == "*" then some none else mx.toNat?.map some) with
        | some mn, some mx => some (.cls c mn mx)
        | _, _ => none
      | _, _ => none
    | _ => none
  else none

def parseItem (s : String) : Option Item :=
  if s.startsWith "?(" && s.endsWith ")" then
    (((s.drop 2).dropEnd 1).toString.splitOn "&").mapM parseAtom |>.map .opt
  else (parseAtom s).map .atom

def parseRx (s : String) : Option LinearRegex :=
  if s == "-" then some [] else (s.splitOn ";").mapM parseItem

def parseMode (s : String) : Option Mode :=
  if s == "match" then some .match else if s == "fullmatch" then some .fullmatch
  else if s == "search" then some .search else none

/-- run-length encoding of `f lo … f hi`; outcomes are compared as values and only rendered
(`sh`) where a run ends -/
def rle {β : Type} [BEq β] (f : Nat → β) (sh : β → String) (lo hi : Nat) : String := Id.run do
  if hi < lo then return "."
  let mut out : Array String := #[]
  let mut start := lo
  let mut cur := f lo
  for c in [lo + 1 : hi + 1] do
    let r := f c
    if r != cur then
      out := out.push s!"{hexOf start}-{hexOf (c - 1)}={sh cur}"
      start := c
      cur := r
  out := out.push s!"{hexOf start}-{hexOf hi}={sh cur}"
  return String.intercalate " " out.toList

/-- an outcome as a comparable value: exception code (0 = returned) and the returned value -/
def outc {β : Type} : Except PyExc β → Nat × Option β
  | .ok v => (0, some v)
  | .error .valueError => (1, none)
  | .error .typeError => (2, none)
  | .error .attributeError => (3, none)

def showOutc {β : Type} (f : β → String) : Nat × Option β → String
  | (_, some v) => "ok_" ++ f v
  | (1, none) => "ValueError"
  | (2, none) => "TypeError"
  | (_, none) => "AttributeError"

def boolStr (b : Bool) : String := if b then "True" else "False"

def roundTripAddr (L : IPLib V6) (cfg : Cfg) (a : NetAddr V6) : String :=
  let text := a.toStr L
  let back := NetAddr.fromString L cfg (.str text)
  let eq := match back with | .ok b => decide (b = a) | .error _ => false
  s!"ok {showAddr a} {showStr text} rt={showRes showAddr back |>.replace " " "_"} eq={if eq then 1 else 0}"

def roundTripSvc (L : IPLib V6) (cfg : Cfg) (s : Service V6) : String :=
  let text := s.toStr L
  let back := Service.fromString L cfg (.str text)
  let eq := match back with | .ok b => decide (b = s) | .error _ => false
  s!"ok {showSvc s} {showStr text} rt={showRes showSvc back |>.replace " " "_"} eq={if eq then 1 else 0}"

/-- `<protocol or ~>/<h|p|r>=<value>`: one point of a `default_func(protocol, part)` -/
def parseEntry (t : String) : Option (Option Str × ServicePart × PyVal V6) :=
  match t.splitOn "=" with
  | [l, v] =>
    match l.splitOn "/", parseVal v with
    | [k, part], some v =>
      let key : Option (Option Str) := if k == "~" then some none else (parseStr k).map some
      let part : Option ServicePart :=
        if part == "h" then some .host else if part == "p" then some .port
        else if part == "r" then some .protocol else none
      match key, part with
      | some key, some part => some (key, part, v)
      | _, _ => none
    | _, _ => none
  | _ => none

def eqStr {β : Type} [DecidableEq β] (a b : Except PyExc β) : String :=
  match a, b with
  | .ok x, .ok y => if x = y then "ok 1" else "ok 0"
  | .error e, _ => showExc e
  | _, .error e => showExc e

def handleOp (toks : List String) (t : Table) (lt : Table) : String :=
  let L := lib t
  let cfg := repaired
  let low : PyLower := fun s => match lt.find? (fun p => p.1 == s) with
    | some p => p.2
    | none => lower s
  match toks with
  | ["proto", v] => match parseVal v with
    | some v => showRes showStr (validateProtocol cfg v) | none => "bad-op"
  | ["proto-pinned", v] => match parseVal v with
    | some v => showRes showStr (validateProtocol pinned v) | none => "bad-op"
  | ["host", v] => match parseVal v with
    | some v => showRes boolStr (isValidHostname cfg v) | none => "bad-op"
  | ["host-pinned", v] => match parseVal v with
    | some v => showRes boolStr (isValidHostname pinned v) | none => "bad-op"
  | ["classify", v] => match parseVal v with
    | some v => showRes showHost (classifyHost L cfg v) | none => "bad-op"
  | ["port", md, v] => match md.toNat?, parseVal v with
    | some md, some v => showRes toString (validatePort { cfg with maxStrDigits := md } v)
    | _, _ => "bad-op"
  | ["split", s] => match parseStr s with
    | some s => let r := splitAddress s; showStr r.1 ++ " " ++ showStr r.2 | none => "bad-op"
  | ["split-pinned", s] => match parseStr s with
    | some s => let r := splitAddressPinned s; showStr r.1 ++ " " ++ showStr r.2 | none => "bad-op"
  | ["ip4", s] => match parseStr s with
    | some s => (match parse4 s with | some x => "4:" ++ showIP4 x | none => "-") | none => "bad-op"
  | ["show4", x] => match parseIP4 x with
    | some x => showStr (show4 x) | none => "bad-op"
  | ["mkaddr", h, p] => match parseVal h, parseVal p with
    | some h, some p => (match mkNetAddress L cfg h p with
      | .ok a => roundTripAddr L cfg a | .error e => showExc e)
    | _, _ => "bad-op"
  | ["addr", v] => match parseVal v with
    | some v => showRes showAddr (NetAddr.fromString L cfg v) | none => "bad-op"
  | ["svc", v] => match parseVal v with
    | some v => showRes showSvc (Service.fromString L cfg v) | none => "bad-op"
  | ["mksvc", p, a] => match parseVal p, parseVal a with
    | some p, some a => (match mkService L cfg p (.val a) with
      | .ok s => roundTripSvc L cfg s | .error e => showExc e)
    | _, _ => "bad-op"
  | ["mksvco", p, h, port] => match parseVal p, parseVal h, parseVal port with
    | some p, some h, some port => (match mkNetAddress L cfg h port with
      | .error e => "addr-" ++ showExc e
      | .ok a => (match mkService L cfg p (.obj a) with
        | .ok s => roundTripSvc L cfg s | .error e => showExc e))
    | _, _, _ => "bad-op"
  | ["addrd", v, dh, dp] => match parseVal v, parseVal dh, parseVal dp with
    | some v, some dh, some dp => showRes showAddr (NetAddr.fromStringD L cfg (some (dh, dp)) v)
    | _, _, _ => "bad-op"
  | "svcd" :: v :: entries => match parseVal v, entries.mapM parseEntry with
    | some v, some es =>
      let g : SvcDefaults V6 := fun proto part =>
        match es.find? (fun e => e.1 == proto && e.2.1 == part) with
        | some e => e.2.2
        | none => .none
      showRes showSvc (Service.fromStringD L cfg low g v)
    | _, _ => "bad-op"
  | ["eqaddr", h1, p1, h2, p2] => match parseVal h1, parseVal p1, parseVal h2, parseVal p2 with
    | some h1, some p1, some h2, some p2 => eqStr (mkNetAddress L cfg h1 p1) (mkNetAddress L cfg h2 p2)
    | _, _, _, _ => "bad-op"
  | ["eqsvc", r1, a1, r2, a2] => match parseVal r1, parseVal a1, parseVal r2, parseVal a2 with
    | some r1, some a1, some r2, some a2 =>
      eqStr (mkService L cfg r1 (.val a1)) (mkService L cfg r2 (.val a2))
    | _, _, _, _ => "bad-op"
  | ["rx", m, rx, s] => match parseMode m, parseRx rx, parseStr s with
    | some m, some rx, some s => if pyMatch rx m s then "1" else "0"
    | _, _, _ => "bad-op"
  | ["sweep", fn, md, pre, suf, lo, hi] =>
    match md.toNat?, parseStr pre, parseStr suf, hexNat lo, hexNat hi with
    | some md, some pre, some suf, some lo, some hi =>
      let mk := fun (c : Nat) => PyVal.str (α := V6) (pre ++ c :: suf)
      if fn == "proto" then rle (fun c => outc (validateProtocol cfg (mk c))) (showOutc showStr) lo hi
      else if fn == "host" then rle (fun c => outc (isValidHostname cfg (mk c))) (showOutc boolStr) lo hi
      else if fn == "classify" then
        -- (host names are all rendered `N`: compare them as one value)
        let norm : Host V6 → Host V6 := fun h => match h with | .name _ => .name [] | h => h
        rle (fun c => outc ((classifyHost L cfg (mk c)).map norm))
          (fun (o : Nat × Option (Host V6)) => match o with
            | (_, some (.name _)) => "N" | (_, some (.ip4 x)) => "4:" ++ showIP4 x
            | (_, some (.ip6 x)) => "6:" ++ showStr x | o => showOutc (fun _ => "") o) lo hi
      else if fn == "port" then
        let cfg' := { cfg with maxStrDigits := md }
        rle (fun c => outc (validatePort cfg' (mk c))) (showOutc toString) lo hi
      else "bad-op"
    | _, _, _, _, _ => "bad-op"
  | _ => "bad-op"

def handle (line : String) : String :=
  match line.splitOn " | " with
  | [ops] => handleOp ((ops.splitOn " ").filter (· ≠ "")) [] []
  | [ops, tab] =>
    let toks := (tab.splitOn " ").filter (· ≠ "")
    let lows := (toks.filter (·.startsWith "L:")).map (fun t => (t.drop 2).toString)
    match parseTable (toks.filter (fun t => !t.startsWith "L:")), parseTable lows with
    | some t, some lt => handleOp ((ops.splitOn " ").filter (· ≠ "")) t lt
    | _, _ => "bad-op"
  | _ => "bad-op"

def main : IO Unit := Hex.lineLoop handle
