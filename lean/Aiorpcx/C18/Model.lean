import Aiorpcx.C18.Regex
import Aiorpcx.C18.Digits
/-!
# C18 — executable model of the validators and of `NetAddress` / `Service` in `aiorpcx/util.py`

Every function mirrors the Python code's case splits and order of checks.  Python values that can
reach these functions are `PyVal`; exceptions are explicit (`PyExc`).  The three regexes, the way
they are applied and the numeric bounds are the fields of `Cfg`; `repaired` is the configuration
of the tree **after** `fixes/F01-F03-util-regex.diff`, `pinned` the one of the pinned tree (used
only for the `…_pinned_witness` theorems and by the driver's `*-pinned` operations).

`ipaddress` is the parameter `IPLib` for IPv6 (`parse6`, `show6`); IPv4 dotted quads are modelled
concretely (`parse4`, `show4`).

No Mathlib import: the driver links this file.
-/
namespace Aiorpcx.C18

inductive PyExc where
  | valueError | typeError | attributeError
  deriving DecidableEq, Repr

/-- an `IPv4Address` object (four octets; valid objects have every octet < 256) -/
structure IP4 where
  a : Nat
  b : Nat
  c : Nat
  d : Nat
  deriving DecidableEq, Repr

def IP4.valid (x : IP4) : Prop := x.a < 256 ∧ x.b < 256 ∧ x.c < 256 ∧ x.d < 256

/-- the Python values the functions are called with (`α` = IPv6Address objects) -/
inductive PyVal (α : Type) where
  | str (s : Str)
  | int (n : Int)
  | bool (b : Bool)          -- a subclass of int
  | ip4 (x : IP4)
  | ip6 (x : α)
  | none                     -- None (or any other falsy object that is not a str / int)
  | other                    -- a truthy object of another type (float, list, …; no str methods)
  deriving Repr

/-- the IPv6 half of `ipaddress` -/
structure IPLib (α : Type) where
  parse6 : Str → Option α      -- `IPv6Address(s)`, `none` = AddressValueError
  show6 : α → Str              -- `str(ip)`

structure RxUse where
  rx : LinearRegex
  mode : Mode
  deriving Repr

def RxUse.test (u : RxUse) (s : Str) : Bool := pyMatch u.rx u.mode s

structure Cfg where
  protocol : RxUse
  label : RxUse
  numeric : RxUse
  hostMaxLen : Nat
  portLo : Int
  portHi : Int
  maxStrDigits : Nat
  deriving Repr

/-! ## string helpers (own structural recursions) -/

/-- `s.split(chr(sep))` -/
def splitOn (sep : Nat) : Str → List Str
  | [] => [[]]
  | c :: r =>
    if c = sep then [] :: splitOn sep r
    else match splitOn sep r with
      | [] => [[c]]
      | l :: ls => (c :: l) :: ls

/-- `if hostname and hostname[-1] == ".": hostname = hostname[:-1]` -/
def stripDot (s : Str) : Str := if s.getLast? = some 46 then s.dropLast else s

def lowerChar (c : Nat) : Nat := if 65 ≤ c ∧ c ≤ 90 then c + 32 else c
/-- `str.lower()` restricted to what validated protocols can contain (ASCII) -/
def lower (s : Str) : Str := s.map lowerChar

/-- the full `str.lower()` of the interpreter (Unicode special casing: `'İ'.lower()` has two
code points, U+212A KELVIN SIGN lowers to `k`, final sigma …).  `Service.from_string` lower-cases
the protocol text **before** validating it when it asks `default_func` for defaults, so that call
sees arbitrary strings; the mapping is a parameter of the model (no theorem needs a law about it;
the driver is given its graph on the strings concerned, computed by the real `str.lower`). -/
abbrev PyLower := Str → Str

/-- `s.find(chr(c))` -/
def findIdx (c : Nat) : Str → Option Nat
  | [] => none
  | x :: r => if x = c then some 0 else (findIdx c r).map (· + 1)

/-- `s.rfind(chr(c))` -/
def rfindIdx (c : Nat) : Str → Option Nat
  | [] => none
  | x :: r => match rfindIdx c r with
    | some i => some (i + 1)
    | none => if x = c then some 0 else none

def isPrefix : Str → Str → Bool
  | [], _ => true
  | _ :: _, [] => false
  | p :: ps, x :: xs => p == x && isPrefix ps xs

/-- `s.split(sep, 1)`: `some (before, after)` at the first occurrence of `sep` (non-empty) -/
def splitOnce (sep : Str) : Str → Option (Str × Str)
  | [] => if sep.isEmpty then some ([], []) else none
  | x :: r =>
    if isPrefix sep (x :: r) then some ([], (x :: r).drop sep.length)
    else match splitOnce sep r with
      | some (b, a) => some (x :: b, a)
      | none => none

/-! ## decimal printing / parsing -/

def digitsAux : Nat → Nat → Str → Str
  | 0, _, acc => acc
  | f + 1, n, acc => if n < 10 then (48 + n) :: acc else digitsAux f (n / 10) ((48 + n % 10) :: acc)

/-- `str(n)` for a natural number -/
def showDec (n : Nat) : Str := digitsAux (n + 1) n []

/-- `str(n)` / `f'{n}'` for an int -/
def showInt : Int → Str
  | .ofNat n => showDec n
  | .negSucc n => 45 :: showDec (n + 1)

def isAsciiDigit (c : Nat) : Bool := 48 ≤ c && c ≤ 57

/-- value of a string of ASCII digits -/
def parseDec (s : Str) : Nat := s.foldl (fun v c => 10 * v + (c - 48)) 0

/-! ## `str.isdigit()` and `int(str)` -/

def decimalValIn : List (Nat × Nat × Nat) → Nat → Option Nat
  | [], _ => none
  | (lo, hi, v) :: r, c => if lo ≤ c ∧ c ≤ hi then some (v + (c - lo)) else decimalValIn r c

/-- the digit value `int()` gives the character, if it is a Unicode decimal digit -/
def decimalVal (c : Nat) : Option Nat := decimalValIn decimalRuns c

/-- `chr(c).isdigit()` -/
def isDigitChar (c : Nat) : Bool := (decimalVal c).isSome || inCls digitOnly c

/-- `s.isdigit()` -/
def isDigitStr (s : Str) : Bool := !s.isEmpty && s.all isDigitChar

def decimalFold : Str → Nat → Option Nat
  | [], v => some v
  | c :: r, v => match decimalVal c with
    | some d => decimalFold r (10 * v + d)
    | none => none

/-- `int(s)` for a string on which `isdigit()` is true: ValueError for a digit that is not
decimal (e.g. `'²'`) and beyond the interpreter's digit limit -/
def pyIntOfDigits (maxDigits : Nat) (s : Str) : Except PyExc Int :=
  if maxDigits ≠ 0 ∧ s.length > maxDigits then .error .valueError
  else match decimalFold s 0 with
    | some v => .ok (Int.ofNat v)
    | none => .error .valueError

/-! ## `is_valid_hostname`, `classify_host`, `validate_port`, `validate_protocol` -/

def isValidHostnameStr (cfg : Cfg) (s : Str) : Bool :=
  let h := stripDot s
  if h.isEmpty || h.length > cfg.hostMaxLen then false
  else
    let labels := splitOn 46 h
    if cfg.numeric.test (labels.getLastD []) then false
    else labels.all cfg.label.test

def isValidHostname {α : Type} (cfg : Cfg) : PyVal α → Except PyExc Bool
  | .str s => .ok (isValidHostnameStr cfg s)
  | _ => .error .typeError

/-- `IPv4Address._parse_octet` -/
def parseOctet (s : Str) : Option Nat :=
  if s.isEmpty || !s.all isAsciiDigit then none
  else if s.length > 3 then none
  else if s != [48] && s.head? == some 48 then none
  else if parseDec s > 255 then none
  else some (parseDec s)

/-- `IPv4Address(s)` -/
def parse4 (s : Str) : Option IP4 :=
  match splitOn 46 s with
  | [a, b, c, d] =>
    match parseOctet a, parseOctet b, parseOctet c, parseOctet d with
    | some a, some b, some c, some d => some ⟨a, b, c, d⟩
    | _, _, _, _ => none
  | _ => none

def show4 (x : IP4) : Str :=
  showDec x.a ++ (46 :: (showDec x.b ++ (46 :: (showDec x.c ++ (46 :: showDec x.d)))))

inductive Host (α : Type) where
  | name (s : Str)
  | ip4 (x : IP4)
  | ip6 (x : α)
  deriving DecidableEq, Repr

/-- `ipaddress.ip_address(s)`: IPv4 first, then IPv6; `none` = ValueError -/
def ipAddress {α : Type} (L : IPLib α) (s : Str) : Option (Host α) :=
  match parse4 s with
  | some x => some (.ip4 x)
  | none => (L.parse6 s).map .ip6

def classifyHost {α : Type} (L : IPLib α) (cfg : Cfg) : PyVal α → Except PyExc (Host α)
  | .ip4 x => .ok (.ip4 x)
  | .ip6 x => .ok (.ip6 x)
  | .str s =>
    if isValidHostnameStr cfg s then .ok (.name s)
    else match ipAddress L s with
      | some h => .ok h
      | none => .error .valueError
  | _ => .error .typeError          -- raised by is_valid_hostname

def portRange (cfg : Cfg) (n : Int) : Except PyExc Int :=
  if cfg.portLo ≤ n ∧ n ≤ cfg.portHi then .ok n else .error .valueError

/-- `validate_port` (returns `int(port)`, see fixes/F20) -/
def validatePort {α : Type} (cfg : Cfg) : PyVal α → Except PyExc Int
  | .int n => portRange cfg n
  | .bool b => portRange cfg (if b then 1 else 0)
  | .str s =>
    if isDigitStr s then
      match pyIntOfDigits cfg.maxStrDigits s with
      | .ok n => portRange cfg n
      | .error e => .error e
    else .error .valueError
  | _ => .error .typeError

/-- `validate_protocol`: `re.match` raises TypeError for anything that is not a `str` -/
def validateProtocol {α : Type} (cfg : Cfg) : PyVal α → Except PyExc Str
  | .str s => if cfg.protocol.test s then .ok (lower s) else .error .valueError
  | _ => .error .typeError

/-! ## `NetAddress` -/

structure NetAddr (α : Type) where
  host : Host α
  port : Int
  deriving DecidableEq, Repr

def mkNetAddress {α : Type} (L : IPLib α) (cfg : Cfg) (host port : PyVal α) :
    Except PyExc (NetAddr α) :=
  match classifyHost L cfg host with
  | .error e => .error e
  | .ok h =>
    match validatePort cfg port with
    | .error e => .error e
    | .ok p => .ok ⟨h, p⟩

/-- `_split_address` (with `rfind`, see fixes/F21) -/
def splitAddress (s : Str) : Str × Str :=
  let plain : Str × Str :=
    match findIdx 58 s with
    | none => (s, [])
    | some colon => (s.take colon, s.drop (colon + 1))
  if s.head? = some 91 then
    match rfindIdx 93 s with
    | some e =>
      if s.length = e + 1 then ((s.take e).drop 1, [])
      else if s[e + 1]? = some 58 then ((s.take e).drop 1, s.drop (e + 2))
      else plain
    | none => plain
  else plain

/-- the pinned `_split_address` (`find`) -/
def splitAddressPinned (s : Str) : Str × Str :=
  let plain : Str × Str :=
    match findIdx 58 s with
    | none => (s, [])
    | some colon => (s.take colon, s.drop (colon + 1))
  if s.head? = some 91 then
    match findIdx 93 s with
    | some e =>
      if s.length = e + 1 then ((s.take e).drop 1, [])
      else if s[e + 1]? = some 58 then ((s.take e).drop 1, s.drop (e + 2))
      else plain
    | none => plain
  else plain

/-- `NetAddress.from_string(string)` without `default_func` -/
def NetAddr.fromString {α : Type} (L : IPLib α) (cfg : Cfg) : PyVal α → Except PyExc (NetAddr α)
  | .str s => mkNetAddress L cfg (.str (splitAddress s).1) (.str (splitAddress s).2)
  | _ => .error .typeError

/-- `str(host)` as used by the f-strings of `__str__` -/
def Host.toStr {α : Type} (L : IPLib α) : Host α → Str
  | .name s => s
  | .ip4 x => show4 x
  | .ip6 x => L.show6 x

/-- `NetAddress.__str__` -/
def NetAddr.toStr {α : Type} (L : IPLib α) (a : NetAddr α) : Str :=
  match a.host with
  | .ip6 x => 91 :: (L.show6 x ++ 93 :: 58 :: showInt a.port)
  | h => h.toStr L ++ 58 :: showInt a.port

/-! ## `Service` -/

structure Service (α : Type) where
  protocol : Str
  address : NetAddr α
  deriving DecidableEq, Repr

/-- the `address` argument of `Service(protocol, address)` -/
inductive AddrArg (α : Type) where
  | obj (a : NetAddr α)
  | val (v : PyVal α)

/-- `Service.__init__`: protocol first, then the address -/
def mkService {α : Type} (L : IPLib α) (cfg : Cfg) (protocol : PyVal α) (address : AddrArg α) :
    Except PyExc (Service α) :=
  match validateProtocol cfg protocol with
  | .error e => .error e
  | .ok p =>
    match address with
    | .obj a => .ok ⟨p, a⟩
    | .val v =>
      match NetAddr.fromString L cfg v with
      | .error e => .error e
      | .ok a => .ok ⟨p, a⟩

def schemeSep : Str := [58, 47, 47]

/-- `Service.from_string(string)` without `default_func` -/
def Service.fromString {α : Type} (L : IPLib α) (cfg : Cfg) : PyVal α → Except PyExc (Service α)
  | .str s =>
    match splitOnce schemeSep s with
    | none => .error .valueError            -- `if not protocol: raise ValueError`
    | some (proto, addr) =>
      match NetAddr.fromString L cfg (.str addr) with
      | .error e => .error e
      | .ok a => mkService L cfg (.str proto) (.obj a)
  | _ => .error .typeError

/-! ## `default_func` paths of `from_string` -/

/-- Python truthiness (`x or default`, `if not x`) -/
def PyVal.truthy {α : Type} : PyVal α → Bool
  | .str s => !s.isEmpty
  | .int n => n != 0
  | .bool b => b
  | .ip4 _ => true
  | .ip6 _ => true
  | .none => false
  | .other => true

/-- `part or default` -/
def orDefault {α : Type} (part : Str) (d : PyVal α) : PyVal α :=
  if part.isEmpty then d else .str part

/-- `if not host or not port: raise ValueError`, then `cls(host, port)` -/
def checkedMk {α : Type} (L : IPLib α) (cfg : Cfg) (host port : PyVal α) :
    Except PyExc (NetAddr α) :=
  if !host.truthy || !port.truthy then .error .valueError else mkNetAddress L cfg host port

/-- `NetAddress.from_string(string, default_func=f)`; `d = some (f(HOST), f(PORT))` -/
def NetAddr.fromStringD {α : Type} (L : IPLib α) (cfg : Cfg) (d : Option (PyVal α × PyVal α)) :
    PyVal α → Except PyExc (NetAddr α)
  | .str s =>
    match d with
    | none => mkNetAddress L cfg (.str (splitAddress s).1) (.str (splitAddress s).2)
    | some (dh, dp) =>
      checkedMk L cfg (orDefault (splitAddress s).1 dh) (orDefault (splitAddress s).2 dp)
  | _ => .error .typeError

inductive ServicePart where
  | protocol | host | port
  deriving DecidableEq, Repr

/-- a `default_func(protocol, part)` for `Service.from_string`; the protocol argument is `None`
or a string -/
abbrev SvcDefaults (α : Type) := Option Str → ServicePart → PyVal α

/-- the first half of `Service.from_string`: which protocol (a Python value: it may come from the
callback) and which address text -/
def pickProtocol {α : Type} (g : SvcDefaults α) (s : Str) : Except PyExc (PyVal α × Str) :=
  match splitOnce schemeSep s with
  | some (p, a) => .ok (.str p, a)
  | none =>
    if (g (some s) .host).truthy && (g (some s) .port).truthy then
      (if s.isEmpty then .error .valueError else .ok (.str s, []))
    else if (g none .protocol).truthy then .ok (g none .protocol, s)
    else .error .valueError

/-- the second half: `partial(default_func, protocol.lower())`, parse the address, construct.
`protocol.lower()` on a (truthy) non-string raises AttributeError: the `default_func` contract is
"`default_func(None, ServicePart.PROTOCOL)` returns a `str` or something falsy". -/
def withProtocol {α : Type} (L : IPLib α) (cfg : Cfg) (low : PyLower) (g : SvcDefaults α)
    (protocol : PyVal α) (address : Str) : Except PyExc (Service α) :=
  match protocol with
  | .str p =>
    match NetAddr.fromStringD L cfg (some (g (some (low p)) .host, g (some (low p)) .port))
        (.str address) with
    | .error e => .error e
    | .ok a => mkService L cfg (.str p) (.obj a)
  | _ => .error .attributeError

/-- `Service.from_string(string, default_func=g)` -/
def Service.fromStringD {α : Type} (L : IPLib α) (cfg : Cfg) (low : PyLower) (g : SvcDefaults α) :
    PyVal α → Except PyExc (Service α)
  | .str s =>
    match pickProtocol g s with
    | .error e => .error e
    | .ok (protocol, address) => withProtocol L cfg low g protocol address
  | _ => .error .typeError

/-- `Service.__str__` -/
def Service.toStr {α : Type} (L : IPLib α) (s : Service α) : Str :=
  s.protocol ++ schemeSep ++ s.address.toStr L

/-! ## pinned-tree variants of the two functions repaired by fixes/F20 and F21 -/

/-- what the pinned `validate_port` returns: the argument itself, so `True` stays a `bool` -/
inductive PortObj where
  | int (n : Int)
  | bool (b : Bool)
  deriving DecidableEq, Repr

def validatePortPinned {α : Type} (cfg : Cfg) : PyVal α → Except PyExc PortObj
  | .bool b => match portRange cfg (if b then 1 else 0) with
    | .ok _ => .ok (.bool b)
    | .error e => .error e
  | v => match validatePort cfg v with
    | .ok n => .ok (.int n)
    | .error e => .error e

/-- `f'{port}'` -/
def PortObj.toStr : PortObj → Str
  | .int n => showInt n
  | .bool true => [84, 114, 117, 101]
  | .bool false => [70, 97, 108, 115, 101]

/-- pinned `NetAddress.from_string` (uses `find`) -/
def NetAddr.fromStringPinned {α : Type} (L : IPLib α) (cfg : Cfg) : PyVal α → Except PyExc (NetAddr α)
  | .str s => mkNetAddress L cfg (.str (splitAddressPinned s).1) (.str (splitAddressPinned s).2)
  | _ => .error .typeError

/-! ## the two configurations -/

def clsLetter : Cls := [(65, 90), (97, 122)]
def clsProtoTail : Cls := [(43, 43), (45, 46), (48, 57), (65, 90), (97, 122)]
def clsLabelEdge : Cls := [(48, 57), (65, 90), (95, 95), (97, 122)]
def clsLabelMid : Cls := [(45, 45), (48, 57), (65, 90), (95, 95), (97, 122)]
def clsDigit : Cls := [(48, 57)]

def rxProtocol (tail : Cls) (e : EndKind) : LinearRegex :=
  [.atom (.cls clsLetter 1 (some 1)), .atom (.cls tail 1 none), .atom (.eos e)]
def rxLabel (edge mid : Cls) (e : EndKind) : LinearRegex :=
  [.atom .bos, .atom (.cls edge 1 (some 1)),
   .opt [.cls mid 0 (some 61), .cls edge 1 (some 1)], .atom (.eos e)]
def rxNumeric (e : EndKind) : LinearRegex := [.atom (.cls clsDigit 1 none), .atom (.eos e)]

/-- util.py after fixes/F01-F03-util-regex.diff -/
def repaired : Cfg :=
  { protocol := ⟨rxProtocol clsProtoTail .bigZ, .match⟩
    label := ⟨rxLabel clsLabelEdge clsLabelMid .bigZ, .match⟩
    numeric := ⟨rxNumeric .bigZ, .match⟩
    hostMaxLen := 253, portLo := 1, portHi := 65535, maxStrDigits := 4300 }

def clsProtoTailPinned : Cls := [(43, 46), (48, 57), (65, 90), (97, 122)]
def clsLabelEdgePinned : Cls :=
  [(48, 57), (65, 90), (95, 95), (97, 122), (304, 305), (383, 383), (8490, 8490)]
def clsLabelMidPinned : Cls :=
  [(45, 45), (48, 57), (65, 90), (95, 95), (97, 122), (304, 305), (383, 383), (8490, 8490)]

/-- util.py of the pinned tree: `+-.` is a range, `$`, IGNORECASE without ASCII -/
def pinned : Cfg :=
  { repaired with
    protocol := ⟨rxProtocol clsProtoTailPinned .dollar, .match⟩
    label := ⟨rxLabel clsLabelEdgePinned clsLabelMidPinned .dollar, .match⟩
    numeric := ⟨rxNumeric .dollar, .match⟩ }

end Aiorpcx.C18
