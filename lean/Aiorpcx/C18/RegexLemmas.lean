import Aiorpcx.C18.Spec
/-!
# C18 — what the three regex *shapes* of util.py accept, for arbitrary classes

Everything here is quantified over all strings; the classes, the end anchor and the match mode
are parameters (instantiated with the generated facts in `Props.lean`).
-/
namespace Aiorpcx.C18

/-- `p` on every element but the last, `q` on the last; false on the empty list -/
def allButLast (p q : Nat → Bool) : Str → Bool
  | [] => false
  | [y] => q y
  | x :: y :: r => p x && allButLast p q (y :: r)

/-- `c{1}` consumes exactly one character of the class -/
theorem rep_one (c : Cls) (k : Bool → Str → Bool) (a : Bool) (s : Str) :
    rep c k 1 (some 1) a s = match s with
      | [] => false
      | x :: r => inCls c x && k false r := by
  cases s with
  | nil => simp [rep]
  | cons x r =>
    cases r with
    | nil => simp [rep]
    | cons y r' => simp [rep]

/-- `c*` up to an end-of-string continuation -/
theorem rep_star (c : Cls) (k : Bool → Str → Bool) (hk : ∀ a r, k a r = (r == []))
    (a : Bool) (s : Str) : rep c k 0 none a s = s.all (inCls c) := by
  induction s generalizing a with
  | nil => simp [rep, hk]
  | cons x r ih => simp [rep, hk, ih]

/-- `c+` up to an end-of-string continuation: non-empty and every character in the class -/
theorem rep_plus (c : Cls) (k : Bool → Str → Bool) (hk : ∀ a r, k a r = (r == []))
    (a : Bool) (s : Str) : rep c k 1 none a s = (!s.isEmpty && s.all (inCls c)) := by
  cases s with
  | nil => simp [rep]
  | cons x r => simp [rep, rep_star c k hk]

/-- `c{0,m}` followed by "exactly one more character satisfying `p`, then the end" -/
theorem rep_bounded_last (c : Cls) (p : Nat → Bool) (k : Bool → Str → Bool)
    (hk : ∀ a r, k a r = match r with | [y] => p y | _ => false)
    (m : Nat) (a : Bool) (s : Str) :
    rep c k 0 (some m) a s = (decide (s.length ≤ m + 1) && allButLast (inCls c) p s) := by
  induction s generalizing m a with
  | nil => simp [rep, hk, allButLast]
  | cons x r ih =>
    cases r with
    | nil =>
      cases m <;> simp [rep, hk, allButLast]
    | cons y r' =>
      cases m with
      | zero => simp [rep, hk]
      | succ m' =>
        have := ih m' false
        rw [rep]
        simp only [Nat.zero_sub, this, hk, allButLast, List.length_cons, beq_self_eq_true,
          Bool.true_and, Bool.false_or]
        by_cases h : r'.length + 1 ≤ m' + 1
        · have h2 : r'.length + 1 + 1 ≤ m' + 1 + 1 := by omega
          simp [h, h2]
        · have h2 : ¬ r'.length + 1 + 1 ≤ m' + 1 + 1 := by omega
          simp [h, h2]

/-- a continuation that is true exactly at the end of the string -/
def EndsOnly (k : Bool → Str → Bool) : Prop := ∀ a r, k a r = (r == [])

/-- the end anchor followed by the mode's end condition accepts exactly the end of the string
    iff the anchor is `\Z` or the mode is `fullmatch` -/
def endExact (e : EndKind) (m : Mode) : Bool :=
  m != .search && (e == .bigZ || m == .fullmatch)

/-- the anchor `e` followed by the end condition of mode `m` -/
def kEnd (e : EndKind) (m : Mode) : Bool → Str → Bool := fun a r => atEnd e r && finalK m a r

theorem matchAtoms_nil (k : Bool → Str → Bool) : matchAtoms [] k = k := by
  funext a s; simp [matchAtoms]

theorem matchItems_eos (e : EndKind) (m : Mode) :
    matchItems [.atom (.eos e)] (finalK m) = kEnd e m := by
  funext a r; simp [matchItems, matchAtoms, kEnd]

theorem matchItems_cls (c : Cls) (mn : Nat) (mx : Option Nat) (is : List Item)
    (k : Bool → Str → Bool) :
    matchItems (.atom (.cls c mn mx) :: is) k = rep c (matchItems is k) mn mx := by
  funext a s; simp [matchItems, matchAtoms]

theorem matchItems_bos (is : List Item) (k : Bool → Str → Bool) (s : Str) :
    matchItems (.atom .bos :: is) k true s = matchItems is k true s := by
  simp [matchItems, matchAtoms]

theorem kEnd_endsOnly (e : EndKind) (m : Mode) (h : endExact e m = true) : EndsOnly (kEnd e m) := by
  intro a r
  cases e <;> cases m <;> simp [endExact] at h <;>
    cases r <;> simp [kEnd, atEnd, finalK]

theorem pyMatch_not_search (rx : LinearRegex) (m : Mode) (h : m ≠ .search) (s : Str) :
    pyMatch rx m s = matchItems rx (finalK m) true s := by
  cases m <;> simp_all [pyMatch, matchAt]

theorem not_search_of_endExact {e : EndKind} {m : Mode} (h : endExact e m = true) :
    m ≠ .search := by
  cases m <;> simp_all [endExact]

/-! ## shape 1: `[H][T]+<end>`  (PROTOCOL_REGEX) -/

def shapeProtocol (h t : Cls) (e : EndKind) : LinearRegex :=
  [.atom (.cls h 1 (some 1)), .atom (.cls t 1 none), .atom (.eos e)]

theorem shapeProtocol_accepts (h t : Cls) (e : EndKind) (m : Mode) (he : endExact e m = true)
    (s : Str) :
    pyMatch (shapeProtocol h t e) m s = match s with
      | [] => false
      | x :: r => inCls h x && (!r.isEmpty && r.all (inCls t)) := by
  rw [pyMatch_not_search _ _ (not_search_of_endExact he)]
  have hk := kEnd_endsOnly e m he
  rw [shapeProtocol, matchItems_cls, matchItems_cls, matchItems_eos, rep_one]
  cases s with
  | nil => rfl
  | cons x r => simp only; rw [rep_plus t _ hk]

/-! ## shape 2: `[D]+<end>`  (NUMERIC_REGEX) -/

def shapeNumeric (d : Cls) (e : EndKind) : LinearRegex :=
  [.atom (.cls d 1 none), .atom (.eos e)]

theorem shapeNumeric_accepts (d : Cls) (e : EndKind) (m : Mode) (he : endExact e m = true)
    (s : Str) :
    pyMatch (shapeNumeric d e) m s = (!s.isEmpty && s.all (inCls d)) := by
  rw [pyMatch_not_search _ _ (not_search_of_endExact he)]
  have hk := kEnd_endsOnly e m he
  rw [shapeNumeric, matchItems_cls, matchItems_eos, rep_plus d _ hk]

/-! ## shape 3: `^[A]([B]{0,n}[A'])?<end>`  (LABEL_REGEX) -/

def shapeLabel (a b a' : Cls) (n : Nat) (e : EndKind) : LinearRegex :=
  [.atom (.cls a 1 (some 1)), .opt [.cls b 0 (some n), .cls a' 1 (some 1)], .atom (.eos e)]

/-- the same with the (redundant under `match` / `fullmatch`) leading `^` -/
def shapeLabelBos (a b a' : Cls) (n : Nat) (e : EndKind) : LinearRegex :=
  .atom .bos :: shapeLabel a b a' n e

theorem matchItems_opt2 (b a' : Cls) (n : Nat) (is : List Item) (k : Bool → Str → Bool)
    (a0 : Bool) (s : Str) :
    matchItems (.opt [.cls b 0 (some n), .cls a' 1 (some 1)] :: is) k a0 s =
      (rep b (rep a' (matchItems is k) 1 (some 1)) 0 (some n) a0 s || matchItems is k a0 s) := by
  simp [matchItems, matchAtoms]

theorem shapeLabel_accepts (a b a' : Cls) (n : Nat) (e : EndKind) (m : Mode)
    (he : endExact e m = true) (s : Str) :
    pyMatch (shapeLabel a b a' n e) m s = match s with
      | [] => false
      | x :: r => inCls a x &&
          (r.isEmpty || (decide (r.length ≤ n + 1) && allButLast (inCls b) (inCls a') r)) := by
  rw [pyMatch_not_search _ _ (not_search_of_endExact he)]
  have hk := kEnd_endsOnly e m he
  rw [shapeLabel, matchItems_cls, rep_one]
  cases s with
  | nil => rfl
  | cons x r =>
    simp only
    congr 1
    rw [matchItems_opt2, matchItems_eos]
    have hk2 : ∀ (a0 : Bool) (r0 : Str),
        rep a' (kEnd e m) 1 (some 1) a0 r0 = match r0 with | [y] => inCls a' y | _ => false := by
      intro a0 r0
      rw [rep_one]
      cases r0 with
      | nil => rfl
      | cons y r1 =>
        simp only
        rw [hk false r1]
        cases r1 <;> simp
    rw [rep_bounded_last b (inCls a') _ hk2, hk false r]
    cases r <;> simp [allButLast, Bool.or_comm]

theorem shapeLabelBos_accepts (a b a' : Cls) (n : Nat) (e : EndKind) (m : Mode)
    (he : endExact e m = true) (s : Str) :
    pyMatch (shapeLabelBos a b a' n e) m s = pyMatch (shapeLabel a b a' n e) m s := by
  rw [pyMatch_not_search _ _ (not_search_of_endExact he),
    pyMatch_not_search _ _ (not_search_of_endExact he), shapeLabelBos, matchItems_bos]

end Aiorpcx.C18
