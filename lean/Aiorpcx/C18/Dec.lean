import Aiorpcx.C18.Spec
/-!
# C18 — decimal printing and parsing (`str(int)`, `int(str)` on ASCII digits), IPv4 dotted quads
-/
namespace Aiorpcx.C18

theorem digitsAux_fuel (f g n : Nat) (acc : Str) (hf : n < f) (hg : n < g) :
    digitsAux f n acc = digitsAux g n acc := by
  induction f generalizing g n acc with
  | zero => omega
  | succ f ih =>
    cases g with
    | zero => omega
    | succ g =>
      simp only [digitsAux]
      by_cases h : n < 10
      · simp [h]
      · simp only [h, ↓reduceIte]
        apply ih <;> omega

theorem digitsAux_acc (f n : Nat) (acc : Str) :
    digitsAux f n acc = digitsAux f n [] ++ acc := by
  induction f generalizing n acc with
  | zero => simp [digitsAux]
  | succ f ih =>
    simp only [digitsAux]
    by_cases h : n < 10
    · simp [h]
    · simp only [h, ↓reduceIte]
      rw [ih (n / 10) ((48 + n % 10) :: acc), ih (n / 10) [48 + n % 10]]
      simp

theorem showDec_lt10 (n : Nat) (h : n < 10) : showDec n = [48 + n] := by
  simp [showDec, digitsAux, h]

theorem showDec_ge10 (n : Nat) (h : 10 ≤ n) : showDec n = showDec (n / 10) ++ [48 + n % 10] := by
  have h' : ¬ n < 10 := by omega
  unfold showDec
  rw [digitsAux]
  simp only [h', ↓reduceIte]
  rw [digitsAux_acc, digitsAux_fuel n (n / 10 + 1) (n / 10) [] (by omega) (by omega)]

theorem parseDec_append (l : Str) (c : Nat) : parseDec (l ++ [c]) = 10 * parseDec l + (c - 48) := by
  simp [parseDec, List.foldl_append]

/-- the facts about `str(n)` that the round trips need -/
theorem showDec_spec (n : Nat) :
    showDec n ≠ [] ∧ (showDec n).all isAsciiDigit = true ∧ parseDec (showDec n) = n ∧
    ((showDec n).head? = some 48 → showDec n = [48]) := by
  induction n using Nat.strongRecOn with
  | _ n ih =>
    by_cases h : n < 10
    · rw [showDec_lt10 n h]
      refine ⟨by simp, ?_, ?_, ?_⟩
      · simp [isAsciiDigit]; omega
      · simp [parseDec]
      · intro h0
        simp at h0
        have : n = 0 := by omega
        subst this; rfl
    · have h10 : 10 ≤ n := by omega
      obtain ⟨i1, i2, i3, i4⟩ := ih (n / 10) (by omega)
      rw [showDec_ge10 n h10]
      refine ⟨by simp, ?_, ?_, ?_⟩
      · simp only [List.all_append, i2, List.all_cons, List.all_nil, Bool.and_true, Bool.true_and]
        simp [isAsciiDigit]; omega
      · rw [parseDec_append, i3]; omega
      · intro h0
        have hne := i1
        have hh : (showDec (n / 10)).head? = some 48 := by
          cases hd : showDec (n / 10) with
          | nil => exact absurd hd hne
          | cons x r => rw [hd] at h0; simpa using h0
        have := i4 hh
        rw [this] at i3
        simp [parseDec] at i3
        omega

theorem showDec_length_le (k n : Nat) (h : n < 10 ^ (k + 1)) : (showDec n).length ≤ k + 1 := by
  induction k generalizing n with
  | zero => rw [showDec_lt10 n (by simpa using h)]; simp
  | succ k ih =>
    by_cases h10 : n < 10
    · rw [showDec_lt10 n h10]; simp
    · rw [showDec_ge10 n (by omega)]
      have : n / 10 < 10 ^ (k + 1) := by
        apply Nat.div_lt_of_lt_mul
        rw [Nat.pow_succ] at h
        omega
      have := ih (n / 10) this
      simp; omega

theorem isAsciiDigit_ne_dot {s : Str} (h : s.all isAsciiDigit = true) : 46 ∉ s := by
  intro hm
  have := List.all_eq_true.mp h 46 hm
  simp [isAsciiDigit] at this

/-! ## `split('.')` -/

theorem splitOn_no_sep (sep : Nat) (s : Str) (h : sep ∉ s) : splitOn sep s = [s] := by
  induction s with
  | nil => rfl
  | cons c r ih =>
    have hc : c ≠ sep := fun e => h (by simp [e])
    have hr : sep ∉ r := fun e => h (by simp [e])
    simp [splitOn, hc, ih hr]

theorem splitOn_append (sep : Nat) (a r : Str) (h : sep ∉ a) :
    splitOn sep (a ++ sep :: r) = a :: splitOn sep r := by
  induction a with
  | nil => simp [splitOn]
  | cons c a ih =>
    have hc : c ≠ sep := fun e => h (by simp [e])
    have ha : sep ∉ a := fun e => h (by simp [e])
    simp [splitOn, hc, ih ha]

/-- every character of `s` is the separator or occurs in one of the pieces -/
theorem mem_splitOn (sep : Nat) (s : Str) (c : Nat) (h : c ∈ s) :
    c = sep ∨ ∃ l ∈ splitOn sep s, c ∈ l := by
  induction s with
  | nil => simp at h
  | cons x r ih =>
    simp only [splitOn]
    by_cases hx : x = sep
    · simp only [hx, ↓reduceIte]
      rcases List.mem_cons.mp h with rfl | hr
      · exact Or.inl hx
      · rcases ih hr with h1 | ⟨l, hl, hc⟩
        · exact Or.inl h1
        · exact Or.inr ⟨l, List.mem_cons_of_mem _ hl, hc⟩
    · simp only [hx, ↓reduceIte]
      cases hs : splitOn sep r with
      | nil =>
        simp only
        rcases List.mem_cons.mp h with rfl | hr
        · exact Or.inr ⟨[c], by simp, by simp⟩
        · rcases ih hr with h1 | ⟨l, hl, _⟩
          · exact Or.inl h1
          · rw [hs] at hl; simp at hl
      | cons l0 ls =>
        simp only
        rcases List.mem_cons.mp h with rfl | hr
        · exact Or.inr ⟨c :: l0, by simp, by simp⟩
        · rcases ih hr with h1 | ⟨l, hl, hc⟩
          · exact Or.inl h1
          · rw [hs] at hl
            rcases List.mem_cons.mp hl with rfl | hl'
            · exact Or.inr ⟨x :: l, by simp, List.mem_cons_of_mem _ hc⟩
            · exact Or.inr ⟨l, List.mem_cons_of_mem _ hl', hc⟩

/-! ## IPv4 -/

theorem parseOctet_showDec (n : Nat) (h : n < 256) : parseOctet (showDec n) = some n := by
  obtain ⟨h1, h2, h3, h4⟩ := showDec_spec n
  have hl : (showDec n).length ≤ 3 := showDec_length_le 2 n (by omega)
  unfold parseOctet
  have e1 : (showDec n).isEmpty = false := by
    cases hs : showDec n with
    | nil => exact absurd hs h1
    | cons _ _ => rfl
  have e3 : ¬ (showDec n).length > 3 := by omega
  have e4 : (showDec n != [48] && (showDec n).head? == some 48) = false := by
    by_cases hh : (showDec n).head? = some 48
    · simp [h4 hh]
    · simp [hh]
  have e5 : ¬ n > 255 := by omega
  simp only [e1, h2, Bool.not_true, Bool.or_self, Bool.false_eq_true, ↓reduceIte, e3, e4, e5, h3]

theorem parse4_show4 (x : IP4) (hx : x.valid) : parse4 (show4 x) = some x := by
  obtain ⟨ha, hb, hc, hd⟩ := hx
  have na := isAsciiDigit_ne_dot (showDec_spec x.a).2.1
  have nb := isAsciiDigit_ne_dot (showDec_spec x.b).2.1
  have nc := isAsciiDigit_ne_dot (showDec_spec x.c).2.1
  have nd := isAsciiDigit_ne_dot (showDec_spec x.d).2.1
  unfold parse4 show4
  rw [splitOn_append 46 _ _ na, splitOn_append 46 _ _ nb, splitOn_append 46 _ _ nc,
    splitOn_no_sep 46 _ nd]
  simp only [parseOctet_showDec _ ha, parseOctet_showDec _ hb, parseOctet_showDec _ hc,
    parseOctet_showDec _ hd]

theorem parseOctet_some {s : Str} {n : Nat} (h : parseOctet s = some n) :
    s.all isAsciiDigit = true ∧ n < 256 := by
  unfold parseOctet at h
  split at h
  · simp at h
  · rename_i h1
    split at h
    · simp at h
    · split at h
      · simp at h
      · split at h
        · simp at h
        · rename_i h4
          simp only [Bool.or_eq_true, Bool.not_eq_eq_eq_not, Bool.not_true, not_or,
            Bool.not_eq_false] at h1
          refine ⟨h1.2, ?_⟩
          simp only [Option.some.injEq] at h
          omega

/-- a string that parses as IPv4 consists of ASCII digits and dots only -/
theorem parse4_chars {s : Str} {x : IP4} (h : parse4 s = some x) :
    (∀ c ∈ s, isAsciiDigit c = true ∨ c = 46) ∧ x.valid := by
  unfold parse4 at h
  split at h
  · rename_i a b c d hs
    split at h
    · rename_i a' b' c' d' ha hb hc hd
      have A := parseOctet_some ha
      have B := parseOctet_some hb
      have C := parseOctet_some hc
      have D := parseOctet_some hd
      simp only [Option.some.injEq] at h
      subst h
      refine ⟨?_, A.2, B.2, C.2, D.2⟩
      intro ch hch
      rcases mem_splitOn 46 s ch hch with h1 | ⟨l, hl, hcl⟩
      · exact Or.inr h1
      · rw [hs] at hl
        simp only [List.mem_cons, List.not_mem_nil, or_false] at hl
        rcases hl with rfl | rfl | rfl | rfl
        · exact Or.inl (List.all_eq_true.mp A.1 _ hcl)
        · exact Or.inl (List.all_eq_true.mp B.1 _ hcl)
        · exact Or.inl (List.all_eq_true.mp C.1 _ hcl)
        · exact Or.inl (List.all_eq_true.mp D.1 _ hcl)
    · simp at h
  · simp at h

end Aiorpcx.C18
