import Aiorpcx.C18.Dec
import Aiorpcx.C18.RoundTrip
import Aiorpcx.C18.Exact
/-!
# C18 — what the string helpers of the model compute, stated without the helpers

`Spec.hostname` is written with the model's own `stripDot` and `splitOn`, and `port_exact` on
strings goes through the model's `decimalFold`.  These lemmas pin the helpers down independently
(a `stripDot` that removed *every* trailing dot, a `splitOn` that dropped empty pieces or a
`decimalFold` reading the digits in another order would not satisfy them), so the property theorems
cannot be true merely because specification and model share a wrong helper.
-/
namespace Aiorpcx.C18

/-! ## `stripDot`: exactly one trailing dot -/

/-- a string ending in a dot loses exactly that dot -/
theorem stripDot_snoc (t : Str) : stripDot (t ++ [46]) = t := by
  simp [stripDot]

/-- a string not ending in a dot is unchanged -/
theorem stripDot_other (s : Str) (h : s.getLast? ≠ some 46) : stripDot s = s := by
  simp [stripDot, h]

/-- together: `stripDot` is "remove one trailing dot if there is one" -/
theorem stripDot_spec (s : Str) :
    (∃ t, s = t ++ [46] ∧ stripDot s = t) ∨ (s.getLast? ≠ some 46 ∧ stripDot s = s) := by
  by_cases h : s.getLast? = some 46
  · exact Or.inl ⟨s.dropLast, eq_dropLast_append h, by simp [stripDot, h]⟩
  · exact Or.inr ⟨h, stripDot_other s h⟩

/-- only one: of two trailing dots the first one stays -/
theorem stripDot_two_dots (t : Str) : stripDot (t ++ [46, 46]) = t ++ [46] := by
  have : t ++ [46, 46] = (t ++ [46]) ++ [46] := by simp
  rw [this, stripDot_snoc]

example : stripDot [97, 46, 46] = [97, 46] := by decide
example : stripDot [] = [] := by decide

/-! ## `splitOn`: the pieces between the separators -/

/-- `sep.join(pieces)` -/
def joinWith (sep : Nat) : List Str → Str
  | [] => []
  | [l] => l
  | l :: l' :: ls => l ++ sep :: joinWith sep (l' :: ls)

/-- joining the pieces with the separator gives the string back (nothing is dropped, empty pieces
included) -/
theorem splitOn_join (sep : Nat) (s : Str) : joinWith sep (splitOn sep s) = s := by
  induction s with
  | nil => rfl
  | cons c r ih =>
    simp only [splitOn]
    by_cases hc : c = sep
    · simp only [hc, ↓reduceIte]
      cases hs : splitOn sep r with
      | nil => exact absurd hs (splitOn_ne_nil sep r)
      | cons l ls => rw [hs] at ih; simp [joinWith, ih]
    · simp only [hc, ↓reduceIte]
      cases hs : splitOn sep r with
      | nil => exact absurd hs (splitOn_ne_nil sep r)
      | cons l ls =>
        rw [hs] at ih
        cases ls with
        | nil => simp [joinWith] at ih ⊢; exact ih
        | cons l' ls' => simp [joinWith] at ih ⊢; exact ih

/-- no piece contains the separator -/
theorem splitOn_sep_free (sep : Nat) (s : Str) : ∀ l ∈ splitOn sep s, sep ∉ l := by
  induction s with
  | nil => simp [splitOn]
  | cons c r ih =>
    simp only [splitOn]
    by_cases hc : c = sep
    · simp only [hc, ↓reduceIte]
      intro l hl
      rcases List.mem_cons.mp hl with rfl | h
      · simp
      · exact ih l h
    · simp only [hc, ↓reduceIte]
      cases hs : splitOn sep r with
      | nil => exact absurd hs (splitOn_ne_nil sep r)
      | cons l0 ls =>
        rw [hs] at ih
        intro l hl
        rcases List.mem_cons.mp hl with rfl | h
        · intro hm
          rcases List.mem_cons.mp hm with e | hm'
          · exact hc e.symm
          · exact ih l0 (by simp) hm'
        · exact ih l (List.mem_cons_of_mem _ h)

/-- … and these two facts determine the pieces: a list of separator-free pieces is what
`splitOn` returns on their join -/
theorem splitOn_joinWith (sep : Nat) (ls : List Str) (hne : ls ≠ [])
    (hfree : ∀ l ∈ ls, sep ∉ l) : splitOn sep (joinWith sep ls) = ls := by
  induction ls with
  | nil => exact absurd rfl hne
  | cons l rest ih =>
    cases rest with
    | nil => simpa [joinWith] using splitOn_no_sep sep l (hfree l (by simp))
    | cons l' ls' =>
      simp only [joinWith]
      rw [splitOn_append sep l _ (hfree l (by simp))]
      rw [ih (by simp) (fun x hx => hfree x (List.mem_cons_of_mem _ hx))]

example : splitOn 46 [97, 46, 46, 98] = [[97], [], [98]] := by decide
example : splitOn 46 [] = [[]] := by decide

/-! ## `decimalFold`: base-10 value, most significant digit first -/

/-- appending a digit multiplies by ten and adds it (so the *last* character is the units
digit); appending anything else makes the whole string a non-number -/
theorem decimalFold_snoc (s : Str) (c v : Nat) :
    decimalFold (s ++ [c]) v =
      match decimalFold s v, decimalVal c with
      | some w, some d => some (10 * w + d)
      | _, _ => none := by
  induction s generalizing v with
  | nil =>
    simp only [List.nil_append, decimalFold]
    cases decimalVal c <;> rfl
  | cons x r ih =>
    simp only [List.cons_append, decimalFold]
    cases hx : decimalVal x with
    | none => simp
    | some d => simp only [ih]

/-- the digit values themselves: ASCII `0`..`9` are 0..9 (and e.g. ARABIC-INDIC DIGIT THREE is 3,
SUPERSCRIPT TWO is not a decimal digit) -/
theorem decimalVal_samples :
    (∀ c, isAsciiDigit c = true → decimalVal c = some (c - 48)) ∧
    decimalVal 1635 = some 3 ∧ decimalVal 65296 = some 0 ∧ decimalVal 178 = none ∧
    decimalVal 43 = none ∧ decimalVal 32 = none ∧ decimalVal 95 = none :=
  ⟨decimalVal_ascii, by decide, by decide, by decide, by decide, by decide, by decide⟩

end Aiorpcx.C18

/-! ## the host-name grammar of the property text, stated without `stripDot` / `splitOn` -/
namespace Aiorpcx.C18

theorem label_no_dot {l : Str} (h : Spec.label l = true) : 46 ∉ l := by
  intro hm
  simp only [Spec.label, Bool.and_eq_true, List.all_eq_true] at h
  have := h.1.2 46 hm
  simp [Spec.labelChar, Spec.isLetter, Spec.isDigit] at this

theorem label_ne_nil {l : Str} (h : Spec.label l = true) : l ≠ [] := by
  intro e; subst e; simp [Spec.label] at h

theorem label_last_ne_dot {l : Str} (h : Spec.label l = true) : l.getLast? ≠ some 46 := by
  intro e
  exact label_no_dot h (getLast?_mem e)

theorem joinWith_getLast (sep : Nat) (ls : List Str) (hne : ls ≠ []) (hl : ls.getLastD [] ≠ []) :
    (joinWith sep ls).getLast? = (ls.getLastD []).getLast? := by
  induction ls with
  | nil => exact absurd rfl hne
  | cons l rest ih =>
    cases rest with
    | nil => simp [joinWith]
    | cons l' ls' =>
      have hl' : (l' :: ls').getLastD [] ≠ [] := by simpa using hl
      have e := ih (by simp) hl'
      have hx : joinWith sep (l' :: ls') ≠ [] := by
        intro h0
        rw [h0] at e
        have : ((l' :: ls').getLastD []).getLast? ≠ none := by
          cases hq : (l' :: ls').getLastD [] with
          | nil => exact absurd hq hl'
          | cons a b => simp
        exact this e.symm
      simp only [joinWith]
      rw [getLast?_append_ne _ _ (by simp), List.getLast?_cons_of_ne_nil hx, e]
      simp

/-- **The grammar, from the text.**  `Spec.hostname s` holds exactly when `s` is - ignoring one
trailing dot - a non-empty sequence of labels joined by dots, 1-253 characters long, every label
being 1-63 letters / digits / hyphens / underscores not beginning or ending with a hyphen, the
last label not all digits.  (No reference to the model's helper functions.) -/
theorem hostname_grammar (s : Str) :
    Spec.hostname s = true ↔
      ∃ ls : List Str, ls ≠ [] ∧ (s = joinWith 46 ls ∨ s = joinWith 46 ls ++ [46]) ∧
        (∀ l ∈ ls, Spec.label l = true) ∧ (ls.getLastD []).all Spec.isDigit = false ∧
        1 ≤ (joinWith 46 ls).length ∧ (joinWith 46 ls).length ≤ 253 := by
  constructor
  · intro h
    simp only [Spec.hostname, Bool.and_eq_true, decide_eq_true_eq, List.all_eq_true,
      Bool.not_eq_eq_eq_not, Bool.not_true] at h
    obtain ⟨⟨h1, h2⟩, h3, h4⟩ := h
    refine ⟨splitOn 46 (stripDot s), splitOn_ne_nil _ _, ?_, h3, h4, ?_, ?_⟩
    · rw [splitOn_join]
      rcases stripDot_spec s with ⟨t, e1, e2⟩ | ⟨_, e2⟩
      · right; rw [e2]; exact e1
      · left; exact e2.symm
    · rw [splitOn_join]; exact h1
    · rw [splitOn_join]; exact h2
  · rintro ⟨ls, hne, hs, hlab, hdig, h1, h2⟩
    have hfree : ∀ l ∈ ls, 46 ∉ l := fun l hl => label_no_dot (hlab l hl)
    have hlast : Spec.label (ls.getLastD []) = true := hlab _ (getLastD_mem ls hne)
    have hnd : (joinWith 46 ls).getLast? ≠ some 46 := by
      rw [joinWith_getLast 46 ls hne (label_ne_nil hlast)]
      exact label_last_ne_dot hlast
    have hstrip : stripDot s = joinWith 46 ls := by
      rcases hs with e | e
      · rw [e]; exact stripDot_other _ hnd
      · rw [e]; exact stripDot_snoc _
    simp only [Spec.hostname, hstrip, splitOn_joinWith 46 ls hne hfree, Bool.and_eq_true,
      decide_eq_true_eq, List.all_eq_true, Bool.not_eq_eq_eq_not, Bool.not_true]
    exact ⟨⟨h1, h2⟩, hlab, hdig⟩

/-- non-vacuity: "ex.com" and "ex.com." are names, "ex.com.." and "ex.1" are not -/
example : Spec.hostname [101, 120, 46, 99, 111, 109] = true ∧
    Spec.hostname [101, 120, 46, 99, 111, 109, 46] = true ∧
    Spec.hostname [101, 120, 46, 99, 111, 109, 46, 46] = false ∧
    Spec.hostname [101, 120, 46, 49] = false := by decide

end Aiorpcx.C18
