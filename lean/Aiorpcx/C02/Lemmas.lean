import Aiorpcx.C02.Model
/-! C02 — closed forms for the batch bookkeeping. -/
namespace Aiorpcx.C02
open List
open Aiorpcx.C01 (Id)

variable {R : Type}

/-- the entries produced by a sequence of `send_result` calls starting from running size `s` -/
def entriesFrom (max inc : Nat) (encLen : Id → R → Nat) : Nat → List (Call R) → List (Entry R)
  | _, [] => []
  | s, c :: cs =>
      let s' := s + encLen c.2.1 c.2.2 + inc
      (if s' > max && max > 0 then Entry.big c.1 c.2.1 else Entry.res c.1 c.2.1 c.2.2)
        :: entriesFrom max inc encLen s' cs

/-- the running size after the calls `cs` -/
def sizeAfter (inc : Nat) (encLen : Id → R → Nat) (s : Nat) (cs : List (Call R)) : Nat :=
  s + (cs.map fun c => encLen c.2.1 c.2.2 + inc).sum

theorem scan_spec (i : Nat) (ms : List Mem) :
    (scan (R := R) i ms).2.1 = errEntries i ms ∧
    (scan (R := R) i ms).2.2 = (reqMembers i ms).length + (errEntries (R := R) i ms).length ∧
    ((scan (R := R) i ms).1.isEmpty = true ↔ (reqMembers i ms = [] ∧ notifCount ms = 0)) := by
  induction ms generalizing i with
  | nil => simp [scan, errEntries, reqMembers, notifCount]
  | cons m ms ih =>
    obtain ⟨h1, h2, h3⟩ := ih (i + 1)
    cases m with
    | req id => simp [scan, errEntries, reqMembers, h1, h2]; omega
    | notif => simp [scan, errEntries, reqMembers, notifCount, h1, h2]
    | invalid id =>
      refine ⟨by simp [scan, errEntries, h1], by simp [scan, errEntries, reqMembers, h2]; omega, ?_⟩
      simpa [scan, reqMembers, notifCount] using h3

theorem length_entriesFrom (max inc : Nat) (encLen : Id → R → Nat) (s : Nat) (cs : List (Call R)) :
    (entriesFrom max inc encLen s cs).length = cs.length := by
  induction cs generalizing s with
  | nil => rfl
  | cons c cs ih => simp [entriesFrom, ih]

/-- entry `j` answers the `j`-th call: same member, same id -/
theorem entriesFrom_keys (max inc : Nat) (encLen : Id → R → Nat) (s : Nat) (cs : List (Call R)) :
    (entriesFrom max inc encLen s cs).map (fun e => (e.member, e.id)) =
      cs.map (fun c => (c.1, c.2.1)) := by
  induction cs generalizing s with
  | nil => rfl
  | cons c cs ih =>
    simp only [entriesFrom, map_cons, ih]
    split <;> rfl

/-- before the last call nothing is returned; the last call returns everything -/
theorem runCalls_complete (max inc : Nat) (encLen : Id → R → Nat) :
    ∀ (cs : List (Call R)) (b : ReqBatch R), cs ≠ [] → b.parts.length + cs.length = b.count →
      runCalls max inc encLen b cs =
        replicate (cs.length - 1) none ++ [some (b.parts ++ entriesFrom max inc encLen b.size cs)]
  | [], _, h, _ => absurd rfl h
  | [c], b, _, hc => by
    simp only [runCalls, sendResult, entriesFrom, length_append, length_cons, length_nil]
    simp only [length_cons, length_nil] at hc
    simp [hc]
  | c :: c' :: rest, b, _, hc => by
    have ih := runCalls_complete max inc encLen (c' :: rest)
      (sendResult max inc encLen b c.1 c.2.1 c.2.2).1 (by simp)
      (by simp only [sendResult, length_append, length_cons, length_nil] at hc ⊢; omega)
    rw [runCalls, ih]
    simp only [length_cons] at hc
    have hne : ((b.parts ++ [if (b.size + encLen c.2.1 c.2.2 + inc > max && max > 0) = true
        then Entry.big c.1 c.2.1 else Entry.res c.1 c.2.1 c.2.2]).length == b.count) = false := by
      simp only [length_append, length_cons, length_nil, beq_eq_false_iff_ne]; omega
    simp only [sendResult, hne, length_cons, Bool.false_eq_true, ↓reduceIte]
    simp only [entriesFrom, append_assoc, cons_append, nil_append]
    rfl

/-- as long as some request member has not supplied its result, nothing is returned -/
theorem runCalls_incomplete (max inc : Nat) (encLen : Id → R → Nat) :
    ∀ (cs : List (Call R)) (b : ReqBatch R), b.parts.length + cs.length < b.count →
      runCalls max inc encLen b cs = replicate cs.length none
  | [], _, _ => rfl
  | c :: cs, b, hc => by
    have ih := runCalls_incomplete max inc encLen cs (sendResult max inc encLen b c.1 c.2.1 c.2.2).1
      (by simp only [sendResult, length_append, length_cons, length_nil] at hc ⊢; omega)
    rw [runCalls, ih]
    simp only [length_cons] at hc
    have hne : ((b.parts ++ [if (b.size + encLen c.2.1 c.2.2 + inc > max && max > 0) = true
        then Entry.big c.1 c.2.1 else Entry.res c.1 c.2.1 c.2.2]).length == b.count) = false := by
      simp only [length_append, length_cons, length_nil, beq_eq_false_iff_ne]; omega
    simp only [sendResult, hne, length_cons, replicate_succ, Bool.false_eq_true, ↓reduceIte]

/-- entry `j` is the real result exactly while the running size stays within the limit -/
theorem entriesFrom_real (max inc : Nat) (encLen : Id → R → Nat) :
    ∀ (cs : List (Call R)) (s j : Nat) (hj : j < (entriesFrom max inc encLen s cs).length),
      ((entriesFrom max inc encLen s cs)[j]).isReal =
        (max == 0 || decide (sizeAfter inc encLen s (cs.take (j + 1)) ≤ max))
  | [], _, _, hj => by simp [entriesFrom] at hj
  | c :: cs, s, 0, _ => by
    simp only [entriesFrom, getElem_cons_zero, sizeAfter, take_succ_cons, take_zero, map_cons,
      map_nil, sum_cons, sum_nil]
    by_cases h1 : max = 0
    · subst h1; simp [Entry.isReal]
    · by_cases h2 : s + encLen c.2.1 c.2.2 + inc > max
      · simp [h2, h1, Nat.pos_of_ne_zero h1, Entry.isReal]; omega
      · simp [h2, h1, Entry.isReal]; omega
  | c :: cs, s, j + 1, hj => by
    have ih := entriesFrom_real max inc encLen cs (s + encLen c.2.1 c.2.2 + inc) j
      (by simpa [entriesFrom] using hj)
    simp only [entriesFrom, getElem_cons_succ, ih]
    simp only [sizeAfter, take_succ_cons, map_cons, sum_cons]
    congr 2
    simp only [Nat.add_assoc]

end Aiorpcx.C02
