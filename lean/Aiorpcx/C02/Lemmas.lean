import Aiorpcx.C02.Model
/-! C02 — closed forms for the batch bookkeeping.

    The model's `runCalls` looks the answering id up in the items (`boundId`).  The closed forms
    are stated for *resolved* deliveries `BCall` (member, bound id, result); `resolve` attaches to
    each delivery the id its item is bound to, and `boundId_scan` says which id that is: the one
    the member carries in the composition. -/
namespace Aiorpcx.C02
open List
open Aiorpcx.C01 (Id)

variable {R : Type}

/-- a delivery with the id its `send_result` is bound to made explicit:
    (member, id, result, limit in force when the result is supplied) -/
abbrev BCall (R : Type) := Nat × Id × R × Nat

/-- the limit in force at the delivery -/
abbrev BCall.lim {R : Type} (c : BCall R) : Nat := c.2.2.2

def runBound (inc : Nat) (encLen : Id → R → Nat) :
    ReqBatch R → List (BCall R) → List (Option (List (Entry R)))
  | _, [] => []
  | b, c :: cs =>
      let r := sendResult inc encLen b c.1 c.2.1 c.2.2.1 c.2.2.2
      r.2 :: runBound inc encLen r.1 cs

/-- the entries produced by a sequence of `send_result` calls starting from running size `s`;
    each call is judged with the cumulative size and **its own** limit -/
def entriesFrom (inc : Nat) (encLen : Id → R → Nat) : Nat → List (BCall R) → List (Entry R)
  | _, [] => []
  | s, c :: cs =>
      let s' := s + encLen c.2.1 c.2.2.1 + inc
      (if s' > c.2.2.2 && c.2.2.2 > 0 then Entry.big c.1 c.2.1 else Entry.res c.1 c.2.1 c.2.2.1)
        :: entriesFrom inc encLen s' cs

/-- the running size after the calls `cs` (it does not depend on the limits) -/
def sizeAfter (inc : Nat) (encLen : Id → R → Nat) (s : Nat) (cs : List (BCall R)) : Nat :=
  s + (cs.map fun c => encLen c.2.1 c.2.2.1 + inc).sum

theorem scan_spec (i : Nat) (ms : List Mem) :
    (scan (R := R) i ms).2.1 = errEntries i ms ∧
    (scan (R := R) i ms).2.2 = (reqMembers i ms).length + (errEntries (R := R) i ms).length ∧
    ((scan (R := R) i ms).1.isEmpty = true ↔ (reqMembers i ms = [] ∧ notifCount ms = 0)) := by
  induction ms generalizing i with
  | nil => simp [scan, errEntries, reqMembers, notifCount]
  | cons m ms ih =>
    obtain ⟨h1, h2, h3⟩ := ih (i + 1)
    cases m with
    | req id => simp [scan, errEntries, reqMembers, h1, h2]; omega
    | notif => simp [scan, errEntries, reqMembers, notifCount, h1, h2]
    | invalid id =>
      refine ⟨by simp [scan, errEntries, h1], by simp [scan, errEntries, reqMembers, h2]; omega, ?_⟩
      simpa [scan, reqMembers, notifCount] using h3

theorem length_entriesFrom (inc : Nat) (encLen : Id → R → Nat) (s : Nat) (cs : List (BCall R)) :
    (entriesFrom inc encLen s cs).length = cs.length := by
  induction cs generalizing s with
  | nil => rfl
  | cons c cs ih => simp [entriesFrom, ih]

/-- entry `j` answers the `j`-th call: same member, same id -/
theorem entriesFrom_keys (inc : Nat) (encLen : Id → R → Nat) (s : Nat) (cs : List (BCall R)) :
    (entriesFrom inc encLen s cs).map (fun e => (e.member, e.id)) =
      cs.map (fun c => (c.1, c.2.1)) := by
  induction cs generalizing s with
  | nil => rfl
  | cons c cs ih =>
    simp only [entriesFrom, map_cons, ih]
    split <;> rfl

/-- the entries of the first `n` calls are the first `n` entries -/
theorem entriesFrom_take (inc : Nat) (encLen : Id → R → Nat) :
    ∀ (cs : List (BCall R)) (s n : Nat),
      (entriesFrom inc encLen s cs).take n = entriesFrom inc encLen s (cs.take n)
  | [], _, n => by simp [entriesFrom]
  | _ :: _, _, 0 => by simp [entriesFrom]
  | c :: cs, s, n + 1 => by
    simp only [entriesFrom, take_succ_cons, entriesFrom_take inc encLen cs _ n]

/-- before the last call nothing is returned; the last call returns everything -/
theorem runBound_complete (inc : Nat) (encLen : Id → R → Nat) :
    ∀ (cs : List (BCall R)) (b : ReqBatch R), cs ≠ [] → b.parts.length + cs.length = b.count →
      runBound inc encLen b cs =
        replicate (cs.length - 1) none ++ [some (b.parts ++ entriesFrom inc encLen b.size cs)]
  | [], _, h, _ => absurd rfl h
  | [c], b, _, hc => by
    simp only [runBound, sendResult, entriesFrom, length_append, length_cons, length_nil]
    simp only [length_cons, length_nil] at hc
    simp [hc]
  | c :: c' :: rest, b, _, hc => by
    have ih := runBound_complete inc encLen (c' :: rest)
      (sendResult inc encLen b c.1 c.2.1 c.2.2.1 c.2.2.2).1 (by simp)
      (by simp only [sendResult, length_append, length_cons, length_nil] at hc ⊢; omega)
    rw [runBound, ih]
    simp only [length_cons] at hc
    have hne : ((b.parts ++ [if (b.size + encLen c.2.1 c.2.2.1 + inc > c.2.2.2 && c.2.2.2 > 0) = true
        then Entry.big c.1 c.2.1 else Entry.res c.1 c.2.1 c.2.2.1]).length == b.count) = false := by
      simp only [length_append, length_cons, length_nil, beq_eq_false_iff_ne]; omega
    simp only [sendResult, hne, length_cons, Bool.false_eq_true, ↓reduceIte]
    simp only [entriesFrom, append_assoc, cons_append, nil_append]
    rfl

/-- as long as some request member has not supplied its result, nothing is returned -/
theorem runBound_incomplete (inc : Nat) (encLen : Id → R → Nat) :
    ∀ (cs : List (BCall R)) (b : ReqBatch R), b.parts.length + cs.length < b.count →
      runBound inc encLen b cs = replicate cs.length none
  | [], _, _ => rfl
  | c :: cs, b, hc => by
    have ih := runBound_incomplete inc encLen cs (sendResult inc encLen b c.1 c.2.1 c.2.2.1 c.2.2.2).1
      (by simp only [sendResult, length_append, length_cons, length_nil] at hc ⊢; omega)
    rw [runBound, ih]
    simp only [length_cons] at hc
    have hne : ((b.parts ++ [if (b.size + encLen c.2.1 c.2.2.1 + inc > c.2.2.2 && c.2.2.2 > 0) = true
        then Entry.big c.1 c.2.1 else Entry.res c.1 c.2.1 c.2.2.1]).length == b.count) = false := by
      simp only [length_append, length_cons, length_nil, beq_eq_false_iff_ne]; omega
    simp only [sendResult, hne, length_cons, replicate_succ, Bool.false_eq_true, ↓reduceIte]

/-- entry `j` is the real result exactly when the running size **after delivery `j`** is within
    the limit in force **at delivery `j`** (or that limit is 0) -/
theorem entriesFrom_real (inc : Nat) (encLen : Id → R → Nat) :
    ∀ (cs : List (BCall R)) (s j : Nat) (hj : j < cs.length),
      ((entriesFrom inc encLen s cs)[j]'(by rw [length_entriesFrom]; exact hj)).isReal =
        ((cs[j]).lim == 0 || decide (sizeAfter inc encLen s (cs.take (j + 1)) ≤ (cs[j]).lim))
  | [], _, _, hj => by simp at hj
  | c :: cs, s, 0, _ => by
    simp only [entriesFrom, getElem_cons_zero, sizeAfter, take_succ_cons, take_zero, map_cons,
      map_nil, sum_cons, sum_nil, BCall.lim]
    by_cases h1 : c.2.2.2 = 0
    · simp [h1, Entry.isReal]
    · by_cases h2 : s + encLen c.2.1 c.2.2.1 + inc > c.2.2.2
      · simp [h2, h1, Nat.pos_of_ne_zero h1, Entry.isReal]; omega
      · simp [h2, h1, Entry.isReal]; omega
  | c :: cs, s, j + 1, hj => by
    have ih := entriesFrom_real inc encLen cs (s + encLen c.2.1 c.2.2.1 + inc) j
      (by simpa using hj)
    simp only [entriesFrom, getElem_cons_succ, ih]
    simp only [sizeAfter, take_succ_cons, map_cons, sum_cons]
    congr 2
    simp only [Nat.add_assoc]

theorem le_sum_of_mem : ∀ {l : List Nat} {x : Nat}, x ∈ l → x ≤ l.sum
  | [], _, h => by simp at h
  | y :: l, x, h => by
    rcases mem_cons.1 h with rfl | h
    · simp
    · have := le_sum_of_mem h
      simp only [sum_cons]; omega

theorem count_eq_one_of_nodup {l : List Nat} {a : Nat} (d : l.Nodup) (h : a ∈ l) :
    l.count a = 1 := by
  rw [d.count]; simp [h]

/-! ### which id an item is bound to -/

def lookupId : Nat → List (Nat × Id) → Option Id
  | _, [] => none
  | k, (m, id) :: l => if k = m then some id else lookupId k l

/-- the item of member `k` is bound to the id member `k` carries in the composition -/
theorem boundId_scan (i : Nat) (ms : List Mem) (k : Nat) :
    boundId (scan (R := R) i ms).1 k = lookupId k (reqMembers i ms) := by
  induction ms generalizing i with
  | nil => rfl
  | cons m ms ih =>
    cases m with
    | req id => simp only [scan, boundId, reqMembers, lookupId, ih (i + 1)]
    | notif => simp only [scan, boundId, reqMembers, ih (i + 1)]
    | invalid id => simp only [scan, reqMembers, ih (i + 1)]

theorem lookupId_mem {k : Nat} {l : List (Nat × Id)} {id : Id} (h : lookupId k l = some id) :
    (k, id) ∈ l := by
  induction l with
  | nil => simp [lookupId] at h
  | cons p l ih =>
    obtain ⟨m, j⟩ := p
    simp only [lookupId] at h
    by_cases hk : k = m
    · simp only [hk, ↓reduceIte, Option.some.injEq] at h
      subst hk; subst h; simp
    · simp only [hk, ↓reduceIte] at h
      exact mem_cons_of_mem _ (ih h)

theorem lookupId_isSome {k : Nat} {l : List (Nat × Id)} (h : k ∈ l.map (·.1)) :
    ∃ id, lookupId k l = some id := by
  induction l with
  | nil => simp at h
  | cons p l ih =>
    obtain ⟨m, j⟩ := p
    by_cases hk : k = m
    · exact ⟨j, by simp [lookupId, hk]⟩
    · have : k ∈ l.map (·.1) := by
        simp only [map_cons, mem_cons] at h
        rcases h with h | h
        · exact absurd h hk
        · exact h
      obtain ⟨id, hid⟩ := ih this
      exact ⟨id, by simp [lookupId, hk, hid]⟩

/-- `(m, id)` is listed among the request members exactly when member `m` of the composition
    is the request with id `id` -/
theorem mem_reqMembers (i : Nat) (ms : List Mem) (m : Nat) (id : Id) :
    (m, id) ∈ reqMembers i ms ↔ i ≤ m ∧ ms[m - i]? = some (.req id) := by
  induction ms generalizing i with
  | nil => simp [reqMembers]
  | cons x ms ih =>
    have step : ∀ (hlt : i < m), (x :: ms)[m - i]? = ms[m - (i + 1)]? := by
      intro hlt
      have : m - i = (m - (i + 1)) + 1 := by omega
      rw [this, getElem?_cons_succ]
    cases x with
    | req j =>
      simp only [reqMembers, mem_cons, Prod.mk.injEq, ih (i + 1)]
      constructor
      · rintro (⟨rfl, rfl⟩ | ⟨h1, h2⟩)
        · simp
        · exact ⟨by omega, by rw [step (by omega)]; exact h2⟩
      · rintro ⟨h1, h2⟩
        by_cases hm : m = i
        · subst hm
          simp only [Nat.sub_self, getElem?_cons_zero, Option.some.injEq, Mem.req.injEq] at h2
          exact Or.inl ⟨rfl, h2.symm⟩
        · have hlt : i < m := by omega
          rw [step hlt] at h2
          exact Or.inr ⟨by omega, h2⟩
    | notif =>
      simp only [reqMembers, ih (i + 1)]
      constructor
      · rintro ⟨h1, h2⟩
        exact ⟨by omega, by rw [step (by omega)]; exact h2⟩
      · rintro ⟨h1, h2⟩
        by_cases hm : m = i
        · subst hm; simp at h2
        · have hlt : i < m := by omega
          rw [step hlt] at h2
          exact ⟨by omega, h2⟩
    | invalid j =>
      simp only [reqMembers, ih (i + 1)]
      constructor
      · rintro ⟨h1, h2⟩
        exact ⟨by omega, by rw [step (by omega)]; exact h2⟩
      · rintro ⟨h1, h2⟩
        by_cases hm : m = i
        · subst hm; simp at h2
        · have hlt : i < m := by omega
          rw [step hlt] at h2
          exact ⟨by omega, h2⟩

/-- the member indices listed by `reqMembers` are strictly increasing, so each at most once -/
theorem reqMembers_lt (i : Nat) (ms : List Mem) :
    (∀ p ∈ reqMembers i ms, i ≤ p.1) ∧ ((reqMembers i ms).map (·.1)).Pairwise (· < ·) := by
  induction ms generalizing i with
  | nil => simp [reqMembers]
  | cons x ms ih =>
    obtain ⟨h1, h2⟩ := ih (i + 1)
    cases x with
    | req j =>
      refine ⟨?_, ?_⟩
      · intro p hp
        simp only [reqMembers, mem_cons] at hp
        rcases hp with rfl | hp
        · exact Nat.le_refl _
        · exact Nat.le_of_succ_le (h1 p hp)
      · simp only [reqMembers, map_cons, pairwise_cons]
        refine ⟨?_, h2⟩
        intro a ha
        obtain ⟨p, hp, rfl⟩ := mem_map.1 ha
        exact h1 p hp
    | notif =>
      exact ⟨fun p hp => Nat.le_of_succ_le (h1 p (by simpa [reqMembers] using hp)),
        by simpa [reqMembers] using h2⟩
    | invalid j =>
      exact ⟨fun p hp => Nat.le_of_succ_le (h1 p (by simpa [reqMembers] using hp)),
        by simpa [reqMembers] using h2⟩

theorem reqIdx_nodup (ms : List Mem) : (reqIdx ms).Nodup := by
  have := (reqMembers_lt 0 ms).2
  exact this.imp (fun h => Nat.ne_of_lt h)

/-! ### resolved deliveries -/

/-- attach to each delivery the id its item's `send_result` is bound to (deliveries to members
    without a `send_result` never happen) -/
def resolve (its : List Item) : List (Call R) → List (BCall R)
  | [] => []
  | c :: cs =>
      match boundId its c.1 with
      | some id => (c.1, id, c.2.1, c.2.2) :: resolve its cs
      | none => resolve its cs

theorem runCalls_resolved (inc : Nat) (encLen : Id → R → Nat) (its : List Item) :
    ∀ (cs : List (Call R)) (b : ReqBatch R), (∀ c ∈ cs, ∃ id, boundId its c.1 = some id) →
      runCalls inc encLen its b cs = runBound inc encLen b (resolve its cs)
  | [], _, _ => rfl
  | c :: cs, b, h => by
    obtain ⟨id, hid⟩ := h c (by simp)
    have ih := fun b' => runCalls_resolved inc encLen its cs b'
      (fun x hx => h x (mem_cons_of_mem _ hx))
    simp only [runCalls, resolve, hid, runBound, ih]

theorem resolve_spec (its : List Item) :
    ∀ (cs : List (Call R)), (∀ c ∈ cs, ∃ id, boundId its c.1 = some id) →
      (resolve its cs).length = cs.length ∧
      (resolve its cs).map (fun c => (c.1, c.2.2)) = cs ∧
      ∀ bc ∈ resolve its cs, boundId its bc.1 = some bc.2.1
  | [], _ => ⟨rfl, rfl, by simp [resolve]⟩
  | c :: cs, h => by
    obtain ⟨id, hid⟩ := h c (by simp)
    obtain ⟨a, b, d⟩ := resolve_spec its cs (fun x hx => h x (mem_cons_of_mem _ hx))
    refine ⟨by simp [resolve, hid, a], by simp [resolve, hid, b], ?_⟩
    intro bc hbc
    simp only [resolve, hid, mem_cons] at hbc
    rcases hbc with rfl | hbc
    · exact hid
    · exact d bc hbc

/-- resolving does not touch the limits: every resolved delivery carries the limit of a
    delivery -/
theorem resolve_lims (its : List Item) (P : Nat → Prop) :
    ∀ (cs : List (Call R)), (∀ c ∈ cs, P c.2.2) → ∀ bc ∈ resolve its cs, P bc.lim
  | [], _ => by simp [resolve]
  | c :: cs, h => by
    have ih := resolve_lims its P cs (fun x hx => h x (mem_cons_of_mem _ hx))
    intro bc hbc
    cases hid : boundId its c.1 with
    | none => simp only [resolve, hid] at hbc; exact ih bc hbc
    | some id =>
      simp only [resolve, hid, mem_cons] at hbc
      rcases hbc with rfl | hbc
      · exact h c (by simp)
      · exact ih bc hbc

/-! ### the real entries and the running size -/

/-- the encoded length of a real result entry (0 for the others) -/
def resLen (encLen : Id → R → Nat) : Entry R → Nat
  | .res _ id r => encLen id r
  | _ => 0

/-- whatever the limits: the real entries account for no more than the running size does (the
    running size also contains the results that were replaced) -/
theorem real_entries_le_size (inc : Nat) (encLen : Id → R → Nat) :
    ∀ (cs : List (BCall R)) (s : Nat),
      s + (((entriesFrom inc encLen s cs).filter Entry.isReal).map
        fun e => resLen encLen e + inc).sum ≤ sizeAfter inc encLen s cs
  | [], s => by simp [entriesFrom, sizeAfter]
  | c :: cs, s => by
    have ih := real_entries_le_size inc encLen cs (s + encLen c.2.1 c.2.2.1 + inc)
    simp only [sizeAfter, map_cons, sum_cons] at ih ⊢
    simp only [entriesFrom]
    split
    · rw [filter_cons_of_neg (by simp [Entry.isReal])]
      omega
    · rw [filter_cons_of_pos (by simp [Entry.isReal])]
      simp only [map_cons, sum_cons]
      have hr : resLen encLen (Entry.res c.1 c.2.1 c.2.2.1) = encLen c.2.1 c.2.2.1 := rfl
      rw [hr]
      omega

/-- under a **constant** positive limit: once the running size is over the limit every later
    entry is replaced -/
theorem no_real_after_overflow (max inc : Nat) (encLen : Id → R → Nat) (hmax : 0 < max) :
    ∀ (l : List (BCall R)) (t : Nat), (∀ c ∈ l, c.lim = max) → max < t →
      (entriesFrom inc encLen t l).filter Entry.isReal = []
  | [], _, _, _ => rfl
  | d :: l, t, hc, ht => by
    have hd : d.2.2.2 = max := hc d (by simp)
    have h : t + encLen d.2.1 d.2.2.1 + inc > max := by omega
    simp only [entriesFrom, hd, h, hmax, decide_true, Bool.and_self, ↓reduceIte]
    rw [filter_cons_of_neg (by simp [Entry.isReal])]
    exact no_real_after_overflow max inc encLen hmax l _ (fun x hx => hc x (mem_cons_of_mem _ hx)) h

/-- under a **constant** positive limit: the accounted size of the real entries among the
    entries produced from running size `s` never exceeds what the limit leaves -/
theorem real_entries_accounted (max inc : Nat) (encLen : Id → R → Nat) (hmax : 0 < max) :
    ∀ (cs : List (BCall R)) (s : Nat), (∀ c ∈ cs, c.lim = max) → s ≤ max →
      s + (((entriesFrom inc encLen s cs).filter Entry.isReal).map
        fun e => resLen encLen e + inc).sum ≤ max
  | [], s, _, hs => by simpa [entriesFrom] using hs
  | c :: cs, s, hc, hs => by
    have hd : c.2.2.2 = max := hc c (by simp)
    have hc' : ∀ x ∈ cs, x.lim = max := fun x hx => hc x (mem_cons_of_mem _ hx)
    by_cases h : s + encLen c.2.1 c.2.2.1 + inc > max
    · simp only [entriesFrom, hd, h, hmax, decide_true, Bool.and_self, ↓reduceIte]
      rw [filter_cons_of_neg (by simp [Entry.isReal]),
        no_real_after_overflow max inc encLen hmax cs _ hc' h]
      simpa using hs
    · have h' : s + encLen c.2.1 c.2.2.1 + inc ≤ max := by omega
      have ih := real_entries_accounted max inc encLen hmax cs _ hc' h'
      have hcond : (decide (s + encLen c.2.1 c.2.2.1 + inc > max) && decide (max > 0)) = false := by
        simp [h]
      simp only [entriesFrom, hd, hcond, Bool.false_eq_true, ↓reduceIte]
      rw [filter_cons_of_pos (by simp [Entry.isReal])]
      simp only [map_cons, sum_cons]
      have hr : resLen encLen (Entry.res c.1 c.2.1 c.2.2.1) = encLen c.2.1 c.2.2.1 := rfl
      rw [hr]
      omega

end Aiorpcx.C02
