import Aiorpcx.Common.Hex
import Aiorpcx.C02.Model
import Aiorpcx.Facts.C02
/-! Line-protocol driver for the C02 model.

    in : `B <max> <member>,<member>.. <call>,<call>..`   (`-` for an empty call list)
           member = `R:<id>` | `N` | `X:<id>`; id as in the C01 driver
           (`i<int>` `h<int>` `bT` `bF` `s<cp>.<cp>` `n` `u<tag>`);
           call = `<member index>:<encoded length of its response>` in completion order
         `S <max> <len> <id>`  single request
    out: for `B`: `E[<entries>]` if the batch is rejected at once, else one token per call
         (`-` nothing returned, `[<entries>]` the batch response) or `.` when there is no call;
         entry = `e|r|b` `<member>@<id>` (error for invalid member / real result / too-large error)
         for `S`: `r@<id>` or `b@<id>`.
    The per-entry size increment comes from the generated facts. -/
open Aiorpcx Aiorpcx.C01 Aiorpcx.C02

def parseId2 (s : String) : Option Id :=
  if s == "n" then some .null
  else if s == "bT" then some (.bool true)
  else if s == "bF" then some (.bool false)
  else
    let rest := (s.drop 1).toString
    match s.front with
    | 'i' => rest.toInt?.map .int
    | 'h' => rest.toInt?.map .half
    | 'u' => rest.toNat?.map .unhashable
    | 's' =>
        if rest == "" then some (.str [])
        else ((rest.splitOn ".").mapM String.toNat?).map .str
    | _ => none

def showId : Id → String
  | .int n => "i" ++ toString n
  | .half h => "h" ++ toString h
  | .bool true => "bT"
  | .bool false => "bF"
  | .str s => "s" ++ String.intercalate "." (s.map toString)
  | .null => "n"
  | .unhashable t => "u" ++ toString t

def parseMem (s : String) : Option Mem :=
  if s == "N" then some .notif
  else match s.splitOn ":" with
    | ["R", i] => (parseId2 i).map .req
    | ["X", i] => (parseId2 i).map .invalid
    | _ => none

def showEntry : Entry (Nat × Nat) → String
  | .err m i => "e" ++ toString m ++ "@" ++ showId i
  | .res m i _ => "r" ++ toString m ++ "@" ++ showId i
  | .big m i => "b" ++ toString m ++ "@" ++ showId i

def showEntries (es : List (Entry (Nat × Nat))) : String :=
  "[" ++ String.intercalate "," (es.map showEntry) ++ "]"

def memId : Mem → Id
  | .req i => i
  | .invalid i => i
  | .notif => .null

def parseCall (ms : List Mem) (s : String) : Option (Call (Nat × Nat)) :=
  match s.splitOn ":" with
  | [i, l] =>
      match i.toNat?, l.toNat? with
      | some idx, some len =>
          match ms[idx]? with
          | some m => some (idx, memId m, (idx, len))
          | none => none
      | _, _ => none
  | _ => none

def handle (line : String) : String :=
  let inc := Facts.C02.sizeIncrement.getD 0
  let encLen : Id → (Nat × Nat) → Nat := fun _ r => r.2
  match (line.splitOn " ").filter (· ≠ "") with
  | ["B", mx, mems, calls] =>
      match mx.toNat?, (mems.splitOn ",").mapM parseMem with
      | some max, some ms =>
          let cs? := if calls == "-" then some [] else (calls.splitOn ",").mapM (parseCall ms)
          match cs? with
          | some cs =>
              match receiveBatch (R := Nat × Nat) ms with
              | .errorBatch es => "E" ++ showEntries es
              | .items _ b =>
                  if cs.isEmpty then "."
                  else String.intercalate " " ((runCalls max inc encLen b cs).map fun
                    | none => "-"
                    | some es => showEntries es)
          | none => "bad-op"
      | _, _ => "bad-op"
  | ["S", mx, len, i] =>
      match mx.toNat?, len.toNat?, parseId2 i with
      | some max, some l, some id =>
          match sendResultSingle max encLen id (0, l) with
          | .res _ i _ => "r@" ++ showId i
          | .big _ i => "b@" ++ showId i
          | .err _ i => "e@" ++ showId i
      | _, _, _ => "bad-op"
  | _ => "bad-op"

def main : IO Unit := Hex.lineLoop handle
