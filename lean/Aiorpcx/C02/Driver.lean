import Aiorpcx.Common.Hex
import Aiorpcx.C02.Model
import Aiorpcx.Facts.C02
/-! Line-protocol driver for the C02 model.

    in : `B <member>,<member>.. <call>,<call>..`   (`-` for an empty call list)
           member = `R:<id>` | `N` | `X:<id>`; id as in the C01 driver
           (`i<int>` `h<int>` `bT` `bF` `s<cp>.<cp>` `n` `u<tag>`, tag < 1000), plus the
           non-finite float ids `finf` `fninf` `fnan` (what `json.loads` makes of `1e999` /
           `Infinity`, `-1e999` / `-Infinity`, `NaN`; JSON-RPC 2.0 admits every Number as id).
           The C02 model never inspects an id - it binds it at receipt and echoes it (every
           theorem is quantified over all ids) - so an id is an opaque label here.  `C01.Id`
           (another property's file) has no constructor for these three values: the driver
           interns them as the reserved labels `unhashable 1000/1001/1002`, which no other
           token denotes (`u<tag>` is refused for tag >= 1000), and prints them back as
           `finf` `fninf` `fnan`; the mapping token <-> label stays injective;
           call = `<member index>:<encoded length of its response>:<max_response_size at the
           moment this result is supplied>` in completion order
           (no id: the model answers under the id the member's item was bound to; no limit
           for the batch as a whole: what `max_response_size` was at receipt is not an input)
         `S <lim> <len> <member>`  single message (request / notification / invalid);
           `lim` = `max_response_size` when the result is supplied
         `T <isReq 0|1> <returnsMsg 0|1> <events>`  one `_throttled_request` task;
           events = string over `r` (handler returns) `t` (timeout fires) `w` (write accepted)
    out: for `B`: `E[<entries>]` if the batch is rejected at once, else one token per call
         (`-` nothing returned, `[<entries>]` the batch response) or `.` when there is no call;
         entry = `e|r|b` `<member>@<id>` (error for invalid member / real result / too-large error)
         for `S`: `r@<id>` | `b@<id>` | `e@<id>` | `none`
         for `T`: the actions `s:v` `s:b` (send_result with the value / SERVER_BUSY) `w:v` `w:b`
         (written), comma separated, `-` if none.
    The per-entry size increment comes from the generated facts. -/
open Aiorpcx Aiorpcx.C01 Aiorpcx.C02

def parseId2 (s : String) : Option Id :=
  if s == "n" then some .null
  else if s == "bT" then some (.bool true)
  else if s == "bF" then some (.bool false)
  else
    let rest := (s.drop 1).toString
    match s.front with
    | 'i' => rest.toInt?.map .int
    | 'h' => rest.toInt?.map .half
    | 'u' => (rest.toNat?.filter (· < 1000)).map .unhashable
    | 'f' =>
        if rest == "inf" then some (.unhashable 1000)
        else if rest == "ninf" then some (.unhashable 1001)
        else if rest == "nan" then some (.unhashable 1002)
        else none
    | 's' =>
        if rest == "" then some (.str [])
        else ((rest.splitOn ".").mapM String.toNat?).map .str
    | _ => none

def showId : Id → String
  | .int n => "i" ++ toString n
  | .half h => "h" ++ toString h
  | .bool true => "bT"
  | .bool false => "bF"
  | .str s => "s" ++ String.intercalate "." (s.map toString)
  | .null => "n"
  | .unhashable 1000 => "finf"
  | .unhashable 1001 => "fninf"
  | .unhashable 1002 => "fnan"
  | .unhashable t => "u" ++ toString t

def parseMem (s : String) : Option Mem :=
  if s == "N" then some .notif
  else match s.splitOn ":" with
    | ["R", i] => (parseId2 i).map .req
    | ["X", i] => (parseId2 i).map .invalid
    | _ => none

def showEntry : Entry Nat → String
  | .err m i => "e" ++ toString m ++ "@" ++ showId i
  | .res m i _ => "r" ++ toString m ++ "@" ++ showId i
  | .big m i => "b" ++ toString m ++ "@" ++ showId i

def showEntries (es : List (Entry Nat)) : String :=
  "[" ++ String.intercalate "," (es.map showEntry) ++ "]"

def parseCall (s : String) : Option (Call Nat) :=
  match s.splitOn ":" with
  | [i, l, m] =>
      match i.toNat?, l.toNat?, m.toNat? with
      | some idx, some len, some lim => some (idx, len, lim)
      | _, _, _ => none
  | _ => none

def parseEv : Char → Option (Ev Nat)
  | 'r' => some (.ret 0)
  | 't' => some .timeout
  | 'w' => some .written
  | _ => none

def showAct : Act Nat → String
  | .sendResult (.value _) => "s:v"
  | .sendResult .busy => "s:b"
  | .wrote (.value _) => "w:v"
  | .wrote .busy => "w:b"

def handle (line : String) : String :=
  let inc := Facts.C02.sizeIncrement.getD 0
  let encLen : Id → Nat → Nat := fun _ r => r
  match (line.splitOn " ").filter (· ≠ "") with
  | ["B", mems, calls] =>
      match (mems.splitOn ",").mapM parseMem with
      | some ms =>
          let cs? := if calls == "-" then some [] else (calls.splitOn ",").mapM parseCall
          match cs? with
          | some cs =>
              match receiveBatch (R := Nat) ms with
              | .errorBatch es => "E" ++ showEntries es
              | .items its b =>
                  if cs.isEmpty then "."
                  else String.intercalate " " ((runCalls inc encLen its b cs).map fun
                    | none => "-"
                    | some es => showEntries es)
          | none => "bad-op"
      | none => "bad-op"
  | ["S", mx, len, m] =>
      match mx.toNat?, len.toNat?, parseMem m with
      | some lim, some l, some mem =>
          match repliesSingle encLen mem l lim with
          | [] => "none"
          | [.res _ i _] => "r@" ++ showId i
          | [.big _ i] => "b@" ++ showId i
          | [.err _ i] => "e@" ++ showId i
          | _ => "bad-model"
      | _, _, _ => "bad-op"
  | ["T", isReq, msg, evs] =>
      match evs.toList.mapM parseEv with
      | some es =>
          let acts := (trun (isReq == "1") (msg == "1") .handling es).2
          if acts.isEmpty then "-" else String.intercalate "," (acts.map showAct)
      | none => "bad-op"
  | _ => "bad-op"

def main : IO Unit := Hex.lineLoop handle
