import Aiorpcx.C02.Lemmas
import Aiorpcx.Facts.C02
/-!
# C02 — every incoming request is answered exactly once under its own id

Model: `Aiorpcx.C02` (`Model.lean`) mirrors `_receive_request_batch` / `item_send_result` /
`_send_result` / the request branch of `receive_message` of `aiorpcx/jsonrpc.py` and the
send-once discipline of `RPCSession._throttled_request`.

`replies inc encLen ms calls` is the list of batch messages that leave the connection for a
received batch with composition `ms` when the request handlers deliver their results in the
order `calls`.  A delivery is `(member index, result, limit)`: `limit` is the value the public,
dynamically settable attribute `max_response_size` has **at the moment the result is supplied**
(the code reads it inside `item_send_result` / `_send_result`; nothing created at receipt holds
a limit - the variant that reads it once at receipt is refuted: `limit_at_receipt_refuted`).
A delivery carries no id: the id an entry is sent under is the
one the member's item was bound to when `_receive_request_batch` created it
(`partial(item_send_result, request_id)`), so "entry `k` carries member `k`'s own id" is a
theorem about the model (`boundId_scan`), not a hypothesis; `late_binding_refuted` shows the
theorems exclude a closure that captures the loop variable instead.

All theorems are quantified over every composition, every completion order, every result, every
id, every **schedule of limits** (one per delivery, changing freely between deliveries: lowered,
raised, 0 <-> positive), every `inc`, `encLen`.
-/
namespace Aiorpcx.C02
open List
open Aiorpcx.C01 (Id)

variable {R : Type}

theorem receiveBatch_of_req (ms : List Mem) (h : reqMembers 0 ms ≠ []) :
    receiveBatch (R := R) ms =
      .items (scan (R := R) 0 ms).1
        ⟨errEntries 0 ms, (reqMembers 0 ms).length + (errEntries (R := R) 0 ms).length, 0⟩ := by
  obtain ⟨h1, h2, h3⟩ := scan_spec (R := R) 0 ms
  unfold receiveBatch
  have : (scan (R := R) 0 ms).1.isEmpty = false := by
    cases he : (scan (R := R) 0 ms).1.isEmpty with
    | false => rfl
    | true => exact absurd (h3.1 he).1 h
  simp only [this, Bool.false_and, Bool.false_eq_true, ↓reduceIte, h1, h2]

/-- every delivery of a complete order goes to an item with a `send_result`, bound to the id
    the member carries in the composition -/
theorem deliveries_bound (ms : List Mem) (calls : List (Call R))
    (hperm : calls.map (·.1) ~ reqIdx ms) :
    ∀ c ∈ calls, ∃ id, boundId (scan (R := R) 0 ms).1 c.1 = some id := by
  intro c hc
  have hm : c.1 ∈ reqIdx ms := hperm.mem_iff.1 (mem_map_of_mem hc)
  obtain ⟨id, hid⟩ := lookupId_isSome (l := reqMembers 0 ms) hm
  exact ⟨id, by rw [boundId_scan]; exact hid⟩

theorem entriesFrom_get (inc : Nat) (encLen : Id → R → Nat) :
    ∀ (cs : List (BCall R)) (s k : Nat) (hk : k < cs.length),
      (entriesFrom inc encLen s cs)[k]? = some (.res (cs[k]).1 (cs[k]).2.1 (cs[k]).2.2.1) ∨
      (entriesFrom inc encLen s cs)[k]? = some (.big (cs[k]).1 (cs[k]).2.1)
  | [], _, _, hk => by simp at hk
  | c :: cs, s, 0, _ => by
    simp only [entriesFrom, getElem?_cons_zero, getElem_cons_zero]
    split
    · exact Or.inr rfl
    · exact Or.inl rfl
  | c :: cs, s, k + 1, hk => by
    simp only [entriesFrom, getElem?_cons_succ, getElem_cons_succ]
    exact entriesFrom_get inc encLen cs _ k (by simpa using hk)

/-- **batch_one_reply.**  A batch with at least one request member, whose request members
    deliver their results in **any order** `calls` (each request member's index exactly once):
    the first `count − 1` calls of `send_result` return nothing, the last returns the one batch
    response `es`; `es` = the error entries of the invalid members in member order followed by
    `tail`, one entry per delivery in completion order; the number of entries is
    #requests + #invalid; and entry `k` of `tail` answers the `k`-th completed member: it is
    that member's result (or the "too large" error) **under the id that member carries in the
    composition** (`ms[m]? = some (.req id)`) - equal ids of different members included. -/
theorem batch_one_reply (inc : Nat) (encLen : Id → R → Nat) (ms : List Mem)
    (calls : List (Call R)) (hperm : calls.map (·.1) ~ reqIdx ms)
    (hne : reqMembers 0 ms ≠ []) :
    ∃ (b : ReqBatch R) (its : List Item) (es tail : List (Entry R)),
      receiveBatch ms = .items its b ∧
      runCalls inc encLen its b calls = replicate (calls.length - 1) none ++ [some es] ∧
      replies inc encLen ms calls = [es] ∧
      es = errEntries 0 ms ++ tail ∧
      tail = entriesFrom inc encLen 0 (resolve its calls) ∧
      es.length = (reqMembers 0 ms).length + (errEntries (R := R) 0 ms).length ∧
      tail.length = calls.length ∧
      ∀ (k : Nat) (hk : k < calls.length), ∃ id,
        ms[(calls[k]).1]? = some (.req id) ∧
        (tail[k]? = some (.res (calls[k]).1 id (calls[k]).2.1) ∨
         tail[k]? = some (.big (calls[k]).1 id)) := by
  have hlen : calls.length = (reqMembers 0 ms).length := by
    have := hperm.length_eq
    simpa [reqIdx] using this
  have hcne : calls ≠ [] := by
    intro h; subst h
    exact hne (List.length_eq_zero_iff.1 (by simpa using hlen.symm))
  have hrecv := receiveBatch_of_req (R := R) ms hne
  have hb := deliveries_bound ms calls hperm
  obtain ⟨rl, rmap, rids⟩ := resolve_spec (scan (R := R) 0 ms).1 calls hb
  have hrne : resolve (scan (R := R) 0 ms).1 calls ≠ [] := by
    intro h
    rw [h] at rl
    exact hcne (List.length_eq_zero_iff.1 rl.symm)
  have hrun := runBound_complete inc encLen (resolve (scan (R := R) 0 ms).1 calls)
    ⟨errEntries 0 ms, (reqMembers 0 ms).length + (errEntries (R := R) 0 ms).length, 0⟩ hrne
    (by simp only [rl]; omega)
  rw [← runCalls_resolved inc encLen _ calls _ hb, rl] at hrun
  refine ⟨_, _, _, _, hrecv, hrun, ?_, rfl, rfl, ?_, ?_, ?_⟩
  · simp only [replies, hrecv, hrun]
    simp [filterMap_append, filterMap_replicate_of_none]
  · simp [length_entriesFrom, rl, hlen]; omega
  · simp [length_entriesFrom, rl]
  · intro k hk
    have hk' : k < (resolve (scan (R := R) 0 ms).1 calls).length := by omega
    have hck : calls[k] = (((resolve (scan (R := R) 0 ms).1 calls)[k]).1,
        ((resolve (scan (R := R) 0 ms).1 calls)[k]).2.2) := by
      have := congrArg (fun l => l[k]?) rmap
      simp only [getElem?_map, getElem?_eq_getElem hk', getElem?_eq_getElem hk, Option.map_some,
        Option.some.injEq] at this
      exact this.symm
    have hid := rids _ (getElem_mem hk')
    rw [boundId_scan] at hid
    have hmem := (mem_reqMembers 0 ms _ _).1 (lookupId_mem hid)
    refine ⟨((resolve (scan (R := R) 0 ms).1 calls)[k]).2.1, ?_, ?_⟩
    · rw [hck]; simpa using hmem.2
    · rw [hck]
      exact entriesFrom_get inc encLen _ 0 k hk'

/-- non-vacuity of `batch_one_reply`: `[invalid, req 7, notif, req 7, req "a"]` (duplicate ids),
    completed in the order 4, 1, 3: one reply `[err₀, res₄, res₁, res₃]`, ids in that order. -/
example :
    let ms : List Mem := [.invalid .null, .req (.int 7), .notif, .req (.int 7), .req (.str [97])]
    let calls : List (Call Nat) := [(4, 40, 0), (1, 10, 0), (3, 30, 0)]
    calls.map (·.1) ~ reqIdx ms ∧
    replies 2 (fun _ _ => 5) ms calls =
      [[.err 0 .null, .res 4 (.str [97]) 40, .res 1 (.int 7) 10, .res 3 (.int 7) 30]] := by
  decide

theorem runCalls_incomplete (inc : Nat) (encLen : Id → R → Nat) (its : List Item) :
    ∀ (cs : List (Call R)) (b : ReqBatch R), b.parts.length + cs.length < b.count →
      runCalls inc encLen its b cs = replicate cs.length none
  | [], _, _ => rfl
  | c :: cs, b, hc => by
    simp only [length_cons] at hc
    cases hid : boundId its c.1 with
    | none =>
      have ih := runCalls_incomplete inc encLen its cs b (by omega)
      simp only [runCalls, hid, ih, length_cons, replicate_succ]
    | some id =>
      have ih := runCalls_incomplete inc encLen its cs (sendResult inc encLen b c.1 id c.2.1 c.2.2).1
        (by simp only [sendResult, length_append, length_cons, length_nil]; omega)
      have hne : ((b.parts ++ [if (b.size + encLen id c.2.1 + inc > c.2.2 && c.2.2 > 0) = true
          then Entry.big c.1 id else Entry.res c.1 id c.2.1]).length == b.count) = false := by
        simp only [length_append, length_cons, length_nil, beq_eq_false_iff_ne]; omega
      simp only [runCalls, hid, ih, length_cons, replicate_succ]
      simp only [sendResult, hne, Bool.false_eq_true, ↓reduceIte]

/-- **no_early_reply.**  While at least one request member has not delivered its result, no
    call of `send_result` returns a message, whatever has been delivered so far: the batch
    response is sent only when every member has its result. -/
theorem no_early_reply (inc : Nat) (encLen : Id → R → Nat) (ms : List Mem)
    (calls : List (Call R)) (hne : reqMembers 0 ms ≠ [])
    (hlt : calls.length < (reqMembers 0 ms).length) :
    replies inc encLen ms calls = [] := by
  have hrecv := receiveBatch_of_req (R := R) ms hne
  simp only [replies, hrecv]
  rw [runCalls_incomplete _ _ _ _ _ (by simp only; omega)]
  simp [filterMap_replicate_of_none]

/-- non-vacuity of `no_early_reply`: two of three request members have delivered -/
example :
    replies 2 (fun _ (_ : Nat) => 5)
      [.req (.int 1), .invalid .null, .req (.int 2), .req (.int 3)] [(3, 30, 0), (0, 10, 7)]
      = [] := by decide

/-- **duplicate_ids_ok.**  Entries are bound to members, not to id values: whatever ids the
    members carry (no injectivity assumed - equal ids included), the batch response contains
    **exactly one** entry answering each request member, and that entry carries the id of that
    very member. -/
theorem duplicate_ids_ok (inc : Nat) (encLen : Id → R → Nat) (ms : List Mem)
    (calls : List (Call R)) (hperm : calls.map (·.1) ~ reqIdx ms)
    (hne : reqMembers 0 ms ≠ []) :
    ∃ es tail : List (Entry R), replies inc encLen ms calls = [es] ∧
      es = errEntries 0 ms ++ tail ∧
      tail.map Entry.member ~ reqIdx ms ∧
      (∀ m ∈ reqIdx ms, (tail.map Entry.member).count m = 1) ∧
      ∀ e ∈ tail, ms[e.member]? = some (.req e.id) := by
  obtain ⟨b, its, es, tail, _, _, hrep, hes, _, _, htl, hk⟩ :=
    batch_one_reply inc encLen ms calls hperm hne
  have hmem : tail.map Entry.member = calls.map (·.1) := by
    apply ext_getElem (by simp [htl])
    intro k h1 h2
    have hkc : k < calls.length := by simpa using h2
    obtain ⟨id, _, h⟩ := hk k hkc
    have hkt : k < tail.length := by omega
    simp only [getElem_map]
    rcases h with h | h <;>
      (rw [getElem?_eq_getElem hkt] at h
       simp only [Option.some.injEq] at h
       rw [h]; rfl)
  refine ⟨es, tail, hrep, hes, hmem ▸ hperm, ?_, ?_⟩
  · intro m hm
    rw [hmem, hperm.count_eq]
    exact count_eq_one_of_nodup (reqIdx_nodup ms) hm
  · intro e he
    obtain ⟨k, hkt, rfl⟩ := getElem_of_mem he
    have hkc : k < calls.length := by omega
    obtain ⟨id, hms, h⟩ := hk k hkc
    rcases h with h | h <;>
      (rw [getElem?_eq_getElem hkt] at h
       simp only [Option.some.injEq] at h
       rw [h]; exact hms)

/-- non-vacuity of `duplicate_ids_ok`: three members all with id 7 -/
example :
    let ms : List Mem := [.req (.int 7), .req (.int 7), .req (.int 7)]
    let calls : List (Call Nat) := [(2, 20, 0), (0, 0, 0), (1, 10, 0)]
    calls.map (·.1) ~ reqIdx ms ∧
    replies 2 (fun _ _ => 5) ms calls =
      [[.res 2 (.int 7) 20, .res 0 (.int 7) 0, .res 1 (.int 7) 10]] := by decide

/-- **late_binding_refuted.**  A closure capturing the loop variable `request_id` (instead of
    `partial(item_send_result, request_id)`) is expressible in the model (`repliesLate`) and
    violates what `batch_one_reply` states: there is a composition and a complete delivery order
    whose reply has an entry that does **not** carry its member's id.  (With the real binding
    this is impossible: `batch_one_reply`, `duplicate_ids_ok`.) -/
theorem late_binding_refuted :
    ∃ (ms : List Mem) (calls : List (Call Nat)) (es : List (Entry Nat)),
      calls.map (·.1) ~ reqIdx ms ∧
      repliesLate 2 (fun _ _ => 5) ms calls = [es] ∧
      ∃ e ∈ es, ms[e.member]? ≠ some (.req e.id) :=
  ⟨[.req (.int 1), .req (.int 2)], [(0, 10, 0), (1, 20, 0)],
    [.res 0 (.int 2) 10, .res 1 (.int 2) 20], by decide, by decide,
    .res 0 (.int 2) 10, by decide, by decide⟩

/-- what was returned to batch `i` / the deliveries that went to batch `i` -/
def forBatch {α : Type} (i : Nat) (l : List (Nat × α)) : List α :=
  l.filterMap fun p => if p.1 = i then some p.2 else none

/-- **batches_independent.**  With several request batches in flight on one connection and
    their deliveries interleaved in **any** way, what the `send_result` calls of batch `i` return
    is exactly what they would return if batch `i` were alone and received the same deliveries
    in the same relative order: no state is shared between batches. -/
theorem batches_independent (inc : Nat) (encLen : Id → R → Nat) (i : Nat) :
    ∀ (ds : List (Nat × Call R)) (bs : List (List Item × ReqBatch R)) (its : List Item)
      (b : ReqBatch R), bs[i]? = some (its, b) →
      forBatch i (runMulti inc encLen bs ds) = runCalls inc encLen its b (forBatch i ds)
  | [], _, _, _, _ => rfl
  | (j, c) :: ds, bs, its, b, hb => by
    by_cases hd : j = i
    · -- a delivery to batch i
      subst hd
      have hlt : j < bs.length := by
        rcases Nat.lt_or_ge j bs.length with h | h
        · exact h
        · rw [getElem?_eq_none h] at hb; cases hb
      cases hid : boundId its c.1 with
      | none =>
        have ih := batches_independent inc encLen j ds bs its b hb
        simp only [forBatch] at ih
        simp only [runMulti, hb, hid, forBatch, filterMap_cons, ↓reduceIte, runCalls, ih]
      | some id =>
        have hset : (bs.set j (its, (sendResult inc encLen b c.1 id c.2.1 c.2.2).1))[j]? =
            some (its, (sendResult inc encLen b c.1 id c.2.1 c.2.2).1) := getElem?_set_self hlt
        have ih := batches_independent inc encLen j ds _ its _ hset
        simp only [forBatch] at ih
        simp only [runMulti, hb, hid, forBatch, filterMap_cons, ↓reduceIte, runCalls, ih]
    · -- a delivery to another batch leaves batch i as it is
      have hskip : forBatch i ((j, c) :: ds) = forBatch i ds := by
        simp [forBatch, hd]
      rw [hskip]
      cases hbd : bs[j]? with
      | none =>
        have ih := batches_independent inc encLen i ds bs its b hb
        simp only [forBatch] at ih ⊢
        simp only [runMulti, hbd, filterMap_cons, hd, ↓reduceIte, ih]
      | some ib =>
        cases hid : boundId ib.1 c.1 with
        | none =>
          have ih := batches_independent inc encLen i ds bs its b hb
          simp only [forBatch] at ih ⊢
          simp only [runMulti, hbd, hid, filterMap_cons, hd, ↓reduceIte, ih]
        | some id =>
          have ih := batches_independent inc encLen i ds
            (bs.set j (ib.1, (sendResult inc encLen ib.2 c.1 id c.2.1 c.2.2).1)) its b
            (by rw [getElem?_set_ne hd]; exact hb)
          simp only [forBatch] at ih ⊢
          simp only [runMulti, hbd, hid, filterMap_cons, hd, ↓reduceIte, ih]

/-- non-vacuity: two batches `[req 7, req 7]` and `[invalid, req 7]`, deliveries interleaved
    0.1, 1.1, 0.0: each gets its own reply, with its own entries -/
example :
    let b0 : List Item × ReqBatch Nat := ([.request 0 (.int 7), .request 1 (.int 7)], ⟨[], 2, 0⟩)
    let b1 : List Item × ReqBatch Nat := ([.request 1 (.int 7)], ⟨[.err 0 .null], 2, 0⟩)
    runMulti 2 (fun _ _ => 5) [b0, b1] [(0, 1, 10, 0), (1, 1, 20, 0), (0, 0, 30, 0)] =
      [(0, none), (1, some [.err 0 .null, .res 1 (.int 7) 20]),
       (0, some [.res 1 (.int 7) 10, .res 0 (.int 7) 30])] := by decide

theorem all_notif_members (R : Type) : ∀ (ms : List Mem), (∀ m ∈ ms, m = .notif) → ∀ i,
    reqMembers i ms = [] ∧ errEntries (R := R) i ms = []
  | [], _, _ => ⟨rfl, rfl⟩
  | m :: ms, h, i => by
    have := h m (by simp); subst this
    have ih := all_notif_members R ms (fun x hx => h x (by simp [hx])) (i + 1)
    simpa [reqMembers, errEntries] using ih

/-- **batch_notifications_only_silent.**  A batch holding only notifications produces no
    response, ever: nothing is raised, no item has a `send_result` (so whatever the session
    "delivers" is ignored), nothing is returned. -/
theorem batch_notifications_only_silent (inc : Nat) (encLen : Id → R → Nat) (ms : List Mem)
    (h : ∀ m ∈ ms, m = .notif) (calls : List (Call R)) :
    reqMembers 0 ms = [] ∧ (∀ k, boundId (scan (R := R) 0 ms).1 k = none) ∧
    replies inc encLen ms calls = [] := by
  obtain ⟨hreq, herr⟩ := all_notif_members R ms h 0
  obtain ⟨h1, h2, _⟩ := scan_spec (R := R) 0 ms
  have hb : ∀ k, boundId (scan (R := R) 0 ms).1 k = none := by
    intro k; rw [boundId_scan, hreq]; rfl
  refine ⟨hreq, hb, ?_⟩
  have hrun : ∀ (cs : List (Call R)) (b : ReqBatch R),
      runCalls inc encLen (scan (R := R) 0 ms).1 b cs = replicate cs.length none := by
    intro cs
    induction cs with
    | nil => intro b; rfl
    | cons c cs ih => intro b; simp only [runCalls, hb, ih, length_cons, replicate_succ]
  simp only [replies, receiveBatch, h1, herr, isEmpty_nil, Bool.not_true, Bool.and_false,
    Bool.false_eq_true, ↓reduceIte, hrun]
  simp [filterMap_replicate_of_none]

/-- non-vacuity: two notifications, and a (never happening) delivery to one of them -/
example : replies 2 (fun _ (_ : Nat) => 5) [.notif, .notif] [(0, 1, 0)] = [] := by decide

/-- **batch_all_invalid_immediate.**  A batch all of whose members are invalid is answered at
    once (the raised `ProtocolError` carries the batch) with one error entry per member, in
    member order, each under the id recovered from that member. -/
theorem batch_all_invalid_immediate (inc : Nat) (encLen : Id → R → Nat) (ms : List Mem)
    (hne : ms ≠ []) (h : ∀ m ∈ ms, ∃ id, m = .invalid id) (calls : List (Call R)) :
    receiveBatch (R := R) ms = .errorBatch (errEntries 0 ms) ∧
    replies inc encLen ms calls = [errEntries 0 ms] ∧
    (errEntries (R := R) 0 ms).length = ms.length := by
  have hreq : ∀ (l : List Mem) (i : Nat), (∀ m ∈ l, ∃ id, m = .invalid id) →
      reqMembers i l = [] ∧ notifCount l = 0 ∧ (errEntries (R := R) i l).length = l.length := by
    intro l
    induction l with
    | nil => intro i _; simp [reqMembers, notifCount, errEntries]
    | cons m l ih =>
      intro i hl
      obtain ⟨id, rfl⟩ := hl m (by simp)
      obtain ⟨a, b, c⟩ := ih (i + 1) (fun x hx => hl x (by simp [hx]))
      simp [reqMembers, notifCount, errEntries, a, b, c]
  obtain ⟨a, b, c⟩ := hreq ms 0 h
  obtain ⟨h1, _, h3⟩ := scan_spec (R := R) 0 ms
  have hemp : (scan (R := R) 0 ms).1.isEmpty = true := h3.2 ⟨a, b⟩
  have hparts : (errEntries (R := R) 0 ms).isEmpty = false := by
    cases he : errEntries (R := R) 0 ms with
    | nil => rw [he] at c; exact absurd (List.length_eq_zero_iff.1 c.symm) hne
    | cons _ _ => rfl
  have hr : receiveBatch (R := R) ms = .errorBatch (errEntries 0 ms) := by
    simp [receiveBatch, hemp, h1, hparts]
  exact ⟨hr, by simp [replies, hr], c⟩

/-- non-vacuity of `batch_all_invalid_immediate` -/
example : replies 2 (fun _ (_ : Nat) => 5) [.invalid .null, .invalid (.int 3)] []
    = [[.err 0 .null, .err 1 (.int 3)]] := by decide

/-! ## F8: notifications + invalid members, no request -/

/-- the full statement of "exactly one batch response": whenever the batch calls for entries
    (a request or an invalid member), exactly one batch message is sent and it contains them -/
def batch_reply_full (R : Type) : Prop :=
  ∀ (inc : Nat) (encLen : Id → R → Nat) (ms : List Mem) (calls : List (Call R)),
    calls.map (·.1) ~ reqIdx ms →
    (reqMembers 0 ms ≠ [] ∨ errEntries (R := R) 0 ms ≠ []) →
    ∃ es, replies inc encLen ms calls = [es] ∧
      es.length = (reqMembers 0 ms).length + (errEntries (R := R) 0 ms).length

/-- **batch_notif_invalid (F8)**: the request batch `[notification, invalid]` is never answered —
    the error entry for the invalid member is lost.  The full statement fails. -/
theorem batch_reply_full_fails : ¬ batch_reply_full Nat := by
  intro h
  obtain ⟨es, h1, _⟩ := h 2 (fun _ _ => 0) [.notif, .invalid .null] [] (by decide) (by decide)
  have h0 : replies 2 (fun _ (_ : Nat) => 0) [.notif, .invalid .null] [] = [] := by decide
  rw [h0] at h1
  cases h1

/-- the exact family on which it fails: no request, at least one notification and at least one
    invalid member.  Then nothing is ever sent. -/
theorem batch_notif_invalid_silent (inc : Nat) (encLen : Id → R → Nat) (ms : List Mem)
    (_hreq : reqMembers 0 ms = []) (hn : 0 < notifCount ms) :
    replies inc encLen ms ([] : List (Call R)) = [] := by
  obtain ⟨_, _, h3⟩ := scan_spec (R := R) 0 ms
  have : (scan (R := R) 0 ms).1.isEmpty = false := by
    cases he : (scan (R := R) 0 ms).1.isEmpty with
    | false => rfl
    | true => have := (h3.1 he).2; omega
  simp [replies, receiveBatch, this, runCalls]

/-- non-vacuity: `[notif, invalid, notif]` is silent although an error entry is called for;
    `[invalid, invalid]` and `[req, invalid]` (outside the family) get their one reply. -/
example :
    replies 2 (fun _ (_ : Nat) => 5) [.notif, .invalid (.int 3), .notif] [] = [] ∧
    replies 2 (fun _ (_ : Nat) => 5) [.invalid .null, .invalid (.int 3)] []
      = [[.err 0 .null, .err 1 (.int 3)]] ∧
    replies 2 (fun _ (_ : Nat) => 5) [.req (.int 1), .invalid (.int 3)] [(0, 10, 0)]
      = [[.err 1 (.int 3), .res 0 (.int 1) 10]] := by decide

/-- **batch_reply_partial.**  Outside that family the full statement holds. -/
theorem batch_reply_partial (inc : Nat) (encLen : Id → R → Nat) (ms : List Mem)
    (calls : List (Call R)) (hperm : calls.map (·.1) ~ reqIdx ms)
    (hsome : reqMembers 0 ms ≠ [] ∨ errEntries (R := R) 0 ms ≠ [])
    (hside : ¬ (reqMembers 0 ms = [] ∧ 0 < notifCount ms)) :
    ∃ es, replies inc encLen ms calls = [es] ∧
      es.length = (reqMembers 0 ms).length + (errEntries (R := R) 0 ms).length := by
  by_cases hreq : reqMembers 0 ms = []
  · have hn : notifCount ms = 0 := Nat.eq_zero_of_not_pos (fun h => hside ⟨hreq, h⟩)
    have herr : errEntries (R := R) 0 ms ≠ [] := by
      rcases hsome with h | h
      · exact absurd hreq h
      · exact h
    obtain ⟨h1, _, h3⟩ := scan_spec (R := R) 0 ms
    have hemp : (scan (R := R) 0 ms).1.isEmpty = true := h3.2 ⟨hreq, hn⟩
    have hparts : (errEntries (R := R) 0 ms).isEmpty = false := by
      cases he : errEntries (R := R) 0 ms with
      | nil => exact absurd he herr
      | cons _ _ => rfl
    refine ⟨errEntries 0 ms, ?_, by simp [hreq]⟩
    simp [replies, receiveBatch, hemp, h1, hparts]
  · obtain ⟨_, _, es, _, _, _, h3, _, _, h5, _⟩ := batch_one_reply inc encLen ms calls hperm hreq
    exact ⟨es, h3, h5⟩

/-! ## single messages -/

/-- **single_request_one_reply.**  A single well-formed request is answered by exactly one
    message, under the id the request carries (the id `receive_message` bound into its
    `send_result`), whatever the handler delivers and whatever `max_response_size` was when the
    request was received: with `lim` the limit in force **when the result is supplied**, the
    reply is the result if `lim` is 0 or the encoded response is not larger than `lim`,
    otherwise the "too large" error - same id. -/
theorem single_request_one_reply (encLen : Id → R → Nat) (id : Id) (r : R) (lim : Nat) :
    ∃ e, repliesSingle encLen (.req id) r lim = [e] ∧ e.id = id ∧
      ((lim = 0 ∨ encLen id r ≤ lim) → e = .res 0 id r) ∧
      ((0 < lim ∧ lim < encLen id r) → e = .big 0 id) := by
  refine ⟨sendResultSingle lim encLen id r, rfl, ?_, ?_, ?_⟩
  · unfold sendResultSingle; split <;> rfl
  · rintro (h | h)
    · subst h; simp [sendResultSingle]
    · have : ¬ (encLen id r > lim) := by omega
      simp [sendResultSingle, this]
  · rintro ⟨h1, h2⟩
    simp [sendResultSingle, h1, h2]

/-- **single_notification_silent.**  Nothing is ever emitted for a single notification: the
    item has no `send_result`, whatever its handler returns is dropped. -/
theorem single_notification_silent (encLen : Id → R → Nat) (r : R) (lim : Nat) :
    repliesSingle encLen .notif r lim = [] ∧
    receiveSingle .notif = .item (.notification 0) ∧ boundId [.notification 0] 0 = none :=
  ⟨rfl, rfl, rfl⟩

/-- an invalid single message is answered at once by one error response under the recovered
    id (not a clause of the property text: model/implementation comparison only) -/
theorem single_invalid_error_reply (encLen : Id → R → Nat) (id : Id) (r : R) (lim : Nat) :
    repliesSingle encLen (.invalid id) r lim = [.err 0 id] := rfl

/-- non-vacuity: a 10-byte response is kept at limit 10 and replaced at limit 9 -/
example :
    repliesSingle (fun _ (_ : Nat) => 10) (.req (.int 4)) 0 10 = [.res 0 (.int 4) 0] ∧
    repliesSingle (fun _ (_ : Nat) => 10) (.req (.int 4)) 0 9 = [.big 0 (.int 4)] ∧
    repliesSingle (fun _ (_ : Nat) => 10) .notif 0 9 = [] := by decide

/-! ## max_response_size

    `max_response_size` is "a public attribute intended to be settable dynamically"; the limit
    that decides is the one **in force when the result is supplied** (`lim` of the delivery). -/

/-- **oversize_single.**  `lim` = the value of `max_response_size` when `send_result` of a single
    request is called (not when the request was received).  The reply always carries the
    request's id; it is the real result exactly when `lim` is 0 (unlimited) or the encoded
    response is not larger than `lim` — otherwise it is the "too large" error response under the
    same id. -/
theorem oversize_single (lim : Nat) (encLen : Id → R → Nat) (id : Id) (r : R) :
    (sendResultSingle lim encLen id r).id = id ∧
    ((lim = 0 ∨ encLen id r ≤ lim) → sendResultSingle lim encLen id r = .res 0 id r) ∧
    ((0 < lim ∧ lim < encLen id r) → sendResultSingle lim encLen id r = .big 0 id) := by
  unfold sendResultSingle
  refine ⟨by split <;> rfl, ?_, ?_⟩
  · rintro (h | h)
    · subst h; simp
    · have : ¬ (encLen id r > lim) := by omega
      simp [this]
  · rintro ⟨h1, h2⟩
    simp [h1, h2]

/-- **oversize_batch.**  In a batch response (`tail` of `batch_one_reply`), entry `j` of the
    results part is the real result exactly when the *running size after delivery `j`* (the
    lengths of the results delivered so far, each plus `inc` - whether they were kept or replaced)
    is within **the limit in force at delivery `j`** (or that limit is 0); otherwise it is the
    "too large" error.  The limits of the other deliveries play no role for entry `j`: this is
    `size > self.max_response_size > 0` evaluated in call `j` with the cumulative size.  Either
    way the entry carries member `j`'s id (`batch_one_reply`).  Note what the running size does
    **not** contain: the error entries of invalid members, and the size of the replacement
    entries themselves. -/
theorem oversize_batch (inc : Nat) (encLen : Id → R → Nat) (calls : List (BCall R)) (j : Nat)
    (hj : j < calls.length) :
    ((entriesFrom inc encLen 0 calls)[j]'(by rw [length_entriesFrom]; exact hj)).isReal =
      ((calls[j]).lim == 0 ||
        decide (sizeAfter inc encLen 0 (calls.take (j + 1)) ≤ (calls[j]).lim)) :=
  entriesFrom_real inc encLen calls 0 j hj

/-- **oversize_entry_replaced** (what the text's clause says for one entry): an entry whose own
    encoded response is larger than the (positive) limit in force **when its result is
    supplied** is never the real result - whatever the limit was when the batch was received or
    at any other delivery. -/
theorem oversize_entry_replaced (inc : Nat) (encLen : Id → R → Nat) (calls : List (BCall R))
    (j : Nat) (hj : j < calls.length) (hlim : 0 < (calls[j]).lim)
    (hbig : (calls[j]).lim < encLen (calls[j]).2.1 (calls[j]).2.2.1) :
    ((entriesFrom inc encLen 0 calls)[j]'(by rw [length_entriesFrom]; exact hj)).isReal
      = false := by
  rw [oversize_batch inc encLen calls j hj]
  have hge : encLen (calls[j]).2.1 (calls[j]).2.2.1 ≤
      sizeAfter inc encLen 0 (calls.take (j + 1)) := by
    unfold sizeAfter
    have hmem : calls[j] ∈ calls.take (j + 1) := by
      rw [List.mem_take_iff_getElem]
      exact ⟨j, by omega, rfl⟩
    have := le_sum_of_mem (l := (calls.take (j + 1)).map fun c => encLen c.2.1 c.2.2.1 + inc)
      (x := encLen (calls[j]).2.1 (calls[j]).2.2.1 + inc)
      (mem_map.2 ⟨calls[j], hmem, rfl⟩)
    omega
  have h0 : ((calls[j]).lim == 0) = false := by simp; omega
  simp [h0]; omega

/-- non-vacuity of `oversize_batch` / `oversize_single`: results of 10 bytes each, increment 2.
    Constant limit 25: the first two entries fit (12, 24), the third (36) is replaced and keeps
    its id.  Changing limit: unlimited at the first delivery, 20 at the second (running size 24:
    replaced), raised to 40 at the third (running size 36: kept - the running size keeps the
    length of what was replaced, the limit is the one of the moment).  A single 10-byte response
    is kept at limit 10 and replaced at limit 9. -/
example :
    entriesFrom 2 (fun _ (_ : Nat) => 10) 0
        [(2, .int 7, 1, 25), (0, .str [97], 2, 25), (1, .int 7, 3, 25)]
      = [.res 2 (.int 7) 1, .res 0 (.str [97]) 2, .big 1 (.int 7)] ∧
    entriesFrom 2 (fun _ (_ : Nat) => 10) 0
        [(2, .int 7, 1, 0), (0, .str [97], 2, 20), (1, .int 7, 3, 40)]
      = [.res 2 (.int 7) 1, .big 0 (.str [97]), .res 1 (.int 7) 3] ∧
    sendResultSingle 10 (fun _ (_ : Nat) => 10) (.int 4) 0 = .res 0 (.int 4) 0 ∧
    sendResultSingle 9 (fun _ (_ : Nat) => 10) (.int 4) 0 = .big 0 (.int 4) := by decide

/-! ### the bridge from a received composition to its resolved deliveries -/

theorem resolve_get (its : List Item) :
    ∀ (cs : List (Call R)), (∀ c ∈ cs, ∃ id, boundId its c.1 = some id) →
      ∀ (k : Nat) (hk : k < cs.length), ∃ id, boundId its (cs[k]).1 = some id ∧
        (resolve its cs)[k]? = some ((cs[k]).1, id, (cs[k]).2.1, (cs[k]).2.2)
  | [], _, k, hk => by simp at hk
  | c :: cs, h, 0, _ => by
    obtain ⟨id, hid⟩ := h c (by simp)
    exact ⟨id, by simpa using hid, by simp [resolve, hid]⟩
  | c :: cs, h, k + 1, hk => by
    obtain ⟨id, hid⟩ := h c (by simp)
    obtain ⟨id', h1, h2⟩ := resolve_get its cs (fun x hx => h x (mem_cons_of_mem _ hx)) k
      (by simpa using hk)
    exact ⟨id', by simpa using h1, by simp [resolve, hid, h2]⟩

/-- the batch response of a composition with at least one request, in any complete delivery
    order: invalid-member errors, then the entries `entriesFrom` produces for the resolved
    deliveries `bcs`; delivery `k` resolved = (member, **that member's id in the composition**,
    result, limit of that moment) -/
theorem batch_entries (inc : Nat) (encLen : Id → R → Nat) (ms : List Mem)
    (calls : List (Call R)) (hperm : calls.map (·.1) ~ reqIdx ms) (hne : reqMembers 0 ms ≠ []) :
    ∃ (es tail : List (Entry R)) (bcs : List (BCall R)),
      replies inc encLen ms calls = [es] ∧ es = errEntries 0 ms ++ tail ∧
      tail = entriesFrom inc encLen 0 bcs ∧ bcs.length = calls.length ∧
      ∀ (k : Nat) (hk : k < calls.length), ∃ id, ms[(calls[k]).1]? = some (.req id) ∧
        bcs[k]? = some ((calls[k]).1, id, (calls[k]).2.1, (calls[k]).2.2) := by
  obtain ⟨b, its, es, tail, hrecv', _, hrep, hes, htail, _, _, _⟩ :=
    batch_one_reply inc encLen ms calls hperm hne
  have hrecv := receiveBatch_of_req (R := R) ms hne
  rw [hrecv] at hrecv'
  simp only [RecvResult.items.injEq] at hrecv'
  obtain ⟨hits, _⟩ := hrecv'
  subst hits
  have hb := deliveries_bound ms calls hperm
  obtain ⟨rl, _, _⟩ := resolve_spec (scan (R := R) 0 ms).1 calls hb
  refine ⟨es, tail, resolve (scan (R := R) 0 ms).1 calls, hrep, hes, htail, rl, ?_⟩
  intro k hk
  obtain ⟨id, hid, hget⟩ := resolve_get (scan (R := R) 0 ms).1 calls hb k hk
  rw [boundId_scan] at hid
  have hmem := (mem_reqMembers 0 ms _ _).1 (lookupId_mem hid)
  exact ⟨id, by simpa using hmem.2, hget⟩

/-- **batch_oversize_entry_replaced** (the text's clause on the batch response of a received
    composition): whatever the composition, the completion order and the schedule of limits - in
    particular whatever `max_response_size` was when the batch was received -, if the response to
    the `k`-th completed member is larger than the positive limit in force when that result is
    supplied, the entry answering it is the "too large" error **under that member's id**. -/
theorem batch_oversize_entry_replaced (inc : Nat) (encLen : Id → R → Nat) (ms : List Mem)
    (calls : List (Call R)) (hperm : calls.map (·.1) ~ reqIdx ms) (hne : reqMembers 0 ms ≠ []) :
    ∃ es tail : List (Entry R), replies inc encLen ms calls = [es] ∧
      es = errEntries 0 ms ++ tail ∧
      ∀ (k : Nat) (hk : k < calls.length) (id : Id), ms[(calls[k]).1]? = some (.req id) →
        0 < (calls[k]).2.2 → (calls[k]).2.2 < encLen id (calls[k]).2.1 →
        tail[k]? = some (.big (calls[k]).1 id) := by
  obtain ⟨es, tail, bcs, hrep, hes, htail, hlen, hk⟩ := batch_entries inc encLen ms calls hperm hne
  refine ⟨es, tail, hrep, hes, ?_⟩
  intro k hkc id hms hpos hbig
  obtain ⟨id', hms', hget⟩ := hk k hkc
  rw [hms] at hms'
  simp only [Option.some.injEq, Mem.req.injEq] at hms'
  subst hms'
  have hkb : k < bcs.length := by omega
  rw [getElem?_eq_getElem hkb] at hget
  simp only [Option.some.injEq] at hget
  have hrepl := oversize_entry_replaced inc encLen bcs k hkb
    (by simp only [BCall.lim, hget]; exact hpos) (by simp only [BCall.lim, hget]; exact hbig)
  have hshape := entriesFrom_get inc encLen bcs 0 k hkb
  have hke : k < (entriesFrom inc encLen 0 bcs).length := by rw [length_entriesFrom]; exact hkb
  rw [htail]
  rcases hshape with h | h
  · rw [getElem?_eq_getElem hke] at h
    simp only [Option.some.injEq] at h
    rw [h] at hrepl
    simp [Entry.isReal] at hrepl
  · rw [h, hget]

/-- **limit_at_receipt_refuted.**  The variant that reads `max_response_size` once, when the
    batch is received (`repliesSnapshot`: a closure over `limit = self.max_response_size` taken in
    `_receive_request_batch`), violates what `batch_oversize_entry_replaced` states.  Witness =
    the seeded three-step history: the batch `[request 1, request 2]` is received while the
    limit is 0; the limit is lowered to 1000; member 1 supplies a 40-byte response, member 0 a
    5041-byte one: the snapshot variant sends the 5041-byte entry unreplaced under a 1000-byte
    maximum. -/
theorem limit_at_receipt_refuted :
    ∃ (lim0 : Nat) (ms : List Mem) (calls : List (Call Nat)) (es : List (Entry Nat)),
      calls.map (·.1) ~ reqIdx ms ∧
      repliesSnapshot lim0 2 (fun _ r => r) ms calls = [es] ∧
      ∃ c ∈ calls, 0 < c.2.2 ∧ c.2.2 < c.2.1 ∧ ∃ id, Entry.res c.1 id c.2.1 ∈ es :=
  ⟨0, [.req (.int 1), .req (.int 2)], [(1, 40, 1000), (0, 5041, 1000)],
    [.res 1 (.int 2) 40, .res 0 (.int 1) 5041], by decide, by decide,
    (0, 5041, 1000), by decide, by decide, by decide, .int 1, by decide⟩

/-- non-vacuity / both directions, batches and singles.  The same history through the model of
    the code: the 5041-byte entry is replaced under its own id.  Limit **raised** between
    receipt (10) and supply (0 = unlimited, or 100): the code keeps the 41-byte results, the
    snapshot variant replaces them.  Singles: received at limit 0, supplied at limit 1000 - the
    code replaces a 5041-byte response, the snapshot variant sends it; received at limit 10,
    supplied at limit 0 - the code sends a 41-byte response, the snapshot variant replaces it. -/
example :
    replies 2 (fun _ (r : Nat) => r) [.req (.int 1), .req (.int 2)] [(1, 40, 1000), (0, 5041, 1000)]
      = [[.res 1 (.int 2) 40, .big 0 (.int 1)]] ∧
    replies 2 (fun _ (r : Nat) => r) [.req (.int 1), .req (.int 2)] [(0, 41, 0), (1, 41, 100)]
      = [[.res 0 (.int 1) 41, .res 1 (.int 2) 41]] ∧
    repliesSnapshot 10 2 (fun _ (r : Nat) => r) [.req (.int 1), .req (.int 2)]
        [(0, 41, 0), (1, 41, 100)]
      = [[.big 0 (.int 1), .big 1 (.int 2)]] ∧
    repliesSingle (fun _ (r : Nat) => r) (.req (.int 1)) 5041 1000 = [.big 0 (.int 1)] ∧
    repliesSingleSnapshot 0 (fun _ (r : Nat) => r) (.req (.int 1)) 5041 1000
      = [.res 0 (.int 1) 5041] ∧
    repliesSingle (fun _ (r : Nat) => r) (.req (.int 1)) 41 0 = [.res 0 (.int 1) 41] ∧
    repliesSingleSnapshot 10 (fun _ (r : Nat) => r) (.req (.int 1)) 41 0
      = [.big 0 (.int 1)] := by decide

/-- **single_limit_at_receipt_refuted.**  The same for single requests: reading the limit when
    the request is received (`repliesSingleSnapshot`) violates `oversize_single` - received
    while unlimited, limit 1000 when the 5041-byte result is supplied: sent unreplaced. -/
theorem single_limit_at_receipt_refuted :
    ∃ (lim0 lim r : Nat) (id : Id), 0 < lim ∧ lim < r ∧
      repliesSingleSnapshot lim0 (fun _ (r : Nat) => r) (.req id) r lim = [.res 0 id r] :=
  ⟨0, 1000, 5041, .int 1, by decide, by decide, by decide⟩

/-- length of `batch_message_from_parts` for parts of the given lengths -/
def batchLen (sep br : Nat) (lens : List Nat) : Nat := lens.sum + sep * (lens.length - 1) + br

/-- the running size accounts for at least the bytes of the batch message made of the results
    delivered so far, provided `inc` covers the separator and the brackets - whatever limits
    were in force (the running size does not depend on them).  (About the results only: error
    entries of invalid members and replacement entries are in neither side.) -/
theorem accounted_size_bounds_batch (sep br inc : Nat) (hs : sep ≤ inc) (hb : br ≤ inc)
    (encLen : Id → R → Nat) (calls : List (BCall R)) (hne : calls ≠ []) :
    batchLen sep br (calls.map fun c => encLen c.2.1 c.2.2.1) ≤ sizeAfter inc encLen 0 calls := by
  unfold batchLen sizeAfter
  have key : ∀ (l : List (BCall R)), (l.map fun c => encLen c.2.1 c.2.2.1 + inc).sum
      = (l.map fun c => encLen c.2.1 c.2.2.1).sum + inc * l.length := by
    intro l
    induction l with
    | nil => simp
    | cons c l ih => simp only [map_cons, sum_cons, length_cons, ih, Nat.mul_succ]; omega
  rw [key, length_map]
  have hpos : 0 < calls.length := length_pos_iff.2 hne
  have h1 : sep * (calls.length - 1) ≤ inc * (calls.length - 1) := Nat.mul_le_mul_right _ hs
  have h2 : inc * calls.length = inc * (calls.length - 1) + inc := by
    have : calls.length = (calls.length - 1) + 1 := by omega
    rw [this]; simp [Nat.mul_succ]
  omega

/-! ### what is bounded in a batch response, by which limit, and what is not -/

/-- encoded length of one entry of a response: a real result as `encLen` says, an error entry
    for an invalid member `errLen`, a "too large" replacement `bigLen` (both ≈ 90-100 bytes in
    the real protocols; here arbitrary) -/
def entryLen (encLen : Id → R → Nat) (errLen bigLen : Nat) : Entry R → Nat
  | .res _ id r => encLen id r
  | .err _ _ => errLen
  | .big _ _ => bigLen

/-- the encoded length of a batch response -/
def wireLen (sep br : Nat) (encLen : Id → R → Nat) (errLen bigLen : Nat) (es : List (Entry R)) :
    Nat := batchLen sep br (es.map (entryLen encLen errLen bigLen))

theorem batchLen_le_accounted (sep br inc : Nat) (hs : sep ≤ inc) (hb : br ≤ inc) :
    ∀ (lens : List Nat), lens ≠ [] → batchLen sep br lens ≤ (lens.map (· + inc)).sum
  | [], h => absurd rfl h
  | x :: l, _ => by
    have key : ∀ (l : List Nat), (l.map (· + inc)).sum = l.sum + inc * l.length := by
      intro l
      induction l with
      | nil => simp
      | cons c l ih => simp only [map_cons, sum_cons, length_cons, ih, Nat.mul_succ]; omega
    unfold batchLen
    rw [key]
    simp only [length_cons, Nat.add_sub_cancel, Nat.mul_succ]
    have h1 : sep * l.length ≤ inc * l.length := Nat.mul_le_mul_right _ hs
    omega

theorem wireLen_real_le (sep br inc : Nat) (hs : sep ≤ inc) (hb : br ≤ inc)
    (encLen : Id → R → Nat) (errLen bigLen : Nat) (l : List (Entry R)) (hne : l ≠ [])
    (hall : ∀ e ∈ l, e.isReal = true) :
    wireLen sep br encLen errLen bigLen l ≤ (l.map fun e => resLen encLen e + inc).sum := by
  have hmap : l.map (entryLen encLen errLen bigLen) = l.map (resLen encLen) := by
    apply map_congr_left
    intro e he
    have := hall e he
    cases e <;> simp_all [Entry.isReal, entryLen, resLen]
  have h := batchLen_le_accounted sep br inc hs hb (l.map (resLen encLen)) (by simpa using hne)
  unfold wireLen
  rw [hmap]
  simp only [map_map] at h
  have : ((fun x => x + inc) ∘ resLen encLen) = fun e => resLen encLen e + inc := rfl
  rw [this] at h
  exact h

/-- **kept_results_within_limit** (limits changing freely).  If the result of delivery `j` is
    **kept** while a positive limit `L` is in force at that moment, then the real results the
    batch response contains **up to and including that entry**, joined as a batch of their own,
    are not larger than `L` - whatever the limits were at the earlier deliveries (0, smaller,
    larger) and at receipt, whatever was replaced, whatever invalid members there are.  Nothing
    is claimed from the limits of *other* moments: a result kept under an earlier, larger limit
    stays in the response when the limit is lowered afterwards (then the entries supplied after
    the lowering are replaced - `oversize_batch`).  This - not the size of the whole batch
    response - is what `max_response_size` bounds for a batch. -/
theorem kept_results_within_limit (sep br inc : Nat) (hs : sep ≤ inc) (hb : br ≤ inc)
    (encLen : Id → R → Nat) (errLen bigLen : Nat) (calls : List (BCall R)) (j : Nat)
    (hj : j < calls.length) (hlim : 0 < (calls[j]).lim)
    (hreal : ((entriesFrom inc encLen 0 calls)[j]'(by rw [length_entriesFrom]; exact hj)).isReal
      = true) :
    wireLen sep br encLen errLen bigLen
      (((entriesFrom inc encLen 0 calls).take (j + 1)).filter Entry.isReal) ≤ (calls[j]).lim := by
  have hje : j < (entriesFrom inc encLen 0 calls).length := by rw [length_entriesFrom]; exact hj
  have hsize : sizeAfter inc encLen 0 (calls.take (j + 1)) ≤ (calls[j]).lim := by
    have h := oversize_batch inc encLen calls j hj
    rw [hreal] at h
    have h0 : ((calls[j]).lim == 0) = false := by simp; omega
    simpa [h0] using h.symm
  have hmem : (entriesFrom inc encLen 0 calls)[j] ∈
      ((entriesFrom inc encLen 0 calls).take (j + 1)).filter Entry.isReal := by
    rw [mem_filter]
    refine ⟨?_, hreal⟩
    rw [List.mem_take_iff_getElem]
    exact ⟨j, by omega, rfl⟩
  have hne : ((entriesFrom inc encLen 0 calls).take (j + 1)).filter Entry.isReal ≠ [] :=
    ne_nil_of_mem hmem
  have hw := wireLen_real_le sep br inc hs hb encLen errLen bigLen _ hne
    (fun e he => (mem_filter.1 he).2)
  have hacc := real_entries_le_size inc encLen (calls.take (j + 1)) 0
  rw [← entriesFrom_take] at hacc
  omega

/-- with the same hypotheses, more is within the limit of that moment: **all** the results
    supplied up to and including delivery `j` (kept or replaced), joined as a batch of their
    own - the running size the code compares contains them all. -/
theorem supplied_results_within_limit (sep br inc : Nat) (hs : sep ≤ inc) (hb : br ≤ inc)
    (encLen : Id → R → Nat) (calls : List (BCall R)) (j : Nat)
    (hj : j < calls.length) (hlim : 0 < (calls[j]).lim)
    (hreal : ((entriesFrom inc encLen 0 calls)[j]'(by rw [length_entriesFrom]; exact hj)).isReal
      = true) :
    batchLen sep br ((calls.take (j + 1)).map fun c => encLen c.2.1 c.2.2.1) ≤ (calls[j]).lim := by
  have hsize : sizeAfter inc encLen 0 (calls.take (j + 1)) ≤ (calls[j]).lim := by
    have h := oversize_batch inc encLen calls j hj
    rw [hreal] at h
    have h0 : ((calls[j]).lim == 0) = false := by simp; omega
    simpa [h0] using h.symm
  have hne : calls.take (j + 1) ≠ [] := by
    intro h
    have := congrArg List.length h
    rw [length_take] at this
    simp only [length_nil] at this
    omega
  have := accounted_size_bounds_batch sep br inc hs hb encLen (calls.take (j + 1)) hne
  omega

/-- **kept_results_within_constant_limit** (the statement for a limit that does not change while
    the batch is in flight, unchanged from the constant-limit model): unconditionally (any
    deliveries; invalid members and replaced entries do not matter) **all** the real results
    kept in the batch response, joined as a batch of their own, are not larger than the limit. -/
theorem kept_results_within_constant_limit (sep br inc : Nat) (hs : sep ≤ inc) (hb : br ≤ inc)
    (max : Nat) (hmax : 0 < max) (encLen : Id → R → Nat) (errLen bigLen : Nat)
    (calls : List (BCall R)) (hconst : ∀ c ∈ calls, c.lim = max)
    (hne : (entriesFrom inc encLen 0 calls).filter Entry.isReal ≠ []) :
    wireLen sep br encLen errLen bigLen ((entriesFrom inc encLen 0 calls).filter Entry.isReal)
      ≤ max := by
  have hacc := real_entries_accounted max inc encLen hmax calls 0 hconst (Nat.zero_le _)
  have hw := wireLen_real_le sep br inc hs hb encLen errLen bigLen _ hne
    (fun e he => (mem_filter.1 he).2)
  omega

theorem errEntries_not_real : ∀ (i : Nat) (ms : List Mem),
    (errEntries (R := R) i ms).filter Entry.isReal = []
  | _, [] => rfl
  | i, m :: ms => by
    cases m <;> simp [errEntries, Entry.isReal, errEntries_not_real (i + 1) ms]

/-- **batch_kept_results_within_limit.**  The same for the batch response of any composition
    in any completion order under any schedule of limits: if the entry answering the `k`-th
    completed member is its real result and a positive limit `L` was in force when it was
    supplied, the real results among the first `k + 1` entries of the results part, as a batch
    of their own, are not larger than `L`. -/
theorem batch_kept_results_within_limit (sep br inc : Nat) (hs : sep ≤ inc) (hb : br ≤ inc)
    (encLen : Id → R → Nat) (errLen bigLen : Nat) (ms : List Mem)
    (calls : List (Call R)) (hperm : calls.map (·.1) ~ reqIdx ms) (hne : reqMembers 0 ms ≠ []) :
    ∃ es tail : List (Entry R), replies inc encLen ms calls = [es] ∧
      es = errEntries 0 ms ++ tail ∧ tail.length = calls.length ∧
      ∀ (k : Nat) (hk : k < calls.length), 0 < (calls[k]).2.2 →
        (∃ e, tail[k]? = some e ∧ e.isReal = true) →
        wireLen sep br encLen errLen bigLen ((tail.take (k + 1)).filter Entry.isReal)
          ≤ (calls[k]).2.2 := by
  obtain ⟨es, tail, bcs, hrep, hes, htail, hlen, hk⟩ := batch_entries inc encLen ms calls hperm hne
  refine ⟨es, tail, hrep, hes, by rw [htail, length_entriesFrom, hlen], ?_⟩
  intro k hkc hpos ⟨e, he, hreal⟩
  obtain ⟨id, _, hget⟩ := hk k hkc
  have hkb : k < bcs.length := by omega
  rw [getElem?_eq_getElem hkb] at hget
  simp only [Option.some.injEq] at hget
  have hke : k < (entriesFrom inc encLen 0 bcs).length := by rw [length_entriesFrom]; exact hkb
  rw [htail, getElem?_eq_getElem hke] at he
  simp only [Option.some.injEq] at he
  have := kept_results_within_limit sep br inc hs hb encLen errLen bigLen bcs k hkb
    (by simp only [BCall.lim, hget]; exact hpos) (by rw [he]; exact hreal)
  simp only [BCall.lim, hget] at this
  rw [htail]
  exact this

/-- **batch_kept_results_within_constant_limit.**  If the limit does not change while the batch
    is in flight (every delivery sees the same positive `max`): whatever invalid members the
    composition has and whatever was replaced, **all** the real results the batch response
    contains, as a batch of their own, are not larger than `max`. -/
theorem batch_kept_results_within_constant_limit (sep br inc : Nat) (hs : sep ≤ inc)
    (hb : br ≤ inc) (max : Nat) (hmax : 0 < max) (encLen : Id → R → Nat) (errLen bigLen : Nat)
    (ms : List Mem) (calls : List (Call R)) (hperm : calls.map (·.1) ~ reqIdx ms)
    (hne : reqMembers 0 ms ≠ []) (hconst : ∀ c ∈ calls, c.2.2 = max)
    (es : List (Entry R)) (hrep : replies inc encLen ms calls = [es])
    (hkept : es.filter Entry.isReal ≠ []) :
    wireLen sep br encLen errLen bigLen (es.filter Entry.isReal) ≤ max := by
  obtain ⟨b, its, es', tail, _, _, hrep', hes, htail, _, _, _⟩ :=
    batch_one_reply inc encLen ms calls hperm hne
  have : es = es' := by rw [hrep] at hrep'; simpa using hrep'
  subst this
  have hf : es.filter Entry.isReal = tail.filter Entry.isReal := by
    rw [hes, filter_append, errEntries_not_real, nil_append]
  rw [hf] at hkept ⊢
  rw [htail] at hkept ⊢
  exact kept_results_within_constant_limit sep br inc hs hb max hmax encLen errLen bigLen _
    (resolve_lims its (· = max) calls hconst) hkept

/-- non-vacuity.  Constant limit 78, `[invalid ×3, request 76 bytes]`: the one kept result as a
    batch of its own is 78 bytes (the whole response is 381).  Changing limit: two 30-byte
    results; the first is supplied while the limit is 100 and kept, then the limit is lowered
    to 40: the second (running size 64 > 40) is replaced; the kept result, as a batch of its own,
    is 32 ≤ 100 bytes - and also ≤ 40, but that is not claimed: with the second limit 20 the first
    result (32 bytes as a batch) stays in the response all the same. -/
example :
    wireLen 2 2 (fun _ (_ : Nat) => 76) 99 94
      (([.err 0 .null, .err 1 .null, .err 2 .null, .res 3 (.int 1) 0] : List (Entry Nat)).filter
        Entry.isReal) = 78 ∧
    replies 2 (fun _ (_ : Nat) => 30) [.req (.int 1), .req (.int 2)] [(0, 0, 100), (1, 0, 40)]
      = [[.res 0 (.int 1) 0, .big 1 (.int 2)]] ∧
    replies 2 (fun _ (_ : Nat) => 30) [.req (.int 1), .req (.int 2)] [(0, 0, 100), (1, 0, 20)]
      = [[.res 0 (.int 1) 0, .big 1 (.int 2)]] ∧
    wireLen 2 2 (fun _ (_ : Nat) => 30) 99 94 [.res 0 (.int 1) 0] = 32 := by decide

/-- **batch_within_limit** (the whole-batch bound, with its exact side-condition): a batch
    response **without error entries for invalid members** in which **no entry was replaced**
    is not larger than the (positive) `max_response_size` in force **when the last result was
    supplied** - whatever the limits were before (for a limit that never changes: not larger
    than that limit). -/
theorem batch_within_limit (sep br inc : Nat) (hs : sep ≤ inc) (hb : br ≤ inc)
    (encLen : Id → R → Nat) (errLen bigLen : Nat) (ms : List Mem)
    (calls : List (Call R)) (hperm : calls.map (·.1) ~ reqIdx ms) (hne : reqMembers 0 ms ≠ [])
    (hnoinv : errEntries (R := R) 0 ms = [])
    (es : List (Entry R)) (hrep : replies inc encLen ms calls = [es])
    (hreal : ∀ e ∈ es, e.isReal = true)
    (c : Call R) (hlast : calls.getLast? = some c) (hpos : 0 < c.2.2) :
    wireLen sep br encLen errLen bigLen es ≤ c.2.2 := by
  obtain ⟨es', tail, hrep', hes, htl, hk⟩ :=
    batch_kept_results_within_limit sep br inc hs hb encLen errLen bigLen ms calls hperm hne
  have : es = es' := by rw [hrep] at hrep'; simpa using hrep'
  subst this
  rw [hnoinv, nil_append] at hes
  subst hes
  have hcpos : 0 < calls.length := by
    cases calls with
    | nil => simp at hlast
    | cons _ _ => simp
  rw [getLast?_eq_getElem?, getElem?_eq_getElem (by omega)] at hlast
  simp only [Option.some.injEq] at hlast
  have hkl : calls.length - 1 < es.length := by omega
  have := hk (calls.length - 1) (by omega) (by rw [hlast]; exact hpos)
    ⟨es[calls.length - 1], getElem?_eq_getElem hkl, hreal _ (getElem_mem hkl)⟩
  rw [hlast] at this
  have htake : es.take (calls.length - 1 + 1) = es := by
    apply take_of_length_le; omega
  rw [htake, filter_eq_self.2 hreal] at this
  exact this

/-- the unrestricted statement one might read into "a response larger than the maximum is
    replaced": every batch response sent while a positive limit is in force is within it -/
def batch_within_limit_full (R : Type) : Prop :=
  ∀ (sep br inc : Nat), sep ≤ inc → br ≤ inc →
    ∀ (encLen : Id → R → Nat) (errLen bigLen : Nat) (ms : List Mem) (calls : List (Call R)),
      calls.map (·.1) ~ reqIdx ms → reqMembers 0 ms ≠ [] →
      ∀ es, replies inc encLen ms calls = [es] →
        ∀ c, calls.getLast? = some c → 0 < c.2.2 →
          wireLen sep br encLen errLen bigLen es ≤ c.2.2

/-- **batch_within_limit_full_fails.**  It does not hold, already for a limit that never
    changes.  Witness (measured on the real code, JSON-RPC 2.0): limit 78, batch
    `[5, 6, 7, request]` whose result encodes to 76 bytes: the running size is 78, the result is
    **kept**, the response is 381 bytes (three 99-byte error entries for the invalid members are
    not accounted). -/
theorem batch_within_limit_full_fails : ¬ batch_within_limit_full Nat := by
  intro h
  have := h 2 2 2 (by decide) (by decide) (fun _ _ => 76) 99 94
    [.invalid .null, .invalid .null, .invalid .null, .req (.int 1)] [(3, 0, 78)]
    (by decide) (by decide)
    [.err 0 .null, .err 1 .null, .err 2 .null, .res 3 (.int 1) 0] (by decide)
    (3, 0, 78) (by decide) (by decide)
  revert this
  decide

/-- both halves of the side-condition of `batch_within_limit` are needed: with invalid members
    the response is 381 > 78 bytes although nothing was replaced; without invalid members, limit
    10 and three requests, every entry is replaced and the response is 288 > 10 bytes. -/
example :
    replies 2 (fun _ (_ : Nat) => 76)
        [.invalid .null, .invalid .null, .invalid .null, .req (.int 1)] [(3, 0, 78)]
      = [[.err 0 .null, .err 1 .null, .err 2 .null, .res 3 (.int 1) 0]] ∧
    wireLen 2 2 (fun _ (_ : Nat) => 76) 99 94
      [.err 0 .null, .err 1 .null, .err 2 .null, .res 3 (.int 1) 0] = 381 ∧
    replies 2 (fun _ (_ : Nat) => 41) [.req (.int 1), .req (.int 2), .req (.int 3)]
        [(0, 0, 10), (1, 0, 10), (2, 0, 10)]
      = [[.big 0 (.int 1), .big 1 (.int 2), .big 2 (.int 3)]] ∧
    wireLen 2 2 (fun _ (_ : Nat) => 41) 99 94
      [.big 0 (.int 1), .big 1 (.int 2), .big 2 (.int 3)] = 288 := by decide

/-- non-vacuity of `batch_within_limit`: two 10-byte results, the first supplied while the
    limit is 12, the second after it was raised to 24: both kept, the response is exactly 24
    bytes - within the limit of the last delivery (not within the earlier 12: not claimed). -/
example :
    replies 2 (fun _ (_ : Nat) => 10) [.req (.int 1), .req (.int 2)] [(1, 0, 12), (0, 0, 24)]
      = [[.res 1 (.int 2) 0, .res 0 (.int 1) 0]] ∧
    wireLen 2 2 (fun _ (_ : Nat) => 10) 99 94 [.res 1 (.int 2) 0, .res 0 (.int 1) 0] = 24 := by
  decide

/-! ## `RPCSession._throttled_request`: `send_result` is called exactly once -/

/-- the `send_result` calls among the actions -/
def sendCalls : List (Act R) → List (Res R)
  | [] => []
  | .sendResult r :: as => r :: sendCalls as
  | .wrote _ :: as => sendCalls as

/-- the messages written among the actions -/
def writes : List (Act R) → List (Res R)
  | [] => []
  | .wrote r :: as => r :: writes as
  | .sendResult _ :: as => writes as

theorem sendCalls_append (a b : List (Act R)) : sendCalls (a ++ b) = sendCalls a ++ sendCalls b := by
  induction a with
  | nil => rfl
  | cons x a ih => cases x <;> simp [sendCalls, ih]

theorem writes_append (a b : List (Act R)) : writes (a ++ b) = writes a ++ writes b := by
  induction a with
  | nil => rfl
  | cons x a ih => cases x <;> simp [writes, ih]

/-- what decides the result: the first `ret` / `timeout` event -/
def firstOutcome : List (Ev R) → Option (Res R)
  | [] => none
  | .ret r :: _ => some (.value r)
  | .timeout :: _ => some .busy
  | .written :: es => firstOutcome es

theorem trun_done (isReq msg : Bool) (res : Option (Res R)) (es : List (Ev R)) :
    trun isReq msg (.done res) es = (.done res, []) := by
  induction es with
  | nil => rfl
  | cons e es ih => simp [trun, tstep, ih]

theorem trun_writing (isReq msg : Bool) (res : Res R) (es : List (Ev R)) :
    sendCalls (trun isReq msg (.writing res) es).2 = [] ∧
    (writes (trun isReq msg (.writing res) es).2 = [] ∨
     writes (trun isReq msg (.writing res) es).2 = [res]) ∧
    (.written ∈ es → writes (trun isReq msg (.writing res) es).2 = [res] ∧
      (trun isReq msg (.writing res) es).1 = .done (some res)) := by
  induction es with
  | nil => simp [trun, sendCalls, writes]
  | cons e es ih =>
    cases e with
    | written =>
      simp [trun, tstep, trun_done, sendCalls, writes]
    | ret r =>
      simp only [trun, tstep, nil_append, mem_cons, reduceCtorEq, false_or]
      exact ih
    | timeout =>
      simp only [trun, tstep, nil_append, mem_cons, reduceCtorEq, false_or]
      exact ih

/-- **task_sends_once.**  For **every** sequence of events (handler returning, the processing
    timeout firing, the transport accepting the write - in any order, any number of times, the
    timeout instant passing while the write is parked included) the task of a Request calls
    `send_result` **at most once**; if the handler returns or the timeout fires at all, exactly
    once - with the handler's result if it returned first, with SERVER_BUSY if the timeout fired
    first; the task of a Notification never calls it; and a message is written at most once,
    carrying exactly what `send_result` was called with. -/
theorem task_sends_once (isReq msg : Bool) (es : List (Ev R)) :
    let acts := (trun isReq msg .handling es).2
    sendCalls acts = (if isReq then (firstOutcome es).toList else []) ∧
    (writes acts = [] ∨ writes acts = sendCalls acts) ∧
    (msg = false → writes acts = []) := by
  induction es with
  | nil => simp [trun, sendCalls, writes, firstOutcome]
  | cons e es ih =>
    cases e with
    | written =>
      simp only [trun, tstep, nil_append, firstOutcome]
      exact ih
    | ret r =>
      cases isReq <;> cases msg <;>
        simp [trun, tstep, trun_done, sendCalls, writes, firstOutcome]
      · have := trun_writing (R := R) true true (.value r) es
        rcases this with ⟨h1, h2, _⟩
        simp only [h1, true_and]
        rcases h2 with h2 | h2 <;> simp [h2]
    | timeout =>
      cases isReq <;> cases msg <;>
        simp [trun, tstep, trun_done, sendCalls, writes, firstOutcome]
      · have := trun_writing (R := R) true true .busy es
        rcases this with ⟨h1, h2, _⟩
        simp only [h1, true_and]
        rcases h2 with h2 | h2 <;> simp [h2]

/-- **task_reply_carries_result.**  If the handler returns `r` before any timeout and the
    transport eventually accepts the write, exactly one message is written and it carries `r` -
    whatever else happens in between (the timeout instant passing while the write is parked on a
    full send buffer included). -/
theorem task_reply_carries_result (pre post : List (Ev R)) (r : R)
    (hpre : ∀ e ∈ pre, e = .written) (hw : .written ∈ post) :
    let out := trun true true .handling (pre ++ .ret r :: post)
    sendCalls out.2 = [.value r] ∧ writes out.2 = [.value r] ∧ out.1 = .done (some (.value r)) := by
  induction pre with
  | nil =>
    have := trun_writing (R := R) true true (.value r) post
    obtain ⟨h1, _, h3⟩ := this
    obtain ⟨h3a, h3b⟩ := h3 hw
    simp [trun, tstep, sendCalls, writes, h1, h3a, h3b]
  | cons e pre ih =>
    have he := hpre e (by simp)
    subst he
    simp only [cons_append, trun, tstep, nil_append]
    exact ih (fun x hx => hpre x (by simp [hx]))

/-- non-vacuity, and the seeded variant: handler returns, the write is parked, the timeout
    instant passes, the transport accepts the write.  The code (`trun`): one `send_result`, the
    result is written.  With the response sent inside the timeout scope (`trunInScope`):
    `send_result` is called **twice** and SERVER_BUSY is written instead of the result. -/
example :
    (trun true true .handling [.ret 5, .timeout, .written] : TState Nat × _).2
      = [.sendResult (.value 5), .wrote (.value 5)] ∧
    (trunInScope true true .handling [.ret 5, .timeout, .written] : TState Nat × _).2
      = [.sendResult (.value 5), .sendResult .busy, .wrote .busy] := by decide

/-- the send-once statement for the seeded variant, refuted -/
theorem send_once_in_scope_refuted :
    ¬ ∀ (es : List (Ev Nat)), (sendCalls (trunInScope true true .handling es).2).length ≤ 1 := by
  intro h
  have := h [.ret 5, .timeout, .written]
  revert this
  decide

/-- what the task of request member `m` hands to `send_result`, given the events it sees -/
def taskRes (es : List (Ev R)) : Res R := (firstOutcome es).getD .busy

/-- **session_batch_one_reply.**  The serving session on a batch: every request member has its
    own task seeing its own sequence of events `evs m` (any sequences in which the handler
    returns or the timeout fires at least once), and the tasks reach their `send_result` in any
    order `order`.  Then every task calls `send_result` exactly once, and exactly one batch
    response leaves, when the last task delivers; entry `k` of its results part answers member
    `order[k]` under that member's own id and carries the handler's result if the handler
    returned before the timeout fired, the SERVER_BUSY error if the timeout fired first (or the
    "too large" replacement).  `lims m` is the value of `max_response_size` when member `m`'s
    task calls `send_result` - any schedule. -/
theorem session_batch_one_reply (inc : Nat) (encLen : Id → Res R → Nat) (ms : List Mem)
    (order : List Nat) (hperm : order ~ reqIdx ms) (hne : reqMembers 0 ms ≠ [])
    (evs : Nat → List (Ev R)) (hdone : ∀ m ∈ order, firstOutcome (evs m) ≠ none)
    (lims : Nat → Nat) :
    (∀ m ∈ order, ∀ msg, sendCalls (trun true msg .handling (evs m)).2 = [taskRes (evs m)]) ∧
    ∃ es tail : List (Entry (Res R)),
      replies inc encLen ms (order.map fun m => (m, taskRes (evs m), lims m)) = [es] ∧
      es = errEntries 0 ms ++ tail ∧
      ∀ (k : Nat) (hk : k < order.length), ∃ id,
        ms[order[k]]? = some (.req id) ∧
        (tail[k]? = some (.res (order[k]) id (taskRes (evs (order[k])))) ∨
         tail[k]? = some (.big (order[k]) id)) := by
  constructor
  · intro m hm msg
    have h := (task_sends_once true msg (evs m)).1
    simp only [↓reduceIte] at h
    rw [h]
    unfold taskRes
    cases hf : firstOutcome (evs m) with
    | none => exact absurd hf (hdone m hm)
    | some x => rfl
  · have hmap : (order.map fun m => (m, taskRes (evs m), lims m)).map (·.1) = order := by
      simp [map_map, Function.comp_def]
    obtain ⟨_, _, es, tail, _, _, hrep, hes, _, _, _, hk⟩ :=
      batch_one_reply inc encLen ms (order.map fun m => (m, taskRes (evs m), lims m))
        (by rw [hmap]; exact hperm) hne
    refine ⟨es, tail, hrep, hes, ?_⟩
    intro k hk'
    have := hk k (by simpa using hk')
    simpa [getElem_map] using this

/-- non-vacuity of `session_batch_one_reply`: members 0 and 2 are requests; member 2's handler
    returns 5 while member 0 times out (and the write of the batch is parked while member 2's
    timeout instant passes): one batch, SERVER_BUSY under id 1, the result 5 under id 3. -/
example :
    let ms : List Mem := [.req (.int 1), .notif, .req (.int 3)]
    let evs : Nat → List (Ev Nat) := fun m => if m = 0 then [.timeout] else [.ret 5, .timeout, .written]
    replies 2 (fun _ _ => 9) ms ([2, 0].map fun m => (m, taskRes (evs m), 0))
      = [[.res 2 (.int 3) (.value 5), .res 0 (.int 1) .busy]] := by decide

/-! ## ties to the source (facts regenerated from /repo on every run) -/

open Aiorpcx.Facts.C02 in
/-- the per-entry increment is a constant and covers the `", "` separator and the brackets:
    the hypotheses `sep ≤ inc`, `br ≤ inc` of `kept_results_within_limit`,
    `batch_within_limit` and `accounted_size_bounds_batch` hold for the probed code.  (It says
    nothing about the error entries of invalid members or about replacement entries: those are
    not accounted at all, see `batch_within_limit_full_fails`.) -/
theorem facts_size_accounting :
    ∃ inc, sizeIncrement = some inc ∧ joinSepLen ≤ inc ∧ bracketLen ≤ inc := by
  exact ⟨_, rfl, by decide, by decide⟩

open Aiorpcx.Facts.C02 in
/-- what the running size of the code under test does **not** contain is what the model's does
    not contain: the error entry of an invalid member is not accounted (`[invalid, request]`
    with a limit of exactly response + increment keeps the result, as `replies` does), and the
    length of a replaced response stays in the running size (a response that would fit on its
    own is replaced after an overflowing one, as in `replies`). -/
theorem facts_batch_accounting :
    invalidMembersAccounted = some (!decide (
      replies 2 (fun _ (_ : Nat) => 10) [.invalid .null, .req (.int 1)] [(1, 0, 12)]
        = [[.err 0 .null, .res 1 (.int 1) 0]])) ∧
    overflowSticky = some (decide (
      replies 2 (fun _ (r : Nat) => r) [.req (.int 1), .req (.int 2)] [(0, 100, 17), (1, 10, 17)]
        = [[.big 0 (.int 1), .big 1 (.int 2)]])) := by
  decide

/-- the model on one row of the two-member probe: which of the two entries are real -/
def batchProbe (inc l1 l2 b c : Nat) : List Bool :=
  (entriesFrom inc (fun _ (r : Nat) => r) 0 [(0, .int 1, l1, b), (1, .int 2, l2, c)]).map
    Entry.isReal

open Aiorpcx.Facts.C02 in
/-- **facts_limit_at_supply.**  The code under test was RUN with `max_response_size` changed
    between receipt and supply and between the supplies (every combination of 0 / a limit the
    response does not fit under / a limit it fits under, at receipt and at each supply: lowered,
    raised, 0 <-> positive): for a single request (9 histories) and for a two-request batch (64
    histories) what is kept and what is replaced is what the model says with the limit **of the
    moment the result is supplied** - the limit at receipt (first component of a row) is not even
    an input of the model. -/
theorem facts_limit_at_supply :
    singleLimitTable.length = 9 ∧ batchLimitTable.length = 64 ∧
    (∀ row ∈ singleLimitTable,
      (sendResultSingle row.2.1 (fun _ (r : Nat) => r) (.int 7) row.2.2.1).isReal = row.2.2.2) ∧
    (∀ row ∈ batchLimitTable,
      batchProbe (sizeIncrement.getD 0) row.2.2.2.1 row.2.2.2.2.1 row.2.1 row.2.2.1
        = [row.2.2.2.2.2.1, row.2.2.2.2.2.2]) := by
  decide

/-- non-vacuity of the probe grid: among the rows the model expects both outcomes for the
    same limit at receipt (so a snapshot taken at receipt cannot agree with all of them) -/
example : batchProbe 2 40 60 0 50 = [true, false] ∧ batchProbe 2 40 60 0 0 = [true, true] ∧
    batchProbe 2 40 60 41 0 = [false, true] := by decide

/-- **mixed_batch_is_request_batch.**  A list message with at least one member that does not
    look like a response is handled as a request batch (so that its requests are answered and
    its invalid members get their error entries), wherever that member stands. -/
theorem mixed_batch_is_request_batch (respLike : List Bool) (h : false ∈ respLike) :
    isRequestBatch respLike = true := by
  unfold isRequestBatch
  simp only [Bool.not_eq_eq_eq_not, Bool.not_true, all_eq_false]
  exact ⟨false, h, by simp⟩

/-- non-vacuity: `[response-looking, request]` and `[request, response-looking]` are request
    batches; `[response-looking, response-looking]` is not -/
example : isRequestBatch [true, false] = true ∧ isRequestBatch [false, true] = true ∧
    isRequestBatch [true, true] = false := by decide

open Aiorpcx.Facts.C02 in
/-- the dispatch of the code under test on all two-member lists over {request,
    response-looking} is the model's `isRequestBatch` (probed through `receive_message`) -/
theorem facts_dispatch :
    dispatchTable.length = 4 ∧
    ∀ row ∈ dispatchTable, isRequestBatch [row.1, row.2.1] = row.2.2 := by
  decide

open Aiorpcx.Facts.C02 in
/-- `_send_result` at the boundary behaves as `sendResultSingle` (`oversize_single`):
    exactly at the limit kept, one byte over replaced under the same id, limit 0 unlimited -/
theorem facts_single_boundary :
    singleAtLimitKept = (sendResultSingle 66 (fun _ (_ : Nat) => 66) (.int 7) 0).isReal ∧
    singleOverLimitReplaced = !(sendResultSingle 65 (fun _ (_ : Nat) => 66) (.int 7) 0).isReal ∧
    singleZeroUnlimited = (sendResultSingle 0 (fun _ (_ : Nat) => 66) (.int 7) 0).isReal ∧
    batchReplacedKeepsIds = true := by
  decide

end Aiorpcx.C02
