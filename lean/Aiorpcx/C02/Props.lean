import Aiorpcx.C02.Lemmas
import Aiorpcx.Facts.C02
/-!
# C02 — every incoming request is answered exactly once under its own id

Model: `Aiorpcx.C02` (`Model.lean`) mirrors `_receive_request_batch` / `item_send_result` /
`_send_result` of `aiorpcx/jsonrpc.py`.  `replies max inc encLen ms calls` is the list of batch
messages that leave the connection for a received batch with composition `ms` when the request
handlers deliver their results in the order `calls`.  All theorems are quantified over every
composition, every completion order, every result, every id, every `max`, `inc`, `encLen`.
-/
namespace Aiorpcx.C02
open List
open Aiorpcx.C01 (Id)

variable {R : Type}

theorem receiveBatch_of_req (ms : List Mem) (h : reqMembers 0 ms ≠ []) :
    receiveBatch (R := R) ms =
      .items (scan (R := R) 0 ms).1
        ⟨errEntries 0 ms, (reqMembers 0 ms).length + (errEntries (R := R) 0 ms).length, 0⟩ := by
  obtain ⟨h1, h2, h3⟩ := scan_spec (R := R) 0 ms
  unfold receiveBatch
  have : (scan (R := R) 0 ms).1.isEmpty = false := by
    cases he : (scan (R := R) 0 ms).1.isEmpty with
    | false => rfl
    | true => exact absurd (h3.1 he).1 h
  simp only [this, Bool.false_and, Bool.false_eq_true, ↓reduceIte, h1, h2]

/-- **batch_one_reply.**  A batch with at least one request member, whose request members
    deliver their results in **any order** `calls` (a permutation of the request members):
    the first `count − 1` calls of `send_result` return nothing, the last returns the one batch
    response; its entries are the error entries of the invalid members in member order followed
    by one entry per request member in completion order; entry `k` of that part answers the
    `k`-th completed member under that member's own id; the number of entries is
    #requests + #invalid. -/
theorem batch_one_reply (max inc : Nat) (encLen : Id → R → Nat) (ms : List Mem)
    (calls : List (Call R)) (hperm : calls.map (fun c => (c.1, c.2.1)) ~ reqMembers 0 ms)
    (hne : reqMembers 0 ms ≠ []) :
    ∃ (b : ReqBatch R) (its : List (Nat × Mem)) (es : List (Entry R)),
      receiveBatch ms = .items its b ∧
      runCalls max inc encLen b calls = replicate (calls.length - 1) none ++ [some es] ∧
      replies max inc encLen ms calls = [es] ∧
      es = errEntries 0 ms ++ entriesFrom max inc encLen 0 calls ∧
      es.length = (reqMembers 0 ms).length + (errEntries (R := R) 0 ms).length ∧
      (entriesFrom max inc encLen 0 calls).map (fun e => (e.member, e.id))
        = calls.map (fun c => (c.1, c.2.1)) := by
  have hlen : calls.length = (reqMembers 0 ms).length := by
    simpa using hperm.length_eq
  have hcne : calls ≠ [] := by
    intro h; subst h
    exact hne (List.length_eq_zero_iff.1 (by simpa using hlen.symm))
  have hrecv := receiveBatch_of_req (R := R) ms hne
  have hrun := runCalls_complete max inc encLen calls
    ⟨errEntries 0 ms, (reqMembers 0 ms).length + (errEntries (R := R) 0 ms).length, 0⟩ hcne
    (by simp only; omega)
  refine ⟨_, _, _, hrecv, hrun, ?_, rfl, ?_, entriesFrom_keys _ _ _ _ _⟩
  · simp only [replies, hrecv, hrun]
    simp [filterMap_append, filterMap_replicate_of_none]
  · simp [length_entriesFrom, hlen]; omega

/-- non-vacuity of `batch_one_reply`: `[invalid, req 7, notif, req 7, req "a"]` (duplicate ids),
    completed in the order 4, 1, 3: one reply `[err₀, res₄, res₁, res₃]`, ids in that order. -/
example :
    let ms : List Mem := [.invalid .null, .req (.int 7), .notif, .req (.int 7), .req (.str [97])]
    let calls : List (Call Nat) := [(4, .str [97], 40), (1, .int 7, 10), (3, .int 7, 30)]
    calls.map (fun c => (c.1, c.2.1)) ~ reqMembers 0 ms ∧
    replies 0 2 (fun _ _ => 5) ms calls =
      [[.err 0 .null, .res 4 (.str [97]) 40, .res 1 (.int 7) 10, .res 3 (.int 7) 30]] := by
  decide

/-- **no_early_reply.**  While at least one request member has not delivered its result, no
    call of `send_result` returns a message: the batch response is sent only when every member
    has its result. -/
theorem no_early_reply (max inc : Nat) (encLen : Id → R → Nat) (ms : List Mem)
    (calls : List (Call R)) (hne : reqMembers 0 ms ≠ [])
    (hlt : calls.length < (reqMembers 0 ms).length) :
    replies max inc encLen ms calls = [] := by
  have hrecv := receiveBatch_of_req (R := R) ms hne
  simp only [replies, hrecv]
  rw [runCalls_incomplete _ _ _ _ _ (by simp only; omega)]
  simp [filterMap_replicate_of_none]

/-- non-vacuity of `no_early_reply`: two of three request members have delivered -/
example :
    replies 0 2 (fun _ (_ : Nat) => 5)
      [.req (.int 1), .invalid .null, .req (.int 2), .req (.int 3)] [(3, .int 3, 30), (0, .int 1, 10)]
      = [] := by decide

/-- **duplicate_ids_ok.**  Entries are bound to members, not to id values: whatever ids the
    members carry (equal ids included), the `k`-th completed member is answered by an entry with
    that member's index and id. -/
theorem duplicate_ids_ok (max inc : Nat) (encLen : Id → R → Nat) (calls : List (Call R)) (s : Nat)
    (k : Nat) (hk : k < calls.length) :
    ∃ h : k < (entriesFrom max inc encLen s calls).length,
      ((entriesFrom max inc encLen s calls)[k]).member = (calls[k]).1 ∧
      ((entriesFrom max inc encLen s calls)[k]).id = (calls[k]).2.1 := by
  have hl := length_entriesFrom max inc encLen s calls
  refine ⟨by omega, ?_⟩
  have := congrArg (fun l => l[k]?) (entriesFrom_keys max inc encLen s calls)
  simp only [getElem?_map, getElem?_eq_getElem hk, getElem?_eq_getElem (hl ▸ hk), Option.map_some,
    Option.some.injEq, Prod.mk.injEq] at this
  exact this

theorem all_notif_members (R : Type) : ∀ (ms : List Mem), (∀ m ∈ ms, m = .notif) → ∀ i,
    reqMembers i ms = [] ∧ errEntries (R := R) i ms = []
  | [], _, _ => ⟨rfl, rfl⟩
  | m :: ms, h, i => by
    have := h m (by simp); subst this
    have ih := all_notif_members R ms (fun x hx => h x (by simp [hx])) (i + 1)
    simpa [reqMembers, errEntries] using ih

/-- **batch_notifications_only_silent.**  A batch holding only notifications produces no
    response, ever: nothing is raised, no item has a `send_result`, nothing is returned. -/
theorem batch_notifications_only_silent (max inc : Nat) (encLen : Id → R → Nat) (ms : List Mem)
    (h : ∀ m ∈ ms, m = .notif) (calls : List (Call R))
    (hperm : calls.map (fun c => (c.1, c.2.1)) ~ reqMembers 0 ms) :
    reqMembers 0 ms = [] ∧ calls = [] ∧ replies max inc encLen ms calls = [] := by
  obtain ⟨hreq, herr⟩ := all_notif_members R ms h 0
  have hc : calls = [] := by
    have := hperm.length_eq
    rw [hreq] at this
    exact List.length_eq_zero_iff.1 (by simpa using this)
  subst hc
  refine ⟨hreq, rfl, ?_⟩
  obtain ⟨h1, _, _⟩ := scan_spec (R := R) 0 ms
  simp [replies, receiveBatch, h1, herr, runCalls]

/-- **batch_all_invalid_immediate.**  A batch all of whose members are invalid is answered at
    once (the raised `ProtocolError` carries the batch) with one error entry per member, in
    member order, each under the id recovered from that member. -/
theorem batch_all_invalid_immediate (max inc : Nat) (encLen : Id → R → Nat) (ms : List Mem)
    (hne : ms ≠ []) (h : ∀ m ∈ ms, ∃ id, m = .invalid id) (calls : List (Call R)) :
    receiveBatch (R := R) ms = .errorBatch (errEntries 0 ms) ∧
    replies max inc encLen ms calls = [errEntries 0 ms] ∧
    (errEntries (R := R) 0 ms).length = ms.length := by
  have hreq : ∀ (l : List Mem) (i : Nat), (∀ m ∈ l, ∃ id, m = .invalid id) →
      reqMembers i l = [] ∧ notifCount l = 0 ∧ (errEntries (R := R) i l).length = l.length := by
    intro l
    induction l with
    | nil => intro i _; simp [reqMembers, notifCount, errEntries]
    | cons m l ih =>
      intro i hl
      obtain ⟨id, rfl⟩ := hl m (by simp)
      obtain ⟨a, b, c⟩ := ih (i + 1) (fun x hx => hl x (by simp [hx]))
      simp [reqMembers, notifCount, errEntries, a, b, c]
  obtain ⟨a, b, c⟩ := hreq ms 0 h
  obtain ⟨h1, _, h3⟩ := scan_spec (R := R) 0 ms
  have hemp : (scan (R := R) 0 ms).1.isEmpty = true := h3.2 ⟨a, b⟩
  have hparts : (errEntries (R := R) 0 ms).isEmpty = false := by
    cases he : errEntries (R := R) 0 ms with
    | nil => rw [he] at c; exact absurd (List.length_eq_zero_iff.1 c.symm) hne
    | cons _ _ => rfl
  have hr : receiveBatch (R := R) ms = .errorBatch (errEntries 0 ms) := by
    simp [receiveBatch, hemp, h1, hparts]
  exact ⟨hr, by simp [replies, hr], c⟩

/-! ## F8: notifications + invalid members, no request -/

/-- the full statement of "exactly one batch response": whenever the batch calls for entries
    (a request or an invalid member), exactly one batch message is sent and it contains them -/
def batch_reply_full (R : Type) : Prop :=
  ∀ (max inc : Nat) (encLen : Id → R → Nat) (ms : List Mem) (calls : List (Call R)),
    calls.map (fun c => (c.1, c.2.1)) ~ reqMembers 0 ms →
    (reqMembers 0 ms ≠ [] ∨ errEntries (R := R) 0 ms ≠ []) →
    ∃ es, replies max inc encLen ms calls = [es] ∧
      es.length = (reqMembers 0 ms).length + (errEntries (R := R) 0 ms).length

/-- **batch_notif_invalid (F8)**: the request batch `[notification, invalid]` is never answered —
    the error entry for the invalid member is lost.  The full statement fails. -/
theorem batch_reply_full_fails : ¬ batch_reply_full Nat := by
  intro h
  obtain ⟨es, h1, _⟩ := h 0 2 (fun _ _ => 0) [.notif, .invalid .null] [] (by decide) (by decide)
  have h0 : replies 0 2 (fun _ (_ : Nat) => 0) [.notif, .invalid .null] [] = [] := by decide
  rw [h0] at h1
  cases h1

/-- the exact family on which it fails: no request, at least one notification and at least one
    invalid member.  Then nothing is ever sent. -/
theorem batch_notif_invalid_silent (max inc : Nat) (encLen : Id → R → Nat) (ms : List Mem)
    (_hreq : reqMembers 0 ms = []) (hn : 0 < notifCount ms) :
    replies max inc encLen ms ([] : List (Call R)) = [] := by
  obtain ⟨_, _, h3⟩ := scan_spec (R := R) 0 ms
  have : (scan (R := R) 0 ms).1.isEmpty = false := by
    cases he : (scan (R := R) 0 ms).1.isEmpty with
    | false => rfl
    | true => have := (h3.1 he).2; omega
  simp [replies, receiveBatch, this, runCalls]

/-- non-vacuity: `[notif, invalid, notif]` is silent although an error entry is called for;
    `[invalid, invalid]` and `[req, invalid]` (outside the family) get their one reply. -/
example :
    replies 0 2 (fun _ (_ : Nat) => 5) [.notif, .invalid (.int 3), .notif] [] = [] ∧
    replies 0 2 (fun _ (_ : Nat) => 5) [.invalid .null, .invalid (.int 3)] []
      = [[.err 0 .null, .err 1 (.int 3)]] ∧
    replies 0 2 (fun _ (_ : Nat) => 5) [.req (.int 1), .invalid (.int 3)] [(0, .int 1, 10)]
      = [[.err 1 (.int 3), .res 0 (.int 1) 10]] := by decide

/-- **batch_reply_partial.**  Outside that family the full statement holds. -/
theorem batch_reply_partial (max inc : Nat) (encLen : Id → R → Nat) (ms : List Mem)
    (calls : List (Call R)) (hperm : calls.map (fun c => (c.1, c.2.1)) ~ reqMembers 0 ms)
    (hsome : reqMembers 0 ms ≠ [] ∨ errEntries (R := R) 0 ms ≠ [])
    (hside : ¬ (reqMembers 0 ms = [] ∧ 0 < notifCount ms)) :
    ∃ es, replies max inc encLen ms calls = [es] ∧
      es.length = (reqMembers 0 ms).length + (errEntries (R := R) 0 ms).length := by
  by_cases hreq : reqMembers 0 ms = []
  · have hn : notifCount ms = 0 := Nat.eq_zero_of_not_pos (fun h => hside ⟨hreq, h⟩)
    have herr : errEntries (R := R) 0 ms ≠ [] := by
      rcases hsome with h | h
      · exact absurd hreq h
      · exact h
    obtain ⟨h1, _, h3⟩ := scan_spec (R := R) 0 ms
    have hemp : (scan (R := R) 0 ms).1.isEmpty = true := h3.2 ⟨hreq, hn⟩
    have hparts : (errEntries (R := R) 0 ms).isEmpty = false := by
      cases he : errEntries (R := R) 0 ms with
      | nil => exact absurd he herr
      | cons _ _ => rfl
    refine ⟨errEntries 0 ms, ?_, by simp [hreq]⟩
    simp [replies, receiveBatch, hemp, h1, hparts]
  · obtain ⟨_, _, es, _, _, h3, _, h5, _⟩ := batch_one_reply max inc encLen ms calls hperm hreq
    exact ⟨es, h3, h5⟩

/-! ## max_response_size -/

/-- **oversize_single.**  The reply to a single request always carries the request's id; it is
    the real result exactly when the limit is 0 (unlimited) or the encoded response is not larger
    than the limit — otherwise it is the "too large" error response under the same id. -/
theorem oversize_single (max : Nat) (encLen : Id → R → Nat) (id : Id) (r : R) :
    (sendResultSingle max encLen id r).id = id ∧
    ((max = 0 ∨ encLen id r ≤ max) → sendResultSingle max encLen id r = .res 0 id r) ∧
    ((0 < max ∧ max < encLen id r) → sendResultSingle max encLen id r = .big 0 id) := by
  unfold sendResultSingle
  refine ⟨by split <;> rfl, ?_, ?_⟩
  · rintro (h | h)
    · subst h; simp
    · have : ¬ (encLen id r > max) := by omega
      simp [this]
  · rintro ⟨h1, h2⟩
    simp [h1, h2]

/-- **oversize_batch.**  In a batch response, entry `j` of the results part is the real result
    exactly while the running size (the lengths of the results delivered so far, each plus `inc`)
    is within the limit (or the limit is 0); otherwise it is the "too large" error.  Either
    way it carries member `j`'s id (`duplicate_ids_ok`). -/
theorem oversize_batch (max inc : Nat) (encLen : Id → R → Nat) (calls : List (Call R)) (j : Nat)
    (hj : j < (entriesFrom max inc encLen 0 calls).length) :
    ((entriesFrom max inc encLen 0 calls)[j]).isReal =
      (max == 0 || decide (sizeAfter inc encLen 0 (calls.take (j + 1)) ≤ max)) :=
  entriesFrom_real max inc encLen calls 0 j hj

/-- non-vacuity of `oversize_batch` / `oversize_single`: results of 10 bytes each, increment 2,
    limit 25: the first two entries fit (12, 24), the third (36) is replaced and keeps its id; a
    single 10-byte response is kept at limit 10 and replaced at limit 9. -/
example :
    entriesFrom 25 2 (fun _ (_ : Nat) => 10) 0 [(2, .int 7, 1), (0, .str [97], 2), (1, .int 7, 3)]
      = [.res 2 (.int 7) 1, .res 0 (.str [97]) 2, .big 1 (.int 7)] ∧
    sendResultSingle 10 (fun _ (_ : Nat) => 10) (.int 4) 0 = .res 0 (.int 4) 0 ∧
    sendResultSingle 9 (fun _ (_ : Nat) => 10) (.int 4) 0 = .big 0 (.int 4) := by decide

/-- length of `batch_message_from_parts` for parts of the given lengths -/
def batchLen (sep br : Nat) (lens : List Nat) : Nat := lens.sum + sep * (lens.length - 1) + br

/-- the running size accounts for at least the bytes of the batch message made of the results
    delivered so far, provided `inc` covers the separator and the brackets -/
theorem accounted_size_bounds_batch (sep br inc : Nat) (hs : sep ≤ inc) (hb : br ≤ inc)
    (encLen : Id → R → Nat) (calls : List (Call R)) (hne : calls ≠ []) :
    batchLen sep br (calls.map fun c => encLen c.2.1 c.2.2) ≤ sizeAfter inc encLen 0 calls := by
  unfold batchLen sizeAfter
  have key : ∀ (l : List (Call R)), (l.map fun c => encLen c.2.1 c.2.2 + inc).sum
      = (l.map fun c => encLen c.2.1 c.2.2).sum + inc * l.length := by
    intro l
    induction l with
    | nil => simp
    | cons c l ih => simp only [map_cons, sum_cons, length_cons, ih, Nat.mul_succ]; omega
  rw [key, length_map]
  have hpos : 0 < calls.length := length_pos_iff.2 hne
  have h1 : sep * (calls.length - 1) ≤ inc * (calls.length - 1) := Nat.mul_le_mul_right _ hs
  have h2 : inc * calls.length = inc * (calls.length - 1) + inc := by
    have : calls.length = (calls.length - 1) + 1 := by omega
    rw [this]; simp [Nat.mul_succ]
  omega

/-! ## ties to the source (facts regenerated from /repo on every run) -/

open Aiorpcx.Facts.C02 in
/-- the per-entry increment is a constant and covers the `", "` separator and the brackets, so
    (`accounted_size_bounds_batch`) a batch whose entries are all real is not larger than the
    limit -/
theorem facts_size_accounting :
    ∃ inc, sizeIncrement = some inc ∧ joinSepLen ≤ inc ∧ bracketLen ≤ inc := by
  exact ⟨_, rfl, by decide, by decide⟩

open Aiorpcx.Facts.C02 in
/-- `_send_result` at the boundary behaves as `sendResultSingle` (`oversize_single`):
    exactly at the limit kept, one byte over replaced under the same id, limit 0 unlimited -/
theorem facts_single_boundary :
    singleAtLimitKept = (sendResultSingle 66 (fun _ (_ : Nat) => 66) (.int 7) 0).isReal ∧
    singleOverLimitReplaced = !(sendResultSingle 65 (fun _ (_ : Nat) => 66) (.int 7) 0).isReal ∧
    singleZeroUnlimited = (sendResultSingle 0 (fun _ (_ : Nat) => 66) (.int 7) 0).isReal ∧
    batchReplacedKeepsIds = true := by
  decide

end Aiorpcx.C02
