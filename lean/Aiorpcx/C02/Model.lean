import Aiorpcx.C01.Ids
/-! C02 — model of the serving side's reply bookkeeping in `JSONRPCConnection`
    (aiorpcx/jsonrpc.py: `_receive_request_batch` with its `item_send_result` closure and the
    `partial(item_send_result, request_id)` binding, `_send_result`,
    `_oversized_response_message`, the request branch of `receive_message`) and of the
    send-once discipline of `RPCSession._throttled_request` (aiorpcx/session.py).
    No Mathlib imports: the driver links this.

    `R` is the type of handler results (opaque).  Encoded lengths are a parameter `encLen`
    (`len(protocol.response_message(result, id))`); `inc` is what is added per entry to the running
    size (facts).

    `max_response_size` ("a public attribute intended to be settable dynamically") is NOT a
    parameter of a connection or of a received batch: the code reads `self.max_response_size`
    inside `item_send_result` / `_send_result`, i.e. every time a result is supplied.  So the limit
    is part of each completion event: a delivery is (member index, result, the limit in force at
    that moment; 0 = unlimited), and nothing that is created when a message is *received*
    (`Item`, `ReqBatch`) contains a limit.  The variant that reads the limit once, when the
    message is received, is expressible (`snapshot`, `repliesSnapshot`,
    `repliesSingleSnapshot`) and refuted in `Props.lean`. -/
namespace Aiorpcx.C02
open Aiorpcx.C01 (Id)


/-- one member of a received batch (or a single message), after `_process_request` -/
inductive Mem where
  /-- a valid request (id admitted by the protocol and not `None`) -/
  | req (id : Id)
  /-- a valid notification (no id, or id `None`) -/
  | notif
  /-- `_process_request` raised; `id` is the id recovered for the error entry (`null` if none) -/
  | invalid (id : Id)
  deriving DecidableEq, Repr

/-- one entry of a response: which member it answers, the id it carries, what it is -/
inductive Entry (R : Type) where
  /-- error entry for an invalid member -/
  | err (member : Nat) (id : Id)
  /-- `response_message(result, id)` -/
  | res (member : Nat) (id : Id) (r : R)
  /-- the "response too large" error response, under the same id -/
  | big (member : Nat) (id : Id)
  deriving DecidableEq, Repr

def Entry.member {R : Type} : Entry R → Nat
  | .err m _ | .res m _ _ | .big m _ => m

def Entry.id {R : Type} : Entry R → Id
  | .err _ i | .res _ i _ | .big _ i => i

def Entry.isReal {R : Type} : Entry R → Bool
  | .res _ _ _ => true
  | _ => false

/-- what the connection hands to the session for one valid member.  A `Request` carries a
    `send_result` that is `partial(<closure>, bound)`: the id it answers under is fixed *here*,
    when the item is created - the caller of `send_result` supplies only the result. -/
inductive Item where
  | request (member : Nat) (bound : Id)
  | notification (member : Nat)
  deriving DecidableEq, Repr

/-- the id `send_result` of member `k` is bound to (`none`: no such item, or a `Notification`,
    which has no `send_result`) -/
def boundId : List Item → Nat → Option Id
  | [], _ => none
  | .request m id :: its, k => if k = m then some id else boundId its k
  | .notification _ :: its, k => boundId its k

/-- the closure variables of `_receive_request_batch` -/
structure ReqBatch (R : Type) where
  parts : List (Entry R)
  count : Nat
  size : Nat
  deriving DecidableEq, Repr

/-- the loop of `_receive_request_batch` from member index `i` on:
    returns (items, error parts, count).  The `.req` branch is
    `item.send_result = partial(item_send_result, request_id)`: the item of member `i` is bound
    to member `i`'s id. -/
def scan {R : Type} : Nat → List Mem → List Item × List (Entry R) × Nat
  | _, [] => ([], [], 0)
  | i, m :: ms =>
      let r := scan (i + 1) ms
      match m with
      | .req id => (.request i id :: r.1, r.2.1, r.2.2 + 1)
      | .notif => (.notification i :: r.1, r.2.1, r.2.2)
      | .invalid id => (r.1, .err i id :: r.2.1, r.2.2 + 1)

inductive RecvResult (R : Type) where
  /-- the items handed to the session (requests carry a `send_result` bound to the batch) -/
  | items (its : List Item) (b : ReqBatch R)
  /-- `ProtocolError` whose `error_message` is the batch of these entries -/
  | errorBatch (es : List (Entry R))
  deriving DecidableEq, Repr

/-- `_receive_request_batch(payloads)` -/
def receiveBatch {R : Type} (ms : List Mem) : RecvResult R :=
  let r := scan (R := R) 0 ms
  if r.1.isEmpty && !r.2.1.isEmpty then .errorBatch r.2.1
  else .items r.1 ⟨r.2.1, r.2.2, 0⟩

/-- `item_send_result(request_id, result)` for the request at member index `m`, called while
    `self.max_response_size` is `lim`: `size > self.max_response_size > 0` is evaluated in this
    call, with the cumulative size and the limit of this moment -/
def sendResult {R : Type} (inc : Nat) (encLen : Id → R → Nat) (b : ReqBatch R)
    (m : Nat) (id : Id) (r : R) (lim : Nat) : ReqBatch R × Option (List (Entry R)) :=
  let size := b.size + encLen id r + inc
  let part : Entry R := if size > lim && lim > 0 then .big m id else .res m id r
  let parts := b.parts ++ [part]
  (⟨parts, b.count, size⟩, if parts.length == b.count then some parts else none)

/-- one delivery: the member whose handler finished, its result, and the value
    `max_response_size` has at that moment.  No id: the id is the one the item's `send_result`
    was bound to. -/
abbrev Call (R : Type) := Nat × R × Nat

/-- the handlers call `send_result` of their items in the order `calls`; a member that has no
    `send_result` (a notification, or no such member) is never called by the session -/
def runCalls {R : Type} (inc : Nat) (encLen : Id → R → Nat) (its : List Item) :
    ReqBatch R → List (Call R) → List (Option (List (Entry R)))
  | _, [] => []
  | b, c :: cs =>
      match boundId its c.1 with
      | some id =>
          let r := sendResult inc encLen b c.1 id c.2.1 c.2.2
          r.2 :: runCalls inc encLen its r.1 cs
      | none => none :: runCalls inc encLen its b cs

/-- every batch message that leaves the connection for one received batch, given the order in
    which the handlers deliver (the session sends a non-`None` return value of `send_result`,
    and the `error_message` of a raised `ProtocolError`) -/
def replies {R : Type} (inc : Nat) (encLen : Id → R → Nat) (ms : List Mem)
    (calls : List (Call R)) : List (List (Entry R)) :=
  match receiveBatch (R := R) ms with
  | .errorBatch es => [es]
  | .items its b => (runCalls inc encLen its b calls).filterMap id

/-! ### the limit read once, when the batch is received (NOT what the code does) -/

/-- a closure over `limit = self.max_response_size` taken in `_receive_request_batch`: every
    delivery is judged with the limit `lim0` that was in force at receipt, whatever the
    attribute holds when the result is supplied -/
def snapshot {R : Type} (lim0 : Nat) (calls : List (Call R)) : List (Call R) :=
  calls.map fun c => (c.1, c.2.1, lim0)

def repliesSnapshot {R : Type} (lim0 inc : Nat) (encLen : Id → R → Nat) (ms : List Mem)
    (calls : List (Call R)) : List (List (Entry R)) :=
  replies inc encLen ms (snapshot lim0 calls)

/-! ### `receive_message` on a list: request batch or response batch?

    `all(isinstance(payload, dict) and ('result' in payload or 'error' in payload) ...)`:
    only a list **all** of whose members look like responses goes to `_receive_response_batch`;
    everything else - in particular a list mixing response-looking members with requests - is a
    request batch, whose response-looking members are then invalid members or (if they also
    carry a method) requests. -/

/-- `respLike l[k]` = member `k` is an object carrying "result" or "error" -/
def isRequestBatch (respLike : List Bool) : Bool := !(respLike.all id)

/-! ### several batches in flight on one connection

    Each call of `_receive_request_batch` creates its own closure variables, so a connection
    that has received several request batches holds one `(items, ReqBatch)` per batch; a delivery
    names the batch whose item's `send_result` is called.  `max_response_size` is an attribute of
    the connection: the limit a delivery carries is the one in force at that moment, for
    whichever batch it goes to. -/

def runMulti {R : Type} (inc : Nat) (encLen : Id → R → Nat) :
    List (List Item × ReqBatch R) → List (Nat × Call R) → List (Nat × Option (List (Entry R)))
  | _, [] => []
  | bs, d :: ds =>
      match bs[d.1]? with
      | none => (d.1, none) :: runMulti inc encLen bs ds
      | some ib =>
          match boundId ib.1 d.2.1 with
          | none => (d.1, none) :: runMulti inc encLen bs ds
          | some id =>
              let r := sendResult inc encLen ib.2 d.2.1 id d.2.2.1 d.2.2.2
              (d.1, r.2) :: runMulti inc encLen (bs.set d.1 (ib.1, r.1)) ds

/-! ### a late-binding closure (NOT what the code does; kept to show the theorems exclude it) -/

/-- the id the loop variable `request_id` holds when the loop of `_receive_request_batch` is
    over: that of the last valid member (`None` for a notification) -/
def lastLoopId : List Mem → Id → Id
  | [], d => d
  | .req id :: ms, _ => lastLoopId ms id
  | .notif :: ms, _ => lastLoopId ms .null
  | .invalid _ :: ms, d => lastLoopId ms d

/-- a closure `lambda result: item_send_result(request_id, result)` instead of the `partial`:
    every item answers under the id of the last valid member -/
def lateBind (last : Id) : List Item → List Item
  | [] => []
  | .request m _ :: its => .request m last :: lateBind last its
  | .notification m :: its => .notification m :: lateBind last its

def repliesLate {R : Type} (inc : Nat) (encLen : Id → R → Nat) (ms : List Mem)
    (calls : List (Call R)) : List (List (Entry R)) :=
  match receiveBatch (R := R) ms with
  | .errorBatch es => [es]
  | .items its b => (runCalls inc encLen (lateBind (lastLoopId ms .null) its) b calls).filterMap id

/-! ### single messages -/

/-- `receive_message` on a single request-side message -/
inductive SingleRecv where
  /-- `[item]`; a Request got `send_result = partial(self._send_result, request_id)` -/
  | item (it : Item)
  /-- `ProtocolError` whose `error_message` is an error response under the recovered id -/
  | errorReply (id : Id)
  deriving DecidableEq, Repr

def receiveSingle : Mem → SingleRecv
  | .req id => .item (.request 0 id)
  | .notif => .item (.notification 0)
  | .invalid id => .errorReply id

/-- `_send_result(request_id, result)`, called while `self.max_response_size` is `lim`: the
    reply to a single request (`len(message) > self.max_response_size > 0` is evaluated in this
    call) -/
def sendResultSingle {R : Type} (lim : Nat) (encLen : Id → R → Nat) (id : Id) (r : R) : Entry R :=
  if encLen id r > lim && lim > 0 then .big 0 id else .res 0 id r

/-- every message that leaves the connection for one single message, when the handler of the
    item (if it is a request) delivers `r` while `max_response_size` is `lim`.  What the limit
    was when the message was *received* is not an input: `receiveSingle` does not read it. -/
def repliesSingle {R : Type} (encLen : Id → R → Nat) (m : Mem) (r : R) (lim : Nat) :
    List (Entry R) :=
  match receiveSingle m with
  | .errorReply id => [.err 0 id]
  | .item (.request _ id) => [sendResultSingle lim encLen id r]
  | .item (.notification _) => []

/-- the limit read when the request is received (NOT what the code does): the limit `lim` in
    force when the result is supplied is ignored -/
def repliesSingleSnapshot {R : Type} (lim0 : Nat) (encLen : Id → R → Nat) (m : Mem) (r : R)
    (_lim : Nat) : List (Entry R) :=
  repliesSingle encLen m r lim0

/-! ### specification-side views of a composition -/

/-- the request members of a composition, with their member index: (index, id) -/
def reqMembers : Nat → List Mem → List (Nat × Id)
  | _, [] => []
  | i, .req id :: ms => (i, id) :: reqMembers (i + 1) ms
  | i, _ :: ms => reqMembers (i + 1) ms

/-- the member indices of the request members -/
def reqIdx (ms : List Mem) : List Nat := (reqMembers 0 ms).map (·.1)

/-- the error entries a composition calls for, in member order -/
def errEntries {R : Type} : Nat → List Mem → List (Entry R)
  | _, [] => []
  | i, .invalid id :: ms => .err i id :: errEntries (i + 1) ms
  | i, _ :: ms => errEntries (i + 1) ms

def notifCount : List Mem → Nat
  | [] => 0
  | .notif :: ms => notifCount ms + 1
  | _ :: ms => notifCount ms

/-! ### `RPCSession._throttled_request`: one task per item, as a labelled transition system

    Environment events: the handler returns / raises an `RPCError` (`ret`), the processing
    timeout fires (`timeout`), the transport accepts the parked write (`written`).  The only
    thing C02 needs from this function is its *send-once discipline*: `request.send_result` is
    called exactly once per Request - with the handler's result if the handler finished before
    the timeout, with the SERVER_BUSY error otherwise - and what it returns is written once;
    nothing that happens while the write is parked leads back to `send_result`. -/

/-- what `send_result` is called with -/
inductive Res (R : Type) where
  | value (r : R)
  | busy
  deriving DecidableEq, Repr

inductive Ev (R : Type) where
  | ret (r : R)
  | timeout
  | written
  deriving DecidableEq, Repr

inductive TState (R : Type) where
  /-- inside `async with timeout_after(processing_timeout)`, awaiting `handle_request` -/
  | handling
  /-- `send_result(res)` was called and returned a message; `_send_message` is awaiting the
      transport (possibly parked on a full send buffer) -/
  | writing (res : Res R)
  /-- the task is over; `res` = what `send_result` was called with (`none` for a Notification) -/
  | done (res : Option (Res R))
  deriving DecidableEq, Repr

/-- observable actions of the task -/
inductive Act (R : Type) where
  | sendResult (res : Res R)
  | wrote (res : Res R)
  deriving DecidableEq, Repr

/-- `returnsMsg`: does `send_result` return a message (always for a single request; for a batch
    member only for the one completing the batch)?  `isReq`: `isinstance(request, Request)`.
    The timeout scope is left before `send_result` is called, so a `timeout` event in state
    `writing` cannot occur in the code; the model makes it a no-op (the timer was cancelled). -/
def tstep {R : Type} (isReq returnsMsg : Bool) : TState R → Ev R → TState R × List (Act R)
  | .handling, .ret r =>
      if !isReq then (.done none, [])
      else if returnsMsg then (.writing (.value r), [.sendResult (.value r)])
      else (.done (some (.value r)), [.sendResult (.value r)])
  | .handling, .timeout =>
      if !isReq then (.done none, [])
      else if returnsMsg then (.writing .busy, [.sendResult .busy])
      else (.done (some .busy), [.sendResult .busy])
  | .handling, .written => (.handling, [])
  | .writing res, .written => (.done (some res), [.wrote res])
  | .writing res, _ => (.writing res, [])
  | .done res, _ => (.done res, [])

def trun {R : Type} (isReq returnsMsg : Bool) : TState R → List (Ev R) → TState R × List (Act R)
  | s, [] => (s, [])
  | s, e :: es =>
      let r := tstep isReq returnsMsg s e
      let r' := trun isReq returnsMsg r.1 es
      (r'.1, r.2 ++ r'.2)

/-- the seeded variant (NOT the code): the response is sent *inside* the timeout scope, so the
    timeout can fire while the write is parked; the handler for it calls `send_result` again -/
def tstepInScope {R : Type} (isReq returnsMsg : Bool) : TState R → Ev R → TState R × List (Act R)
  | .writing _, .timeout => (.writing .busy, [.sendResult .busy])
  | s, e => tstep isReq returnsMsg s e

def trunInScope {R : Type} (isReq returnsMsg : Bool) :
    TState R → List (Ev R) → TState R × List (Act R)
  | s, [] => (s, [])
  | s, e :: es =>
      let r := tstepInScope isReq returnsMsg s e
      let r' := trunInScope isReq returnsMsg r.1 es
      (r'.1, r.2 ++ r'.2)

end Aiorpcx.C02
