import Aiorpcx.C01.Ids
/-! C02 — model of the serving side's reply bookkeeping in `JSONRPCConnection`
    (aiorpcx/jsonrpc.py: `_receive_request_batch` with its `item_send_result` closure,
    `_send_result`, `_oversized_response_message`, the request branch of `receive_message`).
    No Mathlib imports: the driver links this.

    `R` is the type of handler results (opaque).  Encoded lengths are a parameter `encLen`
    (`len(protocol.response_message(result, id))`); `inc` is what is added per entry to the running
    size (facts), `max` is `max_response_size` (0 = unlimited). -/
namespace Aiorpcx.C02
open Aiorpcx.C01 (Id)


/-- one member of a received batch, after `_process_request` -/
inductive Mem where
  /-- a valid request (id admitted by the protocol and not `None`) -/
  | req (id : Id)
  /-- a valid notification (no id, or id `None`) -/
  | notif
  /-- `_process_request` raised; `id` is the id recovered for the error entry (`null` if none) -/
  | invalid (id : Id)
  deriving DecidableEq, Repr

/-- one entry of a response: which member it answers, the id it carries, what it is -/
inductive Entry (R : Type) where
  /-- error entry for an invalid member -/
  | err (member : Nat) (id : Id)
  /-- `response_message(result, id)` -/
  | res (member : Nat) (id : Id) (r : R)
  /-- the "response too large" error response, under the same id -/
  | big (member : Nat) (id : Id)
  deriving DecidableEq, Repr

def Entry.member {R : Type} : Entry R → Nat
  | .err m _ | .res m _ _ | .big m _ => m

def Entry.id {R : Type} : Entry R → Id
  | .err _ i | .res _ i _ | .big _ i => i

def Entry.isReal {R : Type} : Entry R → Bool
  | .res _ _ _ => true
  | _ => false

/-- the closure variables of `_receive_request_batch` -/
structure ReqBatch (R : Type) where
  parts : List (Entry R)
  count : Nat
  size : Nat
  deriving DecidableEq, Repr

/-- the loop of `_receive_request_batch` from member index `i` on:
    returns (items with their member index, error parts, count) -/
def scan {R : Type} : Nat → List Mem → List (Nat × Mem) × List (Entry R) × Nat
  | _, [] => ([], [], 0)
  | i, m :: ms =>
      let r := scan (i + 1) ms
      match m with
      | .req _ => ((i, m) :: r.1, r.2.1, r.2.2 + 1)
      | .notif => ((i, m) :: r.1, r.2.1, r.2.2)
      | .invalid id => (r.1, .err i id :: r.2.1, r.2.2 + 1)

inductive RecvResult (R : Type) where
  /-- the items handed to the session (requests carry a `send_result` bound to the batch) -/
  | items (its : List (Nat × Mem)) (b : ReqBatch R)
  /-- `ProtocolError` whose `error_message` is the batch of these entries -/
  | errorBatch (es : List (Entry R))
  deriving DecidableEq, Repr

/-- `_receive_request_batch(payloads)` -/
def receiveBatch {R : Type} (ms : List Mem) : RecvResult R :=
  let r := scan (R := R) 0 ms
  if r.1.isEmpty && !r.2.1.isEmpty then .errorBatch r.2.1
  else .items r.1 ⟨r.2.1, r.2.2, 0⟩

/-- `item_send_result(request_id, result)` for the request at member index `m` -/
def sendResult {R : Type} (max inc : Nat) (encLen : Id → R → Nat) (b : ReqBatch R)
    (m : Nat) (id : Id) (r : R) : ReqBatch R × Option (List (Entry R)) :=
  let size := b.size + encLen id r + inc
  let part : Entry R := if size > max && max > 0 then .big m id else .res m id r
  let parts := b.parts ++ [part]
  (⟨parts, b.count, size⟩, if parts.length == b.count then some parts else none)

/-- a completion order: member index, the id its `send_result` is bound to, the result -/
abbrev Call (R : Type) := Nat × Id × R

def runCalls {R : Type} (max inc : Nat) (encLen : Id → R → Nat) :
    ReqBatch R → List (Call R) → List (Option (List (Entry R)))
  | _, [] => []
  | b, c :: cs =>
      let r := sendResult max inc encLen b c.1 c.2.1 c.2.2
      r.2 :: runCalls max inc encLen r.1 cs

/-- every batch message that leaves the connection for one received batch, given the order in
    which the handlers call `send_result` (the session sends a non-`None` return value, and the
    `error_message` of a raised `ProtocolError`) -/
def replies {R : Type} (max inc : Nat) (encLen : Id → R → Nat) (ms : List Mem)
    (calls : List (Call R)) : List (List (Entry R)) :=
  match receiveBatch (R := R) ms with
  | .errorBatch es => [es]
  | .items _ b => (runCalls max inc encLen b calls).filterMap id

/-- `_send_result(request_id, result)`: the reply to a single request -/
def sendResultSingle {R : Type} (max : Nat) (encLen : Id → R → Nat) (id : Id) (r : R) : Entry R :=
  if encLen id r > max && max > 0 then .big 0 id else .res 0 id r

/-- the request members of a composition, with their member index: (index, id) -/
def reqMembers : Nat → List Mem → List (Nat × Id)
  | _, [] => []
  | i, .req id :: ms => (i, id) :: reqMembers (i + 1) ms
  | i, _ :: ms => reqMembers (i + 1) ms

/-- the error entries a composition calls for, in member order -/
def errEntries {R : Type} : Nat → List Mem → List (Entry R)
  | _, [] => []
  | i, .invalid id :: ms => .err i id :: errEntries (i + 1) ms
  | i, _ :: ms => errEntries (i + 1) ms

def notifCount : List Mem → Nat
  | [] => 0
  | .notif :: ms => notifCount ms + 1
  | _ :: ms => notifCount ms

end Aiorpcx.C02
