import Aiorpcx.C07.Model
/-! C07 — the chunk-level reader (`run`, on `ByteQueue` states) refines the stream-level
    decoder (`decode`): its output is a function of the concatenation of the chunks. -/
namespace Aiorpcx.C07

/-- `parts_len` is the number of buffered bytes -/
def BQ.Inv (q : BQ) : Prop := q.partsLen = q.parts.flatten.length

/-- the bytes that are still to be consumed: buffered parts, then the queued chunks -/
def BQ.stream (q : BQ) (cs : List Bytes) : Bytes := q.parts.flatten ++ cs.flatten

theorem BQ.empty_inv : BQ.empty.Inv := by simp [BQ.Inv, BQ.empty]

theorem BQ.fill_spec (size : Nat) : ∀ (cs : List Bytes) (q : BQ), q.Inv →
    ((q.stream cs).length < size → BQ.fill size q cs = none) ∧
    (size ≤ (q.stream cs).length → ∃ q' cs', BQ.fill size q cs = some (q', cs') ∧ q'.Inv ∧
        q'.stream cs' = q.stream cs ∧ size ≤ q'.partsLen)
  | [], q, hq => by
      unfold BQ.fill
      have hs : (q.stream []).length = q.partsLen := by
        rw [BQ.Inv] at hq; simp [BQ.stream, hq]
      rw [hs]
      constructor
      · intro h; simp [h]
      · intro h
        have : ¬ q.partsLen < size := by omega
        exact ⟨q, [], by simp [this], hq, rfl, by omega⟩
  | c :: cs, q, hq => by
      unfold BQ.fill
      have hq' := hq
      rw [BQ.Inv] at hq'
      by_cases hlt : q.partsLen < size
      · simp only [hlt, ↓reduceIte]
        have inv2 : BQ.Inv ⟨q.parts ++ [c], q.partsLen + c.length⟩ := by
          simp [BQ.Inv, hq']
        have st : BQ.stream ⟨q.parts ++ [c], q.partsLen + c.length⟩ cs = q.stream (c :: cs) := by
          simp [BQ.stream]
        have ih := BQ.fill_spec size cs _ inv2
        rw [st] at ih
        exact ih
      · simp only [hlt, ↓reduceIte]
        constructor
        · intro h
          simp only [BQ.stream, List.length_append] at h
          omega
        · intro _
          exact ⟨q, c :: cs, rfl, hq, rfl, by omega⟩

theorem BQ.receive_spec (size : Nat) (q : BQ) (cs : List Bytes) (hq : q.Inv) :
    ((q.stream cs).length < size → BQ.receive size q cs = none) ∧
    (size ≤ (q.stream cs).length → ∃ q' cs',
        BQ.receive size q cs = some ((q.stream cs).take size, q', cs') ∧ q'.Inv ∧
        q'.stream cs' = (q.stream cs).drop size) := by
  obtain ⟨h1, h2⟩ := BQ.fill_spec size cs q hq
  constructor
  · intro h
    simp [BQ.receive, h1 h]
  · intro h
    obtain ⟨q1, cs1, hf, inv1, st1, hsz⟩ := h2 h
    have hlen : size ≤ q1.parts.flatten.length := by rw [BQ.Inv] at inv1; omega
    refine ⟨⟨[q1.parts.flatten.drop size], q1.partsLen - size⟩, cs1, ?_, ?_, ?_⟩
    · simp only [BQ.receive, hf]
      rw [← st1, BQ.stream, List.take_append_of_le_length hlen]
    · rw [BQ.Inv] at inv1 ⊢
      simp [inv1]
    · rw [← st1]
      simp only [BQ.stream, List.flatten_cons, List.flatten_nil, List.append_nil]
      rw [List.drop_append_of_le_length hlen]

/-- one `receive_message()` on the queue = one `step` on the stream -/
theorem recvMessage_spec (cfg : Cfg) (cksum : Bytes → Bytes) (q : BQ) (cs : List Bytes)
    (hq : q.Inv) :
    (step cfg cksum (q.stream cs) = none → recvMessage cfg cksum q cs = none) ∧
    (∀ o s', step cfg cksum (q.stream cs) = some (o, s') → ∃ q' cs',
        recvMessage cfg cksum q cs = some (o, q', cs') ∧ q'.Inv ∧ q'.stream cs' = s') := by
  obtain ⟨r1, r2⟩ := BQ.receive_spec headerLen q cs hq
  by_cases hlt : (q.stream cs).length < headerLen
  · have hs : step cfg cksum (q.stream cs) = none := by simp [step, hlt]
    refine ⟨fun _ => ?_, fun o s' h => ?_⟩
    · simp [recvMessage, r1 hlt]
    · rw [hs] at h; simp at h
  · obtain ⟨q1, cs1, hr1, inv1, st1⟩ := r2 (by omega)
    cases hp : parseHeader cfg ((q.stream cs).take headerLen) with
    | error e =>
      have hs : step cfg cksum (q.stream cs) = some (.err e, (q.stream cs).drop headerLen) := by
        simp [step, hlt, hp]
      refine ⟨fun h => ?_, fun o s' h => ?_⟩
      · rw [hs] at h; simp at h
      · rw [hs] at h
        simp only [Option.some.injEq, Prod.mk.injEq] at h
        obtain ⟨rfl, rfl⟩ := h
        exact ⟨q1, cs1, by simp [recvMessage, hr1, hp], inv1, st1⟩
    | ok v =>
      obtain ⟨cmd, n, ck⟩ := v
      obtain ⟨p1, p2⟩ := BQ.receive_spec n q1 cs1 inv1
      rw [st1] at p1 p2
      by_cases hn : ((q.stream cs).drop headerLen).length < n
      · have hn' : (q.stream cs).length - headerLen < n := by simpa using hn
        have hs : step cfg cksum (q.stream cs) = none := by simp [step, hlt, hp, hn']
        refine ⟨fun _ => ?_, fun o s' h => ?_⟩
        · simp [recvMessage, hr1, hp, p1 hn]
        · rw [hs] at h; simp at h
      · obtain ⟨q2, cs2, hr2, inv2, st2⟩ := p2 (by omega)
        have hs : step cfg cksum (q.stream cs) =
            some (if cksum (((q.stream cs).drop headerLen).take n) != ck then .err .badChecksum
                  else .msg cmd (((q.stream cs).drop headerLen).take n),
                  ((q.stream cs).drop headerLen).drop n) := by
          have hn' : ¬ (q.stream cs).length - headerLen < n := by simpa using hn
          simp [step, hlt, hp, hn']
        refine ⟨fun h => ?_, fun o s' h => ?_⟩
        · rw [hs] at h; simp at h
        · rw [hs] at h
          simp only [Option.some.injEq, Prod.mk.injEq] at h
          obtain ⟨rfl, rfl⟩ := h
          refine ⟨q2, cs2, ?_, inv2, st2⟩
          simp only [recvMessage, hr1, hp, hr2]
          split <;> rfl

theorem decode_eq (cfg : Cfg) (cksum : Bytes → Bytes) (s : Bytes) :
    decode cfg cksum s =
      match step cfg cksum s with
      | none => []
      | some (o, s') => o :: decode cfg cksum s' := by
  rw [decode]
  split <;> simp_all

theorem run_eq (cfg : Cfg) (cksum : Bytes → Bytes) (q : BQ) (cs : List Bytes) :
    run cfg cksum q cs =
      match recvMessage cfg cksum q cs with
      | none => []
      | some (o, q', cs') => o :: run cfg cksum q' cs' := by
  rw [run]
  split <;> simp_all

/-- **refinement**: the reader's output on any `ByteQueue` state is the decoding of the bytes
    still to be consumed -/
theorem run_eq_decode (cfg : Cfg) (cksum : Bytes → Bytes) :
    ∀ (n : Nat) (q : BQ) (cs : List Bytes), (q.stream cs).length = n → q.Inv →
      run cfg cksum q cs = decode cfg cksum (q.stream cs) := by
  intro n
  induction n using Nat.strongRecOn with
  | _ n ih =>
    intro q cs hn hq
    obtain ⟨s1, s2⟩ := recvMessage_spec cfg cksum q cs hq
    rw [run_eq, decode_eq]
    cases hs : step cfg cksum (q.stream cs) with
    | none => simp [s1 hs]
    | some v =>
      obtain ⟨o, s'⟩ := v
      obtain ⟨q', cs', hr, inv', st'⟩ := s2 o s' hs
      have hm := step_measure hs
      simp only [hr]
      rw [ih (q'.stream cs').length (by rw [st']; omega) q' cs' rfl inv', st']

end Aiorpcx.C07
