import Aiorpcx.C07.Model
/-! C07 — lemmas about the header codec: little-endian integers, NUL padding/stripping, and
    parsing a header that `buildHeader` produced. -/
namespace Aiorpcx.C07

/-! ### `le32` / `unle` -/

theorem le32_length (n : Nat) : (le32 n).length = 4 := rfl

theorem unle_le32 (n : Nat) (h : n < 4294967296) : unle (le32 n) = n := by
  simp only [le32, unle, UInt8.toNat_ofNat']
  omega

theorem le32_unle (b : Bytes) (h : b.length = 4) : le32 (unle b) = b := by
  match b, h with
  | [b0, b1, b2, b3], _ =>
    have h0 := b0.toNat_lt
    have h1 := b1.toNat_lt
    have h2 := b2.toNat_lt
    have h3 := b3.toNat_lt
    simp only [unle, le32]
    have e0 : (b0.toNat + 256 * (b1.toNat + 256 * (b2.toNat + 256 * (b3.toNat + 256 * 0)))) % 256
        = b0.toNat := by omega
    have e1 : (b0.toNat + 256 * (b1.toNat + 256 * (b2.toNat + 256 * (b3.toNat + 256 * 0)))) / 256
        % 256 = b1.toNat := by omega
    have e2 : (b0.toNat + 256 * (b1.toNat + 256 * (b2.toNat + 256 * (b3.toNat + 256 * 0)))) / 65536
        % 256 = b2.toNat := by omega
    have e3 : (b0.toNat + 256 * (b1.toNat + 256 * (b2.toNat + 256 * (b3.toNat + 256 * 0))))
        / 16777216 % 256 = b3.toNat := by omega
    rw [e0, e1, e2, e3]
    simp

theorem unle_lt (b : Bytes) : unle b < 256 ^ b.length := by
  induction b with
  | nil => simp [unle]
  | cons x xs ih =>
    have := x.toNat_lt
    simp only [unle, List.length_cons, Nat.pow_succ]
    omega

/-! ### `rstrip(b'\0')` -/

/-- the command does not end in a NUL byte -/
def NoTrailNul (c : Bytes) : Prop := c.getLast? ≠ some 0

instance (c : Bytes) : Decidable (NoTrailNul c) := by unfold NoTrailNul; infer_instance

theorem rstripNul_cons (b : UInt8) (bs : Bytes) :
    rstripNul (b :: bs) = if (rstripNul bs).isEmpty && b == 0 then [] else b :: rstripNul bs := rfl

theorem rstripNul_zeros (k : Nat) : rstripNul (List.replicate k 0) = [] := by
  induction k with
  | zero => rfl
  | succ k ih => simp [List.replicate_succ, rstripNul, ih]

/-- zero padding is invisible to `rstrip` -/
theorem rstripNul_append_zeros (c : Bytes) (k : Nat) :
    rstripNul (c ++ List.replicate k 0) = rstripNul c := by
  induction c with
  | nil => simp [rstripNul_zeros, rstripNul]
  | cons b bs ih => simp only [List.cons_append, rstripNul, ih]

theorem rstripNul_of_noTrail (c : Bytes) (h : NoTrailNul c) : rstripNul c = c := by
  induction c with
  | nil => rfl
  | cons b bs ih =>
    cases bs with
    | nil =>
      have hb : b ≠ 0 := by simpa [NoTrailNul] using h
      simp [rstripNul, hb]
    | cons b' bs' =>
      have h' : NoTrailNul (b' :: bs') := by
        simpa [NoTrailNul, List.getLast?_cons_cons] using h
      rw [rstripNul_cons, ih h']
      simp

theorem noTrail_of_rstripNul (c : Bytes) (h : rstripNul c = c) : NoTrailNul c := by
  induction c with
  | nil => simp [NoTrailNul]
  | cons b bs ih =>
    cases bs with
    | nil =>
      simp only [rstripNul, List.isEmpty_nil, Bool.true_and] at h
      by_cases hb : b = 0
      · simp [hb] at h
      · simpa [NoTrailNul] using hb
    | cons b' bs' =>
      have h2 : rstripNul (b' :: bs') = b' :: bs' := by
        rw [rstripNul_cons] at h
        split at h
        · simp at h
        · exact (List.cons.inj h).2
      have := ih h2
      simpa [NoTrailNul, List.getLast?_cons_cons] using this

/-- `rstrip` output never ends in NUL (so it is idempotent) -/
theorem rstripNul_noTrail (c : Bytes) : NoTrailNul (rstripNul c) := by
  induction c with
  | nil => simp [NoTrailNul, rstripNul]
  | cons b bs ih =>
    simp only [rstripNul]
    split
    · simp [NoTrailNul]
    · rename_i hne
      cases hr : rstripNul bs with
      | nil =>
        rw [hr] at hne
        have hb : b ≠ 0 := by simpa using hne
        simpa [NoTrailNul] using hb
      | cons x xs =>
        rw [hr] at ih
        simpa [NoTrailNul, List.getLast?_cons_cons] using ih

theorem rstripNul_length_le (c : Bytes) : (rstripNul c).length ≤ c.length := by
  induction c with
  | nil => simp [rstripNul]
  | cons b bs ih =>
    simp only [rstripNul]
    split <;> simp <;> omega

/-! ### fields of a header assembled from four parts -/

theorem fields_of_parts (m c l k : Bytes) (hm : m.length = 4) (hc : c.length = 12)
    (hl : l.length = 4) (hk : k.length = 4) :
    hMagic (m ++ (c ++ (l ++ k))) = m ∧ hCmd (m ++ (c ++ (l ++ k))) = c ∧
    hLen (m ++ (c ++ (l ++ k))) = unle l ∧ hCk (m ++ (c ++ (l ++ k))) = k ∧
    (m ++ (c ++ (l ++ k))).length = 24 := by
  refine ⟨?_, ?_, ?_, ?_, ?_⟩
  · simp [hMagic, magicW, List.take_left' hm]
  · simp [hCmd, magicW, cmdW, List.drop_left' hm, List.take_left' hc]
  · simp [hLen, magicW, cmdW, lenW, List.drop_left' hm, List.drop_left' hc, List.take_left' hl]
  · simp only [hCk, magicW, cmdW, lenW, ckW, List.drop_left' hm, List.drop_left' hc,
      List.drop_left' hl]
    exact List.take_of_length_le (by omega)
  · simp [hm, hc, hl, hk]

/-- every 24-byte string is the concatenation of its four fields -/
theorem header_split (h : Bytes) (hl : h.length = 24) :
    h = hMagic h ++ (hCmd h ++ (((h.drop magicW).drop cmdW).take lenW ++ hCk h)) := by
  have e : hCk h = ((h.drop magicW).drop cmdW).drop lenW := by
    simp only [hCk]
    apply List.take_of_length_le
    simp [magicW, cmdW, lenW, ckW, hl]
  rw [e, hMagic, hCmd, List.take_append_drop, List.take_append_drop, List.take_append_drop]

end Aiorpcx.C07
