import Aiorpcx.C07.Stream
import Aiorpcx.Facts.C07
/-!
# C07 — property theorems for the Bitcoin framer and the `MessageSession` error policy

Model (`Model.lean`, mirrors `framing.py:119-267`, `session.py:272-304`):
* `run cfg cksum BQ.empty chunks` = the values / exceptions of successive
  `BitcoinFramer.receive_message()` calls when `chunks` arrive in that order
  (`ByteQueue` state `parts`/`parts_len` included);
* `decode cfg cksum stream` = the same on a byte stream (specification level);
* `frame` / `buildHeader` = `BinaryFramer.frame` / `BitcoinFramer._build_header`;
* `sessRun` = what `MessageSession._process_messages_loop` does with each outcome.

`cksum : Bytes → Bytes` (double SHA-256, first four bytes) is a parameter; the only law used is
`CkLaw cksum : ∀ p, (cksum p).length = 4`.  Collision resistance is **not** claimed: what is
proved is "never delivered unless the checksum matches".  Everything is quantified over all
configurations (magic, limits), all byte streams, all chunkings (empty chunks included).
-/
namespace Aiorpcx.C07

/-- the single law assumed of the checksum function -/
def CkLaw (cksum : Bytes → Bytes) : Prop := ∀ p, (cksum p).length = 4

/-- a checksum function for the non-vacuity examples: length mod 256, first byte, 7, 7 -/
def ck0 : Bytes → Bytes := fun p => [UInt8.ofNat p.length, p.headD 0, 7, 7]
theorem ck0_law : CkLaw ck0 := fun _ => rfl
/-- a configuration for the examples -/
def cfg0 : Cfg := ⟨[0xe3, 0xe1, 0xf3, 0xe8], 5, 9⟩

/-! ## 1. Header layout -/

/-- the bytes `frame((cmd, payload))` puts on the wire when it does not raise -/
def wire (cfg : Cfg) (cksum : Bytes → Bytes) (m : Bytes × Bytes) : Bytes :=
  cfg.magic ++ (m.1 ++ List.replicate (12 - m.1.length) 0 ++ (le32 m.2.length ++ cksum m.2)) ++ m.2

/-- **header_layout**: for a command of at most 12 bytes and a payload shorter than 2^32 the
    header is magic ++ command zero-padded to 12 ++ little-endian length ++ checksum, and the
    frame is header ++ payload -/
theorem header_layout (cfg : Cfg) (cksum : Bytes → Bytes) (cmd payload : Bytes)
    (hc : cmd.length ≤ 12) (hp : payload.length < 4294967296) :
    buildHeader cfg cksum cmd payload =
      .ok (cfg.magic ++ (cmd ++ List.replicate (12 - cmd.length) 0 ++
        (le32 payload.length ++ cksum payload))) ∧
    frame cfg cksum cmd payload = .ok (wire cfg cksum (cmd, payload)) := by
  have h1 : ¬ 12 < cmd.length := by omega
  simp [frame, buildHeader, padCommand, packLe32, h1, hp, wire, cmdW]

/-- the header is 24 bytes and its four fields read back as what was put in
    (the length as a number: `unle ∘ le32 = id` below 2^32) -/
theorem header_fields (cfg : Cfg) (cksum : Bytes → Bytes) (hm : cfg.magic.length = 4)
    (hk : CkLaw cksum) (cmd payload : Bytes) (hc : cmd.length ≤ 12)
    (hp : payload.length < 4294967296) (h : Bytes)
    (hb : buildHeader cfg cksum cmd payload = .ok h) :
    h.length = 24 ∧ hMagic h = cfg.magic ∧
    hCmd h = cmd ++ List.replicate (12 - cmd.length) 0 ∧
    hLen h = payload.length ∧ hCk h = cksum payload := by
  rw [(header_layout cfg cksum cmd payload hc hp).1] at hb
  simp only [Except.ok.injEq] at hb
  subst hb
  have hcl : (cmd ++ List.replicate (12 - cmd.length) 0).length = 12 := by simp; omega
  obtain ⟨f1, f2, f3, f4, f5⟩ :=
    fields_of_parts cfg.magic _ (le32 payload.length) (cksum payload) hm hcl rfl (hk payload)
  exact ⟨f5, f1, f2, by rw [f3, unle_le32 _ hp], f4⟩

/-- `frame` raises exactly for a command over 12 bytes (`ValueError`, tested first) or a payload
    of 2^32 bytes or more (`struct.error`) -/
theorem frame_errors (cfg : Cfg) (cksum : Bytes → Bytes) (cmd payload : Bytes) :
    (12 < cmd.length → frame cfg cksum cmd payload = .error .valueError) ∧
    (cmd.length ≤ 12 → 4294967296 ≤ payload.length →
      frame cfg cksum cmd payload = .error .structError) := by
  constructor
  · intro h
    simp [frame, buildHeader, padCommand, cmdW, h]
  · intro h1 h2
    have h1' : ¬ cmd.length > cmdW := by simp [cmdW]; omega
    have h2' : ¬ payload.length < 4294967296 := by omega
    simp [frame, buildHeader, padCommand, packLe32, h1', h2']

example : frame cfg0 ck0 [1, 2] [9] =
    .ok ([0xe3, 0xe1, 0xf3, 0xe8] ++ [1, 2, 0, 0, 0, 0, 0, 0, 0, 0, 0, 0] ++ [1, 0, 0, 0] ++
         [1, 9, 7, 7] ++ [9]) := by decide
example : frame cfg0 ck0 (List.replicate 13 65) [] = .error .valueError := by decide

/-- `le32`/`unle` are inverse below 2^32 / on 4-byte strings -/
theorem le32_inverse : (∀ n, n < 4294967296 → unle (le32 n) = n) ∧
    (∀ b : Bytes, b.length = 4 → le32 (unle b) = b) :=
  ⟨unle_le32, le32_unle⟩

/-! ## 2. What one header (plus payload) at the front of a stream decodes to -/

/-- a header that `_receive_header` rejects: the error is raised, exactly the 24 header bytes
    are consumed, and decoding continues right behind them -/
theorem decode_rejected_header (cfg : Cfg) (cksum : Bytes → Bytes) (h rest : Bytes) (e : FrameErr)
    (hl : h.length = 24) (hp : parseHeader cfg h = .error e) :
    decode cfg cksum (h ++ rest) = .err e :: decode cfg cksum rest := by
  have hw : Item.WF cfg ⟨h, []⟩ := ⟨hl, by simp [hp]⟩
  have := decode_item cfg cksum ⟨h, []⟩ hw rest
  simpa [Item.bytes, Item.out, hp] using this

/-- a header that is accepted, followed by the declared number of bytes: one outcome
    (delivered iff the checksum matches), exactly 24 + declared length bytes consumed -/
theorem decode_accepted_header (cfg : Cfg) (cksum : Bytes → Bytes) (h body rest c ck : Bytes)
    (n : Nat) (hl : h.length = 24) (hp : parseHeader cfg h = .ok (c, n, ck))
    (hb : body.length = n) :
    decode cfg cksum (h ++ (body ++ rest)) =
      (if cksum body = ck then Out.msg c body else Out.err .badChecksum) ::
        decode cfg cksum rest := by
  have hw : Item.WF cfg ⟨h, body⟩ := ⟨hl, by simp [hp, hb]⟩
  have := decode_item cfg cksum ⟨h, body⟩ hw rest
  simp only [Item.bytes, Item.out, hp, List.append_assoc] at this
  rw [this]
  by_cases hc : cksum body = ck <;> simp [hc]

/-- nothing is produced while the header or the declared payload is incomplete -/
theorem decode_incomplete (cfg : Cfg) (cksum : Bytes → Bytes) :
    (∀ s : Bytes, s.length < 24 → decode cfg cksum s = []) ∧
    (∀ (h tail c ck : Bytes) (n : Nat), h.length = 24 → parseHeader cfg h = .ok (c, n, ck) →
      tail.length < n → decode cfg cksum (h ++ tail) = []) := by
  constructor
  · intro s hs
    rw [decode_eq, step_none_short cfg cksum s hs]
  · intro h tail c ck n hl hp ht
    have h1 : ¬ (h ++ tail).length < headerLen := by simp [headerLen, hl]
    have h2 : (h ++ tail).take headerLen = h := List.take_left' hl
    have h3 : (h ++ tail).drop headerLen = tail := List.drop_left' hl
    rw [decode_eq, step]
    simp only [h1, ↓reduceIte, h2, h3, hp, ht]

/-! ## 3. Round trip -/

/-- a message the property quantifies over: command of at most 12 bytes that does not end in
    NUL, payload length representable in 32 bits and within the receiver's limit (or a `block`
    within the block limit) -/
structure Sendable (cfg : Cfg) (m : Bytes × Bytes) : Prop where
  cmdLen : m.1.length ≤ 12
  noNul : NoTrailNul m.1
  lenPack : m.2.length < 4294967296
  within : m.2.length ≤ cfg.maxPayload ∨ (m.1 = blockCmd ∧ m.2.length ≤ cfg.maxBlock)

/-- **block_exception**: the exact acceptance condition of a declared length -/
theorem block_exception (cfg : Cfg) (cmd : Bytes) (n : Nat) :
    oversized cfg cmd n = false ↔ n ≤ cfg.maxPayload ∨ (cmd = blockCmd ∧ n ≤ cfg.maxBlock) := by
  unfold oversized
  by_cases h1 : n > cfg.maxPayload
  · simp only [h1, ↓reduceIte, Bool.or_eq_false_iff, bne_eq_false_iff_eq, decide_eq_false_iff_not]
    constructor
    · rintro ⟨a, b⟩; exact Or.inr ⟨a, by omega⟩
    · rintro (a | ⟨a, b⟩)
      · omega
      · exact ⟨a, by omega⟩
  · simp only [h1, ↓reduceIte, true_iff]
    exact Or.inl (by omega)

/-- boundary arithmetic around `max_payload_size` and `max_block_size`: the limit itself is
    accepted for every command; one more is rejected unless the command is exactly `block`;
    for `block` the block limit itself is accepted and one more is rejected -/
theorem size_boundaries (cfg : Cfg) (cmd : Bytes) :
    oversized cfg cmd cfg.maxPayload = false ∧
    (cmd ≠ blockCmd → oversized cfg cmd (cfg.maxPayload + 1) = true) ∧
    (cfg.maxPayload < cfg.maxBlock → oversized cfg blockCmd cfg.maxBlock = false ∧
      oversized cfg blockCmd (cfg.maxBlock + 1) = true) ∧
    (cfg.maxBlock ≤ cfg.maxPayload → oversized cfg blockCmd (cfg.maxPayload + 1) = true) := by
  refine ⟨?_, ?_, ?_, ?_⟩
  · exact (block_exception cfg cmd _).2 (Or.inl (Nat.le_refl _))
  · intro hne
    cases h : oversized cfg cmd (cfg.maxPayload + 1) with
    | true => rfl
    | false =>
      rcases (block_exception cfg cmd _).1 h with a | ⟨a, _⟩
      · omega
      · exact absurd a hne
  · intro hlt
    constructor
    · exact (block_exception cfg blockCmd _).2 (Or.inr ⟨rfl, Nat.le_refl _⟩)
    · cases h : oversized cfg blockCmd (cfg.maxBlock + 1) with
      | true => rfl
      | false =>
        rcases (block_exception cfg blockCmd _).1 h with a | ⟨_, a⟩ <;> omega
  · intro hle
    cases h : oversized cfg blockCmd (cfg.maxPayload + 1) with
    | true => rfl
    | false =>
      rcases (block_exception cfg blockCmd _).1 h with a | ⟨_, a⟩ <;> omega

example : oversized cfg0 [1] 5 = false ∧ oversized cfg0 [1] 6 = true ∧
    oversized cfg0 blockCmd 9 = false ∧ oversized cfg0 blockCmd 10 = true ∧
    oversized cfg0 (blockCmd ++ [115]) 6 = true := by decide

/-- the header of any frameable message parses back to the command *with trailing NULs
    stripped*, the payload length and the payload's checksum, provided the length passes the
    size test -/
theorem parse_built_header (cfg : Cfg) (cksum : Bytes → Bytes) (hm : cfg.magic.length = 4)
    (hk : CkLaw cksum) (cmd payload h : Bytes) (hc : cmd.length ≤ 12)
    (hp : payload.length < 4294967296)
    (hs : oversized cfg (rstripNul cmd) payload.length = false)
    (hb : buildHeader cfg cksum cmd payload = .ok h) :
    h.length = 24 ∧
    parseHeader cfg h = .ok (rstripNul cmd, payload.length, cksum payload) := by
  obtain ⟨f5, f1, f2, f3, f4⟩ := header_fields cfg cksum hm hk cmd payload hc hp h hb
  refine ⟨f5, ?_⟩
  rw [parseHeader_ok_iff]
  refine ⟨f1, ?_, f3.symm, f4.symm, hs⟩
  rw [f2, rstripNul_append_zeros]

/-- decoding a frame followed by anything: the message with the command stripped of trailing
    NULs, then the decoding of what follows -/
theorem decode_wire (cfg : Cfg) (cksum : Bytes → Bytes) (hm : cfg.magic.length = 4)
    (hk : CkLaw cksum) (m : Bytes × Bytes) (hc : m.1.length ≤ 12) (hp : m.2.length < 4294967296)
    (hs : oversized cfg (rstripNul m.1) m.2.length = false) (rest : Bytes) :
    decode cfg cksum (wire cfg cksum m ++ rest) =
      .msg (rstripNul m.1) m.2 :: decode cfg cksum rest := by
  obtain ⟨cmd, payload⟩ := m
  have hb := (header_layout cfg cksum cmd payload hc hp).1
  obtain ⟨hl, hparse⟩ := parse_built_header cfg cksum hm hk cmd payload _ hc hp hs hb
  have := decode_accepted_header cfg cksum _ payload rest _ _ _ hl hparse rfl
  simp only [↓reduceIte] at this
  simp only [wire, List.append_assoc] at this ⊢
  exact this

/-- **frame_roundtrip**: every sequence of sendable messages, framed, concatenated and cut into
    chunks in any way (empty chunks allowed), is received as exactly that sequence -/
theorem frame_roundtrip (cfg : Cfg) (cksum : Bytes → Bytes) (hm : cfg.magic.length = 4)
    (hk : CkLaw cksum) (msgs : List (Bytes × Bytes)) (hs : ∀ m ∈ msgs, Sendable cfg m)
    (chunks : List Bytes) (hc : chunks.flatten = (msgs.map (wire cfg cksum)).flatten) :
    (∀ m ∈ msgs, frame cfg cksum m.1 m.2 = .ok (wire cfg cksum m)) ∧
    run cfg cksum BQ.empty chunks = msgs.map (fun m => Out.msg m.1 m.2) := by
  constructor
  · intro m hmem
    exact (header_layout cfg cksum m.1 m.2 (hs m hmem).cmdLen (hs m hmem).lenPack).2
  · rw [run_eq_decode cfg cksum _ BQ.empty chunks rfl BQ.empty_inv]
    simp only [BQ.stream, BQ.empty, List.flatten_nil, List.nil_append, hc]
    clear hc
    induction msgs with
    | nil => simp [decode_incomplete]
    | cons m ms ih =>
      have s1 := hs m (by simp)
      have hs' : ∀ x ∈ ms, Sendable cfg x := fun x hx => hs x (by simp [hx])
      have e : rstripNul m.1 = m.1 := rstripNul_of_noTrail _ s1.noNul
      have hsz : oversized cfg (rstripNul m.1) m.2.length = false := by
        rw [e]; exact (block_exception cfg _ _).2 s1.within
      simp only [List.map_cons, List.flatten_cons]
      rw [decode_wire cfg cksum hm hk m s1.cmdLen s1.lenPack hsz, e, ih hs']

/-- non-vacuity: two sendable messages (one a `block` above the ordinary limit) -/
example : Sendable cfg0 ([118], [1, 2, 3]) ∧ Sendable cfg0 (blockCmd, List.replicate 8 0) := by
  refine ⟨⟨by decide, by decide, by decide, by decide⟩, ⟨by decide, by decide, by decide, by decide⟩⟩

/-! ### F17: a command ending in NUL cannot be expressed on the wire (known finding) -/

/-- the full-strength round trip the property text asks for ("any command of at most 12 bytes") -/
def frame_roundtrip_full : Prop :=
  ∀ (cfg : Cfg) (cksum : Bytes → Bytes), cfg.magic.length = 4 → CkLaw cksum →
    ∀ m : Bytes × Bytes, m.1.length ≤ 12 → m.2.length < 4294967296 →
      oversized cfg m.1 m.2.length = false →
      decode cfg cksum (wire cfg cksum m) = [.msg m.1 m.2]

/-- witness: `frame((b'ab\0', b''))` fed back yields command `b'ab'` -/
theorem trailing_nul_witness :
    decode cfg0 ck0 (wire cfg0 ck0 ([97, 98, 0], [])) = [.msg [97, 98] []] := by
  have := decode_wire cfg0 ck0 rfl ck0_law ([97, 98, 0], []) (by decide) (by decide) (by decide) []
  simp only [List.append_nil] at this
  rw [this, (decode_incomplete cfg0 ck0).1 [] (by decide)]
  decide

theorem frame_roundtrip_full_fails : ¬ frame_roundtrip_full := by
  intro h
  have h1 := h cfg0 ck0 rfl ck0_law ([97, 98, 0], []) (by decide) (by decide) (by decide)
  rw [trailing_nul_witness] at h1
  revert h1
  decide

/-- why no repair exists: a command and the same command with a NUL appended have the *same*
    wire bytes, so no receiver can tell them apart -/
theorem wire_not_injective (cfg : Cfg) (cksum : Bytes → Bytes) (cmd payload : Bytes)
    (h : cmd.length < 12) :
    wire cfg cksum (cmd ++ [0], payload) = wire cfg cksum (cmd, payload) := by
  have e : 12 - cmd.length = (12 - (cmd.length + 1)) + 1 := by omega
  simp only [wire, List.length_append, List.length_cons, List.length_nil, Nat.zero_add]
  rw [e, List.replicate_succ]
  simp

/-- what does hold for every frameable command: it comes back stripped of trailing NULs -/
theorem frame_roundtrip_partial (cfg : Cfg) (cksum : Bytes → Bytes) (hm : cfg.magic.length = 4)
    (hk : CkLaw cksum) (m : Bytes × Bytes) (hc : m.1.length ≤ 12) (hp : m.2.length < 4294967296)
    (hs : oversized cfg (rstripNul m.1) m.2.length = false) :
    decode cfg cksum (wire cfg cksum m) = [.msg (rstripNul m.1) m.2] := by
  have := decode_wire cfg cksum hm hk m hc hp hs []
  simp only [List.append_nil] at this
  rw [this, (decode_incomplete cfg cksum).1 [] (by decide)]

/-! ## 4. Never corrupt, stay in sync -/

/-- **never_corrupt**: whatever the byte stream (so: whatever was corrupted, anywhere), a
    delivered `(command, payload)` sits in the stream behind a 24-byte header carrying the
    right magic, this payload's length, **this payload's checksum**, and the command -/
theorem never_corrupt (cfg : Cfg) (cksum : Bytes → Bytes) (s c p : Bytes)
    (h : Out.msg c p ∈ decode cfg cksum s) :
    ∃ pre hd post, s = pre ++ (hd ++ (p ++ post)) ∧ hd.length = 24 ∧
      hMagic hd = cfg.magic ∧ hCk hd = cksum p ∧ hLen hd = p.length ∧
      rstripNul (hCmd hd) = c ∧ oversized cfg c p.length = false := by
  obtain ⟨items, rest, e1, e2, e3, _⟩ := decode_spec cfg cksum s.length s rfl
  rw [e3, List.mem_map] at h
  obtain ⟨i, hi, ho⟩ := h
  obtain ⟨as, bs, rfl⟩ := List.append_of_mem hi
  obtain ⟨hl, hb⟩ := e2 i hi
  unfold Item.out at ho
  cases hp : parseHeader cfg i.header with
  | error e => rw [hp] at ho; cases ho
  | ok v =>
    obtain ⟨c', n, ck⟩ := v
    rw [hp] at ho hb
    simp only at ho hb
    split at ho
    · cases ho
    · rename_i hne
      have hck : cksum i.body = ck := by simpa using hne
      simp only [Out.msg.injEq] at ho
      obtain ⟨rfl, rfl⟩ := ho
      obtain ⟨m1, m2, m3, m4, m5⟩ := (parseHeader_ok_iff cfg _ _ _ _).1 hp
      refine ⟨(as.map Item.bytes).flatten, i.header, (bs.map Item.bytes).flatten ++ rest,
        ?_, hl, m1, ?_, ?_, m2.symm, ?_⟩
      · rw [e1]; simp [Item.bytes]
      · rw [← m4, hck]
      · rw [← m3, hb]
      · rw [hb]; exact m5

/-- the reader on chunks: same statement for `run` -/
theorem never_corrupt_chunks (cfg : Cfg) (cksum : Bytes → Bytes) (chunks : List Bytes) (c p : Bytes)
    (h : Out.msg c p ∈ run cfg cksum BQ.empty chunks) :
    ∃ pre hd post, chunks.flatten = pre ++ (hd ++ (p ++ post)) ∧ hd.length = 24 ∧
      hMagic hd = cfg.magic ∧ hCk hd = cksum p ∧ hLen hd = p.length := by
  rw [run_eq_decode cfg cksum _ BQ.empty chunks rfl BQ.empty_inv] at h
  simp only [BQ.stream, BQ.empty, List.flatten_nil, List.nil_append] at h
  obtain ⟨pre, hd, post, a, b, c1, d, e, _⟩ := never_corrupt cfg cksum _ c p h
  exact ⟨pre, hd, post, a, b, c1, d, e⟩

/-- **checksum_error_local**: a message whose checksum does not match raises one
    `BadChecksumError`, consumes 24 + declared-length bytes exactly like a valid one, and what
    follows decodes exactly as it would behind a valid message -/
theorem checksum_error_local (cfg : Cfg) (cksum : Bytes → Bytes) (h body rest c ck : Bytes)
    (n : Nat) (hl : h.length = 24) (hp : parseHeader cfg h = .ok (c, n, ck))
    (hb : body.length = n) :
    (cksum body ≠ ck →
      decode cfg cksum (h ++ (body ++ rest)) = .err .badChecksum :: decode cfg cksum rest) ∧
    (cksum body = ck →
      decode cfg cksum (h ++ (body ++ rest)) = .msg c body :: decode cfg cksum rest) := by
  have := decode_accepted_header cfg cksum h body rest c ck n hl hp hb
  constructor <;> intro hc <;> simp [this, hc]

/-- corruption of the payload of a framed message (any number of flipped bits, same length):
    `BadChecksumError` for that message only — unless the checksums collide, in which case the
    corrupted payload is delivered under its own matching checksum — and the following frames
    are decoded unchanged -/
theorem payload_corruption_local (cfg : Cfg) (cksum : Bytes → Bytes) (hm : cfg.magic.length = 4)
    (hk : CkLaw cksum) (m : Bytes × Bytes) (hs : Sendable cfg m) (p' rest hdr : Bytes)
    (hb : buildHeader cfg cksum m.1 m.2 = .ok hdr) (hlen : p'.length = m.2.length) :
    decode cfg cksum (hdr ++ (p' ++ rest)) =
      (if cksum p' = cksum m.2 then Out.msg m.1 p' else Out.err .badChecksum) ::
        decode cfg cksum rest := by
  have e : rstripNul m.1 = m.1 := rstripNul_of_noTrail _ hs.noNul
  have hsz : oversized cfg (rstripNul m.1) m.2.length = false := by
    rw [e]; exact (block_exception cfg _ _).2 hs.within
  obtain ⟨hl, hparse⟩ := parse_built_header cfg cksum hm hk m.1 m.2 hdr hs.cmdLen hs.lenPack hsz hb
  rw [e] at hparse
  exact decode_accepted_header cfg cksum hdr p' rest _ _ _ hl hparse hlen

/-- a header assembled from any four fields of the right widths, followed by the declared
    number of bytes -/
theorem decode_assembled (cfg : Cfg) (cksum : Bytes → Bytes) (hm : cfg.magic.length = 4)
    (c l k body rest : Bytes) (hc : c.length = 12) (hl : l.length = 4) (hk4 : k.length = 4)
    (hb : body.length = unle l) (hs : oversized cfg (rstripNul c) (unle l) = false) :
    decode cfg cksum (cfg.magic ++ (c ++ (l ++ k)) ++ (body ++ rest)) =
      (if cksum body = k then Out.msg (rstripNul c) body else Out.err .badChecksum) ::
        decode cfg cksum rest := by
  obtain ⟨f1, f2, f3, f4, f5⟩ := fields_of_parts cfg.magic c l k hm hc hl hk4
  have hp : parseHeader cfg (cfg.magic ++ (c ++ (l ++ k))) = .ok (rstripNul c, unle l, k) := by
    rw [parseHeader_ok_iff]
    exact ⟨f1, by rw [f2], f3.symm, f4.symm, hs⟩
  exact decode_accepted_header cfg cksum _ body rest _ _ _ f5 hp hb

/-- corruption of the checksum field of a framed message (any 4 bytes `k` in its place):
    delivered iff `k` is still the payload's checksum, otherwise one `BadChecksumError`; the
    following frames are decoded unchanged either way -/
theorem checksum_field_corruption_local (cfg : Cfg) (cksum : Bytes → Bytes)
    (hm : cfg.magic.length = 4) (m : Bytes × Bytes) (hs : Sendable cfg m) (k rest : Bytes)
    (hk4 : k.length = 4) :
    decode cfg cksum (cfg.magic ++ (m.1 ++ List.replicate (12 - m.1.length) 0 ++
        (le32 m.2.length ++ k)) ++ (m.2 ++ rest)) =
      (if cksum m.2 = k then Out.msg m.1 m.2 else Out.err .badChecksum) ::
        decode cfg cksum rest := by
  have e : rstripNul (m.1 ++ List.replicate (12 - m.1.length) 0) = m.1 := by
    rw [rstripNul_append_zeros, rstripNul_of_noTrail _ hs.noNul]
  have hcl : (m.1 ++ List.replicate (12 - m.1.length) 0).length = 12 := by
    have := hs.cmdLen
    simp; omega
  have hu := unle_le32 _ hs.lenPack
  have := decode_assembled cfg cksum hm _ (le32 m.2.length) k m.2 rest hcl rfl hk4
    (by rw [hu]) (by rw [e, hu]; exact (block_exception cfg _ _).2 hs.within)
  rw [e] at this
  exact this

/-- what `never_corrupt` does **not** give: the checksum covers the payload only.  Whatever 12
    bytes stand in the command field, the payload is delivered under that (stripped) command -/
theorem command_field_unprotected (cfg : Cfg) (cksum : Bytes → Bytes) (hm : cfg.magic.length = 4)
    (hk : CkLaw cksum) (c p rest : Bytes) (hc : c.length = 12) (hp : p.length < 4294967296)
    (hs : oversized cfg (rstripNul c) p.length = false) :
    decode cfg cksum (cfg.magic ++ (c ++ (le32 p.length ++ cksum p)) ++ (p ++ rest)) =
      .msg (rstripNul c) p :: decode cfg cksum rest := by
  have hu := unle_le32 _ hp
  have := decode_assembled cfg cksum hm c (le32 p.length) (cksum p) p rest hc rfl (hk p)
    (by rw [hu]) (by rw [hu]; exact hs)
  simpa using this

/-- a framer whose magic is not 4 bytes wide rejects every header (its own frames included) -/
theorem bad_magic_width (cfg : Cfg) (hm : cfg.magic.length ≠ 4) (h : Bytes) (hl : h.length = 24) :
    parseHeader cfg h = .error .badMagic := by
  rw [parseHeader_badMagic_iff]
  intro e
  apply hm
  rw [← e]
  simp [hMagic, magicW, hl]

/-- the header `frame` puts in front of the payload -/
def hdr (cfg : Cfg) (cksum : Bytes → Bytes) (m : Bytes × Bytes) : Bytes :=
  cfg.magic ++ (m.1 ++ List.replicate (12 - m.1.length) 0 ++ (le32 m.2.length ++ cksum m.2))

/-- a framed message whose payload was possibly replaced in transit by `p'` (same length) -/
def damagedWire (cfg : Cfg) (cksum : Bytes → Bytes) (x : (Bytes × Bytes) × Option Bytes) : Bytes :=
  hdr cfg cksum x.1 ++ x.2.getD x.1.2

/-- what the property promises for it -/
def damagedOut (cksum : Bytes → Bytes) (x : (Bytes × Bytes) × Option Bytes) : Out :=
  match x.2 with
  | none => .msg x.1.1 x.1.2
  | some p' => if cksum p' = cksum x.1.2 then .msg x.1.1 p' else .err .badChecksum

/-- **errors are isolated, for whole sequences**: any sequence of sendable messages, any subset
    of them with a damaged payload, any following bytes: each damaged message yields exactly one
    `BadChecksumError` (or is delivered with the damaged payload if the checksums collide) and
    every other message is delivered intact, in order -/
theorem damaged_sequence (cfg : Cfg) (cksum : Bytes → Bytes) (hm : cfg.magic.length = 4)
    (hk : CkLaw cksum) (xs : List ((Bytes × Bytes) × Option Bytes))
    (hs : ∀ x ∈ xs, Sendable cfg x.1 ∧ ∀ p' ∈ x.2, p'.length = x.1.2.length) (rest : Bytes) :
    decode cfg cksum ((xs.map (damagedWire cfg cksum)).flatten ++ rest) =
      xs.map (damagedOut cksum) ++ decode cfg cksum rest := by
  induction xs with
  | nil => simp
  | cons x xs ih =>
    obtain ⟨s1, s2⟩ := hs x (by simp)
    have hs' : ∀ y ∈ xs, Sendable cfg y.1 ∧ ∀ p' ∈ y.2, p'.length = y.1.2.length :=
      fun y hy => hs y (by simp [hy])
    have hb := (header_layout cfg cksum x.1.1 x.1.2 s1.cmdLen s1.lenPack).1
    simp only [List.map_cons, List.flatten_cons, List.append_assoc, List.cons_append]
    obtain ⟨m, d⟩ := x
    cases d with
    | none =>
      have := payload_corruption_local cfg cksum hm hk m s1 m.2
        ((List.map (damagedWire cfg cksum) xs).flatten ++ rest) _ hb rfl
      simp only [↓reduceIte] at this
      simp only [damagedWire, hdr, Option.getD_none, damagedOut, List.append_assoc]
      simp only [List.append_assoc] at this
      rw [this, ih hs']
    | some p' =>
      have hl : p'.length = m.2.length := s2 p' (by simp)
      have := payload_corruption_local cfg cksum hm hk m s1 p'
        ((List.map (damagedWire cfg cksum) xs).flatten ++ rest) _ hb hl
      simp only [damagedWire, hdr, Option.getD_some, damagedOut, List.append_assoc]
      simp only [List.append_assoc] at this
      rw [this, ih hs']

/-- non-vacuity: a damaged payload that is detected, and one whose checksum collides -/
example : (Sendable cfg0 ([118], [1, 2]) ∧ ∀ p' ∈ (some [3, 2] : Option Bytes), p'.length = 2) ∧
    damagedOut ck0 (([118], [1, 2]), some [3, 2]) = .err .badChecksum ∧
    damagedOut ck0 (([118], [1, 2]), some [1, 9]) = .msg [118] [1, 9] ∧
    damagedOut ck0 (([118], [1, 2]), none) = .msg [118] [1, 2] := by
  refine ⟨⟨⟨by decide, by decide, by decide, by decide⟩, by simp⟩, by decide, by decide, by decide⟩

/-- **magic_size_no_delivery**: wrong magic, or right magic with an over-limit length: one
    error (of the corresponding class, magic tested first), nothing delivered for that header,
    exactly 24 bytes consumed -/
theorem magic_size_no_delivery (cfg : Cfg) (cksum : Bytes → Bytes) (h rest : Bytes)
    (hl : h.length = 24) :
    (hMagic h ≠ cfg.magic →
      decode cfg cksum (h ++ rest) = .err .badMagic :: decode cfg cksum rest) ∧
    (hMagic h = cfg.magic → oversized cfg (rstripNul (hCmd h)) (hLen h) = true →
      decode cfg cksum (h ++ rest) = .err .oversized :: decode cfg cksum rest) := by
  constructor
  · intro hne
    exact decode_rejected_header cfg cksum h rest _ hl ((parseHeader_badMagic_iff cfg h).2 hne)
  · intro he ho
    exact decode_rejected_header cfg cksum h rest _ hl
      ((parseHeader_oversized_iff cfg h).2 ⟨he, ho⟩)

/-- the three outcomes of a header are exhaustive and exclusive -/
theorem header_trichotomy (cfg : Cfg) (h : Bytes) :
    (parseHeader cfg h = .error .badMagic ∧ hMagic h ≠ cfg.magic) ∨
    (parseHeader cfg h = .error .oversized ∧ hMagic h = cfg.magic ∧
      oversized cfg (rstripNul (hCmd h)) (hLen h) = true) ∨
    (parseHeader cfg h = .ok (rstripNul (hCmd h), hLen h, hCk h) ∧ hMagic h = cfg.magic ∧
      oversized cfg (rstripNul (hCmd h)) (hLen h) = false) := by
  by_cases hm : hMagic h = cfg.magic
  · cases ho : oversized cfg (rstripNul (hCmd h)) (hLen h) with
    | true => exact Or.inr (Or.inl ⟨(parseHeader_oversized_iff cfg h).2 ⟨hm, ho⟩, hm, rfl⟩)
    | false =>
      exact Or.inr (Or.inr ⟨(parseHeader_ok_iff cfg h _ _ _).2 ⟨hm, rfl, rfl, rfl, ho⟩, hm, rfl⟩)
  · exact Or.inl ⟨(parseHeader_badMagic_iff cfg h).2 hm, hm⟩

/-- non-vacuity for the three theorems above: a bad-checksum frame between two good ones -/
example : decode cfg0 ck0
    (wire cfg0 ck0 ([118], [1]) ++
      ((cfg0.magic ++ ([120] ++ List.replicate 11 0 ++ (le32 2 ++ [0, 0, 0, 0]))) ++ ([5, 6] ++
        (wire cfg0 ck0 ([119], [2, 3]) ++ [])))) =
    [.msg [118] [1], .err .badChecksum, .msg [119] [2, 3]] := by
  rw [decode_wire cfg0 ck0 rfl ck0_law _ (by decide) (by decide) (by decide)]
  rw [(checksum_error_local cfg0 ck0 _ [5, 6] _ [120] [0, 0, 0, 0] 2 (by decide) (by decide)
        (by decide)).1 (by decide)]
  rw [decode_wire cfg0 ck0 rfl ck0_law _ (by decide) (by decide) (by decide)]
  rw [(decode_incomplete cfg0 ck0).1 [] (by decide)]
  decide

/-! ## 5. Chunking independence -/

/-- the reader's output is the decoding of the concatenation of the chunks -/
theorem run_concat (cfg : Cfg) (cksum : Bytes → Bytes) (chunks : List Bytes) :
    run cfg cksum BQ.empty chunks = decode cfg cksum chunks.flatten := by
  rw [run_eq_decode cfg cksum _ BQ.empty chunks rfl BQ.empty_inv]
  simp [BQ.stream, BQ.empty]

/-- **chunking_independent**: two chunkings of the same byte stream give the same outputs -/
theorem chunking_independent (cfg : Cfg) (cksum : Bytes → Bytes) (cs cs' : List Bytes)
    (h : cs.flatten = cs'.flatten) :
    run cfg cksum BQ.empty cs = run cfg cksum BQ.empty cs' := by
  rw [run_concat, run_concat, h]

/-- more data never retracts or alters what has been produced (so the outputs observed while
    chunks are still arriving are a prefix of the final outputs) -/
theorem run_monotone (cfg : Cfg) (cksum : Bytes → Bytes) (cs more : List Bytes) :
    run cfg cksum BQ.empty cs <+: run cfg cksum BQ.empty (cs ++ more) := by
  rw [run_concat, run_concat, List.flatten_append]
  exact decode_prefix cfg cksum _ _ _ rfl

/-- incremental = batch: after any received prefix `a` the reader is left with an incomplete
    rest (a suffix of `a`: the bytes of the message it is waiting to complete), and whatever
    arrives later is decoded exactly as if that rest and the new bytes had arrived together.
    (The reader coroutine itself is a deterministic function of the FIFO chunk sequence; this is
    the statement that lets the reader run *while* chunks are still arriving.) -/
theorem decode_incremental (cfg : Cfg) (cksum : Bytes → Bytes) (a : Bytes) :
    ∃ pre rest, a = pre ++ rest ∧ step cfg cksum rest = none ∧ decode cfg cksum rest = [] ∧
      ∀ b, decode cfg cksum (a ++ b) = decode cfg cksum a ++ decode cfg cksum (rest ++ b) := by
  obtain ⟨items, rest, e1, e2, e3, e4⟩ := decode_spec cfg cksum a.length a rfl
  refine ⟨(items.map Item.bytes).flatten, rest, e1, e4, by rw [decode_eq, e4], ?_⟩
  intro b
  rw [e3]
  conv => lhs; rw [e1, List.append_assoc]
  exact decode_items cfg cksum items e2 (rest ++ b)

example : ([[1, 2], [], [3]] : List Bytes).flatten = ([[1], [2, 3]] : List Bytes).flatten := by
  decide

/-! ## 6. Session policy -/

/-- does this outcome make the session close the connection? -/
def fatal : Out → Bool
  | .err e => (policy e).close
  | .msg _ _ => false

def isErr : Out → Bool
  | .err _ => true
  | .msg _ _ => false

def msgOf : Out → Option (Bytes × Bytes)
  | .msg c p => some (c, p)
  | .err _ => none

/-- the outcomes the loop gets to see: up to and including the first fatal one -/
def upToFatal : List Out → List Out
  | [] => []
  | o :: r => if fatal o then [o] else o :: upToFatal r

/-- the decision table: every framing error is counted exactly once; the connection is closed
    exactly for `BadMagicError` and `OversizedPayloadError` -/
theorem policy_table (e : FrameErr) :
    (policy e).bump = 1 ∧ ((policy e).close = true ↔ e = .badMagic ∨ e = .oversized) := by
  cases e <;> simp [policy]

theorem sessRun_spec (outs : List Out) : ∀ s : Sess, s.closed = false →
    (sessRun outs s).errors = s.errors + ((upToFatal outs).filter isErr).length ∧
    (sessRun outs s).closed = outs.any fatal ∧
    (sessRun outs s).delivered = s.delivered ++ (upToFatal outs).filterMap msgOf := by
  induction outs with
  | nil => intro s hs; simp [sessRun, upToFatal, hs]
  | cons o r ih =>
    intro s hs
    cases o with
    | msg c p =>
      obtain ⟨a, b, c'⟩ := ih { s with delivered := s.delivered ++ [(c, p)] } hs
      simp only [sessRun, upToFatal, fatal, Bool.false_eq_true, ↓reduceIte, List.any_cons,
        Bool.false_or]
      refine ⟨?_, b, ?_⟩
      · rw [a]; simp [isErr]
      · rw [c']; simp [msgOf]
    | err e =>
      cases e with
      | badChecksum =>
        obtain ⟨a, b, c'⟩ := ih { s with errors := s.errors + 1, closed := s.closed || false }
          (by simp [hs])
        simp only [sessRun, policy, upToFatal, fatal, Bool.false_eq_true, ↓reduceIte,
          List.any_cons, Bool.false_or]
        refine ⟨?_, b, ?_⟩
        · rw [a]; simp [List.filter_cons, isErr]; omega
        · rw [c']; simp [List.filterMap_cons, msgOf]
      | badMagic =>
        simp [sessRun, policy, upToFatal, fatal, List.filter_cons, List.filterMap_cons, isErr,
          msgOf, hs]
      | oversized =>
        simp [sessRun, policy, upToFatal, fatal, List.filter_cons, List.filterMap_cons, isErr,
          msgOf, hs]

/-- **session_policy**: started fresh on any sequence of framer outcomes, the session's `errors`
    is the number of framing errors up to and including the first magic/size error (each counted
    once), it requested `close` iff there was a magic/size error, and `handle_message` saw
    exactly the messages delivered before that point, in order -/
theorem session_policy (outs : List Out) :
    (sessRun outs Sess.init).errors = ((upToFatal outs).filter isErr).length ∧
    (sessRun outs Sess.init).closed = outs.any fatal ∧
    (sessRun outs Sess.init).delivered = (upToFatal outs).filterMap msgOf := by
  have := sessRun_spec outs Sess.init rfl
  simpa [Sess.init] using this

/-- without a magic/size error nothing is cut off: all errors are counted, all messages are
    handled, the connection stays open -/
theorem session_no_fatal (outs : List Out) (h : outs.any fatal = false) :
    (sessRun outs Sess.init).errors = (outs.filter isErr).length ∧
    (sessRun outs Sess.init).closed = false ∧
    (sessRun outs Sess.init).delivered = outs.filterMap msgOf := by
  have e : upToFatal outs = outs := by
    induction outs with
    | nil => rfl
    | cons o r ih =>
      simp only [List.any_cons, Bool.or_eq_false_iff] at h
      simp [upToFatal, h.1, ih h.2]
  obtain ⟨a, b, c⟩ := session_policy outs
  rw [e] at a c
  exact ⟨a, by rw [b, h], c⟩

/-- end to end for the "mismatch raises for that message only" clause: a session fed (in any
    chunking) a sequence of sendable frames some of which have a damaged payload counts one
    error per mismatching frame, stays open, and handles every other message, in order -/
theorem session_damaged_sequence (cfg : Cfg) (cksum : Bytes → Bytes) (hm : cfg.magic.length = 4)
    (hk : CkLaw cksum) (xs : List ((Bytes × Bytes) × Option Bytes))
    (hs : ∀ x ∈ xs, Sendable cfg x.1 ∧ ∀ p' ∈ x.2, p'.length = x.1.2.length)
    (chunks : List Bytes) (hc : chunks.flatten = (xs.map (damagedWire cfg cksum)).flatten) :
    let s := sessRun (run cfg cksum BQ.empty chunks) Sess.init
    s.errors = ((xs.map (damagedOut cksum)).filter isErr).length ∧ s.closed = false ∧
    s.delivered = (xs.map (damagedOut cksum)).filterMap msgOf := by
  have e : run cfg cksum BQ.empty chunks = xs.map (damagedOut cksum) := by
    rw [run_concat, hc]
    have := damaged_sequence cfg cksum hm hk xs hs []
    simp only [List.append_nil] at this
    rw [this, (decode_incomplete cfg cksum).1 [] (by decide), List.append_nil]
  have nf : (xs.map (damagedOut cksum)).any fatal = false := by
    rw [List.any_eq_false]
    intro o ho
    rw [List.mem_map] at ho
    obtain ⟨x, _, rfl⟩ := ho
    obtain ⟨m, d⟩ := x
    cases d with
    | none => simp [damagedOut, fatal]
    | some p' =>
      simp only [damagedOut]
      split <;> simp [fatal, policy]
  simp only
  rw [e]
  exact session_no_fatal _ nf

/-- end to end: the session on a chunked byte stream depends only on the concatenation -/
theorem session_chunking_independent (cfg : Cfg) (cksum : Bytes → Bytes) (cs cs' : List Bytes)
    (h : cs.flatten = cs'.flatten) :
    sessRun (run cfg cksum BQ.empty cs) Sess.init = sessRun (run cfg cksum BQ.empty cs') Sess.init := by
  rw [chunking_independent cfg cksum cs cs' h]

example : sessRun [.msg [1] [], .err .badChecksum, .msg [2] [], .err .oversized, .msg [3] []]
    Sess.init = ⟨2, true, [([1], []), ([2], [])]⟩ := by decide

/-! ## 7. Facts read from the current source tree -/

/-- outcome code used by the generated decision grid -/
def gridCode : Except FrameErr (Bytes × Nat × Bytes) → Nat
  | .ok _ => 0
  | .error .badMagic => 1
  | .error .oversized => 2
  | .error .badChecksum => 3

/-- `Struct('<4s12sI4s')`: little-endian, no padding, fields of 4, 12, 4, 4 bytes read as bytes,
    bytes, unsigned int, bytes; the header read is 24 bytes -/
theorem facts_struct :
    Facts.C07.unpackOrder = '<' ∧
    Facts.C07.unpackItems = [(magicW, 's'), (cmdW, 's'), (1, 'I'), (ckW, 's')] ∧
    Facts.C07.unpackItemSizes = [magicW, cmdW, lenW, ckW] ∧
    Facts.C07.unpackSize = headerLen ∧
    Facts.C07.headerReceiveSizes = [headerLen] := by decide

/-- `pack_le_uint32` is `Struct('<I').pack`: little-endian, fails from 2^32 on -/
theorem facts_pack :
    Facts.C07.packIsLE32 = true ∧
    packLe32 Facts.C07.packMaxOk = .ok (le32 Facts.C07.packMaxOk) ∧
    packLe32 Facts.C07.packFirstBad = .error .structError ∧
    Facts.C07.packFirstBad = Facts.C07.packMaxOk + 1 ∧
    le32 0x04030201 = Facts.C07.packSample := by decide

/-- `_pad_command` accepts exactly lengths 0..12 and pads with NUL bytes to 12 -/
theorem facts_pad :
    Facts.C07.padOkLengths = List.range (cmdW + 1) ∧
    padCommand [97, 98] = .ok Facts.C07.padSample := by decide

/-- `_checksum` is the first 4 bytes of the double SHA-256 -/
theorem facts_checksum :
    Facts.C07.checksumIsDoubleSha4 = true ∧ Facts.C07.checksumLengths = [ckW] := by decide

/-- the literals of `_receive_header` -/
theorem facts_literals :
    Facts.C07.rstripArg = [0] ∧ Facts.C07.blockLiteral = blockCmd := by decide

/-- the real `_receive_header`, run on a grid of headers (every command variant × every declared
    length from 0 to two past the larger limit, for three limit configurations; every single-bit
    corruption of the magic with a small and an over-limit length), decides as `parseHeader` -/
theorem facts_grid :
    Facts.C07.grid.all (fun g =>
      gridCode (parseHeader ⟨Facts.C07.gridMagic, g.1, g.2.1⟩ g.2.2.1) == g.2.2.2) = true := by
  decide +kernel

/-- a header built by the real `_build_header` is the model's header for the same inputs -/
theorem facts_sample_header :
    buildHeader ⟨Facts.C07.gridMagic, 0, 0⟩ (fun _ => Facts.C07.sampleChecksum) [118, 101, 114]
      Facts.C07.samplePayload = .ok Facts.C07.sampleHeader := by decide

/-- a frame built by the real `frame()` is the model's frame (header, then payload) -/
theorem facts_sample_frame :
    frame ⟨Facts.C07.gridMagic, 0, 0⟩ (fun _ => Facts.C07.sampleChecksum) [118, 101, 114]
      Facts.C07.samplePayload = .ok Facts.C07.sampleFrame := by decide

/-- the handlers that unpack `e.args` expect as many values as every `raise` site of that class
    supplies (otherwise the handler itself would fail before `_bump_errors`) -/
theorem facts_exception_args :
    [Facts.C07.argsBadMagic, Facts.C07.argsOversized, Facts.C07.argsBadChecksum].all
      (fun a => a.2 == -1 || a.1.all (fun n => (n : Int) == a.2)) = true := by decide

/-- the `except` ladder of `MessageSession._process_messages_loop`, resolved against the live
    exception classes: each of the three framing errors is caught, its handler calls
    `_bump_errors` as often as `policy` says, requests `close` iff `policy` says so, and does
    not leave the `while True` loop; the `else` branch hands the message to `handle_message`
    without touching `errors`; nothing catches plain `Exception` (so `ConnectionLostError`
    ends the loop) -/
theorem facts_ladder :
    Facts.C07.ladderFound = true ∧ Facts.C07.loopForever = true ∧
    Facts.C07.catchesGeneric = false ∧ Facts.C07.errorsPerBump = 1 ∧
    (∀ e : FrameErr,
      let arm := match e with
        | .badMagic => Facts.C07.armBadMagic
        | .oversized => Facts.C07.armOversized
        | .badChecksum => Facts.C07.armBadChecksum
      0 ≤ arm.1 ∧ arm.2.1 = (policy e).bump ∧ (decide (0 < arm.2.2.1)) = (policy e).close ∧
      arm.2.2.2 = 0) ∧
    Facts.C07.armElse = (0, 0, 0, 1) ∧ Facts.C07.throttledCallsHandleMessage = 1 := by
  refine ⟨by decide, by decide, by decide, by decide, ?_, by decide, by decide⟩
  intro e
  cases e <;> decide

/-- the defaults: 4-byte magic (so the general theorems apply to `BitcoinFramer()`), and
    `MessageSession.default_framer()` is a `BitcoinFramer` -/
theorem facts_defaults :
    Facts.C07.defaultMagic.length = magicW ∧ Facts.C07.defaultFramerIsBitcoin = true := by decide

/-- the round trip instantiated with the defaults read from the source -/
theorem frame_roundtrip_defaults (cksum : Bytes → Bytes) (hk : CkLaw cksum)
    (msgs : List (Bytes × Bytes))
    (hs : ∀ m ∈ msgs, Sendable ⟨Facts.C07.defaultMagic, Facts.C07.maxPayloadSize,
      Facts.C07.maxBlockSize⟩ m)
    (chunks : List Bytes)
    (hc : chunks.flatten = (msgs.map (wire ⟨Facts.C07.defaultMagic, Facts.C07.maxPayloadSize,
      Facts.C07.maxBlockSize⟩ cksum)).flatten) :
    run ⟨Facts.C07.defaultMagic, Facts.C07.maxPayloadSize, Facts.C07.maxBlockSize⟩ cksum
      BQ.empty chunks = msgs.map (fun m => Out.msg m.1 m.2) :=
  (frame_roundtrip _ cksum facts_defaults.1 hk msgs hs chunks hc).2

end Aiorpcx.C07
