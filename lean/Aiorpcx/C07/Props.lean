import Aiorpcx.C07.Stream
import Aiorpcx.Facts.C07
/-!
# C07 — property theorems for the Bitcoin framer and the `MessageSession` error policy

Model (`Model.lean`, mirrors `framing.py:119-267`, `session.py:272-304`):
* `run cfg cksum BQ.empty chunks` = the values / exceptions of successive
  `BitcoinFramer.receive_message()` calls when `chunks` arrive in that order
  (`ByteQueue` state `parts`/`parts_len` included);
* `decode cfg cksum stream` = the same on a byte stream (specification level);
* `frame` / `buildHeader` = `BinaryFramer.frame` / `BitcoinFramer._build_header`;
* `sessRun` = what `MessageSession._process_messages_loop` does with each outcome.

`cksum : Bytes → Bytes` (double SHA-256, first four bytes) is a parameter; the only law used is
`CkLaw cksum : ∀ p, (cksum p).length = 4`.  Collision resistance is **not** claimed: what is
proved is "never delivered unless the checksum matches".  Everything is quantified over all
configurations (magic, limits), all byte streams, all chunkings (empty chunks included).
-/
namespace Aiorpcx.C07

/-- the single law assumed of the checksum function -/
def CkLaw (cksum : Bytes → Bytes) : Prop := ∀ p, (cksum p).length = 4

/-- a checksum function for the non-vacuity examples: length mod 256, first byte, 7, 7 -/
def ck0 : Bytes → Bytes := fun p => [UInt8.ofNat p.length, p.headD 0, 7, 7]
theorem ck0_law : CkLaw ck0 := fun _ => rfl
/-- a configuration for the examples (magic test first, as in the pinned code) -/
def cfg0 : Cfg := ⟨[0xe3, 0xe1, 0xf3, 0xe8], 5, 9, false⟩
/-- the same with the size test first -/
def cfg1 : Cfg := ⟨[0xe3, 0xe1, 0xf3, 0xe8], 5, 9, true⟩

/-! ## 1. Header layout -/

/-- the bytes `frame((cmd, payload))` puts on the wire when it does not raise -/
def wire (cfg : Cfg) (cksum : Bytes → Bytes) (m : Bytes × Bytes) : Bytes :=
  cfg.magic ++ (m.1 ++ List.replicate (12 - m.1.length) 0 ++ (le32 m.2.length ++ cksum m.2)) ++ m.2

/-- **header_layout**: for a command of at most 12 bytes and a payload shorter than 2^32 the
    header is magic ++ command zero-padded to 12 ++ little-endian length ++ checksum, and the
    frame is header ++ payload -/
theorem header_layout (cfg : Cfg) (cksum : Bytes → Bytes) (cmd payload : Bytes)
    (hc : cmd.length ≤ 12) (hp : payload.length < 4294967296) :
    buildHeader cfg cksum cmd payload =
      .ok (cfg.magic ++ (cmd ++ List.replicate (12 - cmd.length) 0 ++
        (le32 payload.length ++ cksum payload))) ∧
    frame cfg cksum cmd payload = .ok (wire cfg cksum (cmd, payload)) := by
  have h1 : ¬ 12 < cmd.length := by omega
  simp [frame, buildHeader, padCommand, packLe32, h1, hp, wire, cmdW]

/-- the header is 24 bytes and its four fields read back as what was put in
    (the length as a number: `unle ∘ le32 = id` below 2^32) -/
theorem header_fields (cfg : Cfg) (cksum : Bytes → Bytes) (hm : cfg.magic.length = 4)
    (hk : CkLaw cksum) (cmd payload : Bytes) (hc : cmd.length ≤ 12)
    (hp : payload.length < 4294967296) (h : Bytes)
    (hb : buildHeader cfg cksum cmd payload = .ok h) :
    h.length = 24 ∧ hMagic h = cfg.magic ∧
    hCmd h = cmd ++ List.replicate (12 - cmd.length) 0 ∧
    hLen h = payload.length ∧ hCk h = cksum payload := by
  rw [(header_layout cfg cksum cmd payload hc hp).1] at hb
  simp only [Except.ok.injEq] at hb
  subst hb
  have hcl : (cmd ++ List.replicate (12 - cmd.length) 0).length = 12 := by simp; omega
  obtain ⟨f1, f2, f3, f4, f5⟩ :=
    fields_of_parts cfg.magic _ (le32 payload.length) (cksum payload) hm hcl rfl (hk payload)
  exact ⟨f5, f1, f2, by rw [f3, unle_le32 _ hp], f4⟩

/-- `frame` raises exactly for a command over 12 bytes (`ValueError`, tested first) or a payload
    of 2^32 bytes or more (`struct.error`) -/
theorem frame_errors (cfg : Cfg) (cksum : Bytes → Bytes) (cmd payload : Bytes) :
    (12 < cmd.length → frame cfg cksum cmd payload = .error .valueError) ∧
    (cmd.length ≤ 12 → 4294967296 ≤ payload.length →
      frame cfg cksum cmd payload = .error .structError) := by
  constructor
  · intro h
    simp [frame, buildHeader, padCommand, cmdW, h]
  · intro h1 h2
    have h1' : ¬ cmd.length > cmdW := by simp [cmdW]; omega
    have h2' : ¬ payload.length < 4294967296 := by omega
    simp [frame, buildHeader, padCommand, packLe32, h1', h2']

example : frame cfg0 ck0 [1, 2] [9] =
    .ok ([0xe3, 0xe1, 0xf3, 0xe8] ++ [1, 2, 0, 0, 0, 0, 0, 0, 0, 0, 0, 0] ++ [1, 0, 0, 0] ++
         [1, 9, 7, 7] ++ [9]) := by decide
example : frame cfg0 ck0 (List.replicate 13 65) [] = .error .valueError := by decide

/-- `le32`/`unle` are inverse below 2^32 / on 4-byte strings -/
theorem le32_inverse : (∀ n, n < 4294967296 → unle (le32 n) = n) ∧
    (∀ b : Bytes, b.length = 4 → le32 (unle b) = b) :=
  ⟨unle_le32, le32_unle⟩

/-! ## 2. What one header (plus payload) at the front of a stream decodes to -/

/-- a header that `_receive_header` rejects: the error is raised, exactly the 24 header bytes
    are consumed, and decoding continues right behind them -/
theorem decode_rejected_header (cfg : Cfg) (cksum : Bytes → Bytes) (h rest : Bytes) (e : FrameErr)
    (hl : h.length = 24) (hp : parseHeader cfg h = .error e) :
    decode cfg cksum (h ++ rest) = .err e :: decode cfg cksum rest := by
  have hw : Item.WF cfg ⟨h, []⟩ := ⟨hl, by simp [hp]⟩
  have := decode_item cfg cksum ⟨h, []⟩ hw rest
  simpa [Item.bytes, Item.out, hp] using this

/-- a header that is accepted, followed by the declared number of bytes: one outcome
    (delivered iff the checksum matches), exactly 24 + declared length bytes consumed -/
theorem decode_accepted_header (cfg : Cfg) (cksum : Bytes → Bytes) (h body rest c ck : Bytes)
    (n : Nat) (hl : h.length = 24) (hp : parseHeader cfg h = .ok (c, n, ck))
    (hb : body.length = n) :
    decode cfg cksum (h ++ (body ++ rest)) =
      (if cksum body = ck then Out.msg c body else Out.err .badChecksum) ::
        decode cfg cksum rest := by
  have hw : Item.WF cfg ⟨h, body⟩ := ⟨hl, by simp [hp, hb]⟩
  have := decode_item cfg cksum ⟨h, body⟩ hw rest
  simp only [Item.bytes, Item.out, hp, List.append_assoc] at this
  rw [this]
  by_cases hc : cksum body = ck <;> simp [hc]

/-- nothing is produced while the header or the declared payload is incomplete -/
theorem decode_incomplete (cfg : Cfg) (cksum : Bytes → Bytes) :
    (∀ s : Bytes, s.length < 24 → decode cfg cksum s = []) ∧
    (∀ (h tail c ck : Bytes) (n : Nat), h.length = 24 → parseHeader cfg h = .ok (c, n, ck) →
      tail.length < n → decode cfg cksum (h ++ tail) = []) := by
  constructor
  · intro s hs
    rw [decode_eq, step_none_short cfg cksum s hs]
  · intro h tail c ck n hl hp ht
    have h1 : ¬ (h ++ tail).length < headerLen := by simp [headerLen, hl]
    have h2 : (h ++ tail).take headerLen = h := List.take_left' hl
    have h3 : (h ++ tail).drop headerLen = tail := List.drop_left' hl
    rw [decode_eq, step]
    simp only [h1, ↓reduceIte, h2, h3, hp, ht]

/-! ## 3. Round trip -/

/-- a message the property quantifies over: command of at most 12 bytes that does not end in
    NUL, payload length representable in 32 bits and within the receiver's limit (or a `block`
    within the block limit) -/
structure Sendable (cfg : Cfg) (m : Bytes × Bytes) : Prop where
  cmdLen : m.1.length ≤ 12
  noNul : NoTrailNul m.1
  lenPack : m.2.length < 4294967296
  within : m.2.length ≤ cfg.maxPayload ∨ (m.1 = blockCmd ∧ m.2.length ≤ cfg.maxBlock)

/-- **block_exception**: the exact acceptance condition of a declared length -/
theorem block_exception (cfg : Cfg) (cmd : Bytes) (n : Nat) :
    oversized cfg cmd n = false ↔ n ≤ cfg.maxPayload ∨ (cmd = blockCmd ∧ n ≤ cfg.maxBlock) := by
  unfold oversized
  by_cases h1 : n > cfg.maxPayload
  · simp only [h1, ↓reduceIte, Bool.or_eq_false_iff, bne_eq_false_iff_eq, decide_eq_false_iff_not]
    constructor
    · rintro ⟨a, b⟩; exact Or.inr ⟨a, by omega⟩
    · rintro (a | ⟨a, b⟩)
      · omega
      · exact ⟨a, by omega⟩
  · simp only [h1, ↓reduceIte, true_iff]
    exact Or.inl (by omega)

/-- boundary arithmetic around `max_payload_size` and `max_block_size`: the limit itself is
    accepted for every command; one more is rejected unless the command is exactly `block`;
    for `block` the block limit itself is accepted and one more is rejected -/
theorem size_boundaries (cfg : Cfg) (cmd : Bytes) :
    oversized cfg cmd cfg.maxPayload = false ∧
    (cmd ≠ blockCmd → oversized cfg cmd (cfg.maxPayload + 1) = true) ∧
    (cfg.maxPayload < cfg.maxBlock → oversized cfg blockCmd cfg.maxBlock = false ∧
      oversized cfg blockCmd (cfg.maxBlock + 1) = true) ∧
    (cfg.maxBlock ≤ cfg.maxPayload → oversized cfg blockCmd (cfg.maxPayload + 1) = true) := by
  refine ⟨?_, ?_, ?_, ?_⟩
  · exact (block_exception cfg cmd _).2 (Or.inl (Nat.le_refl _))
  · intro hne
    cases h : oversized cfg cmd (cfg.maxPayload + 1) with
    | true => rfl
    | false =>
      rcases (block_exception cfg cmd _).1 h with a | ⟨a, _⟩
      · omega
      · exact absurd a hne
  · intro hlt
    constructor
    · exact (block_exception cfg blockCmd _).2 (Or.inr ⟨rfl, Nat.le_refl _⟩)
    · cases h : oversized cfg blockCmd (cfg.maxBlock + 1) with
      | true => rfl
      | false =>
        rcases (block_exception cfg blockCmd _).1 h with a | ⟨_, a⟩ <;> omega
  · intro hle
    cases h : oversized cfg blockCmd (cfg.maxPayload + 1) with
    | true => rfl
    | false =>
      rcases (block_exception cfg blockCmd _).1 h with a | ⟨_, a⟩ <;> omega

example : oversized cfg0 [1] 5 = false ∧ oversized cfg0 [1] 6 = true ∧
    oversized cfg0 blockCmd 9 = false ∧ oversized cfg0 blockCmd 10 = true ∧
    oversized cfg0 (blockCmd ++ [115]) 6 = true := by decide

/-- the header of any frameable message parses back to the command *with trailing NULs
    stripped*, the payload length and the payload's checksum, provided the length passes the
    size test -/
theorem parse_built_header (cfg : Cfg) (cksum : Bytes → Bytes) (hm : cfg.magic.length = 4)
    (hk : CkLaw cksum) (cmd payload h : Bytes) (hc : cmd.length ≤ 12)
    (hp : payload.length < 4294967296)
    (hs : oversized cfg (rstripNul cmd) payload.length = false)
    (hb : buildHeader cfg cksum cmd payload = .ok h) :
    h.length = 24 ∧
    parseHeader cfg h = .ok (rstripNul cmd, payload.length, cksum payload) := by
  obtain ⟨f5, f1, f2, f3, f4⟩ := header_fields cfg cksum hm hk cmd payload hc hp h hb
  refine ⟨f5, ?_⟩
  rw [parseHeader_ok_iff]
  refine ⟨f1, ?_, f3.symm, f4.symm, hs⟩
  rw [f2, rstripNul_append_zeros]

/-- decoding a frame followed by anything: the message with the command stripped of trailing
    NULs, then the decoding of what follows -/
theorem decode_wire (cfg : Cfg) (cksum : Bytes → Bytes) (hm : cfg.magic.length = 4)
    (hk : CkLaw cksum) (m : Bytes × Bytes) (hc : m.1.length ≤ 12) (hp : m.2.length < 4294967296)
    (hs : oversized cfg (rstripNul m.1) m.2.length = false) (rest : Bytes) :
    decode cfg cksum (wire cfg cksum m ++ rest) =
      .msg (rstripNul m.1) m.2 :: decode cfg cksum rest := by
  obtain ⟨cmd, payload⟩ := m
  have hb := (header_layout cfg cksum cmd payload hc hp).1
  obtain ⟨hl, hparse⟩ := parse_built_header cfg cksum hm hk cmd payload _ hc hp hs hb
  have := decode_accepted_header cfg cksum _ payload rest _ _ _ hl hparse rfl
  simp only [↓reduceIte] at this
  simp only [wire, List.append_assoc] at this ⊢
  exact this

/-- **frame_roundtrip**: every sequence of sendable messages, framed, concatenated and cut into
    chunks in any way (empty chunks allowed), is received as exactly that sequence -/
theorem frame_roundtrip (cfg : Cfg) (cksum : Bytes → Bytes) (hm : cfg.magic.length = 4)
    (hk : CkLaw cksum) (msgs : List (Bytes × Bytes)) (hs : ∀ m ∈ msgs, Sendable cfg m)
    (chunks : List Bytes) (hc : chunks.flatten = (msgs.map (wire cfg cksum)).flatten) :
    (∀ m ∈ msgs, frame cfg cksum m.1 m.2 = .ok (wire cfg cksum m)) ∧
    run cfg cksum BQ.empty chunks = msgs.map (fun m => Out.msg m.1 m.2) := by
  constructor
  · intro m hmem
    exact (header_layout cfg cksum m.1 m.2 (hs m hmem).cmdLen (hs m hmem).lenPack).2
  · rw [run_eq_decode cfg cksum _ BQ.empty chunks rfl BQ.empty_inv]
    simp only [BQ.stream, BQ.empty, List.flatten_nil, List.nil_append, hc]
    clear hc
    induction msgs with
    | nil => simp [decode_incomplete]
    | cons m ms ih =>
      have s1 := hs m (by simp)
      have hs' : ∀ x ∈ ms, Sendable cfg x := fun x hx => hs x (by simp [hx])
      have e : rstripNul m.1 = m.1 := rstripNul_of_noTrail _ s1.noNul
      have hsz : oversized cfg (rstripNul m.1) m.2.length = false := by
        rw [e]; exact (block_exception cfg _ _).2 s1.within
      simp only [List.map_cons, List.flatten_cons]
      rw [decode_wire cfg cksum hm hk m s1.cmdLen s1.lenPack hsz, e, ih hs']

/-- non-vacuity: two sendable messages (one a `block` above the ordinary limit) -/
example : Sendable cfg0 ([118], [1, 2, 3]) ∧ Sendable cfg0 (blockCmd, List.replicate 8 0) := by
  refine ⟨⟨by decide, by decide, by decide, by decide⟩, ⟨by decide, by decide, by decide, by decide⟩⟩

/-! ### F17: a command ending in NUL cannot be expressed on the wire (known finding) -/

/-- the full-strength round trip the property text asks for ("any command of at most 12 bytes") -/
def frame_roundtrip_full : Prop :=
  ∀ (cfg : Cfg) (cksum : Bytes → Bytes), cfg.magic.length = 4 → CkLaw cksum →
    ∀ m : Bytes × Bytes, m.1.length ≤ 12 → m.2.length < 4294967296 →
      oversized cfg m.1 m.2.length = false →
      decode cfg cksum (wire cfg cksum m) = [.msg m.1 m.2]

/-- witness: `frame((b'ab\0', b''))` fed back yields command `b'ab'` -/
theorem trailing_nul_witness :
    decode cfg0 ck0 (wire cfg0 ck0 ([97, 98, 0], [])) = [.msg [97, 98] []] := by
  have := decode_wire cfg0 ck0 rfl ck0_law ([97, 98, 0], []) (by decide) (by decide) (by decide) []
  simp only [List.append_nil] at this
  rw [this, (decode_incomplete cfg0 ck0).1 [] (by decide)]
  decide

theorem frame_roundtrip_full_fails : ¬ frame_roundtrip_full := by
  intro h
  have h1 := h cfg0 ck0 rfl ck0_law ([97, 98, 0], []) (by decide) (by decide) (by decide)
  rw [trailing_nul_witness] at h1
  revert h1
  decide

/-- why no repair exists: a command and the same command with a NUL appended have the *same*
    wire bytes, so no receiver can tell them apart -/
theorem wire_not_injective (cfg : Cfg) (cksum : Bytes → Bytes) (cmd payload : Bytes)
    (h : cmd.length < 12) :
    wire cfg cksum (cmd ++ [0], payload) = wire cfg cksum (cmd, payload) := by
  have e : 12 - cmd.length = (12 - (cmd.length + 1)) + 1 := by omega
  simp only [wire, List.length_append, List.length_cons, List.length_nil, Nat.zero_add]
  rw [e, List.replicate_succ]
  simp

/-- what does hold for every frameable command: it comes back stripped of trailing NULs -/
theorem frame_roundtrip_partial (cfg : Cfg) (cksum : Bytes → Bytes) (hm : cfg.magic.length = 4)
    (hk : CkLaw cksum) (m : Bytes × Bytes) (hc : m.1.length ≤ 12) (hp : m.2.length < 4294967296)
    (hs : oversized cfg (rstripNul m.1) m.2.length = false) :
    decode cfg cksum (wire cfg cksum m) = [.msg (rstripNul m.1) m.2] := by
  have := decode_wire cfg cksum hm hk m hc hp hs []
  simp only [List.append_nil] at this
  rw [this, (decode_incomplete cfg cksum).1 [] (by decide)]

/-! ## 4. Never corrupt, stay in sync -/

/-- **never_corrupt**: whatever the byte stream (so: whatever was corrupted, anywhere), a
    delivered `(command, payload)` sits in the stream behind a 24-byte header carrying the
    right magic, this payload's length, **this payload's checksum**, and the command - and that
    header stands exactly where the decoder was after the earlier outcomes: what precedes it is
    the concatenation of the items (header + consumed bytes) of the outcomes before it, what
    follows the payload is decoded next. -/
theorem never_corrupt (cfg : Cfg) (cksum : Bytes → Bytes) (s c p : Bytes)
    (h : Out.msg c p ∈ decode cfg cksum s) :
    ∃ (items : List Item) (hd post : Bytes),
      s = (items.map Item.bytes).flatten ++ (hd ++ (p ++ post)) ∧
      (∀ i ∈ items, i.WF cfg) ∧
      decode cfg cksum s =
        items.map (Item.out cfg cksum) ++ Out.msg c p :: decode cfg cksum post ∧
      hd.length = 24 ∧
      hMagic hd = cfg.magic ∧ hCk hd = cksum p ∧ hLen hd = p.length ∧
      rstripNul (hCmd hd) = c ∧ oversized cfg c p.length = false := by
  obtain ⟨items, rest, e1, e2, e3, e4⟩ := decode_spec cfg cksum s.length s rfl
  have h' := h
  rw [e3, List.mem_map] at h'
  obtain ⟨i, hi, ho⟩ := h'
  obtain ⟨as, bs, rfl⟩ := List.append_of_mem hi
  obtain ⟨hl, hb⟩ := e2 i hi
  have ho' := ho
  unfold Item.out at ho
  cases hp : parseHeader cfg i.header with
  | error e => rw [hp] at ho; cases ho
  | ok v =>
    obtain ⟨c', n, ck⟩ := v
    rw [hp] at ho hb
    simp only at ho hb
    split at ho
    · cases ho
    · rename_i hne
      have hck : cksum i.body = ck := by simpa using hne
      simp only [Out.msg.injEq] at ho
      obtain ⟨rfl, rfl⟩ := ho
      obtain ⟨m1, m2, m3, m4, m5⟩ := (parseHeader_ok_iff cfg _ _ _ _).1 hp
      have hbs : ∀ x ∈ bs, x.WF cfg := fun x hx => e2 x (by simp [hx])
      have hpost : decode cfg cksum ((bs.map Item.bytes).flatten ++ rest) =
          bs.map (Item.out cfg cksum) := by
        rw [decode_items cfg cksum bs hbs rest, decode_eq, e4]; simp
      refine ⟨as, i.header, (bs.map Item.bytes).flatten ++ rest, ?_,
        fun x hx => e2 x (by simp [hx]), ?_, hl, m1, ?_, ?_, m2.symm, ?_⟩
      · rw [e1]; simp [Item.bytes]
      · rw [e3, hpost, ← ho']; simp
      · rw [← m4, hck]
      · rw [← m3, hb]
      · rw [hb]; exact m5

/-- the reader on chunks: same statement for `run` -/
theorem never_corrupt_chunks (cfg : Cfg) (cksum : Bytes → Bytes) (chunks : List Bytes) (c p : Bytes)
    (h : Out.msg c p ∈ run cfg cksum BQ.empty chunks) :
    ∃ (items : List Item) (hd post : Bytes),
      chunks.flatten = (items.map Item.bytes).flatten ++ (hd ++ (p ++ post)) ∧
      (∀ i ∈ items, i.WF cfg) ∧
      run cfg cksum BQ.empty chunks =
        items.map (Item.out cfg cksum) ++ Out.msg c p :: decode cfg cksum post ∧
      hd.length = 24 ∧
      hMagic hd = cfg.magic ∧ hCk hd = cksum p ∧ hLen hd = p.length := by
  have e : run cfg cksum BQ.empty chunks = decode cfg cksum chunks.flatten := by
    rw [run_eq_decode cfg cksum _ BQ.empty chunks rfl BQ.empty_inv]
    simp [BQ.stream, BQ.empty]
  rw [e] at h ⊢
  obtain ⟨items, hd, post, a, w, d, b, c1, d1, e1, _⟩ := never_corrupt cfg cksum _ c p h
  exact ⟨items, hd, post, a, w, d, b, c1, d1, e1⟩

/-- **checksum_error_local**: a message whose checksum does not match raises one
    `BadChecksumError`, consumes 24 + declared-length bytes exactly like a valid one, and what
    follows decodes exactly as it would behind a valid message -/
theorem checksum_error_local (cfg : Cfg) (cksum : Bytes → Bytes) (h body rest c ck : Bytes)
    (n : Nat) (hl : h.length = 24) (hp : parseHeader cfg h = .ok (c, n, ck))
    (hb : body.length = n) :
    (cksum body ≠ ck →
      decode cfg cksum (h ++ (body ++ rest)) = .err .badChecksum :: decode cfg cksum rest) ∧
    (cksum body = ck →
      decode cfg cksum (h ++ (body ++ rest)) = .msg c body :: decode cfg cksum rest) := by
  have := decode_accepted_header cfg cksum h body rest c ck n hl hp hb
  constructor <;> intro hc <;> simp [this, hc]

/-- corruption of the payload of a framed message (any number of flipped bits, same length):
    `BadChecksumError` for that message only — unless the checksums collide, in which case the
    corrupted payload is delivered under its own matching checksum — and the following frames
    are decoded unchanged -/
theorem payload_corruption_local (cfg : Cfg) (cksum : Bytes → Bytes) (hm : cfg.magic.length = 4)
    (hk : CkLaw cksum) (m : Bytes × Bytes) (hs : Sendable cfg m) (p' rest hdr : Bytes)
    (hb : buildHeader cfg cksum m.1 m.2 = .ok hdr) (hlen : p'.length = m.2.length) :
    decode cfg cksum (hdr ++ (p' ++ rest)) =
      (if cksum p' = cksum m.2 then Out.msg m.1 p' else Out.err .badChecksum) ::
        decode cfg cksum rest := by
  have e : rstripNul m.1 = m.1 := rstripNul_of_noTrail _ hs.noNul
  have hsz : oversized cfg (rstripNul m.1) m.2.length = false := by
    rw [e]; exact (block_exception cfg _ _).2 hs.within
  obtain ⟨hl, hparse⟩ := parse_built_header cfg cksum hm hk m.1 m.2 hdr hs.cmdLen hs.lenPack hsz hb
  rw [e] at hparse
  exact decode_accepted_header cfg cksum hdr p' rest _ _ _ hl hparse hlen

/-- a header assembled from any four fields of the right widths, followed by the declared
    number of bytes -/
theorem decode_assembled (cfg : Cfg) (cksum : Bytes → Bytes) (hm : cfg.magic.length = 4)
    (c l k body rest : Bytes) (hc : c.length = 12) (hl : l.length = 4) (hk4 : k.length = 4)
    (hb : body.length = unle l) (hs : oversized cfg (rstripNul c) (unle l) = false) :
    decode cfg cksum (cfg.magic ++ (c ++ (l ++ k)) ++ (body ++ rest)) =
      (if cksum body = k then Out.msg (rstripNul c) body else Out.err .badChecksum) ::
        decode cfg cksum rest := by
  obtain ⟨f1, f2, f3, f4, f5⟩ := fields_of_parts cfg.magic c l k hm hc hl hk4
  have hp : parseHeader cfg (cfg.magic ++ (c ++ (l ++ k))) = .ok (rstripNul c, unle l, k) := by
    rw [parseHeader_ok_iff]
    exact ⟨f1, by rw [f2], f3.symm, f4.symm, hs⟩
  exact decode_accepted_header cfg cksum _ body rest _ _ _ f5 hp hb

/-- corruption of the checksum field of a framed message (any 4 bytes `k` in its place):
    delivered iff `k` is still the payload's checksum, otherwise one `BadChecksumError`; the
    following frames are decoded unchanged either way -/
theorem checksum_field_corruption_local (cfg : Cfg) (cksum : Bytes → Bytes)
    (hm : cfg.magic.length = 4) (m : Bytes × Bytes) (hs : Sendable cfg m) (k rest : Bytes)
    (hk4 : k.length = 4) :
    decode cfg cksum (cfg.magic ++ (m.1 ++ List.replicate (12 - m.1.length) 0 ++
        (le32 m.2.length ++ k)) ++ (m.2 ++ rest)) =
      (if cksum m.2 = k then Out.msg m.1 m.2 else Out.err .badChecksum) ::
        decode cfg cksum rest := by
  have e : rstripNul (m.1 ++ List.replicate (12 - m.1.length) 0) = m.1 := by
    rw [rstripNul_append_zeros, rstripNul_of_noTrail _ hs.noNul]
  have hcl : (m.1 ++ List.replicate (12 - m.1.length) 0).length = 12 := by
    have := hs.cmdLen
    simp; omega
  have hu := unle_le32 _ hs.lenPack
  have := decode_assembled cfg cksum hm _ (le32 m.2.length) k m.2 rest hcl rfl hk4
    (by rw [hu]) (by rw [e, hu]; exact (block_exception cfg _ _).2 hs.within)
  rw [e] at this
  exact this

/-- what `never_corrupt` does **not** give: the checksum covers the payload only.  Whatever 12
    bytes stand in the command field, the payload is delivered under that (stripped) command -/
theorem command_field_unprotected (cfg : Cfg) (cksum : Bytes → Bytes) (hm : cfg.magic.length = 4)
    (hk : CkLaw cksum) (c p rest : Bytes) (hc : c.length = 12) (hp : p.length < 4294967296)
    (hs : oversized cfg (rstripNul c) p.length = false) :
    decode cfg cksum (cfg.magic ++ (c ++ (le32 p.length ++ cksum p)) ++ (p ++ rest)) =
      .msg (rstripNul c) p :: decode cfg cksum rest := by
  have hu := unle_le32 _ hp
  have := decode_assembled cfg cksum hm c (le32 p.length) (cksum p) p rest hc rfl (hk p)
    (by rw [hu]) (by rw [hu]; exact hs)
  simpa using this

/-- a framer whose magic is not 4 bytes wide rejects every header (its own frames included):
    nothing is ever delivered -/
theorem bad_magic_width (cfg : Cfg) (hm : cfg.magic.length ≠ 4) (h : Bytes) (hl : h.length = 24) :
    parseHeader cfg h = .error .badMagic ∨ parseHeader cfg h = .error .oversized := by
  have hne : hMagic h ≠ cfg.magic := by
    intro e
    apply hm
    rw [← e]
    simp [hMagic, magicW, hl]
  cases ho : oversized cfg (rstripNul (hCmd h)) (hLen h) with
  | false => exact Or.inl ((parseHeader_badMagic_iff cfg h).2 ⟨hne, by simp [ho]⟩)
  | true =>
    cases hs : cfg.sizeFirst with
    | false => exact Or.inl ((parseHeader_badMagic_iff cfg h).2 ⟨hne, fun _ => hs⟩)
    | true => exact Or.inr ((parseHeader_oversized_iff cfg h).2 ⟨ho, fun _ => hs⟩)

/-- the header `frame` puts in front of the payload -/
def hdr (cfg : Cfg) (cksum : Bytes → Bytes) (m : Bytes × Bytes) : Bytes :=
  cfg.magic ++ (m.1 ++ List.replicate (12 - m.1.length) 0 ++ (le32 m.2.length ++ cksum m.2))

/-- a framed message whose payload was possibly replaced in transit by `p'` (same length) -/
def damagedWire (cfg : Cfg) (cksum : Bytes → Bytes) (x : (Bytes × Bytes) × Option Bytes) : Bytes :=
  hdr cfg cksum x.1 ++ x.2.getD x.1.2

/-- what the property promises for it -/
def damagedOut (cksum : Bytes → Bytes) (x : (Bytes × Bytes) × Option Bytes) : Out :=
  match x.2 with
  | none => .msg x.1.1 x.1.2
  | some p' => if cksum p' = cksum x.1.2 then .msg x.1.1 p' else .err .badChecksum

/-- **errors are isolated, for whole sequences**: any sequence of sendable messages, any subset
    of them with a damaged payload, any following bytes: each damaged message yields exactly one
    `BadChecksumError` (or is delivered with the damaged payload if the checksums collide) and
    every other message is delivered intact, in order -/
theorem damaged_sequence (cfg : Cfg) (cksum : Bytes → Bytes) (hm : cfg.magic.length = 4)
    (hk : CkLaw cksum) (xs : List ((Bytes × Bytes) × Option Bytes))
    (hs : ∀ x ∈ xs, Sendable cfg x.1 ∧ ∀ p' ∈ x.2, p'.length = x.1.2.length) (rest : Bytes) :
    decode cfg cksum ((xs.map (damagedWire cfg cksum)).flatten ++ rest) =
      xs.map (damagedOut cksum) ++ decode cfg cksum rest := by
  induction xs with
  | nil => simp
  | cons x xs ih =>
    obtain ⟨s1, s2⟩ := hs x (by simp)
    have hs' : ∀ y ∈ xs, Sendable cfg y.1 ∧ ∀ p' ∈ y.2, p'.length = y.1.2.length :=
      fun y hy => hs y (by simp [hy])
    have hb := (header_layout cfg cksum x.1.1 x.1.2 s1.cmdLen s1.lenPack).1
    simp only [List.map_cons, List.flatten_cons, List.append_assoc, List.cons_append]
    obtain ⟨m, d⟩ := x
    cases d with
    | none =>
      have := payload_corruption_local cfg cksum hm hk m s1 m.2
        ((List.map (damagedWire cfg cksum) xs).flatten ++ rest) _ hb rfl
      simp only [↓reduceIte] at this
      simp only [damagedWire, hdr, Option.getD_none, damagedOut, List.append_assoc]
      simp only [List.append_assoc] at this
      rw [this, ih hs']
    | some p' =>
      have hl : p'.length = m.2.length := s2 p' (by simp)
      have := payload_corruption_local cfg cksum hm hk m s1 p'
        ((List.map (damagedWire cfg cksum) xs).flatten ++ rest) _ hb hl
      simp only [damagedWire, hdr, Option.getD_some, damagedOut, List.append_assoc]
      simp only [List.append_assoc] at this
      rw [this, ih hs']

/-- non-vacuity: a damaged payload that is detected, and one whose checksum collides -/
example : (Sendable cfg0 ([118], [1, 2]) ∧ ∀ p' ∈ (some [3, 2] : Option Bytes), p'.length = 2) ∧
    damagedOut ck0 (([118], [1, 2]), some [3, 2]) = .err .badChecksum ∧
    damagedOut ck0 (([118], [1, 2]), some [1, 9]) = .msg [118] [1, 9] ∧
    damagedOut ck0 (([118], [1, 2]), none) = .msg [118] [1, 2] := by
  refine ⟨⟨⟨by decide, by decide, by decide, by decide⟩, by simp⟩, by decide, by decide, by decide⟩

/-- **magic_size_no_delivery**: wrong magic or an over-limit length: one error of the
    corresponding class - for a header that is wrong in *both* ways either class, the text fixes
    no order (the model follows the order observed on the real code, `cfg.sizeFirst`) - nothing
    delivered for that header, exactly 24 bytes consumed.  Proved for both orders. -/
theorem magic_size_no_delivery (cfg : Cfg) (cksum : Bytes → Bytes) (h rest : Bytes)
    (hl : h.length = 24) :
    (hMagic h ≠ cfg.magic → oversized cfg (rstripNul (hCmd h)) (hLen h) = false →
      decode cfg cksum (h ++ rest) = .err .badMagic :: decode cfg cksum rest) ∧
    (hMagic h = cfg.magic → oversized cfg (rstripNul (hCmd h)) (hLen h) = true →
      decode cfg cksum (h ++ rest) = .err .oversized :: decode cfg cksum rest) ∧
    (hMagic h ≠ cfg.magic → oversized cfg (rstripNul (hCmd h)) (hLen h) = true →
      decode cfg cksum (h ++ rest) =
        .err (if cfg.sizeFirst then .oversized else .badMagic) :: decode cfg cksum rest) ∧
    (hMagic h ≠ cfg.magic ∨ oversized cfg (rstripNul (hCmd h)) (hLen h) = true →
      ∃ e, (e = .badMagic ∨ e = .oversized) ∧
        decode cfg cksum (h ++ rest) = .err e :: decode cfg cksum rest) := by
  have both : hMagic h ≠ cfg.magic → oversized cfg (rstripNul (hCmd h)) (hLen h) = true →
      decode cfg cksum (h ++ rest) =
        .err (if cfg.sizeFirst then .oversized else .badMagic) :: decode cfg cksum rest := by
    intro hne ho
    cases hs : cfg.sizeFirst with
    | false =>
      exact decode_rejected_header cfg cksum h rest _ hl
        ((parseHeader_badMagic_iff cfg h).2 ⟨hne, fun _ => hs⟩)
    | true =>
      exact decode_rejected_header cfg cksum h rest _ hl
        ((parseHeader_oversized_iff cfg h).2 ⟨ho, fun _ => hs⟩)
  have onlyM : hMagic h ≠ cfg.magic → oversized cfg (rstripNul (hCmd h)) (hLen h) = false →
      decode cfg cksum (h ++ rest) = .err .badMagic :: decode cfg cksum rest := by
    intro hne ho
    exact decode_rejected_header cfg cksum h rest _ hl
      ((parseHeader_badMagic_iff cfg h).2 ⟨hne, by simp [ho]⟩)
  have onlyS : hMagic h = cfg.magic → oversized cfg (rstripNul (hCmd h)) (hLen h) = true →
      decode cfg cksum (h ++ rest) = .err .oversized :: decode cfg cksum rest := by
    intro he ho
    exact decode_rejected_header cfg cksum h rest _ hl
      ((parseHeader_oversized_iff cfg h).2 ⟨ho, fun hne => absurd he hne⟩)
  refine ⟨onlyM, onlyS, both, ?_⟩
  intro hor
  by_cases hm : hMagic h = cfg.magic
  · have ho : oversized cfg (rstripNul (hCmd h)) (hLen h) = true := by
      rcases hor with h1 | h1
      · exact absurd hm h1
      · exact h1
    exact ⟨_, Or.inr rfl, onlyS hm ho⟩
  · cases ho : oversized cfg (rstripNul (hCmd h)) (hLen h) with
    | false => exact ⟨_, Or.inl rfl, onlyM hm ho⟩
    | true =>
      refine ⟨_, ?_, both hm ho⟩
      cases cfg.sizeFirst <;> simp

/-- the outcomes of a header are exhaustive and exclusive: rejected iff the magic is wrong or
    the length over the limit (class as above), otherwise accepted with the stripped command,
    the length and the checksum field -/
theorem header_trichotomy (cfg : Cfg) (h : Bytes) :
    (parseHeader cfg h = .error .badMagic ∧ hMagic h ≠ cfg.magic ∧
      (oversized cfg (rstripNul (hCmd h)) (hLen h) = true → cfg.sizeFirst = false)) ∨
    (parseHeader cfg h = .error .oversized ∧
      oversized cfg (rstripNul (hCmd h)) (hLen h) = true ∧
      (hMagic h ≠ cfg.magic → cfg.sizeFirst = true)) ∨
    (parseHeader cfg h = .ok (rstripNul (hCmd h), hLen h, hCk h) ∧ hMagic h = cfg.magic ∧
      oversized cfg (rstripNul (hCmd h)) (hLen h) = false) := by
  by_cases hm : hMagic h = cfg.magic
  · cases ho : oversized cfg (rstripNul (hCmd h)) (hLen h) with
    | true =>
      exact Or.inr (Or.inl ⟨(parseHeader_oversized_iff cfg h).2 ⟨ho, fun hne => absurd hm hne⟩,
        rfl, fun hne => absurd hm hne⟩)
    | false =>
      exact Or.inr (Or.inr ⟨(parseHeader_ok_iff cfg h _ _ _).2 ⟨hm, rfl, rfl, rfl, ho⟩, hm, rfl⟩)
  · cases ho : oversized cfg (rstripNul (hCmd h)) (hLen h) with
    | false =>
      exact Or.inl ⟨(parseHeader_badMagic_iff cfg h).2 ⟨hm, by simp [ho]⟩, hm, by simp⟩
    | true =>
      cases hs : cfg.sizeFirst with
      | false =>
        exact Or.inl ⟨(parseHeader_badMagic_iff cfg h).2 ⟨hm, fun _ => hs⟩, hm, fun _ => rfl⟩
      | true =>
        exact Or.inr (Or.inl ⟨(parseHeader_oversized_iff cfg h).2 ⟨ho, fun _ => hs⟩, rfl,
          fun _ => rfl⟩)

/-- non-vacuity of the "wrong in both ways" case, for both orders: magic `e3e1f3e9`, length 100 -/
example :
    parseHeader cfg0 ([0xe3, 0xe1, 0xf3, 0xe9] ++ List.replicate 12 0 ++ [100, 0, 0, 0] ++
      [0, 0, 0, 0]) = .error .badMagic ∧
    parseHeader cfg1 ([0xe3, 0xe1, 0xf3, 0xe9] ++ List.replicate 12 0 ++ [100, 0, 0, 0] ++
      [0, 0, 0, 0]) = .error .oversized := by decide

/-- non-vacuity for the three theorems above: a bad-checksum frame between two good ones -/
example : decode cfg0 ck0
    (wire cfg0 ck0 ([118], [1]) ++
      ((cfg0.magic ++ ([120] ++ List.replicate 11 0 ++ (le32 2 ++ [0, 0, 0, 0]))) ++ ([5, 6] ++
        (wire cfg0 ck0 ([119], [2, 3]) ++ [])))) =
    [.msg [118] [1], .err .badChecksum, .msg [119] [2, 3]] := by
  rw [decode_wire cfg0 ck0 rfl ck0_law _ (by decide) (by decide) (by decide)]
  rw [(checksum_error_local cfg0 ck0 _ [5, 6] _ [120] [0, 0, 0, 0] 2 (by decide) (by decide)
        (by decide)).1 (by decide)]
  rw [decode_wire cfg0 ck0 rfl ck0_law _ (by decide) (by decide) (by decide)]
  rw [(decode_incomplete cfg0 ck0).1 [] (by decide)]
  decide

/-! ## 5. Chunking independence -/

/-- the reader's output is the decoding of the concatenation of the chunks -/
theorem run_concat (cfg : Cfg) (cksum : Bytes → Bytes) (chunks : List Bytes) :
    run cfg cksum BQ.empty chunks = decode cfg cksum chunks.flatten := by
  rw [run_eq_decode cfg cksum _ BQ.empty chunks rfl BQ.empty_inv]
  simp [BQ.stream, BQ.empty]

/-- **chunking_independent**: two chunkings of the same byte stream give the same outputs -/
theorem chunking_independent (cfg : Cfg) (cksum : Bytes → Bytes) (cs cs' : List Bytes)
    (h : cs.flatten = cs'.flatten) :
    run cfg cksum BQ.empty cs = run cfg cksum BQ.empty cs' := by
  rw [run_concat, run_concat, h]

/-- more data never retracts or alters what has been produced (so the outputs observed while
    chunks are still arriving are a prefix of the final outputs) -/
theorem run_monotone (cfg : Cfg) (cksum : Bytes → Bytes) (cs more : List Bytes) :
    run cfg cksum BQ.empty cs <+: run cfg cksum BQ.empty (cs ++ more) := by
  rw [run_concat, run_concat, List.flatten_append]
  exact decode_prefix cfg cksum _ _ _ rfl

/-- incremental = batch: after any received prefix `a` the reader is left with an incomplete
    rest (a suffix of `a`: the bytes of the message it is waiting to complete), and whatever
    arrives later is decoded exactly as if that rest and the new bytes had arrived together.
    (The reader coroutine itself is a deterministic function of the FIFO chunk sequence; this is
    the statement that lets the reader run *while* chunks are still arriving.) -/
theorem decode_incremental (cfg : Cfg) (cksum : Bytes → Bytes) (a : Bytes) :
    ∃ pre rest, a = pre ++ rest ∧ step cfg cksum rest = none ∧ decode cfg cksum rest = [] ∧
      ∀ b, decode cfg cksum (a ++ b) = decode cfg cksum a ++ decode cfg cksum (rest ++ b) := by
  obtain ⟨items, rest, e1, e2, e3, e4⟩ := decode_spec cfg cksum a.length a rfl
  refine ⟨(items.map Item.bytes).flatten, rest, e1, e4, by rw [decode_eq, e4], ?_⟩
  intro b
  rw [e3]
  conv => lhs; rw [e1, List.append_assoc]
  exact decode_items cfg cksum items e2 (rest ++ b)

example : ([[1, 2], [], [3]] : List Bytes).flatten = ([[1], [2, 3]] : List Bytes).flatten := by
  decide

/-! ## 6. Session policy -/

/-- does this outcome make the session close the connection? -/
def fatal : Out → Bool
  | .err e => (policy e).close
  | .msg _ _ => false

def isErr : Out → Bool
  | .err _ => true
  | .msg _ _ => false

def msgOf : Out → Option (Bytes × Bytes)
  | .msg c p => some (c, p)
  | .err _ => none

/-- the outcomes the loop gets to see when the transport reports the loss after `g` further
    magic/size errors: everything up to and including the `(g+1)`-th magic/size error -/
def seen : Nat → List Out → List Out
  | _, [] => []
  | g, o :: r =>
      if fatal o then
        match g with
        | 0 => [o]
        | g' + 1 => o :: seen g' r
      else o :: seen g r

/-- ... when the loss is reported at once: up to and including the first magic/size error -/
def upToFatal (outs : List Out) : List Out := seen 0 outs

/-- the decision table: every framing error is counted exactly once; the connection is closed
    exactly for `BadMagicError` and `OversizedPayloadError` -/
theorem policy_table (e : FrameErr) :
    (policy e).bump = 1 ∧ ((policy e).close = true ↔ e = .badMagic ∨ e = .oversized) := by
  cases e <;> simp [policy]

theorem sessRunG_spec (outs : List Out) : ∀ (g : Nat) (s : Sess),
    (sessRunG g outs s).errors = s.errors + ((seen g outs).filter isErr).length ∧
    (sessRunG g outs s).closed = (s.closed || outs.any fatal) ∧
    (sessRunG g outs s).delivered = s.delivered ++ (seen g outs).filterMap msgOf := by
  induction outs with
  | nil => intro g s; simp [sessRunG, seen]
  | cons o r ih =>
    intro g s
    cases o with
    | msg c p =>
      obtain ⟨a, b, c'⟩ := ih g { s with delivered := s.delivered ++ [(c, p)] }
      simp only [sessRunG, seen, fatal, Bool.false_eq_true, ↓reduceIte, List.any_cons,
        Bool.false_or]
      refine ⟨?_, b, ?_⟩
      · rw [a]; simp [isErr]
      · rw [c']; simp [msgOf]
    | err e =>
      cases e with
      | badChecksum =>
        obtain ⟨a, b, c'⟩ := ih g { s with errors := s.errors + 1, closed := s.closed || false }
        simp only [sessRunG, policy, seen, fatal, Bool.false_eq_true, ↓reduceIte,
          List.any_cons, Bool.false_or]
        refine ⟨?_, ?_, ?_⟩
        · rw [a]; simp [List.filter_cons, isErr]; omega
        · rw [b]; simp
        · rw [c']; simp [List.filterMap_cons, msgOf]
      | badMagic =>
        cases g with
        | zero =>
          simp [sessRunG, policy, seen, fatal, List.filter_cons, List.filterMap_cons, isErr, msgOf]
        | succ g' =>
          obtain ⟨a, b, c'⟩ := ih g' { s with errors := s.errors + 1, closed := s.closed || true }
          simp only [sessRunG, policy, seen, fatal, ↓reduceIte, List.any_cons, Bool.true_or]
          refine ⟨?_, ?_, ?_⟩
          · rw [a]; simp [List.filter_cons, isErr]; omega
          · rw [b]; simp
          · rw [c']; simp [List.filterMap_cons, msgOf]
      | oversized =>
        cases g with
        | zero =>
          simp [sessRunG, policy, seen, fatal, List.filter_cons, List.filterMap_cons, isErr, msgOf]
        | succ g' =>
          obtain ⟨a, b, c'⟩ := ih g' { s with errors := s.errors + 1, closed := s.closed || true }
          simp only [sessRunG, policy, seen, fatal, ↓reduceIte, List.any_cons, Bool.true_or]
          refine ⟨?_, ?_, ?_⟩
          · rw [a]; simp [List.filter_cons, isErr]; omega
          · rw [b]; simp
          · rw [c']; simp [List.filterMap_cons, msgOf]

/-- **session_policy**: started fresh on any sequence of framer outcomes, whenever the transport
    reports the loss (`g`): the session's `errors` is the number of framing errors among the
    outcomes it got to see (each counted once) - all outcomes up to and including the `(g+1)`-th
    magic/size error -, it requested `close` iff there was a magic/size error, and
    `handle_message` saw exactly the messages among the outcomes it got to see, in order.  For
    `g = 0` (loss reported at once) that is: up to and including the first magic/size error. -/
theorem session_policy (g : Nat) (outs : List Out) :
    (sessRunG g outs Sess.init).errors = ((seen g outs).filter isErr).length ∧
    (sessRunG g outs Sess.init).closed = outs.any fatal ∧
    (sessRunG g outs Sess.init).delivered = (seen g outs).filterMap msgOf ∧
    (sessRun outs Sess.init).errors = ((upToFatal outs).filter isErr).length ∧
    (sessRun outs Sess.init).delivered = (upToFatal outs).filterMap msgOf := by
  have h := sessRunG_spec outs g Sess.init
  have h0 := sessRunG_spec outs 0 Sess.init
  simp only [Sess.init, Nat.zero_add, Bool.false_or, List.nil_append] at h h0
  exact ⟨h.1, h.2.1, h.2.2, h0.1, h0.2.2⟩

/-- what the session got to see is a prefix of what the framer produced ... -/
theorem session_seen_prefix : ∀ (g : Nat) (outs : List Out), seen g outs <+: outs
  | _, [] => by simp [seen]
  | g, o :: r => by
    unfold seen
    split
    · cases g with
      | zero => exact ⟨r, rfl⟩
      | succ g' =>
        obtain ⟨t, ht⟩ := session_seen_prefix g' r
        exact ⟨t, by simp [ht]⟩
    · obtain ⟨t, ht⟩ := session_seen_prefix g r
      exact ⟨t, by simp [ht]⟩

/-- ... and all of it when the loss is reported late enough -/
theorem seen_all : ∀ (g : Nat) (outs : List Out), (outs.filter fatal).length ≤ g →
    seen g outs = outs
  | _, [], _ => by simp [seen]
  | g, o :: r, h => by
    unfold seen
    by_cases hf : fatal o = true
    · simp only [List.filter_cons, hf, ↓reduceIte, List.length_cons] at h
      cases g with
      | zero => omega
      | succ g' => simp [hf, seen_all g' r (by omega)]
    · simp only [List.filter_cons, hf, Bool.false_eq_true, ↓reduceIte] at h
      simp [hf, seen_all g r h]

/-- **session_loss_late**: a transport that reports the loss late (or never, before it is
    aborted) does not stop the session from counting: every framing error that is raised to it
    is counted, every delivered message is handled - the session keeps reading after a
    magic/size error until the loss is delivered -/
theorem session_loss_late (g : Nat) (outs : List Out) (h : (outs.filter fatal).length ≤ g) :
    (sessRunG g outs Sess.init).errors = (outs.filter isErr).length ∧
    (sessRunG g outs Sess.init).closed = outs.any fatal ∧
    (sessRunG g outs Sess.init).delivered = outs.filterMap msgOf := by
  obtain ⟨a, b, c, _⟩ := session_policy g outs
  rw [seen_all g outs h] at a c
  exact ⟨a, b, c⟩

/-- without a magic/size error nothing is cut off: all errors are counted, all messages are
    handled, the connection stays open -/
theorem session_no_fatal (g : Nat) (outs : List Out) (h : outs.any fatal = false) :
    (sessRunG g outs Sess.init).errors = (outs.filter isErr).length ∧
    (sessRunG g outs Sess.init).closed = false ∧
    (sessRunG g outs Sess.init).delivered = outs.filterMap msgOf := by
  have hf : (outs.filter fatal).length ≤ g := by
    have : outs.filter fatal = [] := by
      rw [List.filter_eq_nil_iff]
      intro o ho
      have := List.any_eq_false.1 h o ho
      simpa using this
    simp [this]
  obtain ⟨a, b, c⟩ := session_loss_late g outs hf
  exact ⟨a, by rw [b, h], c⟩

/-- end to end for the "mismatch raises for that message only" clause: a session fed (in any
    chunking) a sequence of sendable frames some of which have a damaged payload counts one
    error per mismatching frame, stays open, and handles every other message, in order -/
theorem session_damaged_sequence (cfg : Cfg) (cksum : Bytes → Bytes) (hm : cfg.magic.length = 4)
    (hk : CkLaw cksum) (xs : List ((Bytes × Bytes) × Option Bytes))
    (hs : ∀ x ∈ xs, Sendable cfg x.1 ∧ ∀ p' ∈ x.2, p'.length = x.1.2.length)
    (chunks : List Bytes) (hc : chunks.flatten = (xs.map (damagedWire cfg cksum)).flatten)
    (g : Nat) :
    let s := sessRunG g (run cfg cksum BQ.empty chunks) Sess.init
    s.errors = ((xs.map (damagedOut cksum)).filter isErr).length ∧ s.closed = false ∧
    s.delivered = (xs.map (damagedOut cksum)).filterMap msgOf := by
  have e : run cfg cksum BQ.empty chunks = xs.map (damagedOut cksum) := by
    rw [run_concat, hc]
    have := damaged_sequence cfg cksum hm hk xs hs []
    simp only [List.append_nil] at this
    rw [this, (decode_incomplete cfg cksum).1 [] (by decide), List.append_nil]
  have nf : (xs.map (damagedOut cksum)).any fatal = false := by
    rw [List.any_eq_false]
    intro o ho
    rw [List.mem_map] at ho
    obtain ⟨x, _, rfl⟩ := ho
    obtain ⟨m, d⟩ := x
    cases d with
    | none => simp [damagedOut, fatal]
    | some p' =>
      simp only [damagedOut]
      split <;> simp [fatal, policy]
  simp only
  rw [e]
  exact session_no_fatal g _ nf

/-- end to end: the session on a chunked byte stream depends only on the concatenation -/
theorem session_chunking_independent (cfg : Cfg) (cksum : Bytes → Bytes) (cs cs' : List Bytes)
    (h : cs.flatten = cs'.flatten) (g : Nat) :
    sessRunG g (run cfg cksum BQ.empty cs) Sess.init =
      sessRunG g (run cfg cksum BQ.empty cs') Sess.init := by
  rw [chunking_independent cfg cksum cs cs' h]

/-- non-vacuity: loss reported at once / after one more magic-size error / never -/
example : sessRun [.msg [1] [], .err .badChecksum, .msg [2] [], .err .oversized, .msg [3] [],
      .err .badMagic, .msg [4] [], .err .badMagic, .msg [5] []] Sess.init =
    ⟨2, true, [([1], []), ([2], [])]⟩ := by decide
example : sessRunG 1 [.msg [1] [], .err .badChecksum, .msg [2] [], .err .oversized, .msg [3] [],
      .err .badMagic, .msg [4] [], .err .badMagic, .msg [5] []] Sess.init =
    ⟨3, true, [([1], []), ([2], []), ([3], [])]⟩ := by decide
example : sessRunG 9 [.msg [1] [], .err .badChecksum, .msg [2] [], .err .oversized, .msg [3] [],
      .err .badMagic, .msg [4] [], .err .badMagic, .msg [5] []] Sess.init =
    ⟨4, true, [([1], []), ([2], []), ([3], []), ([4], []), ([5], [])]⟩ := by decide

/-! ## 7. Facts: what the real classes did on grids (regenerated from /repo on every run by
    `tools/facts/c07.py`, which only RUNS the public API), reproduced by the model -/

/-- a checksum function given by a finite table (4 zero bytes outside it) -/
def tableCk (t : List (Bytes × Bytes)) (p : Bytes) : Bytes :=
  match t.find? (fun e => e.1 == p) with
  | some e => e.2
  | none => [0, 0, 0, 0]

theorem tableCk_law (t : List (Bytes × Bytes)) (h : ∀ e ∈ t, e.2.length = 4) :
    CkLaw (tableCk t) := by
  intro p
  unfold tableCk
  split
  · rename_i e he
    exact h e (List.mem_of_find?_eq_some he)
  · rfl

/-- the checksum function of the generated tables: the first four bytes of the double SHA-256
    (computed with hashlib) of every byte string that gets checksummed on the grids -/
noncomputable def factsCk : Bytes → Bytes := tableCk Facts.C07.ckTable

/-- it satisfies the one law the theorems assume, so they all apply to it -/
theorem facts_ck_law : CkLaw factsCk :=
  tableCk_law _ (by decide +kernel)

/-- decoding of an outcome in the generated tables -/
def outOfCode : Nat × Bytes × Bytes → Option Out
  | (0, c, p) => some (.msg c p)
  | (1, _, _) => some (.err .badMagic)
  | (2, _, _) => some (.err .oversized)
  | (3, _, _) => some (.err .badChecksum)
  | _ => none

/-- `decode` with explicit fuel (structural, so that the kernel can evaluate it) -/
def decodeF (cfg : Cfg) (cksum : Bytes → Bytes) : Nat → Bytes → List Out
  | 0, _ => []
  | f + 1, s =>
      match step cfg cksum s with
      | none => []
      | some (o, s') => o :: decodeF cfg cksum f s'

theorem decodeF_eq (cfg : Cfg) (cksum : Bytes → Bytes) : ∀ (f : Nat) (s : Bytes),
    s.length ≤ f → decodeF cfg cksum f s = decode cfg cksum s
  | 0, s, h => by
    have : s.length < 24 := by omega
    rw [decodeF, decode_eq, step_none_short cfg cksum s this]
  | f + 1, s, h => by
    rw [decodeF, decode_eq]
    cases hs : step cfg cksum s with
    | none => rfl
    | some v =>
      obtain ⟨o, s'⟩ := v
      have := step_measure hs
      simp only
      rw [decodeF_eq cfg cksum f s' (by omega)]

/-- the configuration of a grid row: the grid's magic, the row's limits, and the order of the
    magic and size tests **as observed** on the real code (a header wrong in both ways was fed
    to `receive_message`) -/
def gridCfg (mp mb : Nat) : Cfg := ⟨Facts.C07.gridMagic, mp, mb, Facts.C07.sizeFirst⟩

/-- **the decision grid of the real `receive_message`**: on every stream of the grid (every raw
    command field variant - NUL in front, inside, at the end - × every declared length from 0
    to two past the larger limit × three limit configurations, good / bad checksum, truncated
    payload and header; every single-bit corruption of the magic alone and together with an
    over-limit length; each followed by a further message) the successive outcomes of the real
    framer - delivered command and payload included - are the model's `decode` -/
theorem facts_recv :
    ∀ r ∈ Facts.C07.recvGrid,
      (decode (gridCfg r.1 r.2.1) factsCk r.2.2.1).map some = r.2.2.2.map outOfCode := by
  intro r hr
  rw [← decodeF_eq _ _ r.2.2.1.length _ (Nat.le_refl _)]
  revert r
  decide +kernel

/-- result code of the model's `frame` as in the generated table -/
def frameCode : Except PyExc Bytes → Nat × Bytes
  | .ok b => (0, b)
  | .error .valueError => (1, [])
  | .error .structError => (2, [])

/-- **the table of the real `frame()`**: commands of 0..14 bytes (NUL in front / inside / at the
    end), four payload sizes, magics of 0, 3, 4 and 5 bytes, a long command directly before a
    short one on the same framer: bytes returned / `ValueError` are the model's -/
theorem facts_frame :
    ∀ r ∈ Facts.C07.frameTable,
      frameCode (frame ⟨r.1, 0, 0, false⟩ factsCk r.2.1 r.2.2.1) = (r.2.2.2.1, r.2.2.2.2) := by
  decide +kernel

/-- the length field at its boundaries (payloads whose `len()` claims 2^k - 1 / 2^k bytes):
    packed little-endian below 2^32, `struct.error` from 2^32 on - as `packLe32` -/
theorem facts_pack :
    ∀ r ∈ Facts.C07.packProbe,
      (match packLe32 r.1 with
       | .ok l => ((0 : Nat), l)
       | .error _ => (2, [])) = (r.2.1, (r.2.2.drop 16).take 4) := by
  decide +kernel

/-- **the table of the real `MessageSession`** on a fake transport: every sequence of at most
    three items of the kinds valid / bad checksum / bad magic / oversize (and four longer ones),
    followed by a valid message, with the transport reporting the loss at once (`g = gSoon`),
    2.5 ms after `close()` (`g = gLate`) or not at all (`g = gNever`) - `gSoon`, `gLate` being
    the number of further magic/size errors a probe session counted under that timing -:
    `errors`, "close requested" and the messages that reached `handle_message` are `sessRunG g`
    of the framer's outcomes.  (This
    replaces reading the `except` ladder from the source: the handlers are run, with the
    exception objects the real framer raises.) -/
theorem facts_session :
    ∀ r ∈ Facts.C07.sessTable,
      (r.2.1.mapM outOfCode).map (fun outs => sessRunG r.1 outs Sess.init) =
        some ⟨r.2.2.1, r.2.2.2.1, r.2.2.2.2⟩ := by
  decide +kernel

/-- **large payloads on the real framer** (64 KiB - 1, 64 KiB, 64 KiB + 1 and 200 000 bytes; the
    chunk that completes the payload ends at the frame boundary - 1 / 0 / + 1; two more messages
    behind): what came out is what was sent - same commands, lengths and payload checksums, in
    order, nothing else.  The model side of these rows is not an evaluation but the general
    theorem `frame_roundtrip` (every chunking of sendable frames decodes to the messages sent);
    the rows only record lengths and checksums, the kernel does not see the payloads. -/
theorem facts_large :
    ∀ r ∈ Facts.C07.largeTable, r.2.2.2 = r.2.2.1 := by
  decide +kernel

/-- the defaults: 4-byte magic (so the general theorems apply to `BitcoinFramer()`), and
    `MessageSession.default_framer()` is a `BitcoinFramer` -/
theorem facts_defaults :
    Facts.C07.defaultMagic.length = magicW ∧ Facts.C07.defaultFramerIsBitcoin = true := by decide

/-- the configuration of `BitcoinFramer()` as read from the running code -/
def defaultCfg : Cfg :=
  ⟨Facts.C07.defaultMagic, Facts.C07.maxPayloadSize, Facts.C07.maxBlockSize, Facts.C07.sizeFirst⟩

/-- the round trip instantiated with the defaults read from the source -/
theorem frame_roundtrip_defaults (cksum : Bytes → Bytes) (hk : CkLaw cksum)
    (msgs : List (Bytes × Bytes)) (hs : ∀ m ∈ msgs, Sendable defaultCfg m)
    (chunks : List Bytes) (hc : chunks.flatten = (msgs.map (wire defaultCfg cksum)).flatten) :
    run defaultCfg cksum BQ.empty chunks = msgs.map (fun m => Out.msg m.1 m.2) :=
  (frame_roundtrip _ cksum facts_defaults.1 hk msgs hs chunks hc).2

end Aiorpcx.C07
