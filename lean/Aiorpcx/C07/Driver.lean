import Aiorpcx.Common.Hex
import Aiorpcx.C07.Model
import Aiorpcx.C07.Sha256
/-! Line-protocol driver for the C07 model.  The checksum parameter is instantiated with the
    real `double_sha256(p)[:4]` (`Sha256.lean`).
    in : `recv  <magic> <max_payload> <max_block> <sizeFirst 0|1> <chunk> ...`  (hex, `-` = empty)
         `sess  <magic> <max_payload> <max_block> <sizeFirst 0|1> <g> <chunk> ...`
         (`g`: further magic/size errors processed before the loss is reported, see `sessRunG`)
         `frame <magic> <command> <payload>`
         `ck    <payload>`
    out: recv : `M<cmd>:<payload>` / `Emagic` / `Esize` / `Ecksum` tokens (`.` when none)
         sess : `errors=<n> closed=<0|1> <M tokens of what reached handle_message | .>`
         frame: `ok <hex>` / `ValueError` / `struct.error`
         ck   : `<hex>` -/
open Aiorpcx Aiorpcx.C07

def showOut : Out → String
  | .msg c p => "M" ++ Hex.showBytes c ++ ":" ++ Hex.showBytes p
  | .err .badMagic => "Emagic"
  | .err .oversized => "Esize"
  | .err .badChecksum => "Ecksum"

def showOuts (outs : List Out) : String :=
  if outs.isEmpty then "." else String.intercalate " " (outs.map showOut)

def parseCfg (magic mp mb sf : String) : Option Cfg :=
  match Hex.parseBytes magic, mp.toNat?, mb.toNat?, sf.toNat? with
  | some m, some a, some b, some f => if f ≤ 1 then some ⟨m, a, b, f == 1⟩ else none
  | _, _, _, _ => none

def handle (line : String) : String :=
  match (line.splitOn " ").filter (· ≠ "") with
  | "recv" :: magic :: mp :: mb :: sf :: chunks =>
    match parseCfg magic mp mb sf, chunks.mapM Hex.parseBytes with
    | some cfg, some cs => showOuts (run cfg Sha256.checksum BQ.empty cs)
    | _, _ => "bad-op"
  | "sess" :: magic :: mp :: mb :: sf :: g :: chunks =>
    match parseCfg magic mp mb sf, g.toNat?, chunks.mapM Hex.parseBytes with
    | some cfg, some g, some cs =>
        let s := sessRunG g (run cfg Sha256.checksum BQ.empty cs) Sess.init
        s!"errors={s.errors} closed={if s.closed then 1 else 0} " ++
          showOuts (s.delivered.map fun m => Out.msg m.1 m.2)
    | _, _, _ => "bad-op"
  | ["frame", magic, cmd, payload] =>
    match Hex.parseBytes magic, Hex.parseBytes cmd, Hex.parseBytes payload with
    | some m, some c, some p =>
        match frame ⟨m, 0, 0, false⟩ Sha256.checksum c p with
        | .ok b => "ok " ++ Hex.showBytes b
        | .error .valueError => "ValueError"
        | .error .structError => "struct.error"
    | _, _, _ => "bad-op"
  | ["ck", payload] =>
    match Hex.parseBytes payload with
    | some p => Hex.showBytes (Sha256.checksum p)
    | none => "bad-op"
  | _ => "bad-op"

def main : IO Unit := Hex.lineLoop handle
