import Aiorpcx.C07.Refine
import Aiorpcx.C07.Codec
/-! C07 — the stream-level decoder cut into *items* (one header plus the bytes consumed with it). -/
namespace Aiorpcx.C07

/-- one unit of consumption: 24 header bytes and the bytes consumed as its payload -/
structure Item where
  header : Bytes
  body : Bytes
  deriving Repr, DecidableEq

def Item.bytes (i : Item) : Bytes := i.header ++ i.body

/-- what `receive_message()` produces for the item -/
def Item.out (cfg : Cfg) (cksum : Bytes → Bytes) (i : Item) : Out :=
  match parseHeader cfg i.header with
  | .error e => .err e
  | .ok (c, _, ck) => if cksum i.body != ck then .err .badChecksum else .msg c i.body

/-- a header is 24 bytes; a rejected header consumes nothing more, an accepted one consumes
    exactly the declared length -/
def Item.WF (cfg : Cfg) (i : Item) : Prop :=
  i.header.length = 24 ∧
  match parseHeader cfg i.header with
  | .error _ => i.body = []
  | .ok (_, n, _) => i.body.length = n

/-! ### characterisation of `parseHeader` -/

theorem parseHeader_ok_iff (cfg : Cfg) (h c ck : Bytes) (n : Nat) :
    parseHeader cfg h = .ok (c, n, ck) ↔
      hMagic h = cfg.magic ∧ c = rstripNul (hCmd h) ∧ n = hLen h ∧ ck = hCk h ∧
      oversized cfg c n = false := by
  unfold parseHeader
  by_cases hm : hMagic h = cfg.magic
  · by_cases ho : oversized cfg (rstripNul (hCmd h)) (hLen h) = true
    · simp only [hm, bne_self_eq_false, Bool.false_and, Bool.false_eq_true, ↓reduceIte, ho]
      constructor
      · intro x; cases x
      · rintro ⟨_, rfl, rfl, _, h5⟩
        rw [ho] at h5; cases h5
    · simp only [hm, bne_self_eq_false, Bool.false_and, Bool.false_eq_true, ↓reduceIte, ho]
      constructor
      · intro x
        simp only [Except.ok.injEq, Prod.mk.injEq] at x
        obtain ⟨rfl, rfl, rfl⟩ := x
        exact ⟨trivial, rfl, rfl, rfl, by simpa using ho⟩
      · rintro ⟨_, rfl, rfl, rfl, _⟩
        rfl
  · have : (hMagic h != cfg.magic) = true := by simpa using hm
    constructor
    · intro x
      simp only [this, Bool.true_and, ↓reduceIte] at x
      split at x <;> cases x
    · rintro ⟨h1, _⟩; exact absurd h1 hm

/-- `BadMagicError` exactly for a wrong magic - unless the length is over the limit too and the
    size test comes first -/
theorem parseHeader_badMagic_iff (cfg : Cfg) (h : Bytes) :
    parseHeader cfg h = .error .badMagic ↔
      hMagic h ≠ cfg.magic ∧
      (oversized cfg (rstripNul (hCmd h)) (hLen h) = true → cfg.sizeFirst = false) := by
  unfold parseHeader
  by_cases hm : hMagic h = cfg.magic
  · simp only [hm, bne_self_eq_false, Bool.false_and, Bool.false_eq_true, ↓reduceIte, ne_eq,
      not_true_eq_false, false_and, iff_false]
    split <;> simp
  · have : (hMagic h != cfg.magic) = true := by simpa using hm
    cases ho : oversized cfg (rstripNul (hCmd h)) (hLen h) <;>
      cases hs : cfg.sizeFirst <;> simp [this, hm]

/-- `OversizedPayloadError` exactly for an over-limit length - unless the magic is wrong too and
    the magic test comes first -/
theorem parseHeader_oversized_iff (cfg : Cfg) (h : Bytes) :
    parseHeader cfg h = .error .oversized ↔
      oversized cfg (rstripNul (hCmd h)) (hLen h) = true ∧
      (hMagic h ≠ cfg.magic → cfg.sizeFirst = true) := by
  unfold parseHeader
  by_cases hm : hMagic h = cfg.magic
  · simp only [hm, bne_self_eq_false, Bool.false_and, Bool.false_eq_true, ↓reduceIte, ne_eq,
      not_true_eq_false, false_imp_iff, and_true]
    split <;> simp_all
  · have : (hMagic h != cfg.magic) = true := by simpa using hm
    cases ho : oversized cfg (rstripNul (hCmd h)) (hLen h) <;>
      cases hs : cfg.sizeFirst <;> simp [this, hm]

/-- `_receive_header` never raises `BadChecksumError` -/
theorem parseHeader_ne_badChecksum (cfg : Cfg) (h : Bytes) :
    parseHeader cfg h ≠ .error .badChecksum := by
  unfold parseHeader
  split
  · split <;> simp
  · split
    · simp
    · split <;> simp

/-! ### `step` on an item followed by anything -/

theorem step_item (cfg : Cfg) (cksum : Bytes → Bytes) (i : Item) (hw : i.WF cfg) (r : Bytes) :
    step cfg cksum (i.bytes ++ r) = some (i.out cfg cksum, r) := by
  obtain ⟨hl, hb⟩ := hw
  have e : i.bytes ++ r = i.header ++ (i.body ++ r) := by simp [Item.bytes]
  have hlen : ¬ (i.header ++ (i.body ++ r)).length < headerLen := by
    simp [headerLen, hl]
  have ht : (i.header ++ (i.body ++ r)).take headerLen = i.header := List.take_left' hl
  have hd : (i.header ++ (i.body ++ r)).drop headerLen = i.body ++ r := List.drop_left' hl
  rw [e, step]
  simp only [hlen, ↓reduceIte, ht, hd]
  cases hp : parseHeader cfg i.header with
  | error er =>
    rw [hp] at hb
    simp only at hb
    simp [Item.out, hp, hb]
  | ok v =>
    obtain ⟨c, n, ck⟩ := v
    rw [hp] at hb
    simp only at hb
    have h1 : ¬ (i.body ++ r).length < n := by simp [hb]
    have h2 : (i.body ++ r).take n = i.body := List.take_left' hb
    have h3 : (i.body ++ r).drop n = r := List.drop_left' hb
    simp only [h1, ↓reduceIte, h2, h3, Item.out, hp]

theorem step_some (cfg : Cfg) (cksum : Bytes → Bytes) (s s' : Bytes) (o : Out)
    (h : step cfg cksum s = some (o, s')) :
    ∃ i : Item, i.WF cfg ∧ s = i.bytes ++ s' ∧ o = i.out cfg cksum := by
  unfold step at h
  split at h
  · simp at h
  · rename_i hl
    have hl' : 24 ≤ s.length := by simp only [headerLen] at hl; omega
    have htl : (s.take headerLen).length = 24 := by simp [headerLen]; omega
    cases hp : parseHeader cfg (s.take headerLen) with
    | error e =>
      rw [hp] at h
      simp only [Option.some.injEq, Prod.mk.injEq] at h
      obtain ⟨rfl, rfl⟩ := h
      refine ⟨⟨s.take headerLen, []⟩, ⟨htl, ?_⟩, ?_, ?_⟩
      · simp [hp]
      · simp [Item.bytes]
      · simp [Item.out, hp]
    | ok v =>
      obtain ⟨c, n, ck⟩ := v
      rw [hp] at h
      simp only at h
      split at h
      · simp at h
      · rename_i hn
        simp only [Option.some.injEq, Prod.mk.injEq] at h
        obtain ⟨rfl, rfl⟩ := h
        refine ⟨⟨s.take headerLen, (s.drop headerLen).take n⟩, ⟨htl, ?_⟩, ?_, ?_⟩
        · simp only [hp, List.length_take]
          omega
        · simp only [Item.bytes]
          rw [List.append_assoc, List.take_append_drop, List.take_append_drop]
        · simp [Item.out, hp]

theorem step_none_short (cfg : Cfg) (cksum : Bytes → Bytes) (s : Bytes) (h : s.length < 24) :
    step cfg cksum s = none := by
  simp [step, headerLen, h]

/-- feeding more bytes never changes what was already decoded -/
theorem step_append (cfg : Cfg) (cksum : Bytes → Bytes) (s s' t : Bytes) (o : Out)
    (h : step cfg cksum s = some (o, s')) :
    step cfg cksum (s ++ t) = some (o, s' ++ t) := by
  obtain ⟨i, hw, rfl, rfl⟩ := step_some cfg cksum s s' o h
  rw [List.append_assoc]
  exact step_item cfg cksum i hw (s' ++ t)

/-! ### `decode` -/

theorem decode_item (cfg : Cfg) (cksum : Bytes → Bytes) (i : Item) (hw : i.WF cfg) (r : Bytes) :
    decode cfg cksum (i.bytes ++ r) = i.out cfg cksum :: decode cfg cksum r := by
  rw [decode_eq, step_item cfg cksum i hw r]

theorem decode_items (cfg : Cfg) (cksum : Bytes → Bytes) (items : List Item)
    (hw : ∀ i ∈ items, i.WF cfg) (r : Bytes) :
    decode cfg cksum ((items.map Item.bytes).flatten ++ r) =
      items.map (Item.out cfg cksum) ++ decode cfg cksum r := by
  induction items with
  | nil => simp
  | cons i is ih =>
    have h1 : i.WF cfg := hw i (by simp)
    have h2 : ∀ j ∈ is, j.WF cfg := fun j hj => hw j (by simp [hj])
    simp only [List.map_cons, List.flatten_cons, List.append_assoc, List.cons_append]
    rw [decode_item cfg cksum i h1, ih h2]

/-- **framing specification**: every byte stream is, uniquely by construction, a sequence of
    well-formed items followed by an incomplete rest, and the reader's output is the items'
    outcomes, one each, in order -/
theorem decode_spec (cfg : Cfg) (cksum : Bytes → Bytes) : ∀ (n : Nat) (s : Bytes), s.length = n →
    ∃ (items : List Item) (rest : Bytes),
      s = (items.map Item.bytes).flatten ++ rest ∧ (∀ i ∈ items, i.WF cfg) ∧
      decode cfg cksum s = items.map (Item.out cfg cksum) ∧ step cfg cksum rest = none := by
  intro n
  induction n using Nat.strongRecOn with
  | _ n ih =>
    intro s hn
    cases hs : step cfg cksum s with
    | none =>
      refine ⟨[], s, by simp, by simp, ?_, hs⟩
      rw [decode_eq, hs]; rfl
    | some v =>
      obtain ⟨o, s'⟩ := v
      obtain ⟨i, hw, rfl, rfl⟩ := step_some cfg cksum s s' o hs
      have hm := step_measure hs
      obtain ⟨items, rest, e1, e2, e3, e4⟩ := ih s'.length (by omega) s' rfl
      refine ⟨i :: items, rest, ?_, ?_, ?_, e4⟩
      · simp only [List.map_cons, List.flatten_cons, List.append_assoc]
        rw [← e1]
      · intro j hj
        simp only [List.mem_cons] at hj
        rcases hj with rfl | hj
        · exact hw
        · exact e2 j hj
      · rw [decode_item cfg cksum i hw, e3]; rfl

theorem decode_prefix (cfg : Cfg) (cksum : Bytes → Bytes) : ∀ (n : Nat) (s t : Bytes),
    s.length = n → decode cfg cksum s <+: decode cfg cksum (s ++ t) := by
  intro n
  induction n using Nat.strongRecOn with
  | _ n ih =>
    intro s t hn
    rw [decode_eq cfg cksum s]
    cases hs : step cfg cksum s with
    | none => simp
    | some v =>
      obtain ⟨o, s'⟩ := v
      have hm := step_measure hs
      rw [decode_eq cfg cksum (s ++ t), step_append cfg cksum s s' t o hs]
      simp only
      exact List.prefix_cons_inj o |>.2 (ih s'.length (by omega) s' t rfl)

end Aiorpcx.C07
