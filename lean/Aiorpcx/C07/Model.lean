/-! C07 — model of `ByteQueue`, `BinaryFramer`, `BitcoinFramer` (aiorpcx/framing.py) and of the
    error policy of `MessageSession._process_messages_loop` (aiorpcx/session.py).
    No Mathlib imports: the driver links this.

    The double-SHA256 checksum is the *parameter* `cksum : Bytes → Bytes`; the only law the
    theorems use is `(cksum p).length = 4`. -/
namespace Aiorpcx.C07

abbrev Bytes := List UInt8

deriving instance DecidableEq for Except

/-- Python exceptions `BitcoinFramer.frame` can raise by itself -/
inductive PyExc where
  | valueError      -- `pad_command`: command longer than 12 bytes
  | structError     -- `pack_le_uint32(len(payload))` with `len(payload) ≥ 2^32`
  deriving Repr, DecidableEq

/-- the three exception classes `receive_message` raises -/
inductive FrameErr where
  | badMagic
  | oversized
  | badChecksum
  deriving Repr, DecidableEq

/-- one completed `receive_message()` call -/
inductive Out where
  | msg (cmd payload : Bytes)
  | err (e : FrameErr)
  deriving Repr, DecidableEq

/-- constructor arguments / class attribute of `BitcoinFramer`, and the one degree of freedom
    the property text leaves to `_receive_header` -/
structure Cfg where
  magic : Bytes
  maxPayload : Nat     -- `max_payload_size`
  maxBlock : Nat       -- `_max_block_size`
  /-- which error a header that is wrong in BOTH ways (wrong magic *and* over-limit length)
      raises: `false` = `BadMagicError` (magic tested first - the pinned code), `true` =
      `OversizedPayloadError`.  The text fixes no order; the value is a *fact* read from the
      behaviour of the real code on such a header (`Facts.C07.sizeFirst`), and every theorem is
      proved for both values. -/
  sizeFirst : Bool

/-- header layout, `Struct('<4s12sI4s')` -/
def magicW : Nat := 4
def cmdW : Nat := 12
def lenW : Nat := 4
def ckW : Nat := 4
def headerLen : Nat := 24
/-- `b'block'` -/
def blockCmd : Bytes := [98, 108, 111, 99, 107]

/-! ### little-endian integers (`Struct('<I')`) -/

def le32 (n : Nat) : Bytes :=
  [UInt8.ofNat (n % 256), UInt8.ofNat (n / 256 % 256),
   UInt8.ofNat (n / 65536 % 256), UInt8.ofNat (n / 16777216 % 256)]

/-- little-endian value of a byte string -/
def unle : Bytes → Nat
  | [] => 0
  | b :: bs => b.toNat + 256 * unle bs

/-- `pack_le_uint32`: `struct.error` outside `0 ≤ n < 2^32` -/
def packLe32 (n : Nat) : Except PyExc Bytes :=
  if n < 4294967296 then .ok (le32 n) else .error .structError

/-! ### `BitcoinFramer._build_header`, `BinaryFramer.frame` -/

/-- `pad_command`: `fill = 12 - len(command)`; `ValueError` if negative; `command + bytes(fill)` -/
def padCommand (cmd : Bytes) : Except PyExc Bytes :=
  if cmd.length > cmdW then .error .valueError
  else .ok (cmd ++ List.replicate (cmdW - cmd.length) 0)

/-- `_build_header`: the tuple elements are evaluated left to right, so a too-long command is
    reported before a too-long payload -/
def buildHeader (cfg : Cfg) (cksum : Bytes → Bytes) (cmd payload : Bytes) : Except PyExc Bytes :=
  match padCommand cmd with
  | .error e => .error e
  | .ok padded =>
    match packLe32 payload.length with
    | .error e => .error e
    | .ok l => .ok (cfg.magic ++ (padded ++ (l ++ cksum payload)))

/-- `BinaryFramer.frame((command, payload))` -/
def frame (cfg : Cfg) (cksum : Bytes → Bytes) (cmd payload : Bytes) : Except PyExc Bytes :=
  match buildHeader cfg cksum cmd payload with
  | .error e => .error e
  | .ok h => .ok (h ++ payload)

/-! ### `BitcoinFramer._receive_header` after the 24 bytes have been read -/

/-- `bytes.rstrip(b'\0')` -/
def rstripNul : Bytes → Bytes
  | [] => []
  | b :: bs =>
      let r := rstripNul bs
      if r.isEmpty && b == 0 then [] else b :: r

/-- the `raise OversizedPayloadError` condition -/
def oversized (cfg : Cfg) (cmd : Bytes) (n : Nat) : Bool :=
  if n > cfg.maxPayload then (cmd != blockCmd || n > cfg.maxBlock) else false

/-- the four fields of a header as `Struct('<4s12sI4s').unpack` returns them -/
def hMagic (h : Bytes) : Bytes := h.take magicW
def hCmd (h : Bytes) : Bytes := (h.drop magicW).take cmdW
def hLen (h : Bytes) : Nat := unle (((h.drop magicW).drop cmdW).take lenW)
def hCk (h : Bytes) : Bytes := ((((h.drop magicW).drop cmdW).drop lenW)).take ckW

/-- `_receive_header` on the 24 header bytes: magic test, strip, size test.  A header failing
    both tests raises the error of the test that comes first (`cfg.sizeFirst`). -/
def parseHeader (cfg : Cfg) (h : Bytes) : Except FrameErr (Bytes × Nat × Bytes) :=
  if hMagic h != cfg.magic && oversized cfg (rstripNul (hCmd h)) (hLen h) then
    .error (if cfg.sizeFirst then .oversized else .badMagic)
  else if hMagic h != cfg.magic then .error .badMagic
  else if oversized cfg (rstripNul (hCmd h)) (hLen h) then .error .oversized
  else .ok (rstripNul (hCmd h), hLen h, hCk h)

/-! ### `ByteQueue` -/

/-- `parts` / `parts_len` (kept separately, as the code does) -/
structure BQ where
  parts : List Bytes
  partsLen : Nat
  deriving Repr

def BQ.empty : BQ := ⟨[], 0⟩

/-- the `while self.parts_len < size: part = await self.queue.get(); …` loop; `cs` is the
    asyncio queue content.  `none`: the queue ran dry, the caller waits forever. -/
def BQ.fill (size : Nat) (q : BQ) : List Bytes → Option (BQ × List Bytes)
  | [] => if q.partsLen < size then none else some (q, [])
  | c :: cs =>
      if q.partsLen < size then BQ.fill size ⟨q.parts ++ [c], q.partsLen + c.length⟩ cs
      else some (q, c :: cs)

/-- `ByteQueue.receive(size)` -/
def BQ.receive (size : Nat) (q : BQ) (cs : List Bytes) : Option (Bytes × BQ × List Bytes) :=
  match BQ.fill size q cs with
  | none => none
  | some (q', cs') =>
      let whole := q'.parts.flatten
      some (whole.take size, ⟨[whole.drop size], q'.partsLen - size⟩, cs')

/-! ### `BinaryFramer.receive_message` and the reader loop -/

/-- one `receive_message()` call; `none` = never returns (not enough bytes will ever arrive) -/
def recvMessage (cfg : Cfg) (cksum : Bytes → Bytes) (q : BQ) (cs : List Bytes) :
    Option (Out × BQ × List Bytes) :=
  match BQ.receive headerLen q cs with
  | none => none
  | some (h, q1, cs1) =>
    match parseHeader cfg h with
    | .error e => some (.err e, q1, cs1)
    | .ok (cmd, n, ck) =>
      match BQ.receive n q1 cs1 with
      | none => none
      | some (p, q2, cs2) =>
        if cksum p != ck then some (.err .badChecksum, q2, cs2)
        else some (.msg cmd p, q2, cs2)

theorem BQ.fill_measure (size : Nat) : ∀ (cs : List Bytes) (q q' : BQ) (cs' : List Bytes),
    BQ.fill size q cs = some (q', cs') →
    q'.partsLen + cs'.flatten.length = q.partsLen + cs.flatten.length ∧ size ≤ q'.partsLen
  | [], q, q', cs', h => by
      unfold BQ.fill at h
      split at h
      · simp at h
      · simp only [Option.some.injEq, Prod.mk.injEq] at h
        obtain ⟨rfl, rfl⟩ := h
        exact ⟨rfl, by omega⟩
  | c :: cs, q, q', cs', h => by
      unfold BQ.fill at h
      split at h
      · have := BQ.fill_measure size cs _ q' cs' h
        simp only [List.flatten_cons, List.length_append] at this ⊢
        omega
      · simp only [Option.some.injEq, Prod.mk.injEq] at h
        obtain ⟨rfl, rfl⟩ := h
        exact ⟨rfl, by omega⟩

theorem BQ.receive_measure {size : Nat} {q q' : BQ} {cs cs' : List Bytes} {b : Bytes}
    (h : BQ.receive size q cs = some (b, q', cs')) :
    q'.partsLen + cs'.flatten.length + size = q.partsLen + cs.flatten.length := by
  unfold BQ.receive at h
  split at h
  · simp at h
  · rename_i q1 cs1 hf
    simp only [Option.some.injEq, Prod.mk.injEq] at h
    obtain ⟨_, rfl, rfl⟩ := h
    have := BQ.fill_measure size cs q q1 cs1 hf
    simp only
    omega

theorem recvMessage_measure {cfg : Cfg} {cksum : Bytes → Bytes} {q q' : BQ} {cs cs' : List Bytes}
    {o : Out} (h : recvMessage cfg cksum q cs = some (o, q', cs')) :
    q'.partsLen + cs'.flatten.length < q.partsLen + cs.flatten.length := by
  unfold recvMessage at h
  split at h
  · simp at h
  · rename_i hd q1 cs1 h1
    have m1 := BQ.receive_measure h1
    simp only [headerLen] at m1
    split at h
    · simp only [Option.some.injEq, Prod.mk.injEq] at h
      obtain ⟨_, rfl, rfl⟩ := h
      omega
    · split at h
      · simp at h
      · rename_i p q2 cs2 h2
        have m2 := BQ.receive_measure h2
        split at h <;>
          (simp only [Option.some.injEq, Prod.mk.injEq] at h
           obtain ⟨_, rfl, rfl⟩ := h
           omega)

set_option linter.unusedVariables false in
/-- the reader: successive `receive_message()` calls on a queue holding the chunks `cs`;
    the list ends where a call would wait for more data -/
def run (cfg : Cfg) (cksum : Bytes → Bytes) (q : BQ) (cs : List Bytes) : List Out :=
  match h : recvMessage cfg cksum q cs with
  | none => []
  | some (o, q', cs') => o :: run cfg cksum q' cs'
termination_by q.partsLen + cs.flatten.length
decreasing_by exact recvMessage_measure h

/-! ### stream-level specification: what a byte stream decodes to -/

/-- decode one message from the front of a stream: the outcome and the remaining stream -/
def step (cfg : Cfg) (cksum : Bytes → Bytes) (s : Bytes) : Option (Out × Bytes) :=
  if s.length < headerLen then none
  else
    match parseHeader cfg (s.take headerLen) with
    | .error e => some (.err e, s.drop headerLen)
    | .ok (cmd, n, ck) =>
      if (s.drop headerLen).length < n then none
      else
        some (if cksum ((s.drop headerLen).take n) != ck then .err .badChecksum
              else .msg cmd ((s.drop headerLen).take n),
              (s.drop headerLen).drop n)

theorem step_measure {cfg : Cfg} {cksum : Bytes → Bytes} {s s' : Bytes} {o : Out}
    (h : step cfg cksum s = some (o, s')) : s'.length < s.length := by
  unfold step at h
  split at h
  · simp at h
  · rename_i hl
    simp only [headerLen] at hl
    split at h
    · simp only [Option.some.injEq, Prod.mk.injEq] at h
      obtain ⟨_, rfl⟩ := h
      simp [headerLen]; omega
    · split at h
      · simp at h
      · simp only [Option.some.injEq, Prod.mk.injEq] at h
        obtain ⟨_, rfl⟩ := h
        simp [headerLen]; omega

set_option linter.unusedVariables false in
def decode (cfg : Cfg) (cksum : Bytes → Bytes) (s : Bytes) : List Out :=
  match h : step cfg cksum s with
  | none => []
  | some (o, s') => o :: decode cfg cksum s'
termination_by s.length
decreasing_by exact step_measure h

/-! ### `MessageSession._process_messages_loop`: what is done with each outcome -/

/-- one arm of the `try/except/else` ladder: how many `_bump_errors` calls, and whether
    `self.close` is spawned -/
structure Arm where
  bump : Nat
  close : Bool
  deriving Repr, DecidableEq

def policy : FrameErr → Arm
  | .badMagic => ⟨1, true⟩
  | .oversized => ⟨1, true⟩
  | .badChecksum => ⟨1, false⟩

/-- observable session state -/
structure Sess where
  errors : Nat
  closed : Bool
  delivered : List (Bytes × Bytes)
  deriving Repr, DecidableEq

def Sess.init : Sess := ⟨0, false, []⟩

/-- the loop over the outcomes of `recv_message()`.

    An arm that spawned `close` goes on with `await sleep(0.001)` and then **loops back to
    `recv_message()`**: the loop only ends when the transport has delivered `connection_lost`
    (the framer is failed and `recv_message()` raises `ConnectionLostError`).  Until then
    everything that is already buffered is processed as usual - messages are handled, errors are
    counted, `close` is spawned again.  `g` is the number of *further* magic/size errors the loop
    gets to process before the loss arrives: each such arm costs 1 ms of the loop's time, so
    `g = 0` is a transport that reports the loss at once (`call_soon`, what asyncio does when its
    write buffer is empty), `g = ⌊delay / 1 ms⌋` one that reports it after `delay`, and any
    `g ≥` the number of magic/size errors one that never does. -/
def sessRunG : Nat → List Out → Sess → Sess
  | _, [], s => s
  | g, .msg c p :: r, s => sessRunG g r { s with delivered := s.delivered ++ [(c, p)] }
  | g, .err e :: r, s =>
      let a := policy e
      let s' := { s with errors := s.errors + a.bump, closed := s.closed || a.close }
      if a.close then
        match g with
        | 0 => s'
        | g' + 1 => sessRunG g' r s'
      else sessRunG g r s'

/-- the loss is reported at once: nothing after the first magic/size error is looked at -/
def sessRun (outs : List Out) (s : Sess) : Sess := sessRunG 0 outs s

end Aiorpcx.C07
