import Lean
/-! `int_rows% "1 -2 3;4 5"` : a `List (List Int)` literal for the generated facts tables.

The rows are given as ONE string (integers separated by blanks, rows by `;`) and turned into a
term built from raw literals here, at elaboration time.  Reason: elaborating a list of thousands of
ordinary numerals costs ~1.5 ms each (`OfNat` instance resolution), i.e. tens of seconds per facts
file, and strings / packed numbers are slow to take apart inside the kernel; a term made of raw
literals is elaborated and type-checked in milliseconds and `decide +kernel` evaluates on it
directly.  The kernel still checks the resulting term; the theorems over the tables also state
lower bounds on the number of rows, so a mis-parse cannot make them vacuous. -/
open Lean Elab Term Meta

namespace Aiorpcx.IntRows

def intExpr (i : Int) : Expr :=
  match i with
  | .ofNat n => mkApp (Lean.mkConst ``Int.ofNat) (mkRawNatLit n)
  | .negSucc n => mkApp (Lean.mkConst ``Int.negSucc) (mkRawNatLit n)

def listExpr (ty : Expr) (xs : List Expr) : Expr :=
  xs.foldr (fun x acc => mkApp3 (Lean.mkConst ``List.cons [Level.zero]) ty x acc)
    (mkApp (Lean.mkConst ``List.nil [Level.zero]) ty)

def parseRow (s : String) : Option (List Int) :=
  ((s.splitOn " ").filter (· ≠ "")).mapM String.toInt?

elab "int_rows% " s:str : term => do
  let txt := s.getString
  let rows := (txt.splitOn ";").filter (fun r => (r.toList.filter (· ≠ ' ')) ≠ [])
  let intTy := Lean.mkConst ``Int
  let rowTy := mkApp (Lean.mkConst ``List [Level.zero]) intTy
  let mut out : Array Expr := #[]
  for r in rows do
    match parseRow r with
    | some xs => out := out.push (listExpr intTy (xs.map intExpr))
    | none => throwError "int_rows%: cannot parse row {r}"
  return listExpr rowTy out.toList

end Aiorpcx.IntRows
