import Aiorpcx.C13.Model
/-! C13 — helper lemmas: what each piece of the wake-up chain does to the quantities the
property talks about. -/
namespace Aiorpcx.C13

/-- ids admitted (entered or refused) by a list of events, in order -/
def ids : List Ev → List Nat
  | [] => []
  | .entered i :: r => i :: ids r
  | .refused i :: r => i :: ids r
  | _ :: r => ids r

@[simp] theorem ids_nil : ids [] = [] := rfl
theorem ids_append (a b : List Ev) : ids (a ++ b) = ids a ++ ids b := by
  induction a with
  | nil => rfl
  | cons e r ih => cases e <;> simp [ids, ih]

/-- permits that are out of `S` and not (yet) accounted to a holder, a refusal or a woken task -/
def Work.slack (w : Work) : Int :=
  w.st.V - (w.st.S + w.st.holders.length + w.st.leaked + w.woken.length)

/-- the arrival-ordered queue of everybody this step has dealt with or still has to -/
def Work.queue (w : Work) : List Nat := ids w.evs ++ (w.woken ++ w.st.waiters)

structure WInv (w : Work) : Prop where
  S_nonneg : 0 ≤ w.st.S
  wait_S : w.st.waiters ≠ [] → w.st.S = 0
  fx : w.st.fixed = true

/-- frame of the semaphore-only operations -/
structure SemFrame (w w' : Work) : Prop where
  T : w'.st.T = w.st.T
  V : w'.st.V = w.st.V
  H : w'.st.holders = w.st.holders
  L : w'.st.leaked = w.st.leaked
  evs : w'.evs = w.evs
  q : w'.woken ++ w'.st.waiters = w.woken ++ w.st.waiters
  wl : w'.st.waiters.length ≤ w.st.waiters.length

theorem wakeNext_id (w : Work) (h : w.st.waiters = []) : wakeNext w = w := by
  unfold wakeNext; simp [h]

theorem wakeNext_cons (w : Work) (x : Nat) (rest : List Nat) (h : w.st.waiters = x :: rest) :
    wakeNext w = { w with st := { w.st with S := w.st.S - 1, waiters := rest },
                          woken := w.woken ++ [x] } := by
  unfold wakeNext; simp [h]

theorem release_spec (w : Work) (h : WInv w) :
    WInv (release w) ∧ SemFrame w (release w) ∧
    (release w).st.S + (release w).woken.length = w.st.S + w.woken.length + 1 := by
  unfold release
  have hS := h.S_nonneg
  cases hw : w.st.waiters with
  | nil =>
    rw [wakeNext_id _ (by simpa using hw)]
    refine ⟨⟨by simp only []; omega, by simp [hw], h.fx⟩, ⟨rfl, rfl, rfl, rfl, rfl, rfl, Nat.le_refl _⟩, by simp only []; omega⟩
  | cons x rest =>
    have hS0 : w.st.S = 0 := h.wait_S (by simp [hw])
    rw [wakeNext_cons _ x rest (by simpa using hw)]
    refine ⟨⟨by simp [hS0], by simp [hS0], h.fx⟩, ⟨rfl, rfl, rfl, rfl, rfl, by simp [hw], by simp [hw]⟩, by simp; omega⟩

theorem grow_spec (n : Nat) : ∀ (w : Work), WInv w →
    WInv (grow n w) ∧
    (grow n w).st.T = w.st.T ∧ (grow n w).st.V = w.st.V + n ∧
    (grow n w).st.holders = w.st.holders ∧ (grow n w).st.leaked = w.st.leaked ∧
    (grow n w).evs = w.evs ∧
    (grow n w).woken ++ (grow n w).st.waiters = w.woken ++ w.st.waiters ∧
    (grow n w).st.waiters.length ≤ w.st.waiters.length ∧
    (grow n w).st.S + (grow n w).woken.length = w.st.S + w.woken.length + n := by
  induction n with
  | zero => intro w h; simp [grow, h]
  | succ n ih =>
    intro w h
    let w1 : Work := { w with st := { w.st with V := w.st.V + 1 } }
    have h1 : WInv w1 := ⟨h.S_nonneg, h.wait_S, h.fx⟩
    obtain ⟨hr, fr, hs⟩ := release_spec w1 h1
    obtain ⟨i1, i2, i3, i4, i5, i6, i7, i8, i9⟩ := ih (release w1) hr
    have e : grow (n + 1) w = grow n (release w1) := rfl
    rw [e]
    refine ⟨i1, ?_, ?_, ?_, ?_, ?_, ?_, ?_, ?_⟩
    · rw [i2, fr.T]
    · rw [i3, fr.V]; show w.st.V + 1 + (n : Int) = w.st.V + ((n + 1 : Nat) : Int); omega
    · rw [i4, fr.H]
    · rw [i5, fr.L]
    · rw [i6, fr.evs]
    · rw [i7, fr.q]
    · exact Nat.le_trans i8 fr.wl
    · rw [i9, hs]; show w.st.S + w.woken.length + 1 + (n : Int) = w.st.S + w.woken.length + ((n + 1 : Nat) : Int); omega

/-- everything the property needs to know about `admitTask` (repaired class: a refused entrant
hands its permit on) -/
structure AdmitSpec (i : Nat) (w w' : Work) : Prop where
  inv : WInv w'
  T : w'.st.T = w.st.T
  slack : w'.slack = w.slack - 1
  queue : ids w'.evs ++ (w'.woken ++ w'.st.waiters) = ids w.evs ++ i :: (w.woken ++ w.st.waiters)
  wl : w'.st.waiters.length ≤ w.st.waiters.length
  L : w'.st.leaked = w.st.leaked
  pos : 0 < w.st.T → w'.st.V = max w.st.V w.st.T ∧ w'.evs = w.evs ++ [Ev.entered i] ∧
        w'.st.holders = w.st.holders ++ [i]
  nonpos : w.st.T ≤ 0 → w'.st.V = w.st.V ∧ w'.evs = w.evs ++ [Ev.refused i] ∧
        w'.st.holders = w.st.holders

theorem admitTask_spec (i : Nat) (w : Work) (h : WInv w) : AdmitSpec i w (admitTask i w) := by
  unfold admitTask
  have hfx := h.fx
  by_cases hT : w.st.T ≤ 0
  · simp only [hT, ↓reduceIte, hfx]
    let w1 : Work := { w with evs := w.evs ++ [Ev.refused i] }
    have h1 : WInv w1 := ⟨h.S_nonneg, h.wait_S, h.fx⟩
    obtain ⟨hr, fr, hs⟩ := release_spec w1 h1
    show AdmitSpec i w (release w1)
    have e1 : (release w1).st.T = w.st.T := fr.T
    have e2 : (release w1).st.V = w.st.V := fr.V
    have e3 : (release w1).st.holders = w.st.holders := fr.H
    have e4 : (release w1).st.leaked = w.st.leaked := fr.L
    have e5 : (release w1).evs = w.evs ++ [Ev.refused i] := fr.evs
    have e6 : (release w1).woken ++ (release w1).st.waiters = w.woken ++ w.st.waiters := fr.q
    have e7 : (release w1).st.waiters.length ≤ w.st.waiters.length := fr.wl
    have e8 : (release w1).st.S + (release w1).woken.length = w.st.S + w.woken.length + 1 := hs
    refine ⟨hr, e1, ?_, ?_, e7, e4, ?_, ?_⟩
    · simp only [Work.slack, e2, e3, e4]; omega
    · rw [e5, e6]; simp [ids_append, ids]
    · intro hp; omega
    · intro _; exact ⟨e2, e5, e3⟩
  · simp only [hT, ↓reduceIte]
    obtain ⟨g1, g2, g3, g4, g5, g6, g7, g8, g9⟩ := grow_spec (w.st.T - w.st.V).toNat w h
    refine ⟨⟨g1.S_nonneg, g1.wait_S, g1.fx⟩, g2, ?_, ?_, g8, g5, ?_, ?_⟩
    · simp only [Work.slack, List.length_append, List.length_singleton]
      rw [g3, g4, g5]
      push_cast
      omega
    · simp only [g6, ids_append, ids, g7]; simp
    · intro _
      refine ⟨?_, by rw [g6], by rw [g4]⟩
      show (grow (w.st.T - w.st.V).toNat w).st.V = max w.st.V w.st.T
      rw [g3]; omega
    · intro hp; exact absurd hp hT

theorem resume_spec (i : Nat) (w : Work) (h : WInv w) : AdmitSpec i w (resume i w) := by
  unfold resume
  by_cases hS : w.st.S > 0
  · have : w.st.waiters = [] := by
      cases hh : w.st.waiters with
      | nil => rfl
      | cons a b => have := h.wait_S (by simp [hh]); omega
    simp only [hS, ↓reduceIte, wakeNext_id w this]
    exact admitTask_spec i w h
  · simp only [hS, ↓reduceIte]
    exact admitTask_spec i w h

/-- the result of running the woken tasks -/
structure DrainSpec (w w' : Work) : Prop where
  inv : WInv w'
  done : w'.woken = []
  T : w'.st.T = w.st.T
  slack : w'.slack = w.slack
  queue : w'.queue = w.queue
  wl : w'.st.waiters.length ≤ w.st.waiters.length
  V_ge : w.st.V ≤ w'.st.V
  V_le : w'.st.V ≤ max w.st.V w.st.T
  V_raise : 0 < w.st.T → w.woken ≠ [] → w'.st.V = max w.st.V w.st.T
  V_same : w.st.T ≤ w.st.V → w'.st.V = w.st.V
  L : w'.st.leaked = w.st.leaked
  H_nonpos : w.st.T ≤ 0 → w'.st.holders = w.st.holders
  nil : w.woken = [] → w' = w
  evs_ext : ∃ e, w'.evs = w.evs ++ e ∧ (0 < w.st.T → ∀ x ∈ e, ∃ i, x = Ev.entered i) ∧
            (w.st.T ≤ 0 → ∀ x ∈ e, ∃ i, x = Ev.refused i)

theorem drain_spec (n : Nat) : ∀ (w : Work), WInv w → w.woken.length + w.st.waiters.length ≤ n →
    DrainSpec w (drain n w) := by
  induction n with
  | zero =>
    intro w h hn
    have hw : w.woken = [] := by
      cases hh : w.woken with
      | nil => rfl
      | cons a b => rw [hh] at hn; simp at hn
    simp only [drain]
    exact ⟨h, hw, rfl, rfl, rfl, Nat.le_refl _, Int.le_refl _, by omega, by intro _ hne; exact absurd hw hne,
      by intro _; rfl, rfl, by intro _; rfl, by intro _; rfl, ⟨[], by simp, by simp, by simp⟩⟩
  | succ n ih =>
    intro w h hn
    cases hw : w.woken with
    | nil =>
      have e : drain (n + 1) w = w := by simp [drain, hw]
      rw [e]
      exact ⟨h, hw, rfl, rfl, rfl, Nat.le_refl _, Int.le_refl _, by omega, by intro _ hne; exact absurd hw hne,
        by intro _; rfl, rfl, by intro _; rfl, by intro _; rfl, ⟨[], by simp, by simp, by simp⟩⟩
    | cons i rest =>
      have e : drain (n + 1) w = drain n (resume i { w with woken := rest }) := by
        simp [drain, hw]
      rw [e]
      have h0' : WInv { w with woken := rest } := ⟨h.S_nonneg, h.wait_S, h.fx⟩
      have hT0 : ({ w with woken := rest } : Work).st.T = w.st.T := rfl
      have hV0 : ({ w with woken := rest } : Work).st.V = w.st.V := rfl
      have hw0 : ({ w with woken := rest } : Work).woken = rest := rfl
      have hw1 : ({ w with woken := rest } : Work).st.waiters = w.st.waiters := rfl
      have hev0 : ({ w with woken := rest } : Work).evs = w.evs := rfl
      have hL0 : ({ w with woken := rest } : Work).st.leaked = w.st.leaked := rfl
      have hH0 : ({ w with woken := rest } : Work).st.holders = w.st.holders := rfl
      have hsl : ({ w with woken := rest } : Work).slack = w.slack + 1 := by
        simp only [Work.slack, hw, List.length_cons]; push_cast; omega
      have hq0 : w.queue = ids ({ w with woken := rest } : Work).evs ++
          i :: (({ w with woken := rest } : Work).woken ++ ({ w with woken := rest } : Work).st.waiters) := by
        simp [Work.queue, hw]
      generalize ({ w with woken := rest } : Work) = w0 at *
      have a := resume_spec i w0 h0'
      have aq := a.queue
      have hlen : (resume i w0).woken.length + (resume i w0).st.waiters.length ≤ n := by
        have := congrArg List.length aq
        simp only [List.length_append, List.length_cons] at this
        have hpos : (ids (resume i w0).evs).length = (ids w0.evs).length + 1 := by
          by_cases hT : 0 < w0.st.T
          · rw [(a.pos hT).2.1, ids_append]; simp [ids]
          · rw [(a.nonpos (by omega)).2.1, ids_append]; simp [ids]
        rw [hw] at hn
        simp only [List.length_cons] at hn
        rw [hw0, hw1] at this
        omega
      have d := ih (resume i w0) a.inv hlen
      have dT : (drain n (resume i w0)).st.T = w.st.T := by rw [d.T, a.T, hT0]
      have dVle := d.V_le
      rw [a.T, hT0] at dVle
      have dVge := d.V_ge
      refine ⟨d.inv, d.done, dT, ?_, ?_, ?_, ?_, ?_, ?_, ?_, ?_, ?_, ?_, ?_⟩
      · rw [d.slack, a.slack, hsl]; omega
      · rw [d.queue, hq0]
        simp only [Work.queue]
        rw [aq]
      · have h1 := a.wl; have h2 := d.wl; rw [hw1] at h1; omega
      · by_cases hT : 0 < w.st.T
        · have := (a.pos (by omega)).1; omega
        · have := (a.nonpos (by omega)).1; omega
      · by_cases hT : 0 < w.st.T
        · have hv := (a.pos (by omega)).1; omega
        · have hv := (a.nonpos (by omega)).1; omega
      · intro hT _
        have hv := (a.pos (by omega)).1
        omega
      · intro hTV
        by_cases hT : 0 < w.st.T
        · have hv := (a.pos (by omega)).1
          have := d.V_same (by rw [a.T]; omega); omega
        · have hv := (a.nonpos (by omega)).1
          have := d.V_same (by rw [a.T]; omega); omega
      · rw [d.L, a.L]; exact hL0
      · intro hT
        rw [d.H_nonpos (by rw [a.T]; omega), (a.nonpos (by omega)).2.2]; exact hH0
      · intro hnil; rw [hw] at hnil; exact absurd hnil (by simp)
      · obtain ⟨e', he', hp', hn'⟩ := d.evs_ext
        by_cases hT : 0 < w.st.T
        · refine ⟨Ev.entered i :: e', ?_, ?_, ?_⟩
          · rw [he', (a.pos (by omega)).2.1, hev0]; simp
          · intro _ x hx
            simp at hx
            rcases hx with rfl | hx
            · exact ⟨i, rfl⟩
            · exact hp' (by rw [a.T]; omega) x hx
          · intro hc; omega
        · refine ⟨Ev.refused i :: e', ?_, ?_, ?_⟩
          · rw [he', (a.nonpos (by omega)).2.1, hev0]; simp
          · intro hc; omega
          · intro _ x hx
            simp at hx
            rcases hx with rfl | hx
            · exact ⟨i, rfl⟩
            · exact hn' (by rw [a.T]; omega) x hx

end Aiorpcx.C13
