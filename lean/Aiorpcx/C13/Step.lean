import Aiorpcx.C13.Lemmas
/-! C13 — what one quiescent big-step does, in the vocabulary of the property. -/
namespace Aiorpcx.C13

/-- the invariant of quiescent states of the repaired class — **any** targets, also ≤ 0, and any
number of refusals: no permit is ever lost (`S + |holders| = V`), nobody waits while a permit is
free, and at least one permit always stays in circulation -/
structure Inv (s : Lim) : Prop where
  S_nonneg : 0 ≤ s.S
  cons : s.S + s.holders.length = s.V
  wait_S : s.waiters ≠ [] → s.S = 0
  V_pos : 1 ≤ s.V
  no_leak : s.leaked = 0
  fx : s.fixed = true

theorem init_inv (n : Int) : Inv (init n) :=
  ⟨by simp only [init]; omega, by simp [init], by simp [init], by simp only [init]; omega, rfl, rfl⟩

/-- result of `finish` on a work state -/
structure FinishSpec (w : Work) (r : Lim × List Ev) : Prop where
  inv0 : 0 ≤ r.1.S ∧ (r.1.waiters ≠ [] → r.1.S = 0)
  T : r.1.T = w.st.T
  slack : r.1.V - (r.1.S + r.1.holders.length + r.1.leaked) = w.slack
  queue : ids r.2 ++ r.1.waiters = w.queue
  wl : r.1.waiters.length ≤ w.st.waiters.length
  V_ge : w.st.V ≤ r.1.V
  V_le : r.1.V ≤ max w.st.V w.st.T
  V_raise : 0 < w.st.T → w.woken ≠ [] → r.1.V = max w.st.V w.st.T
  V_same : w.st.T ≤ w.st.V → r.1.V = w.st.V
  L : r.1.leaked = w.st.leaked
  H_nonpos : w.st.T ≤ 0 → r.1.holders = w.st.holders
  fx : r.1.fixed = true
  nil : w.woken = [] → r = (w.st, w.evs)
  evs_ext : ∃ e, r.2 = w.evs ++ e ∧ (0 < w.st.T → ∀ x ∈ e, ∃ i, x = Ev.entered i) ∧
            (w.st.T ≤ 0 → ∀ x ∈ e, ∃ i, x = Ev.refused i)

theorem finish_spec (w : Work) (h : WInv w) : FinishSpec w (finish w) := by
  have d := drain_spec (w.woken.length + w.st.waiters.length) w h (Nat.le_refl _)
  unfold finish
  refine ⟨⟨d.inv.S_nonneg, d.inv.wait_S⟩, d.T, ?_, ?_, d.wl, d.V_ge, d.V_le, d.V_raise, d.V_same, d.L, d.H_nonpos, d.inv.fx, ?_, d.evs_ext⟩
  · have := d.slack
    simp only [Work.slack, d.done, List.length_nil] at this ⊢
    omega
  · have := d.queue
    simp only [Work.queue, d.done, List.nil_append] at this
    exact this
  · intro hnil; rw [d.nil hnil]

/-- `enter i` when the semaphore is not locked -/
structure EnterNowSpec (s : Lim) (i : Nat) (r : Lim × List Ev) : Prop where
  inv : Inv r.1
  T : r.1.T = s.T
  queue : ids r.2 ++ r.1.waiters = [i]
  V_le : r.1.V ≤ max s.V s.T
  V_ge : s.V ≤ r.1.V
  pos : 0 < s.T → r.1.V = max s.V s.T ∧ r.2 = [Ev.entered i] ∧ r.1.holders = s.holders ++ [i]
  nonpos : s.T ≤ 0 → r.1.V = s.V ∧ r.2 = [Ev.refused i] ∧ r.1.holders = s.holders

theorem enter_now_spec (s : Lim) (i : Nat) (h : Inv s) (hS : s.S ≠ 0) (hw : s.waiters = []) :
    EnterNowSpec s i (finish (admitTask i ⟨{ s with S := s.S - 1 }, [], []⟩)) := by
  have hS0 := h.S_nonneg
  have hc := h.cons
  have hl := h.no_leak
  have hv := h.V_pos
  have w0inv : WInv ⟨{ s with S := s.S - 1 }, [], []⟩ :=
    ⟨by simp only []; omega, by simp [hw], h.fx⟩
  have a := admitTask_spec i _ w0inv
  have f := finish_spec _ a.inv
  generalize hw1 : admitTask i ⟨{ s with S := s.S - 1 }, [], []⟩ = w1 at a f
  generalize finish w1 = r at f
  have hsl0 : (⟨{ s with S := s.S - 1 }, [], []⟩ : Work).slack = 1 := by
    simp only [Work.slack, List.length_nil, hl]; omega
  have aT : w1.st.T = s.T := a.T
  have aL : w1.st.leaked = s.leaked := a.L
  have fq := f.queue
  have aq := a.queue
  simp only [ids_nil, List.nil_append, hw, List.append_nil] at aq
  have hq : ids r.2 ++ r.1.waiters = [i] := by rw [fq]; simpa [Work.queue] using aq
  have hVge : s.V ≤ r.1.V := by
    have := f.V_ge
    by_cases hT : 0 < s.T
    · have := (a.pos hT).1; simp only [] at this; omega
    · have := (a.nonpos (by simpa using Int.not_lt.mp hT)).1; simp only [] at this; omega
  have hL : r.1.leaked = 0 := by rw [f.L, aL]; exact hl
  refine ⟨⟨f.inv0.1, ?_, f.inv0.2, by omega, hL, f.fx⟩, by rw [f.T, aT], hq, ?_, hVge, ?_, ?_⟩
  · have := f.slack; rw [a.slack, hsl0, hL] at this; simp at this; omega
  · have := f.V_le; rw [aT] at this
    by_cases hT : 0 < s.T
    · have := (a.pos hT).1; simp only [] at this; omega
    · have := (a.nonpos (by simpa using Int.not_lt.mp hT)).1; simp only [] at this; omega
  · intro hT
    obtain ⟨p1, p2, p3⟩ := a.pos hT
    simp only [List.nil_append] at p1 p2 p3
    have hv := f.V_same (by rw [aT, p1]; omega)
    -- no waiter exists, so nobody is woken: the step ends with the admission of i
    have hwk : w1.woken = [] := by
      have aq' := aq
      rw [p2] at aq'
      simp only [List.nil_append, ids, List.cons_append, List.cons.injEq, true_and,
        List.append_eq_nil_iff] at aq'
      exact aq'.1
    have hr := f.nil hwk
    refine ⟨by rw [hv, p1], by rw [hr]; exact p2, by rw [hr]; exact p3⟩
  · intro hT
    obtain ⟨p1, p2, p3⟩ := a.nonpos hT
    simp only [List.nil_append] at p1 p2 p3
    have hv := f.V_le; have hv2 := f.V_ge; rw [aT, p1] at hv; rw [p1] at hv2
    obtain ⟨e, he, _, hn⟩ := f.evs_ext
    have hq' := hq
    rw [he, p2, ids_append] at hq'
    simp only [ids, List.cons_append, List.nil_append, List.cons.injEq, true_and,
      List.append_eq_nil_iff] at hq'
    have he0 : e = [] := by
      cases e with
      | nil => rfl
      | cons x xs =>
        obtain ⟨j, rfl⟩ := hn (by rw [aT]; exact hT) x (by simp)
        simp [ids] at hq'
    subst he0
    exact ⟨by omega, by rw [he, p2]; rfl, by rw [f.H_nonpos (by rw [aT]; exact hT), p3]⟩


/-- `exit i` of a holder when no capacity has to be retired (`V ≤ max T 1`): the permit goes back
to the semaphore -/
structure ExitReleaseSpec (s : Lim) (i : Nat) (r : Lim × List Ev) : Prop where
  inv : Inv r.1
  T : r.1.T = s.T
  queue : ids r.2 ++ r.1.waiters = s.waiters
  V_le : r.1.V ≤ max s.V s.T
  V_ge : s.V ≤ r.1.V
  V_same : s.T ≤ s.V → r.1.V = s.V
  progress : s.waiters ≠ [] → ids r.2 ≠ [] ∧ (0 < s.T → r.1.V = max s.V s.T)
  H_nonpos : s.T ≤ 0 → r.1.holders = s.holders.erase i
  evs : (0 < s.T → ∀ x ∈ r.2, ∃ j, x = Ev.entered j) ∧ (s.T ≤ 0 → ∀ x ∈ r.2, ∃ j, x = Ev.refused j)

theorem exit_release_spec (s : Lim) (i : Nat) (h : Inv s) (hi : i ∈ s.holders) :
    ExitReleaseSpec s i (finish (release ⟨{ s with holders := s.holders.erase i }, [], []⟩)) := by
  have hS0 := h.S_nonneg
  have hc := h.cons
  have hl := h.no_leak
  have hv := h.V_pos
  have hlen : (s.holders.erase i).length = s.holders.length - 1 := List.length_erase_of_mem hi
  have hpos : 1 ≤ s.holders.length := List.length_pos_of_mem hi
  have w0inv : WInv ⟨{ s with holders := s.holders.erase i }, [], []⟩ := ⟨hS0, h.wait_S, h.fx⟩
  obtain ⟨rinv, fr, hs⟩ := release_spec _ w0inv
  have f := finish_spec _ rinv
  generalize release ⟨{ s with holders := s.holders.erase i }, [], []⟩ = w1 at rinv fr hs f
  generalize finish w1 = r at f
  have e1 : w1.st.T = s.T := fr.T
  have e2 : w1.st.V = s.V := fr.V
  have e3 : w1.st.holders = s.holders.erase i := fr.H
  have e4 : w1.st.leaked = s.leaked := fr.L
  have e5 : w1.evs = [] := fr.evs
  have e6 : w1.woken ++ w1.st.waiters = s.waiters := by simpa using fr.q
  have e7 : w1.st.S + w1.woken.length = s.S + 1 := by simpa using hs
  have hsl : w1.slack = 0 := by
    simp only [Work.slack, e2, e3, e4, hlen, hl]; omega
  obtain ⟨e, he, hp, hn⟩ := f.evs_ext
  rw [e5, List.nil_append] at he
  have hL : r.1.leaked = 0 := by rw [f.L, e4]; exact hl
  have hVge : s.V ≤ r.1.V := by have := f.V_ge; rw [e2] at this; exact this
  refine ⟨⟨f.inv0.1, ?_, f.inv0.2, by omega, hL, f.fx⟩, by rw [f.T, e1], ?_, ?_, hVge, ?_, ?_, ?_, ?_⟩
  · have := f.slack; rw [hsl, hL] at this; simp at this; omega
  · rw [f.queue]; simp [Work.queue, e5, e6]
  · have := f.V_le; rw [e1, e2] at this; exact this
  · intro hTV; have := f.V_same (by rw [e1, e2]; exact hTV); rw [this, e2]
  · intro hne
    have hS : s.S = 0 := h.wait_S hne
    have hwk : w1.woken ≠ [] := by
      intro h0
      rw [h0] at e7 e6
      simp only [List.length_nil, List.nil_append] at e7 e6
      have := rinv.wait_S (by rw [e6]; exact hne)
      omega
    refine ⟨?_, ?_⟩
    · -- the head waiter was woken, and every woken task is dealt with
      intro hids
      have hq := f.queue
      rw [hids, List.nil_append] at hq
      simp only [Work.queue, e5, ids_nil, List.nil_append] at hq
      have h1 := congrArg List.length hq
      simp only [List.length_append] at h1
      have h2 := f.inv0
      have : w1.woken.length ≠ 0 := by
        intro hz; exact hwk (List.eq_nil_of_length_eq_zero hz)
      have hr := f.wl
      omega
    · intro hT
      have := f.V_raise (by rw [e1]; exact hT) hwk
      rw [this, e1, e2]
  · intro hT; rw [f.H_nonpos (by rw [e1]; exact hT), e3]
  · refine ⟨?_, ?_⟩
    · intro hT x hx; rw [he] at hx; exact hp (by rw [e1]; exact hT) x hx
    · intro hT x hx; rw [he] at hx; exact hn (by rw [e1]; exact hT) x hx

end Aiorpcx.C13
