/-! Helpers for the behavioural tables of the generated facts files (C13, C14, C20): the tables are
`List (List Int)` terms produced by `int_rows%` (IntRows.lean); rationals are stored as numerator,
denominator.  No Mathlib imports. -/
namespace Aiorpcx.Table

/-- rationals are stored as numerator, denominator -/
def ratOf (num den : Int) : Rat := (num : Rat) / (den : Rat)

end Aiorpcx.Table
