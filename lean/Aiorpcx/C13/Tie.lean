import Aiorpcx.C13.Props
import Aiorpcx.C13.Table
import Aiorpcx.Facts.C13
/-!
# C13 — tie of the limiter model to the source

Kept apart from Props.lean so that the properties that reuse the limiter *model and theorems*
(C14's composition, C20's outgoing limiter) do not depend on C13's facts tables.
-/
namespace Aiorpcx.C13

/-! ## tie to the source: behavioural tables regenerated on every run by RUNNING the current tree
(tools/facts/c13.py).  Nothing below depends on how `Concurrency` is written — only on what it
does; a behaviour-preserving rewrite leaves the tables, hence these theorems, untouched. -/

theorem facts_initial : Facts.C13.initialConcurrent = 20 ∧ Facts.C13.outgoingInitial = 50 ∧
    Facts.C13.refusalIsRuntimeError = true := by
  decide

def opOf (code arg : Int) : Op :=
  if code = 0 then .enter arg.toNat
  else if code = 1 then .exit arg.toNat
  else if code = 2 then .cancelWaiter arg.toNat
  else .setTarget arg

def evCode : Ev → List Int
  | .entered i => [0, (i : Int)]
  | .refused i => [1, (i : Int)]
  | .cancelled i => [2, (i : Int)]
  | .bad => [3, 0]

def insertSorted (x : Nat) : List Nat → List Nat
  | [] => [x]
  | y :: r => if x ≤ y then x :: y :: r else y :: insertSorted x r

def isort : List Nat → List Nat
  | [] => []
  | x :: r => insertSorted x (isort r)

def natsI (l : List Nat) : List Int := (l.length : Int) :: l.map (fun (x : Nat) => (x : Int))

/-- what the facts probe observes after each operation, computed by the model and flattened the
way tools/facts/limprobe.py flattens its own observations -/
def obsRun (s : Lim) : List Op → List Int
  | [] => []
  | op :: ops =>
      let r := step s op
      ((r.2.length : Int) :: (r.2.map evCode).flatten) ++ natsI (isort r.1.holders) ++
        natsI r.1.waiters ++ [r.1.T] ++ obsRun r.1 ops

/-- read `n` (code, argument) pairs -/
def takeOps : Nat → List Int → Option (List Op × List Int)
  | 0, l => some ([], l)
  | n + 1, c :: a :: l => (takeOps n l).map (fun r => (opOf c a :: r.1, r.2))
  | _ + 1, _ => none

def rowOk (row : List Int) : Bool :=
  match row with
  | n :: k :: rest =>
      match takeOps k.toNat rest with
      | some (ops, obs) => decide (obsRun (init n) ops = obs)
      | none => false
  | _ => false

/-- **The model computes what the real `Concurrency` does** on the whole grid of operation
sequences the facts extractor ran (every applicable sequence of three operations over enter /
exit / cancel a waiter / `set_target 0..3` for initial limits 1 and 2, each followed by three
probe entries, plus the F23 scenarios and other longer sequences): same admissions, refusals,
holders, queue and `max_concurrent` after every operation.  On the tree without F23 this
obligation fails (rows with limit ≤ 0). -/
theorem facts_limiter_table :
    Facts.C13.limiterTable.all rowOk = true ∧ 100 ≤ Facts.C13.limiterTable.length := by
  decide +kernel

/-- let the oldest holder leave until nobody holds a permit; collects the events and the peak -/
def drainOldest : Nat → Lim → List Ev → Nat → List Ev × Nat
  | 0, _, evs, pk => (evs, pk)
  | f + 1, s, evs, pk =>
      match s.holders with
      | [] => (evs, pk)
      | i :: _ =>
          let r := step s (.exit i)
          drainOldest f r.1 (evs ++ r.2) (max pk r.1.holders.length)

/-- a burst of `k` entries on a limiter of `limit`, then everybody leaves oldest first:
(peak number of holders, order of admission) -/
def burstObs (limit k : Nat) : Nat × List Nat :=
  let r := run (init (limit : Int)) ((List.range k).map Op.enter)
  let d := drainOldest k r.1 r.2 r.1.holders.length
  (d.2, ids d.1)

/-- **Both session classes run their handler inside the incoming limiter**: bursts of `k`
messages through a real `RPCSession` and a real `MessageSession` with `initial_concurrent = limit`
show exactly the peak concurrency and the start order the limiter model gives. -/
theorem facts_session_guard :
    Facts.C13.guardTable.all (fun row => decide (burstObs row.2.1 row.2.2.1 = (row.2.2.2.1, row.2.2.2.2)))
      = true ∧
    (Facts.C13.guardTable.map (·.1)).eraseDups = [0, 1] := by decide +kernel

/-- the history a row of the table stands for -/
def unansweredOps (k j how : Nat) : List SessOp :=
  List.replicate k .recv ++ List.replicate j .finish ++
    (if how = 1 then .loopExit :: List.replicate (k - j) .cancelled
     else if how = 2 then List.replicate (k - j) .cancelled else [])

/-- `unanswered_request_count()` read from live sessions of both classes agrees with the session
model - also after the handlers still running or queued were ended by the loss of the connection
or by the processing timeout -/
theorem facts_unanswered :
    Facts.C13.unansweredTable.all (fun row =>
      decide ((Sess.run ⟨true, 0⟩ (unansweredOps row.2.1 row.2.2.1 row.2.2.2.1)).unanswered = row.2.2.2.2))
      = true ∧ 20 ≤ Facts.C13.unansweredTable.length ∧
    (Facts.C13.unansweredTable.map (·.1)).eraseDups = [0, 1] ∧
    (Facts.C13.unansweredTable.map (·.2.2.2.1)).eraseDups = [0, 1, 2] := by decide +kernel

end Aiorpcx.C13
