import Aiorpcx.Common.Hex
import Aiorpcx.C13.Model
/-! Line-protocol driver for the C13 limiter model.
    in : `<init>[!] <op> <op> ...` (`!` = the pinned class, before F23) with ops `e<i>` enter, `x<i>` exit, `c<i>` cancel waiter `i`,
         `t<n>` set_target(n) (n may be negative: `t-1`)
    out: one record per op, joined by ` | `:
         `<events>;h=<holders sorted>;w=<waiters FIFO>;T=<target>` with events `E<i>` entered,
         `R<i>` refused, `C<i>` cancelled, `B` bad, `-` when there is none. -/
open Aiorpcx Aiorpcx.C13

def showEv : Ev → String
  | .entered i => s!"E{i}"
  | .refused i => s!"R{i}"
  | .cancelled i => s!"C{i}"
  | .bad => "B"

def showList (l : List Nat) : String :=
  if l.isEmpty then "-" else String.intercalate "." (l.map toString)

def sortNat (l : List Nat) : List Nat := (l.toArray.qsort (· < ·)).toList

def parseOp (s : String) : Option Op :=
  match s.toList with
  | 'e' :: r => (String.ofList r).toNat?.map Op.enter
  | 'x' :: r => (String.ofList r).toNat?.map Op.exit
  | 'c' :: r => (String.ofList r).toNat?.map Op.cancelWaiter
  | 't' :: r => (String.ofList r).toInt?.map Op.setTarget
  | _ => none

def record (s : Lim) (evs : List Ev) : String :=
  let e := if evs.isEmpty then "-" else String.intercalate "," (evs.map showEv)
  s!"{e};h={showList (sortNat s.holders)};w={showList s.waiters};T={s.T}"

def go (s : Lim) : List Op → List String
  | [] => []
  | op :: ops => let r := step s op; record r.1 r.2 :: go r.1 ops

def handle (line : String) : String :=
  match (line.splitOn " ").filter (· ≠ "") with
  | n :: ops =>
    let pinned := n.endsWith "!"
    let n := if pinned then (n.dropEnd 1).toString else n
    match n.toInt?, ops.mapM parseOp with
    | some n, some ops =>
        if ops.isEmpty then "."
        else String.intercalate " | " (go (if pinned then initPinned n.toNat else init n) ops)
    | _, _ => "bad-op"
  | _ => "bad-op"

def main : IO Unit := Hex.lineLoop handle
