import Aiorpcx.Common.Hex
import Aiorpcx.C13.Model
/-! Line-protocol driver for the C13 limiter model.
    in : `<init>[!] <op> <op> ...` (`!` = the pinned class, before F23) with ops `e<i>` enter, `x<i>` exit, `c<i>` cancel waiter `i`,
         `t<n>` set_target(n) (n may be negative: `t-1`),
         `y<i>:<j>` exit of i and cancellation of waiter j in ONE loop iteration, `z<n>:<i>`
         set_target(n) and exit of i back to back
    out: one record per op, joined by ` | `:
         `<events>;h=<holders sorted>;w=<waiters FIFO>;T=<target>` with events `E<i>` entered,
         `R<i>` refused, `C<i>` cancelled, `B` bad, `-` when there is none. -/
open Aiorpcx Aiorpcx.C13

def showEv : Ev → String
  | .entered i => s!"E{i}"
  | .refused i => s!"R{i}"
  | .cancelled i => s!"C{i}"
  | .bad => "B"

def showList (l : List Nat) : String :=
  if l.isEmpty then "-" else String.intercalate "." (l.map toString)

def sortNat (l : List Nat) : List Nat := (l.toArray.qsort (· < ·)).toList

/-- driver operations: the model's, plus the composites `y<i>:<j>` (exit of i and cancellation of
waiter j in one loop iteration) and `z<n>:<i>` (`set_target(n)` and the exit of i back to back) -/
inductive DOp where
  | one (op : Op)
  | exitCancel (i j : Nat)
  | targetExit (n : Int) (i : Nat)

def parsePair (r : List Char) : Option (String × String) :=
  match (String.ofList r).splitOn ":" with
  | [a, b] => some (a, b)
  | _ => none

def parseOp (s : String) : Option Op :=
  match s.toList with
  | 'e' :: r => (String.ofList r).toNat?.map Op.enter
  | 'x' :: r => (String.ofList r).toNat?.map Op.exit
  | 'c' :: r => (String.ofList r).toNat?.map Op.cancelWaiter
  | 't' :: r => (String.ofList r).toInt?.map Op.setTarget
  | _ => none

def record (s : Lim) (evs : List Ev) : String :=
  let e := if evs.isEmpty then "-" else String.intercalate "," (evs.map showEv)
  s!"{e};h={showList (sortNat s.holders)};w={showList s.waiters};T={s.T}"

def parseDOp (s : String) : Option DOp :=
  match s.toList with
  | 'y' :: r => (parsePair r).bind (fun p => match p.1.toNat?, p.2.toNat? with
      | some i, some j => some (DOp.exitCancel i j) | _, _ => none)
  | 'z' :: r => (parsePair r).bind (fun p => match p.1.toInt?, p.2.toNat? with
      | some n, some i => some (DOp.targetExit n i) | _, _ => none)
  | _ => (parseOp s).map DOp.one

def dstep (s : Lim) : DOp → Lim × List Ev
  | .one op => step s op
  | .exitCancel i j => stepExitCancel s i j
  | .targetExit n i => let r1 := step s (.setTarget n); let r2 := step r1.1 (.exit i); (r2.1, r1.2 ++ r2.2)

def go (s : Lim) : List DOp → List String
  | [] => []
  | op :: ops => let r := dstep s op; record r.1 r.2 :: go r.1 ops

def handle (line : String) : String :=
  match (line.splitOn " ").filter (· ≠ "") with
  | n :: ops =>
    let pinned := n.endsWith "!"
    let n := if pinned then (n.dropEnd 1).toString else n
    match n.toInt?, ops.mapM parseDOp with
    | some n, some ops =>
        if ops.isEmpty then "."
        else String.intercalate " | " (go (if pinned then initPinned n.toNat else init n) ops)
    | _, _ => "bad-op"
  | _ => "bad-op"

def main : IO Unit := Hex.lineLoop handle
