import Aiorpcx.C13.Step
/-!
# C13 — property theorems for the concurrency limiter

Model: `Aiorpcx.C13.step` (Model.lean) = what `Concurrency.__aenter__/__aexit__/set_target` and the
`asyncio.Semaphore` wake-up chain do between two quiescent points.  `run (init n) ops` is a
`Concurrency(n)` driven by the operation list `ops`.  Everything below is quantified over **all**
operation lists (every interleaving of entries, exits, cancelled waiters and limit changes) — no
bound.  The semaphore's FIFO wake-up and cancel-safety are assumed laws of asyncio (trusted base),
exercised by the correspondence.

The model mirrors the class **as repaired by fixes/F23-limiter-last-permit.diff** (`fixed = true`):
a refused entrant hands its permit back and `__aexit__` never retires the last permit.  All
theorems therefore hold for **all** targets, also ≤ 0.  The pinned class (`initPinned`,
`fixed = false`) loses the permit of a refused entrant and retires capacity down to 0, after which
nobody can ever enter: see the `*_fails_pinned` witnesses.
-/
namespace Aiorpcx.C13

/-! ## step equations -/

theorem step_enter_wait (s : Lim) (i : Nat) (h : s.S = 0 ∨ s.waiters ≠ []) :
    step s (.enter i) = ({ s with waiters := s.waiters ++ [i] }, []) := by
  simp [step, h]

theorem step_enter_now (s : Lim) (i : Nat) (h1 : s.S ≠ 0) (h2 : s.waiters = []) :
    step s (.enter i) = finish (admitTask i ⟨{ s with S := s.S - 1 }, [], []⟩) := by
  simp [step, h1, h2]

theorem step_exit_bad (s : Lim) (i : Nat) (h : i ∉ s.holders) :
    step s (.exit i) = (s, [Ev.bad]) := by
  simp [step, h]

/-- the retire bound of the repaired class: the target, but never below 1 -/
def bound (s : Lim) : Int := max s.T 1

theorem retireBound_fixed (s : Lim) (h : s.fixed = true) (l : List Nat) :
    retireBound { s with holders := l } = bound s := by
  simp [retireBound, bound, h]

theorem step_exit_retire (s : Lim) (hf : s.fixed = true) (i : Nat) (h : i ∈ s.holders)
    (hv : s.V > bound s) :
    step s (.exit i) = ({ s with holders := s.holders.erase i, V := s.V - 1 }, []) := by
  simp only [step, h, ↓reduceIte, retireBound_fixed s hf]
  simp [hv]

theorem step_exit_release (s : Lim) (hf : s.fixed = true) (i : Nat) (h : i ∈ s.holders)
    (hv : ¬ s.V > bound s) :
    step s (.exit i) = finish (release ⟨{ s with holders := s.holders.erase i }, [], []⟩) := by
  simp only [step, h, ↓reduceIte, retireBound_fixed s hf]
  simp [hv]

theorem step_cancel (s : Lim) (i : Nat) (h : i ∈ s.waiters) :
    step s (.cancelWaiter i) = ({ s with waiters := s.waiters.erase i }, [Ev.cancelled i]) := by
  simp [step, h]

theorem step_cancel_bad (s : Lim) (i : Nat) (h : i ∉ s.waiters) :
    step s (.cancelWaiter i) = (s, [Ev.bad]) := by
  simp [step, h]

theorem step_setTarget (s : Lim) (n : Int) : step s (.setTarget n) = ({ s with T := n }, []) := rfl

def Op.isSetTarget : Op → Bool
  | .setTarget _ => true
  | _ => false

/-- 1 when the op is the exit of a holder that retires a unit of excess capacity -/
def retires (s : Lim) : Op → Int
  | .exit i => if i ∈ s.holders ∧ s.V > bound s then 1 else 0
  | _ => 0

/-- everything one step does, in one place (used by all the theorems below) -/
structure StepFacts (s : Lim) (op : Op) (r : Lim × List Ev) : Prop where
  inv : Inv r.1
  T : op.isSetTarget = false → r.1.T = s.T
  V_le : op.isSetTarget = false → r.1.V ≤ max s.V s.T
  V_same : op.isSetTarget = false → s.T ≤ s.V → r.1.V = s.V - retires s op

theorem erase_mem_length (l : List Nat) (i : Nat) (h : i ∈ l) :
    ((l.erase i).length : Int) = l.length - 1 := by
  have := List.length_erase_of_mem h
  have := List.length_pos_of_mem h
  omega

theorem enter_cases (s : Lim) :
    (s.S = 0 ∨ s.waiters ≠ []) ∨ (s.S ≠ 0 ∧ s.waiters = []) := by
  by_cases hl : s.S = 0 ∨ s.waiters ≠ []
  · exact Or.inl hl
  · right
    refine ⟨fun hh => hl (Or.inl hh), ?_⟩
    cases hh : s.waiters with
    | nil => rfl
    | cons a b => exact absurd (Or.inr (by simp [hh])) hl

theorem step_facts (s : Lim) (op : Op) (h : Inv s) : StepFacts s op (step s op) := by
  have hS0 := h.S_nonneg
  have hc := h.cons
  have hvp := h.V_pos
  cases op with
  | enter i =>
    rcases enter_cases s with hl | ⟨h1, h2⟩
    · rw [step_enter_wait s i hl]
      refine ⟨⟨hS0, hc, ?_, hvp, h.no_leak, h.fx⟩, fun _ => rfl, fun _ => by dsimp only; omega,
        fun _ _ => by simp [retires]⟩
      intro _
      rcases hl with hl | hl
      · exact hl
      · exact h.wait_S hl
    · rw [step_enter_now s i h1 h2]
      have e := enter_now_spec s i h h1 h2
      refine ⟨e.inv, fun _ => e.T, fun _ => e.V_le, ?_⟩
      intro _ hTV
      have := e.V_le; have := e.V_ge
      simp only [retires]; omega
  | exit i =>
    by_cases hi : i ∈ s.holders
    · by_cases hv : s.V > bound s
      · rw [step_exit_retire s h.fx i hi hv]
        have := erase_mem_length s.holders i hi
        have hb : bound s ≥ 1 := by unfold bound; omega
        refine ⟨⟨hS0, by dsimp only; omega, h.wait_S, by dsimp only; omega, h.no_leak, h.fx⟩,
          fun _ => rfl, fun _ => by dsimp only; omega, ?_⟩
        intro _ _; simp [retires, hi, hv]
      · rw [step_exit_release s h.fx i hi hv]
        have e := exit_release_spec s i h hi
        refine ⟨e.inv, fun _ => e.T, fun _ => e.V_le, ?_⟩
        intro _ hTV; rw [e.V_same hTV]; simp [retires, hv]
    · rw [step_exit_bad s i hi]
      exact ⟨h, fun _ => rfl, fun _ => by dsimp only; omega, fun _ _ => by simp [retires, hi]⟩
  | cancelWaiter i =>
    by_cases hi : i ∈ s.waiters
    · rw [step_cancel s i hi]
      refine ⟨⟨hS0, hc, ?_, hvp, h.no_leak, h.fx⟩, fun _ => rfl, fun _ => by dsimp only; omega,
        fun _ _ => by simp [retires]⟩
      intro _
      exact h.wait_S (by intro h0; rw [h0] at hi; simp at hi)
    · rw [step_cancel_bad s i hi]
      exact ⟨h, fun _ => rfl, fun _ => by dsimp only; omega, fun _ _ => by simp [retires]⟩
  | setTarget n =>
    rw [step_setTarget]
    exact ⟨⟨hS0, hc, h.wait_S, hvp, h.no_leak, h.fx⟩, by simp [Op.isSetTarget],
      by simp [Op.isSetTarget], by simp [Op.isSetTarget]⟩

theorem step_inv (s : Lim) (op : Op) (h : Inv s) : Inv (step s op).1 := (step_facts s op h).inv

theorem run_inv (ops : List Op) : ∀ (s : Lim), Inv s → Inv (run s ops).1 := by
  induction ops with
  | nil => intro s h; exact h
  | cons op ops ih => intro s h; exact ih _ (step_inv s op h)

/-! ## the property -/

/-- **Permits are neither lost nor duplicated** — for **every** sequence of entries, exits,
cancelled waiters and `set_target(n)` with *any* `n` (also zero and negative) on a
`Concurrency(n)` with *any* initial limit, and however many entrants were refused: the free permits plus the holders
are exactly the represented capacity (no permit is lost by a refusal), and at least one permit
always stays in circulation (`V ≥ 1`).  (The statement is about every op list, hence about every
prefix = every moment.) -/
theorem permit_conservation (n : Int) (ops : List Op) :
    let s := (run (init n) ops).1
    s.S + s.holders.length = s.V ∧ 0 ≤ s.S ∧ 1 ≤ s.V ∧ s.leaked = 0 := by
  have i := run_inv ops _ (init_inv n)
  exact ⟨i.cons, i.S_nonneg, i.V_pos, i.no_leak⟩

/-- the full statement as a predicate of the start state (used for the pinned witness) -/
def permit_conservation_full (start : Lim) : Prop :=
  ∀ ops : List Op, let s := (run start ops).1
    s.S + s.holders.length = s.V ∧ 1 ≤ s.V

theorem permit_conservation_repaired (n : Int) : permit_conservation_full (init n) :=
  fun ops => ⟨(permit_conservation n ops).1, (permit_conservation n ops).2.2.1⟩

/-- **F23 (pinned class)**: a refused entrant keeps the permit it acquired (`1 t0 e0`: S = 0,
no holder, V = 1), and the last permit is retired at target 0 (`1 e0 t0 x0`: V = 0). -/
theorem permit_conservation_fails_pinned : ¬ permit_conservation_full (initPinned 1) := by
  intro h
  have := (h [.setTarget 0, .enter 0]).1
  revert this
  decide

theorem last_permit_retired_pinned :
    (run (initPinned 1) [.enter 0, .setTarget 0, .exit 0]).1.V = 0 := by decide

theorem run_bound (ops : List Op) : ∀ (s : Lim) (m : Int), Inv s → s.V ≤ m → s.T ≤ m →
    (run s ops).1.V ≤ maxTarget m ops ∧ (run s ops).1.T ≤ maxTarget m ops := by
  induction ops with
  | nil => intro s m _ hv ht; exact ⟨hv, ht⟩
  | cons op ops ih =>
    intro s m h hv ht
    have f := step_facts s op h
    cases op with
    | setTarget n =>
      simp only [run, maxTarget]
      apply ih _ _ f.inv
      · rw [step_setTarget]; simp only []; omega
      · rw [step_setTarget]; simp only []; omega
    | enter i =>
      simp only [run, maxTarget]
      have := f.V_le rfl; have := f.T rfl
      exact ih _ _ f.inv (by omega) (by omega)
    | exit i =>
      simp only [run, maxTarget]
      have := f.V_le rfl; have := f.T rfl
      exact ih _ _ f.inv (by omega) (by omega)
    | cancelWaiter i =>
      simp only [run, maxTarget]
      have := f.V_le rfl; have := f.T rfl
      exact ih _ _ f.inv (by omega) (by omega)

/-- **The number of holders never exceeds the largest limit that has been in force** (the
initial one and every `set_target` so far; an initial limit ≤ 0 admits nobody, the bound then
starts at 1) — for all op lists, all targets. -/
theorem never_exceeds_max_target (n : Int) (ops : List Op) :
    ((run (init n) ops).1.holders.length : Int) ≤ maxTarget (max n 1) ops := by
  have i := run_inv ops _ (init_inv n)
  have b := run_bound ops (init n) (max n 1) (init_inv n) (by simp only [init]; omega)
    (by simp only [init]; omega)
  have := i.cons; have := i.S_nonneg
  omega

/-- 1 when `op` is the exit of a task that really holds a permit -/
def effExit (s : Lim) : Op → Nat
  | .exit i => if i ∈ s.holders then 1 else 0
  | _ => 0

/-- effective exits (a holder really left) in an op list run from `s` -/
def exitsDone (s : Lim) : List Op → Nat
  | [] => 0
  | op :: ops => effExit s op + exitsDone (step s op).1 ops

def noSetTarget : List Op → Prop
  | [] => True
  | op :: ops => op.isSetTarget = false ∧ noSetTarget ops

theorem reduction_run (ops : List Op) : ∀ (s : Lim), Inv s → s.T ≤ s.V → noSetTarget ops →
    (run s ops).1.V = max (bound s) (s.V - exitsDone s ops) ∧ (run s ops).1.T = s.T := by
  induction ops with
  | nil =>
    intro s h htv _; refine ⟨?_, rfl⟩
    have := h.V_pos
    simp only [run, exitsDone, bound]; omega
  | cons op ops ih =>
    intro s h htv hno
    have f := step_facts s op h
    have hT := f.T hno.1
    have hV := f.V_same hno.1 htv
    have hvp := h.V_pos
    have hb : bound (step s op).1 = bound s := by unfold bound; rw [hT]
    simp only [run, exitsDone]
    cases op with
    | setTarget n => exact absurd hno.1 (by simp [Op.isSetTarget])
    | enter i =>
      simp only [retires] at hV
      have := ih _ f.inv (by omega) hno.2
      rw [hb] at this
      simp only [effExit]
      omega
    | cancelWaiter i =>
      simp only [retires] at hV
      have := ih _ f.inv (by omega) hno.2
      rw [hb] at this
      simp only [effExit]
      omega
    | exit i =>
      simp only [retires] at hV
      simp only [effExit]
      have hbd : bound s = max s.T 1 := rfl
      by_cases hi : i ∈ s.holders
      · by_cases hv : s.V > bound s
        · simp only [hi, hv, and_self, ↓reduceIte] at hV
          have := ih _ f.inv (by omega) hno.2
          rw [hb] at this
          simp only [hi, ↓reduceIte]
          omega
        · simp only [hi, hv, and_false, ↓reduceIte] at hV
          have := ih _ f.inv (by omega) hno.2
          rw [hb] at this
          simp only [hi, ↓reduceIte]
          omega
      · simp only [hi, false_and, ↓reduceIte] at hV
        have := ih _ f.inv (by omega) hno.2
        rw [hb] at this
        simp only [hi, ↓reduceIte]
        omega

/-- **A lowered limit retires one excess permit per exit and then holds.**  From any reachable
state with capacity `V₀`, after `set_target(n)` with `n ≤ V₀` (any `n`, also ≤ 0) and any further
operations other than `set_target` among which `k` holders left, the capacity is exactly
`max (max n 1) (V₀ − k)` — the last permit is never retired; hence once `V₀ − n` handlers have
completed the number of holders is at most `max n 1` (until the next raise), i.e. at most `n` for
every limit of at least 1. -/
theorem reduction_takes_effect (s : Lim) (h : Inv s) (n : Int) (hn : n ≤ s.V) (ops : List Op)
    (hno : noSetTarget ops) :
    let s' := (run (step s (.setTarget n)).1 ops).1
    let k := exitsDone (step s (.setTarget n)).1 ops
    s'.V = max (max n 1) (s.V - k) ∧ (s'.holders.length : Int) ≤ max (max n 1) (s.V - k) ∧
    (s.V - n ≤ k → (s'.holders.length : Int) ≤ max n 1) := by
  have hi : Inv (step s (.setTarget n)).1 := step_inv s _ h
  have r := reduction_run ops (step s (.setTarget n)).1 hi (by rw [step_setTarget]; exact hn) hno
  have i' := run_inv ops _ hi
  have := i'.cons; have := i'.S_nonneg
  have hv : (step s (.setTarget n)).1.V = s.V := rfl
  have ht : bound (step s (.setTarget n)).1 = max n 1 := rfl
  rw [hv, ht] at r
  refine ⟨r.1, by omega, fun _ => by omega⟩

/-- **A raised limit admits the extra holders from the next entry on**: in any reachable state
with a positive limit, a step in which somebody enters the block brings the capacity up to the
limit (`V' = max V T`), and afterwards either nobody waits or every permit is in use. -/
theorem raise_admits_on_next_entry (s : Lim) (h : Inv s) (hT : 0 < s.T) (op : Op)
    (hop : op.isSetTarget = false) (j : Nat) (hj : Ev.entered j ∈ (step s op).2) :
    (step s op).1.V = max s.V s.T ∧
    ((step s op).1.waiters = [] ∨
      ((step s op).1.holders.length : Int) = (step s op).1.V) := by
  have f := step_facts s op h
  have hfree : (step s op).1.waiters = [] ∨
      ((step s op).1.holders.length : Int) = (step s op).1.V := by
    cases hw : (step s op).1.waiters with
    | nil => exact Or.inl rfl
    | cons a b =>
      right
      have := f.inv.wait_S (by simp [hw]); have := f.inv.cons; omega
  refine ⟨?_, hfree⟩
  cases op with
  | setTarget n => simp [Op.isSetTarget] at hop
  | cancelWaiter i =>
    by_cases hi : i ∈ s.waiters
    · rw [step_cancel s i hi] at hj; simp at hj
    · rw [step_cancel_bad s i hi] at hj; simp at hj
  | enter i =>
    rcases enter_cases s with hl | ⟨h1, h2⟩
    · rw [step_enter_wait s i hl] at hj; simp at hj
    · rw [step_enter_now s i h1 h2]
      exact ((enter_now_spec s i h h1 h2).pos hT).1
  | exit i =>
    by_cases hi : i ∈ s.holders
    · by_cases hv : s.V > bound s
      · rw [step_exit_retire s h.fx i hi hv] at hj; simp at hj
      · rw [step_exit_release s h.fx i hi hv] at hj ⊢
        have e := exit_release_spec s i h hi
        have hne : s.waiters ≠ [] := by
          intro h0
          have q := e.queue.trans h0
          have : ids (finish (release ⟨{ s with holders := s.holders.erase i }, [], []⟩)).2 = [] :=
            (List.append_eq_nil_iff.1 q).1
          generalize (finish (release ⟨{ s with holders := s.holders.erase i }, [], []⟩)).2 = l at hj this
          clear q e
          induction l with
          | nil => simp at hj
          | cons x xs ih =>
            cases x <;> simp [ids] at this hj
            all_goals exact ih hj this
        exact (e.progress hne).2 hT
    · rw [step_exit_bad s i hi] at hj; simp at hj

/-- **Waiting tasks are admitted in arrival order.**  In every reachable state, whatever the
operation: the tasks admitted by the step (entered or refused) followed by the tasks still
waiting are exactly the old waiting list with the newcomer appended at the back — admission
always takes from the front of the arrival-ordered queue; a cancelled waiter just disappears. -/
theorem fifo_admission (s : Lim) (h : Inv s) (op : Op) :
    let r := step s op
    match op with
    | .enter i => ids r.2 ++ r.1.waiters = s.waiters ++ [i]
    | .exit _ => ids r.2 ++ r.1.waiters = s.waiters
    | .cancelWaiter i => ids r.2 = [] ∧ r.1.waiters = s.waiters.erase i
    | .setTarget _ => ids r.2 = [] ∧ r.1.waiters = s.waiters := by
  cases op with
  | setTarget n => exact ⟨rfl, rfl⟩
  | cancelWaiter i =>
    by_cases hi : i ∈ s.waiters
    · rw [step_cancel s i hi]; exact ⟨rfl, rfl⟩
    · rw [step_cancel_bad s i hi]; exact ⟨rfl, (List.erase_of_not_mem hi).symm⟩
  | enter i =>
    rcases enter_cases s with hl | ⟨h1, h2⟩
    · rw [step_enter_wait s i hl]; rfl
    · rw [step_enter_now s i h1 h2]
      have := (enter_now_spec s i h h1 h2).queue
      simpa [h2] using this
  | exit i =>
    by_cases hi : i ∈ s.holders
    · by_cases hv : s.V > bound s
      · rw [step_exit_retire s h.fx i hi hv]; rfl
      · rw [step_exit_release s h.fx i hi hv]
        exact (exit_release_spec s i h hi).queue
    · rw [step_exit_bad s i hi]; rfl

/-- **Nobody waits while no handler runs** — for all targets, also ≤ 0: at every quiescent point,
if there are waiters then all `V ≥ 1` permits are held (so some holder exists whose exit will
move the queue). -/
theorem no_starvation (n : Int) (ops : List Op) :
    let s := (run (init n) ops).1
    (s.waiters ≠ [] → (s.holders.length : Int) = s.V ∧ s.holders ≠ []) ∧
    (s.holders = [] → s.waiters = []) := by
  have i := run_inv ops _ (init_inv n)
  have hc := i.cons; have hv := i.V_pos
  have key : (run (init n) ops).1.waiters ≠ [] →
      ((run (init n) ops).1.holders.length : Int) = (run (init n) ops).1.V ∧
      (run (init n) ops).1.holders ≠ [] := by
    intro hw
    have h0 := i.wait_S hw
    refine ⟨by omega, ?_⟩
    intro hh; rw [hh, h0] at hc; simp at hc; omega
  refine ⟨key, ?_⟩
  intro hh
  cases hw : (run (init n) ops).1.waiters with
  | nil => rfl
  | cons a b => exact absurd hh (key (by simp [hw])).2

/-- the full statement as a predicate of the start state -/
def no_starvation_full (start : Lim) : Prop :=
  ∀ ops : List Op, (run start ops).1.holders = [] → (run start ops).1.waiters = []

theorem no_starvation_repaired (n : Int) : no_starvation_full (init n) :=
  fun ops => (no_starvation n ops).2

/-- **F23 (pinned class)**: two holders, two queued, the limit goes to 0, the holders leave:
the queued tasks wait for ever although nobody holds a permit (they are neither admitted nor
refused) — and stay there after the limit is raised again. -/
theorem no_starvation_fails_pinned : ¬ no_starvation_full (initPinned 2) := by
  intro h
  have := h [.enter 0, .enter 1, .enter 2, .enter 3, .setTarget 0, .exit 0, .exit 1,
             .setTarget 2, .enter 4] (by decide)
  revert this
  decide

/-- **Every exit makes progress for the queue** (ranking function), for all targets.  In a
reachable state with somebody waiting, each exit of a holder either retires one unit of excess
capacity or admits (lets in, or — at a limit ≤ 0 — refuses) at least the head of the queue:
`|admitted| + excess` strictly exceeds the new excess, where `excess = (V − max T 1)⁺`. -/
theorem exit_progress (s : Lim) (h : Inv s) (i : Nat) (hi : i ∈ s.holders)
    (hw : s.waiters ≠ []) :
    let r := step s (.exit i)
    ids r.2 ++ r.1.waiters = s.waiters ∧ r.1.T = s.T ∧
    (r.1.V - bound r.1).toNat + 1 ≤ (ids r.2).length + (s.V - bound s).toNat := by
  have hvp := h.V_pos
  by_cases hv : s.V > bound s
  · rw [step_exit_retire s h.fx i hi hv]
    refine ⟨rfl, rfl, ?_⟩
    simp only [ids_nil, List.length_nil, bound] at hv ⊢; omega
  · rw [step_exit_release s h.fx i hi hv]
    have e := exit_release_spec s i h hi
    obtain ⟨h1, h2⟩ := e.progress hw
    refine ⟨e.queue, e.T, ?_⟩
    have : 1 ≤ (ids (finish (release ⟨{ s with holders := s.holders.erase i }, [], []⟩)).2).length := by
      cases hh : ids (finish (release ⟨{ s with holders := s.holders.erase i }, [], []⟩)).2 with
      | nil => exact absurd hh h1
      | cons a b => simp
    have hb : bound (finish (release ⟨{ s with holders := s.holders.erase i }, [], []⟩)).1 = bound s := by
      unfold bound; rw [e.T]
    rw [hb]
    unfold bound at hv ⊢
    by_cases hT : 0 < s.T
    · rw [h2 hT]; omega
    · rw [e.V_same (by omega)]; omega

/-- every op of the list is the exit of a task that holds a permit at that moment -/
def exitsOnly (s : Lim) : List Op → Prop
  | [] => True
  | .exit i :: ops => i ∈ s.holders ∧ exitsOnly (step s (.exit i)).1 ops
  | _ :: _ => False

theorem served_within_aux (ops : List Op) : ∀ (s : Lim), Inv s → exitsOnly s ops →
    ids (run s ops).2 ++ (run s ops).1.waiters = s.waiters ∧
    min (s.waiters.length : Int) ((ops.length : Int) - (s.V - bound s).toNat)
      ≤ (ids (run s ops).2).length := by
  induction ops with
  | nil =>
    intro s _ _
    simp only [run, ids_nil, List.nil_append, List.length_nil]
    exact ⟨trivial, by omega⟩
  | cons op ops ih =>
    intro s h he
    cases op with
    | enter i => exact absurd he (by simp [exitsOnly])
    | cancelWaiter i => exact absurd he (by simp [exitsOnly])
    | setTarget n => exact absurd he (by simp [exitsOnly])
    | exit i =>
      obtain ⟨hi, he'⟩ := he
      have f := step_facts s (.exit i) h
      obtain ⟨q2, l2⟩ := ih _ f.inv he'
      have q1 : ids (step s (.exit i)).2 ++ (step s (.exit i)).1.waiters = s.waiters :=
        fifo_admission s h (.exit i)
      simp only [run, ids_append, List.length_append, List.length_cons]
      refine ⟨by rw [List.append_assoc, q2, q1], ?_⟩
      have hlen := congrArg List.length q1
      simp only [List.length_append] at hlen
      by_cases hw : s.waiters = []
      · simp only [hw, List.length_nil]; omega
      · have pr := (exit_progress s h i hi hw).2.2
        omega

/-- **All waiters are eventually served — with a bound**, for all targets.  From any reachable
state, let only holders leave (any holders, in any order; no new arrivals are needed and none can
overtake — `fifo_admission`): after `n` such exits at least `min(|waiters|, n − excess)` waiters
have been admitted — let in, or refused when the limit is ≤ 0 — in queue order, where
`excess = (V − max T 1)⁺` is the capacity still to be retired after a reduction.  Hence the waiter
at position `p` is dealt with after at most `p + 1 + excess` exits, and by `no_starvation` a holder
that can exit always exists while somebody waits. -/
theorem served_within (s : Lim) (h : Inv s) (ops : List Op) (he : exitsOnly s ops)
    (k : Nat) (hk : k < s.waiters.length) (hn : k + 1 + (s.V - bound s).toNat ≤ ops.length) :
    ∃ x, s.waiters[k]? = some x ∧ (ids (run s ops).2)[k]? = some x := by
  obtain ⟨q, l⟩ := served_within_aux ops s h he
  have hlen : k < (ids (run s ops).2).length := by omega
  refine ⟨s.waiters[k], by simp [hk], ?_⟩
  have : s.waiters[k]? = (ids (run s ops).2 ++ (run s ops).1.waiters)[k]? := by rw [q]
  rw [List.getElem?_append_left hlen] at this
  rw [← this]; simp [hk]

/-- operations other than exits and `set_target` never push a waiter back: the excess does not
grow (the queue part is `fifo_admission`). -/
theorem rank_no_regress (s : Lim) (h : Inv s) (op : Op) (hop : op.isSetTarget = false) :
    ((step s op).1.V - bound (step s op).1).toNat ≤ (s.V - bound s).toNat := by
  have f := step_facts s op h
  have := f.V_le hop; have := f.T hop
  unfold bound
  omega

/-- **A limit of zero or less refuses entry**: while `T ≤ 0` no step lets anybody into the block,
and a task that gets the permit is refused (`ExcessiveSessionCostError`). -/
theorem zero_refuses (s : Lim) (h : Inv s) (hT : s.T ≤ 0) (op : Op) (hop : op.isSetTarget = false) :
    (∀ j, Ev.entered j ∉ (step s op).2) ∧
    (∀ i, op = .enter i → s.S ≠ 0 → s.waiters = [] →
      (step s op).2 = [Ev.refused i] ∧ (step s op).1.holders = s.holders ∧
      (step s op).1.V = s.V) := by
  refine ⟨?_, ?_⟩
  · intro j hj
    cases op with
    | setTarget n => simp [Op.isSetTarget] at hop
    | cancelWaiter i =>
      by_cases hi : i ∈ s.waiters
      · rw [step_cancel s i hi] at hj; simp at hj
      · rw [step_cancel_bad s i hi] at hj; simp at hj
    | enter i =>
      rcases enter_cases s with hl | ⟨h1, h2⟩
      · rw [step_enter_wait s i hl] at hj; simp at hj
      · rw [step_enter_now s i h1 h2] at hj
        rw [((enter_now_spec s i h h1 h2).nonpos hT).2.1] at hj
        simp at hj
    | exit i =>
      by_cases hi : i ∈ s.holders
      · by_cases hv : s.V > bound s
        · rw [step_exit_retire s h.fx i hi hv] at hj; simp at hj
        · rw [step_exit_release s h.fx i hi hv] at hj
          obtain ⟨k, hk⟩ := (exit_release_spec s i h hi).evs.2 hT _ hj
          cases hk
      · rw [step_exit_bad s i hi] at hj; simp at hj
  · intro i hop' h1 h2
    subst hop'
    rw [step_enter_now s i h1 h2]
    have e := (enter_now_spec s i h h1 h2).nonpos hT
    exact ⟨e.2.1, e.2.2, e.1⟩

/-- what the exit of a holder does while the limit is ≤ 0: it retires a unit of capacity while
more than the last permit is out; the exit that returns the last permit refuses **every** waiter,
in arrival order, and leaves nobody waiting -/
theorem exit_at_zero (s : Lim) (h : Inv s) (hT : s.T ≤ 0) (i : Nat) (hi : i ∈ s.holders) :
    let r := step s (.exit i)
    r.1.T = s.T ∧ r.1.holders = s.holders.erase i ∧
    (∀ x ∈ r.2, ∃ j, x = Ev.refused j) ∧
    (1 < s.V → r.2 = [] ∧ r.1.waiters = s.waiters) ∧
    (s.V = 1 → ids r.2 = s.waiters ∧ r.1.waiters = []) := by
  have hvp := h.V_pos
  have hb : bound s = 1 := by unfold bound; omega
  by_cases hv : s.V > bound s
  · rw [step_exit_retire s h.fx i hi hv]
    refine ⟨rfl, rfl, by simp, fun _ => ⟨rfl, rfl⟩, fun h1 => by omega⟩
  · rw [step_exit_release s h.fx i hi hv]
    have e := exit_release_spec s i h hi
    refine ⟨e.T, e.H_nonpos hT, e.evs.2 hT, fun h1 => by omega, ?_⟩
    intro hV1
    have hw : (finish (release ⟨{ s with holders := s.holders.erase i }, [], []⟩)).1.waiters = [] := by
      cases hh : (finish (release ⟨{ s with holders := s.holders.erase i }, [], []⟩)).1.waiters with
      | nil => rfl
      | cons a b =>
        exfalso
        have h0 := e.inv.wait_S (by simp [hh])
        have hc := e.inv.cons
        have hV := e.V_same (by omega)
        rw [e.H_nonpos hT, erase_mem_length _ _ hi] at hc
        have := h.cons; have := h.S_nonneg
        have := List.length_pos_of_mem hi
        omega
    have q := e.queue
    rw [hw, List.append_nil] at q
    exact ⟨q, hw⟩

theorem refused_at_zero_aux (ops : List Op) : ∀ (s : Lim), Inv s → s.T ≤ 0 → exitsOnly s ops →
    (s.waiters ≠ [] → ops.length = s.holders.length) →
    (ops.length ≤ s.holders.length) →
    (∀ x ∈ (run s ops).2, ∃ j, x = Ev.refused j) ∧
    (s.waiters ≠ [] → ids (run s ops).2 = s.waiters ∧ (run s ops).1.waiters = []) := by
  induction ops with
  | nil =>
    intro s h hT _ hlen _
    refine ⟨by simp [run], ?_⟩
    intro hw
    -- somebody waits, so all V ≥ 1 permits are held: there is a holder, contradiction
    have hl0 : (0 : Nat) = s.holders.length := hlen hw
    have h0 := h.wait_S hw; have := h.cons; have := h.V_pos
    omega
  | cons op ops ih =>
    intro s h hT he hlen hle
    cases op with
    | enter i => exact absurd he (by simp [exitsOnly])
    | cancelWaiter i => exact absurd he (by simp [exitsOnly])
    | setTarget n => exact absurd he (by simp [exitsOnly])
    | exit i =>
      obtain ⟨hi, he'⟩ := he
      have f := step_facts s (.exit i) h
      obtain ⟨eT, eH, eR, eBig, eOne⟩ := exit_at_zero s h hT i hi
      have hlenE := erase_mem_length s.holders i hi
      have hc := h.cons; have hS := h.S_nonneg; have hvp := h.V_pos
      simp only [List.length_cons] at hlen hle
      have ih' := ih (step s (.exit i)).1 f.inv (by rw [eT]; exact hT) he'
      simp only [run]
      by_cases hw : s.waiters = []
      · -- nobody waits: only the refusal-shape of the events is claimed
        have hnow : (step s (.exit i)).1.waiters = [] := by
          by_cases hV : 1 < s.V
          · rw [(eBig hV).2]; exact hw
          · exact (eOne (by omega)).2
        have r := ih' (by intro hne; exact absurd hnow hne) (by rw [eH]; omega)
        refine ⟨?_, fun hne => absurd hw hne⟩
        intro x hx
        rcases List.mem_append.1 hx with hx | hx
        · exact eR x hx
        · exact r.1 x hx
      · have hS0 := h.wait_S hw
        have hl := hlen hw
        by_cases hV : 1 < s.V
        · obtain ⟨e1, e2⟩ := eBig hV
          have r := ih' (by intro _; rw [eH]; omega) (by rw [eH]; omega)
          have r2 := r.2 (by rw [e2]; exact hw)
          refine ⟨?_, fun _ => ?_⟩
          · intro x hx
            rcases List.mem_append.1 hx with hx | hx
            · exact eR x hx
            · exact r.1 x hx
          · rw [e1, List.nil_append, r2.1, e2]; exact ⟨rfl, r2.2⟩
        · have hV1 : s.V = 1 := by omega
          obtain ⟨e1, e2⟩ := eOne hV1
          -- this was the last holder, so no op is left
          have hops : ops = [] := by
            cases ops with
            | nil => rfl
            | cons a b => simp only [List.length_cons] at hl; omega
          subst hops
          simp only [run, List.append_nil]
          exact ⟨eR, fun _ => ⟨e1, e2⟩⟩

/-- **Refused at zero — nobody is left waiting** (F23).  From any reachable state with a limit
≤ 0: let the holders leave (all of them, any order).  Every task that was waiting is refused
(`ExcessiveSessionCostError`), in arrival order, none is let in, and none is left waiting — so at
session level every queued request gets its −101 instead of timing out. -/
theorem refused_at_zero (s : Lim) (h : Inv s) (hT : s.T ≤ 0) (ops : List Op)
    (he : exitsOnly s ops) (hall : ops.length = s.holders.length) :
    ids (run s ops).2 = s.waiters ∧ (run s ops).1.waiters = [] ∧
    (∀ x ∈ (run s ops).2, ∃ j, x = Ev.refused j) := by
  obtain ⟨r1, r2⟩ := refused_at_zero_aux ops s h hT he (fun _ => hall) (by omega)
  by_cases hw : s.waiters = []
  · refine ⟨?_, ?_, r1⟩
    · -- only refusals of queued tasks can occur, and the queue is empty
      have q := (served_within_aux ops s h he).1
      rw [hw] at q
      rw [hw]; exact (List.append_eq_nil_iff.1 q).1
    · have q := (served_within_aux ops s h he).1
      rw [hw] at q
      exact (List.append_eq_nil_iff.1 q).2
  · exact ⟨(r2 hw).1, (r2 hw).2, r1⟩

theorem exitsOnly_noSetTarget (ops : List Op) : ∀ (s : Lim), exitsOnly s ops → noSetTarget ops := by
  induction ops with
  | nil => intro _ _; trivial
  | cons op ops ih =>
    intro s he
    cases op with
    | exit i => exact ⟨rfl, ih _ he.2⟩
    | enter i => exact absurd he (by simp [exitsOnly])
    | cancelWaiter i => exact absurd he (by simp [exitsOnly])
    | setTarget n => exact absurd he (by simp [exitsOnly])

/-- while the limit is ≤ 0 nobody gets in, so every exit shortens the list of holders -/
theorem exits_at_zero (ops : List Op) : ∀ (s : Lim), Inv s → s.T ≤ 0 → exitsOnly s ops →
    (run s ops).1.T = s.T ∧ (run s ops).1.holders.length + ops.length = s.holders.length := by
  induction ops with
  | nil => intro s _ _ _; exact ⟨rfl, by simp [run]⟩
  | cons op ops ih =>
    intro s h hT he
    cases op with
    | enter i => exact absurd he (by simp [exitsOnly])
    | cancelWaiter i => exact absurd he (by simp [exitsOnly])
    | setTarget n => exact absurd he (by simp [exitsOnly])
    | exit i =>
      obtain ⟨hi, he'⟩ := he
      obtain ⟨eT, eH, _, _, _⟩ := exit_at_zero s h hT i hi
      have r := ih (step s (.exit i)).1 (step_inv s _ h) (by rw [eT]; exact hT) he'
      have hl := List.length_erase_of_mem hi
      have hp := List.length_pos_of_mem hi
      simp only [run, List.length_cons]
      rw [eH] at r
      exact ⟨by rw [r.1, eT], by omega⟩

/-- the full statement as a predicate of a start state and a history leading to a limit ≤ 0 -/
def refused_at_zero_full (start : Lim) : Prop :=
  ∀ pre ops : List Op, let s := (run start pre).1
    s.T ≤ 0 → exitsOnly s ops → ops.length = s.holders.length → (run s ops).1.waiters = []

theorem refused_at_zero_repaired (n : Int) : refused_at_zero_full (init n) :=
  fun pre ops hT he hall => (refused_at_zero _ (run_inv pre _ (init_inv n)) hT ops he hall).2.1

theorem refused_at_zero_fails_pinned : ¬ refused_at_zero_full (initPinned 2) := by
  intro h
  have := h [.enter 0, .enter 1, .enter 2, .enter 3, .setTarget 0] [.exit 0, .exit 1]
    (by decide) ⟨by decide, by decide, trivial⟩ (by decide)
  revert this
  decide

/-- an entry while nobody holds a permit and the limit is positive gets in at once and tops the
permits up to the limit -/
theorem enter_free (s : Lim) (h : Inv s) (hh : s.holders = []) (hT : 0 < s.T) (i : Nat) :
    (step s (.enter i)).2 = [Ev.entered i] ∧ (step s (.enter i)).1.V = max s.V s.T ∧
    (step s (.enter i)).1.S = max s.V s.T - 1 ∧ (step s (.enter i)).1.holders = [i] := by
  have hc := h.cons; have hvp := h.V_pos
  rw [hh] at hc
  simp only [List.length_nil] at hc
  have hw : s.waiters = [] := by
    cases hw : s.waiters with
    | nil => rfl
    | cons a b => have := h.wait_S (by simp [hw]); omega
  have h1 : s.S ≠ 0 := by omega
  rw [step_enter_now s i h1 hw]
  have e := enter_now_spec s i h h1 hw
  generalize finish (admitTask i ⟨{ s with S := s.S - 1 }, [], []⟩) = r at e
  obtain ⟨p1, p2, p3⟩ := e.pos hT
  have hc' := e.inv.cons
  rw [p3, hh] at hc'
  refine ⟨p2, p1, ?_, by rw [p3, hh]; rfl⟩
  simp only [List.nil_append, List.length_singleton] at hc'
  omega

/-- **The limiter recovers after the limit is raised again** (F23).  In any reachable state in
which nobody holds a permit — e.g. after the limit was ≤ 0 and every request was refused —
`set_target(n ≥ 1)` followed by one entry lets that task in at once and tops the permits up to
the new limit: capacity `max V n`, of which all but the one just taken are free for the next
entrants. -/
theorem recovers_after_raise (s : Lim) (h : Inv s) (hh : s.holders = []) (n : Int) (hn : 1 ≤ n)
    (i : Nat) :
    let r := step (step s (.setTarget n)).1 (.enter i)
    r.2 = [Ev.entered i] ∧ r.1.V = max s.V n ∧ r.1.S = max s.V n - 1 ∧ r.1.holders = [i] :=
  enter_free (step s (.setTarget n)).1 (step_inv s _ h) hh (by show 0 < n; omega) i

/-- the full statement as a predicate of the start state -/
def recovers_after_raise_full (start : Lim) : Prop :=
  ∀ (pre : List Op) (n : Int) (i : Nat), let s := (run start pre).1
    s.holders = [] → 1 ≤ n → (step (step s (.setTarget n)).1 (.enter i)).2 = [Ev.entered i]

theorem recovers_after_raise_repaired (k : Int) : recovers_after_raise_full (init k) :=
  fun pre n i hh hn => (recovers_after_raise _ (run_inv pre _ (init_inv k)) hh n hn i).1

/-- **F23 (pinned class)**: `Concurrency(2)`: enter, enter, `set_target(0)`, exit, exit,
`set_target(2)`, enter — the late entrant blocks for ever (V = S = 0). -/
theorem recovers_after_raise_fails_pinned : ¬ recovers_after_raise_full (initPinned 2) := by
  intro h
  have := h [.enter 0, .enter 1, .setTarget 0, .exit 0, .exit 1] 2 5 (by decide) (by decide)
  revert this
  decide

/-! ## composite steps: two things within one loop iteration -/

/-- running the woken tasks of a balanced work state yields a state satisfying the invariant -/
theorem finish_inv (w : Work) (hw : WInv w) (hsl : w.slack = 0) (hV : 1 ≤ w.st.V)
    (hL : w.st.leaked = 0) : Inv (finish w).1 := by
  have f := finish_spec w hw
  have hl : (finish w).1.leaked = 0 := by rw [f.L, hL]
  refine ⟨f.inv0.1, ?_, f.inv0.2, by have := f.V_ge; omega, hl, f.fx⟩
  have := f.slack
  rw [hsl, hl] at this
  simp at this
  omega

/-- **Permit conservation across the composite step**: a holder leaves and, within the same loop
iteration, a waiter is cancelled — the one that had just been handed the permit (it passes it
on), or one still queued (it just leaves), or nobody (not waiting): the invariant
(`S + |holders| = V`, `V ≥ 1`, nobody waits while a permit is free) is preserved; no permit is
lost in that window. -/
theorem stepExitCancel_inv (s : Lim) (i j : Nat) (h : Inv s) : Inv (stepExitCancel s i j).1 := by
  have hS0 := h.S_nonneg; have hc := h.cons; have hvp := h.V_pos; have hl := h.no_leak
  unfold stepExitCancel
  by_cases hi : i ∈ s.holders
  · simp only [hi, ↓reduceIte]
    have hlen := erase_mem_length s.holders i hi
    have hpos := List.length_pos_of_mem hi
    rw [retireBound_fixed s h.fx]
    by_cases hv : s.V > bound s
    · simp only [hv, ↓reduceIte]
      have hb : bound s ≥ 1 := by unfold bound; omega
      have i2 : Inv { s with holders := s.holders.erase i, V := s.V - 1 } :=
        ⟨hS0, by dsimp only; omega, h.wait_S, by dsimp only; omega, hl, h.fx⟩
      by_cases hj : j ∈ s.waiters
      · simp only [hj, ↓reduceIte]
        refine ⟨hS0, i2.cons, ?_, i2.V_pos, hl, h.fx⟩
        intro _
        exact h.wait_S (by intro h0; rw [h0] at hj; simp at hj)
      · simp only [hj, ↓reduceIte]; exact i2
    · simp only [hv, ↓reduceIte]
      have w0inv : WInv ⟨{ s with holders := s.holders.erase i }, [], []⟩ := ⟨hS0, h.wait_S, h.fx⟩
      obtain ⟨rinv, fr, hs⟩ := release_spec _ w0inv
      generalize release ⟨{ s with holders := s.holders.erase i }, [], []⟩ = w at rinv fr hs
      have e2 : w.st.V = s.V := fr.V
      have e3 : w.st.holders = s.holders.erase i := fr.H
      have e4 : w.st.leaked = s.leaked := fr.L
      have e7 : w.st.S + w.woken.length = s.S + 1 := by simpa using hs
      have hsl : w.slack = 0 := by simp only [Work.slack, e2, e3, e4, hl]; omega
      by_cases hjw : j ∈ w.woken
      · simp only [hjw, ↓reduceIte]
        -- the woken waiter is cancelled before it ran: it passes the permit on
        have hwl := erase_mem_length w.woken j hjw
        have w1inv : WInv { w with woken := w.woken.erase j, evs := w.evs ++ [Ev.cancelled j] } :=
          ⟨rinv.S_nonneg, rinv.wait_S, rinv.fx⟩
        obtain ⟨r2, f2, h2⟩ := release_spec _ w1inv
        apply finish_inv _ r2
        · have a : (release { w with woken := w.woken.erase j, evs := w.evs ++ [Ev.cancelled j] }).st.V = w.st.V := f2.V
          have b : (release { w with woken := w.woken.erase j, evs := w.evs ++ [Ev.cancelled j] }).st.holders = w.st.holders := f2.H
          have c : (release { w with woken := w.woken.erase j, evs := w.evs ++ [Ev.cancelled j] }).st.leaked = w.st.leaked := f2.L
          have d : (release { w with woken := w.woken.erase j, evs := w.evs ++ [Ev.cancelled j] }).st.S +
              (release { w with woken := w.woken.erase j, evs := w.evs ++ [Ev.cancelled j] }).woken.length =
              w.st.S + (w.woken.erase j).length + 1 := h2
          simp only [Work.slack] at hsl ⊢
          rw [a, b, c]
          omega
        · rw [show (release { w with woken := w.woken.erase j, evs := w.evs ++ [Ev.cancelled j] }).st.V = w.st.V from f2.V, e2]
          exact hvp
        · rw [show (release { w with woken := w.woken.erase j, evs := w.evs ++ [Ev.cancelled j] }).st.leaked = w.st.leaked from f2.L, e4]
          exact hl
      · simp only [hjw, ↓reduceIte]
        by_cases hjq : j ∈ w.st.waiters
        · simp only [hjq, ↓reduceIte]
          -- a waiter still queued leaves; the woken task (if any) runs first
          have q0 : WInv { w with st := { w.st with waiters := w.st.waiters.erase j } } :=
            ⟨rinv.S_nonneg, fun _ => rinv.wait_S (by intro h0; rw [h0] at hjq; simp at hjq), rinv.fx⟩
          cases hwk : w.woken with
          | nil =>
            simp only [hwk]
            apply finish_inv
            · exact ⟨q0.S_nonneg, q0.wait_S, q0.fx⟩
            · simp only [Work.slack, hwk] at hsl ⊢; exact hsl
            · show 1 ≤ w.st.V; rw [e2]; exact hvp
            · show w.st.leaked = 0; rw [e4]; exact hl
          | cons x rest =>
            simp only [hwk]
            have q1 : WInv { ({ w with st := { w.st with waiters := w.st.waiters.erase j } } : Work) with woken := rest } :=
              ⟨q0.S_nonneg, q0.wait_S, q0.fx⟩
            have a := resume_spec x _ q1
            have sl1 : ({ ({ w with st := { w.st with waiters := w.st.waiters.erase j } } : Work) with woken := rest } : Work).slack = 1 := by
              simp only [Work.slack, hwk, List.length_cons] at hsl ⊢; push_cast at hsl; omega
            generalize resume x { ({ w with st := { w.st with waiters := w.st.waiters.erase j } } : Work) with woken := rest } = w1 at a
            apply finish_inv
            · exact ⟨a.inv.S_nonneg, a.inv.wait_S, a.inv.fx⟩
            · have := a.slack; rw [sl1] at this
              simp only [Work.slack] at this ⊢; omega
            · show 1 ≤ w1.st.V
              by_cases hT : 0 < w.st.T
              · have := (a.pos hT).1; simp only [] at this; omega
              · have := (a.nonpos (by simpa using Int.not_lt.mp hT)).1; simp only [] at this; omega
            · show w1.st.leaked = 0
              rw [a.L]; show w.st.leaked = 0; rw [e4]; exact hl
        · simp only [hjq, ↓reduceIte]
          exact finish_inv w rinv hsl (by rw [e2]; exact hvp) (by rw [e4]; exact hl)
  · simp only [hi, ↓reduceIte]; exact h

theorem step2_inv (s : Lim) (op : Op2) (h : Inv s) : Inv (step2 s op).1 := by
  cases op with
  | plain op => exact step_inv s op h
  | exitCancel i j => exact stepExitCancel_inv s i j h

theorem run2_inv (ops : List Op2) : ∀ (s : Lim), Inv s → Inv (run2 s ops).1 := by
  induction ops with
  | nil => intro s h; exact h
  | cons op ops ih => intro s h; exact ih _ (step2_inv s op h)

/-- **Permits are neither lost nor duplicated — also over streams with composite steps** (a
holder's exit and the cancellation of a waiter within one loop iteration, anywhere in the
stream, any number of times). -/
theorem permit_conservation_composite (n : Int) (ops : List Op2) :
    let s := (run2 (init n) ops).1
    s.S + s.holders.length = s.V ∧ 0 ≤ s.S ∧ 1 ≤ s.V ∧ s.leaked = 0 ∧ (s.waiters ≠ [] → s.S = 0) := by
  have i := run2_inv ops _ (init_inv n)
  exact ⟨i.cons, i.S_nonneg, i.V_pos, i.no_leak, i.wait_S⟩

-- the window itself: limit 1, a holder, a waiter; exit and cancellation of that waiter in one
-- iteration; the permit is back, the next entrant gets in
example : run2 (init 1) [.plain (.enter 0), .plain (.enter 1), .exitCancel 0 1, .plain (.enter 2)]
    = (⟨1, 1, 0, 0, [2], [], true⟩, [.entered 0, .cancelled 1, .entered 2]) := by decide
-- the cancelled waiter passes the permit on to the one behind it
example : (run2 (init 1) [.plain (.enter 0), .plain (.enter 1), .plain (.enter 2), .exitCancel 0 1]).2
    = [.entered 0, .cancelled 1, .entered 2] := by decide

/-! ## session layer: `unanswered_request_count` -/

inductive SessOp where
  | recv        -- the message loop spawns `_throttled_request` for a request / notification
  | finish      -- one `_throttled_request` task is done (reply sent)
  | cancelled   -- one handler task is ended from outside (the group cancels it after the loop
                -- task ended, `processing_timeout`, an external `cancel()`): it leaves `_pending`
                -- like one that finished - running or still queued for a slot alike
  | loopExit    -- the message-loop task ends (connection lost)
  deriving Repr, DecidableEq

def Sess.step (s : Sess) : SessOp → Sess
  | .recv => if s.loopAlive then { s with active := s.active + 1 } else s
  | .finish => { s with active := s.active - 1 }
  | .cancelled => { s with active := s.active - 1 }
  | .loopExit => { s with loopAlive := false }

def Sess.run (s : Sess) : List SessOp → Sess
  | [] => s
  | op :: ops => Sess.run (s.step op) ops

def recvs : List SessOp → Nat
  | [] => 0
  | .recv :: r => recvs r + 1
  | _ :: r => recvs r

def finishes : List SessOp → Nat
  | [] => 0
  | .finish :: r => finishes r + 1
  | .cancelled :: r => finishes r + 1        -- ended by cancellation is ended
  | _ :: r => finishes r

/-- a history of a live session: the loop task does not end, and a task can only finish if one
is active -/
def Sess.wf (s : Sess) : List SessOp → Prop
  | [] => True
  | .recv :: r => Sess.wf (s.step .recv) r
  | .finish :: r => 0 < s.active ∧ Sess.wf (s.step .finish) r
  | .cancelled :: r => 0 < s.active ∧ Sess.wf (s.step .cancelled) r
  | .loopExit :: _ => False

theorem unanswered_run (ops : List SessOp) : ∀ (s : Sess), s.loopAlive = true → s.wf ops →
    (Sess.run s ops).loopAlive = true ∧
    (Sess.run s ops).active + finishes ops = s.active + recvs ops := by
  induction ops with
  | nil => intro s h _; exact ⟨h, rfl⟩
  | cons op ops ih =>
    intro s h hw
    cases op with
    | recv =>
      have hs : s.step .recv = { s with active := s.active + 1 } := by simp [Sess.step, h]
      have := ih (s.step .recv) (by rw [hs]; exact h) hw
      simp only [Sess.run, recvs, finishes]
      rw [hs] at this ⊢
      refine ⟨this.1, ?_⟩
      have h2 := this.2
      simp only [] at h2
      omega
    | finish =>
      obtain ⟨hpos, hw'⟩ := hw
      have hs : s.step .finish = { s with active := s.active - 1 } := rfl
      have := ih (s.step .finish) (by rw [hs]; exact h) hw'
      simp only [Sess.run, recvs, finishes]
      rw [hs] at this ⊢
      refine ⟨this.1, ?_⟩
      have h2 := this.2
      simp only [] at h2
      omega
    | cancelled =>
      obtain ⟨hpos, hw'⟩ := hw
      have hs : s.step .cancelled = { s with active := s.active - 1 } := rfl
      have := ih (s.step .cancelled) (by rw [hs]; exact h) hw'
      simp only [Sess.run, recvs, finishes]
      rw [hs] at this ⊢
      refine ⟨this.1, ?_⟩
      have h2 := this.2
      simp only [] at h2
      omega
    | loopExit => exact absurd hw (by simp [Sess.wf])

/-- **Unanswered-request count** (session layer; partial: the TaskGroup bookkeeping
`_pending` = live member tasks is C09's invariant and is assumed here).  For every history of a
live session (requests/notifications received, handler tasks finishing **or being cancelled** —
processing timeout, external cancel; only tasks that exist can end): `max(0, len(_pending) − 1)` equals the number of received requests and notifications
minus the number whose handling has finished. -/
theorem unanswered_count (ops : List SessOp) (hw : (Sess.mk true 0).wf ops) :
    (Sess.run ⟨true, 0⟩ ops).unanswered + finishes ops = recvs ops ∧ finishes ops ≤ recvs ops := by
  obtain ⟨h1, h2⟩ := unanswered_run ops ⟨true, 0⟩ rfl hw
  simp only [Sess.unanswered, Sess.pending, h1, ↓reduceIte] at *
  omega

/-- **… and after the connection is gone**: once the message loop has ended (any earlier
well-formed history) and every handler task still alive — running or queued for a slot — has
been cancelled by the task group, the count is 0: nothing stays stuck (whatever happened before). -/
theorem unanswered_after_teardown (ops : List SessOp) :
    let s := Sess.run ⟨true, 0⟩ ops
    (Sess.run s (.loopExit :: List.replicate s.active .cancelled)).unanswered = 0 ∧
    (Sess.run s (.loopExit :: List.replicate s.active .cancelled)).active = 0 := by
  intro s
  have key : ∀ (a : Nat) (t : Sess), t.loopAlive = false → t.active = a →
      (Sess.run t (List.replicate a .cancelled)).active = 0 ∧
      (Sess.run t (List.replicate a .cancelled)).loopAlive = false := by
    intro a
    induction a with
    | zero => intro t h1 h2; exact ⟨h2, h1⟩
    | succ a ih =>
      intro t h1 h2
      simp only [List.replicate_succ, Sess.run]
      exact ih (t.step .cancelled) h1 (by show t.active - 1 = a; omega)
  obtain ⟨k1, k2⟩ := key s.active (s.step .loopExit) rfl rfl
  simp only [Sess.run]
  exact ⟨by simp [Sess.unanswered, Sess.pending, k1, k2], k1⟩

/-- what the formula gives once the loop task is gone (only between connection loss and the
cancellation of the remaining handlers — never at a quiescent point of a live session) -/
theorem unanswered_after_loop_exit (a : Nat) : (Sess.mk false a).unanswered = a - 1 := by
  simp [Sess.unanswered, Sess.pending]

/-! ## non-vacuity -/

-- a run that queues, raises, admits two at once, cancels a waiter and reduces
example : (run (init 2) [.enter 0, .enter 1, .enter 2, .setTarget 3, .enter 3, .exit 0]).2
    = [.entered 0, .entered 1, .entered 2, .entered 3] := by decide
example : (run (init 2) [.enter 0, .enter 1, .enter 2, .setTarget 3, .enter 3, .exit 0]).1
    = ⟨3, 3, 0, 0, [1, 2, 3], [], true⟩ := by decide
-- reduction: V₀ = 3, target 1, two exits ⇒ capacity 1
example : (run (init 3) [.enter 0, .enter 1, .enter 2, .setTarget 1, .exit 0, .exit 1, .enter 3]).1
    = ⟨1, 1, 0, 0, [2], [3], true⟩ := by decide
example : exitsDone (step (run (init 3) [.enter 0, .enter 1, .enter 2]).1 (.setTarget 1)).1
    [.exit 0, .exit 1, .enter 3] = 2 := by decide
-- zero refuses, the permit is handed back, and the limiter recovers (repaired class) …
example : run (init 1) [.setTarget 0, .enter 0, .setTarget 1, .enter 1]
    = (⟨1, 1, 0, 0, [1], [], true⟩, [.refused 0, .entered 1]) := by decide
-- … whereas the pinned class keeps the permit and the next entrant blocks for ever
example : run (initPinned 1) [.setTarget 0, .enter 0, .setTarget 1, .enter 1]
    = (⟨1, 1, 0, 1, [], [1], false⟩, [.refused 0]) := by decide
-- an initial limit of 0 refuses, and a later raise works
example : run (init 0) [.enter 0, .setTarget 2, .enter 1, .enter 2]
    = (⟨2, 2, 0, 0, [1, 2], [], true⟩, [.refused 0, .entered 1, .entered 2]) := by decide
-- F23 scenario on the repaired class: the queued tasks are refused in order when the last holder
-- leaves; after the raise the late entrant gets in and the capacity is back to 2
example : run (init 2) [.enter 0, .enter 1, .enter 2, .enter 3, .setTarget 0, .exit 0, .exit 1,
      .setTarget 2, .enter 4]
    = (⟨2, 2, 1, 0, [4], [], true⟩,
       [.entered 0, .entered 1, .refused 2, .refused 3, .entered 4]) := by decide
-- hypotheses of `refused_at_zero` are satisfiable
example : exitsOnly (run (init 2) [.enter 0, .enter 1, .enter 2, .enter 3, .setTarget 0]).1
    [.exit 0, .exit 1] := ⟨by decide, by decide, trivial⟩
-- `served_within`: after a reduction 3 → 1 with three holders and two waiters, the first waiter
-- (position 0) needs 0 + 1 + excess 2 = 3 exits
example : exitsOnly (run (init 3) [.enter 0, .enter 1, .enter 2, .enter 3, .enter 4, .setTarget 1]).1
    [.exit 0, .exit 1, .exit 2] ∧
    (run (run (init 3) [.enter 0, .enter 1, .enter 2, .enter 3, .enter 4, .setTarget 1]).1
      [.exit 0, .exit 1, .exit 2]).2 = [.entered 3] :=
  ⟨⟨by decide, by decide, by decide, trivial⟩, by decide⟩
-- hypotheses of `exit_progress` are satisfiable
example : (run (init 1) [.enter 0, .enter 1]).1.waiters ≠ [] ∧ 0 ∈ (run (init 1) [.enter 0, .enter 1]).1.holders :=
  ⟨by decide, by decide⟩
example : (Sess.run ⟨true, 0⟩ [.recv, .recv, .recv, .finish, .cancelled]).unanswered = 1 ∧
    (Sess.run ⟨true, 0⟩ [.recv, .recv, .recv, .finish, .loopExit, .cancelled, .cancelled]).unanswered = 0 :=
  ⟨by decide, by decide⟩
example : (Sess.run ⟨true, 0⟩ [.recv, .recv, .finish, .recv]).unanswered = 2 ∧
    (Sess.mk true 0).wf [.recv, .recv, .finish, .recv] :=
  ⟨by decide, by simp [Sess.wf, Sess.step]⟩

end Aiorpcx.C13
