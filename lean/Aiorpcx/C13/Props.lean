import Aiorpcx.C13.Step
import Aiorpcx.Facts.C13
/-!
# C13 — property theorems for the concurrency limiter

Model: `Aiorpcx.C13.step` (Model.lean) = what `Concurrency.__aenter__/__aexit__/set_target` and the
`asyncio.Semaphore` wake-up chain do between two quiescent points.  `run (init n) ops` is a
`Concurrency(n)` driven by the operation list `ops`.  Everything below is quantified over **all**
operation lists (every interleaving of entries, exits, cancelled waiters and limit changes) — no
bound.  The semaphore's FIFO wake-up and cancel-safety are assumed laws of asyncio (trusted base),
exercised by the correspondence.
-/
namespace Aiorpcx.C13

/-! ## step equations -/

theorem step_enter_wait (s : Lim) (i : Nat) (h : s.S = 0 ∨ s.waiters ≠ []) :
    step s (.enter i) = ({ s with waiters := s.waiters ++ [i] }, []) := by
  simp [step, h]

theorem step_enter_now (s : Lim) (i : Nat) (h1 : s.S ≠ 0) (h2 : s.waiters = []) :
    step s (.enter i) = finish (admitTask i ⟨{ s with S := s.S - 1 }, [], []⟩) := by
  simp [step, h1, h2]

theorem step_exit_bad (s : Lim) (i : Nat) (h : i ∉ s.holders) :
    step s (.exit i) = (s, [Ev.bad]) := by
  simp [step, h]

theorem step_exit_retire (s : Lim) (i : Nat) (h : i ∈ s.holders) (hv : s.V > s.T) :
    step s (.exit i) = ({ s with holders := s.holders.erase i, V := s.V - 1 }, []) := by
  simp [step, h, hv]

theorem step_exit_release (s : Lim) (i : Nat) (h : i ∈ s.holders) (hv : ¬ s.V > s.T) :
    step s (.exit i) = finish (release ⟨{ s with holders := s.holders.erase i }, [], []⟩) := by
  simp [step, h, hv]

theorem step_cancel (s : Lim) (i : Nat) (h : i ∈ s.waiters) :
    step s (.cancelWaiter i) = ({ s with waiters := s.waiters.erase i }, [Ev.cancelled i]) := by
  simp [step, h]

theorem step_cancel_bad (s : Lim) (i : Nat) (h : i ∉ s.waiters) :
    step s (.cancelWaiter i) = (s, [Ev.bad]) := by
  simp [step, h]

theorem step_setTarget (s : Lim) (n : Int) : step s (.setTarget n) = ({ s with T := n }, []) := rfl

def Op.isSetTarget : Op → Bool
  | .setTarget _ => true
  | _ => false

/-- 1 when the op is the exit of a holder that retires a unit of excess capacity -/
def retires (s : Lim) : Op → Int
  | .exit i => if i ∈ s.holders ∧ s.V > s.T then 1 else 0
  | _ => 0

/-- everything one step does, in one place (used by all the theorems below) -/
structure StepFacts (s : Lim) (op : Op) (r : Lim × List Ev) : Prop where
  inv : Inv r.1
  T : op.isSetTarget = false → r.1.T = s.T
  V_le : op.isSetTarget = false → r.1.V ≤ max s.V s.T
  V_same : op.isSetTarget = false → s.T ≤ s.V →
    r.1.V = s.V - retires s op
  L_pos : op.isSetTarget = false → 0 < s.T → r.1.leaked = s.leaked
  V_lb : op.isSetTarget = false → min s.V (max s.T 0) ≤ r.1.V

theorem erase_mem_length (l : List Nat) (i : Nat) (h : i ∈ l) :
    ((l.erase i).length : Int) = l.length - 1 := by
  have := List.length_erase_of_mem h
  have := List.length_pos_of_mem h
  omega

theorem step_facts (s : Lim) (op : Op) (h : Inv s) : StepFacts s op (step s op) := by
  have hS0 := h.S_nonneg
  have hc := h.cons
  cases op with
  | enter i =>
    by_cases hl : s.S = 0 ∨ s.waiters ≠ []
    · rw [step_enter_wait s i hl]
      refine ⟨⟨hS0, hc, ?_⟩, fun _ => rfl, fun _ => by dsimp only; omega, fun _ _ => by simp [retires], fun _ _ => rfl,
        fun _ => by dsimp only; omega⟩
      intro _
      rcases hl with hl | hl
      · exact hl
      · exact h.wait_S hl
    · have h1 : s.S ≠ 0 := fun hh => hl (Or.inl hh)
      have h2 : s.waiters = [] := by
        cases hh : s.waiters with
        | nil => rfl
        | cons a b => exact absurd (Or.inr (by simp [hh])) hl
      rw [step_enter_now s i h1 h2]
      have e := enter_now_spec s i h h1 h2
      refine ⟨e.inv, fun _ => e.T, fun _ => e.V_le, ?_, ?_, ?_⟩
      · intro _ hTV
        have := e.V_le; have := e.V_ge
        simp only [retires]; omega
      · intro _ hT; exact (e.pos hT).2.2
      · intro _; have := e.V_ge; omega
  | exit i =>
    by_cases hi : i ∈ s.holders
    · by_cases hv : s.V > s.T
      · rw [step_exit_retire s i hi hv]
        have := erase_mem_length s.holders i hi
        refine ⟨⟨hS0, by dsimp only; omega, h.wait_S⟩, fun _ => rfl, fun _ => by dsimp only; omega, ?_,
          fun _ _ => rfl, fun _ => by dsimp only; omega⟩
        intro _ _; simp [retires, hi, hv]
      · rw [step_exit_release s i hi hv]
        have e := exit_release_spec s i h hi
        refine ⟨e.inv, fun _ => e.T, fun _ => e.V_le, ?_, fun _ hT => e.L_pos hT, ?_⟩
        · intro _ hTV; rw [e.V_same hTV]; simp [retires, hv]
        · intro _; have := e.V_ge; omega
    · rw [step_exit_bad s i hi]
      exact ⟨h, fun _ => rfl, fun _ => by dsimp only; omega, fun _ _ => by simp [retires, hi], fun _ _ => rfl, fun _ => by dsimp only; omega⟩
  | cancelWaiter i =>
    by_cases hi : i ∈ s.waiters
    · rw [step_cancel s i hi]
      refine ⟨⟨hS0, hc, ?_⟩, fun _ => rfl, fun _ => by dsimp only; omega, fun _ _ => by simp [retires], fun _ _ => rfl,
        fun _ => by dsimp only; omega⟩
      intro _
      exact h.wait_S (by intro h0; rw [h0] at hi; simp at hi)
    · rw [step_cancel_bad s i hi]
      exact ⟨h, fun _ => rfl, fun _ => by dsimp only; omega, fun _ _ => by simp [retires], fun _ _ => rfl, fun _ => by dsimp only; omega⟩
  | setTarget n =>
    rw [step_setTarget]
    exact ⟨⟨hS0, hc, h.wait_S⟩, by simp [Op.isSetTarget], by simp [Op.isSetTarget],
      by simp [Op.isSetTarget], by simp [Op.isSetTarget], by simp [Op.isSetTarget]⟩

theorem step_inv (s : Lim) (op : Op) (h : Inv s) : Inv (step s op).1 := (step_facts s op h).inv

theorem run_inv (ops : List Op) : ∀ (s : Lim), Inv s → Inv (run s ops).1 := by
  induction ops with
  | nil => intro s h; exact h
  | cons op ops ih => intro s h; exact ih _ (step_inv s op h)

theorem step_pos (s : Lim) (op : Op) (h : Inv s) (p : Pos s)
    (hop : ∀ n, op = .setTarget n → 1 ≤ n) : Pos (step s op).1 := by
  have f := step_facts s op h
  cases op with
  | setTarget n =>
    rw [step_setTarget]
    exact ⟨hop n rfl, p.V_pos, p.no_leak⟩
  | enter i =>
    have hT := f.T rfl; have hL := f.L_pos rfl (by have := p.T_pos; omega)
    have hV := f.V_lb rfl
    exact ⟨by rw [hT]; exact p.T_pos, by have := p.T_pos; have := p.V_pos; omega, by rw [hL]; exact p.no_leak⟩
  | exit i =>
    have hT := f.T rfl; have hL := f.L_pos rfl (by have := p.T_pos; omega)
    have hV := f.V_lb rfl
    exact ⟨by rw [hT]; exact p.T_pos, by have := p.T_pos; have := p.V_pos; omega, by rw [hL]; exact p.no_leak⟩
  | cancelWaiter i =>
    have hT := f.T rfl; have hL := f.L_pos rfl (by have := p.T_pos; omega)
    have hV := f.V_lb rfl
    exact ⟨by rw [hT]; exact p.T_pos, by have := p.T_pos; have := p.V_pos; omega, by rw [hL]; exact p.no_leak⟩

theorem run_pos (ops : List Op) : ∀ (s : Lim), Inv s → Pos s → targetsGE1 ops → Pos (run s ops).1 := by
  induction ops with
  | nil => intro s _ p _; exact p
  | cons op ops ih =>
    intro s h p ht
    have hop : ∀ n, op = .setTarget n → 1 ≤ n := by
      intro n hn; subst hn; exact ht.1
    have ht' : targetsGE1 ops := by
      cases op <;> first | exact ht | exact ht.2
    exact ih _ (step_inv s op h) (step_pos s op h p hop) ht'

/-! ## the property -/

/-- **Permits are neither lost nor duplicated** (limits of at least 1): after any sequence of
entries, exits, cancelled waiters and `set_target(n ≥ 1)` on a `Concurrency(n ≥ 1)`, the free
permits plus the holders are exactly the represented capacity, which never drops below 1; nothing
has leaked.  (The statement is about every op list, hence about every prefix = every moment.) -/
theorem permit_conservation (n : Nat) (hn : 1 ≤ n) (ops : List Op) (ht : targetsGE1 ops) :
    let s := (run (init n) ops).1
    s.S + s.holders.length = s.V ∧ 0 ≤ s.S ∧ 1 ≤ s.V ∧ s.leaked = 0 := by
  have i := run_inv ops _ (init_inv n)
  have p := run_pos ops _ (init_inv n) (init_pos n hn) ht
  have := i.cons
  refine ⟨by rw [p.no_leak] at this; simpa using this, i.S_nonneg, p.V_pos, p.no_leak⟩

/-- The general accounting, valid for *all* targets (also ≤ 0, which only C14's recalculation
produces): a permit is missing from `S + |holders|` exactly for every refused entrant — the code
does not give the permit back when `_retarget_semaphore` raises. -/
theorem permit_accounting (n : Nat) (ops : List Op) :
    let s := (run (init n) ops).1
    s.S + s.holders.length + s.leaked = s.V ∧ 0 ≤ s.S :=
  let i := run_inv ops _ (init_inv n)
  ⟨i.cons, i.S_nonneg⟩

theorem run_bound (ops : List Op) : ∀ (s : Lim) (m : Int), Inv s → s.V ≤ m → s.T ≤ m →
    (run s ops).1.V ≤ maxTarget m ops ∧ (run s ops).1.T ≤ maxTarget m ops := by
  induction ops with
  | nil => intro s m _ hv ht; exact ⟨hv, ht⟩
  | cons op ops ih =>
    intro s m h hv ht
    have f := step_facts s op h
    cases op with
    | setTarget n =>
      simp only [run, maxTarget]
      apply ih _ _ f.inv
      · rw [step_setTarget]; simp only []; omega
      · rw [step_setTarget]; simp only []; omega
    | enter i =>
      simp only [run, maxTarget]
      have := f.V_le rfl; have := f.T rfl
      exact ih _ _ f.inv (by omega) (by omega)
    | exit i =>
      simp only [run, maxTarget]
      have := f.V_le rfl; have := f.T rfl
      exact ih _ _ f.inv (by omega) (by omega)
    | cancelWaiter i =>
      simp only [run, maxTarget]
      have := f.V_le rfl; have := f.T rfl
      exact ih _ _ f.inv (by omega) (by omega)

/-- **The number of holders never exceeds the largest limit that has been in force** (the
initial one and every `set_target` so far) — for all op lists, all targets. -/
theorem never_exceeds_max_target (n : Nat) (ops : List Op) :
    ((run (init n) ops).1.holders.length : Int) ≤ maxTarget n ops := by
  have i := run_inv ops _ (init_inv n)
  have b := run_bound ops (init n) n (init_inv n) (by simp [init]) (by simp [init])
  have := i.cons; have := i.S_nonneg
  omega

/-- 1 when `op` is the exit of a task that really holds a permit -/
def effExit (s : Lim) : Op → Nat
  | .exit i => if i ∈ s.holders then 1 else 0
  | _ => 0

/-- effective exits (a holder really left) in an op list run from `s` -/
def exitsDone (s : Lim) : List Op → Nat
  | [] => 0
  | op :: ops => effExit s op + exitsDone (step s op).1 ops

def noSetTarget : List Op → Prop
  | [] => True
  | op :: ops => op.isSetTarget = false ∧ noSetTarget ops

theorem reduction_run (ops : List Op) : ∀ (s : Lim), Inv s → s.T ≤ s.V → noSetTarget ops →
    (run s ops).1.V = max s.T (s.V - exitsDone s ops) ∧ (run s ops).1.T = s.T := by
  induction ops with
  | nil => intro s _ htv _; refine ⟨?_, rfl⟩; simp only [run, exitsDone]; omega
  | cons op ops ih =>
    intro s h htv hno
    have f := step_facts s op h
    have hT := f.T hno.1
    have hV := f.V_same hno.1 htv
    simp only [run, exitsDone]
    cases op with
    | setTarget n => exact absurd hno.1 (by simp [Op.isSetTarget])
    | enter i =>
      simp only [retires] at hV
      have := ih _ f.inv (by omega) hno.2
      simp only [effExit]
      omega
    | cancelWaiter i =>
      simp only [retires] at hV
      have := ih _ f.inv (by omega) hno.2
      simp only [effExit]
      omega
    | exit i =>
      simp only [retires] at hV
      simp only [effExit]
      by_cases hi : i ∈ s.holders
      · by_cases hv : s.V > s.T
        · simp only [hi, hv, and_self, ↓reduceIte] at hV
          have := ih _ f.inv (by omega) hno.2
          simp only [hi, ↓reduceIte]
          omega
        · simp only [hi, hv, and_false, ↓reduceIte] at hV
          have := ih _ f.inv (by omega) hno.2
          simp only [hi, ↓reduceIte]
          omega
      · simp only [hi, false_and, ↓reduceIte] at hV
        have := ih _ f.inv (by omega) hno.2
        simp only [hi, ↓reduceIte]
        omega

/-- **A lowered limit retires one excess permit per exit and then holds.**  From any reachable
state with capacity `V₀`, after `set_target(n)` with `n ≤ V₀` and any further operations other than
`set_target` among which `k` holders left, the capacity is exactly `max n (V₀ − k)`; hence once
`V₀ − n` handlers have completed the number of holders is at most `n` (until the next raise). -/
theorem reduction_takes_effect (s : Lim) (h : Inv s) (n : Int) (hn : n ≤ s.V) (ops : List Op)
    (hno : noSetTarget ops) :
    let s' := (run (step s (.setTarget n)).1 ops).1
    let k := exitsDone (step s (.setTarget n)).1 ops
    s'.V = max n (s.V - k) ∧ (s'.holders.length : Int) ≤ max n (s.V - k) ∧
    (s.V - n ≤ k → (s'.holders.length : Int) ≤ n) := by
  have hi : Inv (step s (.setTarget n)).1 := step_inv s _ h
  have r := reduction_run ops (step s (.setTarget n)).1 hi (by rw [step_setTarget]; exact hn) hno
  have i' := run_inv ops _ hi
  have := i'.cons; have := i'.S_nonneg
  have hv : (step s (.setTarget n)).1.V = s.V := rfl
  have ht : (step s (.setTarget n)).1.T = n := rfl
  rw [hv, ht] at r
  refine ⟨r.1, by omega, fun _ => by omega⟩

/-- **A raised limit admits the extra holders from the next entry on**: in any reachable state
with a positive limit, a step in which somebody enters the block brings the capacity up to the
limit (`V' = max V T`), and afterwards either nobody waits or every permit is in use. -/
theorem raise_admits_on_next_entry (s : Lim) (h : Inv s) (hT : 0 < s.T) (op : Op)
    (hop : op.isSetTarget = false) (j : Nat) (hj : Ev.entered j ∈ (step s op).2) :
    (step s op).1.V = max s.V s.T ∧
    ((step s op).1.waiters = [] ∨
      ((step s op).1.holders.length : Int) + (step s op).1.leaked = (step s op).1.V) := by
  have f := step_facts s op h
  have hfree : (step s op).1.waiters = [] ∨
      ((step s op).1.holders.length : Int) + (step s op).1.leaked = (step s op).1.V := by
    cases hw : (step s op).1.waiters with
    | nil => exact Or.inl rfl
    | cons a b =>
      right
      have := f.inv.wait_S (by simp [hw]); have := f.inv.cons; omega
  refine ⟨?_, hfree⟩
  cases op with
  | setTarget n => simp [Op.isSetTarget] at hop
  | cancelWaiter i =>
    by_cases hi : i ∈ s.waiters
    · rw [step_cancel s i hi] at hj; simp at hj
    · rw [step_cancel_bad s i hi] at hj; simp at hj
  | enter i =>
    by_cases hl : s.S = 0 ∨ s.waiters ≠ []
    · rw [step_enter_wait s i hl] at hj; simp at hj
    · have h1 : s.S ≠ 0 := fun hh => hl (Or.inl hh)
      have h2 : s.waiters = [] := by
        cases hh : s.waiters with
        | nil => rfl
        | cons a b => exact absurd (Or.inr (by simp [hh])) hl
      rw [step_enter_now s i h1 h2]
      exact ((enter_now_spec s i h h1 h2).pos hT).1
  | exit i =>
    by_cases hi : i ∈ s.holders
    · by_cases hv : s.V > s.T
      · rw [step_exit_retire s i hi hv] at hj; simp at hj
      · rw [step_exit_release s i hi hv] at hj ⊢
        have e := exit_release_spec s i h hi
        have hne : s.waiters ≠ [] := by
          intro h0
          have q := e.queue.trans h0
          have : ids (finish (release ⟨{ s with holders := s.holders.erase i }, [], []⟩)).2 = [] :=
            (List.append_eq_nil_iff.1 q).1
          generalize (finish (release ⟨{ s with holders := s.holders.erase i }, [], []⟩)).2 = l at hj this
          clear q e
          induction l with
          | nil => simp at hj
          | cons x xs ih =>
            cases x <;> simp [ids] at this hj
            all_goals exact ih hj this
        exact (e.progress hne).2 hT
    · rw [step_exit_bad s i hi] at hj; simp at hj

/-- **Waiting tasks are admitted in arrival order.**  In every reachable state, whatever the
operation: the tasks admitted by the step (entered or refused) followed by the tasks still
waiting are exactly the old waiting list with the newcomer appended at the back — admission
always takes from the front of the arrival-ordered queue; a cancelled waiter just disappears. -/
theorem fifo_admission (s : Lim) (h : Inv s) (op : Op) :
    let r := step s op
    match op with
    | .enter i => ids r.2 ++ r.1.waiters = s.waiters ++ [i]
    | .exit _ => ids r.2 ++ r.1.waiters = s.waiters
    | .cancelWaiter i => ids r.2 = [] ∧ r.1.waiters = s.waiters.erase i
    | .setTarget _ => ids r.2 = [] ∧ r.1.waiters = s.waiters := by
  cases op with
  | setTarget n => exact ⟨rfl, rfl⟩
  | cancelWaiter i =>
    by_cases hi : i ∈ s.waiters
    · rw [step_cancel s i hi]; exact ⟨rfl, rfl⟩
    · rw [step_cancel_bad s i hi]; exact ⟨rfl, (List.erase_of_not_mem hi).symm⟩
  | enter i =>
    by_cases hl : s.S = 0 ∨ s.waiters ≠ []
    · rw [step_enter_wait s i hl]; rfl
    · have h1 : s.S ≠ 0 := fun hh => hl (Or.inl hh)
      have h2 : s.waiters = [] := by
        cases hh : s.waiters with
        | nil => rfl
        | cons a b => exact absurd (Or.inr (by simp [hh])) hl
      rw [step_enter_now s i h1 h2]
      have := (enter_now_spec s i h h1 h2).queue
      simpa [h2] using this
  | exit i =>
    by_cases hi : i ∈ s.holders
    · by_cases hv : s.V > s.T
      · rw [step_exit_retire s i hi hv]; rfl
      · rw [step_exit_release s i hi hv]
        exact (exit_release_spec s i h hi).queue
    · rw [step_exit_bad s i hi]; rfl

/-- **Nobody waits while no handler runs** (limits ≥ 1): at every quiescent point, if there are
waiters then all `V ≥ 1` permits are held. -/
theorem no_starvation (n : Nat) (hn : 1 ≤ n) (ops : List Op) (ht : targetsGE1 ops) :
    let s := (run (init n) ops).1
    (s.waiters ≠ [] → (s.holders.length : Int) = s.V ∧ s.holders ≠ []) ∧
    (s.holders = [] → s.waiters = []) := by
  have i := run_inv ops _ (init_inv n)
  have p := run_pos ops _ (init_inv n) (init_pos n hn) ht
  have hc := i.cons; have hl := p.no_leak; have hv := p.V_pos
  have key : (run (init n) ops).1.waiters ≠ [] →
      ((run (init n) ops).1.holders.length : Int) = (run (init n) ops).1.V ∧
      (run (init n) ops).1.holders ≠ [] := by
    intro hw
    have h0 := i.wait_S hw
    refine ⟨by rw [hl] at hc; simp at hc; omega, ?_⟩
    intro hh; rw [hh, hl, h0] at hc; simp at hc; omega
  refine ⟨key, ?_⟩
  intro hh
  cases hw : (run (init n) ops).1.waiters with
  | nil => rfl
  | cons a b => exact absurd hh (key (by simp [hw])).2

/-- **Every waiter is served after finitely many exits** (ranking function).  In a reachable state
with limits ≥ 1 and somebody waiting, each exit of a holder either retires one unit of excess
capacity or admits at least the head of the queue: `|admitted| + excess` strictly exceeds the new
excess, where `excess = (V − T)⁺`.  Together with `fifo_admission` (a waiter at position `p`
moves to `p − |admitted|` or is admitted) the rank `p + 1 + excess` of every waiter strictly
decreases with every exit, and by `no_starvation` there is always a holder to exit. -/
theorem exit_progress (s : Lim) (h : Inv s) (p : Pos s) (i : Nat) (hi : i ∈ s.holders)
    (hw : s.waiters ≠ []) :
    let r := step s (.exit i)
    ids r.2 ++ r.1.waiters = s.waiters ∧ r.1.T = s.T ∧
    (r.1.V - r.1.T).toNat + 1 ≤ (ids r.2).length + (s.V - s.T).toNat := by
  by_cases hv : s.V > s.T
  · rw [step_exit_retire s i hi hv]
    refine ⟨rfl, rfl, ?_⟩
    simp only [ids_nil, List.length_nil]; omega
  · rw [step_exit_release s i hi hv]
    have e := exit_release_spec s i h hi
    have hT : 0 < s.T := by have := p.T_pos; omega
    obtain ⟨h1, h2⟩ := e.progress hw
    have hV := h2 hT
    refine ⟨e.queue, e.T, ?_⟩
    have : 1 ≤ (ids (finish (release ⟨{ s with holders := s.holders.erase i }, [], []⟩)).2).length := by
      cases hh : ids (finish (release ⟨{ s with holders := s.holders.erase i }, [], []⟩)).2 with
      | nil => exact absurd hh h1
      | cons a b => simp
    rw [hV, e.T]; omega

/-- every op of the list is the exit of a task that holds a permit at that moment -/
def exitsOnly (s : Lim) : List Op → Prop
  | [] => True
  | .exit i :: ops => i ∈ s.holders ∧ exitsOnly (step s (.exit i)).1 ops
  | _ :: _ => False

theorem served_within_aux (ops : List Op) : ∀ (s : Lim), Inv s → Pos s → exitsOnly s ops →
    ids (run s ops).2 ++ (run s ops).1.waiters = s.waiters ∧
    min (s.waiters.length : Int) ((ops.length : Int) - (s.V - s.T).toNat)
      ≤ (ids (run s ops).2).length := by
  induction ops with
  | nil =>
    intro s _ _ _
    simp only [run, ids_nil, List.nil_append, List.length_nil]
    exact ⟨trivial, by omega⟩
  | cons op ops ih =>
    intro s h p he
    cases op with
    | enter i => exact absurd he (by simp [exitsOnly])
    | cancelWaiter i => exact absurd he (by simp [exitsOnly])
    | setTarget n => exact absurd he (by simp [exitsOnly])
    | exit i =>
      obtain ⟨hi, he'⟩ := he
      have f := step_facts s (.exit i) h
      have p' := step_pos s (.exit i) h p (by intro n hn; cases hn)
      obtain ⟨q2, l2⟩ := ih _ f.inv p' he'
      have q1 : ids (step s (.exit i)).2 ++ (step s (.exit i)).1.waiters = s.waiters :=
        fifo_admission s h (.exit i)
      simp only [run, ids_append, List.length_append, List.length_cons]
      refine ⟨by rw [List.append_assoc, q2, q1], ?_⟩
      have hlen := congrArg List.length q1
      simp only [List.length_append] at hlen
      by_cases hw : s.waiters = []
      · simp only [hw, List.length_nil]; omega
      · have pr := (exit_progress s h p i hi hw).2.2
        omega

/-- **All waiters are eventually served — with a bound** (limits ≥ 1).  From any reachable state,
let only holders leave (any holders, in any order; no new arrivals are needed and none can
overtake — `fifo_admission`): after `n` such exits at least `min(|waiters|, n − excess)` waiters
have been admitted, in queue order, where `excess = (V − T)⁺` is the capacity still to be retired
after a reduction.  Hence the waiter at position `p` is admitted after at most `p + 1 + excess`
exits, and by `no_starvation` a holder that can exit always exists while somebody waits. -/
theorem served_within (s : Lim) (h : Inv s) (p : Pos s) (ops : List Op) (he : exitsOnly s ops)
    (k : Nat) (hk : k < s.waiters.length) (hn : k + 1 + (s.V - s.T).toNat ≤ ops.length) :
    ∃ x, s.waiters[k]? = some x ∧ (ids (run s ops).2)[k]? = some x := by
  obtain ⟨q, l⟩ := served_within_aux ops s h p he
  have hlen : k < (ids (run s ops).2).length := by omega
  refine ⟨s.waiters[k], by simp [hk], ?_⟩
  have : s.waiters[k]? = (ids (run s ops).2 ++ (run s ops).1.waiters)[k]? := by rw [q]
  rw [List.getElem?_append_left hlen] at this
  rw [← this]; simp [hk]

/-- operations other than exits and `set_target` never push a waiter back: the excess does not
grow (the queue part is `fifo_admission`). -/
theorem rank_no_regress (s : Lim) (h : Inv s) (op : Op) (hop : op.isSetTarget = false) :
    ((step s op).1.V - (step s op).1.T).toNat ≤ (s.V - s.T).toNat := by
  have f := step_facts s op h
  have := f.V_le hop; have := f.T hop
  omega

/-- **A limit of zero or less refuses entry**: while `T ≤ 0` no step lets anybody into the block,
and a task that gets the permit is refused (`ExcessiveSessionCostError`). -/
theorem zero_refuses (s : Lim) (h : Inv s) (hT : s.T ≤ 0) (op : Op) (hop : op.isSetTarget = false) :
    (∀ j, Ev.entered j ∉ (step s op).2) ∧
    (∀ i, op = .enter i → s.S ≠ 0 → s.waiters = [] → (step s op).2 = [Ev.refused i]) := by
  refine ⟨?_, ?_⟩
  · intro j hj
    cases op with
    | setTarget n => simp [Op.isSetTarget] at hop
    | cancelWaiter i =>
      by_cases hi : i ∈ s.waiters
      · rw [step_cancel s i hi] at hj; simp at hj
      · rw [step_cancel_bad s i hi] at hj; simp at hj
    | enter i =>
      by_cases hl : s.S = 0 ∨ s.waiters ≠ []
      · rw [step_enter_wait s i hl] at hj; simp at hj
      · have h1 : s.S ≠ 0 := fun hh => hl (Or.inl hh)
        have h2 : s.waiters = [] := by
          cases hh : s.waiters with
          | nil => rfl
          | cons a b => exact absurd (Or.inr (by simp [hh])) hl
        rw [step_enter_now s i h1 h2] at hj
        rw [((enter_now_spec s i h h1 h2).nonpos hT).2] at hj
        simp at hj
    | exit i =>
      by_cases hi : i ∈ s.holders
      · by_cases hv : s.V > s.T
        · rw [step_exit_retire s i hi hv] at hj; simp at hj
        · rw [step_exit_release s i hi hv] at hj
          obtain ⟨k, hk⟩ := (exit_release_spec s i h hi).evs.2 hT _ hj
          cases hk
      · rw [step_exit_bad s i hi] at hj; simp at hj
  · intro i hop' h1 h2
    subst hop'
    rw [step_enter_now s i h1 h2]
    exact ((enter_now_spec s i h h1 h2).nonpos hT).2

/-! ## session layer: `unanswered_request_count` -/

inductive SessOp where
  | recv        -- the message loop spawns `_throttled_request` for a request / notification
  | finish      -- one `_throttled_request` task is done (reply sent)
  | loopExit    -- the message-loop task ends (connection lost)
  deriving Repr, DecidableEq

def Sess.step (s : Sess) : SessOp → Sess
  | .recv => if s.loopAlive then { s with active := s.active + 1 } else s
  | .finish => { s with active := s.active - 1 }
  | .loopExit => { s with loopAlive := false }

def Sess.run (s : Sess) : List SessOp → Sess
  | [] => s
  | op :: ops => Sess.run (s.step op) ops

/-- **Unanswered-request count** (session layer; partial: the TaskGroup bookkeeping
`_pending` = live member tasks is C09's invariant and is assumed here).  While the message loop is
alive, `max(0, len(_pending) − 1)` is exactly the number of spawned request/notification tasks
that have not finished, after any history. -/
theorem unanswered_count (ops : List SessOp) :
    let s := Sess.run ⟨true, 0⟩ ops
    s.loopAlive = true → s.unanswered = s.active := by
  intro s h
  simp [Sess.unanswered, Sess.pending, h]

/-- what the formula gives once the loop task is gone (only between connection loss and the
cancellation of the remaining handlers — never at a quiescent point of a live session) -/
theorem unanswered_after_loop_exit (a : Nat) : (Sess.mk false a).unanswered = a - 1 := by
  simp [Sess.unanswered, Sess.pending]

/-! ## tie to the source (facts regenerated from /repo on every run) -/

theorem facts_initial : Facts.C13.initialConcurrent = 20 ∧ Facts.C13.outgoingInitial = 50 := by
  decide
/-- the shape of `Concurrency` the model mirrors (per-path symbolic normal forms, `a0` = the
argument): `__aenter__` acquires first, then retargets; refusal test `_target <= 0`; growth loop
`_sem_value < _target` doing `+= 1; release()`; `__aexit__` retires (`-= 1`) when
`_sem_value > _target`, otherwise releases; `set_target` only stores the value. -/
theorem facts_shape :
    Facts.C13.aenterPaths = ["when always: do _semaphore.acquire(); do _retarget_semaphore()"] ∧
    Facts.C13.refuseTest = "_target LtE 0" ∧
    Facts.C13.refuseRaises = "ExcessiveSessionCostError" ∧
    Facts.C13.retargetShape = ["If", "While"] ∧
    Facts.C13.growTest = "_sem_value Lt _target" ∧
    Facts.C13.growBody = ["_sem_value += 1", "release"] ∧
    Facts.C13.aexitPaths = ["when _sem_value Gt _target: _sem_value := _sem_value - 1",
                            "when _sem_value LtE _target: do _semaphore.release()"] ∧
    Facts.C13.setTargetPaths = ["when always: _target := int(a0)"] ∧
    Facts.C13.maxConcurrentPaths = ["when always: ; return _target"] ∧
    Facts.C13.initPaths = ["when always: _sem_value := int(a0); _semaphore := asyncio.Semaphore(int(a0)); _target := int(a0)"] :=
  ⟨rfl, rfl, rfl, rfl, rfl, rfl, rfl, rfl, rfl, rfl⟩
/-- the handler runs inside `async with self._incoming_concurrency` in both session classes, and
the count formula is `max(0, len(_pending) - 1)` -/
theorem facts_session :
    Facts.C13.throttledRequestGuard = "_incoming_concurrency" ∧
    Facts.C13.throttledMessageGuard = "_incoming_concurrency" ∧
    Facts.C13.unansweredPaths = ["when always: ; return max(0, len(_group._pending) - 1)"] :=
  ⟨rfl, rfl, rfl⟩

/-! ## non-vacuity -/

-- a run that queues, raises, admits two at once, cancels a waiter and reduces
example : (run (init 2) [.enter 0, .enter 1, .enter 2, .setTarget 3, .enter 3, .exit 0]).2
    = [.entered 0, .entered 1, .entered 2, .entered 3] := by decide
example : (run (init 2) [.enter 0, .enter 1, .enter 2, .setTarget 3, .enter 3, .exit 0]).1
    = ⟨3, 3, 0, 0, [1, 2, 3], []⟩ := by decide
-- reduction: V₀ = 3, target 1, two exits ⇒ capacity 1
example : (run (init 3) [.enter 0, .enter 1, .enter 2, .setTarget 1, .exit 0, .exit 1, .enter 3]).1
    = ⟨1, 1, 0, 0, [2], [3]⟩ := by decide
example : exitsDone (step (run (init 3) [.enter 0, .enter 1, .enter 2]).1 (.setTarget 1)).1
    [.exit 0, .exit 1, .enter 3] = 2 := by decide
-- zero refuses, and the permit is not given back
example : run (init 1) [.setTarget 0, .enter 0, .setTarget 1, .enter 1]
    = (⟨1, 1, 0, 1, [], [1]⟩, [.refused 0]) := by decide
-- `served_within`: after a reduction 3 → 1 with three holders and two waiters, the first waiter
-- (position 0) needs 0 + 1 + excess 2 = 3 exits
example : exitsOnly (run (init 3) [.enter 0, .enter 1, .enter 2, .enter 3, .enter 4, .setTarget 1]).1
    [.exit 0, .exit 1, .exit 2] ∧
    (run (run (init 3) [.enter 0, .enter 1, .enter 2, .enter 3, .enter 4, .setTarget 1]).1
      [.exit 0, .exit 1, .exit 2]).2 = [.entered 3] :=
  ⟨⟨by decide, by decide, by decide, trivial⟩, by decide⟩
-- hypotheses of `exit_progress` are satisfiable
example : Pos (run (init 1) [.enter 0, .enter 1]).1 ∧ (run (init 1) [.enter 0, .enter 1]).1.waiters ≠ [] :=
  ⟨⟨by decide, by decide, by decide⟩, by decide⟩
example : (Sess.run ⟨true, 0⟩ [.recv, .recv, .finish, .recv]).unanswered = 2 := by decide

end Aiorpcx.C13
