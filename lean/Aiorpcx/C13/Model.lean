/-! C13 — model of `Concurrency` (aiorpcx/session.py:58-87) on top of `asyncio.Semaphore`
(CPython 3.12 `asyncio/locks.py`).  No Mathlib imports: the driver links this.

The model is a *quiescent big-step* transition system (DESIGN §2.4): one `Op` is something the
environment decides (a task calls `async with limiter`, a holder leaves the block, a waiting task
is cancelled, somebody calls `set_target`); `step` then runs the limiter's own code — including the
wake-up chain of the semaphore — until no task can move, and returns the events observed.

Python state ↔ model state
* `_target` = `T`, `_sem_value` = `V`, `_semaphore._value` = `S`;
* `holders` = tasks inside the `async with` block (oldest first);
* `waiters` = tasks blocked in `Semaphore.acquire()` whose future is not done, FIFO (`_waiters`);
* `fixed = true` (the default, what every theorem is about): the class **as repaired by
  fixes/F23-limiter-last-permit.diff** — `__aenter__` hands the permit back when
  `_retarget_semaphore` refuses entry, `__aexit__` never retires the last permit
  (`if self._sem_value > max(self._target, 1)`) and `__init__` starts with at least one.  `fixed = false`: the pinned class (a refused
  entrant keeps its permit; capacity is retired down to the target, also to 0 — after which nobody
  can ever enter again, see `*_fails_pinned` in Props.lean);
* `leaked` is a ghost counter (no Python counterpart): permits kept by refused entrants — only
  the pinned variant ever increments it. -/
namespace Aiorpcx.C13

structure Lim where
  T : Int
  V : Int
  S : Int
  leaked : Nat
  holders : List Nat
  waiters : List Nat
  fixed : Bool := true
  deriving Repr, DecidableEq

inductive Ev where
  | entered (i : Nat)      -- body of the `async with` started
  | refused (i : Nat)      -- `ExcessiveSessionCostError` out of `__aenter__`
  | cancelled (i : Nat)    -- `CancelledError` out of `__aenter__` (waiter cancelled)
  | bad                    -- the operation does not apply (exit of a non-holder, …)
  deriving Repr, DecidableEq

inductive Op where
  | enter (i : Nat)
  | exit (i : Nat)
  | cancelWaiter (i : Nat)
  | setTarget (n : Int)
  deriving Repr, DecidableEq

/-- state while a step is running: `woken` = waiters whose future got its result (their permit is
already taken out of `S` by `_wake_up_next`) and that have not run yet; the loop runs them in the
order in which they were woken (`call_soon` is FIFO). -/
structure Work where
  st : Lim
  woken : List Nat
  evs : List Ev
  deriving Repr, DecidableEq

/-- `Semaphore._wake_up_next`: the first waiter that is not done gets the permit. -/
def wakeNext (w : Work) : Work :=
  match w.st.waiters with
  | [] => w
  | x :: rest =>
      { w with st := { w.st with S := w.st.S - 1, waiters := rest }, woken := w.woken ++ [x] }

/-- `Semaphore.release`: `_value += 1; _wake_up_next()` -/
def release (w : Work) : Work :=
  wakeNext { w with st := { w.st with S := w.st.S + 1 } }

/-- the `while self._sem_value < self._target` loop of `_retarget_semaphore`, `n` iterations -/
def grow : Nat → Work → Work
  | 0, w => w
  | n + 1, w => grow n (release { w with st := { w.st with V := w.st.V + 1 } })

/-- what task `i` does once `acquire()` has returned: `_retarget_semaphore`, then the body -/
def admitTask (i : Nat) (w : Work) : Work :=
  if w.st.T ≤ 0 then
    -- `_retarget_semaphore` raises `ExcessiveSessionCostError`
    if w.st.fixed then
      -- F23: `except ExcessiveSessionCostError: self._semaphore.release(); raise`
      release { w with evs := w.evs ++ [Ev.refused i] }
    else
      { w with st := { w.st with leaked := w.st.leaked + 1 }, evs := w.evs ++ [Ev.refused i] }
  else
    let w' := grow (w.st.T - w.st.V).toNat w
    { w' with st := { w'.st with holders := w'.st.holders ++ [i] },
              evs := w'.evs ++ [Ev.entered i] }

/-- a woken waiter resumes inside `acquire()`: `if self._value > 0: self._wake_up_next()`, returns,
and `__aenter__` goes on with `_retarget_semaphore` -/
def resume (i : Nat) (w : Work) : Work :=
  admitTask i (if w.st.S > 0 then wakeNext w else w)

/-- run the woken tasks until none is left; `fuel` ≥ `woken.length + waiters.length` suffices
(`drain_done`) because every iteration retires one of them -/
def drain : Nat → Work → Work
  | 0, w => w
  | n + 1, w =>
      match w.woken with
      | [] => w
      | i :: rest => drain n (resume i { w with woken := rest })

def finish (w : Work) : Lim × List Ev :=
  let w' := drain (w.woken.length + w.st.waiters.length) w
  (w'.st, w'.evs)

/-- `Concurrency.__aexit__` retires a unit of capacity instead of releasing when `_sem_value` is
above this: the target — but (F23) never below 1, so the last permit stays in circulation -/
def retireBound (s : Lim) : Int := if s.fixed then max s.T 1 else s.T

def step (s : Lim) : Op → Lim × List Ev
  | .enter i =>
      -- `Semaphore.locked()`: `_value == 0 or any(not w.cancelled() for w in _waiters)`
      if s.S = 0 ∨ s.waiters ≠ [] then
        ({ s with waiters := s.waiters ++ [i] }, [])
      else
        finish (admitTask i ⟨{ s with S := s.S - 1 }, [], []⟩)
  | .exit i =>
      if i ∈ s.holders then
        let s1 := { s with holders := s.holders.erase i }
        -- `Concurrency.__aexit__`
        if s1.V > retireBound s1 then ({ s1 with V := s1.V - 1 }, [])
        else finish (release ⟨s1, [], []⟩)
      else (s, [Ev.bad])
  | .cancelWaiter i =>
      if i ∈ s.waiters then ({ s with waiters := s.waiters.erase i }, [Ev.cancelled i])
      else (s, [Ev.bad])
  | .setTarget n => ({ s with T := n }, [])

/-- **Composite step** (two things in one loop iteration, no quiescence in between): holder `i`
leaves the block and — after its `__aexit__` has run but before any task it woke has run again —
the task of waiter `j` is cancelled (e.g. the holder's completion and the `processing_timeout` of
a queued request fall into the same iteration).  asyncio.Semaphore (3.12): a waiter whose future
already has its result when the cancellation reaches it hands the permit on
(`except CancelledError: if not fut.cancelled(): self._value += 1; self._wake_up_next()`); a
waiter still queued just leaves. -/
def stepExitCancel (s : Lim) (i j : Nat) : Lim × List Ev :=
  if i ∈ s.holders then
    let s1 := { s with holders := s.holders.erase i }
    if s1.V > retireBound s1 then
      let s2 := { s1 with V := s1.V - 1 }
      if j ∈ s2.waiters then ({ s2 with waiters := s2.waiters.erase j }, [Ev.cancelled j])
      else (s2, [Ev.bad])
    else
      let w := release ⟨s1, [], []⟩
      if j ∈ w.woken then
        -- j had been handed the permit: it passes it on, then the next woken task runs
        finish (release { w with woken := w.woken.erase j, evs := w.evs ++ [Ev.cancelled j] })
      else if j ∈ w.st.waiters then
        -- j was still queued: it just leaves; its task notices right after the task woken by the
        -- exit has run (that one was made runnable first), before the rest of the wake-up chain
        let w0 : Work := { w with st := { w.st with waiters := w.st.waiters.erase j } }
        match w0.woken with
        | [] => finish { w0 with evs := w0.evs ++ [Ev.cancelled j] }
        | x :: rest =>
            let w1 := resume x { w0 with woken := rest }
            finish { w1 with evs := w1.evs ++ [Ev.cancelled j] }
      else
        let r := finish w
        (r.1, Ev.bad :: r.2)
  else (s, [Ev.bad])

/-- operation streams that may contain composite steps -/
inductive Op2 where
  | plain (op : Op)
  | exitCancel (i j : Nat)
  deriving Repr, DecidableEq

def step2 (s : Lim) : Op2 → Lim × List Ev
  | .plain op => step s op
  | .exitCancel i j => stepExitCancel s i j

def run2 (s : Lim) : List Op2 → Lim × List Ev
  | [] => (s, [])
  | op :: ops =>
      let r := step2 s op
      let r2 := run2 r.1 ops
      (r2.1, r.2 ++ r2.2)

/-- `Concurrency(n)`, any `n` (repaired class: `_sem_value = max(target, 1)` — at least one permit
is in circulation from the start, so that an initial limit ≤ 0 refuses instead of parking) -/
def init (n : Int) : Lim := ⟨n, max n 1, max n 1, 0, [], [], true⟩
/-- the pinned class (before F23): `Semaphore(n)`, `_sem_value = n` -/
def initPinned (n : Nat) : Lim := ⟨n, n, n, 0, [], [], false⟩

def run (s : Lim) : List Op → Lim × List Ev
  | [] => (s, [])
  | op :: ops =>
      let r := step s op
      let r2 := run r.1 ops
      (r2.1, r.2 ++ r2.2)

/-- all the states passed through (for "at every moment" statements) -/
def states (s : Lim) : List Op → List Lim
  | [] => [s]
  | op :: ops => s :: states (step s op).1 ops

/-- ghost: largest limit that has been in force (initial value and every `set_target`) -/
def maxTarget (m : Int) : List Op → Int
  | [] => m
  | .setTarget n :: ops => maxTarget (max m n) ops
  | _ :: ops => maxTarget m ops

def targetsGE1 : List Op → Prop
  | [] => True
  | .setTarget n :: ops => 1 ≤ n ∧ targetsGE1 ops
  | _ :: ops => targetsGE1 ops

/-- `SessionBase.unanswered_request_count`: `max(0, len(self._group._pending) - 1)` where the
group holds the message-loop task (while it is alive) and one task per received request or
notification whose `_throttled_request` has not finished. -/
structure Sess where
  loopAlive : Bool
  active : Nat            -- spawned `_throttled_request` tasks not yet done
  deriving Repr, DecidableEq

def Sess.pending (s : Sess) : Nat := s.active + (if s.loopAlive then 1 else 0)
def Sess.unanswered (s : Sess) : Nat := s.pending - 1     -- Nat subtraction = max(0, ·)

end Aiorpcx.C13
