import Aiorpcx.C13.Props
/-!
# C13 — the limit itself over streams with composite steps

`Props.lean` proves the *invariant* (`permit_conservation_composite`) for operation streams that
contain composite steps (a holder's exit and the cancellation of a waiter inside one loop
iteration, `Op2.exitCancel`).  The property's headline - the number of requests being handled never
exceeds the largest limit that has been in force - was proved for plain steps only
(`never_exceeds_max_target`).  This file lifts it to composite streams: the frame of the composite
step (`stepExitCancel_frame`: the target is untouched and the represented capacity never rises above
`max V T`), its lift over every stream (`run2_bound`) and the bound itself
(`never_exceeds_max_target_composite`).
-/
namespace Aiorpcx.C13

/-- what the composite step leaves alone: the target, and the represented capacity stays below
`max V T` (it can only grow towards the target, by the `_retarget_semaphore` of a task that the
exit woke) -/
theorem stepExitCancel_frame (s : Lim) (i j : Nat) (h : Inv s) :
    (stepExitCancel s i j).1.T = s.T ∧ (stepExitCancel s i j).1.V ≤ max s.V s.T := by
  have hS0 := h.S_nonneg
  have key : ∀ w2 : Work, WInv w2 → w2.st.T = s.T → w2.st.V ≤ max s.V s.T →
      (finish w2).1.T = s.T ∧ (finish w2).1.V ≤ max s.V s.T := by
    intro w2 hw2 hT hV
    have f := finish_spec w2 hw2
    refine ⟨by rw [f.T, hT], ?_⟩
    have := f.V_le
    rw [hT] at this
    omega
  unfold stepExitCancel
  by_cases hi : i ∈ s.holders
  · simp only [hi, ↓reduceIte]
    rw [retireBound_fixed s h.fx]
    by_cases hv : s.V > bound s
    · simp only [hv, ↓reduceIte]
      by_cases hj : j ∈ s.waiters
      · simp only [hj, ↓reduceIte]; exact ⟨trivial, by omega⟩
      · simp only [hj, ↓reduceIte]; exact ⟨trivial, by omega⟩
    · simp only [hv, ↓reduceIte]
      have w0inv : WInv ⟨{ s with holders := s.holders.erase i }, [], []⟩ := ⟨hS0, h.wait_S, h.fx⟩
      obtain ⟨rinv, fr, _⟩ := release_spec _ w0inv
      generalize release ⟨{ s with holders := s.holders.erase i }, [], []⟩ = w at rinv fr
      have e1 : w.st.T = s.T := fr.T
      have e2 : w.st.V = s.V := fr.V
      by_cases hjw : j ∈ w.woken
      · simp only [hjw, ↓reduceIte]
        have w1inv : WInv { w with woken := w.woken.erase j, evs := w.evs ++ [Ev.cancelled j] } :=
          ⟨rinv.S_nonneg, rinv.wait_S, rinv.fx⟩
        obtain ⟨r2, f2, _⟩ := release_spec _ w1inv
        have a : (release { w with woken := w.woken.erase j, evs := w.evs ++ [Ev.cancelled j] }).st.V = w.st.V := f2.V
        have b : (release { w with woken := w.woken.erase j, evs := w.evs ++ [Ev.cancelled j] }).st.T = w.st.T := f2.T
        exact key _ r2 (by rw [b, e1]) (by rw [a, e2]; omega)
      · simp only [hjw, ↓reduceIte]
        by_cases hjq : j ∈ w.st.waiters
        · simp only [hjq, ↓reduceIte]
          have q0 : WInv { w with st := { w.st with waiters := w.st.waiters.erase j } } :=
            ⟨rinv.S_nonneg, fun _ => rinv.wait_S (by intro h0; rw [h0] at hjq; simp at hjq), rinv.fx⟩
          cases hwk : w.woken with
          | nil =>
            simp only []
            exact key _ ⟨q0.S_nonneg, q0.wait_S, q0.fx⟩ e1 (by show w.st.V ≤ _; rw [e2]; omega)
          | cons x rest =>
            simp only []
            have q1 : WInv { ({ w with st := { w.st with waiters := w.st.waiters.erase j } } : Work) with woken := rest } :=
              ⟨q0.S_nonneg, q0.wait_S, q0.fx⟩
            have a := resume_spec x _ q1
            generalize resume x { ({ w with st := { w.st with waiters := w.st.waiters.erase j } } : Work) with woken := rest } = w1 at a
            have aT : w1.st.T = w.st.T := a.T
            have aV : w1.st.V ≤ max w.st.V w.st.T := by
              by_cases hT : 0 < w.st.T
              · have := (a.pos hT).1; simp only [] at this; omega
              · have := (a.nonpos (by simpa using Int.not_lt.mp hT)).1; simp only [] at this; omega
            exact key _ ⟨a.inv.S_nonneg, a.inv.wait_S, a.inv.fx⟩ (by show w1.st.T = s.T; rw [aT, e1])
              (by show w1.st.V ≤ _; rw [e1, e2] at aV; exact aV)
        · simp only [hjq, ↓reduceIte]
          exact key w rinv e1 (by rw [e2]; omega)
  · simp only [hi, ↓reduceIte]; exact ⟨trivial, by omega⟩

/-- ghost over composite streams: largest limit that has been in force -/
def maxTarget2 (m : Int) : List Op2 → Int
  | [] => m
  | .plain (.setTarget n) :: ops => maxTarget2 (max m n) ops
  | _ :: ops => maxTarget2 m ops

theorem run2_bound (ops : List Op2) : ∀ (s : Lim) (m : Int), Inv s → s.V ≤ m → s.T ≤ m →
    (run2 s ops).1.V ≤ maxTarget2 m ops ∧ (run2 s ops).1.T ≤ maxTarget2 m ops := by
  induction ops with
  | nil => intro s m _ hv ht; exact ⟨hv, ht⟩
  | cons op ops ih =>
    intro s m h hv ht
    cases op with
    | exitCancel i j =>
      simp only [run2, step2, maxTarget2]
      have f := stepExitCancel_frame s i j h
      exact ih _ _ (stepExitCancel_inv s i j h) (by omega) (by omega)
    | plain op =>
      have f := step_facts s op h
      cases op with
      | setTarget n =>
        simp only [run2, step2, maxTarget2]
        apply ih _ _ f.inv
        · rw [step_setTarget]; simp only []; omega
        · rw [step_setTarget]; simp only []; omega
      | enter i =>
        simp only [run2, step2, maxTarget2]
        have := f.V_le rfl; have := f.T rfl
        exact ih _ _ f.inv (by omega) (by omega)
      | exit i =>
        simp only [run2, step2, maxTarget2]
        have := f.V_le rfl; have := f.T rfl
        exact ih _ _ f.inv (by omega) (by omega)
      | cancelWaiter i =>
        simp only [run2, step2, maxTarget2]
        have := f.V_le rfl; have := f.T rfl
        exact ih _ _ f.inv (by omega) (by omega)

/-- **The number of holders never exceeds the largest limit that has been in force - also over
streams with composite steps** (a holder's exit and the cancellation of a waiter within one loop
iteration, anywhere in the stream, any number of times), for all targets and all initial limits. -/
theorem never_exceeds_max_target_composite (n : Int) (ops : List Op2) :
    ((run2 (init n) ops).1.holders.length : Int) ≤ maxTarget2 (max n 1) ops := by
  have i := run2_inv ops _ (init_inv n)
  have b := run2_bound ops (init n) (max n 1) (init_inv n) (by simp only [init]; omega)
    (by simp only [init]; omega)
  have := i.cons; have := i.S_nonneg
  omega

/-- on streams without composite steps the two ghosts agree, so the composite theorem specialises
to `never_exceeds_max_target` -/
theorem maxTarget2_plain (ops : List Op) : ∀ m, maxTarget2 m (ops.map Op2.plain) = maxTarget m ops := by
  induction ops with
  | nil => intro m; rfl
  | cons op ops ih =>
    intro m
    cases op <;> simp only [List.map, maxTarget2, maxTarget, ih]

/-- **Arrival order survives the composite step**: when holder `i` leaves and waiter `j` is
cancelled within the same loop iteration, the tasks admitted by the step (entered or refused)
followed by the tasks still waiting are exactly the old waiting list without `j` - whether `j` had
already been handed the permit (it passes it on), was still queued, or was not waiting at all. -/
theorem fifo_admission_composite (s : Lim) (h : Inv s) (i j : Nat) (hi : i ∈ s.holders) :
    ids (stepExitCancel s i j).2 ++ (stepExitCancel s i j).1.waiters = s.waiters.erase j := by
  have hS0 := h.S_nonneg
  have key : ∀ (w2 : Work) (L : List Nat), WInv w2 → w2.queue = L →
      ids (finish w2).2 ++ (finish w2).1.waiters = L := by
    intro w2 L hw2 hq
    rw [(finish_spec w2 hw2).queue, hq]
  unfold stepExitCancel
  simp only [hi, ↓reduceIte]
  rw [retireBound_fixed s h.fx]
  by_cases hv : s.V > bound s
  · simp only [hv, ↓reduceIte]
    by_cases hj : j ∈ s.waiters
    · simp only [hj, ↓reduceIte]; simp [ids]
    · simp only [hj, ↓reduceIte]; simp [ids, List.erase_of_not_mem hj]
  · simp only [hv, ↓reduceIte]
    have w0inv : WInv ⟨{ s with holders := s.holders.erase i }, [], []⟩ := ⟨hS0, h.wait_S, h.fx⟩
    obtain ⟨rinv, fr, _⟩ := release_spec _ w0inv
    generalize release ⟨{ s with holders := s.holders.erase i }, [], []⟩ = w at rinv fr
    have eq : w.woken ++ w.st.waiters = s.waiters := by simpa using fr.q
    have ee : w.evs = [] := fr.evs
    by_cases hjw : j ∈ w.woken
    · simp only [hjw, ↓reduceIte]
      have w1inv : WInv { w with woken := w.woken.erase j, evs := w.evs ++ [Ev.cancelled j] } :=
        ⟨rinv.S_nonneg, rinv.wait_S, rinv.fx⟩
      obtain ⟨r2, f2, _⟩ := release_spec _ w1inv
      apply key _ _ r2
      have a : (release { w with woken := w.woken.erase j, evs := w.evs ++ [Ev.cancelled j] }).evs = w.evs ++ [Ev.cancelled j] := f2.evs
      have b : (release { w with woken := w.woken.erase j, evs := w.evs ++ [Ev.cancelled j] }).woken ++
          (release { w with woken := w.woken.erase j, evs := w.evs ++ [Ev.cancelled j] }).st.waiters =
          w.woken.erase j ++ w.st.waiters := f2.q
      simp only [Work.queue]
      rw [a, b, ee, ← eq, List.erase_append_left _ hjw]
      simp [ids]
    · simp only [hjw, ↓reduceIte]
      by_cases hjq : j ∈ w.st.waiters
      · simp only [hjq, ↓reduceIte]
        have q0 : WInv { w with st := { w.st with waiters := w.st.waiters.erase j } } :=
          ⟨rinv.S_nonneg, fun _ => rinv.wait_S (by intro h0; rw [h0] at hjq; simp at hjq), rinv.fx⟩
        have es : s.waiters.erase j = w.woken ++ w.st.waiters.erase j := by
          rw [← eq, List.erase_append_right _ hjw]
        cases hwk : w.woken with
        | nil =>
          simp only []
          refine key _ _ ?_ ?_
          · exact ⟨q0.S_nonneg, q0.wait_S, q0.fx⟩
          simp only [Work.queue]
          rw [es, hwk, ee]
          simp [ids]
        | cons x rest =>
          simp only []
          have q1 : WInv { ({ w with st := { w.st with waiters := w.st.waiters.erase j } } : Work) with woken := rest } :=
            ⟨q0.S_nonneg, q0.wait_S, q0.fx⟩
          have a := resume_spec x _ q1
          generalize resume x { ({ w with st := { w.st with waiters := w.st.waiters.erase j } } : Work) with woken := rest } = w1 at a
          have aq : ids w1.evs ++ (w1.woken ++ w1.st.waiters) = ids w.evs ++ x :: (rest ++ w.st.waiters.erase j) := a.queue
          refine key _ _ ?_ ?_
          · exact ⟨a.inv.S_nonneg, a.inv.wait_S, a.inv.fx⟩
          simp only [Work.queue]
          rw [ids_append, List.append_assoc]
          have : ids [Ev.cancelled j] = [] := rfl
          rw [this, List.nil_append, aq, es, hwk, ee]
          simp
      · simp only [hjq, ↓reduceIte]
        have hns : j ∉ s.waiters := by
          rw [← eq]; intro hm
          rcases List.mem_append.1 hm with hm | hm
          · exact hjw hm
          · exact hjq hm
        have := key w (s.waiters.erase j) rinv (by
          simp only [Work.queue]; rw [ee, List.erase_of_not_mem hns, eq]; simp)
        simpa [ids] using this

/-- **Nobody waits while no handler runs - also over streams with composite steps**: at every
quiescent point, if there are waiters then all `V >= 1` permits are held, so some holder exists
whose exit will move the queue; with no holder nobody waits. -/
theorem no_starvation_composite (n : Int) (ops : List Op2) :
    let s := (run2 (init n) ops).1
    (s.waiters ≠ [] → (s.holders.length : Int) = s.V ∧ s.holders ≠ []) ∧
    (s.holders = [] → s.waiters = []) := by
  have i := run2_inv ops _ (init_inv n)
  have hc := i.cons; have hv := i.V_pos
  have key : (run2 (init n) ops).1.waiters ≠ [] →
      ((run2 (init n) ops).1.holders.length : Int) = (run2 (init n) ops).1.V ∧
      (run2 (init n) ops).1.holders ≠ [] := by
    intro hw
    have h0 := i.wait_S hw
    refine ⟨by omega, ?_⟩
    intro hh; rw [hh, h0] at hc; simp at hc; omega
  refine ⟨key, ?_⟩
  intro hh
  cases hw : (run2 (init n) ops).1.waiters with
  | nil => rfl
  | cons a b => exact absurd hh (key (by simp [hw])).2

/-- **A limit of zero or less refuses entry - also in the composite step**: while `T <= 0` the
exit of a holder together with the cancellation of a waiter in the same loop iteration lets nobody
into the block (whoever gets the permit is refused). -/
theorem zero_refuses_composite (s : Lim) (h : Inv s) (hT : s.T ≤ 0) (i k : Nat) :
    ∀ j, Ev.entered j ∉ (stepExitCancel s i k).2 := by
  have hS0 := h.S_nonneg
  have key : ∀ w2 : Work, WInv w2 → w2.st.T = s.T → (∀ j, Ev.entered j ∉ w2.evs) →
      ∀ j, Ev.entered j ∉ (finish w2).2 := by
    intro w2 hw2 hT2 hno j hj
    obtain ⟨e, he, _, hz⟩ := (finish_spec w2 hw2).evs_ext
    rw [he] at hj
    rcases List.mem_append.1 hj with hj | hj
    · exact hno j hj
    · obtain ⟨m, hm⟩ := hz (by rw [hT2]; exact hT) _ hj
      cases hm
  intro j
  unfold stepExitCancel
  by_cases hi : i ∈ s.holders
  · simp only [hi, ↓reduceIte]
    rw [retireBound_fixed s h.fx]
    by_cases hv : s.V > bound s
    · simp only [hv, ↓reduceIte]
      by_cases hj : k ∈ s.waiters
      · simp only [hj, ↓reduceIte]; simp
      · simp only [hj, ↓reduceIte]; simp
    · simp only [hv, ↓reduceIte]
      have w0inv : WInv ⟨{ s with holders := s.holders.erase i }, [], []⟩ := ⟨hS0, h.wait_S, h.fx⟩
      obtain ⟨rinv, fr, _⟩ := release_spec _ w0inv
      generalize release ⟨{ s with holders := s.holders.erase i }, [], []⟩ = w at rinv fr
      have e1 : w.st.T = s.T := fr.T
      have ee : w.evs = [] := fr.evs
      by_cases hjw : k ∈ w.woken
      · simp only [hjw, ↓reduceIte]
        have w1inv : WInv { w with woken := w.woken.erase k, evs := w.evs ++ [Ev.cancelled k] } :=
          ⟨rinv.S_nonneg, rinv.wait_S, rinv.fx⟩
        obtain ⟨r2, f2, _⟩ := release_spec _ w1inv
        have a : (release { w with woken := w.woken.erase k, evs := w.evs ++ [Ev.cancelled k] }).evs = w.evs ++ [Ev.cancelled k] := f2.evs
        have b : (release { w with woken := w.woken.erase k, evs := w.evs ++ [Ev.cancelled k] }).st.T = w.st.T := f2.T
        refine key _ r2 (by rw [b, e1]) ?_ j
        intro m hm; rw [a, ee] at hm; simp at hm
      · simp only [hjw, ↓reduceIte]
        by_cases hjq : k ∈ w.st.waiters
        · simp only [hjq, ↓reduceIte]
          have q0 : WInv { w with st := { w.st with waiters := w.st.waiters.erase k } } :=
            ⟨rinv.S_nonneg, fun _ => rinv.wait_S (by intro h0; rw [h0] at hjq; simp at hjq), rinv.fx⟩
          cases hwk : w.woken with
          | nil =>
            simp only []
            refine key _ ?_ ?_ ?_ j
            · exact ⟨q0.S_nonneg, q0.wait_S, q0.fx⟩
            · exact e1
            · intro m hm
              have : Ev.entered m ∈ w.evs ++ [Ev.cancelled k] := hm
              rw [ee] at this; simp at this
          | cons x rest =>
            simp only []
            have q1 : WInv { ({ w with st := { w.st with waiters := w.st.waiters.erase k } } : Work) with woken := rest } :=
              ⟨q0.S_nonneg, q0.wait_S, q0.fx⟩
            have a := resume_spec x _ q1
            generalize resume x { ({ w with st := { w.st with waiters := w.st.waiters.erase k } } : Work) with woken := rest } = w1 at a
            have aT : w1.st.T = w.st.T := a.T
            have aE : w1.evs = w.evs ++ [Ev.refused x] := (a.nonpos (by show w.st.T ≤ 0; rw [e1]; exact hT)).2.1
            refine key _ ?_ ?_ ?_ j
            · exact ⟨a.inv.S_nonneg, a.inv.wait_S, a.inv.fx⟩
            · show w1.st.T = s.T; rw [aT, e1]
            · intro m hm
              have : Ev.entered m ∈ w1.evs ++ [Ev.cancelled k] := hm
              rw [aE, ee] at this; simp at this
        · simp only [hjq, ↓reduceIte]
          intro hm
          have := key w rinv e1 (by intro m hm2; rw [ee] at hm2; simp at hm2) j
          simp at hm
          exact this hm
  · simp only [hi, ↓reduceIte]; simp

-- non-vacuity of `fifo_admission_composite`: limit 1, holder 0, waiters 1 and 2; 0 leaves and 1 -
-- who had just been handed the permit - is cancelled in the same iteration: 2 is admitted
example : let s := (run (init 1) [.enter 0, .enter 1, .enter 2]).1
    Inv s ∧ 0 ∈ s.holders ∧ s.waiters = [1, 2] ∧ (stepExitCancel s 0 1).2 = [.cancelled 1, .entered 2] := by
  refine ⟨run_inv _ _ (init_inv 1), ?_, ?_, ?_⟩ <;> decide

-- non-vacuity: limit 1 raised to 2 while a holder leaves and the first waiter is cancelled in the
-- same iteration - two holders at the end, never more than the largest limit in force (2)
example : (run2 (init 1) [.plain (.enter 0), .plain (.enter 1), .plain (.enter 2), .plain (.enter 3),
      .plain (.setTarget 2), .exitCancel 0 1]).1.holders = [2, 3] := by decide
example : maxTarget2 (max 1 1) [.plain (.enter 0), .plain (.enter 1), .plain (.enter 2), .plain (.enter 3),
      .plain (.setTarget 2), .exitCancel 0 1] = 2 := by decide

end Aiorpcx.C13
