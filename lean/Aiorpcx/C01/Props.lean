import Aiorpcx.C01.Recv
import Aiorpcx.Facts.C01
/-!
# C01 — a response completes exactly the request that caused it

Model: `Aiorpcx.C01.step` / `run` (`Model.lean`) mirror `JSONRPCConnection` in
`aiorpcx/jsonrpc.py` (after fixes/F07): `Conn.out` is `_requests`, `Conn.next` the id counter,
`Conn.futs[t]` the state of the `t`-th future created.  All theorems are quantified over every
operation history / connection state satisfying the invariant, every protocol, every counter
step `k > 0`, every result type `V`, and both settings of C05's guards (F4/F5); no bound.
-/
namespace Aiorpcx.C01
open List

variable {V : Type}

/-! ## ids outstanding at the same time are pairwise distinct -/

/-- **ids_fresh.**  After every history the ids outstanding (flattened over batches) are pairwise
    distinct and below the counter; batch keys are non-empty strictly increasing tuples and
    every entry has its own future. -/
theorem ids_fresh (vr : Variant) {k : Nat} (hk : 0 < k) (p : Option Proto) (start : Nat)
    (ops : List (Op V)) :
    let c := (run vr k (Conn.init p start) ops).1
    c.outIds.Nodup ∧ (∀ n ∈ c.outIds, n < c.next) ∧ Inv c := by
  have h := run_inv vr hk ops (Inv.init (V := V) p start)
  exact ⟨h.ids_nodup, h.ids_lt, h⟩

/-- ids drawn by the sends of a history, in order -/
def drawn : List Obs → List Nat
  | [] => []
  | .sent ids _ :: r => ids ++ drawn r
  | _ :: r => drawn r

theorem step_next_le (vr : Variant) (k : Nat) (c : Conn V) (op : Op V) :
    c.next ≤ (step vr k c op).1.next := by
  cases op <;> simp only [step]
  · split <;> simp
  · split
    · simp
    · split <;> simp
  · simp only [recvResponse, complete]; repeat' split
    all_goals simp
  · simp only [recvResponseBatch, complete]; repeat' split
    all_goals simp
  · simp
  · simp
  · simp

theorem step_sent_bounds (vr : Variant) {k : Nat} (hk : 0 < k) (c : Conn V) (op : Op V)
    (ids : List Nat) (t : Option Nat) (h : (step vr k c op).2 = .sent ids t) :
    ids.Pairwise (· < ·) ∧ ∀ n ∈ ids, c.next ≤ n ∧ n < (step vr k c op).1.next := by
  cases op with
  | sendRequest ok =>
    cases ok with
    | false => cases h
    | true =>
      simp only [step, ↓reduceIte, Obs.sent.injEq] at h ⊢
      obtain ⟨rfl, _⟩ := h
      simp; omega
  | sendBatch ms ok =>
    simp only [step] at h ⊢
    split at h
    · cases h
    · split at h
      · simp only [Obs.sent.injEq] at h
        obtain ⟨rfl, _⟩ := h
        simp
      · rename_i h1 h2
        simp only [Obs.sent.injEq] at h
        obtain ⟨rfl, _⟩ := h
        refine ⟨List.pairwise_lt_range' k hk, ?_⟩
        intro n hn
        simp only [h1, h2, ↓reduceIte]
        exact mem_range'_bounds hk hn
  | recvSingle d m =>
    simp only [step, recvResponse, complete] at h
    repeat' split at h
    all_goals cases h
  | recvBatch d ms =>
    simp only [step, recvResponseBatch, complete] at h
    repeat' split at h
    all_goals cases h
  | recvOther d => cases h
  | cancelAll => cases h
  | extCancel t => cases h

/-- **ids_never_reused.**  Over a whole history the ids handed out are strictly increasing:
    an id is never drawn twice, not even after its request completed. -/
theorem ids_never_reused (vr : Variant) {k : Nat} (hk : 0 < k) (ops : List (Op V)) (c : Conn V) :
    (drawn (run vr k c ops).2).Pairwise (· < ·) ∧
      ∀ n ∈ drawn (run vr k c ops).2, c.next ≤ n := by
  induction ops generalizing c with
  | nil => simp [run, drawn]
  | cons op ops ih =>
    obtain ⟨ih1, ih2⟩ := ih (step vr k c op).1
    have hle := step_next_le vr k c op
    simp only [run]
    cases hobs : (step vr k c op).2 with
    | sent ids t =>
      obtain ⟨h1, h2⟩ := step_sent_bounds vr hk c op ids t hobs
      simp only [drawn]
      refine ⟨?_, ?_⟩
      · rw [pairwise_append]
        refine ⟨h1, ih1, ?_⟩
        intro a ha b hb
        have := (h2 a ha).2
        have := ih2 b hb
        omega
      · intro n hn
        rcases mem_append.1 hn with hn | hn
        · exact (h2 n hn).1
        · have := ih2 n hn; omega
    | done _ => simp only [drawn]; exact ⟨ih1, fun n hn => by have := ih2 n hn; omega⟩
    | raised _ => simp only [drawn]; exact ⟨ih1, fun n hn => by have := ih2 n hn; omega⟩
    | cancelled _ => simp only [drawn]; exact ⟨ih1, fun n hn => by have := ih2 n hn; omega⟩

/-! ## a single response -/

/-- **recv_single_exact.**  Let the received payload count under id `i` with body `b`.
    If `i` equals (Python `==`) the id `n` of an outstanding single request with future `t`, then
    exactly that entry is popped and — if the future is still pending — exactly that future is
    settled with exactly the carried result / error / protocol error; the counter, the
    other entries (`List.erase`) and the other futures (`List.set`) are as before.
    If `i` equals no outstanding single id, `ProtocolError` is raised and nothing changes. -/
theorem recv_single_exact (vr : Variant) (k : Nat) {c : Conn V} (hinv : Inv c) (d : Proto)
    (m : RawResp V) (i : Id) (b : Body V)
    (hproc : processResponse vr (c.detect d) m = (i, b))
    (hbool : (vr.rejectBool && i.isBool) = false) (hhash : i.isUnhashable = false) :
    (∀ n t, (Key.single n, t) ∈ c.out → pyEq i (.int n) = true →
      step vr k c (.recvSingle d m) = popped (c.settled d) (.single n, t) (settle b)) ∧
    ((∀ n t, (Key.single n, t) ∈ c.out → pyEq i (.int n) = false) →
      step vr k c (.recvSingle d m) = (c.settled d, .raised .protocolError)) := by
  rw [step_recvSingle, hproc]
  simp only [recvResponse, hbool, hhash]
  constructor
  · intro n t he hi
    exact complete_found _ _ _ he (by simpa [matchSingle] using hi)
      (matchSingle_unique (hinv.settled d) he hi)
  · intro hno
    apply complete_none
    rintro ⟨key, t⟩ hx
    cases key with
    | single n => exact hno n t hx
    | batch ns => rfl

/-- non-vacuity of `recv_single_exact`: two singles and a 3-batch outstanding; the response
    `1.0` settles request 1 (ticket 1) and nothing else. -/
example :
    let c : Conn Nat := (run (repaired false false) 1 (Conn.init (some .v2) 0)
      [.sendRequest true, .sendRequest true, .sendBatch [.req, .notif, .req, .req] true]).1
    c.out = [(.single 0, 0), (.single 1, 1), (.batch [2, 3, 4], 2)] ∧
    step (repaired false false) 1 c (.recvSingle .v2 ⟨some (.half 2), true, .val 7⟩) =
      ({ c with out := [(.single 0, 0), (.batch [2, 3, 4], 2)],
                futs := [.pending, .result 7, .pending] }, .done [1]) := by
  decide

/-- every other entry and every other future is untouched by a completed single response -/
theorem popped_others (c : Conn V) (e : Key × Nat) (f : Fut V) :
    (∀ x ∈ c.out, x ≠ e → x ∈ (popped c e f).1.out) ∧
    (∀ x ∈ (popped c e f).1.out, x ∈ c.out) ∧
    (∀ t, t ≠ e.2 → (popped c e f).1.futs[t]? = c.futs[t]?) ∧
    (popped c e f).1.next = c.next := by
  unfold popped
  split
  · refine ⟨?_, ?_, ?_, rfl⟩
    · intro x hx hne; exact (mem_erase_of_ne hne).2 hx
    · intro x hx; exact mem_of_mem_erase hx
    · intro t ht; simp [getElem?_set, Ne.symm ht]
  · refine ⟨?_, ?_, fun _ _ => rfl, rfl⟩
    · intro x hx hne; exact (mem_erase_of_ne hne).2 hx
    · intro x hx; exact mem_of_mem_erase hx

/-- the popped entry is gone (so a replayed response finds nothing) -/
theorem popped_gone {c : Conn V} (h : Inv c) (e : Key × Nat) (f : Fut V) :
    e ∉ (popped c e f).1.out := by
  have hn := h.out_nodup
  unfold popped
  split <;> exact fun hm => (Nodup.mem_erase_iff hn).1 hm |>.1 rfl

/-! ## a response batch -/

/-- **recv_batch_aligned.**  A batch with ids `ns` (member order) and future `t` is outstanding
    and a response batch arrives whose members are well-formed and whose ids are, as numbers,
    **any permutation** of `ns`.  Then the batch entry is popped and its future (if pending)
    receives `rs` where `rs[j]` is the result the peer sent under member `j`'s id — results in
    the order the members were added, for every permutation — and it is the only such result. -/
theorem recv_batch_aligned (vr : Variant) (k : Nat) {c : Conn V} (hinv : Inv c) (d : Proto)
    (ms : List (RawResp V)) (ns : List Nat) (t : Nat)
    (hb : (c.detect d).allowBatches = true) (he : (Key.batch ns, t) ∈ c.out)
    (pairs : List (Id × Res V))
    (hok : ms.map (processResponse vr (c.detect d)) = pairs.map fun x => (x.1, Body.ok x.2))
    (hperm : pairs.map (fun x => x.1.num2) ~ keyVals ns) :
    ∃ rs : List (Res V), rs.length = ns.length ∧
      (∀ j (hj : j < ns.length) (hj' : j < rs.length),
        (∃ i, (i, rs[j]) ∈ pairs ∧ pyEq i (.int ns[j]) = true) ∧
        (∀ i r, (i, r) ∈ pairs → pyEq i (.int ns[j]) = true → r = rs[j])) ∧
      step vr k c (.recvBatch d ms) = popped (c.settled d) (.batch ns, t) (.batch rs) := by
  have hkey := hinv.key_ok _ he
  simp only [Key.ids] at hkey
  obtain ⟨s, hs, hsp, hsk⟩ := sorted_aligned ns hkey.2 pairs hperm
  have hlen : s.length = ns.length := by
    have := congrArg List.length hsk; simpa [keyVals] using this
  have hpne : pairs ≠ [] := by
    intro h; subst h
    have := hperm.length_eq
    simp only [map_nil, length_nil, keyVals, length_map] at this
    exact hkey.1 (List.length_eq_zero_iff.1 this.symm)
  refine ⟨s.map Prod.snd, by simpa using hlen, ?_, ?_⟩
  · intro j hj hj'
    have hjs : j < s.length := by omega
    have hnum : (s[j]).1.num2 = some (2 * (ns[j] : Int)) := by
      have := congrArg (fun l => l[j]?) hsk
      simpa [keyVals, hjs, hj] using this
    refine ⟨⟨(s[j]).1, ?_, (pyEq_int_iff _ _).2 hnum⟩, ?_⟩
    · have : s[j] ∈ pairs := hsp.subset (getElem_mem hjs)
      simpa using this
    · intro i r hir hi
      -- (i, r) sits at some position j' of the sorted list; its id equals member j's id
      obtain ⟨j', hj's, hsj⟩ := getElem_of_mem (hsp.symm.subset hir)
      have hnum' : (s[j']).1.num2 = some (2 * (ns[j']'(by omega) : Int)) := by
        have := congrArg (fun l => l[j']?) hsk
        simpa [keyVals, hj's, (by omega : j' < ns.length)] using this
      have hi' := (pyEq_int_iff i _).1 hi
      rw [hsj] at hnum'
      simp only [hi', Option.some.injEq] at hnum'
      have hidx : ns[j'] = ns[j] := by omega
      have hjj : j' = j := by
        have hpw := List.pairwise_iff_getElem.1 hkey.2
        rcases Nat.lt_trichotomy j' j with hlt | heq | hgt
        · have := hpw j' j (by omega) hj hlt; omega
        · exact heq
        · have := hpw j j' hj (by omega) hgt; omega
      subst hjj
      simp [hsj]
  · rw [step_recvBatch]
    simp only [hb, Bool.not_true, Bool.false_eq_true, ↓reduceIte, hok]
    unfold recvResponseBatch
    have h1 : (pairs.map fun x => (x.1, Body.ok x.2)).isEmpty = false := by
      cases pairs with
      | nil => exact absurd rfl hpne
      | cons a l => rfl
    simp only [h1, Bool.false_eq_true, ↓reduceIte, any_malformed_map_ok, okPairs_map_ok, hs]
    have hunh : s.any (·.1.isUnhashable) = false := by
      rw [any_eq_false]
      intro x hx
      have : x.1.num2 ∈ keyVals ns := hsk ▸ mem_map.2 ⟨x, hx, rfl⟩
      obtain ⟨n, _, hn⟩ := mem_map.1 this
      cases hx1 : x.1 <;> simp_all [Id.num2, Id.isUnhashable]
    simp only [hunh, Bool.false_eq_true, ↓reduceIte]
    have htup : tupleEq (s.map Prod.fst) ns = true := by
      rw [tupleEq_iff, map_map]; exact hsk
    exact complete_found _ _ _ he (by simpa [matchBatch] using htup)
      (matchBatch_unique (hinv.settled d) he htup)

/-- non-vacuity of `recv_batch_aligned`: the members of the 3-batch answered in the order
    4, 2, 3 (one id as a float); the future gets the results in member order 2, 3, 4. -/
example :
    let c : Conn Nat := (run (repaired false false) 1 (Conn.init (some .v2) 0)
      [.sendRequest true, .sendRequest true, .sendBatch [.req, .notif, .req, .req] true]).1
    (step (repaired false false) 1 c (.recvBatch .v2
      [⟨some (.int 4), true, .val 40⟩, ⟨some (.half 4), true, .err 20⟩,
       ⟨some (.int 3), true, .val 30⟩])).1.futs
      = [.pending, .pending, .batch [.err 20, .val 30, .val 40]] := by
  decide +kernel

/-- **batch_mismatch** (converse).  If a response batch is accepted at all, then every member
    was well-formed and the received ids are a permutation of the ids of an outstanding batch —
    the one that is popped.  Duplicated, missing, foreign or single-request ids never select
    anything. -/
theorem batch_mismatch (vr : Variant) (k : Nat) (c : Conn V) (d : Proto)
    (ms : List (RawResp V)) (ts : List Nat)
    (h : (step vr k c (.recvBatch d ms)).2 = .done ts) :
    ∃ ns t, ∃ pairs : List (Id × Res V), (Key.batch ns, t) ∈ c.out ∧
      ms.map (processResponse vr (c.detect d)) = pairs.map (fun x => (x.1, Body.ok x.2)) ∧
      pairs.map (fun x => x.1.num2) ~ keyVals ns ∧ (ts = [t] ∨ ts = []) := by
  rw [step_recvBatch] at h
  split at h
  · cases h
  · unfold recvResponseBatch at h
    split at h
    · cases h
    · split at h
      · cases h
      · rename_i hmal
        split at h
        · cases h
        · rename_i s hs
          split at h
          · cases h
          · unfold complete at h
            split at h
            · cases h
            · rename_i e hfind
              obtain ⟨key, t⟩ := e
              have hm := find?_some hfind
              have hmem : (key, t) ∈ c.out := mem_of_find?_eq_some hfind
              cases key with
              | single n => simp [matchBatch] at hm
              | batch ns =>
                simp only [matchBatch, tupleEq_iff, map_map] at hm
                refine ⟨ns, t, okPairs (ms.map (processResponse vr (c.detect d))), hmem,
                  eq_map_ok_of_no_malformed _ (by simpa using hmal),
                  sorted_mismatch ns _ s hs hm, ?_⟩
                split at h
                · simp only [Obs.done.injEq] at h; exact Or.inl h.symm
                · simp only [Obs.done.injEq] at h; exact Or.inr h.symm

/-! ## unknown ids, replays -/

/-- **raised_unchanged.**  Whenever receiving a response or response batch raises — whatever the
    exception — the table of outstanding requests, every future and the counter are exactly as
    before (`Conn.settled` only records the protocol AutoDetect has settled on). -/
theorem raised_unchanged (vr : Variant) (k : Nat) (c : Conn V) (d : Proto) (e : PyExc) :
    (∀ m : RawResp V, (step vr k c (.recvSingle d m)).2 = .raised e →
      (step vr k c (.recvSingle d m)).1 = c.settled d) ∧
    (∀ ms : List (RawResp V), (step vr k c (.recvBatch d ms)).2 = .raised e →
      (step vr k c (.recvBatch d ms)).1 = c.settled d) := by
  constructor
  · intro m h
    rw [step_recvSingle] at h ⊢
    exact recvResponse_raised _ _ _ _ e h
  · intro ms h
    rw [step_recvBatch] at h ⊢
    split
    · rfl
    · rename_i hb
      simp only [hb] at h
      exact recvResponseBatch_raised _ _ _ e h

/-- **unknown_id_harmless.**  A single response whose id equals no outstanding single id, and a
    response batch whose sorted ids equal no outstanding batch key, are rejected — with
    `ProtocolError`, except where C05's F4/F5 are unrepaired and the id is unhashable / the ids
    unsortable — and nothing outstanding is disturbed. -/
theorem unknown_id_harmless (vr : Variant) (k : Nat) (c : Conn V) (d : Proto) :
    (∀ m : RawResp V,
      (∀ n t, (Key.single n, t) ∈ c.out →
        pyEq (processResponse vr (c.detect d) m).1 (.int n) = false) →
      ∃ e, step vr k c (.recvSingle d m) = (c.settled d, .raised e) ∧
        (e = .typeError → vr.lookupGuard = false ∧
          (processResponse vr (c.detect d) m).1.isUnhashable = true)) ∧
    (∀ ms : List (RawResp V),
      (∀ ns t, (Key.batch ns, t) ∈ c.out →
        ¬ (okPairs (ms.map (processResponse vr (c.detect d)))).map (fun x => x.1.num2)
            ~ keyVals ns) →
      ∃ e, step vr k c (.recvBatch d ms) = (c.settled d, .raised e) ∧
        (e = .typeError → vr.lookupGuard = false ∨ vr.sortGuard = false)) := by
  constructor
  · intro m hno
    rw [step_recvSingle]
    unfold recvResponse
    split
    · exact ⟨_, rfl, by simp⟩
    · split
      · rename_i hu
        refine ⟨_, rfl, ?_⟩
        intro he
        split at he
        · cases he
        · rename_i hg; exact ⟨by simpa using hg, hu⟩
      · refine ⟨.protocolError, ?_, by simp⟩
        apply complete_none
        rintro ⟨key, t⟩ hx
        cases key with
        | single n => exact hno n t hx
        | batch ns => rfl
  · intro ms hno
    cases hobs : (step vr k c (.recvBatch d ms)).2 with
    | done ts =>
      obtain ⟨ns, t, pairs, hmem, hok, hperm, _⟩ := batch_mismatch vr k c d ms ts hobs
      rw [hok, okPairs_map_ok] at hno
      exact absurd hperm (hno ns t hmem)
    | sent _ _ =>
      simp only [step, recvResponseBatch, complete] at hobs
      repeat' split at hobs
      all_goals cases hobs
    | cancelled _ =>
      simp only [step, recvResponseBatch, complete] at hobs
      repeat' split at hobs
      all_goals cases hobs
    | raised e =>
      refine ⟨e, ?_, ?_⟩
      · exact Prod.ext ((raised_unchanged vr k c d e).2 ms hobs) hobs
      · intro he; subst he
        rw [step_recvBatch] at hobs
        split at hobs
        · cases hobs
        · exact recvResponseBatch_typeError _ _ _ hobs

/-! ## a response never completes the same request twice -/

/-- tickets completed by the receives of a history, in order -/
def completions : List Obs → List Nat
  | [] => []
  | .done ts :: r => ts ++ completions r
  | _ :: r => completions r

theorem step_done_mem (vr : Variant) (k : Nat) {c : Conn V} (hinv : Inv c) (op : Op V)
    (ts : List Nat) (h : (step vr k c op).2 = .done ts) :
    ts = [] ∨ ∃ t, ts = [t] ∧ t ∈ c.out.map Prod.snd ∧
      t ∉ (step vr k c op).1.out.map Prod.snd := by
  cases op with
  | sendRequest ok => simp only [step] at h; split at h <;> cases h
  | sendBatch ms ok =>
    simp only [step] at h
    repeat' split at h
    all_goals cases h
  | recvSingle d m =>
    rw [step_recvSingle] at h ⊢
    exact recvResponse_done vr (hinv.settled d) _ _ ts h
  | recvBatch d ms =>
    rw [step_recvBatch] at h ⊢
    split
    · rename_i hb; simp only [hb] at h; cases h
    · rename_i hb; simp only [hb] at h
      exact recvResponseBatch_done vr (hinv.settled d) _ ts h
  | recvOther d =>
    simp only [step, Obs.done.injEq] at h; exact Or.inl h.symm
  | cancelAll => cases h
  | extCancel t =>
    simp only [step, Obs.done.injEq] at h; exact Or.inl h.symm

end Aiorpcx.C01
