import Aiorpcx.C01.Commute
import Aiorpcx.C01.SortExplicit
import Aiorpcx.Facts.C01
/-!
# C01 — a response completes exactly the request that caused it

Model: `Aiorpcx.C01.step` / `run` (`Model.lean`) mirror `JSONRPCConnection` in
`aiorpcx/jsonrpc.py` (after fixes/F07): `Conn.out` is `_requests`, `Conn.next` the id counter,
`Conn.futs[t]` the state of the `t`-th future created.  All theorems are quantified over every
operation history / connection state satisfying the invariant, every protocol, every counter
step `k > 0`, every result type `V`, and both settings of C05's guards (F4/F5); no bound.
-/
namespace Aiorpcx.C01
open List

variable {V : Type}

/-! ## ids outstanding at the same time are pairwise distinct -/

/-- **ids_fresh.**  After every history the ids outstanding (flattened over batches) are pairwise
    distinct and below the counter; batch keys are non-empty strictly increasing tuples and
    every entry has its own future. -/
theorem ids_fresh (vr : Variant) {k : Nat} (hk : 0 < k) (p : Option Proto) (start : Nat)
    (ops : List (Op V)) :
    let c := (run vr k (Conn.init p start) ops).1
    c.outIds.Nodup ∧ (∀ n ∈ c.outIds, n < c.next) ∧ Inv c := by
  have h := run_inv vr hk ops (Inv.init (V := V) p start)
  exact ⟨h.ids_nodup, h.ids_lt, h⟩

/-- ids drawn by the sends of a history, in order -/
def drawn : List Obs → List Nat
  | [] => []
  | .sent ids _ :: r => ids ++ drawn r
  | _ :: r => drawn r

theorem step_next_le (vr : Variant) (k : Nat) (c : Conn V) (op : Op V) :
    c.next ≤ (step vr k c op).1.next := by
  cases op <;> simp only [step]
  · split
    · simp
    · simp only; split <;> omega
  · split
    · simp only; split <;> omega
    · split <;> simp
  · simp only [recvResponse, complete]; repeat' split
    all_goals simp
  · simp only [recvResponseBatch, complete]; repeat' split
    all_goals simp
  · simp
  · simp
  · simp

theorem step_sent_bounds (vr : Variant) {k : Nat} (hk : 0 < k) (c : Conn V) (op : Op V)
    (ids : List Nat) (t : Option Nat) (h : (step vr k c op).2 = .sent ids t) :
    ids.Pairwise (· < ·) ∧ ∀ n ∈ ids, c.next ≤ n ∧ n < (step vr k c op).1.next := by
  cases op with
  | sendRequest ok =>
    cases ok with
    | false => cases h
    | true =>
      simp only [step, ↓reduceIte, Obs.sent.injEq] at h ⊢
      obtain ⟨rfl, _⟩ := h
      simp; omega
  | sendBatch ms ok =>
    simp only [step] at h ⊢
    split at h
    · cases h
    · split at h
      · simp only [Obs.sent.injEq] at h
        obtain ⟨rfl, _⟩ := h
        simp
      · rename_i h1 h2
        simp only [Obs.sent.injEq] at h
        obtain ⟨rfl, _⟩ := h
        refine ⟨List.pairwise_lt_range' k hk, ?_⟩
        intro n hn
        simp only [h1, h2, ↓reduceIte]
        exact mem_range'_bounds hk hn
  | recvSingle d m =>
    simp only [step, recvResponse, complete] at h
    repeat' split at h
    all_goals cases h
  | recvBatch d ms =>
    simp only [step, recvResponseBatch, complete] at h
    repeat' split at h
    all_goals cases h
  | recvOther d => cases h
  | cancelAll => cases h
  | extCancel t => cases h

/-- **ids_never_reused.**  Over a whole history the ids handed out are strictly increasing:
    an id is never drawn twice, not even after its request completed. -/
theorem ids_never_reused (vr : Variant) {k : Nat} (hk : 0 < k) (ops : List (Op V)) (c : Conn V) :
    (drawn (run vr k c ops).2).Pairwise (· < ·) ∧
      ∀ n ∈ drawn (run vr k c ops).2, c.next ≤ n := by
  induction ops generalizing c with
  | nil => simp [run, drawn]
  | cons op ops ih =>
    obtain ⟨ih1, ih2⟩ := ih (step vr k c op).1
    have hle := step_next_le vr k c op
    simp only [run]
    cases hobs : (step vr k c op).2 with
    | sent ids t =>
      obtain ⟨h1, h2⟩ := step_sent_bounds vr hk c op ids t hobs
      simp only [drawn]
      refine ⟨?_, ?_⟩
      · rw [pairwise_append]
        refine ⟨h1, ih1, ?_⟩
        intro a ha b hb
        have := (h2 a ha).2
        have := ih2 b hb
        omega
      · intro n hn
        rcases mem_append.1 hn with hn | hn
        · exact (h2 n hn).1
        · have := ih2 n hn; omega
    | done _ => simp only [drawn]; exact ⟨ih1, fun n hn => by have := ih2 n hn; omega⟩
    | raised _ => simp only [drawn]; exact ⟨ih1, fun n hn => by have := ih2 n hn; omega⟩
    | cancelled _ => simp only [drawn]; exact ⟨ih1, fun n hn => by have := ih2 n hn; omega⟩

/-! ## a single response -/

/-- **recv_single_exact.**  Let the received payload count under id `i` with body `b`.
    If `i` equals (Python `==`) the id `n` of an outstanding single request with future `t`, then
    exactly that entry is popped and — if the future is still pending — exactly that future is
    settled with exactly the carried result / error / protocol error; the counter, the
    other entries (`List.erase`) and the other futures (`List.set`) are as before.
    If `i` equals no outstanding single id, `ProtocolError` is raised and nothing changes. -/
theorem recv_single_exact (vr : Variant) (k : Nat) {c : Conn V} (hinv : Inv c) (d : Proto)
    (m : RawResp V) (i : Id) (b : Body V)
    (hproc : processResponse vr (c.detect d) m = (i, b))
    (hbool : (vr.rejectBool && i.isBool) = false) (hhash : i.isUnhashable = false) :
    (∀ n t, (Key.single n, t) ∈ c.out → pyEq i (.int n) = true →
      step vr k c (.recvSingle d m) = popped (c.settled d) (.single n, t) (settle b)) ∧
    ((∀ n t, (Key.single n, t) ∈ c.out → pyEq i (.int n) = false) →
      step vr k c (.recvSingle d m) = (c.settled d, .raised .protocolError)) := by
  rw [step_recvSingle, hproc]
  simp only [recvResponse, hbool, hhash]
  constructor
  · intro n t he hi
    exact complete_found _ _ _ he (by simpa [matchSingle] using hi)
      (matchSingle_unique (hinv.settled d) he hi)
  · intro hno
    apply complete_none
    rintro ⟨key, t⟩ hx
    cases key with
    | single n => exact hno n t hx
    | batch ns => rfl

/-- non-vacuity of `recv_single_exact`: two singles and a 3-batch outstanding; the response
    `1.0` settles request 1 (ticket 1) and nothing else. -/
example :
    let c : Conn Nat := (run (repaired true true) 1 (Conn.init (some .v2) 0)
      [.sendRequest true, .sendRequest true, .sendBatch [.req, .notif, .req, .req] true]).1
    c.out = [(.single 0, 0), (.single 1, 1), (.batch [2, 3, 4], 2)] ∧
    step (repaired true true) 1 c (.recvSingle .v2 ⟨some (.half 2), true, .val 7⟩) =
      ({ c with out := [(.single 0, 0), (.batch [2, 3, 4], 2)],
                futs := [.pending, .result 7, .pending] }, .done [1]) := by
  decide

/-- every other entry and every other future is untouched by a completed single response -/
theorem popped_others (c : Conn V) (e : Key × Nat) (f : Fut V) :
    (∀ x ∈ c.out, x ≠ e → x ∈ (popped c e f).1.out) ∧
    (∀ x ∈ (popped c e f).1.out, x ∈ c.out) ∧
    (∀ t, t ≠ e.2 → (popped c e f).1.futs[t]? = c.futs[t]?) ∧
    (popped c e f).1.next = c.next := by
  unfold popped
  split
  · refine ⟨?_, ?_, ?_, rfl⟩
    · intro x hx hne; exact (mem_erase_of_ne hne).2 hx
    · intro x hx; exact mem_of_mem_erase hx
    · intro t ht; simp [Ne.symm ht]
  · refine ⟨?_, ?_, fun _ _ => rfl, rfl⟩
    · intro x hx hne; exact (mem_erase_of_ne hne).2 hx
    · intro x hx; exact mem_of_mem_erase hx

/-- the popped entry is gone (so a replayed response finds nothing) -/
theorem popped_gone {c : Conn V} (h : Inv c) (e : Key × Nat) (f : Fut V) :
    e ∉ (popped c e f).1.out := by
  have hn := h.out_nodup
  unfold popped
  split <;> exact fun hm => (Nodup.mem_erase_iff hn).1 hm |>.1 rfl

/-! ## a response batch -/

/-- **recv_batch_aligned.**  A batch with ids `ns` (member order) and future `t` is outstanding
    and a response batch arrives whose members are well-formed and whose ids are, as numbers,
    **any permutation** of `ns`.  Then the batch entry is popped and its future (if pending)
    receives `rs` where `rs[j]` is the result the peer sent under member `j`'s id — results in
    the order the members were added, for every permutation — and it is the only such result. -/
theorem recv_batch_aligned (vr : Variant) (k : Nat) {c : Conn V} (hinv : Inv c) (d : Proto)
    (ms : List (RawResp V)) (ns : List Nat) (t : Nat)
    (hb : (c.detect d).allowBatches = true) (he : (Key.batch ns, t) ∈ c.out)
    (pairs : List (Id × Res V))
    (hok : ms.map (processResponse vr (c.detect d)) = pairs.map fun x => (x.1, Body.ok x.2))
    (hperm : pairs.map (fun x => x.1.num2) ~ keyVals ns) :
    ∃ rs : List (Res V), rs.length = ns.length ∧
      (∀ j (hj : j < ns.length) (hj' : j < rs.length),
        (∃ i, (i, rs[j]) ∈ pairs ∧ pyEq i (.int ns[j]) = true) ∧
        (∀ i r, (i, r) ∈ pairs → pyEq i (.int ns[j]) = true → r = rs[j])) ∧
      step vr k c (.recvBatch d ms) = popped (c.settled d) (.batch ns, t) (.batch rs) := by
  have hkey := hinv.key_ok _ he
  simp only [Key.ids] at hkey
  obtain ⟨s, hs, hsp, hsk⟩ := sorted_aligned ns hkey.2 pairs hperm
  have hlen : s.length = ns.length := by
    have := congrArg List.length hsk; simpa [keyVals] using this
  have hpne : pairs ≠ [] := by
    intro h; subst h
    have := hperm.length_eq
    simp only [map_nil, length_nil, keyVals, length_map] at this
    exact hkey.1 (List.length_eq_zero_iff.1 this.symm)
  refine ⟨s.map Prod.snd, by simpa using hlen, ?_, ?_⟩
  · intro j hj hj'
    have hjs : j < s.length := by omega
    have hnum : (s[j]).1.num2 = some (2 * (ns[j] : Int)) := by
      have := congrArg (fun l => l[j]?) hsk
      simpa [keyVals, hjs, hj] using this
    refine ⟨⟨(s[j]).1, ?_, (pyEq_int_iff _ _).2 hnum⟩, ?_⟩
    · have : s[j] ∈ pairs := hsp.subset (getElem_mem hjs)
      simpa using this
    · intro i r hir hi
      -- (i, r) sits at some position j' of the sorted list; its id equals member j's id
      obtain ⟨j', hj's, hsj⟩ := getElem_of_mem (hsp.symm.subset hir)
      have hnum' : (s[j']).1.num2 = some (2 * (ns[j']'(by omega) : Int)) := by
        have := congrArg (fun l => l[j']?) hsk
        simpa [keyVals, hj's, (by omega : j' < ns.length)] using this
      have hi' := (pyEq_int_iff i _).1 hi
      rw [hsj] at hnum'
      simp only [hi', Option.some.injEq] at hnum'
      have hidx : ns[j'] = ns[j] := by omega
      have hjj : j' = j := by
        have hpw := List.pairwise_iff_getElem.1 hkey.2
        rcases Nat.lt_trichotomy j' j with hlt | heq | hgt
        · have := hpw j' j (by omega) hj hlt; omega
        · exact heq
        · have := hpw j j' hj (by omega) hgt; omega
      subst hjj
      simp [hsj]
  · rw [step_recvBatch]
    simp only [hb, Bool.not_true, Bool.false_eq_true, ↓reduceIte, hok]
    unfold recvResponseBatch
    have h1 : (pairs.map fun x => (x.1, Body.ok x.2)).isEmpty = false := by
      cases pairs with
      | nil => exact absurd rfl hpne
      | cons a l => rfl
    simp only [h1, Bool.false_eq_true, ↓reduceIte, any_malformed_map_ok, okPairs_map_ok, hs]
    have hunh : s.any (·.1.isUnhashable) = false := by
      rw [any_eq_false]
      intro x hx
      have : x.1.num2 ∈ keyVals ns := hsk ▸ mem_map.2 ⟨x, hx, rfl⟩
      obtain ⟨n, _, hn⟩ := mem_map.1 this
      cases hx1 : x.1 <;> simp_all [Id.num2, Id.isUnhashable]
    simp only [hunh, Bool.false_eq_true, ↓reduceIte]
    have htup : tupleEq (s.map Prod.fst) ns = true := by
      rw [tupleEq_iff, map_map]; exact hsk
    exact complete_found _ _ _ he (by simpa [matchBatch] using htup)
      (matchBatch_unique (hinv.settled d) he htup)

/-- non-vacuity of `recv_batch_aligned`: the members of the 3-batch answered in the order
    4, 2, 3 (one id as a float); the future gets the results in member order 2, 3, 4. -/
example :
    let c : Conn Nat := (run (repaired true true) 1 (Conn.init (some .v2) 0)
      [.sendRequest true, .sendRequest true, .sendBatch [.req, .notif, .req, .req] true]).1
    (step (repaired true true) 1 c (.recvBatch .v2
      [⟨some (.int 4), true, .val 40⟩, ⟨some (.half 4), true, .err 20⟩,
       ⟨some (.int 3), true, .val 30⟩])).1.futs
      = [.pending, .pending, .batch [.err 20, .val 30, .val 40]] := by
  decide +kernel

/-- **batch_mismatch** (converse).  If a response batch is accepted at all, then every member
    was well-formed and the received ids are a permutation of the ids of an outstanding batch —
    the one that is popped.  Duplicated, missing, foreign or single-request ids never select
    anything. -/
theorem batch_mismatch (vr : Variant) (k : Nat) (c : Conn V) (d : Proto)
    (ms : List (RawResp V)) (ts : List Nat)
    (h : (step vr k c (.recvBatch d ms)).2 = .done ts) :
    ∃ ns t, ∃ pairs : List (Id × Res V), (Key.batch ns, t) ∈ c.out ∧
      ms.map (processResponse vr (c.detect d)) = pairs.map (fun x => (x.1, Body.ok x.2)) ∧
      pairs.map (fun x => x.1.num2) ~ keyVals ns ∧ (ts = [t] ∨ ts = []) := by
  rw [step_recvBatch] at h
  split at h
  · cases h
  · unfold recvResponseBatch at h
    split at h
    · cases h
    · split at h
      · cases h
      · rename_i hmal
        split at h
        · cases h
        · rename_i s hs
          split at h
          · cases h
          · unfold complete at h
            split at h
            · cases h
            · rename_i e hfind
              obtain ⟨key, t⟩ := e
              have hm := find?_some hfind
              have hmem : (key, t) ∈ c.out := mem_of_find?_eq_some hfind
              cases key with
              | single n => simp [matchBatch] at hm
              | batch ns =>
                simp only [matchBatch, tupleEq_iff, map_map] at hm
                refine ⟨ns, t, okPairs (ms.map (processResponse vr (c.detect d))), hmem,
                  eq_map_ok_of_no_malformed _ (by simpa using hmal),
                  sorted_mismatch ns _ s hs hm, ?_⟩
                split at h
                · simp only [Obs.done.injEq] at h; exact Or.inl h.symm
                · simp only [Obs.done.injEq] at h; exact Or.inr h.symm

/-- **malformed_member_refuses_batch.**  A response batch with a malformed member - whatever id
    that member carries: the id of an outstanding single request, of a member of an outstanding
    batch, of nothing - is refused as a whole with a protocol error, in every variant: no future
    moves, no entry leaves the table (in particular the single request whose id the bad member
    carries stays outstanding and is completed by its own response later). -/
theorem malformed_member_refuses_batch (vr : Variant) (k : Nat) (c : Conn V) (d : Proto)
    (ms : List (RawResp V))
    (hbad : ∃ m ∈ ms, (processResponse vr (c.detect d) m).2.isMalformed = true) :
    step vr k c (.recvBatch d ms) = (c.settled d, .raised .protocolError) := by
  rw [step_recvBatch]
  split
  · rfl
  · obtain ⟨m, hm, hmal⟩ := hbad
    have hne : (ms.map (processResponse vr (c.detect d))).isEmpty = false := by
      cases ms with
      | nil => cases hm
      | cons x xs => rfl
    have hany : (ms.map (processResponse vr (c.detect d))).any (·.2.isMalformed) = true := by
      rw [List.any_eq_true]
      exact ⟨_, List.mem_map.2 ⟨m, hm, rfl⟩, hmal⟩
    simp [recvResponseBatch, hne, hany]

/-! ## unknown ids, replays -/

/-- **raised_unchanged.**  Whenever receiving a response or response batch raises — whatever the
    exception — the table of outstanding requests, every future and the counter are exactly as
    before (`Conn.settled` only records the protocol AutoDetect has settled on). -/
theorem raised_unchanged (vr : Variant) (k : Nat) (c : Conn V) (d : Proto) (e : PyExc) :
    (∀ m : RawResp V, (step vr k c (.recvSingle d m)).2 = .raised e →
      (step vr k c (.recvSingle d m)).1 = c.settled d) ∧
    (∀ ms : List (RawResp V), (step vr k c (.recvBatch d ms)).2 = .raised e →
      (step vr k c (.recvBatch d ms)).1 = c.settled d) := by
  constructor
  · intro m h
    rw [step_recvSingle] at h ⊢
    exact recvResponse_raised _ _ _ _ e h
  · intro ms h
    rw [step_recvBatch] at h ⊢
    split
    · rfl
    · rename_i hb
      simp only [hb] at h
      exact recvResponseBatch_raised _ _ _ e h

/-- Whatever the variant: a single response whose id equals no outstanding single id, and a
    response batch whose sorted ids equal no outstanding batch key, raise and leave everything as
    it was; the exception is `ProtocolError` except where the guards F4/F5 are missing and the id is
    unhashable / the ids are unsortable (`unknown_id_pinned_witness`). -/
theorem unknown_id_raises (vr : Variant) (k : Nat) (c : Conn V) (d : Proto) :
    (∀ m : RawResp V,
      (∀ n t, (Key.single n, t) ∈ c.out →
        pyEq (processResponse vr (c.detect d) m).1 (.int n) = false) →
      ∃ e, step vr k c (.recvSingle d m) = (c.settled d, .raised e) ∧
        (e = .typeError → vr.lookupGuard = false ∧
          (processResponse vr (c.detect d) m).1.isUnhashable = true)) ∧
    (∀ ms : List (RawResp V),
      (∀ ns t, (Key.batch ns, t) ∈ c.out →
        ¬ (okPairs (ms.map (processResponse vr (c.detect d)))).map (fun x => x.1.num2)
            ~ keyVals ns) →
      ∃ e, step vr k c (.recvBatch d ms) = (c.settled d, .raised e) ∧
        (e = .typeError → vr.lookupGuard = false ∨ vr.sortGuard = false)) := by
  constructor
  · intro m hno
    rw [step_recvSingle]
    unfold recvResponse
    split
    · exact ⟨_, rfl, by simp⟩
    · split
      · rename_i hu
        refine ⟨_, rfl, ?_⟩
        intro he
        split at he
        · cases he
        · rename_i hg; exact ⟨by simpa using hg, hu⟩
      · refine ⟨.protocolError, ?_, by simp⟩
        apply complete_none
        rintro ⟨key, t⟩ hx
        cases key with
        | single n => exact hno n t hx
        | batch ns => rfl
  · intro ms hno
    cases hobs : (step vr k c (.recvBatch d ms)).2 with
    | done ts =>
      obtain ⟨ns, t, pairs, hmem, hok, hperm, _⟩ := batch_mismatch vr k c d ms ts hobs
      rw [hok, okPairs_map_ok] at hno
      exact absurd hperm (hno ns t hmem)
    | sent _ _ =>
      simp only [step, recvResponseBatch, complete] at hobs
      repeat' split at hobs
      all_goals cases hobs
    | cancelled _ =>
      simp only [step, recvResponseBatch, complete] at hobs
      repeat' split at hobs
      all_goals cases hobs
    | raised e =>
      refine ⟨e, ?_, ?_⟩
      · exact Prod.ext ((raised_unchanged vr k c d e).2 ms hobs) hobs
      · intro he; subst he
        rw [step_recvBatch] at hobs
        split at hobs
        · cases hobs
        · exact recvResponseBatch_typeError _ _ _ hobs


/-- **unknown_id_harmless.**  In the tree as it is (both guards present: `facts_guards`), a single
    response whose id equals no outstanding single id — any JSON value, lists and dicts included —
    and a response batch whose ids are not a permutation of the ids of an outstanding batch —
    unsortable mixtures included — are rejected with `ProtocolError`, and nothing outstanding is
    disturbed: table, futures and counter are as before. -/
theorem unknown_id_harmless (vr : Variant) (hl : vr.lookupGuard = true) (hs : vr.sortGuard = true)
    (k : Nat) (c : Conn V) (d : Proto) :
    (∀ m : RawResp V,
      (∀ n t, (Key.single n, t) ∈ c.out →
        pyEq (processResponse vr (c.detect d) m).1 (.int n) = false) →
      step vr k c (.recvSingle d m) = (c.settled d, .raised .protocolError)) ∧
    (∀ ms : List (RawResp V),
      (∀ ns t, (Key.batch ns, t) ∈ c.out →
        ¬ (okPairs (ms.map (processResponse vr (c.detect d)))).map (fun x => x.1.num2)
            ~ keyVals ns) →
      step vr k c (.recvBatch d ms) = (c.settled d, .raised .protocolError)) := by
  obtain ⟨h1, h2⟩ := unknown_id_raises vr k c d
  constructor
  · intro m hno
    obtain ⟨e, he, hte⟩ := h1 m hno
    cases e with
    | protocolError => exact he
    | typeError => have := (hte rfl).1; simp [hl] at this
  · intro ms hno
    obtain ⟨e, he, hte⟩ := h2 ms hno
    cases e with
    | protocolError => exact he
    | typeError => rcases hte rfl with h | h <;> simp_all

/-- **F4/F5 missing** (the guards `facts_guards` ties to the tree): without them a 1.0 response
    whose id is a list, and a response batch with ids `0` and `"x"`, end in `TypeError` — the
    counter-example that a regression removing either repair brings back. -/
theorem unknown_id_pinned_witness :
    let vr : Variant := repaired false false
    (step vr 1 ((run vr 1 (Conn.init (some .v1) 0) [.sendRequest true]).1)
      (.recvSingle .v1 ⟨some (.unhashable 0), true, .val (4 : Nat)⟩)).2 = .raised .typeError ∧
    (step vr 1 ((run vr 1 (Conn.init (some .v2) 0) [.sendBatch [.req, .req] true]).1)
      (.recvBatch .v2 [⟨some (.int 0), true, .val (4 : Nat)⟩,
                       ⟨some (.str [120]), true, .val 7⟩])).2 = .raised .typeError := by
  decide

/-- non-vacuity of `batch_mismatch` / `unknown_id_harmless`: with requests 0, 1 and the batch
    (2, 3, 4) outstanding, the batch answered by ids 4, 2, 3 is accepted (ticket 2); a batch
    response with a member missing, one with a foreign member, a single response to the member id
    3 and a response to the unsent id 9 are all rejected with `ProtocolError`. -/
example :
    let vr := repaired true true
    let c : Conn Nat := (run vr 1 (Conn.init (some .v2) 0)
      [.sendRequest true, .sendRequest true, .sendBatch [.req, .notif, .req, .req] true]).1
    let r := fun (n : Int) => (⟨some (.int n), true, .val 1⟩ : RawResp Nat)
    (step vr 1 c (.recvBatch .v2 [r 4, r 2, r 3])).2 = .done [2] ∧
    (step vr 1 c (.recvBatch .v2 [r 4, ⟨some (.str [120]), true, .val 1⟩, r 3])).2
      = .raised .protocolError ∧
    (step vr 1 c (.recvBatch .v2 [r 4, r 2])).2 = .raised .protocolError ∧
    (step vr 1 c (.recvBatch .v2 [r 4, r 2, r 9])).2 = .raised .protocolError ∧
    (step vr 1 c (.recvSingle .v2 (r 3))).2 = .raised .protocolError ∧
    (step vr 1 c (.recvSingle .v2 (r 9))) = (c, .raised .protocolError) := by
  decide

/-! ## a response never completes the same request twice -/

/-- tickets completed by the receives of a history, in order -/
def completions : List Obs → List Nat
  | [] => []
  | .done ts :: r => ts ++ completions r
  | _ :: r => completions r

theorem step_done_mem (vr : Variant) (k : Nat) {c : Conn V} (hinv : Inv c) (op : Op V)
    (ts : List Nat) (h : (step vr k c op).2 = .done ts) :
    ts = [] ∨ ∃ t, ts = [t] ∧ t ∈ c.out.map Prod.snd ∧
      t ∉ (step vr k c op).1.out.map Prod.snd := by
  cases op with
  | sendRequest ok => simp only [step] at h; split at h <;> cases h
  | sendBatch ms ok =>
    simp only [step] at h
    repeat' split at h
    all_goals cases h
  | recvSingle d m =>
    rw [step_recvSingle] at h ⊢
    exact recvResponse_done vr (hinv.settled d) _ _ ts h
  | recvBatch d ms =>
    rw [step_recvBatch] at h ⊢
    split
    · rename_i hb; simp only [hb] at h; cases h
    · rename_i hb; simp only [hb] at h
      exact recvResponseBatch_done vr (hinv.settled d) _ ts h
  | recvOther d =>
    simp only [step, Obs.done.injEq] at h; exact Or.inl h.symm
  | cancelAll => cases h
  | extCancel t =>
    simp only [step, Obs.done.injEq] at h; exact Or.inl h.symm

theorem step_tickets (vr : Variant) (k : Nat) (c : Conn V) (op : Op V) :
    c.futs.length ≤ (step vr k c op).1.futs.length ∧
    ∀ t ∈ (step vr k c op).1.out.map Prod.snd, t ∈ c.out.map Prod.snd ∨ c.futs.length ≤ t := by
  have hc : ∀ (c1 : Conn V) (p : Key × Nat → Bool) (f : Fut V),
      c1.futs.length ≤ (complete c1 p f).1.futs.length ∧
      ∀ t ∈ (complete c1 p f).1.out.map Prod.snd, t ∈ c1.out.map Prod.snd ∨ c1.futs.length ≤ t := by
    intro c1 p f
    rw [complete_out, complete_futs]
    refine ⟨?_, fun t ht => Or.inl ((eraseP_sublist.map Prod.snd).subset ht)⟩
    cases c1.out.find? p with
    | none => simp [setIf]
    | some e => simp only [setIf]; split <;> simp
  cases op with
  | sendRequest ok =>
    cases ok
    · exact ⟨Nat.le_refl _, fun t ht => Or.inl ht⟩
    · refine ⟨by simp [step], ?_⟩
      intro t ht
      simp only [step, ↓reduceIte, map_append, map_cons, map_nil, mem_append, mem_singleton] at ht
      rcases ht with h | h
      · exact Or.inl h
      · exact Or.inr (by omega)
  | sendBatch ms ok =>
    simp only [step]
    split
    · exact ⟨Nat.le_refl _, fun t ht => Or.inl ht⟩
    · split
      · exact ⟨Nat.le_refl _, fun t ht => Or.inl ht⟩
      · refine ⟨by simp, ?_⟩
        intro t ht
        simp only [map_append, map_cons, map_nil, mem_append, mem_singleton] at ht
        rcases ht with h | h
        · exact Or.inl h
        · exact Or.inr (by omega)
  | recvSingle d m =>
    rw [step_recvSingle, recvResponse_eq_act]
    cases respAct vr _ _ with
    | reject e => exact ⟨Nat.le_refl _, fun t ht => Or.inl ht⟩
    | single i f => exact hc (c.settled d) (matchSingle i) f
    | batch ids f => exact hc (c.settled d) (matchBatch ids) f
  | recvBatch d ms =>
    rw [step_recvBatch]
    split
    · exact ⟨Nat.le_refl _, fun t ht => Or.inl ht⟩
    · rw [recvResponseBatch_eq_act]
      cases batchAct vr _ with
      | reject e => exact ⟨Nat.le_refl _, fun t ht => Or.inl ht⟩
      | single i f => exact hc (c.settled d) (matchSingle i) f
      | batch ids f => exact hc (c.settled d) (matchBatch ids) f
  | recvOther d => exact ⟨Nat.le_refl _, fun t ht => Or.inl ht⟩
  | cancelAll => simp [step, length_cancelTickets]
  | extCancel t => simp only [step, length_modify]; exact ⟨Nat.le_refl _, fun t ht => Or.inl ht⟩

/-- **complete_once.**  Along every history from a state satisfying the invariant, the tickets
    completed by responses are pairwise distinct: no future is ever completed twice, whatever is
    replayed. -/
theorem complete_once (vr : Variant) {k : Nat} (hk : 0 < k) (ops : List (Op V)) {c : Conn V}
    (hinv : Inv c) :
    (completions (run vr k c ops).2).Nodup ∧
      ∀ t ∈ completions (run vr k c ops).2, t ∈ c.out.map Prod.snd ∨ c.futs.length ≤ t := by
  induction ops generalizing c with
  | nil => simp [run, completions]
  | cons op ops ih =>
    obtain ⟨ih1, ih2⟩ := ih (step_inv vr hk hinv op)
    obtain ⟨hlen, htk⟩ := step_tickets vr k c op
    have later : ∀ t ∈ completions (run vr k (step vr k c op).1 ops).2,
        t ∈ c.out.map Prod.snd ∨ c.futs.length ≤ t := by
      intro t ht
      rcases ih2 t ht with h | h
      · exact htk t h
      · exact Or.inr (by omega)
    simp only [run]
    cases hobs : (step vr k c op).2 with
    | done ts =>
      simp only [completions]
      rcases step_done_mem vr k hinv op ts hobs with rfl | ⟨t, rfl, hin, hout⟩
      · exact ⟨by simpa using ih1, by simpa using later⟩
      · refine ⟨?_, ?_⟩
        · simp only [cons_append, nil_append, nodup_cons]
          refine ⟨?_, ih1⟩
          intro hmem
          rcases ih2 t hmem with h | h
          · exact hout h
          · obtain ⟨e, he, rfl⟩ := mem_map.1 hin
            have := hinv.tickets_lt e he
            omega
        · intro t' ht'
          simp only [cons_append, nil_append, mem_cons] at ht'
          rcases ht' with rfl | ht'
          · exact Or.inl hin
          · exact later t' ht'
    | sent _ _ => exact ⟨ih1, later⟩
    | raised _ => exact ⟨ih1, later⟩
    | cancelled _ => exact ⟨ih1, later⟩

/-- non-vacuity of `complete_once` / `fut_final`: request 0 answered, replayed (rejected),
    request 1 answered: tickets 0 and 1 complete once each and keep their outcome. -/
example :
    let vr := repaired true true
    let r := fun (n : Int) (v : Nat) => (⟨some (.int n), true, .val v⟩ : RawResp Nat)
    let h := run vr 1 (Conn.init (some .v2) 0)
      [.sendRequest true, .sendRequest true, .recvSingle .v2 (r 0 5), .recvSingle .v2 (r 0 6),
       .recvSingle .v2 (r 1 7), .cancelAll]
    completions h.2 = [0, 1] ∧ h.1.futs = [.result 5, .result 7] := by
  decide

theorem cancelTickets_done (futs : List (Fut V)) (ts : List Nat) (t : Nat) (f : Fut V)
    (h : futs[t]? = some f) (hf : f ≠ .pending) : (cancelTickets futs ts)[t]? = some f := by
  induction ts generalizing futs with
  | nil => exact h
  | cons t' ts ih =>
    apply ih
    rw [getElem?_modify, h]
    by_cases htt : t' = t
    · cases f <;> simp_all [cancelFut]
    · simp [htt]

/-- **fut_final.**  A future that has an outcome keeps it: no operation changes a future that is
    no longer pending. -/
theorem fut_final (vr : Variant) (k : Nat) (c : Conn V) (op : Op V) (t : Nat) (f : Fut V)
    (h : c.futs[t]? = some f) (hf : f ≠ .pending) : (step vr k c op).1.futs[t]? = some f := by
  have hc : ∀ (c1 : Conn V) (p : Key × Nat → Bool) (g : Fut V), c1.futs = c.futs →
      (complete c1 p g).1.futs[t]? = some f := by
    intro c1 p g hc1
    rw [complete_futs, hc1]
    cases c1.out.find? p with
    | none => exact h
    | some e =>
      simp only [setIf]
      split
      · rename_i hp
        have hne : e.2 ≠ t := by
          intro he
          simp only [isPending, he, h] at hp
          cases f <;> simp_all
        simp [hne, h]
      · exact h
  have hlt : t < c.futs.length := by
    rcases Nat.lt_or_ge t c.futs.length with h' | h'
    · exact h'
    · simp [getElem?_eq_none h'] at h
  cases op with
  | sendRequest ok => cases ok <;> simp [step, h, getElem?_append_left hlt]
  | sendBatch ms ok =>
    simp only [step]
    split
    · exact h
    · split
      · exact h
      · simp [h, getElem?_append_left hlt]
  | recvSingle d m =>
    rw [step_recvSingle, recvResponse_eq_act]
    cases respAct vr _ _ with
    | reject e => exact h
    | single i g => exact hc (c.settled d) (matchSingle i) g rfl
    | batch ids g => exact hc (c.settled d) (matchBatch ids) g rfl
  | recvBatch d ms =>
    rw [step_recvBatch]
    split
    · exact h
    · rw [recvResponseBatch_eq_act]
      cases batchAct vr _ with
      | reject e => exact h
      | single i g => exact hc (c.settled d) (matchSingle i) g rfl
      | batch ids g => exact hc (c.settled d) (matchBatch ids) g rfl
  | recvOther d => exact h
  | cancelAll => exact cancelTickets_done _ _ _ _ h hf
  | extCancel t' =>
    simp only [step]
    rw [getElem?_modify, h]
    by_cases htt : t' = t
    · cases f <;> simp_all [cancelFut]
    · simp [htt]

/-! ## order of arrival -/

/-- the swap condition on two receive operations under protocol `p` -/
def CompatibleOps (vr : Variant) (p : Proto) (a b : Op V) : Prop :=
  Compatible (actOf vr p a) (actOf vr p b)

/-- **order_independent.**  With the protocol settled (`some p`: any fixed protocol, or
    AutoDetect after its first message), take any stream of received responses / response
    batches in which no two *different* messages address the same request(s) (identical
    replays are allowed).  Every permutation of the stream — and, inside each batch response,
    every permutation of its members (`recv_batch_aligned`) — leaves the connection in the same
    state: every future has the same outcome, the same requests remain outstanding. -/
theorem order_independent (vr : Variant) (k : Nat) (p : Proto) {c : Conn V} (hinv : Inv c)
    (hp : c.proto = some p) (ops ops' : List (Op V)) (hperm : ops ~ ops')
    (hr : ∀ op ∈ ops, isRecv op = true) (hc : ops.Pairwise (CompatibleOps vr p)) :
    (run vr k c ops).1 = (run vr k c ops').1 := by
  rw [run_eq_runActs vr k p ops hr hp,
    run_eq_runActs vr k p ops' (fun o ho => hr o (hperm.symm.subset ho)) hp]
  exact runActs_perm hinv (hperm.map _) (by rw [pairwise_map]; exact hc)

/-- responses carrying different numeric ids are always compatible -/
theorem compatible_of_ids_ne (vr : Variant) (p : Proto) (d d' : Proto) (m m' : RawResp V)
    (h : (processResponse vr p m).1.num2 ≠ (processResponse vr p m').1.num2) :
    CompatibleOps vr p (.recvSingle d m) (.recvSingle d' m') := by
  unfold CompatibleOps Compatible actOf respAct
  repeat' split
  all_goals simp_all [Act.sig]

/-- non-vacuity of `order_independent`: answers to requests 0 and 1 and to the batch, in two
    different orders. -/
example :
    let a : Op Nat := .recvSingle .v2 ⟨some (.int 0), true, .val 5⟩
    let b : Op Nat := .recvSingle .v2 ⟨some (.int 1), true, .err 6⟩
    let e : Op Nat := .recvBatch .v2 [⟨some (.int 3), true, .val 8⟩, ⟨some (.int 2), true, .val 7⟩]
    [a, b, e] ~ [e, b, a] ∧ (∀ op ∈ [a, b, e], isRecv op = true) ∧
      [a, b, e].Pairwise (CompatibleOps (repaired true true) .v2) := by
  refine ⟨by decide, by decide, ?_⟩
  have h : ∀ x y : Op Nat,
      (actOf (repaired true true) .v2 x).sig ≠ (actOf (repaired true true) .v2 y).sig →
      CompatibleOps (repaired true true) .v2 x y := fun _ _ h => Or.inr (Or.inr (Or.inr h))
  refine Pairwise.cons ?_ (Pairwise.cons ?_ (Pairwise.cons (by simp) Pairwise.nil))
  · intro y hy
    simp only [mem_cons, not_mem_nil, or_false] at hy
    rcases hy with rfl | rfl <;> exact h _ _ (by decide)
  · intro y hy
    simp only [mem_cons, not_mem_nil, or_false] at hy
    subst hy
    exact h _ _ (by decide)

/-! ## bool ids (F7) -/

/-- **bool_id_distinct.**  In the repaired tree (`rejectBool`, F07; tied by `facts_admit_table`,
    `facts_process_table` and `facts_conn_rejects_bool`) a response whose id is `true`/`false` never
    completes anything, on any protocol and whatever is outstanding (in particular not requests
    1 / 0, although `True == 1` and `False == 0` in Python): it is rejected with `ProtocolError`
    and the connection is unchanged.  Likewise a response batch with a bool id among its
    members. -/
theorem bool_id_distinct (vr : Variant) (hr : vr.rejectBool = true) (k : Nat) (c : Conn V) (d : Proto) (b : Bool) :
    (∀ (wf : Bool) (r : Res V),
      step vr k c (.recvSingle d ⟨some (.bool b), wf, r⟩) =
        (c.settled d, .raised .protocolError)) ∧
    (∀ ms : List (RawResp V), (∃ m ∈ ms, m.id = some (.bool b)) →
      step vr k c (.recvBatch d ms) = (c.settled d, .raised .protocolError)) := by
  constructor
  · intro wf r
    rw [step_recvSingle]
    cases hp : c.detect d <;> cases wf <;>
      simp [processResponse, admitId, hr, recvResponse, Id.isBool]
    all_goals
      apply complete_none
      rintro ⟨key, t⟩ _
      cases key <;> simp [matchSingle, pyEq, Id.num2]
  · rintro ms ⟨m, hm, hid⟩
    rw [step_recvBatch]
    cases hp : c.detect d with
    | v1 => simp [Proto.allowBatches]
    | v2 =>
      have hmal : (ms.map (processResponse vr .v2)).any (·.2.isMalformed) = true := by
        rw [any_eq_true]
        exact ⟨_, mem_map.2 ⟨m, hm, rfl⟩, by simp [processResponse, hid, admitId, hr, Body.isMalformed]⟩
      have hne : (ms.map (processResponse vr .v2)).isEmpty = false := by
        cases ms with
        | nil => simp at hm
        | cons _ _ => rfl
      simp [Proto.allowBatches, recvResponseBatch, hmal, hne]
    | loose =>
      have hmal : (ms.map (processResponse vr .loose)).any (·.2.isMalformed) = true := by
        rw [any_eq_true]
        exact ⟨_, mem_map.2 ⟨m, hm, rfl⟩, by simp [processResponse, hid, admitId, hr, Body.isMalformed]⟩
      have hne : (ms.map (processResponse vr .loose)).isEmpty = false := by
        cases ms with
        | nil => simp at hm
        | cons _ _ => rfl
      simp [Proto.allowBatches, recvResponseBatch, hmal, hne]

/-- the state used by the pinned-tree witnesses: requests 0 and 1 and the batch (2, 3) -/
def witnessConn (vr : Variant) (p : Proto) : Conn Nat :=
  (run vr 1 (Conn.init (some p) 0)
    [.sendRequest true, .sendRequest true, .sendBatch [.req, .req] true]).1

/-- **F7 on the pinned tree** (`pinned`: no bool check anywhere): `"id": true` completes request
    1 and `"id": false` completes request 0, on 2.0 as on 1.0 … -/
theorem bool_id_pinned_witness :
    (step pinned 1 (witnessConn pinned .v2) (.recvSingle .v2 ⟨some (.bool true), true, .val 9⟩)).2
      = .done [1] ∧
    (step pinned 1 (witnessConn pinned .v2) (.recvSingle .v2 ⟨some (.bool false), true, .val 9⟩)).2
      = .done [0] ∧
    (step pinned 1 ((run pinned 1 (Conn.init (some .v1) 0) [.sendRequest true, .sendRequest true]).1)
      (.recvSingle .v1 ⟨some (.bool true), true, .val 9⟩)).2 = .done [1] := by
  decide

/-- … and a response batch with ids `[true, 0]` completes the batch sent with ids (0, 1). -/
theorem bool_id_batch_pinned_witness :
    (step pinned 1 ((run pinned 1 (Conn.init (some .v2) 0) [.sendBatch [.req, .req] true]).1)
      (.recvBatch .v2 [⟨some (.bool true), true, .val 8⟩, ⟨some (.int 0), true, .val 7⟩])).1.futs
      = [.batch [.val 7, .val 8]] := by
  decide

/-- the same inputs on the repaired model: rejected, nothing completes -/
example :
    (step (repaired true true) 1 (witnessConn (repaired true true) .v2)
      (.recvSingle .v2 ⟨some (.bool true), true, .val 9⟩)).2 = .raised .protocolError ∧
    (step (repaired true true) 1
      ((run (repaired true true) 1 (Conn.init (some .v1) 0) [.sendRequest true, .sendRequest true]).1)
      (.recvSingle .v1 ⟨some (.bool true), true, .val 9⟩)).2 = .raised .protocolError := by
  decide

/-! ## cancellation -/

/-- `cancel_pending_requests` empties the table and leaves every future that already had an
    outcome alone (`fut_final`); every future that was outstanding and pending is cancelled. -/
theorem cancel_all (vr : Variant) (k : Nat) {c : Conn V} (e : Key × Nat) (he : e ∈ c.out)
    (hp : isPending c.futs e.2 = true) :
    (step vr k c .cancelAll).1.out = [] ∧
      (step vr k c .cancelAll).1.futs[e.2]? = some .cancelled := by
  refine ⟨rfl, ?_⟩
  simp only [step]
  have hmem : e.2 ∈ c.out.map Prod.snd := mem_map.2 ⟨e, he, rfl⟩
  generalize c.out.map Prod.snd = ts at hmem
  -- once cancelled it stays cancelled; the first occurrence in `ts` cancels it
  have key : ∀ (ts : List Nat) (futs : List (Fut V)),
      (futs[e.2]? = some .cancelled ∨ (futs[e.2]? = some .pending ∧ e.2 ∈ ts)) →
      (cancelTickets futs ts)[e.2]? = some .cancelled := by
    intro ts
    induction ts with
    | nil => intro futs h; rcases h with h | ⟨_, h⟩; exact h; simp at h
    | cons t ts ih =>
      intro futs h
      apply ih
      rw [getElem?_modify]
      rcases h with h | ⟨h, hm⟩
      · left; rw [h]; by_cases htt : t = e.2 <;> simp [htt, cancelFut]
      · by_cases htt : t = e.2
        · left; rw [h]; simp [htt, cancelFut]
        · right
          refine ⟨by rw [h]; simp [htt], ?_⟩
          rcases mem_cons.1 hm with h' | h'
          · exact absurd h'.symm htt
          · exact h'
  apply key
  right
  refine ⟨?_, hmem⟩
  simp only [isPending] at hp
  split at hp
  · assumption
  · cases hp

/-! ## notification-only batches (F19) -/

/-- **notification_only_batch.**  A batch without request members draws no id, registers nothing
    and has no future (`event is None`), whatever the state of the connection; and with the
    behaviour the facts observed on a real `RPCSession` (`facts_notification_only_batch`: the
    `async with` block returns quietly with `results == ()`), `BatchRequest.__aexit__` awaits
    nothing after the batch was written. -/
theorem notification_only_batch (vr : Variant) (k : Nat) (c : Conn V) (ms : List Member)
    (hne : ms ≠ []) (hn : reqCount ms = 0) (hb : (c.proto.getD .v2).allowBatches = true) :
    step vr k c (.sendBatch ms true) = (c, .sent [] none) ∧
      ∀ t, (step vr k c (.sendBatch ms true)).2 = .sent [] t →
        batchExit Facts.C01.notifBatchQuiet t = .ok none := by
  have h1 : ms.isEmpty = false := by cases ms <;> simp_all
  have hs : step vr k c (.sendBatch ms true) = (c, .sent [] none) := by simp [step, hn, hb, h1]
  refine ⟨hs, ?_⟩
  intro t ht
  rw [hs] at ht
  simp only [Obs.sent.injEq, true_and] at ht
  subst ht
  rfl

/-- non-vacuity: a batch of two notifications on a connection with a request outstanding -/
example :
    let c : Conn Nat := (run (repaired true true) 1 (Conn.init none 0) [.sendRequest true]).1
    step (repaired true true) 1 c (.sendBatch [.notif, .notif] true) = (c, .sent [] none) := by
  decide

/-- F19 on the pinned tree: `await None` raises `TypeError` -/
theorem notification_only_batch_pinned_witness :
    batchExit false none = .error .typeError := rfl

/-! ## ties to the source (facts regenerated from /repo on every run) -/

open Aiorpcx.Facts.C01 in
/-- the id counter advances by a positive step (the hypothesis of `ids_fresh`) -/
theorem facts_id_step_pos : 0 < idStep := by decide

open Aiorpcx.Facts.C01 in
/-- `_message_id` admits exactly the id types the (repaired) model admits:
    int, float, str, null, bool, list, dict × 1.0 / 2.0 / Loose -/
theorem facts_admit_table :
    let samples : List Id := [.int 1, .half 3, .str [97], .null, .bool true, .unhashable 0,
      .unhashable 1]
    samples.map (admitId (repaired lookupGuarded sortGuarded) .v1) = admitV1 ∧
    samples.map (admitId (repaired lookupGuarded sortGuarded) .v2) = admitV2 ∧
    samples.map (admitId (repaired lookupGuarded sortGuarded) .loose) = admitLoose := by
  decide

open Aiorpcx.Facts.C01 in
/-- a 1.0 response with a bool id cannot select request 1 (second hunk of F07) -/
theorem facts_conn_rejects_bool : connRejectsBool = true := by decide

open Aiorpcx.Facts.C01 in
/-- `allow_batches` of 1.0, 2.0, Loose, and of AutoDetect before detection (treated as 2.0) -/
theorem facts_allow_batches :
    allowBatches = [Proto.allowBatches .v1, Proto.allowBatches .v2, Proto.allowBatches .loose,
      Proto.allowBatches .v2] := by decide

open Aiorpcx.Facts.C01 in
/-- **facts_guards.**  Both repairs are present in the tree: an unhashable response id and an
    unsortable response batch end in `ProtocolError` (probed by running `receive_message`).
    `unknown_id_harmless` is stated for exactly this case; a regression that removes either
    guard breaks this theorem and the oracle reports the `TypeError` with its input. -/
theorem facts_guards : lookupGuarded = true ∧ sortGuarded = true := by decide

/-- the variant the facts describe: F7 applied, guards as probed -/
def treeVariant : Variant :=
  { repaired Facts.C01.lookupGuarded Facts.C01.sortGuarded with
    failDrawsSingle := Facts.C01.failDrawsSingle, failDrawsBatch := Facts.C01.failDrawsBatch }

/-- `bool_id_distinct` applies to the variant the driver runs -/
theorem facts_variant_rejects_bool : treeVariant.rejectBool = true := rfl

/-- hence `unknown_id_harmless` applies to the tree as probed -/
theorem facts_guards_variant :
    treeVariant.lookupGuard = true ∧ treeVariant.sortGuard = true := facts_guards

/-- the id samples of the process table: int, float, str, null, bool, list, dict -/
def idSamples : List Id :=
  [.int 1, .half 3, .str [97], .null, .bool true, .unhashable 0, .unhashable 1]

/-- what the model's `processResponse` answers for a response with id `i` that carries a result,
    an error, is malformed, or has no id: (is it a response?, the id it counts under) -/
def processRow (vr : Variant) (p : Proto) (i : Id) : List (Bool × Id) :=
  let cell := fun (m : RawResp Nat) =>
    let r := processResponse vr p m
    ((match r.2 with | .ok _ => true | .malformed => false), r.1)
  [cell ⟨some i, true, .val 0⟩, cell ⟨some i, true, .err 0⟩, cell ⟨some i, false, .val 0⟩,
   cell ⟨none, true, .val 0⟩]

open Aiorpcx.Facts.C01 in
/-- **facts_process_table.**  `message_to_item`, run on 3 protocols x 7 id types x
    {result, error, malformed, no id}, classifies every response as the model's
    `processResponse` does: same "is a response", same id it counts under (so a malformed
    response with an admissible id keeps its id, one with an inadmissible or missing id has none). -/
theorem facts_process_table :
    idSamples.map (processRow treeVariant .v1) = processV1 ∧
    idSamples.map (processRow treeVariant .v2) = processV2 ∧
    idSamples.map (processRow treeVariant .loose) = processLoose := by
  decide

/-- the model's answer to a sort probe: only the batch with ids `ns` is outstanding; the response
    batch lists the members in the order `order` (member `j` carries the result `j`); the member
    indices in the order the future holds them, `none` if the batch was not completed -/
def probeOrder (vr : Variant) (ns order : List Nat) : Option (List Nat) :=
  let c : Conn Nat := { proto := some .v2, next := 0, out := [(.batch ns, 0)], futs := [.pending] }
  let ms := order.map fun j => (⟨some (.int (ns.getD j 0)), true, .val j⟩ : RawResp Nat)
  match (step vr 1 c (.recvBatch .v2 ms)).1.futs with
  | [.batch rs] => some (rs.map fun r => match r with | .val v => v | .err e => e)
  | _ => none

open Aiorpcx.Facts.C01 in
/-- **facts_sort_probes.**  Real batches (ids read from the wire; also ids straddling 9/10 and
    99/100) answered in permuted member orders with results that cannot be compared with `<`:
    the real future delivers the results in exactly the order the model computes - member order.
    Replaces the former syntactic fact about the `sorted(..., key=...)` call. -/
theorem facts_sort_probes :
    sortProbes.all (fun p => probeOrder treeVariant p.1 p.2.1 == p.2.2) = true ∧
    sortProbes.all (fun p => p.2.2 == some (List.range p.1.length)) = true ∧
    sortProbes.length ≥ 18 := by
  decide +kernel

open Aiorpcx.Facts.C01 in
/-- a batch answer with a duplicated, missing or foreign member id, and a single response to a
    member id, are rejected by the real connection with `ProtocolError` and leave the batch
    untouched - as `batch_mismatch` / `unknown_id_harmless` prove for the model -/
theorem facts_mismatch_rejected : mismatchRejected = [true, true, true, true] := by decide

open Aiorpcx.Facts.C01 in
/-- F19 is repaired in the tree: a notification-only batch sent through a real `RPCSession`
    returns quietly with `results == ()` (the second half of `notification_only_batch`) -/
theorem facts_notification_only_batch :
    notifBatchQuiet = true ∧ batchExit notifBatchQuiet none = .ok none := ⟨by decide, rfl⟩

end Aiorpcx.C01
