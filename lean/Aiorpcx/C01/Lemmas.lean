import Aiorpcx.C01.Model
import Aiorpcx.C01.ListLemmas
/-! C01 — the connection invariant and its preservation by every operation. -/
namespace Aiorpcx.C01
open List

variable {V : Type}

/-- The invariant of `JSONRPCConnection._requests` / `_id_counter`. -/
structure Inv (c : Conn V) : Prop where
  /-- ids outstanding at the same time, flattened over batches, are pairwise distinct -/
  ids_nodup : c.outIds.Nodup
  /-- and were all drawn from the counter already -/
  ids_lt : ∀ n ∈ c.outIds, n < c.next
  /-- a batch key is a non-empty strictly increasing tuple -/
  key_ok : ∀ e ∈ c.out, e.1.ids ≠ [] ∧ e.1.ids.Pairwise (· < ·)
  /-- every entry has its own future -/
  tickets_nodup : (c.out.map Prod.snd).Nodup
  tickets_lt : ∀ e ∈ c.out, e.2 < c.futs.length

theorem Inv.init (p : Option Proto) (s : Nat) : Inv (Conn.init (V := V) p s) := by
  constructor <;> simp [Conn.init, Conn.outIds]

theorem Inv.of_sublist {c c' : Conn V} (h : Inv c) (hs : c'.out <+ c.out)
    (hn : c.next ≤ c'.next) (hf : c.futs.length ≤ c'.futs.length) : Inv c' := by
  have hsub : c'.outIds <+ c.outIds := sublist_flatMap _ hs
  constructor
  · exact hsub.nodup h.ids_nodup
  · intro n hn'; exact Nat.lt_of_lt_of_le (h.ids_lt n (hsub.subset hn')) hn
  · intro e he; exact h.key_ok e (hs.subset he)
  · exact (hs.map Prod.snd).nodup h.tickets_nodup
  · intro e he; exact Nat.lt_of_lt_of_le (h.tickets_lt e (hs.subset he)) hf

/-- registering a fresh key with a fresh future -/
theorem Inv.push {c : Conn V} (h : Inv c) (key : Key) (next' : Nat)
    (hne : key.ids ≠ []) (hinc : key.ids.Pairwise (· < ·))
    (hlo : ∀ n ∈ key.ids, c.next ≤ n) (hhi : ∀ n ∈ key.ids, n < next') (hnn : c.next ≤ next') :
    Inv { c with next := next', out := c.out ++ [(key, c.futs.length)],
                 futs := c.futs ++ [Fut.pending] } := by
  constructor
  · show (flatMap _ (c.out ++ [(key, c.futs.length)])).Nodup
    rw [flatMap_append, nodup_append]
    refine ⟨h.ids_nodup, ?_, ?_⟩
    · simp only [flatMap_cons, flatMap_nil, append_nil]
      exact hinc.imp (fun h => Nat.ne_of_lt h)
    · intro a ha b hb
      simp only [flatMap_cons, flatMap_nil, append_nil] at hb
      have h1 := h.ids_lt a ha
      have h2 := hlo b hb
      omega
  · intro n hn
    have : n ∈ c.outIds ∨ n ∈ key.ids := by
      simpa [Conn.outIds, flatMap_append] using hn
    rcases this with h1 | h1
    · exact Nat.lt_of_lt_of_le (h.ids_lt n h1) hnn
    · exact hhi n h1
  · intro e he
    simp only [mem_append, mem_singleton] at he
    rcases he with he | rfl
    · exact h.key_ok e he
    · exact ⟨hne, hinc⟩
  · show (map Prod.snd (c.out ++ [(key, c.futs.length)])).Nodup
    rw [map_append, nodup_append]
    refine ⟨h.tickets_nodup, by simp, ?_⟩
    intro a ha b hb
    simp only [map_cons, map_nil, mem_singleton] at hb
    obtain ⟨e, he, rfl⟩ := mem_map.1 ha
    have := h.tickets_lt e he
    omega
  · intro e he
    simp only [mem_append, mem_singleton] at he
    simp only [length_append, length_cons, length_nil]
    rcases he with he | rfl
    · have := h.tickets_lt e he; omega
    · simp

theorem length_cancelTickets (futs : List (Fut V)) (ts : List Nat) :
    (cancelTickets futs ts).length = futs.length := by
  induction ts generalizing futs with
  | nil => rfl
  | cons t ts ih => simp [cancelTickets, ih]

theorem complete_inv {c : Conn V} (h : Inv c) (p : Key × Nat → Bool) (f : Fut V) :
    Inv (complete c p f).1 := by
  unfold complete
  split
  · exact h
  · split
    · exact h.of_sublist eraseP_sublist (Nat.le_refl _) (by simp)
    · exact h.of_sublist eraseP_sublist (Nat.le_refl _) (Nat.le_refl _)

theorem Inv.with_proto {c : Conn V} (h : Inv c) (p : Option Proto) : Inv { c with proto := p } :=
  ⟨h.ids_nodup, h.ids_lt, h.key_ok, h.tickets_nodup, h.tickets_lt⟩

theorem recvResponse_inv (vr : Variant) {c : Conn V} (h : Inv c) (i : Id) (b : Body V) :
    Inv (recvResponse vr c i b).1 := by
  unfold recvResponse
  split
  · exact h
  · split
    · exact h
    · exact complete_inv h _ _

theorem recvResponseBatch_inv (vr : Variant) {c : Conn V} (h : Inv c) (items : List (Id × Body V)) :
    Inv (recvResponseBatch vr c items).1 := by
  unfold recvResponseBatch
  split
  · exact h
  · split
    · exact h
    · split
      · exact h
      · split
        · exact h
        · exact complete_inv h _ _

theorem mem_range'_bounds {s n k x : Nat} (hk : 0 < k) (hx : x ∈ List.range' s n k) :
    s ≤ x ∧ x < s + n * k := by
  obtain ⟨i, hi, rfl⟩ := List.mem_range'.1 hx
  refine ⟨Nat.le_add_right _ _, ?_⟩
  have : k * i < k * n := Nat.mul_lt_mul_of_pos_left hi hk
  rw [Nat.mul_comm n k]; omega

/-- every operation preserves the invariant (`k` = counter step, positive) -/
theorem step_inv (vr : Variant) {k : Nat} (hk : 0 < k) {c : Conn V} (h : Inv c) (op : Op V) :
    Inv (step vr k c op).1 := by
  cases op with
  | sendRequest ok =>
    simp only [step]
    split
    · exact h.push (.single c.next) (c.next + k) (by simp [Key.ids]) (by simp [Key.ids])
        (by simp [Key.ids]) (by simp [Key.ids]; omega) (by omega)
    · exact h.of_sublist (Sublist.refl _) (by simp only; split <;> omega) (Nat.le_refl _)
  | sendBatch ms ok =>
    simp only [step]
    split
    · exact h.of_sublist (Sublist.refl _) (by simp only; split <;> omega) (Nat.le_refl _)
    · split
      · exact h.of_sublist (Sublist.refl _) (by simp) (Nat.le_refl _)
      · rename_i hn
        have hpos : 0 < reqCount ms := Nat.pos_of_ne_zero hn
        exact h.push (.batch (List.range' c.next (reqCount ms) k)) (c.next + reqCount ms * k)
          (by simp [Key.ids]; omega)
          (by simpa [Key.ids] using List.pairwise_lt_range' k hk)
          (fun n hn => (mem_range'_bounds hk hn).1)
          (fun n hn => (mem_range'_bounds hk hn).2)
          (Nat.le_add_right _ _)
  | recvSingle d m =>
    simp only [step]
    exact recvResponse_inv vr (h.with_proto _) _ _
  | recvBatch d ms =>
    simp only [step]
    split
    · exact h.with_proto _
    · exact recvResponseBatch_inv vr (h.with_proto _) _
  | recvOther d => exact h.with_proto _
  | cancelAll =>
    simp only [step]
    constructor <;> simp [Conn.outIds]
  | extCancel t =>
    simp only [step]
    exact h.of_sublist (Sublist.refl _) (Nat.le_refl _) (by simp)

theorem run_inv (vr : Variant) {k : Nat} (hk : 0 < k) (ops : List (Op V)) {c : Conn V}
    (h : Inv c) : Inv (run vr k c ops).1 := by
  induction ops generalizing c with
  | nil => exact h
  | cons op ops ih => exact ih (step_inv vr hk h op)

end Aiorpcx.C01
