/-! C01/C02 — the small slice of Python's value semantics that message ids need.
    No Mathlib imports: the drivers link this.

    A JSON id as `json.loads` hands it to the connection:
    `int`, a float (abstracted to the dyadic grid of halves: `half h` is the float `h/2`, so
    `half 2` is `1.0` and `half 3` is `1.5` — enough to have floats that equal an int and floats
    that lie strictly between ints), `bool`, `str` (code points), `None`, and — JSON-RPC 1.0 only —
    a list/dict (`unhashable`).  Non-finite floats (`NaN`, `Infinity`) are outside the model. -/
namespace Aiorpcx.C01

/-- the Python exceptions the modelled code can raise -/
inductive PyExc where
  | typeError
  | protocolError
  deriving DecidableEq, Repr

inductive Id where
  | int (n : Int)
  | half (h : Int)
  | bool (b : Bool)
  | str (s : List Nat)
  | null
  | unhashable (tag : Nat)
  deriving DecidableEq, Repr

namespace Id

/-- twice the numeric value, for members of Python's numeric tower (`bool ⊂ int`, `float`) -/
def num2 : Id → Option Int
  | int n => some (2 * n)
  | half h => some h
  | bool b => some (if b then 2 else 0)
  | _ => none

def isBool : Id → Bool
  | bool _ => true
  | _ => false

def isUnhashable : Id → Bool
  | unhashable _ => true
  | _ => false

/-- key used for ordering inside the numeric class (0 outside it; never consulted there) -/
def numKey (i : Id) : Int := (num2 i).getD 0

end Id

/-- Python `==` between two ids (`True == 1 == 1.0`; numbers never equal strings or `None`).
    Dictionary lookup `k in d` finds an entry whose key is `==` to `k` and has the same hash;
    CPython guarantees `hash(1) == hash(1.0) == hash(True)`, so for hashable ids lookup is `pyEq`
    (trusted base; exercised by the correspondence). -/
def pyEq (a b : Id) : Bool :=
  match a.num2, b.num2 with
  | some x, some y => x == y
  | none, none =>
      match a, b with
      | .str s, .str t => s == t
      | .null, .null => true
      | .unhashable s, .unhashable t => s == t
      | _, _ => false
  | _, _ => false

/-- `str.__lt__`: lexicographic by code point -/
def strLt : List Nat → List Nat → Bool
  | [], [] => false
  | [], _ :: _ => true
  | _ :: _, [] => false
  | a :: as, b :: bs => if a < b then true else if b < a then false else strLt as bs

/-- Python `<` between two ids: defined inside the numeric tower and between two strings,
    `TypeError` otherwise (`None < None` included). -/
def pyLt (a b : Id) : Except PyExc Bool :=
  match a.num2, b.num2 with
  | some x, some y => .ok (x < y)
  | _, _ =>
      match a, b with
      | .str s, .str t => .ok (strLt s t)
      | _, _ => .error .typeError

/-- the classes inside which `<` is total -/
inductive SortClass where
  | num
  | str
  deriving DecidableEq, Repr

def sortClassOf : Id → Option SortClass
  | .str _ => some .str
  | i => if i.num2.isSome then some .num else none

/-- the class all ids belong to, if there is one -/
def commonClass : List Id → Option SortClass
  | [] => none
  | [i] => sortClassOf i
  | i :: is =>
      match sortClassOf i, commonClass is with
      | some a, some b => if a = b then some a else none
      | _, _ => none

/-- `not (b < a)` inside the numeric class -/
def leNum {α : Type} (a b : Id × α) : Bool := decide (a.1.numKey ≤ b.1.numKey)

/-- `not (b < a)` inside the string class -/
def leStr {α : Type} (a b : Id × α) : Bool :=
  match a.1, b.1 with
  | .str s, .str t => !strLt t s
  | _, _ => true

/-- stable insertion sort (structural, so it evaluates under `decide`): `x` goes in front of the
    first element it is `le` to -/
def insertBy {α : Type} (le : α → α → Bool) (x : α) : List α → List α
  | [] => [x]
  | y :: ys => if le x y then x :: y :: ys else y :: insertBy le x ys

def insSort {α : Type} (le : α → α → Bool) : List α → List α
  | [] => []
  | x :: xs => insertBy le x (insSort le xs)

/-- `sorted(pairs, key=lambda t: t[0])`.

    A list of fewer than two elements is returned as is (no comparison is made).  Otherwise
    every element takes part in at least one comparison with another one and the comparisons
    made connect all elements (a sorting algorithm cannot otherwise know the order), so some `<`
    is evaluated across two classes, or on a `None`/list/dict, exactly when the ids are not all
    in one class: `TypeError` (`SortExplicit.lean` proves this function equal, error cases
    included, to an insertion sort that evaluates `pyLt` for every comparison).  Inside a class the sort is stable (`insSort`; the order among
    equal keys is never observable: a tuple with equal ids matches no key). -/
def pySorted {α : Type} (ps : List (Id × α)) : Except PyExc (List (Id × α)) :=
  match ps with
  | [] => .ok []
  | [p] => .ok [p]
  | _ =>
    match commonClass (ps.map Prod.fst) with
    | none => .error .typeError
    | some .num => .ok (insSort leNum ps)
    | some .str => .ok (insSort leStr ps)

end Aiorpcx.C01
