import Aiorpcx.C01.Lemmas
/-! C01 — which entry of `_requests` a response id (or sorted id tuple) can select. -/
namespace Aiorpcx.C01
open List

variable {V : Type}

theorem pyEq_int_iff (i : Id) (n : Nat) :
    pyEq i (.int n) = true ↔ i.num2 = some (2 * (n : Int)) := by
  cases i <;> simp [pyEq, Id.num2]

theorem tupleEq_iff (ids : List Id) (ns : List Nat) :
    tupleEq ids ns = true ↔ ids.map Id.num2 = ns.map (fun n : Nat => some (2 * (n : Int))) := by
  induction ids generalizing ns with
  | nil => cases ns <;> simp [tupleEq]
  | cons i is ih =>
    cases ns with
    | nil => simp [tupleEq]
    | cons n ns => simp [tupleEq, ih, pyEq_int_iff]

theorem pairwise_of_mem_ne {α : Type} {R : α → α → Prop} (hs : ∀ a b, R a b → R b a) :
    ∀ {l : List α}, l.Pairwise R → ∀ {a b}, a ∈ l → b ∈ l → a ≠ b → R a b
  | [], _, _, _, ha, _, _ => by simp at ha
  | x :: l, hp, a, b, ha, hb, hne => by
    rw [pairwise_cons] at hp
    rcases mem_cons.1 ha with rfl | ha'
    · rcases mem_cons.1 hb with rfl | hb'
      · exact absurd rfl hne
      · exact hp.1 b hb'
    · rcases mem_cons.1 hb with rfl | hb'
      · exact hs _ _ (hp.1 a ha')
      · exact pairwise_of_mem_ne hs hp.2 ha' hb' hne

/-- two entries of `_requests` that share an id are the same entry -/
theorem Inv.entry_unique {c : Conn V} (h : Inv c) {e1 e2 : Key × Nat} (h1 : e1 ∈ c.out)
    (h2 : e2 ∈ c.out) {n : Nat} (hn1 : n ∈ e1.1.ids) (hn2 : n ∈ e2.1.ids) : e1 = e2 := by
  have hp := ((nodup_flatMap_iff (fun e : Key × Nat => e.1.ids) c.out).1 h.ids_nodup).2
  refine Classical.byContradiction fun hne => ?_
  have := pairwise_of_mem_ne (R := fun a b : Key × Nat => ∀ x ∈ a.1.ids, ∀ y ∈ b.1.ids, x ≠ y)
    (fun a b hab x hx y hy => (hab y hy x hx).symm) hp h1 h2 hne
  exact this n hn1 n hn2 rfl

theorem Inv.out_nodup {c : Conn V} (h : Inv c) : c.out.Nodup :=
  nodup_of_nodup_map _ h.tickets_nodup

/-- a response id selects at most one entry, and only a single-request entry -/
theorem matchSingle_unique {c : Conn V} (h : Inv c) {i : Id} {n t : Nat}
    (he : (Key.single n, t) ∈ c.out) (hi : pyEq i (.int n) = true) :
    ∀ x ∈ c.out, matchSingle i x = true → x = (Key.single n, t) := by
  rintro ⟨k, t'⟩ hx hm
  cases k with
  | batch ns => simp [matchSingle] at hm
  | single n' =>
    simp only [matchSingle] at hm
    have e1 := (pyEq_int_iff i n).1 hi
    have e2 := (pyEq_int_iff i n').1 hm
    have : n' = n := by rw [e1] at e2; simp at e2; omega
    subst this
    exact h.entry_unique hx he (n := n') (by simp [Key.ids]) (by simp [Key.ids])

/-- a sorted id tuple selects at most one entry, and only a batch entry -/
theorem matchBatch_unique {c : Conn V} (h : Inv c) {ids : List Id} {ns : List Nat} {t : Nat}
    (he : (Key.batch ns, t) ∈ c.out) (hi : tupleEq ids ns = true) :
    ∀ x ∈ c.out, matchBatch ids x = true → x = (Key.batch ns, t) := by
  rintro ⟨k, t'⟩ hx hm
  cases k with
  | single n => simp [matchBatch] at hm
  | batch ns' =>
    simp only [matchBatch] at hm
    have e1 := (tupleEq_iff ids ns).1 hi
    have e2 := (tupleEq_iff ids ns').1 hm
    have hinj : ns' = ns := by
      rw [e1] at e2
      exact (map_inj_of_injective _ (by intro a b hab; simp at hab; omega) _ _ e2).symm
    subst hinj
    have hne := (h.key_ok _ he).1
    simp only [Key.ids] at hne
    obtain ⟨n, hn⟩ := exists_mem_of_ne_nil _ hne
    exact h.entry_unique hx he (n := n) (by simpa [Key.ids]) (by simpa [Key.ids])

/-- what `complete` does when the predicate selects exactly the entry `e` -/
theorem complete_found {c : Conn V} (p : Key × Nat → Bool) (f : Fut V) (e : Key × Nat)
    (he : e ∈ c.out) (hp : p e = true) (hu : ∀ x ∈ c.out, p x = true → x = e) :
    complete c p f =
      if isPending c.futs e.2 then
        ({ c with out := c.out.erase e, futs := c.futs.set e.2 f }, .done [e.2])
      else ({ c with out := c.out.erase e }, .done []) := by
  unfold complete
  rw [find?_eq_some_of_unique p e c.out he hp hu, eraseP_eq_erase_of_unique p e c.out hp hu]

theorem complete_none {c : Conn V} (p : Key × Nat → Bool) (f : Fut V)
    (h : ∀ x ∈ c.out, p x = false) : complete c p f = (c, .raised .protocolError) := by
  unfold complete
  have : c.out.find? p = none := by
    rw [find?_eq_none]; intro x hx; simp [h x hx]
  rw [this]

end Aiorpcx.C01
