import Aiorpcx.C01.Match
/-! C01 — `sorted(zip(ids, results))` puts a permuted batch response back in member order. -/
namespace Aiorpcx.C01
open List

variable {α : Type}

theorem insertBy_perm (le : α → α → Bool) (x : α) (l : List α) : insertBy le x l ~ x :: l := by
  induction l with
  | nil => exact Perm.refl _
  | cons y ys ih =>
    simp only [insertBy]
    split
    · exact Perm.refl _
    · exact (Perm.cons y ih).trans (Perm.swap x y ys)

theorem insSort_perm (le : α → α → Bool) (l : List α) : insSort le l ~ l := by
  induction l with
  | nil => exact Perm.refl _
  | cons x xs ih => exact (insertBy_perm le x _).trans (Perm.cons x ih)

theorem insertBy_sorted {le : α → α → Bool} (htr : ∀ a b c, le a b = true → le b c = true → le a c = true)
    (htot : ∀ a b, (le a b || le b a) = true) (x : α) (l : List α)
    (h : l.Pairwise (fun a b => le a b = true)) :
    (insertBy le x l).Pairwise (fun a b => le a b = true) := by
  induction l with
  | nil => simp [insertBy]
  | cons y ys ih =>
    rw [pairwise_cons] at h
    simp only [insertBy]
    split
    · rename_i hxy
      rw [pairwise_cons]
      refine ⟨?_, pairwise_cons.2 h⟩
      intro z hz
      rcases mem_cons.1 hz with rfl | hz
      · exact hxy
      · exact htr _ _ _ hxy (h.1 z hz)
    · rename_i hxy
      have hyx : le y x = true := by
        have := htot x y
        simp only [Bool.or_eq_true] at this
        rcases this with h1 | h1
        · exact absurd h1 hxy
        · exact h1
      rw [pairwise_cons]
      refine ⟨?_, ih h.2⟩
      intro z hz
      have : z ∈ x :: ys := (insertBy_perm le x ys).subset hz
      rcases mem_cons.1 this with rfl | hz
      · exact hyx
      · exact h.1 z hz

theorem insSort_sorted {le : α → α → Bool} (htr : ∀ a b c, le a b = true → le b c = true → le a c = true)
    (htot : ∀ a b, (le a b || le b a) = true) (l : List α) :
    (insSort le l).Pairwise (fun a b => le a b = true) := by
  induction l with
  | nil => simp [insSort]
  | cons x xs ih => exact insertBy_sorted htr htot x _ ih

theorem pySorted_perm {ps s : List (Id × α)} (h : pySorted ps = .ok s) : s ~ ps := by
  unfold pySorted at h
  split at h
  · cases h; exact Perm.refl _
  · cases h; exact Perm.refl _
  · split at h
    · cases h
    · cases h; exact insSort_perm _ _
    · cases h; exact insSort_perm _ _

theorem commonClass_num : ∀ (ids : List Id), ids ≠ [] → (∀ i ∈ ids, i.num2.isSome = true) →
    commonClass ids = some .num
  | [], h, _ => absurd rfl h
  | [i], _, h => by
    have hi := h i (by simp)
    cases i <;> simp_all [commonClass, sortClassOf, Id.num2]
  | i :: j :: is, _, h => by
    have hi := h i (by simp)
    have ih := commonClass_num (j :: is) (by simp) (fun x hx => h x (by simp [hx]))
    have : sortClassOf i = some .num := by cases i <;> simp_all [sortClassOf, Id.num2]
    simp [commonClass, ih, this]

theorem pySorted_num (ps : List (Id × α)) (hnum : ∀ x ∈ ps, x.1.num2.isSome = true) :
    pySorted ps = .ok (insSort leNum ps) := by
  unfold pySorted
  split
  · simp [insSort]
  · simp [insSort, insertBy]
  · rename_i h1 h2
    have hne : ps.map Prod.fst ≠ [] := by
      intro h; apply h1; simpa using h
    rw [commonClass_num _ hne (by
      intro i hi
      obtain ⟨x, hx, rfl⟩ := mem_map.1 hi
      exact hnum x hx)]

theorem leNum_trans (a b c : Id × α) : leNum a b = true → leNum b c = true → leNum a c = true := by
  simp only [leNum, decide_eq_true_eq]; omega

theorem leNum_total (a b : Id × α) : (leNum a b || leNum b a) = true := by
  simp only [leNum, Bool.or_eq_true, decide_eq_true_eq]; omega

/-- the encoding of the ids of a batch key as values of `Id.num2` -/
def keyVals (ns : List Nat) : List (Option Int) := ns.map fun n : Nat => some (2 * (n : Int))

/-- **Alignment.**  If the ids a peer returned are, as numbers, a permutation of the strictly
    increasing ids the batch was sent with, then sorting the (id, result) pairs by id succeeds,
    is a rearrangement of what the peer sent, and carries member `k`'s id at position `k`. -/
theorem sorted_aligned (ns : List Nat) (hinc : ns.Pairwise (· < ·)) (ps : List (Id × α))
    (hperm : ps.map (fun x => x.1.num2) ~ keyVals ns) :
    ∃ s, pySorted ps = .ok s ∧ s ~ ps ∧ s.map (fun x => x.1.num2) = keyVals ns := by
  have hnum : ∀ x ∈ ps, x.1.num2.isSome = true := by
    intro x hx
    have : x.1.num2 ∈ keyVals ns := hperm.subset (mem_map.2 ⟨x, hx, rfl⟩)
    obtain ⟨n, _, hn⟩ := mem_map.1 this
    simp [← hn]
  refine ⟨insSort leNum ps, pySorted_num ps hnum, insSort_perm _ _, ?_⟩
  have hp : insSort leNum ps ~ ps := insSort_perm _ _
  have hnum' : ∀ x ∈ insSort leNum ps, x.1.num2 = some x.1.numKey := by
    intro x hx
    have := hnum x (hp.subset hx)
    simp only [Id.numKey]
    cases h : x.1.num2 <;> simp_all
  -- compare the integer keys
  have hk : (insSort leNum ps).map (fun x => x.1.numKey) ~ ns.map (fun n : Nat => 2 * (n : Int)) := by
    have h1 : (insSort leNum ps).map (fun x => x.1.num2) ~ keyVals ns := (hp.map _).trans hperm
    have h2 := h1.map (fun o : Option Int => o.getD 0)
    simpa [keyVals, map_map, Function.comp_def, Id.numKey] using h2
  have hs : ((insSort leNum ps).map (fun x => x.1.numKey)).Pairwise (· ≤ ·) := by
    rw [pairwise_map]
    exact (insSort_sorted leNum_trans leNum_total ps).imp (by
      intro a b h; simpa [leNum] using h)
  have hi : (ns.map (fun n : Nat => 2 * (n : Int))).Pairwise (· ≤ ·) := by
    rw [pairwise_map]
    exact hinc.imp (by intro a b h; omega)
  have heq : (insSort leNum ps).map (fun x => x.1.numKey) = ns.map (fun n : Nat => 2 * (n : Int)) :=
    Perm.eq_of_pairwise (le := (· ≤ ·)) (by intro a b _ _ h1 h2; omega) hs hi hk
  calc (insSort leNum ps).map (fun x => x.1.num2)
      = ((insSort leNum ps).map (fun x => x.1.numKey)).map some := by
        rw [map_map]; exact map_congr_left hnum'
    _ = keyVals ns := by rw [heq]; simp [keyVals, map_map, Function.comp_def]

/-- **Converse.**  Whatever the sort returns is a rearrangement of what was received: the
    sorted ids reproduce a key only if the received ids are a permutation of it. -/
theorem sorted_mismatch (ns : List Nat) (ps s : List (Id × α)) (h : pySorted ps = .ok s)
    (hk : s.map (fun x => x.1.num2) = keyVals ns) :
    ps.map (fun x => x.1.num2) ~ keyVals ns := by
  have := (pySorted_perm h).map (fun x : Id × α => x.1.num2)
  rw [hk] at this
  exact this.symm

end Aiorpcx.C01
