import Aiorpcx.C01.Model
/-! C01 — the sender side of `RPCSession` on top of the connection model
    (aiorpcx/session.py: `RPCSession.send_request`, `_send_concurrent`, `BatchRequest.__aexit__`,
    `SessionBase._send_message`; aiorpcx/rawsocket.py: `RSTransport.write`, `pause_writing`,
    `resume_writing`, `connection_lost`).  No Mathlib imports: the driver links this.

    A caller first lets the connection create the request (`send_request` / `send_batch`: ids are
    drawn, the future is registered), then hands the message to `transport.write`, which waits
    while the send buffer is full (`_can_send` cleared by `pause_writing`), then awaits the
    future.  A caller can be cancelled / time out at either wait.  What the model keeps:
    the connection, whether writing is paused, the callers parked in `write` (FIFO: an
    `asyncio.Event` wakes its waiters in order) and the messages that reached the wire.

    Outside the model: more than 50 concurrent outgoing calls (`_outgoing_concurrency`, where
    callers would queue before writing), a transport that re-pauses inside a write (C15's
    business), the time-outs' clocks (a give-up is an event, whoever caused it). -/
namespace Aiorpcx.C01

/-- a caller parked in `transport.write`: the ids of its message -/
abbrev Parked := List Nat

structure Sess (V : Type) where
  conn : Conn V
  /-- `_can_send` is cleared -/
  paused : Bool
  /-- `connection_lost` was delivered (`is_closing()`): writes are skipped -/
  closed : Bool
  /-- callers parked in `write`, oldest first -/
  queue : List Parked
  /-- ids of the messages written so far, in wire order (`[]`: a notification-only batch) -/
  wire : List (List Nat)
  deriving DecidableEq, Repr

def Sess.init {V : Type} (proto : Option Proto) (start : Nat) : Sess V :=
  { conn := Conn.init proto start, paused := false, closed := false, queue := [], wire := [] }

inductive SOp (V : Type) where
  /-- a task calls `session.send_request` (`batch = none`) or leaves an `async with
      session.send_batch()` block; `ok = false`: the message cannot be built -/
  | call (batch : Option (List Member)) (ok : Bool)
  /-- the socket send buffer is full (`pause_writing`) -/
  | pause
  /-- the send buffer has drained (`resume_writing`): every parked caller writes, in order -/
  | resume
  /-- the `q`-th parked caller is cancelled / times out: its message is never written; its
      entry and its future stay as they are (nothing is handed back) -/
  | dropParked (q : Nat)
  /-- a caller awaiting its response is cancelled / times out (the caller's own time-out or
      `sent_request_timeout`): its future is cancelled, the entry stays -/
  | giveUp (t : Nat)
  /-- a message from the peer is processed (`op` is one of the three receive operations) -/
  | recv (op : Op V)
  /-- the connection is lost: parked callers are released without writing, every outstanding
      future is cancelled -/
  | lost
  deriving DecidableEq, Repr

/-- the connection operation behind a `call` -/
def callOp {V : Type} (batch : Option (List Member)) (ok : Bool) : Op V :=
  match batch with
  | none => .sendRequest ok
  | some ms => .sendBatch ms ok

/-- what a caller does with the message once the connection created it -/
def Sess.hand {V : Type} (s : Sess V) (c' : Conn V) (ids : List Nat) : Sess V :=
  if s.closed then { s with conn := c' }
  else if s.paused then { s with conn := c', queue := s.queue ++ [ids] }
  else { s with conn := c', wire := s.wire ++ [ids] }

def sstep {V : Type} (vr : Variant) (k : Nat) (s : Sess V) : SOp V → Sess V
  | .call batch ok =>
      let r := step vr k s.conn (callOp batch ok)
      match r.2 with
      | .sent ids _ => s.hand r.1 ids
      | _ => { s with conn := r.1 }
  | .pause => if s.closed then s else { s with paused := true }
  | .resume => { s with paused := false, wire := s.wire ++ s.queue, queue := [] }
  | .dropParked q => { s with queue := s.queue.eraseIdx q }
  | .giveUp t => { s with conn := (step vr k s.conn (.extCancel t)).1 }
  | .recv op => { s with conn := (step vr k s.conn op).1 }
  | .lost => { s with conn := (step vr k s.conn .cancelAll).1, closed := true, paused := false,
                      queue := [] }

def srun {V : Type} (vr : Variant) (k : Nat) : Sess V → List (SOp V) → Sess V
  | s, [] => s
  | s, op :: ops => srun vr k (sstep vr k s op) ops

/-- the connection operations a session history amounts to -/
def project {V : Type} : SOp V → List (Op V)
  | .call batch ok => [callOp batch ok]
  | .giveUp t => [.extCancel t]
  | .recv op => [op]
  | .lost => [.cancelAll]
  | _ => []

end Aiorpcx.C01
