import Aiorpcx.C01.Props
/-!
# C01 — a response completes exactly the request that CAUSED it (whole histories)

`recv_single_exact` / `recv_batch_aligned` describe one receive in one state.  The theorems here
follow a future through a whole history from a fresh connection: if a received message completes
the future with ticket `t`, then `t` was handed out by an earlier send of that same history, that
send drew exactly the id(s) the message carries, and (`ids_never_reused`, `ticket_sent_once`) no
other send of the history drew that id or handed out that ticket.  So a late or duplicated answer
to an earlier request can never complete a later one: the later one has a different id.
-/
namespace Aiorpcx.C01
open List

variable {V : Type}

/-- every entry of the table was handed out - with exactly its ids and its ticket - by a send
    among the observations `pre` -/
def Owned (pre : List Obs) (c : Conn V) : Prop :=
  ∀ key t, (key, t) ∈ c.out → Obs.sent key.ids (some t) ∈ pre

theorem Owned.init (p : Option Proto) (s : Nat) : Owned [] (Conn.init (V := V) p s) := by
  intro key t h; simp [Conn.init] at h

/-- an operation either leaves a subset of the entries, or registers one new entry whose ids and
    ticket are exactly what the send reports -/
theorem step_out (vr : Variant) (k : Nat) (c : Conn V) (op : Op V) :
    (∀ x ∈ (step vr k c op).1.out, x ∈ c.out) ∨
    ∃ key, (step vr k c op).1.out = c.out ++ [(key, c.futs.length)] ∧
      (step vr k c op).2 = .sent key.ids (some c.futs.length) := by
  have hc : ∀ (c1 : Conn V) (p : Key × Nat → Bool) (f : Fut V), c1.out = c.out →
      ∀ x ∈ (complete c1 p f).1.out, x ∈ c.out := by
    intro c1 p f h1 x hx
    rw [complete_out, h1] at hx
    exact eraseP_sublist.subset hx
  cases op with
  | sendRequest ok =>
    cases ok
    · exact Or.inl (fun x hx => hx)
    · exact Or.inr ⟨.single c.next, rfl, rfl⟩
  | sendBatch ms ok =>
    simp only [step]
    split
    · exact Or.inl (fun x hx => hx)
    · split
      · exact Or.inl (fun x hx => hx)
      · exact Or.inr ⟨.batch (List.range' c.next (reqCount ms) k), rfl, rfl⟩
  | recvSingle d m =>
    left
    rw [step_recvSingle, recvResponse_eq_act]
    cases respAct vr _ _ with
    | reject e => exact fun x hx => hx
    | single i f => exact hc (c.settled d) (matchSingle i) f rfl
    | batch ids f => exact hc (c.settled d) (matchBatch ids) f rfl
  | recvBatch d ms =>
    left
    rw [step_recvBatch]
    split
    · exact fun x hx => hx
    · rw [recvResponseBatch_eq_act]
      cases batchAct vr _ with
      | reject e => exact fun x hx => hx
      | single i f => exact hc (c.settled d) (matchSingle i) f rfl
      | batch ids f => exact hc (c.settled d) (matchBatch ids) f rfl
  | recvOther d => exact Or.inl (fun x hx => hx)
  | cancelAll => exact Or.inl (fun x hx => by simp [step] at hx)
  | extCancel t => exact Or.inl (fun x hx => hx)

theorem step_owned (vr : Variant) (k : Nat) {pre : List Obs} {c : Conn V} (h : Owned pre c)
    (op : Op V) : Owned (pre ++ [(step vr k c op).2]) (step vr k c op).1 := by
  intro key t hm
  rcases step_out vr k c op with hsub | ⟨key', hout, hobs⟩
  · exact mem_append_left _ (h key t (hsub _ hm))
  · rw [hout] at hm
    rcases mem_append.1 hm with hm | hm
    · exact mem_append_left _ (h key t hm)
    · simp only [mem_singleton, Prod.mk.injEq] at hm
      obtain ⟨rfl, rfl⟩ := hm
      rw [hobs]; simp

/-- the id a payload counts under is its own `"id"` member, or there is none (`null`) -/
theorem processResponse_fst (vr : Variant) (p : Proto) (m : RawResp V) :
    (processResponse vr p m).1 = .null ∨ m.id = some (processResponse vr p m).1 := by
  unfold processResponse
  cases h : m.id with
  | none => exact Or.inl rfl
  | some i =>
    simp only
    split
    · exact Or.inl rfl
    · split <;> exact Or.inr rfl

theorem id_of_pyEq (vr : Variant) (p : Proto) (m : RawResp V) (n : Nat)
    (h : pyEq (processResponse vr p m).1 (.int n) = true) :
    m.id = some (processResponse vr p m).1 := by
  rcases processResponse_fst vr p m with h0 | h0
  · rw [h0] at h; simp [pyEq, Id.num2] at h
  · exact h0

theorem isPending_lt {futs : List (Fut V)} {t : Nat} (h : isPending futs t = true) :
    t < futs.length := by
  unfold isPending at h
  split at h
  · rename_i hs
    rcases Nat.lt_or_ge t futs.length with h' | h'
    · exact h'
    · simp [getElem?_eq_none h'] at hs
  · cases h

/-- what a payload carries when it counts as a response: its own id and its own result -/
theorem processResponse_ok (vr : Variant) (p : Proto) (m : RawResp V) (i : Id) (r : Res V)
    (h : processResponse vr p m = (i, .ok r)) : m.id = some i ∧ r = m.res := by
  unfold processResponse at h
  cases hid : m.id with
  | none => simp [hid] at h
  | some i' =>
    simp only [hid] at h
    split at h
    · simp at h
    · split at h
      · simp at h
      · simp only [Prod.mk.injEq, Body.ok.injEq] at h
        exact ⟨by rw [h.1], h.2.symm⟩

/-- a single response that completes future `t`: `t` is the future of an outstanding single
    request whose id the payload's own `"id"` equals, and the future now holds exactly what the
    payload carries (result, error, or the protocol error of a malformed response) -/
theorem recvSingle_done_entry (vr : Variant) (k : Nat) (c : Conn V) (d : Proto) (m : RawResp V)
    (t : Nat) (h : (step vr k c (.recvSingle d m)).2 = .done [t]) :
    ∃ n i, (Key.single n, t) ∈ c.out ∧ m.id = some i ∧ pyEq i (.int n) = true ∧
      (step vr k c (.recvSingle d m)).1.futs[t]? =
        some (settle (processResponse vr (c.detect d) m).2) := by
  rw [step_recvSingle] at h ⊢
  unfold recvResponse at h ⊢
  split at h
  · cases h
  · rename_i hb
    split at h
    · cases h
    · rename_i hu
      rw [if_neg hb, if_neg hu]
      rw [complete_obs] at h
      rw [complete_futs]
      unfold obsIf at h
      split at h
      · rename_i e hfind
        split at h
        · rename_i hpend
          simp only [Obs.done.injEq, cons.injEq, and_true] at h
          have hmem : e ∈ c.out := mem_of_find?_eq_some hfind
          have hp := find?_some hfind
          obtain ⟨key, t'⟩ := e
          cases key with
          | batch ns => simp [matchSingle] at hp
          | single n =>
            simp only [matchSingle] at hp
            simp only at h
            subst h
            refine ⟨n, _, hmem, id_of_pyEq vr _ m n hp, hp, ?_⟩
            rw [hfind]
            simp only [setIf, hpend, ↓reduceIte]
            exact getElem?_set_self (isPending_lt hpend)
        · simp at h
      · cases h

/-- a response batch that completes future `t`: `t` is the future of an outstanding batch with
    ids `ns`; the message has as many members as the batch, each carrying (as its own `"id"`) the
    id of a batch member, each batch member answered; and the future now holds `rs` where `rs[j]`
    is exactly the result or error carried by the member of the message whose id is `ns[j]` -
    one outcome per request member, in the order the members were added -/
theorem recvBatch_done_entry (vr : Variant) (k : Nat) {c : Conn V} (hinv : Inv c) (d : Proto)
    (ms : List (RawResp V)) (t : Nat) (h : (step vr k c (.recvBatch d ms)).2 = .done [t]) :
    ∃ ns, (Key.batch ns, t) ∈ c.out ∧ ms.length = ns.length ∧
      (∀ m ∈ ms, ∃ i n, m.id = some i ∧ n ∈ ns ∧ pyEq i (.int n) = true) ∧
      (∀ n ∈ ns, ∃ m ∈ ms, ∃ i, m.id = some i ∧ pyEq i (.int n) = true) ∧
      ∃ rs : List (Res V), (step vr k c (.recvBatch d ms)).1.futs[t]? = some (.batch rs) ∧
        rs.length = ns.length ∧
        ∀ j (hj : j < ns.length) (hj' : j < rs.length),
          ∃ m ∈ ms, ∃ i, m.id = some i ∧ pyEq i (.int ns[j]) = true ∧ m.res = rs[j] := by
  obtain ⟨ns, t', pairs, hmem, hok, hperm, hts⟩ := batch_mismatch vr k c d ms [t] h
  have ht : t = t' := by
    rcases hts with h1 | h1
    · simpa using h1
    · cases h1
  subst ht
  have hlen : ms.length = ns.length := by
    have h1 := congrArg List.length hok
    have h2 := hperm.length_eq
    simp only [length_map, keyVals] at h1 h2
    omega
  -- each pair is the processed form of a member of the message, and vice versa
  have hfwd : ∀ m ∈ ms, ∃ x ∈ pairs, processResponse vr (c.detect d) m = (x.1, Body.ok x.2) := by
    intro m hm
    have : processResponse vr (c.detect d) m ∈ ms.map (processResponse vr (c.detect d)) :=
      mem_map.2 ⟨m, hm, rfl⟩
    rw [hok] at this
    obtain ⟨x, hx, hxe⟩ := mem_map.1 this
    exact ⟨x, hx, hxe.symm⟩
  have hbwd : ∀ x ∈ pairs, ∃ m ∈ ms, processResponse vr (c.detect d) m = (x.1, Body.ok x.2) := by
    intro x hx
    have : (x.1, Body.ok x.2) ∈ pairs.map (fun x => (x.1, Body.ok x.2)) := mem_map.2 ⟨x, hx, rfl⟩
    rw [← hok] at this
    obtain ⟨m, hm, hme⟩ := mem_map.1 this
    exact ⟨m, hm, hme⟩
  have hallow : (c.detect d).allowBatches = true := by
    rw [step_recvBatch] at h
    split at h
    · cases h
    · rename_i hb; simpa using hb
  refine ⟨ns, hmem, hlen, ?_, ?_, ?_⟩
  · intro m hm
    obtain ⟨x, hx, hxe⟩ := hfwd m hm
    have hnum : x.1.num2 ∈ keyVals ns := hperm.subset (mem_map.2 ⟨x, hx, rfl⟩)
    obtain ⟨n, hn, hne⟩ := mem_map.1 hnum
    have hpy : pyEq x.1 (.int n) = true := (pyEq_int_iff _ _).2 hne.symm
    exact ⟨x.1, n, (processResponse_ok vr _ m _ _ hxe).1, hn, hpy⟩
  · intro n hn
    have hnum : some (2 * (n : Int)) ∈ pairs.map (fun x => x.1.num2) :=
      hperm.symm.subset (mem_map.2 ⟨n, hn, rfl⟩)
    obtain ⟨x, hx, hxe⟩ := mem_map.1 hnum
    obtain ⟨m, hm, hme⟩ := hbwd x hx
    have hpy : pyEq x.1 (.int n) = true := (pyEq_int_iff _ _).2 hxe
    exact ⟨m, hm, x.1, (processResponse_ok vr _ m _ _ hme).1, hpy⟩
  · obtain ⟨rs, hrl, hrs, hstep⟩ :=
      recv_batch_aligned vr k hinv d ms ns t hallow hmem pairs hok hperm
    refine ⟨rs, ?_, hrl, ?_⟩
    · rw [hstep]
      rw [hstep] at h
      unfold popped at h ⊢
      split
      · rename_i hpend
        exact getElem?_set_self (isPending_lt hpend)
      · rename_i hpend
        simp [hpend] at h
    · intro j hj hj'
      obtain ⟨⟨i, hir, hi⟩, _⟩ := hrs j hj hj'
      obtain ⟨m, hm, hme⟩ := hbwd (i, rs[j]) hir
      obtain ⟨hid, hres⟩ := processResponse_ok vr _ m _ _ hme
      exact ⟨m, hm, i, hid, hi, hres.symm⟩

/-- a future that has its outcome keeps it to the end of every history (`fut_final` iterated) -/
theorem run_fut_final (vr : Variant) (k : Nat) (ops : List (Op V)) (c : Conn V) (t : Nat)
    (f : Fut V) (h : c.futs[t]? = some f) (hf : f ≠ .pending) :
    (run vr k c ops).1.futs[t]? = some f := by
  induction ops generalizing c with
  | nil => exact h
  | cons op ops ih => exact ih _ (fut_final vr k c op t f h hf)

theorem settle_ne_pending (b : Body V) : settle b ≠ .pending := by
  cases b with
  | ok r => cases r <;> simp [settle]
  | malformed => simp [settle]

/-- the statement of `completes_causing_request` from any state whose entries are owned -/
theorem run_done_owned (vr : Variant) {k : Nat} (hk : 0 < k) (ops : List (Op V)) :
    ∀ (c : Conn V) (pre : List Obs), Inv c → Owned pre c → ∀ j t,
      (run vr k c ops).2[j]? = some (.done [t]) →
      (∀ d m, ops[j]? = some (.recvSingle d m) →
        ∃ n i, Obs.sent [n] (some t) ∈ pre ++ (run vr k c ops).2.take j ∧
          m.id = some i ∧ pyEq i (.int n) = true ∧
          ∃ pr, (run vr k c ops).1.futs[t]? = some (settle (processResponse vr pr m).2)) ∧
      (∀ d ms, ops[j]? = some (.recvBatch d ms) →
        ∃ ns, Obs.sent ns (some t) ∈ pre ++ (run vr k c ops).2.take j ∧
          ms.length = ns.length ∧
          (∀ m ∈ ms, ∃ i n, m.id = some i ∧ n ∈ ns ∧ pyEq i (.int n) = true) ∧
          (∀ n ∈ ns, ∃ m ∈ ms, ∃ i, m.id = some i ∧ pyEq i (.int n) = true) ∧
          ∃ rs : List (Res V), (run vr k c ops).1.futs[t]? = some (.batch rs) ∧
            rs.length = ns.length ∧
            ∀ j' (hj : j' < ns.length) (hj' : j' < rs.length),
              ∃ m ∈ ms, ∃ i, m.id = some i ∧ pyEq i (.int ns[j']) = true ∧ m.res = rs[j']) := by
  induction ops with
  | nil => intro c pre _ _ j t h; simp [run] at h
  | cons op ops ih =>
    intro c pre hinv hown j t h
    simp only [run] at h ⊢
    cases j with
    | zero =>
      simp only [getElem?_cons_zero, Option.some.injEq] at h
      simp only [getElem?_cons_zero, Option.some.injEq, take_zero, append_nil]
      constructor
      · intro d m hop
        subst hop
        obtain ⟨n, i, hmem, hid, hpy, hval⟩ := recvSingle_done_entry vr k c d m t h
        exact ⟨n, i, by simpa [Key.ids] using hown _ _ hmem, hid, hpy, c.detect d,
          run_fut_final vr k ops _ t _ hval (settle_ne_pending _)⟩
      · intro d ms hop
        subst hop
        obtain ⟨ns, hmem, hlen, h1, h2, rs, hval, hrl, hrs⟩ :=
          recvBatch_done_entry vr k hinv d ms t h
        exact ⟨ns, by simpa [Key.ids] using hown _ _ hmem, hlen, h1, h2, rs,
          run_fut_final vr k ops _ t _ hval (by simp), hrl, hrs⟩
    | succ j =>
      simp only [getElem?_cons_succ] at h ⊢
      have := ih (step vr k c op).1 (pre ++ [(step vr k c op).2]) (step_inv vr hk hinv op)
        (step_owned vr k hown op) j t h
      simpa [take_succ_cons, append_assoc] using this

/-- **completes_causing_request.**  Along every history from a fresh connection (any protocol,
    any start and positive step of the id counter, whatever the peer sends in whatever order, with
    duplicates, unknown ids, cancellations and give-ups in between): if the message received at
    position `j` completes future `t`, then an EARLIER send of the same history handed out future
    `t`, and
    * a single response carries, as its own `"id"`, exactly the one id that send drew, and at the
      END of the history the future still holds exactly what that response carried (its result,
      its error, or the protocol error of a malformed response);
    * a response batch answers exactly the ids `ns` that send drew - as many members as the batch
      has, each member carrying the id of a batch member and each batch member answered - and at
      the end of the history the future holds `rs` with `rs[j]` = the result or error carried by
      the member of the message whose id is `ns[j]`: one outcome per request member, in the order
      the members were added, whatever the order of the members in the response.
    Together with `ids_never_reused` (no other send of the history drew any of these ids) and
    `ticket_sent_once` (no other send handed out future `t`) the response completes the request
    that caused it and no other, with exactly what the peer sent. -/
theorem completes_causing_request (vr : Variant) {k : Nat} (hk : 0 < k) (p : Option Proto)
    (start : Nat) (ops : List (Op V)) (j t : Nat)
    (h : (run vr k (Conn.init p start) ops).2[j]? = some (.done [t])) :
    (∀ d m, ops[j]? = some (.recvSingle d m) →
      ∃ n i, Obs.sent [n] (some t) ∈ (run vr k (Conn.init p start) ops).2.take j ∧
        m.id = some i ∧ pyEq i (.int n) = true ∧
        ∃ pr, (run vr k (Conn.init p start) ops).1.futs[t]? =
          some (settle (processResponse vr pr m).2)) ∧
    (∀ d ms, ops[j]? = some (.recvBatch d ms) →
      ∃ ns, Obs.sent ns (some t) ∈ (run vr k (Conn.init p start) ops).2.take j ∧
        ms.length = ns.length ∧
        (∀ m ∈ ms, ∃ i n, m.id = some i ∧ n ∈ ns ∧ pyEq i (.int n) = true) ∧
        (∀ n ∈ ns, ∃ m ∈ ms, ∃ i, m.id = some i ∧ pyEq i (.int n) = true) ∧
        ∃ rs : List (Res V), (run vr k (Conn.init p start) ops).1.futs[t]? = some (.batch rs) ∧
          rs.length = ns.length ∧
          ∀ j' (hj : j' < ns.length) (hj' : j' < rs.length),
            ∃ m ∈ ms, ∃ i, m.id = some i ∧ pyEq i (.int ns[j']) = true ∧ m.res = rs[j']) := by
  simpa using run_done_owned vr hk ops (Conn.init p start) [] (Inv.init p start)
    (Owned.init p start) j t h

/-- non-vacuity: request 0 is answered, request 1 is sent, the answer to request 0 arrives again
    (rejected: id 0 is not handed out a second time), request 1 is answered: the two completions
    are at positions 1 and 4, by the ids 0 and 1 that the sends at positions 0 and 2 drew -/
example :
    let r := fun (n : Int) (v : Nat) => (⟨some (.int n), true, .val v⟩ : RawResp Nat)
    (run (repaired true true) 1 (Conn.init (some .v2) 0)
      [.sendRequest true, .recvSingle .v2 (r 0 5), .sendRequest true, .recvSingle .v2 (r 0 5),
       .recvSingle .v2 (r 1 6)]).2
      = [.sent [0] (some 0), .done [0], .sent [1] (some 1), .raised .protocolError, .done [1]] ∧
    -- a batch (ids 0, 1, 2) answered in the order 2, 0, 1 while a later single is outstanding:
    -- completed at position 2 by the send at position 0, results in member order to the end
    (run (repaired true true) 1 (Conn.init (some .v2) 0)
      [.sendBatch [.req, .req, .req] true, .sendRequest true,
       .recvBatch .v2 [r 2 22, ⟨some (.int 0), true, .err 20⟩, r 1 21],
       .recvSingle .v2 (r 3 9), .cancelAll])
      = ({ proto := some .v2, next := 4, out := [],
           futs := [.batch [.err 20, .val 21, .val 22], .result 9] },
         [.sent [0, 1, 2] (some 0), .sent [3] (some 1), .done [0], .done [1], .cancelled []]) := by
  decide

/-! ## every future is handed out once -/

/-- tickets handed out by the sends of a history, in order -/
def sentTickets : List Obs → List Nat
  | [] => []
  | .sent _ (some t) :: r => t :: sentTickets r
  | _ :: r => sentTickets r

theorem step_sent_ticket (vr : Variant) (k : Nat) (c : Conn V) (op : Op V) (ids : List Nat)
    (t : Nat) (h : (step vr k c op).2 = .sent ids (some t)) :
    t = c.futs.length ∧ (step vr k c op).1.futs.length = t + 1 := by
  cases op with
  | sendRequest ok =>
    cases ok
    · cases h
    · simp only [step, ↓reduceIte, Obs.sent.injEq, Option.some.injEq] at h ⊢
      obtain ⟨_, rfl⟩ := h
      simp
  | sendBatch ms ok =>
    simp only [step] at h ⊢
    split at h
    · cases h
    · split at h
      · simp at h
      · rename_i h1 h2
        simp only [Obs.sent.injEq, Option.some.injEq] at h
        obtain ⟨_, rfl⟩ := h
        simp [h1, h2]
  | recvSingle d m =>
    simp only [step, recvResponse, complete] at h
    repeat' split at h
    all_goals cases h
  | recvBatch d ms =>
    simp only [step, recvResponseBatch, complete] at h
    repeat' split at h
    all_goals cases h
  | recvOther d => cases h
  | cancelAll => cases h
  | extCancel t => cases h

/-- **ticket_sent_once.**  The futures handed out along a history are numbered in strictly
    increasing order: no two sends return the same future. -/
theorem ticket_sent_once (vr : Variant) (k : Nat) (ops : List (Op V)) (c : Conn V) :
    (sentTickets (run vr k c ops).2).Pairwise (· < ·) ∧
      ∀ t ∈ sentTickets (run vr k c ops).2, c.futs.length ≤ t := by
  induction ops generalizing c with
  | nil => simp [run, sentTickets]
  | cons op ops ih =>
    obtain ⟨ih1, ih2⟩ := ih (step vr k c op).1
    have hlen := (step_tickets vr k c op).1
    simp only [run]
    cases hobs : (step vr k c op).2 with
    | sent ids t =>
      cases t with
      | none =>
        simp only [sentTickets]
        exact ⟨ih1, fun t ht => by have := ih2 t ht; omega⟩
      | some t =>
        obtain ⟨h1, h2⟩ := step_sent_ticket vr k c op ids t hobs
        simp only [sentTickets]
        refine ⟨pairwise_cons.2 ⟨?_, ih1⟩, ?_⟩
        · intro b hb; have := ih2 b hb; omega
        · intro b hb
          rcases mem_cons.1 hb with rfl | hb
          · omega
          · have := ih2 b hb; omega
    | done _ => simp only [sentTickets]; exact ⟨ih1, fun t ht => by have := ih2 t ht; omega⟩
    | raised _ => simp only [sentTickets]; exact ⟨ih1, fun t ht => by have := ih2 t ht; omega⟩
    | cancelled _ => simp only [sentTickets]; exact ⟨ih1, fun t ht => by have := ih2 t ht; omega⟩

end Aiorpcx.C01
