import Aiorpcx.C01.Sort
/-! C01 — exact effect of receiving a single response / a response batch. -/
namespace Aiorpcx.C01
open List

variable {V : Type}

/-- the connection after the protocol has been settled by a received message -/
def Conn.settled (c : Conn V) (d : Proto) : Conn V := { c with proto := some (c.detect d) }

theorem Inv.settled {c : Conn V} (h : Inv c) (d : Proto) : Inv (c.settled d) := h.with_proto _

/-- result of popping entry `e` and completing its future with `f` if it is still pending -/
def popped (c : Conn V) (e : Key × Nat) (f : Fut V) : Conn V × Obs :=
  if isPending c.futs e.2 then
    ({ c with out := c.out.erase e, futs := c.futs.set e.2 f }, .done [e.2])
  else ({ c with out := c.out.erase e }, .done [])

theorem step_recvSingle (vr : Variant) (k : Nat) (c : Conn V) (d : Proto) (m : RawResp V) :
    step vr k c (.recvSingle d m) =
      recvResponse vr (c.settled d) (processResponse vr (c.detect d) m).1
        (processResponse vr (c.detect d) m).2 := rfl

theorem step_recvBatch (vr : Variant) (k : Nat) (c : Conn V) (d : Proto) (ms : List (RawResp V)) :
    step vr k c (.recvBatch d ms) =
      if !(c.detect d).allowBatches then (c.settled d, .raised .protocolError)
      else recvResponseBatch vr (c.settled d) (ms.map (processResponse vr (c.detect d))) := rfl

theorem okPairs_map_ok (pairs : List (Id × Res V)) :
    okPairs (pairs.map fun x => (x.1, Body.ok x.2)) = pairs := by
  induction pairs with
  | nil => rfl
  | cons x xs ih => obtain ⟨i, r⟩ := x; simp [okPairs, ih]

theorem any_malformed_map_ok (pairs : List (Id × Res V)) :
    (pairs.map fun x => (x.1, Body.ok x.2)).any (·.2.isMalformed) = false := by
  induction pairs with
  | nil => rfl
  | cons x xs ih => simp_all [Body.isMalformed]

theorem eq_map_ok_of_no_malformed : ∀ (items : List (Id × Body V)),
    items.any (·.2.isMalformed) = false →
      items = (okPairs items).map fun x => (x.1, Body.ok x.2)
  | [], _ => rfl
  | (i, .ok r) :: rest, h => by
    have := eq_map_ok_of_no_malformed rest (by simpa [Body.isMalformed] using h)
    simp only [okPairs, map_cons]; rw [← this]
  | (i, .malformed) :: rest, h => by simp [Body.isMalformed] at h

theorem complete_raised (c : Conn V) (p : Key × Nat → Bool) (f : Fut V) :
    ∀ e, (complete c p f).2 = .raised e → (complete c p f).1 = c ∧ e = .protocolError := by
  unfold complete
  split
  · intro e h; cases h; exact ⟨rfl, rfl⟩
  · split <;> (intro e h; cases h)

theorem recvResponse_raised (vr : Variant) (c : Conn V) (i : Id) (b : Body V) :
    ∀ e, (recvResponse vr c i b).2 = .raised e → (recvResponse vr c i b).1 = c := by
  unfold recvResponse
  split
  · intro _ _; rfl
  · split
    · intro _ _; rfl
    · intro e h; exact (complete_raised _ _ _ e h).1

theorem recvResponseBatch_raised (vr : Variant) (c : Conn V) (items : List (Id × Body V)) :
    ∀ e, (recvResponseBatch vr c items).2 = .raised e → (recvResponseBatch vr c items).1 = c := by
  unfold recvResponseBatch
  split
  · intro _ _; rfl
  · split
    · intro _ _; rfl
    · split
      · intro _ _; rfl
      · split
        · intro _ _; rfl
        · intro e h; exact (complete_raised _ _ _ e h).1

theorem recvResponseBatch_typeError (vr : Variant) (c : Conn V) (items : List (Id × Body V)) :
    (recvResponseBatch vr c items).2 = .raised .typeError →
      vr.lookupGuard = false ∨ vr.sortGuard = false := by
  unfold recvResponseBatch
  split
  · intro h; cases h
  · split
    · intro h; cases h
    · split
      · cases hg : vr.sortGuard
        · intro _; exact Or.inr rfl
        · intro h; simp at h
      · split
        · cases hg : vr.lookupGuard
          · intro _; exact Or.inl rfl
          · intro h; simp at h
        · intro h; exact absurd (complete_raised _ _ _ _ h).2 (by simp)

/-- the ticket a `complete` reports was in the table before and is not afterwards -/
theorem complete_done {c : Conn V} (hi : Inv c) (p : Key × Nat → Bool) (f : Fut V) :
    ∀ ts, (complete c p f).2 = .done ts →
      ts = [] ∨ ∃ t, ts = [t] ∧ t ∈ c.out.map Prod.snd ∧
        t ∉ (complete c p f).1.out.map Prod.snd := by
  have gone : ∀ e, c.out.find? p = some e → e.2 ∉ (c.out.eraseP p).map Prod.snd := by
    intro e hfind hm
    obtain ⟨x, hx, hxe⟩ := mem_map.1 hm
    have hxo : x ∈ c.out := eraseP_sublist.subset hx
    have heo : e ∈ c.out := mem_of_find?_eq_some hfind
    have hxe' : x = e := by
      have hinj := hi.tickets_nodup
      rw [Nodup, pairwise_map] at hinj
      refine Classical.byContradiction fun hne => ?_
      exact pairwise_of_mem_ne (R := fun a b : Key × Nat => a.2 ≠ b.2)
        (fun a b h => h.symm) hinj hxo heo hne hxe
    subst hxe'
    have hnd := hi.out_nodup
    have : (c.out.eraseP p) = c.out.erase x := eraseP_eq_erase_of_find p x c.out hfind
    rw [this] at hx
    exact ((Nodup.mem_erase_iff hnd).1 hx).1 rfl
  unfold complete
  split
  · intro ts h; cases h
  · rename_i e hfind
    split
    · intro ts h
      simp only [Obs.done.injEq] at h
      exact Or.inr ⟨e.2, h.symm, mem_map.2 ⟨e, mem_of_find?_eq_some hfind, rfl⟩, gone e hfind⟩
    · intro ts h
      simp only [Obs.done.injEq] at h
      exact Or.inl h.symm

theorem recvResponse_done (vr : Variant) {c : Conn V} (hi : Inv c) (i : Id) (b : Body V) :
    ∀ ts, (recvResponse vr c i b).2 = .done ts →
      ts = [] ∨ ∃ t, ts = [t] ∧ t ∈ c.out.map Prod.snd ∧
        t ∉ (recvResponse vr c i b).1.out.map Prod.snd := by
  unfold recvResponse
  split
  · intro ts h; cases h
  · split
    · intro ts h; cases h
    · exact complete_done hi _ _

theorem recvResponseBatch_done (vr : Variant) {c : Conn V} (hi : Inv c)
    (items : List (Id × Body V)) :
    ∀ ts, (recvResponseBatch vr c items).2 = .done ts →
      ts = [] ∨ ∃ t, ts = [t] ∧ t ∈ c.out.map Prod.snd ∧
        t ∉ (recvResponseBatch vr c items).1.out.map Prod.snd := by
  unfold recvResponseBatch
  split
  · intro ts h; cases h
  · split
    · intro ts h; cases h
    · split
      · intro ts h; cases h
      · split
        · intro ts h; cases h
        · exact complete_done hi _ _

end Aiorpcx.C01
