import Aiorpcx.C01.Ids
/-! C01 — model of the request/response matching of `JSONRPCConnection`
    (aiorpcx/jsonrpc.py: `send_request`, `send_batch`, `_future`, `receive_message`,
    `_receive_response`, `_receive_response_batch`, `cancel_pending_requests`,
    `pending_requests`) plus the id layer of `_process_response`/`_message_id`.
    No Mathlib imports: the driver links this.

    Result values are opaque tokens of an arbitrary type `V` (the code never inspects them). -/
namespace Aiorpcx.C01

inductive Proto where
  | v1 | v2 | loose
  deriving DecidableEq, Repr

/-- `JSONRPC.allow_batches` -/
def Proto.allowBatches : Proto → Bool
  | .v1 => false
  | _ => true

/-- Which repairs are present in the tree being modelled.
    `rejectBool` is this property's own repair (F7, fixes/F07-bool-response-id.diff); the two
    guards belong to C05's repairs F4/F5 and are read from the generated facts, so that the
    model follows the tree whether or not they are applied. -/
structure Variant where
  rejectBool : Bool
  lookupGuard : Bool
  sortGuard : Bool
  /-- does a `send_request` / `send_batch` that raises still use up the ids it drew?  (It does in
      the tree: the ids are drawn before the message is built.)  The property does not care -
      ids only have to be fresh - so this is a parameter read from the facts, not a law. -/
  failDrawsSingle : Bool := true
  failDrawsBatch : Bool := true
  deriving DecidableEq, Repr

/-- the tree after fixes/F07 -/
def repaired (lookupGuard sortGuard : Bool) : Variant :=
  { rejectBool := true, lookupGuard := lookupGuard, sortGuard := sortGuard }
/-- the pinned tree -/
def pinned : Variant := { rejectBool := false, lookupGuard := false, sortGuard := false }

/-- what a well-formed response carries: a result value or an error object (`RPCError`) -/
inductive Res (V : Type) where
  | val (v : V)
  | err (e : V)
  deriving DecidableEq, Repr

/-- a received response payload as far as matching is concerned -/
structure RawResp (V : Type) where
  /-- the value under `"id"`; `none` when the key is absent -/
  id : Option Id
  /-- everything else about the payload is a valid response for the protocol in force -/
  wf : Bool
  res : Res V
  deriving DecidableEq, Repr

inductive Body (V : Type) where
  | ok (r : Res V)
  /-- `ProtocolError` whose `response_msg_id` was set -/
  | malformed
  deriving DecidableEq, Repr

/-- `_message_id`: which id values a protocol admits (1.0: any JSON value; 2.0 and Loose:
    number, string or null — and, after F7, not a bool although `bool ⊂ int ⊂ Number`). -/
def admitId (vr : Variant) : Proto → Id → Bool
  | .v1, _ => true
  | _, .bool _ => !vr.rejectBool
  | _, .unhashable _ => false
  | _, _ => true

/-- `_process_response`: the id under which the payload counts and what it carries.
    An id that is absent or not admitted is *not recoverable* (`request_id` is still `None` when
    `_message_id` raises); any later defect keeps the id. -/
def processResponse {V : Type} (vr : Variant) (p : Proto) (m : RawResp V) : Id × Body V :=
  match m.id with
  | none => (.null, .malformed)
  | some i =>
      if !admitId vr p i then (.null, .malformed)
      else if !m.wf then (i, .malformed)
      else (i, .ok m.res)

/-- state of one future handed out by `send_request`/`send_batch` -/
inductive Fut (V : Type) where
  | pending
  | result (v : V)
  | rpcError (e : V)
  | protoError
  | cancelled
  | batch (rs : List (Res V))
  deriving DecidableEq, Repr

/-- a key of `_requests`: the id, or the tuple of ids of a batch -/
inductive Key where
  | single (n : Nat)
  | batch (ns : List Nat)
  deriving DecidableEq, Repr

def Key.ids : Key → List Nat
  | .single n => [n]
  | .batch ns => ns

/-- `out` is `_requests` in insertion order, each entry with the *ticket* (creation index) of
    its future; `futs[t]` is the state of the future with ticket `t`; `proto = none` is
    `JSONRPCAutoDetect` before the first received message. -/
structure Conn (V : Type) where
  proto : Option Proto
  next : Nat
  out : List (Key × Nat)
  futs : List (Fut V)
  deriving DecidableEq, Repr

def Conn.init {V : Type} (proto : Option Proto) (start : Nat) : Conn V :=
  { proto := proto, next := start, out := [], futs := [] }

/-- all ids outstanding, flattened over batches -/
def Conn.outIds {V : Type} (c : Conn V) : List Nat := c.out.flatMap fun e => e.1.ids

/-- `len(pending_requests())` -/
def Conn.pendingCount {V : Type} (c : Conn V) : Nat := c.out.length

inductive Member where
  | req | notif
  deriving DecidableEq, Repr

inductive Op (V : Type) where
  /-- `send_request`; `ok = false`: `request_message` raised (id drawn, nothing registered) -/
  | sendRequest (ok : Bool)
  /-- `send_batch`; `ok = false`: `batch_message` raised for a reason other than the protocol -/
  | sendBatch (members : List Member) (ok : Bool)
  /-- `receive_message` of a single response; `detected` = what `detect_protocol` answers -/
  | recvSingle (detected : Proto) (m : RawResp V)
  /-- `receive_message` of a list all of whose members look like responses -/
  | recvBatch (detected : Proto) (ms : List (RawResp V))
  /-- `receive_message` of anything else (requests, notifications, request batches, garbage) -/
  | recvOther (detected : Proto)
  /-- `cancel_pending_requests` -/
  | cancelAll
  /-- the awaiting task gave up (timeout / cancellation): the future is cancelled from outside,
      its entry stays in `_requests` -/
  | extCancel (t : Nat)
  deriving DecidableEq, Repr

inductive Obs where
  /-- a send returned: ids drawn, ticket of the future (none: `event is None`) -/
  | sent (ids : List Nat) (ticket : Option Nat)
  /-- `receive_message` returned; tickets whose future was completed by it -/
  | done (completed : List Nat)
  | raised (e : PyExc)
  | cancelled (tickets : List Nat)
  deriving DecidableEq, Repr

/-- how a single response settles its future:
    `set_exception` for an `Exception` instance, `set_result` otherwise -/
def settle {V : Type} : Body V → Fut V
  | .ok (.val v) => .result v
  | .ok (.err e) => .rpcError e
  | .malformed => .protoError

def matchSingle (i : Id) : Key × Nat → Bool
  | (.single n, _) => pyEq i (.int n)
  | _ => false

def tupleEq : List Id → List Nat → Bool
  | [], [] => true
  | i :: is, n :: ns => pyEq i (.int n) && tupleEq is ns
  | _, _ => false

def matchBatch (ids : List Id) : Key × Nat → Bool
  | (.batch ns, _) => tupleEq ids ns
  | _ => false

/-- `not future.done()` for the future with ticket `t` -/
def isPending {V : Type} (futs : List (Fut V)) (t : Nat) : Bool :=
  match futs[t]? with
  | some .pending => true
  | _ => false

/-- pop the first entry satisfying `p` and complete its future if it is still pending -/
def complete {V : Type} (c : Conn V) (p : Key × Nat → Bool) (f : Fut V) : Conn V × Obs :=
  match c.out.find? p with
  | none => (c, .raised .protocolError)
  | some e =>
      let out' := c.out.eraseP p
      if isPending c.futs e.2 then ({ c with out := out', futs := c.futs.set e.2 f }, .done [e.2])
      else ({ c with out := out' }, .done [])

/-- `_receive_response(result, request_id)` -/
def recvResponse {V : Type} (vr : Variant) (c : Conn V) (i : Id) (b : Body V) : Conn V × Obs :=
  if vr.rejectBool && i.isBool then (c, .raised .protocolError)
  else if i.isUnhashable then
    (c, .raised (if vr.lookupGuard then .protocolError else .typeError))
  else complete c (matchSingle i) (settle b)

def Body.isMalformed {V : Type} : Body V → Bool
  | .malformed => true
  | _ => false

def okPairs {V : Type} : List (Id × Body V) → List (Id × Res V)
  | [] => []
  | (i, .ok r) :: rest => (i, r) :: okPairs rest
  | (_, .malformed) :: rest => okPairs rest

/-- `_receive_response_batch(payloads)` on already processed members -/
def recvResponseBatch {V : Type} (vr : Variant) (c : Conn V) (items : List (Id × Body V)) :
    Conn V × Obs :=
  if items.isEmpty then (c, .raised .protocolError)
  -- "Let ProtocolError exceptions through": the first malformed member ends the call
  else if items.any (·.2.isMalformed) then (c, .raised .protocolError)
  else
    match pySorted (okPairs items) with
    | .error _ => (c, .raised (if vr.sortGuard then .protocolError else .typeError))
    | .ok ordered =>
        -- hashing the id tuple: an unhashable member raises
        if ordered.any (·.1.isUnhashable) then
          (c, .raised (if vr.lookupGuard then .protocolError else .typeError))
        else complete c (matchBatch (ordered.map Prod.fst)) (.batch (ordered.map Prod.snd))

/-- the protocol in force for a received message (AutoDetect settles on the first one) -/
def Conn.detect {V : Type} (c : Conn V) (detected : Proto) : Proto := c.proto.getD detected

def reqCount (ms : List Member) : Nat := (ms.filter (· = .req)).length

def cancelFut {V : Type} : Fut V → Fut V
  | .pending => .cancelled
  | f => f

def cancelTickets {V : Type} (futs : List (Fut V)) : List Nat → List (Fut V)
  | [] => futs
  | t :: ts => cancelTickets (futs.modify t cancelFut) ts

/-- one operation on the connection.  `k` = step of the id counter (facts). -/
def step {V : Type} (vr : Variant) (k : Nat) (c : Conn V) : Op V → Conn V × Obs
  | .sendRequest ok =>
      let id := c.next
      if ok then
        ({ c with next := id + k, out := c.out ++ [(.single id, c.futs.length)],
                  futs := c.futs ++ [.pending] }, .sent [id] (some c.futs.length))
      else ({ c with next := if vr.failDrawsSingle then id + k else id }, .raised .protocolError)
  | .sendBatch ms ok =>
      let n := reqCount ms
      let ids := List.range' c.next n k
      let c1 := { c with next := c.next + n * k }
      -- before anything is received AutoDetect formats (and allows batches) like 2.0
      if !((c.proto.getD .v2).allowBatches) || !ok || ms.isEmpty then
        ({ c with next := if vr.failDrawsBatch then c.next + n * k else c.next },
         .raised .protocolError)
      else if n = 0 then (c1, .sent [] none)
      else ({ c1 with out := c.out ++ [(.batch ids, c.futs.length)],
                      futs := c.futs ++ [.pending] }, .sent ids (some c.futs.length))
  | .recvSingle d m =>
      let p := c.detect d
      let c1 := { c with proto := some p }
      let (i, b) := processResponse vr p m
      recvResponse vr c1 i b
  | .recvBatch d ms =>
      let p := c.detect d
      let c1 := { c with proto := some p }
      if !p.allowBatches then (c1, .raised .protocolError)
      else recvResponseBatch vr c1 (ms.map (processResponse vr p))
  | .recvOther d => ({ c with proto := some (c.detect d) }, .done [])
  | .cancelAll =>
      let ts := c.out.map Prod.snd
      ({ c with out := [], futs := cancelTickets c.futs ts },
       .cancelled (ts.filter (isPending c.futs)))
  | .extCancel t => ({ c with futs := c.futs.modify t cancelFut }, .done [])

/-- run a history; returns the final state and the observations, oldest first -/
def run {V : Type} (vr : Variant) (k : Nat) : Conn V → List (Op V) → Conn V × List Obs
  | c, [] => (c, [])
  | c, op :: ops =>
      let r := step vr k c op
      let r2 := run vr k r.1 ops
      (r2.1, r.2 :: r2.2)

/-- `BatchRequest.__aexit__` once `send_batch` has returned `(message, event)`: which future the
    caller awaits after the message is written (`none`: nothing to wait for, `results = ()`).
    `fixF19 = false` is the pinned tree, which hands `None` to `await`. -/
def batchExit (fixF19 : Bool) (event : Option Nat) : Except PyExc (Option Nat) :=
  match event with
  | some t => .ok (some t)
  | none => if fixF19 then .ok none else .error .typeError

end Aiorpcx.C01
