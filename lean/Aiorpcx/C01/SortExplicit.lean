import Aiorpcx.C01.Sort
/-! C01 — the sort with every `<` evaluated explicitly.

    `sortE` is an insertion sort that calls Python's `<` (`pyLt`, which raises `TypeError` across
    classes and on `None`) for every comparison it makes.  `sortE_eq_pySorted` shows that the
    class test used by `pySorted` is exactly "some comparison raises": the two functions agree on
    every input, error cases included. -/
namespace Aiorpcx.C01
open List

variable {α : Type}

/-- insert `x` into a sorted list, comparing with `y < x` as `sorted` does -/
def insertE (x : Id × α) : List (Id × α) → Except PyExc (List (Id × α))
  | [] => .ok [x]
  | y :: ys =>
      match pyLt y.1 x.1 with
      | .error e => .error e
      | .ok true =>
          match insertE x ys with
          | .error e => .error e
          | .ok r => .ok (y :: r)
      | .ok false => .ok (x :: y :: ys)

def sortE : List (Id × α) → Except PyExc (List (Id × α))
  | [] => .ok []
  | x :: xs =>
      match sortE xs with
      | .error e => .error e
      | .ok s => insertE x s

/-- the comparison function of a class -/
def leOf : SortClass → (Id × α) → (Id × α) → Bool
  | .num => leNum
  | .str => leStr

theorem sortE_cons (x : Id × α) (xs : List (Id × α)) :
    sortE (x :: xs) = match sortE xs with
      | .error e => .error e
      | .ok s => insertE x s := rfl

theorem decide_lt_eq_not_le (p q : Int) : decide (p < q) = !decide (q ≤ p) := by
  by_cases h : p < q
  · have : ¬ q ≤ p := by omega
    simp [h, this]
  · have : q ≤ p := by omega
    simp [h, this]

theorem pyLt_same_class (a b : Id) (c : SortClass) (ha : sortClassOf a = some c)
    (hb : sortClassOf b = some c) :
    ∀ (x y : α), pyLt a b = .ok (!(leOf c (b, y) (a, x))) := by
  intro x y
  cases c with
  | num =>
    cases a <;> cases b <;>
      simp_all [sortClassOf, Id.num2, pyLt, leOf, leNum, Id.numKey, decide_lt_eq_not_le] <;>
      exact decide_eq_decide.2 Iff.rfl
  | str =>
    cases a <;> cases b <;> simp_all [sortClassOf, Id.num2, pyLt, leOf, leStr]

theorem pyLt_diff_class (a b : Id) (h : sortClassOf a ≠ sortClassOf b ∨ sortClassOf a = none) :
    pyLt a b = .error .typeError := by
  cases a <;> cases b <;> simp_all [sortClassOf, Id.num2, pyLt]

/-- inside one class no comparison raises and `insertE` is `insertBy` -/
theorem insertE_same_class (c : SortClass) (x : Id × α) (hx : sortClassOf x.1 = some c) :
    ∀ (s : List (Id × α)), (∀ y ∈ s, sortClassOf y.1 = some c) →
      insertE x s = .ok (insertBy (leOf c) x s)
  | [], _ => rfl
  | y :: ys, h => by
    have hy := h y (by simp)
    have ih := insertE_same_class c x hx ys (fun z hz => h z (by simp [hz]))
    simp only [insertE, insertBy]
    rw [pyLt_same_class y.1 x.1 c hy hx y.2 x.2]
    cases hle : leOf c (x.1, x.2) (y.1, y.2) <;> simp_all

/-- the head of a non-empty list is compared with `x`: across classes that raises -/
theorem insertE_diff_class (x y : Id × α) (ys : List (Id × α))
    (h : sortClassOf y.1 ≠ sortClassOf x.1 ∨ sortClassOf y.1 = none) :
    insertE x (y :: ys) = .error .typeError := by
  simp only [insertE, pyLt_diff_class y.1 x.1 h]

theorem insertBy_ne_nil (le : (Id × α) → (Id × α) → Bool) (x : Id × α) (s : List (Id × α)) :
    insertBy le x s ≠ [] := by
  cases s with
  | nil => simp [insertBy]
  | cons y ys => simp only [insertBy]; split <;> simp

theorem insSort_ne_nil (le : (Id × α) → (Id × α) → Bool) (ps : List (Id × α)) (h : ps ≠ []) :
    insSort le ps ≠ [] := by
  cases ps with
  | nil => exact absurd rfl h
  | cons x xs => exact insertBy_ne_nil le x _

theorem mem_insSort (le : (Id × α) → (Id × α) → Bool) (ps : List (Id × α)) (y : Id × α) :
    y ∈ insSort le ps ↔ y ∈ ps := (insSort_perm le ps).mem_iff

theorem commonClass_cons_cons (i j : Id) (is : List Id) :
    commonClass (i :: j :: is) =
      match sortClassOf i, commonClass (j :: is) with
      | some a, some b => if a = b then some a else none
      | _, _ => none := rfl

theorem commonClass_some_iff (c : SortClass) : ∀ (ids : List Id), ids ≠ [] →
    (commonClass ids = some c ↔ ∀ i ∈ ids, sortClassOf i = some c)
  | [], h => absurd rfl h
  | [i], _ => by simp [commonClass]
  | i :: j :: is, _ => by
    have ih := commonClass_some_iff c (j :: is) (by simp)
    rw [commonClass_cons_cons]
    constructor
    · intro h
      cases hi : sortClassOf i with
      | none => simp [hi] at h
      | some a =>
        cases hc : commonClass (j :: is) with
        | none => simp [hi, hc] at h
        | some b =>
          simp only [hi, hc] at h
          split at h
          · rename_i hab
            subst hab
            simp only [Option.some.injEq] at h
            subst h
            intro k hk
            rcases mem_cons.1 hk with rfl | hk
            · exact hi
            · exact (ih.1 hc) k hk
          · cases h
    · intro h
      have hi := h i (by simp)
      have hrest := ih.2 (fun k hk => h k (by simp [hk]))
      simp [hi, hrest]

/-- **the explicit sort is the class-test sort**: `sorted` raises exactly when the ids are not
    all in one class (and there are at least two of them), and otherwise returns the stable
    sort — for every input. -/
theorem sortE_eq_pySorted : ∀ (ps : List (Id × α)), sortE ps = pySorted ps
  | [] => rfl
  | [p] => rfl
  | x :: y :: rest => by
    have ih := sortE_eq_pySorted (y :: rest)
    have hcc := commonClass_cons_cons x.1 y.1 (rest.map Prod.fst)
    rw [sortE_cons]
    cases hrest : commonClass ((y :: rest).map Prod.fst) with
    | none =>
      -- the tail is not in one class
      have hp : pySorted (x :: y :: rest) = .error .typeError := by
        simp only [pySorted, map_cons] at hrest ⊢
        rw [hcc, hrest]
        cases sortClassOf x.1 <;> rfl
      rw [hp]
      cases rest with
      | nil =>
        -- [x, y]: y has no class; the one comparison made raises
        simp only [map_cons, map_nil, commonClass] at hrest
        have : sortE [y] = .ok [y] := rfl
        rw [this]
        simp only [insertE, pyLt_diff_class y.1 x.1 (Or.inr hrest)]
      | cons z rest' =>
        have : pySorted (y :: z :: rest') = .error .typeError := by
          simp only [pySorted, map_cons] at hrest ⊢
          rw [hrest]
        rw [ih, this]
    | some c =>
      have hall := (commonClass_some_iff c _ (by simp)).1 hrest
      have hsorted : sortE (y :: rest) = .ok (insSort (leOf c) (y :: rest)) := by
        cases rest with
        | nil => simp [sortE, insertE, insSort, insertBy]
        | cons z rest' =>
          rw [ih]
          simp only [pySorted, map_cons] at hrest ⊢
          rw [hrest]
          cases c <;> rfl
      rw [hsorted]
      simp only []
      have hmem : ∀ w ∈ insSort (leOf c) (y :: rest), sortClassOf w.1 = some c := by
        intro w hw
        exact hall w.1 (mem_map.2 ⟨w, (mem_insSort _ _ w).1 hw, rfl⟩)
      by_cases hx : sortClassOf x.1 = some c
      · -- same class: no comparison raises
        rw [insertE_same_class c x hx _ hmem]
        have : pySorted (x :: y :: rest) = .ok (insSort (leOf c) (x :: y :: rest)) := by
          simp only [pySorted, map_cons] at hrest ⊢
          rw [hcc, hrest, hx]
          cases c <;> simp [leOf]
        rw [this]; rfl
      · -- x is in another class (or none): the first comparison raises
        have hne := insSort_ne_nil (leOf c) (y :: rest) (by simp)
        obtain ⟨w, ws, hws⟩ := exists_cons_of_ne_nil hne
        have hw : sortClassOf w.1 = some c := hmem w (by rw [hws]; simp)
        rw [hws, insertE_diff_class x w ws (Or.inl (by rw [hw]; exact fun h => hx h.symm))]
        have : pySorted (x :: y :: rest) = .error .typeError := by
          simp only [pySorted, map_cons] at hrest ⊢
          rw [hcc, hrest]
          cases hsx : sortClassOf x.1 with
          | none => rfl
          | some a =>
            have : a ≠ c := fun h => hx (h ▸ hsx)
            simp [this]
        rw [this]

end Aiorpcx.C01
