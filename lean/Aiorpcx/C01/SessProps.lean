import Aiorpcx.C01.Cause
import Aiorpcx.C01.Sess
/-!
# C01 — the sender side of `RPCSession`: giving up anywhere never makes two requests share an id

`Sess.lean` models callers that create a request on the connection, park in `transport.write`
while the send buffer is full, and may be cancelled / time out there or while awaiting the
response.  Proved for every history of such events (any number of parked callers, give-ups at any
point, messages from the peer in between, the connection lost):

* `wire_ids_distinct` — the ids of the requests that reach the wire are strictly increasing in
  wire order, in particular pairwise distinct over the whole life of the connection: whatever is
  unanswered on the wire at any time has pairwise distinct ids;
* `session_is_connection_history` — the session-level events act on the request table exactly as
  the connection operations `project` lists: a caller that gives up while parked changes nothing
  (its entry stays, nothing is handed back), one that gives up while waiting cancels its own
  future only.  Hence every theorem of `Props.lean` / `Cause.lean` applies to session histories.
-/
namespace Aiorpcx.C01
open List

variable {V : Type}

theorem sublist_flatten {α : Type} {l₁ l₂ : List (List α)} (h : l₁ <+ l₂) :
    l₁.flatten <+ l₂.flatten := by
  induction h with
  | slnil => exact Sublist.refl _
  | cons a _ ih => simp only [flatten_cons]; exact ih.trans (sublist_append_right a _)
  | cons_cons a _ ih => simp only [flatten_cons]; exact (Sublist.refl a).append ih

/-- the ids of the messages that reached the wire, then of those still parked, oldest first -/
def Sess.sentIds (s : Sess V) : List Nat := s.wire.flatten ++ s.queue.flatten

structure SInv (s : Sess V) : Prop where
  conn : Inv s.conn
  /-- in wire order (then parking order) the ids are strictly increasing -/
  incr : s.sentIds.Pairwise (· < ·)
  below : ∀ n ∈ s.sentIds, n < s.conn.next
  /-- callers are parked only while writing is paused -/
  idle : s.paused = false → s.queue = []

theorem SInv.init (p : Option Proto) (start : Nat) : SInv (Sess.init (V := V) p start) := by
  constructor
  · exact Inv.init p start
  · simp [Sess.init, Sess.sentIds]
  · simp [Sess.init, Sess.sentIds]
  · intro _; rfl

/-- a change of the connection that keeps the invariant and does not lower the counter -/
theorem SInv.with_conn {s : Sess V} (h : SInv s) {c' : Conn V} (hi : Inv c')
    (hn : s.conn.next ≤ c'.next) : SInv { s with conn := c' } :=
  ⟨hi, h.incr, fun n hn' => Nat.lt_of_lt_of_le (h.below n hn') hn, h.idle⟩

theorem hand_inv (vr : Variant) {k : Nat} (hk : 0 < k) {s : Sess V} (h : SInv s) (op : Op V)
    (ids : List Nat) (t : Option Nat) (hobs : (step vr k s.conn op).2 = .sent ids t) :
    SInv (s.hand (step vr k s.conn op).1 ids) := by
  have hi := step_inv vr hk h.conn op
  have hle := step_next_le vr k s.conn op
  obtain ⟨hpw, hb⟩ := step_sent_bounds vr hk s.conn op ids t hobs
  -- appending the fresh ids after everything sent so far keeps the order
  have happ : (s.sentIds ++ ids).Pairwise (· < ·) := by
    rw [pairwise_append]
    refine ⟨h.incr, hpw, ?_⟩
    intro a ha b hb'
    have := h.below a ha
    have := (hb b hb').1
    omega
  have hbelow : ∀ n ∈ s.sentIds ++ ids, n < (step vr k s.conn op).1.next := by
    intro n hn
    rcases mem_append.1 hn with hn | hn
    · have := h.below n hn; omega
    · exact (hb n hn).2
  unfold Sess.hand
  split
  · exact h.with_conn hi hle
  · split
    · rename_i hp
      refine ⟨hi, ?_, ?_, ?_⟩
      · simpa [Sess.sentIds, append_assoc] using happ
      · simpa [Sess.sentIds, append_assoc] using hbelow
      · intro hp'; simp only at hp'; rw [hp] at hp'; cases hp'
    · rename_i hp
      have hq : s.queue = [] := h.idle (by simpa using hp)
      refine ⟨hi, ?_, ?_, ?_⟩
      · simpa [Sess.sentIds, hq] using happ
      · simpa [Sess.sentIds, hq] using hbelow
      · intro _; exact hq

theorem sstep_inv (vr : Variant) {k : Nat} (hk : 0 < k) {s : Sess V} (h : SInv s) (op : SOp V) :
    SInv (sstep vr k s op) := by
  cases op with
  | call batch ok =>
    simp only [sstep]
    cases hobs : (step vr k s.conn (callOp batch ok)).2 with
    | sent ids t => exact hand_inv vr hk h _ ids t hobs
    | done _ => exact h.with_conn (step_inv vr hk h.conn _) (step_next_le vr k _ _)
    | raised _ => exact h.with_conn (step_inv vr hk h.conn _) (step_next_le vr k _ _)
    | cancelled _ => exact h.with_conn (step_inv vr hk h.conn _) (step_next_le vr k _ _)
  | pause =>
    simp only [sstep]
    split
    · exact h
    · exact ⟨h.conn, h.incr, h.below, fun hp => by simp at hp⟩
  | resume =>
    simp only [sstep]
    refine ⟨h.conn, ?_, ?_, fun _ => rfl⟩
    · simpa [Sess.sentIds] using h.incr
    · simpa [Sess.sentIds] using h.below
  | dropParked q =>
    simp only [sstep]
    have hsub : (s.wire.flatten ++ (s.queue.eraseIdx q).flatten) <+ s.sentIds :=
      (Sublist.refl _).append (sublist_flatten (eraseIdx_sublist s.queue q))
    refine ⟨h.conn, h.incr.sublist hsub, fun n hn => h.below n (hsub.subset hn), ?_⟩
    intro hp
    have : s.queue = [] := h.idle hp
    simp [this]
  | giveUp t => exact h.with_conn (step_inv vr hk h.conn _) (step_next_le vr k _ _)
  | recv op => exact h.with_conn (step_inv vr hk h.conn _) (step_next_le vr k _ _)
  | lost =>
    simp only [sstep]
    have hsub : (s.wire.flatten ++ ([] : List Parked).flatten) <+ s.sentIds := by
      simp [Sess.sentIds]
    refine ⟨step_inv vr hk h.conn _, h.incr.sublist hsub, ?_, fun _ => rfl⟩
    intro n hn
    have h1 := h.below n (hsub.subset hn)
    have h2 := step_next_le vr k s.conn (.cancelAll)
    show n < (step vr k s.conn .cancelAll).1.next
    omega

theorem srun_inv (vr : Variant) {k : Nat} (hk : 0 < k) (ops : List (SOp V)) {s : Sess V}
    (h : SInv s) : SInv (srun vr k s ops) := by
  induction ops generalizing s with
  | nil => exact h
  | cons op ops ih => exact ih (sstep_inv vr hk h op)

/-- **wire_ids_distinct.**  Along every session history — callers creating requests and batches,
    the send buffer filling up and draining, parked callers and waiting callers giving up at any
    point, messages from the peer, the connection lost — the ids of the requests that reach the
    wire are strictly increasing in wire order, so no id is ever on the wire twice: the ids
    outstanding at the same time are pairwise distinct, whoever gave up wherever. -/
theorem wire_ids_distinct (vr : Variant) {k : Nat} (hk : 0 < k) (p : Option Proto) (start : Nat)
    (ops : List (SOp V)) :
    let s := srun vr k (Sess.init p start) ops
    s.wire.flatten.Pairwise (· < ·) ∧ s.wire.flatten.Nodup ∧
      ∀ n ∈ s.wire.flatten, n < s.conn.next := by
  have h := srun_inv vr hk ops (SInv.init (V := V) p start)
  have hsub : (srun vr k (Sess.init p start) ops).wire.flatten <+
      (srun vr k (Sess.init p start) ops).sentIds := sublist_append_left _ _
  have hpw := h.incr.sublist hsub
  exact ⟨hpw, hpw.imp (fun h => Nat.ne_of_lt h), fun n hn => h.below n (hsub.subset hn)⟩

/-- non-vacuity (the history of seeded change C01-r2m3): the buffer is full, callers A and B
    create requests 0 and 1 and park, A is cancelled there, the buffer drains (B's request 1 is
    written), callers C and D get ids 2 and 3 — not 0 and 1 again. -/
example :
    (srun (repaired true true) 1 (Sess.init (V := Nat) (some .v2) 0)
      [.pause, .call none true, .call none true, .dropParked 0, .resume,
       .call none true, .call none true]).wire = [[1], [2], [3]] := by
  decide

theorem hand_conn (s : Sess V) (c' : Conn V) (ids : List Nat) : (s.hand c' ids).conn = c' := by
  unfold Sess.hand
  split
  · rfl
  · split <;> rfl

theorem sstep_conn (vr : Variant) (k : Nat) (s : Sess V) (op : SOp V) :
    (sstep vr k s op).conn = (run vr k s.conn (project op)).1 := by
  cases op with
  | call batch ok =>
    simp only [sstep, project, run]
    cases (step vr k s.conn (callOp batch ok)).2 with
    | sent ids t => exact hand_conn _ _ _
    | done _ => rfl
    | raised _ => rfl
    | cancelled _ => rfl
  | pause => simp only [sstep, project, run]; split <;> rfl
  | resume => rfl
  | dropParked q => rfl
  | giveUp t => rfl
  | recv op => rfl
  | lost => rfl

theorem run_append (vr : Variant) (k : Nat) (c : Conn V) (a b : List (Op V)) :
    (run vr k c (a ++ b)).1 = (run vr k (run vr k c a).1 b).1 := by
  induction a generalizing c with
  | nil => rfl
  | cons op a ih => simp only [cons_append, run]; exact ih _

/-- **session_is_connection_history.**  The request table after a session history is the table
    after the connection operations the history projects to: creating a request is
    `send_request` / `send_batch`, a caller giving up while it waits for the response cancels its
    own future (`extCancel`), a message from the peer is received, losing the connection is
    `cancel_pending_requests` — and a caller that gives up while parked in `write`, the buffer
    filling up and draining are no operations at all: nothing is removed, no id is handed back.
    So `ids_fresh`, `ids_never_reused`, `recv_single_exact`, `recv_batch_aligned`,
    `completes_causing_request`, … hold along session histories. -/
theorem session_is_connection_history (vr : Variant) (k : Nat) (ops : List (SOp V)) (s : Sess V) :
    (srun vr k s ops).conn = (run vr k s.conn (ops.flatMap project)).1 := by
  induction ops generalizing s with
  | nil => rfl
  | cons op ops ih =>
    simp only [srun, flatMap_cons]
    rw [ih, sstep_conn, run_append]

/-- **give_up_touches_own_ticket_only.**  Requests are identified by their ticket (the position
    of the future `send_request` / `send_batch` handed out), never by their value: the model's
    requests do not even carry a method or arguments, so any two of them are "equal requests".
    A caller giving up — awaiting its response (`giveUp t`) or parked in `write`
    (`dropParked q`) — removes no entry from the request table, draws and returns no id, and
    leaves the future of every other ticket exactly as it is; the only thing that changes is the
    future of ticket `t` itself (cancelled if it was pending).  A tree that, on a give-up,
    deletes "the entry whose request equals mine" (seeded change C01-r4m2) cannot satisfy this:
    the entry of an equal, earlier, still awaited request would go. -/
theorem give_up_touches_own_ticket_only (vr : Variant) (k : Nat) (s : Sess V) (t q : Nat) :
    (sstep vr k s (.giveUp t)).conn.out = s.conn.out ∧
    (sstep vr k s (.giveUp t)).conn.next = s.conn.next ∧
    (∀ u, u ≠ t → (sstep vr k s (.giveUp t)).conn.futs[u]? = s.conn.futs[u]?) ∧
    (sstep vr k s (.giveUp t)).conn.futs[t]? = s.conn.futs[t]?.map cancelFut ∧
    (sstep vr k s (.dropParked q)).conn = s.conn := by
  refine ⟨rfl, rfl, ?_, ?_, rfl⟩
  · intro u hu
    show (s.conn.futs.modify t cancelFut)[u]? = _
    rw [getElem?_modify]
    simp [Ne.symm hu]
  · show (s.conn.futs.modify t cancelFut)[t]? = _
    rw [getElem?_modify]
    simp

/-- non-vacuity (the history of seeded change C01-r4m2): two callers make the same request (ids
    0 and 1), the LATER one gives up, then the peer answers id 0 and id 1: ticket 0 completes with
    exactly the value sent under id 0, the late answer to id 1 is accepted too (its entry was
    still there) and changes nothing; the same with three callers, the middle one giving up
    while parked. -/
example :
    let r := fun (n : Int) (v : Nat) => (⟨some (.int n), true, .val v⟩ : RawResp Nat)
    (srun (repaired true true) 1 (Sess.init (V := Nat) (some .v2) 0)
      [.call none true, .call none true, .giveUp 1, .recv (.recvSingle .v2 (r 0 5)),
       .recv (.recvSingle .v2 (r 1 6))]).conn.futs = [.result 5, .cancelled] ∧
    (srun (repaired true true) 1 (Sess.init (V := Nat) (some .v2) 0)
      [.call none true, .call none true, .giveUp 1]).conn.out.map Prod.snd = [0, 1] ∧
    (srun (repaired true true) 1 (Sess.init (V := Nat) (some .v2) 0)
      [.pause, .call none true, .call none true, .call none true, .dropParked 1, .resume,
       .recv (.recvSingle .v2 (r 0 5)), .recv (.recvSingle .v2 (r 2 7))]).conn.futs
      = [.result 5, .pending, .result 7] := by
  decide

end Aiorpcx.C01
