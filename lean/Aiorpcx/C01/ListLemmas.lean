/-! C01 — list lemmas not in core (no Mathlib). -/
namespace Aiorpcx.C01
open List

theorem nodup_flatMap_iff {α β : Type} (f : α → List β) (l : List α) :
    (l.flatMap f).Nodup ↔
      (∀ x ∈ l, (f x).Nodup) ∧ l.Pairwise (fun a b => ∀ x ∈ f a, ∀ y ∈ f b, x ≠ y) := by
  induction l with
  | nil => simp
  | cons a l ih =>
    simp only [flatMap_cons, nodup_append, ih, mem_flatMap, pairwise_cons, mem_cons,
      forall_eq_or_imp]
    constructor
    · rintro ⟨h1, ⟨h2, h3⟩, h4⟩
      refine ⟨⟨h1, h2⟩, ?_, h3⟩
      intro b hb x hx y hy
      exact h4 x hx y ⟨b, hb, hy⟩
    · rintro ⟨⟨h1, h2⟩, h3, h4⟩
      refine ⟨h1, ⟨h2, h4⟩, ?_⟩
      rintro x hx y ⟨b, hb, hy⟩
      exact h3 b hb x hx y hy

theorem sublist_flatMap {α β : Type} (f : α → List β) {l₁ l₂ : List α} (h : l₁ <+ l₂) :
    l₁.flatMap f <+ l₂.flatMap f := by
  induction h with
  | slnil => simp
  | cons a _ ih => simpa using ih.trans (sublist_append_right _ _)
  | cons_cons a _ ih =>
    simp only [flatMap_cons]
    exact Sublist.append (Sublist.refl (f a)) ih

/-- if `e` is the only element of a duplicate-free list satisfying `p`, popping the first match
    is erasing `e` -/
theorem eraseP_eq_erase_of_unique {α : Type} [BEq α] [LawfulBEq α] (p : α → Bool) (e : α) :
    ∀ (l : List α), p e = true → (∀ x ∈ l, p x = true → x = e) → l.eraseP p = l.erase e
  | [], _, _ => by simp
  | a :: l, he, hu => by
    by_cases ha : p a = true
    · have : a = e := hu a (by simp) ha
      subst this
      simp [ha]
    · have hne : a ≠ e := fun h => ha (h ▸ he)
      have ih := eraseP_eq_erase_of_unique p e l he (fun x hx => hu x (by simp [hx]))
      simp only [eraseP_cons, ha, cond_false, ih]
      rw [erase_cons_tail (by simpa using hne)]

theorem find?_eq_some_of_unique {α : Type} (p : α → Bool) (e : α) :
    ∀ (l : List α), e ∈ l → p e = true → (∀ x ∈ l, p x = true → x = e) → l.find? p = some e
  | [], h, _, _ => by simp at h
  | a :: l, hm, he, hu => by
    by_cases ha : p a = true
    · have : a = e := hu a (by simp) ha
      subst this
      simp [ha]
    · have hne : a ≠ e := fun h => ha (h ▸ he)
      have hm' : e ∈ l := by
        rcases mem_cons.1 hm with h | h
        · exact absurd h.symm hne
        · exact h
      have ih := find?_eq_some_of_unique p e l hm' he (fun x hx => hu x (by simp [hx]))
      simp only [find?_cons]
      have : p a = false := by simpa using ha
      rw [this]; exact ih

/-- popping with two predicates that no element satisfies together commutes -/
theorem eraseP_comm {α : Type} (p q : α → Bool) :
    ∀ (l : List α), (∀ x ∈ l, ¬ (p x = true ∧ q x = true)) →
      (l.eraseP p).eraseP q = (l.eraseP q).eraseP p
  | [], _ => by simp
  | a :: l, h => by
    have ih := eraseP_comm p q l (fun x hx => h x (by simp [hx]))
    have ha := h a (by simp)
    by_cases hp : p a = true
    · have hq : q a = false := by
        cases hqa : q a with
        | false => rfl
        | true => exact absurd ⟨hp, hqa⟩ ha
      simp [hp, hq]
    · have hp' : p a = false := by simpa using hp
      by_cases hq : q a = true
      · simp [hp', hq]
      · have hq' : q a = false := by simpa using hq
        simp [hp', hq', ih]

theorem find?_eraseP_of_disjoint {α : Type} (p q : α → Bool) :
    ∀ (l : List α), (∀ x ∈ l, ¬ (p x = true ∧ q x = true)) →
      (l.eraseP p).find? q = l.find? q
  | [], _ => by simp
  | a :: l, h => by
    have ih := find?_eraseP_of_disjoint p q l (fun x hx => h x (by simp [hx]))
    have ha := h a (by simp)
    by_cases hp : p a = true
    · have hq : q a = false := by
        cases hqa : q a with
        | false => rfl
        | true => exact absurd ⟨hp, hqa⟩ ha
      simp [hp, hq]
    · have hp' : p a = false := by simpa using hp
      simp only [eraseP_cons, hp', cond_false, find?_cons, ih]

/-- popping the first match erases (the first occurrence of) the element `find?` returns -/
theorem eraseP_eq_erase_of_find {α : Type} [BEq α] [LawfulBEq α] (p : α → Bool) (x : α) :
    ∀ (l : List α), l.find? p = some x → l.eraseP p = l.erase x
  | [], h => by simp at h
  | a :: l, h => by
    have hpx := find?_some h
    simp only [find?_cons] at h
    by_cases hpa : p a = true
    · simp only [hpa, Option.some.injEq] at h
      subst h
      simp [hpa]
    · have hpa' : p a = false := by simpa using hpa
      simp only [hpa'] at h
      have hne : a ≠ x := fun h' => hpa (h' ▸ hpx)
      rw [eraseP_cons, hpa', cond_false, erase_cons_tail (by simpa using hne),
        eraseP_eq_erase_of_find p x l h]

theorem nodup_of_nodup_map {α β : Type} (f : α → β) {l : List α} (h : (l.map f).Nodup) :
    l.Nodup := by
  unfold Nodup at *
  rw [pairwise_map] at h
  exact h.imp (fun {a b} hab hEq => hab (by rw [hEq]))

theorem map_inj_of_injective {α β : Type} (f : α → β) (hf : ∀ a b, f a = f b → a = b) :
    ∀ (l₁ l₂ : List α), l₁.map f = l₂.map f → l₁ = l₂
  | [], [], _ => rfl
  | [], _ :: _, h => by simp at h
  | _ :: _, [], h => by simp at h
  | a :: l₁, b :: l₂, h => by
    simp only [map_cons, cons.injEq] at h
    rw [hf a b h.1, map_inj_of_injective f hf l₁ l₂ h.2]

end Aiorpcx.C01
