import Aiorpcx.Common.Hex
import Aiorpcx.C01.Model
import Aiorpcx.C01.Sess
import Aiorpcx.Facts.C01
/-! Line-protocol driver for the C01 model: one history per line.

    in : `<variant>:<proto>[:<start>] <op> <op> ...`
         variant `R` (repaired, F07 applied) | `P` (pinned); the F4/F5 guards and the step of the
         id counter come from the generated facts; `<start>` is the first id of the history as the
         harness decoded it from the bytes the connection handed out (the facts' value if absent).
         proto `v1|v2|loose|auto`.
         ops: `S1|S0` send_request ok/raising · `B<r|n>*:<0|1>` send_batch · `R<d>:<resp>` single
         response · `L<d>:<resp>,<resp>..` response batch · `O<d>` other message · `C` cancel all ·
         `X<t>` external cancel of ticket t.   `<d>` = `1|2|L` (what detect_protocol answers).
         resp = `<id>/<wf>/<res>`; id = `i<int>` `h<int>` (float n/2) `bT` `bF` `s<cp>.<cp>..` `n`
         `u<tag>` `-` (absent); wf = `0|1`; res = `v<nat>` | `e<nat>`.
    out: one token per op (`s<ids>/<ticket>` `d<tickets>` `!P` `!T` `c<tickets>`), then
         `#<pending> <fut>,<fut>..` with fut = `p` `r<v>` `e<v>` `P` `c` `b[<res>;..]`.

    Session histories (`Sess.lean`): variant `W`; the same op tokens mean: `S`/`B` a caller makes
    the call, `X<t>` a caller awaiting its response gives up, `C` the connection is lost,
    `R`/`L`/`O` a message from the peer; in addition `P` send buffer full, `U` drained,
    `D<q>` the q-th parked caller gives up.  out: `#<pending> <futs> w<ids>;<ids>;..` - the ids of
    the messages on the wire, in wire order. -/
open Aiorpcx Aiorpcx.C01

def parseProto (s : String) : Option Proto :=
  if s == "1" || s == "v1" then some .v1
  else if s == "2" || s == "v2" then some .v2
  else if s == "L" || s == "loose" then some .loose
  else none

def parseId (s : String) : Option (Option Id) :=
  if s == "-" then some none
  else if s == "n" then some (some .null)
  else if s == "bT" then some (some (.bool true))
  else if s == "bF" then some (some (.bool false))
  else
    let rest := (s.drop 1).toString
    match s.front with
    | 'i' => rest.toInt?.map fun n => some (.int n)
    | 'h' => rest.toInt?.map fun n => some (.half n)
    | 'u' => rest.toNat?.map fun n => some (.unhashable n)
    | 's' =>
        if rest == "" then some (some (.str []))
        else ((rest.splitOn ".").mapM String.toNat?).map fun cps => some (.str cps)
    | _ => none

def parseRes (s : String) : Option (Res Nat) :=
  let rest := (s.drop 1).toString
  match s.front with
  | 'v' => rest.toNat?.map .val
  | 'e' => rest.toNat?.map .err
  | _ => none

def parseResp (s : String) : Option (RawResp Nat) :=
  match s.splitOn "/" with
  | [i, w, r] =>
      match parseId i, parseRes r with
      | some id, some res =>
          if w == "1" then some ⟨id, true, res⟩
          else if w == "0" then some ⟨id, false, res⟩ else none
      | _, _ => none
  | _ => none

def parseMembers (s : String) : Option (List Member) :=
  s.toList.mapM fun c => if c == 'r' then some Member.req else if c == 'n' then some .notif else none

def parseBool (s : String) : Option Bool :=
  if s == "1" then some true else if s == "0" then some false else none

def parseOp (s : String) : Option (Op Nat) :=
  let rest := (s.drop 1).toString
  match s.front with
  | 'S' => (parseBool rest).map .sendRequest
  | 'B' =>
      match rest.splitOn ":" with
      | [ms, ok] =>
          match parseMembers ms, parseBool ok with
          | some m, some o => some (.sendBatch m o)
          | _, _ => none
      | _ => none
  | 'R' =>
      match rest.splitOn ":" with
      | [d, r] =>
          match parseProto d, parseResp r with
          | some p, some m => some (.recvSingle p m)
          | _, _ => none
      | _ => none
  | 'L' =>
      match rest.splitOn ":" with
      | [d, rs] =>
          match parseProto d with
          | some p =>
              if rs == "" then some (.recvBatch p [])
              else ((rs.splitOn ",").mapM parseResp).map (.recvBatch p)
          | none => none
      | _ => none
  | 'O' => (parseProto rest).map .recvOther
  | 'C' => if rest == "" then some .cancelAll else none
  | 'X' => rest.toNat?.map .extCancel
  | _ => none

def showNats (l : List Nat) : String := String.intercalate "," (l.map toString)

def showObs : Obs → String
  | .sent ids t => "s" ++ showNats ids ++ "/" ++ (match t with | some t => toString t | none => "-")
  | .done ts => "d" ++ showNats ts
  | .raised .protocolError => "!P"
  | .raised .typeError => "!T"
  | .cancelled ts => "c" ++ showNats ts

def showRes : Res Nat → String
  | .val v => "v" ++ toString v
  | .err e => "e" ++ toString e

def showFut : Fut Nat → String
  | .pending => "p"
  | .result v => "r" ++ toString v
  | .rpcError e => "e" ++ toString e
  | .protoError => "P"
  | .cancelled => "c"
  | .batch rs => "b[" ++ String.intercalate ";" (rs.map showRes) ++ "]"

/-- the variant the generated facts describe (`rejectBool = false`: the tree before F07) -/
def factsVariant (rejectBool : Bool) : Variant :=
  { rejectBool := rejectBool, lookupGuard := Facts.C01.lookupGuarded,
    sortGuard := Facts.C01.sortGuarded, failDrawsSingle := Facts.C01.failDrawsSingle,
    failDrawsBatch := Facts.C01.failDrawsBatch }

def handle (line : String) : String :=
  match (line.splitOn " ").filter (· ≠ "") with
  | hd :: ops =>
    let parts := hd.splitOn ":"
    -- the first id of the history, as the harness read it from the wire (default: the facts')
    let start? : Option Nat :=
      match parts with
      | [_, _] => some Facts.C01.idStart
      | [_, _, s] => s.toNat?
      | _ => none
    match parts.take 2, start? with
    | [v, p], some start =>
      let vr? : Option Variant :=
        if v == "R" then some (factsVariant true)
        else if v == "P" then some (factsVariant false)
        else none
      let proto? : Option (Option Proto) :=
        if p == "auto" then some none else (parseProto p).map some
      match vr?, proto?, ops.mapM parseOp with
      | some vr, some proto, some ops =>
          let r := run vr Facts.C01.idStep (Conn.init proto start) ops
          String.intercalate " " (r.2.map showObs ++
            ["#" ++ toString r.1.pendingCount,
             if r.1.futs.isEmpty then "." else String.intercalate "," (r.1.futs.map showFut)])
      | _, _, _ => "bad-op"
    | _, _ => "bad-op"
  | _ => "bad-op"

def parseSOp (s : String) : Option (SOp Nat) :=
  let rest := (s.drop 1).toString
  match s.front with
  | 'P' => if rest == "" then some .pause else none
  | 'U' => if rest == "" then some .resume else none
  | 'D' => rest.toNat?.map .dropParked
  | _ =>
    match parseOp s with
    | some (.sendRequest ok) => some (.call none ok)
    | some (.sendBatch ms ok) => some (.call (some ms) ok)
    | some (.extCancel t) => some (.giveUp t)
    | some .cancelAll => some .lost
    | some op => some (.recv op)
    | none => none

def handleSess (line : String) : String :=
  match (line.splitOn " ").filter (· ≠ "") with
  | hd :: ops =>
    match hd.splitOn ":" with
    | [_, p, st] =>
      let proto? : Option (Option Proto) :=
        if p == "auto" then some none else (parseProto p).map some
      match proto?, st.toNat?, ops.mapM parseSOp with
      | some proto, some start, some ops =>
          let vr := factsVariant true
          let s := srun vr Facts.C01.idStep (Sess.init proto start) ops
          String.intercalate " "
            ["#" ++ toString s.conn.pendingCount,
             if s.conn.futs.isEmpty then "." else String.intercalate "," (s.conn.futs.map showFut),
             "w" ++ String.intercalate ";" (s.wire.map showNats)]
      | _, _, _ => "bad-op"
    | _ => "bad-op"
  | _ => "bad-op"

def dispatch (line : String) : String :=
  if line.startsWith "W:" then handleSess line else handle line

def main : IO Unit := Hex.lineLoop dispatch
