import Aiorpcx.C01.Recv
/-! C01 — receiving responses that address different requests commutes. -/
namespace Aiorpcx.C01
open List

variable {V : Type}

/-- what a received response / response batch amounts to once the protocol is settled:
    a rejection, or "pop the entry this predicate selects and settle its future with `f`" -/
inductive Act (V : Type) where
  | reject (e : PyExc)
  | single (i : Id) (f : Fut V)
  | batch (ids : List Id) (f : Fut V)

def Act.pred : Act V → Key × Nat → Bool
  | .reject _ => fun _ => false
  | .single i _ => matchSingle i
  | .batch ids _ => matchBatch ids

def applyAct (c : Conn V) : Act V → Conn V × Obs
  | .reject e => (c, .raised e)
  | .single i f => complete c (matchSingle i) f
  | .batch ids f => complete c (matchBatch ids) f

/-- the request(s) an action can address, as numbers: `none` if it can address nothing -/
def Act.sig : Act V → Option (Bool × List (Option Int))
  | .reject _ => none
  | .single i _ => some (false, [i.num2])
  | .batch ids _ => some (true, ids.map Id.num2)

def respAct (vr : Variant) (i : Id) (b : Body V) : Act V :=
  if vr.rejectBool && i.isBool then .reject .protocolError
  else if i.isUnhashable then .reject (if vr.lookupGuard then .protocolError else .typeError)
  else .single i (settle b)

def batchAct (vr : Variant) (items : List (Id × Body V)) : Act V :=
  if items.isEmpty then .reject .protocolError
  else if items.any (·.2.isMalformed) then .reject .protocolError
  else
    match pySorted (okPairs items) with
    | .error _ => .reject (if vr.sortGuard then .protocolError else .typeError)
    | .ok ordered =>
        if ordered.any (·.1.isUnhashable) then
          .reject (if vr.lookupGuard then .protocolError else .typeError)
        else .batch (ordered.map Prod.fst) (.batch (ordered.map Prod.snd))

/-- the action of a receive operation under protocol `p` (no-op for anything else) -/
def actOf (vr : Variant) (p : Proto) : Op V → Act V
  | .recvSingle _ m => respAct vr (processResponse vr p m).1 (processResponse vr p m).2
  | .recvBatch _ ms =>
      if !p.allowBatches then .reject .protocolError
      else batchAct vr (ms.map (processResponse vr p))
  | _ => .reject .protocolError

def isRecv : Op V → Bool
  | .recvSingle _ _ => true
  | .recvBatch _ _ => true
  | _ => false

theorem recvResponse_eq_act (vr : Variant) (c : Conn V) (i : Id) (b : Body V) :
    recvResponse vr c i b = applyAct c (respAct vr i b) := by
  unfold recvResponse respAct
  split
  · rfl
  · split <;> rfl

theorem recvResponseBatch_eq_act (vr : Variant) (c : Conn V) (items : List (Id × Body V)) :
    recvResponseBatch vr c items = applyAct c (batchAct vr items) := by
  unfold recvResponseBatch batchAct
  by_cases h1 : items.isEmpty = true
  · simp [h1, applyAct]
  · by_cases h2 : items.any (·.2.isMalformed) = true
    · simp [h1, h2, applyAct]
    · cases hs : pySorted (okPairs items) with
      | error e => simp [h1, h2, applyAct]
      | ok ordered =>
        by_cases h3 : ordered.any (·.1.isUnhashable) = true <;> simp [h1, h2, h3, applyAct]

theorem settled_eq {c : Conn V} {p : Proto} (hp : c.proto = some p) (d : Proto) :
    c.settled d = c ∧ c.detect d = p := by
  cases c
  simp_all [Conn.settled, Conn.detect]

/-- with the protocol settled, a receive is its action -/
theorem step_eq_act (vr : Variant) (k : Nat) {c : Conn V} {p : Proto} (hp : c.proto = some p)
    (op : Op V) (hr : isRecv op = true) : step vr k c op = applyAct c (actOf vr p op) := by
  cases op with
  | recvSingle d m =>
    rw [step_recvSingle, (settled_eq hp d).1, (settled_eq hp d).2, recvResponse_eq_act]; rfl
  | recvBatch d ms =>
    rw [step_recvBatch, (settled_eq hp d).1, (settled_eq hp d).2]
    simp only [actOf]
    split
    · rfl
    · exact recvResponseBatch_eq_act _ _ _
  | sendRequest _ => cases hr
  | sendBatch _ _ => cases hr
  | recvOther _ => cases hr
  | cancelAll => cases hr
  | extCancel _ => cases hr

theorem applyAct_proto (c : Conn V) (a : Act V) : (applyAct c a).1.proto = c.proto := by
  cases a <;> simp only [applyAct, complete] <;> repeat' split
  all_goals rfl

theorem applyAct_inv {c : Conn V} (h : Inv c) (a : Act V) : Inv (applyAct c a).1 := by
  cases a with
  | reject e => exact h
  | single i f => exact complete_inv h _ _
  | batch ids f => exact complete_inv h _ _

/-- actions with different signatures cannot select the same entry -/
theorem pred_disjoint (a b : Act V) (h : a.sig ≠ b.sig) :
    ∀ x : Key × Nat, ¬ (a.pred x = true ∧ b.pred x = true) := by
  rintro ⟨key, t⟩ ⟨ha, hb⟩
  cases a with
  | reject e => simp [Act.pred] at ha
  | single i f =>
    cases b with
    | reject e => simp [Act.pred] at hb
    | single j g =>
      cases key with
      | batch ns => simp [Act.pred, matchSingle] at ha
      | single n =>
        simp only [Act.pred, matchSingle, pyEq_int_iff] at ha hb
        exact h (by simp [Act.sig, ha, hb])
    | batch ids g =>
      cases key with
      | batch ns => simp [Act.pred, matchSingle] at ha
      | single n => simp [Act.pred, matchBatch] at hb
  | batch ids f =>
    cases b with
    | reject e => simp [Act.pred] at hb
    | single j g =>
      cases key with
      | batch ns => simp [Act.pred, matchSingle] at hb
      | single n => simp [Act.pred, matchBatch] at ha
    | batch ids' g =>
      cases key with
      | single n => simp [Act.pred, matchBatch] at ha
      | batch ns =>
        simp only [Act.pred, matchBatch, tupleEq_iff] at ha hb
        exact h (by simp [Act.sig, ha, hb])

theorem applyAct_eq_complete (c : Conn V) (a : Act V) (ha : a.sig ≠ none) :
    ∃ f, applyAct c a = complete c a.pred f := by
  cases a with
  | reject e => simp [Act.sig] at ha
  | single i f => exact ⟨f, rfl⟩
  | batch ids f => exact ⟨f, rfl⟩

theorem Conn.ext' {a b : Conn V} (h1 : a.proto = b.proto) (h2 : a.next = b.next)
    (h3 : a.out = b.out) (h4 : a.futs = b.futs) : a = b := by
  cases a; cases b; simp_all

/-- settle the future of the selected entry, if any and if still pending -/
def setIf (futs : List (Fut V)) (e : Option (Key × Nat)) (f : Fut V) : List (Fut V) :=
  match e with
  | some e => if isPending futs e.2 then futs.set e.2 f else futs
  | none => futs

def obsIf (futs : List (Fut V)) (e : Option (Key × Nat)) : Obs :=
  match e with
  | some e => if isPending futs e.2 then .done [e.2] else .done []
  | none => .raised .protocolError

theorem isPending_set_ne (futs : List (Fut V)) (t t' : Nat) (f : Fut V) (h : t ≠ t') :
    isPending (futs.set t f) t' = isPending futs t' := by
  simp [isPending, h]

theorem complete_proto_next (c : Conn V) (p : Key × Nat → Bool) (f : Fut V) :
    (complete c p f).1.proto = c.proto ∧ (complete c p f).1.next = c.next := by
  unfold complete
  split
  · exact ⟨rfl, rfl⟩
  · split <;> exact ⟨rfl, rfl⟩

theorem complete_out (c : Conn V) (p : Key × Nat → Bool) (f : Fut V) :
    (complete c p f).1.out = c.out.eraseP p := by
  unfold complete
  split
  · rename_i h
    exact (eraseP_of_forall_not (by intro a ha; exact (find?_eq_none.1 h) a ha)).symm
  · split <;> rfl

theorem complete_futs (c : Conn V) (p : Key × Nat → Bool) (f : Fut V) :
    (complete c p f).1.futs = setIf c.futs (c.out.find? p) f := by
  unfold complete
  split
  · rename_i h; rw [h]; rfl
  · rename_i e h
    rw [h]
    simp only [setIf]
    split <;> rfl

theorem complete_obs (c : Conn V) (p : Key × Nat → Bool) (f : Fut V) :
    (complete c p f).2 = obsIf c.futs (c.out.find? p) := by
  unfold complete
  split
  · rename_i h; rw [h]; rfl
  · rename_i e h
    rw [h]
    simp only [obsIf]
    split <;> rfl

theorem complete_fields (c : Conn V) (p : Key × Nat → Bool) (f : Fut V) :
    (complete c p f).1.proto = c.proto ∧ (complete c p f).1.next = c.next ∧
    (complete c p f).1.out = c.out.eraseP p ∧
    (complete c p f).1.futs = setIf c.futs (c.out.find? p) f ∧
    (complete c p f).2 = obsIf c.futs (c.out.find? p) :=
  ⟨(complete_proto_next c p f).1, (complete_proto_next c p f).2, complete_out c p f,
    complete_futs c p f, complete_obs c p f⟩

theorem setIf_comm (futs : List (Fut V)) (e1 e2 : Key × Nat) (f g : Fut V) (hne : e1.2 ≠ e2.2) :
    setIf (setIf futs (some e1) f) (some e2) g = setIf (setIf futs (some e2) g) (some e1) f := by
  simp only [setIf]
  by_cases h1 : isPending futs e1.2 = true <;> by_cases h2 : isPending futs e2.2 = true <;>
    simp [h1, h2, isPending_set_ne, hne, Ne.symm hne, List.set_comm _ _ hne]

theorem obsIf_setIf (futs : List (Fut V)) (e1 e2 : Key × Nat) (f : Fut V) (hne : e1.2 ≠ e2.2) :
    obsIf (setIf futs (some e1) f) (some e2) = obsIf futs (some e2) := by
  simp only [setIf, obsIf]
  by_cases h1 : isPending futs e1.2 = true <;> simp [h1, isPending_set_ne, hne]

/-- two `complete`s whose predicates are disjoint commute (state and both observations) -/
theorem complete_comm {c : Conn V} (hinv : Inv c) (p q : Key × Nat → Bool) (f g : Fut V)
    (hd : ∀ x : Key × Nat, ¬ (p x = true ∧ q x = true)) :
    (complete (complete c p f).1 q g).1 = (complete (complete c q g).1 p f).1 ∧
    (complete (complete c p f).1 q g).2 = (complete c q g).2 ∧
    (complete (complete c q g).1 p f).2 = (complete c p f).2 := by
  have hd' : ∀ x ∈ c.out, ¬ (p x = true ∧ q x = true) := fun x _ => hd x
  have hd'' : ∀ x ∈ c.out, ¬ (q x = true ∧ p x = true) := fun x _ h => hd x ⟨h.2, h.1⟩
  have hfq : (c.out.eraseP p).find? q = c.out.find? q := find?_eraseP_of_disjoint p q _ hd'
  have hfp : (c.out.eraseP q).find? p = c.out.find? p := find?_eraseP_of_disjoint q p _ hd''
  have hcomm := eraseP_comm p q c.out hd'
  obtain ⟨p1, p2, p3, p4, p5⟩ := complete_fields c p f
  obtain ⟨q1, q2, q3, q4, q5⟩ := complete_fields c q g
  obtain ⟨a1, a2, a3, a4, a5⟩ := complete_fields (complete c p f).1 q g
  obtain ⟨b1, b2, b3, b4, b5⟩ := complete_fields (complete c q g).1 p f
  rw [p3, hfq, p4] at a4 a5
  rw [q3, hfp, q4] at b4 b5
  -- the two selected entries (if both exist) have different tickets
  have ht : ∀ e1 e2, c.out.find? p = some e1 → c.out.find? q = some e2 → e1.2 ≠ e2.2 := by
    intro e1 e2 hp hq
    have hm1 : e1 ∈ c.out := mem_of_find?_eq_some hp
    have hm2 : e2 ∈ c.out := mem_of_find?_eq_some hq
    have hne : e1 ≠ e2 := by
      intro h; subst h
      exact hd e1 ⟨find?_some hp, find?_some hq⟩
    have hinj := hinv.tickets_nodup
    rw [Nodup, pairwise_map] at hinj
    exact pairwise_of_mem_ne (R := fun a b : Key × Nat => a.2 ≠ b.2)
      (fun a b h => h.symm) hinj hm1 hm2 hne
  refine ⟨Conn.ext' (by rw [a1, p1, b1, q1]) (by rw [a2, p2, b2, q2])
    (by rw [a3, p3, b3, q3, hcomm]) ?_, ?_, ?_⟩
  · rw [a4, b4]
    cases hp : c.out.find? p with
    | none => rfl
    | some e1 =>
      cases hq : c.out.find? q with
      | none => rfl
      | some e2 => exact setIf_comm _ _ _ _ _ (ht e1 e2 hp hq)
  · rw [a5, q5]
    cases hp : c.out.find? p with
    | none => rfl
    | some e1 =>
      cases hq : c.out.find? q with
      | none => rfl
      | some e2 => exact obsIf_setIf _ _ _ _ (ht e1 e2 hp hq)
  · rw [b5, p5]
    cases hq : c.out.find? q with
    | none => rfl
    | some e2 =>
      cases hp : c.out.find? p with
      | none => rfl
      | some e1 => exact obsIf_setIf _ _ _ _ (Ne.symm (ht e1 e2 hp hq))

/-- two actions may be swapped: they are the same action, or one of them can address nothing,
    or they address different requests -/
def Compatible (a b : Act V) : Prop := a = b ∨ a.sig = none ∨ b.sig = none ∨ a.sig ≠ b.sig

theorem applyAct_reject_of_sig_none (c : Conn V) (a : Act V) (h : a.sig = none) :
    (applyAct c a).1 = c := by
  cases a with
  | reject e => rfl
  | single i f => simp [Act.sig] at h
  | batch ids f => simp [Act.sig] at h

theorem applyAct_comm {c : Conn V} (hinv : Inv c) (a b : Act V) (h : Compatible a b) :
    (applyAct (applyAct c a).1 b).1 = (applyAct (applyAct c b).1 a).1 := by
  rcases h with rfl | h | h | h
  · rfl
  · rw [applyAct_reject_of_sig_none c a h, applyAct_reject_of_sig_none _ a h]
  · rw [applyAct_reject_of_sig_none c b h, applyAct_reject_of_sig_none _ b h]
  · by_cases ha : a.sig = none
    · rw [applyAct_reject_of_sig_none c a ha, applyAct_reject_of_sig_none _ a ha]
    · by_cases hb : b.sig = none
      · rw [applyAct_reject_of_sig_none c b hb, applyAct_reject_of_sig_none _ b hb]
      · have hd := pred_disjoint a b h
        cases a with
        | reject e => exact absurd rfl ha
        | single i f =>
          cases b with
          | reject e => exact absurd rfl hb
          | single j g => exact (complete_comm hinv _ _ f g hd).1
          | batch js g => exact (complete_comm hinv _ _ f g hd).1
        | batch is f =>
          cases b with
          | reject e => exact absurd rfl hb
          | single j g => exact (complete_comm hinv _ _ f g hd).1
          | batch js g => exact (complete_comm hinv _ _ f g hd).1

/-- apply a stream of response actions -/
def runActs (c : Conn V) (acts : List (Act V)) : Conn V :=
  acts.foldl (fun c a => (applyAct c a).1) c

theorem runActs_inv {c : Conn V} (h : Inv c) (acts : List (Act V)) : Inv (runActs c acts) := by
  induction acts generalizing c with
  | nil => exact h
  | cons a as ih => exact ih (applyAct_inv h a)

/-- a stream of pairwise compatible actions can be applied in any order -/
theorem runActs_perm {c : Conn V} (hinv : Inv c) {l₁ l₂ : List (Act V)} (hp : l₁ ~ l₂)
    (hc : l₁.Pairwise Compatible) : runActs c l₁ = runActs c l₂ := by
  -- fold over the subtype of states satisfying the invariant
  let f : {c : Conn V // Inv c} → Act V → {c : Conn V // Inv c} :=
    fun z a => ⟨(applyAct z.1 a).1, applyAct_inv z.2 a⟩
  have hval : ∀ (l : List (Act V)) (z : {c : Conn V // Inv c}),
      (l.foldl f z).1 = runActs z.1 l := by
    intro l
    induction l with
    | nil => intro z; rfl
    | cons a as ih => intro z; simp only [foldl_cons, runActs]; exact ih (f z a)
  have hall : ∀ x ∈ l₁, ∀ y ∈ l₁, Compatible x y := by
    intro x hx y hy
    by_cases hxy : x = y
    · exact Or.inl hxy
    · exact pairwise_of_mem_ne (R := Compatible) (by
        rintro a b (h | h | h | h)
        · exact Or.inl h.symm
        · exact Or.inr (Or.inr (Or.inl h))
        · exact Or.inr (Or.inl h)
        · exact Or.inr (Or.inr (Or.inr (Ne.symm h)))) hc hx hy hxy
  have := Perm.foldl_eq' (f := f) hp (by
    intro x hx y hy z
    exact Subtype.ext (applyAct_comm z.2 x y (hall x hx y hy))) ⟨c, hinv⟩
  have h2 := congrArg Subtype.val this
  rwa [hval, hval] at h2

/-- with the protocol settled, a history of receives is the stream of its actions -/
theorem run_eq_runActs (vr : Variant) (k : Nat) (p : Proto) (ops : List (Op V))
    (hr : ∀ op ∈ ops, isRecv op = true) {c : Conn V} (hp : c.proto = some p) :
    (run vr k c ops).1 = runActs c (ops.map (actOf vr p)) := by
  induction ops generalizing c with
  | nil => rfl
  | cons op ops ih =>
    simp only [run, map_cons, runActs, foldl_cons]
    rw [step_eq_act vr k hp op (hr op (by simp))]
    exact ih (fun o ho => hr o (by simp [ho])) (by rw [applyAct_proto]; exact hp)

end Aiorpcx.C01
