import Aiorpcx.C17.Tables
import Aiorpcx.Facts.C17
/-! C17 — the decision tables regenerated from the source tree on every run
    (`tools/facts/c17.py`: what the *real* protocol objects do for every value 0..255 of every
    decision byte) are exactly what the model does.  Closed by kernel evaluation: if an edit of
    `socks.py` changes the reaction to any value of any decision byte, one of these stops
    compiling.  Part 2: two faults in one RFC 1928 reply. -/
namespace Aiorpcx.C17
open Aiorpcx.Socks

set_option maxRecDepth 100000 in
/-- RFC 1928 reply with two faults: which check wins.  A malformed VER / RSV / ATYP beats a
    refusal code (SOCKSProtocolError, not SOCKSFailure), whatever the value of the other byte. -/
theorem facts_table_reply_double :
    Facts.C17.s5ConnVerRefused = table cfg5n (fun b => [5, 0, b, 1, 0, 1, 9, 9, 9, 9, 0, 80, 7]) ∧
    Facts.C17.s5ConnRsvRefused = table cfg5n (fun b => [5, 0, 5, 1, b, 1, 9, 9, 9, 9, 0, 80, 7]) ∧
    Facts.C17.s5ConnAtypRefused =
      table cfg5n (fun b => [5, 0, 5, 1, 0, b, 2] ++ List.replicate 20 9) ∧
    Facts.C17.s5ConnRepVerBad = table cfg5n (fun b => [5, 0, 4, b, 0, 1, 9, 9, 9, 9, 0, 80, 7]) ∧
    Facts.C17.s5ConnRepRsvBad = table cfg5n (fun b => [5, 0, 5, b, 1, 1, 9, 9, 9, 9, 0, 80, 7]) ∧
    Facts.C17.s5ConnRepAtypBad =
      table cfg5n (fun b => [5, 0, 5, b, 0, 9, 2] ++ List.replicate 20 9) ∧
    Facts.C17.s5ConnVerRsvBad = table cfg5n (fun b => [5, 0, b, 0, 1, 1, 9, 9, 9, 9, 0, 80, 7]) := by
  refine ⟨?_, ?_, ?_, ?_, ?_, ?_, ?_⟩ <;> decide +kernel

end Aiorpcx.C17
