import Aiorpcx.C17.Tables
import Aiorpcx.Facts.C17
/-! C17 — the decision tables regenerated from the source tree on every run
    (`tools/facts/c17.py`: what the *real* protocol objects do for every value 0..255 of every
    decision byte) are exactly what the model does.  Closed by kernel evaluation: if an edit of
    `socks.py` changes the reaction to any value of any decision byte, one of these stops
    compiling.  Part 1: one decision byte at a time. -/
namespace Aiorpcx.C17
open Aiorpcx.Socks

/-- the extractor's client configurations are the ones used here -/
theorem facts_cfgs :
    mkCfg .socks4 (.ipv4 (vec4 1 2 3 4)) 80 none = .ok cfg4 ∧
    mkCfg .socks5 (.ipv4 (vec4 1 2 3 4)) 80 none = .ok cfg5n ∧
    mkCfg .socks5 (.ipv4 (vec4 1 2 3 4)) 80 (some ([117], [112])) = .ok cfg5a := by decide

set_option maxRecDepth 100000 in
/-- SOCKS4 reply: every value of VN and of CD; and with a second fault (VN with a refusing CD,
    CD with a bad VN: the version check wins) -/
theorem facts_table_socks4 :
    Facts.C17.s4Vn = table cfg4 (fun b => [b, 90, 0, 0, 0, 0, 0, 0, 7]) ∧
    Facts.C17.s4Cd = table cfg4 (fun b => [0, b, 1, 2, 3, 4, 5, 6, 7]) ∧
    Facts.C17.s4VnRefused = table cfg4 (fun b => [b, 91, 0, 0, 0, 0, 0, 0, 7]) ∧
    Facts.C17.s4CdVnBad = table cfg4 (fun b => [1, b, 0, 0, 0, 0, 0, 0, 7]) := by
  refine ⟨?_, ?_, ?_, ?_⟩ <;> decide +kernel

set_option maxRecDepth 100000 in
/-- RFC 1928 method selection: every value of VER and of METHOD, with and without credentials;
    VER with a refusing METHOD, METHOD with a bad VER -/
theorem facts_table_method :
    Facts.C17.s5Ver = table cfg5n (fun b => [b, 0] ++ ok5 ++ [7]) ∧
    Facts.C17.s5MethodNoAuth = table cfg5n (fun b => [5, b] ++ ok5 ++ [7]) ∧
    Facts.C17.s5MethodAuth = table cfg5a (fun b => [5, b] ++ ok5 ++ [7]) ∧
    Facts.C17.s5VerMethodBad = table cfg5n (fun b => [b, 255] ++ ok5 ++ [7]) ∧
    Facts.C17.s5MethodVerBad = table cfg5a (fun b => [4, b] ++ ok5 ++ [7]) := by
  refine ⟨?_, ?_, ?_, ?_, ?_⟩ <;> decide +kernel

end Aiorpcx.C17
