import Aiorpcx.C16.Model
import Aiorpcx.Facts.C17
/-! C17 — the decision tables regenerated from the source tree on every run
    (`tools/facts/c17.py`: what the *real* protocol objects do for every value 0..255 of every
    decision byte) are exactly what the model does.  Closed by kernel evaluation: if an edit of
    `socks.py` changes the reaction to any value of any decision byte, one of these stops
    compiling. -/
namespace Aiorpcx.C17
open Aiorpcx.Socks

def isNeed : Res → Bool
  | .need _ => true
  | _ => false

/-- (verdict, bytes fed) of a by-hand run fed one byte per `NeedData`; same encoding as
    tools/facts/c17.py: 0 done, 1 SOCKSFailure, 2 SOCKSProtocolError, 3 other, 4 wants more -/
def summarize (rs : List Res) : Nat × Nat :=
  let needs := (rs.filter isNeed).length
  match rs.getLast? with
  | some .fin => (0, needs)
  | some (.raise .socksFailure) => (1, needs)
  | some (.raise .socksProtocolError) => (2, needs)
  | some (.need _) => (4, needs - 1)
  | _ => (3, needs)

def tableEntry (cfg : Cfg) (stream : Bytes) : Nat × Nat :=
  summarize (driveObject (stream.length + 8) (Client.init cfg) (stream.map fun b => [b]))

/-- the same, feeding exactly the number of bytes each `NeedData` asks for -/
def driveExact : Nat → Client → Bytes → Nat → Nat × Nat
  | 0, _, _, fed => (3, fed)
  | f + 1, c, s, fed =>
    match nextMessage c with
    | (_, .raise .socksFailure) => (1, fed)
    | (_, .raise .socksProtocolError) => (2, fed)
    | (_, .raise _) => (3, fed)
    | (_, .fin) => (0, fed)
    | (c', .msg _) => driveExact f c' s fed
    | (c', .need k) =>
      if s.isEmpty then (4, fed)
      else driveExact f (c'.receiveData (s.take k)) (s.drop k) (fed + (s.take k).length)

def cfg4 : Cfg := .s4 (.ipv4 (vec4 1 2 3 4)) 80 none
def cfg5n : Cfg := .s5 [1, 1, 2, 3, 4, 0, 80] [] [0]
def cfg5a : Cfg := .s5 [1, 1, 2, 3, 4, 0, 80] [1, 1, 117, 1, 112] [0, 2]
def ok5 : Bytes := [5, 0, 0, 1, 9, 9, 9, 9, 0, 80]

def table (cfg : Cfg) (f : UInt8 → Bytes) : List (Nat × Nat) :=
  (List.range 256).map fun b => tableEntry cfg (f b.toUInt8)

def tableExact (cfg : Cfg) (f : UInt8 → Bytes) : List (Nat × Nat) :=
  (List.range 256).map fun b =>
    driveExact ((f b.toUInt8).length + 8) (Client.init cfg) (f b.toUInt8) 0

/-- the extractor's client configurations are the ones used here -/
theorem facts_cfgs :
    mkCfg .socks4 (.ipv4 (vec4 1 2 3 4)) 80 none = .ok cfg4 ∧
    mkCfg .socks5 (.ipv4 (vec4 1 2 3 4)) 80 none = .ok cfg5n ∧
    mkCfg .socks5 (.ipv4 (vec4 1 2 3 4)) 80 (some ([117], [112])) = .ok cfg5a := by decide

set_option maxRecDepth 100000 in
/-- SOCKS4 reply: every value of VN and of CD -/
theorem facts_table_socks4 :
    Facts.C17.s4Vn = table cfg4 (fun b => [b, 90, 0, 0, 0, 0, 0, 0, 7]) ∧
    Facts.C17.s4Cd = table cfg4 (fun b => [0, b, 1, 2, 3, 4, 5, 6, 7]) := by
  constructor <;> decide +kernel

set_option maxRecDepth 100000 in
/-- RFC 1928 method selection: every value of VER and of METHOD, with and without credentials -/
theorem facts_table_method :
    Facts.C17.s5Ver = table cfg5n (fun b => [b, 0] ++ ok5 ++ [7]) ∧
    Facts.C17.s5MethodNoAuth = table cfg5n (fun b => [5, b] ++ ok5 ++ [7]) ∧
    Facts.C17.s5MethodAuth = table cfg5a (fun b => [5, b] ++ ok5 ++ [7]) := by
  refine ⟨?_, ?_, ?_⟩ <;> decide +kernel

set_option maxRecDepth 100000 in
/-- RFC 1929 status reply: every value of VER and of STATUS -/
theorem facts_table_auth :
    Facts.C17.s5AuthVer = table cfg5a (fun b => [5, 2, b, 0] ++ ok5 ++ [7]) ∧
    Facts.C17.s5AuthStatus = table cfg5a (fun b => [5, 2, 1, b] ++ ok5 ++ [7]) := by
  constructor <;> decide +kernel

set_option maxRecDepth 100000 in
/-- RFC 1928 reply: every value of VER, REP, RSV, ATYP (granting and refusing) -/
theorem facts_table_reply :
    Facts.C17.s5ConnVer = table cfg5n (fun b => [5, 0, b, 0, 0, 1, 9, 9, 9, 9, 0, 80, 7]) ∧
    Facts.C17.s5ConnRep = table cfg5n (fun b => [5, 0, 5, b, 0, 1, 9, 9, 9, 9, 0, 80, 7]) ∧
    Facts.C17.s5ConnRsv = table cfg5n (fun b => [5, 0, 5, 0, b, 1, 9, 9, 9, 9, 0, 80, 7]) ∧
    Facts.C17.s5ConnAtyp = table cfg5n (fun b => [5, 0, 5, 0, 0, b, 2] ++ List.replicate 20 9) ∧
    Facts.C17.s5ConnAtypRefused =
      table cfg5n (fun b => [5, 0, 5, 1, 0, b, 2] ++ List.replicate 20 9) := by
  refine ⟨?_, ?_, ?_, ?_, ?_⟩ <;> decide +kernel

set_option maxRecDepth 100000 in
/-- domain-name replies: every bound-address length 0..255 (exactly `2 [+2] + 5 + len + 2`
    bytes are asked for; one byte fewer on the wire and the object still wants data) -/
theorem facts_table_length :
    Facts.C17.s5ConnLen =
      tableExact cfg5n (fun b => [5, 0, 5, 0, 0, 3, b] ++ List.replicate (b.toNat + 3) 0) ∧
    Facts.C17.s5ConnLenAuth =
      tableExact cfg5a (fun b => [5, 2, 1, 0, 5, 0, 0, 3, b] ++ List.replicate (b.toNat + 3) 0) ∧
    Facts.C17.s5ConnLenShort =
      tableExact cfg5n (fun b => [5, 0, 5, 0, 0, 3, b] ++ List.replicate (b.toNat + 1) 0) := by
  refine ⟨?_, ?_, ?_⟩ <;> decide +kernel

/-- every code the source lists as an error is a refusal code of the grammar (≠ the granting
    code), and the exception hierarchy is the one the model assumes: both SOCKS exceptions are
    `SOCKSError`s, neither is a subclass of the other, `NeedData` is not caught by
    `_connect_one`, which catches exactly `OSError` and `SOCKSError` -/
theorem facts_codes_and_exceptions :
    (∀ k ∈ Facts.C17.errorCodes, k ≠ 0 ∧ k < 256) ∧
    (∀ k ∈ Facts.C17.replyCodes, k < 256) ∧
    Facts.C17.protocolErrorIsSocksError = true ∧ Facts.C17.failureIsSocksError = true ∧
    Facts.C17.failureIsProtocolError = false ∧ Facts.C17.protocolErrorIsFailure = false ∧
    Facts.C17.needDataIsCaught = false ∧
    Facts.C17.connectOneCaught = ["OSError", "SOCKSError"] := by decide

end Aiorpcx.C17
