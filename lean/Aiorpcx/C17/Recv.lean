import Aiorpcx.C17.Ref
/-! C17 — what the driver asks the socket for: conservation of bytes, and no request ever
    exceeds what the handshake still has to receive. -/
namespace Aiorpcx.C17
open Aiorpcx.Socks

/-- bytes returned by a list of `recv` calls -/
def sumN : List (Nat × Nat) → Nat
  | [] => 0
  | (_, n) :: rs => n + sumN rs

theorem sumN_append (a b : List (Nat × Nat)) : sumN (a ++ b) = sumN a + sumN b := by
  induction a with
  | nil => simp [sumN]
  | cons x xs ih => obtain ⟨k, n⟩ := x; simp [sumN, ih]; omega

/-- every byte of the stream is either returned by some `recv` or still unread -/
theorem recv_conservation (oracle : Nat → Nat) (c : Client) (s : Sock) :
    sumN (handshake oracle c s).recvs + (handshake oracle c s).unread.length = s.stream.length := by
  fun_induction handshake oracle c s with
  | case1 => simp [sumN]
  | case2 => simp [sumN]
  | case3 c s c' b h r ih => simpa using ih
  | case4 c s c' k h hne =>
    have : s.stream = [] := by simpa using hne
    simp [sumN, this]
  | case5 c s c' k h hne n r ih =>
    obtain ⟨h1, h2, _⟩ := nextMessage_need h
    have hpos : 0 < s.stream.length := by
      cases hs : s.stream with
      | nil => simp [hs] at hne
      | cons a t => simp
    have hb : 1 ≤ n ∧ n ≤ k ∧ n ≤ s.stream.length := by
      simp only [n, clamp]; omega
    simp only [sumN]
    simp only [List.length_drop] at ih
    have e1 : sumN r.recvs = sumN (handshake oracle (c'.receiveData (List.take n s.stream))
        ⟨List.drop n s.stream, s.idx + 1⟩).recvs := rfl
    have e2 : r.unread.length = (handshake oracle (c'.receiveData (List.take n s.stream))
        ⟨List.drop n s.stream, s.idx + 1⟩).unread.length := rfl
    omega

/-- a client that still misses `m` bytes of its current step cannot finish the handshake
    without receiving at least `m` more bytes -/
theorem success_receives_missing (oracle : Nat → Nat) (c : Client) (s : Sock)
    (hok : (handshake oracle c s).outcome = none) :
    c.st.size - c.buf.length ≤ sumN (handshake oracle c s).recvs := by
  fun_induction handshake oracle c s with
  | case1 c s c' e h => simp at hok
  | case2 c s c' h =>
    by_cases hs : c.buf.length < c.st.size
    · rw [nextMessage_short c hs] at h; simp at h
    · omega
  | case3 c s c' b h r ih =>
    by_cases hs : c.buf.length < c.st.size
    · rw [nextMessage_short c hs] at h; simp at h
    · omega
  | case4 c s c' k h hne => simp at hok
  | case5 c s c' k h hne n r ih =>
    obtain ⟨h1, h2, h3⟩ := nextMessage_need h
    have hpos : 0 < s.stream.length := by
      cases hs : s.stream with
      | nil => simp [hs] at hne
      | cons a t => simp
    have hb : 1 ≤ n ∧ n ≤ k ∧ n ≤ s.stream.length := by
      simp only [n, clamp]; omega
    have ih' := ih (by simpa using hok)
    have hlen : (c'.receiveData (List.take n s.stream)).buf.length = c'.buf.length + n := by
      simp [Client.receiveData, List.length_take]; omega
    have hst : (c'.receiveData (List.take n s.stream)).st = c'.st := rfl
    rw [hst, hlen] at ih'
    have e1 : sumN r.recvs = sumN (handshake oracle (c'.receiveData (List.take n s.stream))
        ⟨List.drop n s.stream, s.idx + 1⟩).recvs := rfl
    simp only [sumN]
    by_cases hs : c.buf.length < c.st.size
    · have := nextMessage_short c hs
      rw [this] at h
      simp only [Prod.mk.injEq, Res.need.injEq] at h
      obtain ⟨rfl, rfl⟩ := h
      omega
    · omega

/-- **No over-read, request by request.**  In a handshake that succeeds, every `sock_recv`
    asks for at least one byte and for no more than the handshake goes on to receive from that
    point on: with `pre` the calls made before it, `bytes(pre) + k ≤ bytes(all calls)`; and a
    call never returns more than it asked for. -/
theorem recv_within_handshake (oracle : Nat → Nat) (c : Client) (s : Sock)
    (hok : (handshake oracle c s).outcome = none) :
    ∀ pre k n post, (handshake oracle c s).recvs = pre ++ (k, n) :: post →
      1 ≤ k ∧ n ≤ k ∧ sumN pre + k ≤ sumN (handshake oracle c s).recvs := by
  fun_induction handshake oracle c s with
  | case1 c s c' e h => simp at hok
  | case2 c s c' h => intro pre k n post hsplit; simp at hsplit
  | case3 c s c' b h r ih =>
    intro pre k n post hsplit
    exact ih (by simpa using hok) pre k n post (by simpa using hsplit)
  | case4 c s c' k h hne => simp at hok
  | case5 c s c' k h hne n r ih =>
    intro pre k' n' post hsplit
    obtain ⟨h1, h2, h3⟩ := nextMessage_need h
    have hpos : 0 < s.stream.length := by
      cases hs : s.stream with
      | nil => simp [hs] at hne
      | cons a t => simp
    have hb : 1 ≤ n ∧ n ≤ k ∧ n ≤ s.stream.length := by
      simp only [n, clamp]; omega
    have hok' : r.outcome = none := by simpa using hok
    simp only at hsplit
    cases pre with
    | nil =>
      simp only [List.nil_append, List.cons.injEq, Prod.mk.injEq] at hsplit
      obtain ⟨⟨rfl, rfl⟩, rfl⟩ := hsplit
      have hm := success_receives_missing oracle _ _ hok'
      have hlen : (c'.receiveData (List.take n s.stream)).buf.length = c'.buf.length + n := by
        simp [Client.receiveData, List.length_take]; omega
      have hst : (c'.receiveData (List.take n s.stream)).st = c'.st := rfl
      rw [hst, hlen] at hm
      simp only [sumN]
      refine ⟨by omega, hb.2.1, ?_⟩
      have : sumN r.recvs = sumN (handshake oracle (c'.receiveData (List.take n s.stream))
          ⟨List.drop n s.stream, s.idx + 1⟩).recvs := rfl
      omega
    | cons x pre' =>
      simp only [List.cons_append, List.cons.injEq] at hsplit
      obtain ⟨rfl, hrest⟩ := hsplit
      have := ih hok' pre' k' n' post hrest
      have e1 : sumN r.recvs = sumN (handshake oracle (c'.receiveData (List.take n s.stream))
          ⟨List.drop n s.stream, s.idx + 1⟩).recvs := rfl
      simp only [sumN]
      omega

end Aiorpcx.C17
