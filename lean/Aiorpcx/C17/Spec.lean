/-! C17 — SPEC side: what the proxy's replies *mean*, written from the protocol documents only
    (SOCKS4.protocol reply; RFC 1928 §3 method selection, §6 replies; RFC 1929 §2 status).
    Nothing here refers to the client model: replies are parsed whole, by field layout. -/
namespace Aiorpcx.C17.Spec

abbrev Bytes := List UInt8

inductive Verdict where
  /-- the first `len` bytes are a complete, well-formed reply sequence granting the request -/
  | granted (len : Nat)
  /-- the replies are well formed up to and including a complete reply that refuses -/
  | refused
  /-- a well-formed RFC 1928 reply header carrying a refusal code, but the stream ends before
      that reply is complete ("well-formed refusal" and "early end of stream" both apply) -/
  | refusedCut
  /-- a malformed reply, or the stream ends before the replies are complete -/
  | bad
  deriving DecidableEq, Repr

/-- SOCKS4.protocol: the reply is `VN(=0) CD DSTPORT(2) DSTIP(4)`; CD 90 = request granted,
    91..93 (and anything else) = rejected or failed -/
def verdict4 : Bytes → Verdict
  | vn :: cd :: _ :: _ :: _ :: _ :: _ :: _ :: _ =>
    if vn ≠ 0 then .bad else if cd = 90 then .granted 8 else .refused
  | _ => .bad

/-- RFC 1928 §5: length of the BND.ADDR field for an address type, given the bytes that
    follow ATYP: 4 for IPv4, 16 for IPv6, 1 + the value of the first octet for a domain name -/
def addrFieldLen (atyp : UInt8) (after : Bytes) : Option Nat :=
  if atyp = 1 then some 4
  else if atyp = 4 then some 16
  else if atyp = 3 then
    match after with
    | l :: _ => some (1 + l.toNat)
    | [] => none
  else none

/-- RFC 1928 §6: `VER(=5) REP RSV(=0) ATYP BND.ADDR BND.PORT(2)`; REP 0 = succeeded -/
def connectReply : Bytes → Verdict
  | ver :: rep :: rsv :: atyp :: after =>
    if ver ≠ 5 ∨ rsv ≠ 0 then .bad
    else if ¬ (atyp = 1 ∨ atyp = 3 ∨ atyp = 4) then .bad
    else
      match addrFieldLen atyp after with
      | some n =>
        if n + 2 ≤ after.length then (if rep = 0 then .granted (4 + n + 2) else .refused)
        else (if rep = 0 then .bad else .refusedCut)
      | none => if rep = 0 then .bad else .refusedCut
  | _ => .bad

def Verdict.shift (k : Nat) : Verdict → Verdict
  | .granted n => .granted (k + n)
  | v => v

/-- the whole SOCKS5 dialogue; `creds` = the client offered method 2 (username/password) in
    addition to method 0.  RFC 1928 §3: `VER(=5) METHOD`; a method that was not offered
    (X'FF' included) means none of the offered methods is acceptable.  RFC 1929 §2:
    `VER(=1) STATUS`, 0 = success. -/
def verdict5 (creds : Bool) : Bytes → Verdict
  | ver :: m :: s1 =>
    if ver ≠ 5 then .bad
    else if m = 0 then (connectReply s1).shift 2
    else if m = 2 ∧ creds then
      match s1 with
      | av :: st :: s2 =>
        if av ≠ 1 then .bad
        else if st ≠ 0 then .refused
        else (connectReply s2).shift 4
      | _ => .bad
    else .refused
  | _ => .bad

end Aiorpcx.C17.Spec
