import Aiorpcx.C17.Ref
/-! C17 — the reference run in closed form, stage by stage (helper lemmas for `Props.lean`). -/
namespace Aiorpcx.C17
open Aiorpcx.Socks

def consMsg (b : Bytes) (r : RefRun) : RefRun := { r with sent := b :: r.sent }
def eofRun : RefRun := ⟨some .socksProtocolError, [], []⟩

/-- one unfolding of `runRef` -/
theorem runRef_eq (c : Client) (stream : Bytes) :
    runRef c stream =
      match nextMessage c with
      | (_, .raise e) => ⟨some e, [], stream⟩
      | (_, .fin) => ⟨none, [], stream⟩
      | (c', .msg b) => consMsg b (runRef c' stream)
      | (c', .need k) =>
        if stream.length < k then eofRun
        else runRef (c'.receiveData (stream.take k)) (stream.drop k) := by
  conv => lhs; unfold runRef
  split <;> rename_i heq <;> rw [heq] <;> simp [consMsg, eofRun]

/-- a step with an empty buffer: EOF, or the step runs on exactly its bytes -/
theorem runRef_fill (cfg : Cfg) (st : St) (s : Bytes) (hsz : 0 < st.size) :
    runRef ⟨cfg, st, []⟩ s =
      if s.length < st.size then eofRun
      else runRef ⟨cfg, st, s.take st.size⟩ (s.drop st.size) := by
  rw [runRef_eq, nextMessage_short ⟨cfg, st, []⟩ (by simpa using hsz)]
  simp [Client.receiveData]

theorem withRead_full (cfg : Cfg) (st : St) (d : Bytes) (f : Bytes → Client → Client × Res) :
    withRead ⟨cfg, st, d⟩ d.length f = f d ⟨cfg, st, []⟩ := by
  simp [withRead, Client.read]

theorem runRef_start_s5 (dst ab : Bytes) (ms : List UInt8) (s : Bytes) :
    runRef (Client.init (.s5 dst ab ms)) s =
      consMsg (socks5Greeting ms) (runRef ⟨.s5 dst ab ms, .first5, []⟩ s) := by
  rw [runRef_eq]
  simp [nextMessage, Client.init, startStep]

theorem runRef_start_s4 (h : Host) (port : Nat) (a : Auth) (b : Bytes) (s : Bytes)
    (hs : socks4Start h port a = .ok b) :
    runRef (Client.init (.s4 h port a)) s =
      consMsg b (runRef ⟨.s4 h port a, .first4, []⟩ s) := by
  rw [runRef_eq]
  simp [nextMessage, Client.init, startStep, hs]

theorem runRef_start_s4_raise (h : Host) (port : Nat) (a : Auth) (e : PyExc) (s : Bytes)
    (hs : socks4Start h port a = .error e) :
    runRef (Client.init (.s4 h port a)) s = ⟨some e, [], s⟩ := by
  rw [runRef_eq]
  simp [nextMessage, Client.init, startStep, hs]

/-- `SOCKS4._first_response` on its 8 bytes -/
theorem runRef_first4 (cfg : Cfg) (s : Bytes) :
    runRef ⟨cfg, .first4, []⟩ s =
      match s with
      | vn :: cd :: _ :: _ :: _ :: _ :: _ :: _ :: rest =>
        if vn ≠ 0 then ⟨some .socksProtocolError, [], rest⟩
        else if cd ≠ 90 then ⟨some .socksFailure, [], rest⟩
        else ⟨none, [], rest⟩
      | _ => eofRun := by
  rw [runRef_fill cfg .first4 s (by simp [St.size])]
  match s with
  | [] | [_] | [_, _] | [_, _, _] | [_, _, _, _] | [_, _, _, _, _] | [_, _, _, _, _, _]
  | [_, _, _, _, _, _, _] => simp [St.size]
  | vn :: cd :: a :: b :: c :: d :: e :: f :: rest =>
    have hl : ¬ (vn :: cd :: a :: b :: c :: d :: e :: f :: rest).length < 8 := by
      simp only [List.length_cons]; omega
    simp only [St.size, hl, if_false]
    rw [runRef_eq]
    have : nextMessage ⟨cfg, .first4, List.take 8 (vn :: cd :: a :: b :: c :: d :: e :: f :: rest)⟩
        = first4Body [vn, cd, a, b, c, d, e, f] ⟨cfg, .first4, []⟩ := by
      simpa [nextMessage] using withRead_full cfg .first4 [vn, cd, a, b, c, d, e, f] first4Body
    rw [this]
    simp only [first4Body, byteAt, List.getD_cons_zero, List.getD_cons_succ]
    by_cases h1 : vn = 0
    · by_cases h2 : cd = 90 <;> simp [h1, h2]
    · simp [h1]

/-- `SOCKS5._connect_response_rest` -/
theorem runRef_rest (cfg : Cfg) (n : Nat) (s : Bytes) :
    runRef ⟨cfg, .rest n, []⟩ s =
      if s.length < n + 2 then eofRun else ⟨none, [], s.drop (n + 2)⟩ := by
  rw [runRef_fill cfg (.rest n) s (by simp [St.size])]
  simp only [St.size]
  by_cases h : s.length < n + 2
  · simp [h]
  · simp only [h, if_false]
    rw [runRef_eq]
    have hl : (s.take (n + 2)).length = n + 2 := by simp [List.length_take]; omega
    have : nextMessage ⟨cfg, .rest n, s.take (n + 2)⟩ = (⟨cfg, .rest n, []⟩, .fin) := by
      have := withRead_full cfg (.rest n) (s.take (n + 2)) (fun _ c' => (c', Res.fin))
      rw [hl] at this
      simpa [nextMessage, restStep] using this
    rw [this]

/-- `SOCKS5._connect_response` on its 5 bytes, then the rest of the reply -/
theorem runRef_connect (cfg : Cfg) (s : Bytes) :
    runRef ⟨cfg, .connect, []⟩ s =
      match s with
      | v :: rep :: rsv :: atyp :: l :: rest =>
        if v ≠ 5 ∨ rsv ≠ 0 ∨ ¬ (atyp = 1 ∨ atyp = 3 ∨ atyp = 4) then
          ⟨some .socksProtocolError, [], rest⟩
        else if rep ≠ 0 then ⟨some .socksFailure, [], rest⟩
        else if rest.length < addrLenOf atyp l + 2 then eofRun
        else ⟨none, [], rest.drop (addrLenOf atyp l + 2)⟩
      | _ => eofRun := by
  rw [runRef_fill cfg .connect s (by simp [St.size])]
  match s with
  | [] | [_] | [_, _] | [_, _, _] | [_, _, _, _] => simp [St.size]
  | v :: rep :: rsv :: atyp :: l :: rest =>
    have hl : ¬ (v :: rep :: rsv :: atyp :: l :: rest).length < 5 := by
      simp only [List.length_cons]; omega
    simp only [St.size, hl, if_false]
    rw [runRef_eq]
    have : nextMessage ⟨cfg, .connect, List.take 5 (v :: rep :: rsv :: atyp :: l :: rest)⟩
        = connectBody [v, rep, rsv, atyp, l] ⟨cfg, .connect, []⟩ := by
      simpa [nextMessage] using withRead_full cfg .connect [v, rep, rsv, atyp, l] connectBody
    rw [this]
    simp only [connectBody, byteAt, List.getD_cons_zero, List.getD_cons_succ]
    by_cases hbad : v ≠ 5 ∨ rsv ≠ 0 ∨ ¬ (atyp = 1 ∨ atyp = 3 ∨ atyp = 4)
    · have : (v != 5 || rsv != 0 || !(atyp == 1 || atyp == 3 || atyp == 4)) = true := by
        rcases hbad with h | h | h <;> simp_all
      simp only [this, hbad, if_true]
      rfl
    · have hb : (v != 5 || rsv != 0 || !(atyp == 1 || atyp == 3 || atyp == 4)) = false := by
        have h1 : v = 5 := Decidable.byContradiction fun h => hbad (Or.inl h)
        have h2 : rsv = 0 := Decidable.byContradiction fun h => hbad (Or.inr (Or.inl h))
        have h3 : atyp = 1 ∨ atyp = 3 ∨ atyp = 4 :=
          Decidable.byContradiction fun h => hbad (Or.inr (Or.inr h))
        subst h1 h2
        rcases h3 with h | h | h <;> simp [h]
      simp only [hb, hbad, if_false, Bool.false_eq_true]
      by_cases hrep : rep = 0
      · subst hrep
        simp only [bne_self_eq_false, Bool.false_eq_true, if_false, ne_eq, not_true_eq_false]
        -- restStep on an empty buffer asks for addrLen + 2 bytes
        have hr : restStep ⟨cfg, .rest (addrLenOf atyp l), []⟩ (addrLenOf atyp l)
            = (⟨cfg, .rest (addrLenOf atyp l), []⟩, .need (addrLenOf atyp l + 2)) := by
          simp [restStep, withRead, Client.read]
        simp only [List.drop_succ_cons, List.drop_zero] at *
        rw [hr]
        simp only [Client.receiveData, List.nil_append]
        by_cases hlen : rest.length < addrLenOf atyp l + 2
        · simp [hlen]
        · simp only [hlen, if_false]
          have := runRef_rest cfg (addrLenOf atyp l) rest
          rw [runRef_fill cfg (.rest (addrLenOf atyp l)) rest (by simp [St.size])] at this
          simp only [St.size, hlen, if_false] at this
          exact this
      · have : (rep != 0) = true := by simp [hrep]
        simp [this, hrep]

/-- `SOCKS5._auth_response` on its 2 bytes -/
theorem runRef_auth (cfg : Cfg) (s : Bytes) :
    runRef ⟨cfg, .authResp, []⟩ s =
      match s with
      | v :: st :: rest =>
        if v ≠ 1 then ⟨some .socksProtocolError, [], rest⟩
        else if st ≠ 0 then ⟨some .socksFailure, [], rest⟩
        else consMsg (socks5Connect cfg.dst) (runRef ⟨cfg, .connect, []⟩ rest)
      | _ => eofRun := by
  rw [runRef_fill cfg .authResp s (by simp [St.size])]
  match s with
  | [] | [_] => simp [St.size]
  | v :: st :: rest =>
    have hl : ¬ (v :: st :: rest).length < 2 := by simp only [List.length_cons]; omega
    simp only [St.size, hl, if_false]
    rw [runRef_eq]
    have : nextMessage ⟨cfg, .authResp, List.take 2 (v :: st :: rest)⟩
        = authBody [v, st] ⟨cfg, .authResp, []⟩ := by
      simpa [nextMessage] using withRead_full cfg .authResp [v, st] authBody
    rw [this]
    simp only [authBody, byteAt, List.getD_cons_zero, List.getD_cons_succ, requestConnection]
    by_cases h1 : v = 1
    · by_cases h2 : st = 0 <;> simp [h1, h2]
    · simp [h1]

/-- `SOCKS5._first_response` on its 2 bytes -/
theorem runRef_first5 (cfg : Cfg) (s : Bytes) :
    runRef ⟨cfg, .first5, []⟩ s =
      match s with
      | v :: m :: rest =>
        if v ≠ 5 then ⟨some .socksProtocolError, [], rest⟩
        else if m ∉ cfg.methods then ⟨some .socksFailure, [], rest⟩
        else if m = 2 then consMsg cfg.authBytes (runRef ⟨cfg, .authResp, []⟩ rest)
        else consMsg (socks5Connect cfg.dst) (runRef ⟨cfg, .connect, []⟩ rest)
      | _ => eofRun := by
  rw [runRef_fill cfg .first5 s (by simp [St.size])]
  match s with
  | [] | [_] => simp [St.size]
  | v :: m :: rest =>
    have hl : ¬ (v :: m :: rest).length < 2 := by simp only [List.length_cons]; omega
    simp only [St.size, hl, if_false]
    rw [runRef_eq]
    have : nextMessage ⟨cfg, .first5, List.take 2 (v :: m :: rest)⟩
        = first5Body [v, m] ⟨cfg, .first5, []⟩ := by
      simpa [nextMessage] using withRead_full cfg .first5 [v, m] first5Body
    rw [this]
    simp only [first5Body, byteAt, List.getD_cons_zero, List.getD_cons_succ, requestConnection]
    by_cases h1 : v = 5
    · by_cases h2 : m ∈ cfg.methods
      · by_cases h3 : m = 2
        · subst h3; simp [h1, h2]
        · simp [h1, h2, h3]
      · simp [h1, h2]
    · simp [h1]

end Aiorpcx.C17
