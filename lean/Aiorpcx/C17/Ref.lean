import Aiorpcx.C16.Model
/-! C17 — segmentation-free reference semantics of the handshake (`runRef`: every parser step
    gets its bytes in one piece) and the proof that the real driver loop `handshake`, under
    *any* segmentation oracle, computes the same outcome, sends the same messages and leaves
    the same bytes unread. -/
namespace Aiorpcx.C17
open Aiorpcx.Socks

/-- the segmentation-independent part of a `Run` -/
structure RefRun where
  outcome : Option PyExc
  sent : List Bytes
  unread : Bytes
  deriving DecidableEq, Repr

def refOf (r : Run) : RefRun := ⟨r.outcome, r.sent, r.unread⟩

/-- a parser state whose buffer is short of what the step reads asks for exactly the rest and
    changes nothing -/
theorem nextMessage_short (x : Client) (h : x.buf.length < x.st.size) :
    nextMessage x = (x, .need (x.st.size - x.buf.length)) := by
  unfold nextMessage
  cases hst : x.st <;> rw [hst] at h <;> simp only [St.size] at h ⊢
  · omega
  · rcases withRead_cases x 8 first4Body with ⟨_, h2⟩ | ⟨h1, _⟩
    · exact h2
    · omega
  · rcases withRead_cases x 2 first5Body with ⟨_, h2⟩ | ⟨h1, _⟩
    · exact h2
    · omega
  · rcases withRead_cases x 2 authBody with ⟨_, h2⟩ | ⟨h1, _⟩
    · exact h2
    · omega
  · rcases withRead_cases x 5 connectBody with ⟨_, h2⟩ | ⟨h1, _⟩
    · exact h2
    · omega
  · rename_i n
    unfold restStep
    rcases withRead_cases x (n + 2) (fun _ c' => (c', Res.fin)) with ⟨_, h2⟩ | ⟨h1, _⟩
    · exact h2
    · omega

/-- reference run: whenever a step needs `k` more bytes it gets exactly the next `k` bytes of
    the stream at once (EOF if the stream is shorter) -/
def runRef (c : Client) (stream : Bytes) : RefRun :=
  match h : nextMessage c with
  | (_, .raise e) => ⟨some e, [], stream⟩
  | (_, .fin) => ⟨none, [], stream⟩
  | (c', .msg b) =>
    let r := runRef c' stream
    { r with sent := b :: r.sent }
  | (c', .need k) =>
    if hk : stream.length < k then ⟨some .socksProtocolError, [], []⟩
    else runRef (c'.receiveData (stream.take k)) (stream.drop k)
termination_by c.measure
decreasing_by
  · exact Prod.Lex.left _ _ (nextMessage_msg_rank h)
  · obtain ⟨h1, h2, h3⟩ := nextMessage_need h
    rcases h3 with h3 | h3
    · exact Prod.Lex.left _ _ h3
    · subst h3
      simp only [Client.measure, Client.receiveData]
      apply Prod.Lex.right
      simp [List.length_take]
      omega

/-- feeding part of what a step misses leaves it asking for the remainder -/
theorem runRef_partial (c' : Client) (stream : Bytes) (n : Nat)
    (hshort : c'.buf.length < c'.st.size) (hn1 : 1 ≤ n)
    (hnk : n ≤ c'.st.size - c'.buf.length) (hnl : n ≤ stream.length) :
    runRef (c'.receiveData (stream.take n)) (stream.drop n) = runRef c' stream := by
  have hc' := nextMessage_short c' hshort
  conv => rhs; unfold runRef
  split
  · rename_i heq; rw [hc'] at heq; simp at heq
  · rename_i heq; rw [hc'] at heq; simp at heq
  · rename_i heq; rw [hc'] at heq; simp at heq
  · rename_i c'' k heq
    rw [hc'] at heq
    simp only [Prod.mk.injEq, Res.need.injEq] at heq
    obtain ⟨rfl, rfl⟩ := heq
    by_cases hfull : n = c'.st.size - c'.buf.length
    · subst hfull
      have : ¬ stream.length < c'.st.size - c'.buf.length := by omega
      simp [this]
    · -- still short after n bytes
      have hlen : (c'.receiveData (stream.take n)).buf.length = c'.buf.length + n := by
        simp [Client.receiveData, List.length_take]; omega
      have hshort1 : (c'.receiveData (stream.take n)).buf.length
          < (c'.receiveData (stream.take n)).st.size := by
        rw [hlen]; simp only [Client.receiveData]; omega
      have hc1 := nextMessage_short _ hshort1
      conv => lhs; unfold runRef
      split
      · rename_i heq; rw [hc1] at heq; simp at heq
      · rename_i heq; rw [hc1] at heq; simp at heq
      · rename_i heq; rw [hc1] at heq; simp at heq
      · rename_i c2 k2 heq
        rw [hc1] at heq
        simp only [Prod.mk.injEq, Res.need.injEq] at heq
        obtain ⟨rfl, rfl⟩ := heq
        have hst : (c'.receiveData (stream.take n)).st = c'.st := rfl
        rw [hst, hlen]
        simp only [Client.receiveData, List.length_drop]
        by_cases hs : stream.length < c'.st.size - c'.buf.length
        · have : stream.length - n < c'.st.size - (c'.buf.length + n) := by omega
          simp [hs, this]
        · have : ¬ stream.length - n < c'.st.size - (c'.buf.length + n) := by omega
          simp only [hs, this, dite_false]
          have hsplit : c'.st.size - c'.buf.length = n + (c'.st.size - (c'.buf.length + n)) := by
            omega
          congr 1
          · congr 1
            rw [List.append_assoc, hsplit, List.take_add]
          · rw [List.drop_drop]
            congr 1
            omega

/-- **Step lemma / refinement**: for every oracle the driver loop agrees with the reference
    run on outcome, messages sent and bytes left unread. -/
theorem handshake_ref (oracle : Nat → Nat) (c : Client) (s : Sock) :
    refOf (handshake oracle c s) = runRef c s.stream := by
  fun_induction handshake oracle c s with
  | case1 c s c' e h =>
    unfold runRef
    split <;> rename_i heq <;> rw [h] at heq <;> simp at heq
    obtain ⟨_, rfl⟩ := heq
    rfl
  | case2 c s c' h =>
    unfold runRef
    split <;> rename_i heq <;> rw [h] at heq <;> simp at heq
    rfl
  | case3 c s c' b h r ih =>
    conv => rhs; unfold runRef
    split <;> rename_i heq <;> rw [h] at heq <;> simp at heq
    obtain ⟨rfl, rfl⟩ := heq
    simp only [refOf] at ih ⊢
    rw [← ih]
  | case4 c s c' k h hne =>
    conv => rhs; unfold runRef
    split <;> rename_i heq <;> rw [h] at heq <;> simp at heq
    obtain ⟨rfl, rfl⟩ := heq
    obtain ⟨h1, h2, _⟩ := nextMessage_need h
    have : s.stream = [] := by simpa using hne
    have hkpos : 0 < k := by omega
    simp [refOf, this, hkpos]
  | case5 c s c' k h hne n r ih =>
    obtain ⟨h1, h2, _⟩ := nextMessage_need h
    have hpos : 0 < s.stream.length := by
      cases hs : s.stream with
      | nil => simp [hs] at hne
      | cons a t => simp
    have hkpos : 0 < k := by omega
    have hb : 1 ≤ n ∧ n ≤ k ∧ n ≤ s.stream.length := by
      simp only [n, clamp]
      omega
    simp only [refOf] at ih ⊢
    rw [ih]
    have hnk : n ≤ c'.st.size - c'.buf.length := by rw [← h2]; exact hb.2.1
    rw [runRef_partial c' s.stream n h1 hb.1 hnk hb.2.2]
    conv => rhs; unfold runRef
    split <;> rename_i heq <;> rw [h] at heq <;> simp at heq
    obtain ⟨rfl, rfl⟩ := heq
    -- runRef c' = the `need` branch of runRef c
    have hc' := nextMessage_short c' h1
    conv => lhs; unfold runRef
    split <;> rename_i heq2 <;> rw [hc'] at heq2 <;> simp at heq2
    obtain ⟨rfl, rfl⟩ := heq2
    rw [← h2]

/-- structurally recursive twin of `handshake` (fuel = number of loop iterations allowed),
    used to evaluate concrete runs inside the kernel -/
def handshakeFuel (oracle : Nat → Nat) : Nat → Client → Sock → Option Run
  | 0, _, _ => none
  | f + 1, c, s =>
    match nextMessage c with
    | (_, .raise e) => some ⟨some e, [], s.stream, []⟩
    | (_, .fin) => some ⟨none, [], s.stream, []⟩
    | (c', .msg b) =>
      (handshakeFuel oracle f c' s).map fun r => { r with sent := b :: r.sent }
    | (c', .need k) =>
      if s.stream.isEmpty then some ⟨some .socksProtocolError, [], [], [(k, 0)]⟩
      else
        (handshakeFuel oracle f
            (c'.receiveData (s.stream.take (clamp (oracle s.idx) k s.stream.length)))
            ⟨s.stream.drop (clamp (oracle s.idx) k s.stream.length), s.idx + 1⟩).map
          fun r => { r with recvs := (k, clamp (oracle s.idx) k s.stream.length) :: r.recvs }

theorem handshakeFuel_sound (oracle : Nat → Nat) :
    ∀ (f : Nat) (c : Client) (s : Sock) (r : Run),
      handshakeFuel oracle f c s = some r → handshake oracle c s = r := by
  intro f
  induction f with
  | zero => intro c s r h; simp [handshakeFuel] at h
  | succ f ih =>
    intro c s r h
    unfold handshakeFuel at h
    conv => lhs; unfold handshake
    split <;> rename_i heq <;> rw [heq] at h <;> simp only at h
    · simp at h; exact h
    · simp at h; exact h
    · rename_i c' b
      cases hr : handshakeFuel oracle f c' s with
      | none => simp [hr] at h
      | some r' =>
        simp [hr] at h
        rw [ih _ _ _ hr]
        exact h
    · rename_i c' k
      by_cases hne : s.stream.isEmpty = true
      · simp [hne] at h ⊢; exact h
      · simp only [hne, Bool.false_eq_true, if_false] at h
        simp only [hne, dite_false]
        cases hr : handshakeFuel oracle f
            (c'.receiveData (s.stream.take (clamp (oracle s.idx) k s.stream.length)))
            ⟨s.stream.drop (clamp (oracle s.idx) k s.stream.length), s.idx + 1⟩ with
        | none => simp [hr] at h
        | some r' =>
          simp [hr] at h
          rw [ih _ _ _ hr]
          exact h

end Aiorpcx.C17
