import Aiorpcx.C16.Wire
/-! Line-protocol driver for the C17 model.

    `hs <proto> <host> <port> <auth> <stream hex> <sizes>/<default>`
        the `_handshake` loop on a socket whose reply stream is `<stream>`; the i-th `recv`
        returns `sizes[i]` bytes (`default` once the list is used up), clamped to
        `[1, min requested available]`.  `sizes` is a comma-separated list, `_` when empty.
        out: `<outcome> <unread hex> <requested:returned,...|_> <sent hex;...|_>`
    `obj <proto> <host> <port> <auth> <chunk hex> ...`
        `next_message()` / `receive_data(chunk)` by hand: results of the successive calls.
    `cc <proto> <host> <port> <auth> <stream hex> <sizes>/<default>`
        the same reply stream met by `create_connection` (one remote address, the proxy's
        address resolving to one entry): `_connect([a])` over `_connect_one(a)` over
        `_handshake`; same output format, the outcome being what `create_connection` raises
    `det <proto> <auth> <attempt> ...`   attempt = `x` (connect fails) | `s` (`socket.socket()`
        raises) | `<stream hex>` | `p<stream hex>` (`getpeername()` raises afterwards)
        `_detect_proxy` verdict: `True` / `False` / `E:<Exception>`
    `con <outcome> ...`   outcome of `_connect_one` per remote address:
        `s` (a socket) | `e:<Exception>:<repr id>` (returned exception) | `x:<Exception>` (escaped)
        `_connect`: `connected <address index>` / `E:<Exception>` -/
open Aiorpcx Aiorpcx.Socks Aiorpcx.Socks.Wire

def parseSizes (s : String) : Option (List Nat × Nat) :=
  match s.splitOn "/" with
  | [l, d] =>
    match (if l == "_" then some [] else (l.splitOn ",").mapM (·.toNat?)), d.toNat? with
    | some l, some d => some (l, d)
    | _, _ => none
  | _ => none

def showOutcome : Option PyExc → String
  | none => "ok"
  | some e => showExc e

def showRun (r : Run) : String :=
  showOutcome r.outcome ++ " " ++ Hex.showBytes r.unread ++ " " ++
  (if r.recvs.isEmpty then "_" else
    String.intercalate "," (r.recvs.map fun (k, n) => toString k ++ ":" ++ toString n)) ++ " " ++
  (if r.sent.isEmpty then "_" else String.intercalate ";" (r.sent.map Hex.showBytes))

def withCfg (p h port a : String) (f : Cfg → String) : String :=
  match parseProto p, parseHost h, port.toNat?, parseAuth a with
  | some p, some h, some port, some a =>
    match mkCfg p h port a with
    | .error e => "E:" ++ showExc e
    | .ok cfg => f cfg
  | _, _, _, _ => "bad-op"

def parseOutcome (s : String) : Option AddrOutcome :=
  match s.splitOn ":" with
  | ["s"] => some (.sock [])
  | ["e", n, r] =>
    match parseExc n, r.toNat? with
    | some e, some r => some (.exc e r)
    | _, _ => none
  | ["x", n] => (parseExc n).map .escaped
  | _ => none

def handle (line : String) : String :=
  match (line.splitOn " ").filter (· ≠ "") with
  | ["hs", p, h, port, a, stream, sizes] =>
    match Hex.parseBytes stream, parseSizes sizes with
    | some st, some (l, d) =>
      withCfg p h port a fun cfg =>
        showRun (handshake (fun i => l.getD i d) (Client.init cfg) ⟨st, 0⟩)
    | _, _ => "bad-op"
  | ["cc", p, h, port, a, stream, sizes] =>
    match Hex.parseBytes stream, parseSizes sizes with
    | some st, some (l, d) =>
      withCfg p h port a fun cfg =>
        let o := fun i => l.getD i d
        let r := handshake o (Client.init cfg) ⟨st, 0⟩
        match createConnection1 (.ok cfg) [.talks st o] with
        | .connected _ _ => showRun { r with outcome := none }
        | .raised e => showRun { r with outcome := some e }
    | _, _ => "bad-op"
  | "obj" :: p :: h :: port :: a :: chunks =>
    match chunks.mapM Hex.parseBytes with
    | some cs =>
      withCfg p h port a fun cfg =>
        String.intercalate " " ((driveObject (cs.length + 8) (Client.init cfg) cs).map showRes)
    | none => "bad-op"
  | "det" :: p :: a :: attempts =>
    match parseProto p, parseAuth a, attempts.mapM parseAttempt with
    | some p, some a, some atts =>
      match detectProxy p a atts with
      | .ok true => "True"
      | .ok false => "False"
      | .error e => "E:" ++ showExc e
    | _, _, _ => "bad-op"
  | "con" :: outcomes =>
    match outcomes.mapM parseOutcome with
    | some os =>
      match connect os with
      | .connected i _ => "connected " ++ toString i
      | .raised e => "E:" ++ showExc e
    | none => "bad-op"
  | _ => "bad-op"

def main : IO Unit := Hex.lineLoop handle
