import Aiorpcx.C17.Tables
import Aiorpcx.Facts.C17
/-! C17 — the decision tables regenerated from the source tree on every run
    (`tools/facts/c17.py`: what the *real* protocol objects do for every value 0..255 of every
    decision byte) are exactly what the model does.  Closed by kernel evaluation: if an edit of
    `socks.py` changes the reaction to any value of any decision byte, one of these stops
    compiling.  Part 1b: one decision byte at a time (RFC 1929 status, RFC 1928 reply). -/
namespace Aiorpcx.C17
open Aiorpcx.Socks

set_option maxRecDepth 100000 in
/-- RFC 1929 status reply: every value of VER and of STATUS; each with the other one faulty -/
theorem facts_table_auth :
    Facts.C17.s5AuthVer = table cfg5a (fun b => [5, 2, b, 0] ++ ok5 ++ [7]) ∧
    Facts.C17.s5AuthStatus = table cfg5a (fun b => [5, 2, 1, b] ++ ok5 ++ [7]) ∧
    Facts.C17.s5AuthVerStatusBad = table cfg5a (fun b => [5, 2, b, 1] ++ ok5 ++ [7]) ∧
    Facts.C17.s5AuthStatusVerBad = table cfg5a (fun b => [5, 2, 2, b] ++ ok5 ++ [7]) := by
  refine ⟨?_, ?_, ?_, ?_⟩ <;> decide +kernel

set_option maxRecDepth 100000 in
/-- RFC 1928 reply: every value of VER, REP, RSV, ATYP (granting) -/
theorem facts_table_reply :
    Facts.C17.s5ConnVer = table cfg5n (fun b => [5, 0, b, 0, 0, 1, 9, 9, 9, 9, 0, 80, 7]) ∧
    Facts.C17.s5ConnRep = table cfg5n (fun b => [5, 0, 5, b, 0, 1, 9, 9, 9, 9, 0, 80, 7]) ∧
    Facts.C17.s5ConnRsv = table cfg5n (fun b => [5, 0, 5, 0, b, 1, 9, 9, 9, 9, 0, 80, 7]) ∧
    Facts.C17.s5ConnAtyp = table cfg5n (fun b => [5, 0, 5, 0, 0, b, 2] ++ List.replicate 20 9) ∧
    Facts.C17.s5ZeroReply = table cfg5n (fun b => [5, 0, 5, 0, 0, 1, 0, 0, 0, 0, 0, 0, b]) := by
  refine ⟨?_, ?_, ?_, ?_, ?_⟩ <;> decide +kernel

end Aiorpcx.C17
