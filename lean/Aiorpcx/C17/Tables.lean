import Aiorpcx.C16.Model
/-! C17 — how the model is run on the reply streams of the facts tables (definitions only;
    the comparisons with the generated tables are in `FactsTie*.lean`, split so that they
    build in parallel). -/
namespace Aiorpcx.C17
open Aiorpcx.Socks

def isNeed : Res → Bool
  | .need _ => true
  | _ => false

/-- (verdict, bytes fed) of a by-hand run fed one byte per `NeedData`; same encoding as
    tools/facts/c17.py: 0 done, 1 SOCKSFailure, 2 SOCKSProtocolError, 3 other, 4 wants more
    (the byte-wise tables keep the verdict only: *when* it is reached is not a property-level
    observable) -/
def summarize (rs : List Res) : Nat × Nat :=
  let needs := (rs.filter isNeed).length
  match rs.getLast? with
  | some .fin => (0, needs)
  | some (.raise .socksFailure) => (1, needs)
  | some (.raise .socksProtocolError) => (2, needs)
  | some (.need _) => (4, needs - 1)
  | _ => (3, needs)

def tableEntry (cfg : Cfg) (stream : Bytes) : Nat × Nat :=
  summarize (driveObject (stream.length + 8) (Client.init cfg) (stream.map fun b => [b]))

/-- the same, feeding exactly the number of bytes each `NeedData` asks for -/
def driveExact : Nat → Client → Bytes → Nat → Nat × Nat
  | 0, _, _, fed => (3, fed)
  | f + 1, c, s, fed =>
    match nextMessage c with
    | (_, .raise .socksFailure) => (1, fed)
    | (_, .raise .socksProtocolError) => (2, fed)
    | (_, .raise _) => (3, fed)
    | (_, .fin) => (0, fed)
    | (c', .msg _) => driveExact f c' s fed
    | (c', .need k) =>
      if s.isEmpty then (4, fed)
      else driveExact f (c'.receiveData (s.take k)) (s.drop k) (fed + (s.take k).length)

def cfg4 : Cfg := .s4 (.ipv4 (vec4 1 2 3 4)) 80 none
def cfg5n : Cfg := .s5 [1, 1, 2, 3, 4, 0, 80] [] [0]
def cfg5a : Cfg := .s5 [1, 1, 2, 3, 4, 0, 80] [1, 1, 117, 1, 112] [0, 2]
def ok5 : Bytes := [5, 0, 0, 1, 9, 9, 9, 9, 0, 80]

def table (cfg : Cfg) (f : UInt8 → Bytes) : List Nat :=
  (List.range 256).map fun b => (tableEntry cfg (f b.toUInt8)).1

def tableExact (cfg : Cfg) (f : UInt8 → Bytes) : List (Nat × Nat) :=
  (List.range 256).map fun b =>
    driveExact ((f b.toUInt8).length + 8) (Client.init cfg) (f b.toUInt8) 0

end Aiorpcx.C17
