import Aiorpcx.C17.Stages
import Aiorpcx.C17.Spec
/-! C17 — the reference run meets the verdict of the independent reply grammar (helper file:
    the per-stage case analyses over every value of every decision byte). -/
namespace Aiorpcx.C17
open Aiorpcx.Socks

/-- what the property demands of a run, given what the replies mean -/
def Meets (stream : Bytes) (r : RefRun) : Spec.Verdict → Prop
  | .granted n => r.outcome = none ∧ n ≤ stream.length ∧ r.unread = stream.drop n
  | .refused => r.outcome = some .socksFailure
  | .refusedCut => r.outcome = some .socksFailure ∨ r.outcome = some .socksProtocolError
  | .bad => r.outcome = some .socksProtocolError

theorem meets_consMsg (s : Bytes) (b : Bytes) (r : RefRun) (v : Spec.Verdict) :
    Meets s (consMsg b r) v ↔ Meets s r v := by
  cases v <;> simp [Meets, consMsg]

theorem meets_shift2 (a b : UInt8) (s : Bytes) (r : RefRun) (v : Spec.Verdict)
    (h : Meets s r v) : Meets (a :: b :: s) r (v.shift 2) := by
  cases v with
  | granted n =>
    obtain ⟨h1, h2, h3⟩ := h
    refine ⟨h1, by simp; omega, ?_⟩
    rw [h3]
    have : 2 + n = n + 1 + 1 := by omega
    rw [this]; simp
  | refused => exact h
  | refusedCut => exact h
  | bad => exact h

theorem meets_shift4 (a b c d : UInt8) (s : Bytes) (r : RefRun) (v : Spec.Verdict)
    (h : Meets s r v) : Meets (a :: b :: c :: d :: s) r (v.shift 4) := by
  cases v with
  | granted n =>
    obtain ⟨h1, h2, h3⟩ := h
    refine ⟨h1, by simp; omega, ?_⟩
    rw [h3]
    have : 4 + n = n + 1 + 1 + 1 + 1 := by omega
    rw [this]; simp
  | refused => exact h
  | refusedCut => exact h
  | bad => exact h

theorem meets_first4 (cfg : Cfg) (s : Bytes) :
    Meets s (runRef ⟨cfg, .first4, []⟩ s) (Spec.verdict4 s) := by
  rw [runRef_first4]
  match s with
  | [] | [_] | [_, _] | [_, _, _] | [_, _, _, _] | [_, _, _, _, _] | [_, _, _, _, _, _]
  | [_, _, _, _, _, _, _] => simp [Spec.verdict4, Meets, eofRun]
  | vn :: cd :: a :: b :: c :: d :: e :: f :: rest =>
    simp only [Spec.verdict4]
    by_cases h1 : vn = 0
    · by_cases h2 : cd = 90 <;> simp [h1, h2, Meets]
    · simp [h1, Meets]

theorem meets_connect (cfg : Cfg) (s : Bytes) :
    Meets s (runRef ⟨cfg, .connect, []⟩ s) (Spec.connectReply s) := by
  rw [runRef_connect]
  match s with
  | [] | [_] | [_, _] | [_, _, _] => simp [Spec.connectReply, Meets, eofRun]
  | [v, rep, rsv, atyp] =>
    simp only [Spec.connectReply, Spec.addrFieldLen]
    by_cases hb : v ≠ 5 ∨ rsv ≠ 0
    · simp [hb, Meets, eofRun]
    · simp only [hb, if_false]
      by_cases ha : atyp = 1 ∨ atyp = 3 ∨ atyp = 4
      · by_cases hrep : rep = 0
        · rcases ha with rfl | rfl | rfl <;> simp [hrep, Meets, eofRun]
        · rcases ha with rfl | rfl | rfl <;> simp [hrep, Meets, eofRun]
      · simp [ha, Meets, eofRun]
  | v :: rep :: rsv :: atyp :: l :: rest =>
    simp only [Spec.connectReply, Spec.addrFieldLen]
    by_cases hb : v ≠ 5 ∨ rsv ≠ 0
    · have : v ≠ 5 ∨ rsv ≠ 0 ∨ ¬ (atyp = 1 ∨ atyp = 3 ∨ atyp = 4) := by
        rcases hb with h | h
        · exact Or.inl h
        · exact Or.inr (Or.inl h)
      rw [if_pos this]
      simp [hb, Meets]
    · simp only [hb, if_false]
      have hv : v = 5 := Decidable.byContradiction fun h => hb (Or.inl h)
      have hr : rsv = 0 := Decidable.byContradiction fun h => hb (Or.inr h)
      by_cases ha : atyp = 1 ∨ atyp = 3 ∨ atyp = 4
      · have hno : ¬ (v ≠ 5 ∨ rsv ≠ 0 ∨ ¬ (atyp = 1 ∨ atyp = 3 ∨ atyp = 4)) := by
          rintro (h | h | h)
          · exact h hv
          · exact h hr
          · exact h ha
        simp only [hno, if_false, ha, not_true_eq_false]
        have key : ∀ (n : Nat), Spec.addrFieldLen atyp (l :: rest) = some (n + 1) →
            addrLenOf atyp l = n →
            Meets (v :: rep :: rsv :: atyp :: l :: rest)
              (if rep ≠ 0 then ⟨some .socksFailure, [], rest⟩
               else if rest.length < n + 2 then eofRun
               else ⟨none, [], rest.drop (n + 2)⟩)
              (if n + 1 + 2 ≤ (l :: rest).length then
                 (if rep = 0 then .granted (4 + (n + 1) + 2) else .refused)
               else (if rep = 0 then .bad else .refusedCut)) := by
          intro n _ _
          by_cases hrep : rep = 0
          · by_cases hlen : rest.length < n + 2
            · have h' : ¬ (n + 2 ≤ rest.length) := by omega
              simp [hrep, hlen, h', Meets, eofRun]
            · have : n + 1 + 2 ≤ (l :: rest).length := by simp; omega
              simp only [hrep, ne_eq, not_true_eq_false, if_false, hlen, this, if_true, Meets]
              refine ⟨trivial, by simp; omega, ?_⟩
              have e : 4 + (n + 1) + 2 = (n + 2) + 1 + 1 + 1 + 1 + 1 := by omega
              rw [e]; simp
          · by_cases hlen : n + 2 ≤ rest.length <;> simp [hrep, hlen, Meets]
        subst hv hr
        rcases ha with rfl | rfl | rfl
        · have := key 3 (by simp [Spec.addrFieldLen]) (by simp [addrLenOf])
          simpa [Spec.addrFieldLen, addrLenOf] using this
        · have := key l.toNat (by simp [Spec.addrFieldLen]; omega) (by simp [addrLenOf])
          simpa [Spec.addrFieldLen, addrLenOf, Nat.add_comm] using this
        · have := key 15 (by simp [Spec.addrFieldLen]) (by simp [addrLenOf])
          simpa [Spec.addrFieldLen, addrLenOf] using this
      · have : v ≠ 5 ∨ rsv ≠ 0 ∨ ¬ (atyp = 1 ∨ atyp = 3 ∨ atyp = 4) := Or.inr (Or.inr ha)
        rw [if_pos this]
        simp [ha, Meets]

end Aiorpcx.C17
