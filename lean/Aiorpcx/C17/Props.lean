import Aiorpcx.C17.Meets
import Aiorpcx.Facts.C17
/-!
# C17 — the SOCKS handshake outcome depends only on the reply bytes; never over-reads

Model (`C16/Model.lean`, mirrors `socks.py`): `handshake oracle client sock` is
`SOCKSProxy._handshake` driving a protocol object over a socket whose remaining reply bytes are
`sock.stream`; `oracle i` proposes how many bytes the `i`-th `sock_recv` returns (clamped to
`[1, min requested available]`, `b''` when the stream is exhausted), so the theorems below,
quantified over **every** oracle, cover every segmentation of the reply stream including one
byte at a time and EOF at every offset.  SPEC: `C17/Spec.lean`, the reply grammar written from
the SOCKS4 protocol note and RFC 1928 / RFC 1929.  No bound on stream length anywhere.
-/
namespace Aiorpcx.C17
open Aiorpcx.Socks

/-- methods a SOCKS5 object offers (`SOCKS5._authentication`) -/
def methodsOf (creds : Bool) : List UInt8 := if creds then [0, 2] else [0]

/-- configurations the theorems range over: any SOCKS5 object (`dst`, `authBytes` arbitrary,
    methods `[0]` or `[0, 2]`), and any SOCKS4 / SOCKS4a object whose request could be built
    (`socks4Start` succeeded: destination and user id have a UTF-8 form) -/
inductive GoodCfg : Cfg → Prop where
  | s5 (dst ab : Bytes) (creds : Bool) : GoodCfg (.s5 dst ab (methodsOf creds))
  | s4 (h : Host) (port : Nat) (a : Auth) (b : Bytes) (hs : socks4Start h port a = .ok b) :
      GoodCfg (.s4 h port a)

/-- what the replies mean for this configuration, by the independent reply grammar -/
def verdictFor : Cfg → Bytes → Spec.Verdict
  | .s4 .., s => Spec.verdict4 s
  | .s5 _ _ ms, s => Spec.verdict5 (ms.contains 2) s

/-! ## segmentation is irrelevant -/

/-- **Segmentation independence.**  For any client state, any reply stream and any two
    segmentation oracles (and recv counters) the handshake has the same outcome, sends the
    same messages and leaves exactly the same bytes unread — hence consumes the same number of
    bytes. -/
theorem segmentation_irrelevant (o₁ o₂ : Nat → Nat) (c : Client) (stream : Bytes) (i₁ i₂ : Nat) :
    refOf (handshake o₁ c ⟨stream, i₁⟩) = refOf (handshake o₂ c ⟨stream, i₂⟩) := by
  rw [handshake_ref, handshake_ref]

/-- two genuinely different segmentations of the same 13 reply bytes: 12 `recv` calls of one
    byte each vs 3 calls (2, 5, 5 bytes); the last byte is application data -/
example :
    handshake (fun _ => 1) (Client.init (.s5 [1, 8, 8, 8, 8, 0, 53] [] [0]))
      ⟨[5, 0, 5, 0, 0, 1, 1, 2, 3, 4, 0, 80, 0x16], 0⟩ =
    ⟨none, [[5, 1, 0], [5, 1, 0, 1, 8, 8, 8, 8, 0, 53]], [0x16],
     [(2, 1), (1, 1), (5, 1), (4, 1), (3, 1), (2, 1), (1, 1), (5, 1), (4, 1), (3, 1), (2, 1),
      (1, 1)]⟩ ∧
    handshake (fun _ => 1000) (Client.init (.s5 [1, 8, 8, 8, 8, 0, 53] [] [0]))
      ⟨[5, 0, 5, 0, 0, 1, 1, 2, 3, 4, 0, 80, 0x16], 0⟩ =
    ⟨none, [[5, 1, 0], [5, 1, 0, 1, 8, 8, 8, 8, 0, 53]], [0x16], [(2, 2), (5, 5), (5, 5)]⟩ :=
  ⟨handshakeFuel_sound _ 40 _ _ _ (by decide +kernel),
   handshakeFuel_sound _ 40 _ _ _ (by decide +kernel)⟩

/-! ## the outcome is what the replies mean -/

theorem meets_first5 (dst ab : Bytes) (creds : Bool) (s : Bytes) :
    Meets s (runRef ⟨.s5 dst ab (methodsOf creds), .first5, []⟩ s) (Spec.verdict5 creds s) := by
  rw [runRef_first5]
  match s with
  | [] | [_] => simp [Spec.verdict5, Meets, eofRun]
  | v :: m :: s1 =>
    simp only [Spec.verdict5, Cfg.methods]
    by_cases hv : v = 5
    · subst hv
      simp only [ne_eq, not_true_eq_false, if_false]
      by_cases h0 : m = 0
      · subst h0
        have hm : (0 : UInt8) ∈ methodsOf creds := by cases creds <;> simp [methodsOf]
        simp only [hm, not_true_eq_false, if_false, show ¬ ((0 : UInt8) = 2) by decide, if_true]
        rw [meets_consMsg]
        exact meets_shift2 _ _ _ _ _ (meets_connect _ s1)
      · by_cases h2 : m = 2 ∧ creds = true
        · obtain ⟨rfl, rfl⟩ := h2
          have hm : (2 : UInt8) ∈ methodsOf true := by simp [methodsOf]
          simp only [hm, not_true_eq_false, if_false, if_true, h0, and_self]
          rw [meets_consMsg, runRef_auth]
          match s1 with
          | [] | [_] => simp [Meets, eofRun]
          | av :: st :: s2 =>
            simp only
            by_cases ha : av = 1
            · by_cases hs : st = 0
              · subst ha hs
                simp only [ne_eq, not_true_eq_false, if_false]
                rw [meets_consMsg]
                exact meets_shift4 _ _ _ _ _ _ _ (meets_connect _ s2)
              · simp [ha, hs, Meets]
            · simp [ha, Meets]
        · have hm : m ∉ methodsOf creds := by
            cases creds
            · simp [methodsOf, h0]
            · simp only [methodsOf, if_true, List.mem_cons, List.not_mem_nil, or_false]
              rintro (h | h)
              · exact h0 h
              · exact h2 ⟨h, rfl⟩
          simp [hm, h0, h2, Meets]
    · simp [hv, Meets]

theorem methodsOf_contains (creds : Bool) : (methodsOf creds).contains 2 = creds := by
  cases creds <;> decide

/-- the reference run of a good configuration meets the verdict of the reply grammar -/
theorem meets_runRef {cfg : Cfg} (hg : GoodCfg cfg) (stream : Bytes) :
    Meets stream (runRef (Client.init cfg) stream) (verdictFor cfg stream) := by
  cases hg with
  | s5 dst ab creds =>
    rw [runRef_start_s5, meets_consMsg]
    simp only [verdictFor, methodsOf_contains]
    exact meets_first5 dst ab creds stream
  | s4 h port a b hs =>
    rw [runRef_start_s4 h port a b stream hs, meets_consMsg]
    exact meets_first4 _ stream

/-- **Outcome = meaning of the replies**, for every segmentation.  With `v` the verdict of the
    independent reply grammar on the stream:
    * `granted n` (the stream starts with a complete well-formed granting reply sequence of
      `n` bytes): the handshake returns normally and exactly the bytes after those `n` are left
      on the socket;
    * `refused` (well-formed refusal): `SOCKSFailure`;
    * `bad` (malformed byte, or the stream ends before the replies are complete):
      `SOCKSProtocolError`;
    * `refusedCut` (an RFC 1928 reply header carrying a refusal code, cut short by EOF):
      `SOCKSFailure` or `SOCKSProtocolError`. -/
theorem outcome_spec {cfg : Cfg} (hg : GoodCfg cfg) (oracle : Nat → Nat) (stream : Bytes)
    (idx : Nat) :
    Meets stream (refOf (handshake oracle (Client.init cfg) ⟨stream, idx⟩))
      (verdictFor cfg stream) := by
  rw [handshake_ref]
  exact meets_runRef hg stream

/-- **Success iff granted**: the handshake reports success exactly when the replies are well
    formed and grant the request. -/
theorem success_iff_granted {cfg : Cfg} (hg : GoodCfg cfg) (oracle : Nat → Nat) (stream : Bytes)
    (idx : Nat) :
    (handshake oracle (Client.init cfg) ⟨stream, idx⟩).outcome = none ↔
      ∃ n, verdictFor cfg stream = .granted n := by
  have h := outcome_spec hg oracle stream idx
  cases hv : verdictFor cfg stream with
  | granted n => rw [hv] at h; exact ⟨fun _ => ⟨n, rfl⟩, fun _ => h.1⟩
  | refused => rw [hv] at h; simp only [Meets, refOf] at h; simp [h]
  | refusedCut => rw [hv] at h; simp only [Meets, refOf] at h; rcases h with h | h <;> simp [h]
  | bad => rw [hv] at h; simp only [Meets, refOf] at h; simp [h]

/-- **No other exception**: whatever the proxy sends and however it is segmented, the
    handshake returns, raises `SOCKSFailure` or raises `SOCKSProtocolError`. -/
theorem no_other_exception {cfg : Cfg} (hg : GoodCfg cfg) (oracle : Nat → Nat) (stream : Bytes)
    (idx : Nat) :
    let o := (handshake oracle (Client.init cfg) ⟨stream, idx⟩).outcome
    o = none ∨ o = some .socksFailure ∨ o = some .socksProtocolError := by
  have h := outcome_spec hg oracle stream idx
  cases hv : verdictFor cfg stream with
  | granted n => rw [hv] at h; exact Or.inl h.1
  | refused => rw [hv] at h; exact Or.inr (Or.inl h)
  | refusedCut => rw [hv] at h; rcases h with h | h
                  · exact Or.inr (Or.inl h)
                  · exact Or.inr (Or.inr h)
  | bad => rw [hv] at h; exact Or.inr (Or.inr h)

/-- the model is not total by accident: a SOCKS4 object whose user id is a lone surrogate lets
    `UnicodeEncodeError` out of the handshake (outside `GoodCfg`) -/
example : handshake (fun _ => 1)
      (Client.init (.s4 (.ipv4 (vec4 1 2 3 4)) 80 (some ([0xD800], [])))) ⟨[0, 90], 0⟩
    = ⟨some .unicodeEncodeError, [], [0, 90], []⟩ :=
  handshakeFuel_sound _ 5 _ _ _ (by decide +kernel)

/-! ## exactly the handshake's bytes are taken from the socket -/

/-- **Exact consumption.**  If the stream is a granting reply sequence `seq` followed by
    anything at all (`trailing`: whatever the proxy relays next), then for every segmentation
    the handshake succeeds and `trailing` is left on the socket untouched. -/
theorem exact_consumption {cfg : Cfg} (hg : GoodCfg cfg) (oracle : Nat → Nat)
    (seq trailing : Bytes) (idx : Nat)
    (hv : verdictFor cfg (seq ++ trailing) = .granted seq.length) :
    let r := handshake oracle (Client.init cfg) ⟨seq ++ trailing, idx⟩
    r.outcome = none ∧ r.unread = trailing := by
  have h := outcome_spec hg oracle (seq ++ trailing) idx
  rw [hv] at h
  exact ⟨h.1, by simpa [refOf] using h.2.2⟩

/-- the verdict looks at nothing beyond the granting sequence: bytes after it do not matter -/
theorem verdict4_granted_len (s : Bytes) (n : Nat) (h : Spec.verdict4 s = .granted n) : n = 8 := by
  match s with
  | [] | [_] | [_, _] | [_, _, _] | [_, _, _, _] | [_, _, _, _, _] | [_, _, _, _, _, _]
  | [_, _, _, _, _, _, _] => simp [Spec.verdict4] at h
  | vn :: cd :: a :: b :: c :: d :: e :: f :: rest =>
    simp only [Spec.verdict4] at h
    split at h
    · simp at h
    · split at h <;> simp at h
      exact h.symm

theorem connectReply_granted_len (s : Bytes) (n : Nat) (h : Spec.connectReply s = .granted n) :
    ∃ atyp after addr, s.drop 3 = atyp :: after ∧ Spec.addrFieldLen atyp after = some addr ∧
      n = 4 + addr + 2 ∧
      (addr = 4 ∨ addr = 16 ∨ ∃ l rest, after = l :: rest ∧ addr = 1 + l.toNat) := by
  match s with
  | [] | [_] | [_, _] | [_, _, _] => simp [Spec.connectReply] at h
  | ver :: rep :: rsv :: atyp :: after =>
    simp only [Spec.connectReply] at h
    split at h
    · simp at h
    · split at h
      · simp at h
      · split at h
        · rename_i addr ha
          split at h
          · split at h
            · simp at h
              refine ⟨atyp, after, addr, by simp, ha, h.symm, ?_⟩
              unfold Spec.addrFieldLen at ha
              split at ha
              · simp at ha; exact Or.inl ha.symm
              · split at ha
                · simp at ha; exact Or.inr (Or.inl ha.symm)
                · split at ha
                  · cases after with
                    | nil => simp at ha
                    | cons l rest =>
                      simp at ha
                      exact Or.inr (Or.inr ⟨l, rest, rfl, ha.symm⟩)
                  · simp at ha
            · simp at h
          · split at h <;> simp at h
        · split at h <;> simp at h

/-- **Length of a granted handshake**: 8 bytes for SOCKS4/4a; for SOCKS5
    `2 [+ 2] + 4 + (4 | 1 + len | 16) + 2`. -/
theorem granted_length {cfg : Cfg} (stream : Bytes) (n : Nat)
    (h : verdictFor cfg stream = .granted n) :
    match cfg with
    | .s4 .. => n = 8
    | .s5 .. => ∃ auth addr, (auth = 0 ∨ auth = 2) ∧
        (addr = 4 ∨ addr = 16 ∨ ∃ l : UInt8, addr = 1 + l.toNat) ∧
        n = 2 + auth + 4 + addr + 2 := by
  cases cfg with
  | s4 hh port a => exact verdict4_granted_len stream n h
  | s5 dst ab ms =>
    simp only [verdictFor] at h ⊢
    match stream with
    | [] | [_] => simp [Spec.verdict5] at h
    | v :: m :: s1 =>
      simp only [Spec.verdict5] at h
      split at h
      · simp at h
      · split at h
        · cases hc : Spec.connectReply s1 with
          | granted k =>
            rw [hc] at h
            simp [Spec.Verdict.shift] at h
            obtain ⟨_, _, addr, _, _, hk, hcase⟩ := connectReply_granted_len s1 k hc
            refine ⟨0, addr, Or.inl rfl, ?_, by omega⟩
            rcases hcase with h1 | h1 | ⟨l, _, _, h1⟩
            · exact Or.inl h1
            · exact Or.inr (Or.inl h1)
            · exact Or.inr (Or.inr ⟨l, h1⟩)
          | refused => rw [hc] at h; simp [Spec.Verdict.shift] at h
          | refusedCut => rw [hc] at h; simp [Spec.Verdict.shift] at h
          | bad => rw [hc] at h; simp [Spec.Verdict.shift] at h
        · split at h
          · match s1 with
            | [] | [_] => simp at h
            | av :: st :: s2 =>
              simp only at h
              split at h
              · simp at h
              · split at h
                · simp at h
                · cases hc : Spec.connectReply s2 with
                  | granted k =>
                    rw [hc] at h
                    simp [Spec.Verdict.shift] at h
                    obtain ⟨_, _, addr, _, _, hk, hcase⟩ := connectReply_granted_len s2 k hc
                    refine ⟨2, addr, Or.inr rfl, ?_, by omega⟩
                    rcases hcase with h1 | h1 | ⟨l, _, _, h1⟩
                    · exact Or.inl h1
                    · exact Or.inr (Or.inl h1)
                    · exact Or.inr (Or.inr ⟨l, h1⟩)
                  | refused => rw [hc] at h; simp [Spec.Verdict.shift] at h
                  | refusedCut => rw [hc] at h; simp [Spec.Verdict.shift] at h
                  | bad => rw [hc] at h; simp [Spec.Verdict.shift] at h
          · simp at h

end Aiorpcx.C17
