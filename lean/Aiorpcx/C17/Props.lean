import Aiorpcx.C17.Meets
import Aiorpcx.C17.Recv
import Aiorpcx.C17.FactsTie
import Aiorpcx.C17.FactsTie2
import Aiorpcx.C17.FactsTie3
import Aiorpcx.C17.FactsTie4
import Aiorpcx.C17.Prefix
import Aiorpcx.C17.Sent
/-!
# C17 — the SOCKS handshake outcome depends only on the reply bytes; never over-reads

Model (`C16/Model.lean`, mirrors `socks.py`): `handshake oracle client sock` is
`SOCKSProxy._handshake` driving a protocol object over a socket whose remaining reply bytes are
`sock.stream`; `oracle i` proposes how many bytes the `i`-th `sock_recv` returns (clamped to
`[1, min requested available]`, `b''` when the stream is exhausted), so the theorems below,
quantified over **every** oracle, cover every segmentation of the reply stream including one
byte at a time and EOF at every offset.  SPEC: `C17/Spec.lean`, the reply grammar written from
the SOCKS4 protocol note and RFC 1928 / RFC 1929.  No bound on stream length anywhere.
-/
namespace Aiorpcx.C17
open Aiorpcx.Socks

/-- methods a SOCKS5 object offers (`SOCKS5._authentication`) -/
def methodsOf (creds : Bool) : List UInt8 := if creds then [0, 2] else [0]

/-- configurations the theorems range over: any SOCKS5 object (`dst`, `authBytes` arbitrary,
    methods `[0]` or `[0, 2]`), and any SOCKS4 / SOCKS4a object whose request could be built
    (`socks4Start` succeeded: destination and user id have a UTF-8 form) -/
inductive GoodCfg : Cfg → Prop where
  | s5 (dst ab : Bytes) (creds : Bool) : GoodCfg (.s5 dst ab (methodsOf creds))
  | s4 (h : Host) (port : Nat) (a : Auth) (b : Bytes) (hs : socks4Start h port a = .ok b) :
      GoodCfg (.s4 h port a)

/-- what the replies mean for this configuration, by the independent reply grammar -/
def verdictFor : Cfg → Bytes → Spec.Verdict
  | .s4 .., s => Spec.verdict4 s
  | .s5 _ _ ms, s => Spec.verdict5 (ms.contains 2) s

/-! ## segmentation is irrelevant -/

/-- **Segmentation independence.**  For any client state, any reply stream and any two
    segmentation oracles (and recv counters) the handshake has the same outcome, sends the
    same messages and leaves exactly the same bytes unread — hence consumes the same number of
    bytes. -/
theorem segmentation_irrelevant (o₁ o₂ : Nat → Nat) (c : Client) (stream : Bytes) (i₁ i₂ : Nat) :
    refOf (handshake o₁ c ⟨stream, i₁⟩) = refOf (handshake o₂ c ⟨stream, i₂⟩) := by
  rw [handshake_ref, handshake_ref]

/-- two genuinely different segmentations of the same 13 reply bytes: 12 `recv` calls of one
    byte each vs 3 calls (2, 5, 5 bytes); the last byte is application data -/
example :
    handshake (fun _ => 1) (Client.init (.s5 [1, 8, 8, 8, 8, 0, 53] [] [0]))
      ⟨[5, 0, 5, 0, 0, 1, 1, 2, 3, 4, 0, 80, 0x16], 0⟩ =
    ⟨none, [[5, 1, 0], [5, 1, 0, 1, 8, 8, 8, 8, 0, 53]], [0x16],
     [(2, 1), (1, 1), (5, 1), (4, 1), (3, 1), (2, 1), (1, 1), (5, 1), (4, 1), (3, 1), (2, 1),
      (1, 1)]⟩ ∧
    handshake (fun _ => 1000) (Client.init (.s5 [1, 8, 8, 8, 8, 0, 53] [] [0]))
      ⟨[5, 0, 5, 0, 0, 1, 1, 2, 3, 4, 0, 80, 0x16], 0⟩ =
    ⟨none, [[5, 1, 0], [5, 1, 0, 1, 8, 8, 8, 8, 0, 53]], [0x16], [(2, 2), (5, 5), (5, 5)]⟩ :=
  ⟨handshakeFuel_sound _ 40 _ _ _ (by decide +kernel),
   handshakeFuel_sound _ 40 _ _ _ (by decide +kernel)⟩

/-! ## the outcome is what the replies mean -/

theorem meets_first5 (dst ab : Bytes) (creds : Bool) (s : Bytes) :
    Meets s (runRef ⟨.s5 dst ab (methodsOf creds), .first5, []⟩ s) (Spec.verdict5 creds s) := by
  rw [runRef_first5]
  match s with
  | [] | [_] => simp [Spec.verdict5, Meets, eofRun]
  | v :: m :: s1 =>
    simp only [Spec.verdict5, Cfg.methods]
    by_cases hv : v = 5
    · subst hv
      simp only [ne_eq, not_true_eq_false, if_false]
      by_cases h0 : m = 0
      · subst h0
        have hm : (0 : UInt8) ∈ methodsOf creds := by cases creds <;> simp [methodsOf]
        simp only [hm, not_true_eq_false, if_false, show ¬ ((0 : UInt8) = 2) by decide, if_true]
        rw [meets_consMsg]
        exact meets_shift2 _ _ _ _ _ (meets_connect _ s1)
      · by_cases h2 : m = 2 ∧ creds = true
        · obtain ⟨rfl, rfl⟩ := h2
          have hm : (2 : UInt8) ∈ methodsOf true := by simp [methodsOf]
          simp only [hm, not_true_eq_false, if_false, if_true, h0, and_self]
          rw [meets_consMsg, runRef_auth]
          match s1 with
          | [] | [_] => simp [Meets, eofRun]
          | av :: st :: s2 =>
            simp only
            by_cases ha : av = 1
            · by_cases hs : st = 0
              · subst ha hs
                simp only [ne_eq, not_true_eq_false, if_false]
                rw [meets_consMsg]
                exact meets_shift4 _ _ _ _ _ _ _ (meets_connect _ s2)
              · simp [ha, hs, Meets]
            · simp [ha, Meets]
        · have hm : m ∉ methodsOf creds := by
            cases creds
            · simp [methodsOf, h0]
            · simp only [methodsOf, if_true, List.mem_cons, List.not_mem_nil, or_false]
              rintro (h | h)
              · exact h0 h
              · exact h2 ⟨h, rfl⟩
          simp [hm, h0, h2, Meets]
    · simp [hv, Meets]

theorem methodsOf_contains (creds : Bool) : (methodsOf creds).contains 2 = creds := by
  cases creds <;> decide

/-- the reference run of a good configuration meets the verdict of the reply grammar -/
theorem meets_runRef {cfg : Cfg} (hg : GoodCfg cfg) (stream : Bytes) :
    Meets stream (runRef (Client.init cfg) stream) (verdictFor cfg stream) := by
  cases hg with
  | s5 dst ab creds =>
    rw [runRef_start_s5, meets_consMsg]
    simp only [verdictFor, methodsOf_contains]
    exact meets_first5 dst ab creds stream
  | s4 h port a b hs =>
    rw [runRef_start_s4 h port a b stream hs, meets_consMsg]
    exact meets_first4 _ stream

/-- **Outcome = meaning of the replies**, for every segmentation.  With `v` the verdict of the
    independent reply grammar on the stream:
    * `granted n` (the stream starts with a complete well-formed granting reply sequence of
      `n` bytes): the handshake returns normally and exactly the bytes after those `n` are left
      on the socket;
    * `refused` (well-formed refusal): `SOCKSFailure`;
    * `bad` (malformed byte, or the stream ends before the replies are complete):
      `SOCKSProtocolError`;
    * `refusedCut` (an RFC 1928 reply header carrying a refusal code, cut short by EOF):
      `SOCKSFailure` or `SOCKSProtocolError`. -/
theorem outcome_spec {cfg : Cfg} (hg : GoodCfg cfg) (oracle : Nat → Nat) (stream : Bytes)
    (idx : Nat) :
    Meets stream (refOf (handshake oracle (Client.init cfg) ⟨stream, idx⟩))
      (verdictFor cfg stream) := by
  rw [handshake_ref]
  exact meets_runRef hg stream

/-- **Success iff granted**: the handshake reports success exactly when the replies are well
    formed and grant the request. -/
theorem success_iff_granted {cfg : Cfg} (hg : GoodCfg cfg) (oracle : Nat → Nat) (stream : Bytes)
    (idx : Nat) :
    (handshake oracle (Client.init cfg) ⟨stream, idx⟩).outcome = none ↔
      ∃ n, verdictFor cfg stream = .granted n := by
  have h := outcome_spec hg oracle stream idx
  cases hv : verdictFor cfg stream with
  | granted n => rw [hv] at h; exact ⟨fun _ => ⟨n, rfl⟩, fun _ => h.1⟩
  | refused => rw [hv] at h; simp only [Meets, refOf] at h; simp [h]
  | refusedCut => rw [hv] at h; simp only [Meets, refOf] at h; rcases h with h | h <;> simp [h]
  | bad => rw [hv] at h; simp only [Meets, refOf] at h; simp [h]

/-- **Converse directions**: `SOCKSFailure` is raised only on a refusal (complete, or an RFC 1928
    refusal header cut short); `SOCKSProtocolError` only on a malformed / truncated stream (or
    such a cut-short refusal). -/
theorem failure_only_if_refused {cfg : Cfg} (hg : GoodCfg cfg) (oracle : Nat → Nat)
    (stream : Bytes) (idx : Nat) :
    ((handshake oracle (Client.init cfg) ⟨stream, idx⟩).outcome = some .socksFailure →
      verdictFor cfg stream = .refused ∨ verdictFor cfg stream = .refusedCut) ∧
    ((handshake oracle (Client.init cfg) ⟨stream, idx⟩).outcome = some .socksProtocolError →
      verdictFor cfg stream = .bad ∨ verdictFor cfg stream = .refusedCut) := by
  have h := outcome_spec hg oracle stream idx
  cases hv : verdictFor cfg stream with
  | granted n => rw [hv] at h; simp only [Meets, refOf] at h; simp [h.1]
  | refused => rw [hv] at h; simp only [Meets, refOf] at h; simp [h]
  | refusedCut => simp
  | bad => rw [hv] at h; simp only [Meets, refOf] at h; simp [h]

/-- **No other exception**: whatever the proxy sends and however it is segmented, the
    handshake returns, raises `SOCKSFailure` or raises `SOCKSProtocolError`. -/
theorem no_other_exception {cfg : Cfg} (hg : GoodCfg cfg) (oracle : Nat → Nat) (stream : Bytes)
    (idx : Nat) :
    let o := (handshake oracle (Client.init cfg) ⟨stream, idx⟩).outcome
    o = none ∨ o = some .socksFailure ∨ o = some .socksProtocolError := by
  have h := outcome_spec hg oracle stream idx
  cases hv : verdictFor cfg stream with
  | granted n => rw [hv] at h; exact Or.inl h.1
  | refused => rw [hv] at h; exact Or.inr (Or.inl h)
  | refusedCut => rw [hv] at h; rcases h with h | h
                  · exact Or.inr (Or.inl h)
                  · exact Or.inr (Or.inr h)
  | bad => rw [hv] at h; exact Or.inr (Or.inr h)

/-- the model is not total by accident: a SOCKS4 object whose user id is a lone surrogate lets
    `UnicodeEncodeError` out of the handshake (outside `GoodCfg`) -/
example : handshake (fun _ => 1)
      (Client.init (.s4 (.ipv4 (vec4 1 2 3 4)) 80 (some ([0xD800], [])))) ⟨[0, 90], 0⟩
    = ⟨some .unicodeEncodeError, [], [0, 90], []⟩ :=
  handshakeFuel_sound _ 5 _ _ _ (by decide +kernel)

/-! ## exactly the handshake's bytes are taken from the socket -/

/-- **Exact consumption.**  If the stream is a granting reply sequence `seq` followed by
    anything at all (`trailing`: whatever the proxy relays next), then for every segmentation
    the handshake succeeds and `trailing` is left on the socket untouched. -/
theorem exact_consumption {cfg : Cfg} (hg : GoodCfg cfg) (oracle : Nat → Nat)
    (seq trailing : Bytes) (idx : Nat)
    (hv : verdictFor cfg (seq ++ trailing) = .granted seq.length) :
    let r := handshake oracle (Client.init cfg) ⟨seq ++ trailing, idx⟩
    r.outcome = none ∧ r.unread = trailing := by
  have h := outcome_spec hg oracle (seq ++ trailing) idx
  rw [hv] at h
  exact ⟨h.1, by simpa [refOf] using h.2.2⟩

/-- **EOF at every offset.**  If `seq` is a complete granting reply sequence, then on every
    proper prefix of it (the proxy closes the connection early), under every segmentation, the
    handshake raises `SOCKSProtocolError`. -/
theorem eof_before_completion {cfg : Cfg} (hg : GoodCfg cfg) (oracle : Nat → Nat) (seq : Bytes)
    (idx : Nat) (hv : verdictFor cfg seq = .granted seq.length) (j : Nat) (hj : j < seq.length) :
    (handshake oracle (Client.init cfg) ⟨seq.take j, idx⟩).outcome =
      some .socksProtocolError := by
  have h := outcome_spec hg oracle (seq.take j) idx
  have hbad : verdictFor cfg (seq.take j) = .bad := by
    cases cfg with
    | s4 hh port a => exact verdict4_prefix_bad seq hv j hj
    | s5 dst ab ms => exact verdict5_prefix_bad _ seq hv j hj
  rw [hbad] at h
  exact h

theorem verdict4_granted_len (s : Bytes) (n : Nat) (h : Spec.verdict4 s = .granted n) : n = 8 := by
  match s with
  | [] | [_] | [_, _] | [_, _, _] | [_, _, _, _] | [_, _, _, _, _] | [_, _, _, _, _, _]
  | [_, _, _, _, _, _, _] => simp [Spec.verdict4] at h
  | vn :: cd :: a :: b :: c :: d :: e :: f :: rest =>
    simp only [Spec.verdict4] at h
    split at h
    · simp at h
    · split at h <;> simp at h
      exact h.symm

theorem connectReply_granted_len (s : Bytes) (n : Nat) (h : Spec.connectReply s = .granted n) :
    ∃ atyp after addr, s.drop 3 = atyp :: after ∧ Spec.addrFieldLen atyp after = some addr ∧
      n = 4 + addr + 2 ∧
      (addr = 4 ∨ addr = 16 ∨ ∃ l rest, after = l :: rest ∧ addr = 1 + l.toNat) := by
  match s with
  | [] | [_] | [_, _] | [_, _, _] => simp [Spec.connectReply] at h
  | ver :: rep :: rsv :: atyp :: after =>
    simp only [Spec.connectReply] at h
    split at h
    · simp at h
    · split at h
      · simp at h
      · split at h
        · rename_i addr ha
          split at h
          · split at h
            · simp at h
              refine ⟨atyp, after, addr, by simp, ha, h.symm, ?_⟩
              unfold Spec.addrFieldLen at ha
              split at ha
              · simp at ha; exact Or.inl ha.symm
              · split at ha
                · simp at ha; exact Or.inr (Or.inl ha.symm)
                · split at ha
                  · cases after with
                    | nil => simp at ha
                    | cons l rest =>
                      simp at ha
                      exact Or.inr (Or.inr ⟨l, rest, rfl, ha.symm⟩)
                  · simp at ha
            · simp at h
          · split at h <;> simp at h
        · split at h <;> simp at h

/-- **Length of a granted handshake**: 8 bytes for SOCKS4/4a; for SOCKS5
    `2 [+ 2] + 4 + (4 | 1 + len | 16) + 2`. -/
theorem granted_length {cfg : Cfg} (stream : Bytes) (n : Nat)
    (h : verdictFor cfg stream = .granted n) :
    match cfg with
    | .s4 .. => n = 8
    | .s5 .. => ∃ auth addr, (auth = 0 ∨ auth = 2) ∧
        (addr = 4 ∨ addr = 16 ∨ ∃ l : UInt8, addr = 1 + l.toNat) ∧
        n = 2 + auth + 4 + addr + 2 := by
  cases cfg with
  | s4 hh port a => exact verdict4_granted_len stream n h
  | s5 dst ab ms =>
    simp only [verdictFor] at h ⊢
    match stream with
    | [] | [_] => simp [Spec.verdict5] at h
    | v :: m :: s1 =>
      simp only [Spec.verdict5] at h
      split at h
      · simp at h
      · split at h
        · cases hc : Spec.connectReply s1 with
          | granted k =>
            rw [hc] at h
            simp [Spec.Verdict.shift] at h
            obtain ⟨_, _, addr, _, _, hk, hcase⟩ := connectReply_granted_len s1 k hc
            refine ⟨0, addr, Or.inl rfl, ?_, by omega⟩
            rcases hcase with h1 | h1 | ⟨l, _, _, h1⟩
            · exact Or.inl h1
            · exact Or.inr (Or.inl h1)
            · exact Or.inr (Or.inr ⟨l, h1⟩)
          | refused => rw [hc] at h; simp [Spec.Verdict.shift] at h
          | refusedCut => rw [hc] at h; simp [Spec.Verdict.shift] at h
          | bad => rw [hc] at h; simp [Spec.Verdict.shift] at h
        · split at h
          · match s1 with
            | [] | [_] => simp at h
            | av :: st :: s2 =>
              simp only at h
              split at h
              · simp at h
              · split at h
                · simp at h
                · cases hc : Spec.connectReply s2 with
                  | granted k =>
                    rw [hc] at h
                    simp [Spec.Verdict.shift] at h
                    obtain ⟨_, _, addr, _, _, hk, hcase⟩ := connectReply_granted_len s2 k hc
                    refine ⟨2, addr, Or.inr rfl, ?_, by omega⟩
                    rcases hcase with h1 | h1 | ⟨l, _, _, h1⟩
                    · exact Or.inl h1
                    · exact Or.inr (Or.inl h1)
                    · exact Or.inr (Or.inr ⟨l, h1⟩)
                  | refused => rw [hc] at h; simp [Spec.Verdict.shift] at h
                  | refusedCut => rw [hc] at h; simp [Spec.Verdict.shift] at h
                  | bad => rw [hc] at h; simp [Spec.Verdict.shift] at h
          · simp at h

/-- **Exact consumption, request by request** (with `recv_conservation` and
    `recv_within_handshake` of `Recv.lean`): in a granted handshake of `n` bytes the `recv`
    calls return exactly `n` bytes in total, and each call asks for at least 1 byte and at most
    the number of handshake bytes still outstanding when it is made. -/
theorem recv_sizes_bounded {cfg : Cfg} (hg : GoodCfg cfg) (oracle : Nat → Nat) (stream : Bytes)
    (idx n : Nat) (hv : verdictFor cfg stream = .granted n) :
    let r := handshake oracle (Client.init cfg) ⟨stream, idx⟩
    sumN r.recvs = n ∧
    ∀ pre k got post, r.recvs = pre ++ (k, got) :: post →
      1 ≤ k ∧ got ≤ k ∧ k ≤ n - sumN pre := by
  have h := outcome_spec hg oracle stream idx
  rw [hv] at h
  obtain ⟨hok, hn, hun⟩ := h
  have hc := recv_conservation oracle (Client.init cfg) ⟨stream, idx⟩
  have hsum : sumN (handshake oracle (Client.init cfg) ⟨stream, idx⟩).recvs = n := by
    simp only [refOf] at hun
    rw [hun] at hc
    simp only [List.length_drop] at hc
    omega
  refine ⟨hsum, ?_⟩
  intro pre k got post hsplit
  have := recv_within_handshake oracle (Client.init cfg) ⟨stream, idx⟩ hok pre k got post hsplit
  rw [hsum] at this
  omega

/-! ## `_connect_one` and `_detect_proxy` -/

/-- how one `getaddrinfo` entry ends: `OSError` from `socket.socket()` (which escapes, see
    `isSocketFails`) or from `sock_connect`, the handshake's outcome, or - the handshake
    having succeeded - `OSError` from `getpeername()` -/
def attemptOutcome (cfg : Cfg) : Attempt → Option PyExc
  | .connectFails => some .osError
  | .socketFails => some .osError
  | .talks s o => (handshake o (Client.init cfg) ⟨s, 0⟩).outcome
  | .peernameFails s o =>
    match (handshake o (Client.init cfg) ⟨s, 0⟩).outcome with
    | none => some .osError
    | some e => some e

def isSuccess (cfg : Cfg) (a : Attempt) : Bool := (attemptOutcome cfg a).isNone

/-- `socket.socket(family)` raises: it sits outside the `try`, so the `OSError` escapes -/
def isSocketFails : Attempt → Bool
  | .socketFails => true
  | _ => false

/-- the exception `_connect_one` is left holding after trying all entries -/
def lastExc (cfg : Cfg) : List Attempt → Option PyExc → Option PyExc
  | [], l => l
  | a :: as, _ => lastExc cfg as (attemptOutcome cfg a)

theorem lastExc_getLast (cfg : Cfg) : ∀ (as : List Attempt) (l : Option PyExc) (h : as ≠ []),
    lastExc cfg as l = attemptOutcome cfg (as.getLast h)
  | [a], l, _ => rfl
  | a :: b :: as, l, _ => by
    have := lastExc_getLast cfg (b :: as) (attemptOutcome cfg a) (by simp)
    simpa [lastExc, List.getLast_cons_cons] using this

theorem handshake_outcome_good {cfg : Cfg} (hg : GoodCfg cfg) (s : Bytes) (o : Nat → Nat) :
    (handshake o (Client.init cfg) ⟨s, 0⟩).outcome = none ∨
    ∃ e, (handshake o (Client.init cfg) ⟨s, 0⟩).outcome = some e ∧ isCaught e = true := by
  rcases no_other_exception hg o s 0 with h | h | h
  · exact Or.inl h
  · exact Or.inr ⟨_, h, rfl⟩
  · exact Or.inr ⟨_, h, rfl⟩

/-- an entry that neither succeeds nor fails in `socket.socket()` is skipped: the loop goes
    on to the next entry holding this entry's exception -/
theorem connectOne_skip {cfg : Cfg} (hg : GoodCfg cfg) (b : Attempt) (rest : List Attempt)
    (i : Nat) (last : Option PyExc) (h1 : isSuccess cfg b = false) (h2 : isSocketFails b = false) :
    connectOne (.ok cfg) (b :: rest) i last =
      connectOne (.ok cfg) rest (i + 1) (attemptOutcome cfg b) := by
  cases b with
  | connectFails => simp [connectOne, attemptOutcome]
  | socketFails => simp [isSocketFails] at h2
  | talks s o =>
    rcases handshake_outcome_good hg s o with h | ⟨e, h, hc⟩
    · simp [isSuccess, attemptOutcome, h] at h1
    · simp [connectOne, attemptOutcome, h, hc]
  | peernameFails s o =>
    rcases handshake_outcome_good hg s o with h | ⟨e, h, hc⟩
    · simp [connectOne, attemptOutcome, h]
    · simp [connectOne, attemptOutcome, h, hc]

theorem connectOne_success {cfg : Cfg} (b : Attempt) (rest : List Attempt) (i : Nat)
    (last : Option PyExc) (h1 : isSuccess cfg b = true) :
    ∃ u, connectOne (.ok cfg) (b :: rest) i last = .sock i u := by
  cases b with
  | connectFails => simp [isSuccess, attemptOutcome] at h1
  | socketFails => simp [isSuccess, attemptOutcome] at h1
  | talks s o =>
    simp only [isSuccess, attemptOutcome, Option.isNone_iff_eq_none] at h1
    exact ⟨(handshake o (Client.init cfg) ⟨s, 0⟩).unread, by simp [connectOne, h1]⟩
  | peernameFails s o =>
    simp only [isSuccess, attemptOutcome] at h1
    split at h1 <;> simp at h1

/-- `_connect_one` returns a socket iff some entry's handshake succeeds before any entry fails
    in `socket.socket()` (the first such entry ends the loop); if no entry succeeds and none
    fails in `socket.socket()` it returns the exception of the last entry; the only exceptions
    that escape are the `OSError` of `socket.socket()` and the `UnboundLocalError` of an empty
    `getaddrinfo` result. -/
theorem connectOne_spec {cfg : Cfg} (hg : GoodCfg cfg) :
    ∀ (as : List Attempt) (i : Nat) (last : Option PyExc),
      match connectOne (.ok cfg) as i last with
      | .sock _ _ => as.any (isSuccess cfg) = true
      | .returned e => as.any (isSuccess cfg) = false ∧ as.any isSocketFails = false ∧
          lastExc cfg as last = some e
      | .escaped e => (as = [] ∧ last = none) ∨ (e = .osError ∧ as.any isSocketFails = true)
  | [], i, none => by simp [connectOne]
  | [], i, some e => by simp [connectOne, lastExc]
  | a :: as, i, last => by
    by_cases hs : isSuccess cfg a = true
    · obtain ⟨u, hu⟩ := connectOne_success a as i last hs
      rw [hu]; simp [hs]
    · have hs' : isSuccess cfg a = false := by simpa using hs
      by_cases hf : isSocketFails a = true
      · cases a <;> simp [isSocketFails] at hf
        simp [connectOne, isSocketFails]
      · have hf' : isSocketFails a = false := by simpa using hf
        rw [connectOne_skip hg a as i last hs' hf']
        have ih := connectOne_spec hg as (i + 1) (attemptOutcome cfg a)
        split <;> rename_i heq <;> rw [heq] at ih
        · simp [hs', ih]
        · simp only [List.any_cons, hs', hf', Bool.false_or, lastExc]
          exact ih
        · rcases ih with ⟨rfl, h0⟩ | ⟨he, h1⟩
          · simp [isSuccess, h0] at hs'
          · exact Or.inr ⟨he, by simp [h1]⟩

/-- the first entry whose handshake succeeds wins, when every earlier entry merely failed -/
theorem connectOne_first_success {cfg : Cfg} (hg : GoodCfg cfg) :
    ∀ (pre : List Attempt) (a : Attempt) (post : List Attempt) (i : Nat) (last : Option PyExc),
      (∀ b ∈ pre, isSuccess cfg b = false ∧ isSocketFails b = false) → isSuccess cfg a = true →
      ∃ u, connectOne (.ok cfg) (pre ++ a :: post) i last = .sock (i + pre.length) u
  | [], a, post, i, last, _, ha => by simpa using connectOne_success a post i last ha
  | b :: pre, a, post, i, last, hpre, ha => by
    obtain ⟨h1, h2⟩ := hpre b (by simp)
    obtain ⟨u, hu⟩ := connectOne_first_success hg pre a post (i + 1) (attemptOutcome cfg b)
      (fun x hx => hpre x (by simp [hx])) ha
    refine ⟨u, ?_⟩
    rw [List.cons_append, connectOne_skip hg b _ i last h1 h2, hu]
    congr 1
    simp; omega

/-- **socket creation failing** (`socket.socket(family)` raising, e.g. `EAFNOSUPPORT`) is not
    inside the `try`: the `OSError` escapes `_connect_one` as soon as such an entry is reached,
    the remaining entries are not tried -/
theorem connectOne_socket_failure {cfg : Cfg} (hg : GoodCfg cfg) :
    ∀ (pre post : List Attempt) (i : Nat) (last : Option PyExc),
      (∀ b ∈ pre, isSuccess cfg b = false ∧ isSocketFails b = false) →
      connectOne (.ok cfg) (pre ++ .socketFails :: post) i last = .escaped .osError
  | [], post, i, last, _ => by simp [connectOne]
  | b :: pre, post, i, last, hpre => by
    obtain ⟨h1, h2⟩ := hpre b (by simp)
    rw [List.cons_append, connectOne_skip hg b _ i last h1 h2]
    exact connectOne_socket_failure hg pre post _ _ (fun x hx => hpre x (by simp [hx]))

theorem isSuccess_talks_iff {cfg : Cfg} (hg : GoodCfg cfg) (s : Bytes) (o : Nat → Nat) :
    isSuccess cfg (.talks s o) = true ↔ ∃ n, verdictFor cfg s = .granted n := by
  rw [← success_iff_granted hg o s 0]
  simp [isSuccess, attemptOutcome]

theorem isSuccess_peername (cfg : Cfg) (s : Bytes) (o : Nat → Nat) :
    isSuccess cfg (.peernameFails s o) = false := by
  simp only [isSuccess, attemptOutcome]
  split <;> rfl

/-- the all-zero granting reply most proxies send (`BND.ADDR` 0.0.0.0, `BND.PORT` 0) -/
def grant5 : Bytes := [5, 0, 5, 0, 0, 1, 0, 0, 0, 0, 0, 0]

/-- **the `try` of one proxy attempt, in the model** - the scenarios `Facts.C17.tryScope`
    observes on the real `create_connection` (`facts_exceptions`): a raising constructor and a
    raising `socket.socket()` escape at once; a refused `sock_connect`, a handshake ending in a
    SOCKS error and a raising `getpeername()` are followed by the next address (here: which
    grants, with the all-zero reply), for every segmentation. -/
theorem try_scope_model (o : Nat → Nat) :
    (∀ e a as i last, connectOne (.error e) (a :: as) i last = .escaped e) ∧
    connectOne (.ok cfg5n) [.socketFails, .talks grant5 o] 0 none = .escaped .osError ∧
    (∃ u, connectOne (.ok cfg5n) [.connectFails, .talks grant5 o] 0 none = .sock 1 u) ∧
    (∃ u, connectOne (.ok cfg5n) [.talks [5, 255] o, .talks grant5 o] 0 none = .sock 1 u) ∧
    (∃ u, connectOne (.ok cfg5n) [.peernameFails grant5 o, .talks grant5 o] 0 none = .sock 1 u) := by
  have hg : GoodCfg cfg5n := GoodCfg.s5 _ _ false
  have hgrant : isSuccess cfg5n (.talks grant5 o) = true :=
    (isSuccess_talks_iff hg grant5 o).2 ⟨12, by decide⟩
  have hrefuse : isSuccess cfg5n (.talks [5, 255] o) = false := by
    cases h : isSuccess cfg5n (.talks [5, 255] o) with
    | false => rfl
    | true =>
      obtain ⟨n, hn⟩ := (isSuccess_talks_iff hg [5, 255] o).1 h
      have hv : verdictFor cfg5n [5, 255] = .refused := by decide
      rw [hv] at hn
      cases hn
  refine ⟨fun _ _ _ _ _ => rfl, rfl, ?_, ?_, ?_⟩
  · simpa using connectOne_first_success hg [.connectFails] _ [] 0 none
      (by intro b hb; simp at hb; subst hb; exact ⟨rfl, rfl⟩) hgrant
  · simpa using connectOne_first_success hg [.talks [5, 255] o] _ [] 0 none
      (by intro b hb; simp at hb; subst hb; exact ⟨hrefuse, rfl⟩) hgrant
  · simpa using connectOne_first_success hg [.peernameFails grant5 o] _ [] 0 none
      (by intro b hb; simp at hb; subst hb; exact ⟨isSuccess_peername _ _ _, rfl⟩) hgrant

/-- **`create_connection` to one remote address through a proxy with one address** is the
    handshake: it succeeds iff the handshake does and otherwise raises the handshake's
    exception (this is how the harness drives the handshake: through the public API) -/
theorem create_connection_single {cfg : Cfg} (hg : GoodCfg cfg) (s : Bytes) (o : Nat → Nat) :
    createConnection1 (.ok cfg) [.talks s o] =
      match (handshake o (Client.init cfg) ⟨s, 0⟩).outcome with
      | none => .connected 0 (handshake o (Client.init cfg) ⟨s, 0⟩).unread
      | some e => .raised e := by
  rcases handshake_outcome_good hg s o with h | ⟨e, h, hc⟩
  · simp [createConnection1, connectOne, h, OneRes.toAddr, connect, connectLoop, connectLoopWith]
  · simp [createConnection1, connectOne, h, hc, OneRes.toAddr, connect, connectLoop,
      connectLoopWith, aggregate]

/-- the protocol object `_detect_proxy` builds -/
def detectCfg (p : Proto) (a : Auth) : Except PyExc Cfg :=
  if p = .socks4a then mkCfg p (.name wwwAppleCom) 80 a
  else mkCfg p (.ipv4 (vec4 8 8 8 8)) 53 a

/-- **Detection verdict.**  When no entry fails in `socket.socket()`, `_detect_proxy` answers
    `True` exactly when some entry's handshake succeeds (and `getpeername()` works) or the
    last entry tried ends in `SOCKSFailure` (a proxy that refuses is still a proxy); `False`
    otherwise; it raises nothing. -/
theorem detect_verdict (p : Proto) (a : Auth) (cfg : Cfg) (hmk : detectCfg p a = .ok cfg)
    (hg : GoodCfg cfg) (as : List Attempt) (hne : as ≠ [])
    (hns : as.any isSocketFails = false) :
    detectProxy p a as =
      .ok (as.any (isSuccess cfg) ||
           attemptOutcome cfg (as.getLast hne) == some .socksFailure) := by
  have hspec := connectOne_spec hg as 0 none
  have hmk' : (if p = .socks4a then mkCfg p (.name wwwAppleCom) 80 a
      else mkCfg p (.ipv4 (vec4 8 8 8 8)) 53 a) = .ok cfg := hmk
  simp only [detectProxy, hmk']
  split <;> rename_i heq <;> rw [heq] at hspec
  · simp [hspec]
  · obtain ⟨h1, _, h2⟩ := hspec
    rw [lastExc_getLast cfg as none hne] at h2
    rw [h1, h2]
    cases ‹PyExc› <;> rfl
  · rcases hspec with ⟨h, _⟩ | ⟨_, h⟩
    · exact absurd h hne
    · rw [hns] at h; simp at h

/-- ... and when an entry does fail in `socket.socket()` before any handshake succeeded, the
    `OSError` escapes `_detect_proxy` instead of a verdict (observed behaviour of the code,
    outside the property: the text speaks of reply bytes only) -/
theorem detect_socket_failure (p : Proto) (a : Auth) (cfg : Cfg) (hmk : detectCfg p a = .ok cfg)
    (hg : GoodCfg cfg) (pre post : List Attempt)
    (hpre : ∀ b ∈ pre, isSuccess cfg b = false ∧ isSocketFails b = false) :
    detectProxy p a (pre ++ .socketFails :: post) = .error .osError := by
  have hmk' : (if p = .socks4a then mkCfg p (.name wwwAppleCom) 80 a
      else mkCfg p (.ipv4 (vec4 8 8 8 8)) 53 a) = .ok cfg := hmk
  simp only [detectProxy, hmk', connectOne_socket_failure hg pre post 0 none hpre]

/-- a granted handshake followed by a failing `getpeername()` is not a success: with that as
    the only entry the verdict is `False` although the replies grant the request -/
example : detectProxy .socks5 none [.peernameFails [5, 0, 5, 0, 0, 1, 0, 0, 0, 0, 0, 0] (fun _ => 99)]
    = .ok false := by
  have h : handshake (fun _ => 99) (Client.init (.s5 [1, 8, 8, 8, 8, 0, 53] [] [0]))
      ⟨[5, 0, 5, 0, 0, 1, 0, 0, 0, 0, 0, 0], 0⟩ =
      ⟨none, [[5, 1, 0], [5, 1, 0, 1, 8, 8, 8, 8, 0, 53]], [], [(2, 2), (5, 5), (5, 5)]⟩ :=
    handshakeFuel_sound _ 40 _ _ _ (by decide +kernel)
  have hm : mkCfg .socks5 (.ipv4 (vec4 8 8 8 8)) 53 none = .ok (.s5 [1, 8, 8, 8, 8, 0, 53] [] [0]) := by
    decide
  simp [detectProxy, hm, connectOne, h]

/-- the detection destinations are expressible and (for credentials with a UTF-8 form) the
    resulting object is a `GoodCfg`; for SOCKS5 any accepted credentials will do -/
theorem detect_cfg_good (p : Proto) (a : Auth) (cfg : Cfg) (hmk : detectCfg p a = .ok cfg)
    (hu : p ≠ .socks5 → ∃ ub, (match a with | some (u, _) => utf8 u | none => .ok []) = .ok ub) :
    GoodCfg cfg := by
  cases p with
  | socks5 =>
    simp only [detectCfg, if_neg (show ¬ (Proto.socks5 = Proto.socks4a) by decide)] at hmk
    unfold mkCfg at hmk
    simp only at hmk
    split at hmk
    · simp at hmk
    · split at hmk
      · simp at hmk
      · rename_i ab ms ha
        simp at hmk
        subst hmk
        cases a with
        | none =>
          simp [socks5Authentication] at ha
          obtain ⟨_, rfl⟩ := ha
          exact GoodCfg.s5 _ _ false
        | some up =>
          obtain ⟨u, pw⟩ := up
          have : ms = [0, 2] := by
            simp only [socks5Authentication] at ha
            split at ha
            · simp at ha
            · split at ha
              · simp at ha
              · split at ha
                · simp at ha
                · split at ha
                  · simp at ha
                  · simp at ha; exact ha.2.symm
          subst this
          exact GoodCfg.s5 _ _ true
  | socks4 =>
    obtain ⟨ub, hub⟩ := hu (by decide)
    simp only [detectCfg, if_neg (show ¬ (Proto.socks4 = Proto.socks4a) by decide)] at hmk
    have : cfg = .s4 (.ipv4 (vec4 8 8 8 8)) 53 a := by
      unfold mkCfg at hmk
      simp only at hmk
      split at hmk
      · simp at hmk
      · simp at hmk; exact hmk.symm
    subst this
    cases a with
    | none => exact GoodCfg.s4 _ _ _ _ (by simp [socks4Start, packH]; rfl)
    | some up =>
      obtain ⟨u, pw⟩ := up
      simp only at hub
      exact GoodCfg.s4 _ _ _ _ (by simp [socks4Start, hub, packH]; rfl)
  | socks4a =>
    obtain ⟨ub, hub⟩ := hu (by decide)
    simp only [detectCfg, if_true] at hmk
    have : cfg = .s4 (.name wwwAppleCom) 80 a := by
      unfold mkCfg at hmk
      simp only at hmk
      split at hmk
      · simp at hmk
      · simp at hmk; exact hmk.symm
    subst this
    have hh : utf8 wwwAppleCom = .ok (wwwAppleCom.map Nat.toUInt8) := by decide
    cases a with
    | none => exact GoodCfg.s4 _ _ _ _ (by simp [socks4Start, hh, packH]; rfl)
    | some up =>
      obtain ⟨u, pw⟩ := up
      simp only at hub
      exact GoodCfg.s4 _ _ _ _ (by simp [socks4Start, hub, hh, packH]; rfl)

/-! ## `_connect` -/

def excsOf : List AddrOutcome → List (PyExc × Nat)
  | [] => []
  | .exc e r :: as => (e, r) :: excsOf as
  | _ :: as => excsOf as

theorem connectLoop_pre (agg : List (PyExc × Nat) → PyExc) :
    ∀ (pre tail : List AddrOutcome) (i : Nat) (acc : List (PyExc × Nat)),
    (∀ o ∈ pre, ∃ e r, o = AddrOutcome.exc e r) →
    connectLoopWith agg (pre ++ tail) i acc =
      connectLoopWith agg tail (i + pre.length) (acc ++ excsOf pre)
  | [], tail, i, acc, _ => by simp [excsOf]
  | o :: pre, tail, i, acc, h => by
    obtain ⟨e, r, rfl⟩ := h o (by simp)
    have ih := connectLoop_pre agg pre tail (i + 1) (acc ++ [(e, r)])
      (fun o ho => h o (by simp [ho]))
    simp only [List.cons_append, connectLoopWith, excsOf, List.length_cons]
    rw [ih]
    congr 1
    · omega
    · simp

theorem excsOf_all_exc : ∀ (l : List AddrOutcome), (∀ o ∈ l, ∃ e r, o = AddrOutcome.exc e r) →
    ∀ e r, (e, r) ∈ excsOf l ↔ AddrOutcome.exc e r ∈ l
  | [], _, e, r => by simp [excsOf]
  | o :: l, h, e, r => by
    obtain ⟨e', r', rfl⟩ := h o (by simp)
    have ih := excsOf_all_exc l (fun o ho => h o (by simp [ho])) e r
    simp only [excsOf, List.mem_cons, Prod.mk.injEq, AddrOutcome.exc.injEq, ih]

/-- when every address returned an exception, `_connect` raises the aggregate of them -/
theorem connect_all_exc (agg : List (PyExc × Nat) → PyExc) (l : List AddrOutcome)
    (h : ∀ o ∈ l, ∃ e r, o = AddrOutcome.exc e r) :
    connectLoopWith agg l 0 [] = .raised (agg (excsOf l)) := by
  have := connectLoop_pre agg l [] 0 [] h
  simp only [List.append_nil, List.nil_append] at this
  rw [this]
  simp [connectLoopWith]

/-- **the aggregate exception** (repaired `_connect`, F28): it is an `OSError` only if some
    address failed with something that is not a `SOCKSError` (a socket-level failure); when
    every address failed at SOCKS level it is a `SOCKSError` - `SOCKSFailure` if all are
    refusals; and if it is a `SOCKSFailure` some address was refused. -/
theorem aggregate_sound (l : List (PyExc × Nat)) (hne : l ≠ []) :
    (aggregate l = .osError → ∃ x ∈ l, isSocksError x.1 = false) ∧
    ((∀ x ∈ l, isSocksError x.1 = true) → isSocksError (aggregate l) = true) ∧
    ((∀ x ∈ l, x.1 = .socksFailure) → aggregate l = .socksFailure) := by
  cases l with
  | nil => exact absurd rfl hne
  | cons x rest =>
    obtain ⟨e, r⟩ := x
    simp only [aggregate]
    by_cases hsame : rest.all (fun x => x.2 == r) = true
    · simp only [hsame, if_true]
      exact ⟨fun he => ⟨(e, r), by simp, by simp [he, isSocksError]⟩, fun h => h (e, r) (by simp),
        fun h => h (e, r) (by simp)⟩
    · simp only [hsame, Bool.false_eq_true, if_false]
      by_cases hall : ((e, r) :: rest).all (fun x => isSocksError x.1) = true
      · simp only [hall, if_true]
        by_cases hf : ((e, r) :: rest).all (fun x => x.1 == .socksFailure) = true
        · simp only [hf, if_true]
          simp [isSocksError]
        · simp only [hf, Bool.false_eq_true, if_false]
          refine ⟨fun h => by simp at h, fun _ => by trivial, fun h => ?_⟩
          exfalso; apply hf
          rw [List.all_eq_true]
          intro x hx
          simp [h x hx]
      · simp only [hall, Bool.false_eq_true, if_false]
        refine ⟨fun _ => ?_, fun h => ?_, fun h => ?_⟩
        · have hfalse := Bool.eq_false_iff.2 hall
          rw [List.all_eq_false] at hfalse
          obtain ⟨x, hx, hn⟩ := hfalse
          exact ⟨x, hx, by simpa using hn⟩
        · exfalso; apply hall
          rw [List.all_eq_true]
          exact fun x hx => h x hx
        · exfalso; apply hall
          rw [List.all_eq_true]
          intro x hx
          simp [h x hx, isSocksError]

/-- **`_connect`** (repaired, F28).  (1) The first address whose `_connect_one` yields a socket
    wins (every earlier address having returned an exception); (2) an exception escaping
    `_connect_one` propagates at once; (3) when every address returned an exception and all
    their reprs coincide, the first of them is raised; (4) when the reprs differ and every
    exception is a `SOCKSFailure`, a `SOCKSFailure` is raised; (5) when they differ, all are
    `SOCKSError`s and not all of them `SOCKSFailure`s, a `SOCKSProtocolError`; (6) when the reprs
    differ and some address failed at socket level, an `OSError`; (7) `assert
    remote_addresses`. -/
theorem connect_spec :
    (∀ pre u post, (∀ o ∈ pre, ∃ e r, o = AddrOutcome.exc e r) →
      connect (pre ++ .sock u :: post) = .connected pre.length u) ∧
    (∀ pre e post, (∀ o ∈ pre, ∃ e' r, o = AddrOutcome.exc e' r) →
      connect (pre ++ .escaped e :: post) = .raised e) ∧
    (∀ e r rest, (∀ o ∈ rest, ∃ e', o = AddrOutcome.exc e' r) →
      connect (.exc e r :: rest) = .raised e) ∧
    (∀ r rest, (∀ o ∈ rest, ∃ r', o = AddrOutcome.exc .socksFailure r') →
      (∃ e' r', AddrOutcome.exc e' r' ∈ rest ∧ r' ≠ r) →
      connect (.exc .socksFailure r :: rest) = .raised .socksFailure) ∧
    (∀ e r rest, (∀ o ∈ rest, ∃ e' r', o = AddrOutcome.exc e' r' ∧ isSocksError e' = true) →
      isSocksError e = true → (∃ e' r', AddrOutcome.exc e' r' ∈ rest ∧ r' ≠ r) →
      (e ≠ .socksFailure ∨ ∃ e' r', AddrOutcome.exc e' r' ∈ rest ∧ e' ≠ .socksFailure) →
      connect (.exc e r :: rest) = .raised .socksProtocolError) ∧
    (∀ e r rest, (∀ o ∈ rest, ∃ e' r', o = AddrOutcome.exc e' r') →
      (∃ e' r', AddrOutcome.exc e' r' ∈ rest ∧ r' ≠ r) →
      (isSocksError e = false ∨ ∃ e' r', AddrOutcome.exc e' r' ∈ rest ∧ isSocksError e' = false) →
      connect (.exc e r :: rest) = .raised .osError) ∧
    connect [] = .raised .assertionError := by
  refine ⟨?_, ?_, ?_, ?_, ?_, ?_, rfl⟩
  · intro pre u post h
    simp [connect, connectLoop, connectLoop_pre aggregate pre _ 0 [] h, connectLoopWith]
  · intro pre e post h
    simp [connect, connectLoop, connectLoop_pre aggregate pre _ 0 [] h, connectLoopWith]
  · intro e r rest h
    have hall : ∀ o ∈ rest, ∃ e' r', o = AddrOutcome.exc e' r' :=
      fun o ho => let ⟨e', he⟩ := h o ho; ⟨e', r, he⟩
    have hl : ∀ o ∈ AddrOutcome.exc e r :: rest, ∃ e' r', o = AddrOutcome.exc e' r' := by
      intro o ho; simp at ho; rcases ho with rfl | ho; exact ⟨e, r, rfl⟩; exact hall o ho
    show connectLoopWith aggregate _ 0 [] = _
    rw [connect_all_exc aggregate _ hl]
    have hr : (excsOf rest).all (fun x => x.2 == r) = true := by
      rw [List.all_eq_true]
      intro x hx
      obtain ⟨e', r'⟩ := x
      have := (excsOf_all_exc rest hall e' r').1 hx
      obtain ⟨e'', he⟩ := h _ this
      simp at he
      simp [he.2]
    simp [excsOf, aggregate, hr]
  · intro r rest h hdiff
    have hall : ∀ o ∈ rest, ∃ e' r', o = AddrOutcome.exc e' r' :=
      fun o ho => let ⟨r', h1⟩ := h o ho; ⟨_, r', h1⟩
    have hl : ∀ o ∈ AddrOutcome.exc .socksFailure r :: rest, ∃ e' r', o = AddrOutcome.exc e' r' := by
      intro o ho; simp at ho; rcases ho with rfl | ho; exact ⟨_, r, rfl⟩; exact hall o ho
    show connectLoopWith aggregate _ 0 [] = _
    rw [connect_all_exc aggregate _ hl]
    have hne : excsOf (AddrOutcome.exc .socksFailure r :: rest) ≠ [] := by simp [excsOf]
    have hf : ∀ x ∈ excsOf (AddrOutcome.exc .socksFailure r :: rest), x.1 = .socksFailure := by
      intro x hx
      obtain ⟨e', r'⟩ := x
      have := (excsOf_all_exc _ hl e' r').1 hx
      simp only [List.mem_cons, AddrOutcome.exc.injEq] at this
      rcases this with ⟨h1, _⟩ | h2
      · exact h1
      · obtain ⟨r'', h3⟩ := h _ h2
        simp at h3
        exact h3.1
    rw [(aggregate_sound _ hne).2.2 hf]
  · intro e r rest h he hdiff hnf
    have hall : ∀ o ∈ rest, ∃ e' r', o = AddrOutcome.exc e' r' :=
      fun o ho => let ⟨e', r', h1, _⟩ := h o ho; ⟨e', r', h1⟩
    have hl : ∀ o ∈ AddrOutcome.exc e r :: rest, ∃ e' r', o = AddrOutcome.exc e' r' := by
      intro o ho; simp at ho; rcases ho with rfl | ho; exact ⟨e, r, rfl⟩; exact hall o ho
    show connectLoopWith aggregate _ 0 [] = _
    rw [connect_all_exc aggregate _ hl]
    have hr : (excsOf rest).all (fun x => x.2 == r) = false := by
      obtain ⟨e', r', hm, hne⟩ := hdiff
      have := (excsOf_all_exc rest hall e' r').2 hm
      rw [List.all_eq_false]
      exact ⟨(e', r'), this, by simp [hne]⟩
    have hs : ((e, r) :: excsOf rest).all (fun x => isSocksError x.1) = true := by
      rw [List.all_eq_true]
      intro x hx
      simp only [List.mem_cons] at hx
      rcases hx with rfl | hx
      · exact he
      · obtain ⟨e', r'⟩ := x
        have := (excsOf_all_exc rest hall e' r').1 hx
        obtain ⟨e'', r'', h1, h2⟩ := h _ this
        simp at h1
        simp [h1.1, h2]
    have hnot : ((e, r) :: excsOf rest).all (fun x => x.1 == .socksFailure) = false := by
      rw [List.all_eq_false]
      rcases hnf with h1 | ⟨e', r', hm, h1⟩
      · exact ⟨(e, r), by simp, by simpa using h1⟩
      · exact ⟨(e', r'), by simp [(excsOf_all_exc rest hall e' r').2 hm], by simpa using h1⟩
    simp only [excsOf, aggregate, hr, Bool.false_eq_true, if_false, hs, if_true, hnot]
  · intro e r rest hall hdiff hnon
    have hl : ∀ o ∈ AddrOutcome.exc e r :: rest, ∃ e' r', o = AddrOutcome.exc e' r' := by
      intro o ho; simp at ho; rcases ho with rfl | ho; exact ⟨e, r, rfl⟩; exact hall o ho
    show connectLoopWith aggregate _ 0 [] = _
    rw [connect_all_exc aggregate _ hl]
    have hr : (excsOf rest).all (fun x => x.2 == r) = false := by
      obtain ⟨e', r', hm, hne⟩ := hdiff
      have := (excsOf_all_exc rest hall e' r').2 hm
      rw [List.all_eq_false]
      exact ⟨(e', r'), this, by simp [hne]⟩
    have hs : ((e, r) :: excsOf rest).all (fun x => isSocksError x.1) = false := by
      rw [List.all_eq_false]
      rcases hnon with h1 | ⟨e', r', hm, h1⟩
      · exact ⟨(e, r), by simp, by simp [h1]⟩
      · exact ⟨(e', r'), by simp [(excsOf_all_exc rest hall e' r').2 hm], by simp [h1]⟩
    simp [excsOf, aggregate, hr, hs]

/-- **No other exception out of `_connect`** (repaired): when every address ends in a returned
    exception, what `_connect` raises is an `OSError` only if some address failed with
    something other than a `SOCKSError`; if all failed at SOCKS level it is a `SOCKSError`. -/
theorem connect_no_other_exception (l : List AddrOutcome) (hne : l ≠ [])
    (h : ∀ o ∈ l, ∃ e r, o = AddrOutcome.exc e r) :
    ∃ x, connect l = .raised x ∧
      (x = .osError → ∃ e r, AddrOutcome.exc e r ∈ l ∧ isSocksError e = false) ∧
      ((∀ e r, AddrOutcome.exc e r ∈ l → isSocksError e = true) → isSocksError x = true) := by
  have hne' : excsOf l ≠ [] := by
    cases l with
    | nil => exact absurd rfl hne
    | cons o t => obtain ⟨e, r, rfl⟩ := h o (by simp); simp [excsOf]
  obtain ⟨h1, h2, _⟩ := aggregate_sound (excsOf l) hne'
  refine ⟨aggregate (excsOf l), connect_all_exc aggregate l h, ?_, ?_⟩
  · intro hx
    obtain ⟨⟨e, r⟩, hm, hs⟩ := h1 hx
    exact ⟨e, r, (excsOf_all_exc l h e r).1 hm, hs⟩
  · intro hall
    exact h2 (fun ⟨e, r⟩ hx => hall e r ((excsOf_all_exc l h e r).1 hx))

/-- the full-strength statement about the **pinned** `_connect`: failures at SOCKS level only
    never surface as anything but a `SOCKSError` -/
def connect_no_other_exception_full_pinned : Prop :=
  ∀ l : List AddrOutcome, l ≠ [] →
    (∀ o ∈ l, ∃ e r, o = AddrOutcome.exc e r ∧ isSocksError e = true) →
    ∃ x, connectPinned l = .raised x ∧ isSocksError x = true

/-- **F28, pinned tree**: two addresses refused with different reply codes (SOCKS4 status 91,
    then 92: two `SOCKSFailure`s with different reprs) make `_connect` raise a bare `OSError`
    although no attempt failed at socket level; the repaired `_connect` raises `SOCKSFailure`. -/
theorem connect_reply_only_oserror_pinned :
    connectPinned [.exc .socksFailure 0, .exc .socksFailure 1] = .raised .osError ∧
    connect [.exc .socksFailure 0, .exc .socksFailure 1] = .raised .socksFailure ∧
    connect [.exc .socksFailure 0, .exc .socksProtocolError 1] = .raised .socksProtocolError ∧
    connect [.exc .socksFailure 0, .exc .osError 1] = .raised .osError := by decide

theorem connect_no_other_exception_full_pinned_fails : ¬ connect_no_other_exception_full_pinned := by
  intro h
  obtain ⟨x, h1, h2⟩ := h [.exc .socksFailure 0, .exc .socksFailure 1] (by simp)
    (by intro o ho; simp at ho; rcases ho with rfl | rfl <;> exact ⟨_, _, rfl, rfl⟩)
  have : x = .osError := by
    have h3 : connectPinned [.exc .socksFailure 0, .exc .socksFailure 1] = .raised .osError := by
      decide
    rw [h3] at h1
    exact (ConnectRes.raised.inj h1).symm
  subst this
  simp [isSocksError] at h2

theorem aggregate_vs_pinned (acc : List (PyExc × Nat)) :
    aggregatePinned acc = aggregate acc ∨
    (aggregatePinned acc = .osError ∧ isSocksError (aggregate acc) = true) := by
  cases acc with
  | nil => exact Or.inl rfl
  | cons x rest =>
    obtain ⟨e, r⟩ := x
    simp only [aggregatePinned, aggregate]
    by_cases h1 : rest.all (fun x => x.2 == r) = true
    · simp [h1]
    · simp only [h1, Bool.false_eq_true, if_false]
      by_cases h2 : ((e, r) :: rest).all (fun x => isSocksError x.1) = true
      · simp only [h2, if_true]
        right
        refine ⟨by trivial, ?_⟩
        split <;> rfl
      · simp [h2]

/-- **the repair changes nothing else**: the pinned and the repaired `_connect` agree on every
    list of per-address outcomes, except where the pinned one raises the bare `OSError` for
    failures at SOCKS level only - there the repaired one raises a `SOCKSError` -/
theorem connectPinned_vs_connect (l : List AddrOutcome) :
    connectPinned l = connect l ∨
    (connectPinned l = .raised .osError ∧ ∃ x, connect l = .raised x ∧ isSocksError x = true) := by
  have key : ∀ (l : List AddrOutcome) (i : Nat) (acc : List (PyExc × Nat)),
      connectLoopWith aggregatePinned l i acc = connectLoopWith aggregate l i acc ∨
      (connectLoopWith aggregatePinned l i acc = .raised .osError ∧
        ∃ x, connectLoopWith aggregate l i acc = .raised x ∧ isSocksError x = true) := by
    intro l
    induction l with
    | nil =>
      intro i acc
      simp only [connectLoopWith]
      rcases aggregate_vs_pinned acc with h | ⟨h1, h2⟩
      · exact Or.inl (by rw [h])
      · exact Or.inr ⟨by rw [h1], _, rfl, h2⟩
    | cons o t ih =>
      intro i acc
      cases o with
      | sock u => exact Or.inl rfl
      | escaped e => exact Or.inl rfl
      | exc e r => simpa only [connectLoopWith] using ih (i + 1) (acc ++ [(e, r)])
  exact key l 0 []

example : connect [.exc .osError 1, .sock [7]] = .connected 1 [7] := by decide
example : connect [.exc .socksFailure 1, .exc .socksFailure 1] = .raised .socksFailure := by decide
example : connect [.exc .socksFailure 1, .exc .osError 2] = .raised .osError := by decide

/-! ## non-vacuity: concrete reply streams of each kind -/

example : verdictFor cfg5n [5, 0, 5, 0, 0, 3, 2, 104, 105, 0, 80, 0x16, 0x03] = .granted 11 := by
  decide
example : verdictFor cfg5a [5, 2, 1, 0, 5, 0, 0, 1, 1, 2, 3, 4, 0, 80] = .granted 14 := by decide
example : verdictFor cfg5a [5, 2, 1, 1] = .refused := by decide
example : verdictFor cfg5n [5, 2] = .refused := by decide
example : verdictFor cfg5n [5, 0, 5, 5, 0, 1, 0, 0, 0, 0, 0, 0] = .refused := by decide
example : verdictFor cfg5n [5, 0, 5, 5, 0, 1, 0] = .refusedCut := by decide
example : verdictFor cfg5n [5, 0, 5, 0, 1, 1, 0, 0, 0, 0, 0, 0] = .bad := by decide
example : verdictFor cfg5n [5, 0, 5, 0, 0, 1, 0, 0, 0] = .bad := by decide
example : verdictFor cfg4 [0, 90, 0, 0, 0, 0, 0, 0, 0x16] = .granted 8 := by decide
example : verdictFor cfg4 [0, 91, 0, 0, 0, 0, 0, 0] = .refused := by decide
example : verdictFor cfg4 [0, 90, 0, 0] = .bad := by decide
example : GoodCfg cfg4 := GoodCfg.s4 _ _ _ _ (by decide : socks4Start _ _ _ = .ok [4, 1, 0, 80, 1, 2, 3, 4, 0])
example : GoodCfg cfg5n := GoodCfg.s5 _ _ false
example : GoodCfg cfg5a := GoodCfg.s5 _ _ true

end Aiorpcx.C17
