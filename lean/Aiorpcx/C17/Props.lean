import Aiorpcx.C16.Model
import Aiorpcx.Facts.C17
namespace Aiorpcx.C17
open Aiorpcx.Socks

theorem placeholder17 : True := trivial

end Aiorpcx.C17
