import Aiorpcx.C17.Meets
import Aiorpcx.C17.Recv
import Aiorpcx.C17.FactsTie
import Aiorpcx.C17.Prefix
import Aiorpcx.C17.Sent
/-!
# C17 — the SOCKS handshake outcome depends only on the reply bytes; never over-reads

Model (`C16/Model.lean`, mirrors `socks.py`): `handshake oracle client sock` is
`SOCKSProxy._handshake` driving a protocol object over a socket whose remaining reply bytes are
`sock.stream`; `oracle i` proposes how many bytes the `i`-th `sock_recv` returns (clamped to
`[1, min requested available]`, `b''` when the stream is exhausted), so the theorems below,
quantified over **every** oracle, cover every segmentation of the reply stream including one
byte at a time and EOF at every offset.  SPEC: `C17/Spec.lean`, the reply grammar written from
the SOCKS4 protocol note and RFC 1928 / RFC 1929.  No bound on stream length anywhere.
-/
namespace Aiorpcx.C17
open Aiorpcx.Socks

/-- methods a SOCKS5 object offers (`SOCKS5._authentication`) -/
def methodsOf (creds : Bool) : List UInt8 := if creds then [0, 2] else [0]

/-- configurations the theorems range over: any SOCKS5 object (`dst`, `authBytes` arbitrary,
    methods `[0]` or `[0, 2]`), and any SOCKS4 / SOCKS4a object whose request could be built
    (`socks4Start` succeeded: destination and user id have a UTF-8 form) -/
inductive GoodCfg : Cfg → Prop where
  | s5 (dst ab : Bytes) (creds : Bool) : GoodCfg (.s5 dst ab (methodsOf creds))
  | s4 (h : Host) (port : Nat) (a : Auth) (b : Bytes) (hs : socks4Start h port a = .ok b) :
      GoodCfg (.s4 h port a)

/-- what the replies mean for this configuration, by the independent reply grammar -/
def verdictFor : Cfg → Bytes → Spec.Verdict
  | .s4 .., s => Spec.verdict4 s
  | .s5 _ _ ms, s => Spec.verdict5 (ms.contains 2) s

/-! ## segmentation is irrelevant -/

/-- **Segmentation independence.**  For any client state, any reply stream and any two
    segmentation oracles (and recv counters) the handshake has the same outcome, sends the
    same messages and leaves exactly the same bytes unread — hence consumes the same number of
    bytes. -/
theorem segmentation_irrelevant (o₁ o₂ : Nat → Nat) (c : Client) (stream : Bytes) (i₁ i₂ : Nat) :
    refOf (handshake o₁ c ⟨stream, i₁⟩) = refOf (handshake o₂ c ⟨stream, i₂⟩) := by
  rw [handshake_ref, handshake_ref]

/-- two genuinely different segmentations of the same 13 reply bytes: 12 `recv` calls of one
    byte each vs 3 calls (2, 5, 5 bytes); the last byte is application data -/
example :
    handshake (fun _ => 1) (Client.init (.s5 [1, 8, 8, 8, 8, 0, 53] [] [0]))
      ⟨[5, 0, 5, 0, 0, 1, 1, 2, 3, 4, 0, 80, 0x16], 0⟩ =
    ⟨none, [[5, 1, 0], [5, 1, 0, 1, 8, 8, 8, 8, 0, 53]], [0x16],
     [(2, 1), (1, 1), (5, 1), (4, 1), (3, 1), (2, 1), (1, 1), (5, 1), (4, 1), (3, 1), (2, 1),
      (1, 1)]⟩ ∧
    handshake (fun _ => 1000) (Client.init (.s5 [1, 8, 8, 8, 8, 0, 53] [] [0]))
      ⟨[5, 0, 5, 0, 0, 1, 1, 2, 3, 4, 0, 80, 0x16], 0⟩ =
    ⟨none, [[5, 1, 0], [5, 1, 0, 1, 8, 8, 8, 8, 0, 53]], [0x16], [(2, 2), (5, 5), (5, 5)]⟩ :=
  ⟨handshakeFuel_sound _ 40 _ _ _ (by decide +kernel),
   handshakeFuel_sound _ 40 _ _ _ (by decide +kernel)⟩

/-! ## the outcome is what the replies mean -/

theorem meets_first5 (dst ab : Bytes) (creds : Bool) (s : Bytes) :
    Meets s (runRef ⟨.s5 dst ab (methodsOf creds), .first5, []⟩ s) (Spec.verdict5 creds s) := by
  rw [runRef_first5]
  match s with
  | [] | [_] => simp [Spec.verdict5, Meets, eofRun]
  | v :: m :: s1 =>
    simp only [Spec.verdict5, Cfg.methods]
    by_cases hv : v = 5
    · subst hv
      simp only [ne_eq, not_true_eq_false, if_false]
      by_cases h0 : m = 0
      · subst h0
        have hm : (0 : UInt8) ∈ methodsOf creds := by cases creds <;> simp [methodsOf]
        simp only [hm, not_true_eq_false, if_false, show ¬ ((0 : UInt8) = 2) by decide, if_true]
        rw [meets_consMsg]
        exact meets_shift2 _ _ _ _ _ (meets_connect _ s1)
      · by_cases h2 : m = 2 ∧ creds = true
        · obtain ⟨rfl, rfl⟩ := h2
          have hm : (2 : UInt8) ∈ methodsOf true := by simp [methodsOf]
          simp only [hm, not_true_eq_false, if_false, if_true, h0, and_self]
          rw [meets_consMsg, runRef_auth]
          match s1 with
          | [] | [_] => simp [Meets, eofRun]
          | av :: st :: s2 =>
            simp only
            by_cases ha : av = 1
            · by_cases hs : st = 0
              · subst ha hs
                simp only [ne_eq, not_true_eq_false, if_false]
                rw [meets_consMsg]
                exact meets_shift4 _ _ _ _ _ _ _ (meets_connect _ s2)
              · simp [ha, hs, Meets]
            · simp [ha, Meets]
        · have hm : m ∉ methodsOf creds := by
            cases creds
            · simp [methodsOf, h0]
            · simp only [methodsOf, if_true, List.mem_cons, List.not_mem_nil, or_false]
              rintro (h | h)
              · exact h0 h
              · exact h2 ⟨h, rfl⟩
          simp [hm, h0, h2, Meets]
    · simp [hv, Meets]

theorem methodsOf_contains (creds : Bool) : (methodsOf creds).contains 2 = creds := by
  cases creds <;> decide

/-- the reference run of a good configuration meets the verdict of the reply grammar -/
theorem meets_runRef {cfg : Cfg} (hg : GoodCfg cfg) (stream : Bytes) :
    Meets stream (runRef (Client.init cfg) stream) (verdictFor cfg stream) := by
  cases hg with
  | s5 dst ab creds =>
    rw [runRef_start_s5, meets_consMsg]
    simp only [verdictFor, methodsOf_contains]
    exact meets_first5 dst ab creds stream
  | s4 h port a b hs =>
    rw [runRef_start_s4 h port a b stream hs, meets_consMsg]
    exact meets_first4 _ stream

/-- **Outcome = meaning of the replies**, for every segmentation.  With `v` the verdict of the
    independent reply grammar on the stream:
    * `granted n` (the stream starts with a complete well-formed granting reply sequence of
      `n` bytes): the handshake returns normally and exactly the bytes after those `n` are left
      on the socket;
    * `refused` (well-formed refusal): `SOCKSFailure`;
    * `bad` (malformed byte, or the stream ends before the replies are complete):
      `SOCKSProtocolError`;
    * `refusedCut` (an RFC 1928 reply header carrying a refusal code, cut short by EOF):
      `SOCKSFailure` or `SOCKSProtocolError`. -/
theorem outcome_spec {cfg : Cfg} (hg : GoodCfg cfg) (oracle : Nat → Nat) (stream : Bytes)
    (idx : Nat) :
    Meets stream (refOf (handshake oracle (Client.init cfg) ⟨stream, idx⟩))
      (verdictFor cfg stream) := by
  rw [handshake_ref]
  exact meets_runRef hg stream

/-- **Success iff granted**: the handshake reports success exactly when the replies are well
    formed and grant the request. -/
theorem success_iff_granted {cfg : Cfg} (hg : GoodCfg cfg) (oracle : Nat → Nat) (stream : Bytes)
    (idx : Nat) :
    (handshake oracle (Client.init cfg) ⟨stream, idx⟩).outcome = none ↔
      ∃ n, verdictFor cfg stream = .granted n := by
  have h := outcome_spec hg oracle stream idx
  cases hv : verdictFor cfg stream with
  | granted n => rw [hv] at h; exact ⟨fun _ => ⟨n, rfl⟩, fun _ => h.1⟩
  | refused => rw [hv] at h; simp only [Meets, refOf] at h; simp [h]
  | refusedCut => rw [hv] at h; simp only [Meets, refOf] at h; rcases h with h | h <;> simp [h]
  | bad => rw [hv] at h; simp only [Meets, refOf] at h; simp [h]

/-- **Converse directions**: `SOCKSFailure` is raised only on a refusal (complete, or an RFC 1928
    refusal header cut short); `SOCKSProtocolError` only on a malformed / truncated stream (or
    such a cut-short refusal). -/
theorem failure_only_if_refused {cfg : Cfg} (hg : GoodCfg cfg) (oracle : Nat → Nat)
    (stream : Bytes) (idx : Nat) :
    ((handshake oracle (Client.init cfg) ⟨stream, idx⟩).outcome = some .socksFailure →
      verdictFor cfg stream = .refused ∨ verdictFor cfg stream = .refusedCut) ∧
    ((handshake oracle (Client.init cfg) ⟨stream, idx⟩).outcome = some .socksProtocolError →
      verdictFor cfg stream = .bad ∨ verdictFor cfg stream = .refusedCut) := by
  have h := outcome_spec hg oracle stream idx
  cases hv : verdictFor cfg stream with
  | granted n => rw [hv] at h; simp only [Meets, refOf] at h; simp [h.1]
  | refused => rw [hv] at h; simp only [Meets, refOf] at h; simp [h]
  | refusedCut => simp
  | bad => rw [hv] at h; simp only [Meets, refOf] at h; simp [h]

/-- **No other exception**: whatever the proxy sends and however it is segmented, the
    handshake returns, raises `SOCKSFailure` or raises `SOCKSProtocolError`. -/
theorem no_other_exception {cfg : Cfg} (hg : GoodCfg cfg) (oracle : Nat → Nat) (stream : Bytes)
    (idx : Nat) :
    let o := (handshake oracle (Client.init cfg) ⟨stream, idx⟩).outcome
    o = none ∨ o = some .socksFailure ∨ o = some .socksProtocolError := by
  have h := outcome_spec hg oracle stream idx
  cases hv : verdictFor cfg stream with
  | granted n => rw [hv] at h; exact Or.inl h.1
  | refused => rw [hv] at h; exact Or.inr (Or.inl h)
  | refusedCut => rw [hv] at h; rcases h with h | h
                  · exact Or.inr (Or.inl h)
                  · exact Or.inr (Or.inr h)
  | bad => rw [hv] at h; exact Or.inr (Or.inr h)

/-- the model is not total by accident: a SOCKS4 object whose user id is a lone surrogate lets
    `UnicodeEncodeError` out of the handshake (outside `GoodCfg`) -/
example : handshake (fun _ => 1)
      (Client.init (.s4 (.ipv4 (vec4 1 2 3 4)) 80 (some ([0xD800], [])))) ⟨[0, 90], 0⟩
    = ⟨some .unicodeEncodeError, [], [0, 90], []⟩ :=
  handshakeFuel_sound _ 5 _ _ _ (by decide +kernel)

/-! ## exactly the handshake's bytes are taken from the socket -/

/-- **Exact consumption.**  If the stream is a granting reply sequence `seq` followed by
    anything at all (`trailing`: whatever the proxy relays next), then for every segmentation
    the handshake succeeds and `trailing` is left on the socket untouched. -/
theorem exact_consumption {cfg : Cfg} (hg : GoodCfg cfg) (oracle : Nat → Nat)
    (seq trailing : Bytes) (idx : Nat)
    (hv : verdictFor cfg (seq ++ trailing) = .granted seq.length) :
    let r := handshake oracle (Client.init cfg) ⟨seq ++ trailing, idx⟩
    r.outcome = none ∧ r.unread = trailing := by
  have h := outcome_spec hg oracle (seq ++ trailing) idx
  rw [hv] at h
  exact ⟨h.1, by simpa [refOf] using h.2.2⟩

/-- **EOF at every offset.**  If `seq` is a complete granting reply sequence, then on every
    proper prefix of it (the proxy closes the connection early), under every segmentation, the
    handshake raises `SOCKSProtocolError`. -/
theorem eof_before_completion {cfg : Cfg} (hg : GoodCfg cfg) (oracle : Nat → Nat) (seq : Bytes)
    (idx : Nat) (hv : verdictFor cfg seq = .granted seq.length) (j : Nat) (hj : j < seq.length) :
    (handshake oracle (Client.init cfg) ⟨seq.take j, idx⟩).outcome =
      some .socksProtocolError := by
  have h := outcome_spec hg oracle (seq.take j) idx
  have hbad : verdictFor cfg (seq.take j) = .bad := by
    cases cfg with
    | s4 hh port a => exact verdict4_prefix_bad seq hv j hj
    | s5 dst ab ms => exact verdict5_prefix_bad _ seq hv j hj
  rw [hbad] at h
  exact h

theorem verdict4_granted_len (s : Bytes) (n : Nat) (h : Spec.verdict4 s = .granted n) : n = 8 := by
  match s with
  | [] | [_] | [_, _] | [_, _, _] | [_, _, _, _] | [_, _, _, _, _] | [_, _, _, _, _, _]
  | [_, _, _, _, _, _, _] => simp [Spec.verdict4] at h
  | vn :: cd :: a :: b :: c :: d :: e :: f :: rest =>
    simp only [Spec.verdict4] at h
    split at h
    · simp at h
    · split at h <;> simp at h
      exact h.symm

theorem connectReply_granted_len (s : Bytes) (n : Nat) (h : Spec.connectReply s = .granted n) :
    ∃ atyp after addr, s.drop 3 = atyp :: after ∧ Spec.addrFieldLen atyp after = some addr ∧
      n = 4 + addr + 2 ∧
      (addr = 4 ∨ addr = 16 ∨ ∃ l rest, after = l :: rest ∧ addr = 1 + l.toNat) := by
  match s with
  | [] | [_] | [_, _] | [_, _, _] => simp [Spec.connectReply] at h
  | ver :: rep :: rsv :: atyp :: after =>
    simp only [Spec.connectReply] at h
    split at h
    · simp at h
    · split at h
      · simp at h
      · split at h
        · rename_i addr ha
          split at h
          · split at h
            · simp at h
              refine ⟨atyp, after, addr, by simp, ha, h.symm, ?_⟩
              unfold Spec.addrFieldLen at ha
              split at ha
              · simp at ha; exact Or.inl ha.symm
              · split at ha
                · simp at ha; exact Or.inr (Or.inl ha.symm)
                · split at ha
                  · cases after with
                    | nil => simp at ha
                    | cons l rest =>
                      simp at ha
                      exact Or.inr (Or.inr ⟨l, rest, rfl, ha.symm⟩)
                  · simp at ha
            · simp at h
          · split at h <;> simp at h
        · split at h <;> simp at h

/-- **Length of a granted handshake**: 8 bytes for SOCKS4/4a; for SOCKS5
    `2 [+ 2] + 4 + (4 | 1 + len | 16) + 2`. -/
theorem granted_length {cfg : Cfg} (stream : Bytes) (n : Nat)
    (h : verdictFor cfg stream = .granted n) :
    match cfg with
    | .s4 .. => n = 8
    | .s5 .. => ∃ auth addr, (auth = 0 ∨ auth = 2) ∧
        (addr = 4 ∨ addr = 16 ∨ ∃ l : UInt8, addr = 1 + l.toNat) ∧
        n = 2 + auth + 4 + addr + 2 := by
  cases cfg with
  | s4 hh port a => exact verdict4_granted_len stream n h
  | s5 dst ab ms =>
    simp only [verdictFor] at h ⊢
    match stream with
    | [] | [_] => simp [Spec.verdict5] at h
    | v :: m :: s1 =>
      simp only [Spec.verdict5] at h
      split at h
      · simp at h
      · split at h
        · cases hc : Spec.connectReply s1 with
          | granted k =>
            rw [hc] at h
            simp [Spec.Verdict.shift] at h
            obtain ⟨_, _, addr, _, _, hk, hcase⟩ := connectReply_granted_len s1 k hc
            refine ⟨0, addr, Or.inl rfl, ?_, by omega⟩
            rcases hcase with h1 | h1 | ⟨l, _, _, h1⟩
            · exact Or.inl h1
            · exact Or.inr (Or.inl h1)
            · exact Or.inr (Or.inr ⟨l, h1⟩)
          | refused => rw [hc] at h; simp [Spec.Verdict.shift] at h
          | refusedCut => rw [hc] at h; simp [Spec.Verdict.shift] at h
          | bad => rw [hc] at h; simp [Spec.Verdict.shift] at h
        · split at h
          · match s1 with
            | [] | [_] => simp at h
            | av :: st :: s2 =>
              simp only at h
              split at h
              · simp at h
              · split at h
                · simp at h
                · cases hc : Spec.connectReply s2 with
                  | granted k =>
                    rw [hc] at h
                    simp [Spec.Verdict.shift] at h
                    obtain ⟨_, _, addr, _, _, hk, hcase⟩ := connectReply_granted_len s2 k hc
                    refine ⟨2, addr, Or.inr rfl, ?_, by omega⟩
                    rcases hcase with h1 | h1 | ⟨l, _, _, h1⟩
                    · exact Or.inl h1
                    · exact Or.inr (Or.inl h1)
                    · exact Or.inr (Or.inr ⟨l, h1⟩)
                  | refused => rw [hc] at h; simp [Spec.Verdict.shift] at h
                  | refusedCut => rw [hc] at h; simp [Spec.Verdict.shift] at h
                  | bad => rw [hc] at h; simp [Spec.Verdict.shift] at h
          · simp at h

/-- **Exact consumption, request by request** (with `recv_conservation` and
    `recv_within_handshake` of `Recv.lean`): in a granted handshake of `n` bytes the `recv`
    calls return exactly `n` bytes in total, and each call asks for at least 1 byte and at most
    the number of handshake bytes still outstanding when it is made. -/
theorem recv_sizes_bounded {cfg : Cfg} (hg : GoodCfg cfg) (oracle : Nat → Nat) (stream : Bytes)
    (idx n : Nat) (hv : verdictFor cfg stream = .granted n) :
    let r := handshake oracle (Client.init cfg) ⟨stream, idx⟩
    sumN r.recvs = n ∧
    ∀ pre k got post, r.recvs = pre ++ (k, got) :: post →
      1 ≤ k ∧ got ≤ k ∧ k ≤ n - sumN pre := by
  have h := outcome_spec hg oracle stream idx
  rw [hv] at h
  obtain ⟨hok, hn, hun⟩ := h
  have hc := recv_conservation oracle (Client.init cfg) ⟨stream, idx⟩
  have hsum : sumN (handshake oracle (Client.init cfg) ⟨stream, idx⟩).recvs = n := by
    simp only [refOf] at hun
    rw [hun] at hc
    simp only [List.length_drop] at hc
    omega
  refine ⟨hsum, ?_⟩
  intro pre k got post hsplit
  have := recv_within_handshake oracle (Client.init cfg) ⟨stream, idx⟩ hok pre k got post hsplit
  rw [hsum] at this
  omega

/-! ## `_connect_one` and `_detect_proxy` -/

/-- how one `getaddrinfo` entry ends: `OSError` from `sock_connect`, or the handshake's outcome -/
def attemptOutcome (cfg : Cfg) : Attempt → Option PyExc
  | .connectFails => some .osError
  | .talks s o => (handshake o (Client.init cfg) ⟨s, 0⟩).outcome

def isSuccess (cfg : Cfg) (a : Attempt) : Bool := (attemptOutcome cfg a).isNone

/-- the exception `_connect_one` is left holding after trying all entries -/
def lastExc (cfg : Cfg) : List Attempt → Option PyExc → Option PyExc
  | [], l => l
  | a :: as, _ => lastExc cfg as (attemptOutcome cfg a)

theorem lastExc_getLast (cfg : Cfg) : ∀ (as : List Attempt) (l : Option PyExc) (h : as ≠ []),
    lastExc cfg as l = attemptOutcome cfg (as.getLast h)
  | [a], l, _ => rfl
  | a :: b :: as, l, _ => by
    have := lastExc_getLast cfg (b :: as) (attemptOutcome cfg a) (by simp)
    simpa [lastExc, List.getLast_cons_cons] using this

theorem attemptOutcome_good {cfg : Cfg} (hg : GoodCfg cfg) (a : Attempt) :
    attemptOutcome cfg a = none ∨ ∃ e, attemptOutcome cfg a = some e ∧ isCaught e = true := by
  cases a with
  | connectFails => exact Or.inr ⟨_, rfl, rfl⟩
  | talks s o =>
    rcases no_other_exception hg o s 0 with h | h | h
    · exact Or.inl h
    · exact Or.inr ⟨_, h, rfl⟩
    · exact Or.inr ⟨_, h, rfl⟩

/-- `_connect_one` returns a socket iff some entry's handshake succeeds (the first such entry
    ends the loop); otherwise it returns the exception of the last entry; nothing escapes. -/
theorem connectOne_spec {cfg : Cfg} (hg : GoodCfg cfg) :
    ∀ (as : List Attempt) (i : Nat) (last : Option PyExc),
      match connectOne (.ok cfg) as i last with
      | .sock _ _ => as.any (isSuccess cfg) = true
      | .returned e => as.any (isSuccess cfg) = false ∧ lastExc cfg as last = some e
      | .escaped _ => as = [] ∧ last = none
  | [], i, none => by simp [connectOne]
  | [], i, some e => by simp [connectOne, lastExc]
  | a :: as, i, last => by
    have ih := fun l => connectOne_spec hg as (i + 1) l
    cases a with
    | connectFails =>
      have := ih (some .osError)
      simp only [connectOne]
      split <;> rename_i heq <;> rw [heq] at this
      · simpa [isSuccess, attemptOutcome] using this
      · simpa [isSuccess, attemptOutcome, lastExc] using this
      · simp at this
    | talks s o =>
      simp only [connectOne]
      rcases attemptOutcome_good hg (.talks s o) with h | ⟨e, h, hc⟩
      · simp only [attemptOutcome] at h
        simp [h, isSuccess, attemptOutcome]
      · simp only [attemptOutcome] at h
        simp only [h, hc, if_true]
        have := ih (some e)
        split <;> rename_i heq <;> rw [heq] at this
        · simpa [isSuccess, attemptOutcome, h] using this
        · simpa [isSuccess, attemptOutcome, h, lastExc] using this
        · simp at this

/-- the protocol object `_detect_proxy` builds -/
def detectCfg (p : Proto) (a : Auth) : Except PyExc Cfg :=
  if p = .socks4a then mkCfg p (.name wwwAppleCom) 80 a
  else mkCfg p (.ipv4 (vec4 8 8 8 8)) 53 a

/-- **Detection verdict.**  `_detect_proxy` answers `True` exactly when some entry's handshake
    succeeds or the last entry tried ends in `SOCKSFailure` (a proxy that refuses is still a
    proxy); `False` otherwise; it raises nothing. -/
theorem detect_verdict (p : Proto) (a : Auth) (cfg : Cfg) (hmk : detectCfg p a = .ok cfg)
    (hg : GoodCfg cfg) (as : List Attempt) (hne : as ≠ []) :
    detectProxy p a as =
      .ok (as.any (isSuccess cfg) ||
           attemptOutcome cfg (as.getLast hne) == some .socksFailure) := by
  have hspec := connectOne_spec hg as 0 none
  have hmk' : (if p = .socks4a then mkCfg p (.name wwwAppleCom) 80 a
      else mkCfg p (.ipv4 (vec4 8 8 8 8)) 53 a) = .ok cfg := hmk
  simp only [detectProxy, hmk']
  split <;> rename_i heq <;> rw [heq] at hspec
  · simp [hspec]
  · obtain ⟨h1, h2⟩ := hspec
    rw [lastExc_getLast cfg as none hne] at h2
    rw [h1, h2]
    cases ‹PyExc› <;> rfl
  · exact absurd hspec.1 hne

/-- the detection destinations are expressible and (for credentials with a UTF-8 form) the
    resulting object is a `GoodCfg`; for SOCKS5 any accepted credentials will do -/
theorem detect_cfg_good (p : Proto) (a : Auth) (cfg : Cfg) (hmk : detectCfg p a = .ok cfg)
    (hu : p ≠ .socks5 → ∃ ub, (match a with | some (u, _) => utf8 u | none => .ok []) = .ok ub) :
    GoodCfg cfg := by
  cases p with
  | socks5 =>
    simp only [detectCfg, if_neg (show ¬ (Proto.socks5 = Proto.socks4a) by decide)] at hmk
    unfold mkCfg at hmk
    simp only at hmk
    split at hmk
    · simp at hmk
    · split at hmk
      · simp at hmk
      · rename_i ab ms ha
        simp at hmk
        subst hmk
        cases a with
        | none =>
          simp [socks5Authentication] at ha
          obtain ⟨_, rfl⟩ := ha
          exact GoodCfg.s5 _ _ false
        | some up =>
          obtain ⟨u, pw⟩ := up
          have : ms = [0, 2] := by
            simp only [socks5Authentication] at ha
            split at ha
            · simp at ha
            · split at ha
              · simp at ha
              · split at ha
                · simp at ha
                · split at ha
                  · simp at ha
                  · simp at ha; exact ha.2.symm
          subst this
          exact GoodCfg.s5 _ _ true
  | socks4 =>
    obtain ⟨ub, hub⟩ := hu (by decide)
    simp only [detectCfg, if_neg (show ¬ (Proto.socks4 = Proto.socks4a) by decide)] at hmk
    have : cfg = .s4 (.ipv4 (vec4 8 8 8 8)) 53 a := by
      unfold mkCfg at hmk
      simp only at hmk
      split at hmk
      · simp at hmk
      · simp at hmk; exact hmk.symm
    subst this
    cases a with
    | none => exact GoodCfg.s4 _ _ _ _ (by simp [socks4Start, packH]; rfl)
    | some up =>
      obtain ⟨u, pw⟩ := up
      simp only at hub
      exact GoodCfg.s4 _ _ _ _ (by simp [socks4Start, hub, packH]; rfl)
  | socks4a =>
    obtain ⟨ub, hub⟩ := hu (by decide)
    simp only [detectCfg, if_true] at hmk
    have : cfg = .s4 (.name wwwAppleCom) 80 a := by
      unfold mkCfg at hmk
      simp only at hmk
      split at hmk
      · simp at hmk
      · simp at hmk; exact hmk.symm
    subst this
    have hh : utf8 wwwAppleCom = .ok (wwwAppleCom.map Nat.toUInt8) := by decide
    cases a with
    | none => exact GoodCfg.s4 _ _ _ _ (by simp [socks4Start, hh, packH]; rfl)
    | some up =>
      obtain ⟨u, pw⟩ := up
      simp only at hub
      exact GoodCfg.s4 _ _ _ _ (by simp [socks4Start, hub, hh, packH]; rfl)

/-! ## `_connect` -/

def excsOf : List AddrOutcome → List (PyExc × Nat)
  | [] => []
  | .exc e r :: as => (e, r) :: excsOf as
  | _ :: as => excsOf as

theorem connectLoop_pre : ∀ (pre tail : List AddrOutcome) (i : Nat) (acc : List (PyExc × Nat)),
    (∀ o ∈ pre, ∃ e r, o = AddrOutcome.exc e r) →
    connectLoop (pre ++ tail) i acc = connectLoop tail (i + pre.length) (acc ++ excsOf pre)
  | [], tail, i, acc, _ => by simp [excsOf]
  | o :: pre, tail, i, acc, h => by
    obtain ⟨e, r, rfl⟩ := h o (by simp)
    have ih := connectLoop_pre pre tail (i + 1) (acc ++ [(e, r)]) (fun o ho => h o (by simp [ho]))
    simp only [List.cons_append, connectLoop, excsOf, List.length_cons]
    rw [ih]
    congr 1
    · omega
    · simp

theorem excsOf_all_exc : ∀ (l : List AddrOutcome), (∀ o ∈ l, ∃ e r, o = AddrOutcome.exc e r) →
    ∀ e r, (e, r) ∈ excsOf l ↔ AddrOutcome.exc e r ∈ l
  | [], _, e, r => by simp [excsOf]
  | o :: l, h, e, r => by
    obtain ⟨e', r', rfl⟩ := h o (by simp)
    have ih := excsOf_all_exc l (fun o ho => h o (by simp [ho])) e r
    simp only [excsOf, List.mem_cons, Prod.mk.injEq, AddrOutcome.exc.injEq, ih]

/-- **`_connect`.**  (1) The first address whose `_connect_one` yields a socket wins (every
    earlier address having returned an exception); (2) an exception escaping `_connect_one`
    propagates at once; (3) when every address returned an exception and all their reprs
    coincide, the first of them is raised; (4) when the reprs differ, an `OSError`;
    (5) `assert remote_addresses`. -/
theorem connect_spec :
    (∀ pre u post, (∀ o ∈ pre, ∃ e r, o = AddrOutcome.exc e r) →
      connect (pre ++ .sock u :: post) = .connected pre.length u) ∧
    (∀ pre e post, (∀ o ∈ pre, ∃ e' r, o = AddrOutcome.exc e' r) →
      connect (pre ++ .escaped e :: post) = .raised e) ∧
    (∀ e r rest, (∀ o ∈ rest, ∃ e', o = AddrOutcome.exc e' r) →
      connect (.exc e r :: rest) = .raised e) ∧
    (∀ e r rest, (∀ o ∈ rest, ∃ e' r', o = AddrOutcome.exc e' r') →
      (∃ e' r', AddrOutcome.exc e' r' ∈ rest ∧ r' ≠ r) →
      connect (.exc e r :: rest) = .raised .osError) ∧
    connect [] = .raised .assertionError := by
  refine ⟨?_, ?_, ?_, ?_, rfl⟩
  · intro pre u post h
    simp [connect, connectLoop_pre pre _ 0 [] h, connectLoop]
  · intro pre e post h
    simp [connect, connectLoop_pre pre _ 0 [] h, connectLoop]
  · intro e r rest h
    have hall : ∀ o ∈ rest, ∃ e' r', o = AddrOutcome.exc e' r' :=
      fun o ho => let ⟨e', he⟩ := h o ho; ⟨e', r, he⟩
    have := connectLoop_pre (.exc e r :: rest) [] 0 []
      (by intro o ho; simp at ho; rcases ho with rfl | ho; exact ⟨e, r, rfl⟩; exact hall o ho)
    simp only [List.append_nil, List.nil_append, excsOf] at this
    show connectLoop (.exc e r :: rest) 0 [] = _
    rw [this]
    have hr : (excsOf rest).all (fun x => x.2 == r) = true := by
      rw [List.all_eq_true]
      intro x hx
      obtain ⟨e', r'⟩ := x
      have := (excsOf_all_exc rest hall e' r').1 hx
      obtain ⟨e'', he⟩ := h _ this
      simp at he
      simp [he.2]
    simp [connectLoop, hr]
  · intro e r rest hall hdiff
    have := connectLoop_pre (.exc e r :: rest) [] 0 []
      (by intro o ho; simp at ho; rcases ho with rfl | ho; exact ⟨e, r, rfl⟩; exact hall o ho)
    simp only [List.append_nil, List.nil_append, excsOf] at this
    show connectLoop (.exc e r :: rest) 0 [] = _
    rw [this]
    have hr : (excsOf rest).all (fun x => x.2 == r) = false := by
      obtain ⟨e', r', hm, hne⟩ := hdiff
      have := (excsOf_all_exc rest hall e' r').2 hm
      rw [List.all_eq_false]
      exact ⟨(e', r'), this, by simp [hne]⟩
    simp [connectLoop, hr]

example : connect [.exc .osError 1, .sock [7]] = .connected 1 [7] := by decide
example : connect [.exc .socksFailure 1, .exc .socksFailure 1] = .raised .socksFailure := by decide
example : connect [.exc .socksFailure 1, .exc .osError 2] = .raised .osError := by decide

/-! ## non-vacuity: concrete reply streams of each kind -/

example : verdictFor cfg5n [5, 0, 5, 0, 0, 3, 2, 104, 105, 0, 80, 0x16, 0x03] = .granted 11 := by
  decide
example : verdictFor cfg5a [5, 2, 1, 0, 5, 0, 0, 1, 1, 2, 3, 4, 0, 80] = .granted 14 := by decide
example : verdictFor cfg5a [5, 2, 1, 1] = .refused := by decide
example : verdictFor cfg5n [5, 2] = .refused := by decide
example : verdictFor cfg5n [5, 0, 5, 5, 0, 1, 0, 0, 0, 0, 0, 0] = .refused := by decide
example : verdictFor cfg5n [5, 0, 5, 5, 0, 1, 0] = .refusedCut := by decide
example : verdictFor cfg5n [5, 0, 5, 0, 1, 1, 0, 0, 0, 0, 0, 0] = .bad := by decide
example : verdictFor cfg5n [5, 0, 5, 0, 0, 1, 0, 0, 0] = .bad := by decide
example : verdictFor cfg4 [0, 90, 0, 0, 0, 0, 0, 0, 0x16] = .granted 8 := by decide
example : verdictFor cfg4 [0, 91, 0, 0, 0, 0, 0, 0] = .refused := by decide
example : verdictFor cfg4 [0, 90, 0, 0] = .bad := by decide
example : GoodCfg cfg4 := GoodCfg.s4 _ _ _ _ (by decide : socks4Start _ _ _ = .ok [4, 1, 0, 80, 1, 2, 3, 4, 0])
example : GoodCfg cfg5n := GoodCfg.s5 _ _ false
example : GoodCfg cfg5a := GoodCfg.s5 _ _ true

end Aiorpcx.C17
