import Aiorpcx.C17.Stages
/-! C17 / C16 — which messages the client sends, as a function of the reply stream alone
    (every segmentation): greeting; the RFC 1929 credential message only after the proxy
    selected method 2 (and only if it was offered); CONNECT only after the method (and the
    credentials, if asked for) were accepted. -/
namespace Aiorpcx.C17
open Aiorpcx.Socks

/-- the messages a SOCKS5 object with methods `ms` sends when the proxy's replies are `stream` -/
def sentSpec (dst ab : Bytes) (ms : List UInt8) (stream : Bytes) : List Bytes :=
  socks5Greeting ms ::
    match stream with
    | v :: m :: s1 =>
      if v ≠ 5 ∨ m ∉ ms then []
      else if m = 2 then
        ab :: (match s1 with
               | av :: st :: _ => if av = 1 ∧ st = 0 then [socks5Connect dst] else []
               | _ => [])
      else [socks5Connect dst]
    | _ => []

theorem runRef_connect_sent (cfg : Cfg) (s : Bytes) : (runRef ⟨cfg, .connect, []⟩ s).sent = [] := by
  rw [runRef_connect]
  match s with
  | [] | [_] | [_, _] | [_, _, _] | [_, _, _, _] => simp [eofRun]
  | v :: rep :: rsv :: atyp :: l :: rest =>
    simp only
    split
    · rfl
    · split
      · rfl
      · split <;> simp [eofRun]

/-- **What is sent depends only on the reply bytes**, for every segmentation oracle. -/
theorem sent_spec (oracle : Nat → Nat) (dst ab : Bytes) (ms : List UInt8) (stream : Bytes)
    (idx : Nat) :
    (handshake oracle (Client.init (.s5 dst ab ms)) ⟨stream, idx⟩).sent =
      sentSpec dst ab ms stream := by
  have h := congrArg RefRun.sent (handshake_ref oracle (Client.init (.s5 dst ab ms)) ⟨stream, idx⟩)
  simp only [refOf] at h
  rw [h, runRef_start_s5, runRef_first5]
  simp only [consMsg, sentSpec, Cfg.methods, Cfg.authBytes, Cfg.dst]
  congr 1
  match stream with
  | [] | [_] => simp [eofRun]
  | v :: m :: s1 =>
    simp only
    by_cases hv : v = 5
    · subst hv
      by_cases hm : m ∈ ms
      · by_cases h2 : m = 2
        · subst h2
          simp only [ne_eq, not_true_eq_false, hm, or_self, if_false, if_true]
          rw [runRef_auth]
          match s1 with
          | [] | [_] => simp [eofRun]
          | av :: st :: s2 =>
            simp only [Cfg.dst]
            by_cases ha : av = 1
            · by_cases hs : st = 0
              · subst ha hs
                simp [consMsg, runRef_connect_sent]
              · simp [ha, hs]
            · simp [ha]
        · simp [hm, h2, consMsg, runRef_connect_sent]
      · simp [hm]
    · simp [hv]

/-- unless the proxy's first reply is `05 02` *and* method 2 was offered, the credential
    message is never sent: the client sends the greeting and at most the CONNECT request -/
theorem sent_without_method2 (dst ab : Bytes) (ms : List UInt8) (stream : Bytes)
    (h : (¬ ∃ rest, stream = 5 :: 2 :: rest) ∨ 2 ∉ ms) :
    sentSpec dst ab ms stream = [socks5Greeting ms] ∨
    sentSpec dst ab ms stream = [socks5Greeting ms, socks5Connect dst] := by
  unfold sentSpec
  match stream with
  | [] | [_] => simp
  | v :: m :: s1 =>
    simp only
    by_cases hbad : v ≠ 5 ∨ m ∉ ms
    · simp [hbad]
    · simp only [hbad, if_false]
      have hv : v = 5 := Decidable.byContradiction fun hh => hbad (Or.inl hh)
      have hm : m ∈ ms := Decidable.byContradiction fun hh => hbad (Or.inr hh)
      by_cases h2 : m = 2
      · subst hv h2
        rcases h with h | h
        · exact absurd ⟨s1, rfl⟩ h
        · exact absurd hm h
      · simp [h2]

/-- when it is (`05 02` with method 2 offered) the credential message is the second message,
    and CONNECT follows only after the status reply `01 00` -/
theorem sent_with_method2 (dst ab : Bytes) (ms : List UInt8) (rest : Bytes) (h2 : 2 ∈ ms) :
    sentSpec dst ab ms (5 :: 2 :: rest) =
      socks5Greeting ms :: ab ::
        (match rest with
         | av :: st :: _ => if av = 1 ∧ st = 0 then [socks5Connect dst] else []
         | _ => []) := by
  cases rest with
  | nil => simp [sentSpec, h2]
  | cons a t => cases t <;> simp [sentSpec, h2]

end Aiorpcx.C17
