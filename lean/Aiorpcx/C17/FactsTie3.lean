import Aiorpcx.C17.Tables
import Aiorpcx.Facts.C17
/-! C17 — the decision tables regenerated from the source tree on every run
    (`tools/facts/c17.py`: what the *real* protocol objects do for every value 0..255 of every
    decision byte) are exactly what the model does.  Closed by kernel evaluation: if an edit of
    `socks.py` changes the reaction to any value of any decision byte, one of these stops
    compiling.  Part 3: bound-address lengths; exception hierarchy and the `try` of one proxy attempt. -/
namespace Aiorpcx.C17
open Aiorpcx.Socks

set_option maxRecDepth 100000 in
/-- domain-name replies: every bound-address length 0..255 (exactly `2 [+2] + 5 + len + 2`
    bytes are taken; one byte fewer on the wire and the object still wants data) -/
theorem facts_table_length :
    Facts.C17.s5ConnLen =
      tableExact cfg5n (fun b => [5, 0, 5, 0, 0, 3, b] ++ List.replicate (b.toNat + 3) 0) ∧
    Facts.C17.s5ConnLenAuth =
      tableExact cfg5a (fun b => [5, 2, 1, 0, 5, 0, 0, 3, b] ++ List.replicate (b.toNat + 3) 0) ∧
    Facts.C17.s5ConnLenShort =
      tableExact cfg5n (fun b => [5, 0, 5, 0, 0, 3, b] ++ List.replicate (b.toNat + 1) 0) := by
  refine ⟨?_, ?_, ?_⟩ <;> decide +kernel

/-- the model's exception kinds, in the order the extractor probes them -/
def allExc : List PyExc :=
  [.socksProtocolError, .socksFailure, .unicodeEncodeError, .assertionError, .structError,
   .attributeError, .osError, .unboundLocalError]

/-- **Exception hierarchy and the `try` of one proxy attempt, observed by running
    `create_connection`**: both SOCKS exceptions are `SOCKSError`s, neither is a subclass of the
    other, a `SOCKSError` is not an `OSError`; an exception raised by the handshake on one
    proxy address lets the client go on to the next address exactly when the model's `isCaught`
    says so (`OSError`, `SOCKSError` and their subclasses; nothing else); and the points of an
    attempt whose failure is survivable are `sock_connect`, the handshake and `getpeername()` -
    not the protocol constructor and not `socket.socket()` (`connectOne`). -/
theorem facts_exceptions :
    Facts.C17.protocolErrorIsSocksError = true ∧ Facts.C17.failureIsSocksError = true ∧
    Facts.C17.failureIsProtocolError = false ∧ Facts.C17.protocolErrorIsFailure = false ∧
    Facts.C17.socksErrorIsOsError = false ∧
    Facts.C17.caughtTable = allExc.map isCaught ++ [true, true, true, false, false] ∧
    Facts.C17.tryScope = [false, false, true, true, true] := by decide

end Aiorpcx.C17
