import Aiorpcx.C17.Spec
/-! C17 — grammar lemma: every proper prefix of a granting reply sequence is `bad` (so "EOF at
    every offset before completion" is covered by the `bad` case of `outcome_spec`). -/
namespace Aiorpcx.C17
open Aiorpcx.C17.Spec

theorem verdict4_prefix_bad (s : Bytes) (h : verdict4 s = .granted s.length) (j : Nat)
    (hj : j < s.length) : verdict4 (s.take j) = .bad := by
  match s with
  | [] | [_] | [_, _] | [_, _, _] | [_, _, _, _] | [_, _, _, _, _] | [_, _, _, _, _, _]
  | [_, _, _, _, _, _, _] => simp [verdict4] at h
  | vn :: cd :: a :: b :: c :: d :: e :: f :: rest =>
    have hl : rest = [] := by
      simp only [verdict4] at h
      split at h
      · simp at h
      · split at h
        · simp at h
          cases rest with
          | nil => rfl
          | cons x xs => simp at h
        · simp at h
    subst hl
    simp only [List.length_cons, List.length_nil] at hj
    match j with
    | 0 | 1 | 2 | 3 | 4 | 5 | 6 | 7 => simp [verdict4]
    | n + 8 => omega

theorem addrFieldLen_take (atyp : UInt8) (after : Bytes) (n j : Nat)
    (h : addrFieldLen atyp after = some n) :
    addrFieldLen atyp (after.take j) = some n ∨ addrFieldLen atyp (after.take j) = none := by
  unfold addrFieldLen at h ⊢
  by_cases h1 : atyp = 1
  · simp [h1] at h ⊢; exact h
  · by_cases h4 : atyp = 4
    · simp [h1, h4] at h ⊢; exact h
    · by_cases h3 : atyp = 3
      · simp only [h1, h4, h3, if_false, if_true] at h ⊢
        cases after with
        | nil => simp at h
        | cons l rest =>
          cases j with
          | zero => simp
          | succ j => simp at h ⊢; exact h
      · simp [h1, h4, h3] at h

theorem connectReply_prefix_bad (s : Bytes) (h : connectReply s = .granted s.length) (j : Nat)
    (hj : j < s.length) : connectReply (s.take j) = .bad := by
  match s with
  | [] | [_] | [_, _] | [_, _, _] => simp [connectReply] at h
  | ver :: rep :: rsv :: atyp :: after =>
    simp only [connectReply] at h
    split at h
    · simp at h
    · rename_i hb
      split at h
      · simp at h
      · rename_i ha
        split at h
        · rename_i n hn
          split at h
          · rename_i hlen
            split at h
            · rename_i hrep
              simp only [Verdict.granted.injEq, List.length_cons] at h
              -- after.length = n + 2
              match j with
              | 0 | 1 | 2 | 3 => simp [connectReply]
              | j' + 4 =>
                simp only [List.take_succ_cons, connectReply, hb, ha, if_false]
                simp only [List.length_cons] at hj
                have hshort : ¬ (n + 2 ≤ (after.take j').length) := by
                  simp [List.length_take]; omega
                rcases addrFieldLen_take atyp after n j' hn with h' | h'
                · have hs2 : ¬ (n + 2 ≤ min j' after.length) := by
                    simpa [List.length_take] using hshort
                  simp [h', hrep]
                  omega
                · simp [h', hrep]
            · simp at h
          · split at h <;> simp at h
        · split at h <;> simp at h

theorem shift_granted_len {k : Nat} {v : Verdict} {n : Nat} (h : v.shift k = .granted n) :
    ∃ m, v = .granted m ∧ n = k + m := by
  cases v <;> simp [Verdict.shift] at h
  exact ⟨_, rfl, h.symm⟩

theorem verdict5_prefix_bad (creds : Bool) (s : Bytes) (h : verdict5 creds s = .granted s.length)
    (j : Nat) (hj : j < s.length) : verdict5 creds (s.take j) = .bad := by
  match s with
  | [] | [_] => simp [verdict5] at h
  | ver :: m :: s1 =>
    simp only [verdict5] at h
    split at h
    · simp at h
    · rename_i hv
      split at h
      · rename_i hm
        obtain ⟨k, hk, hlen⟩ := shift_granted_len h
        simp only [List.length_cons] at hlen hj
        have hk' : connectReply s1 = .granted s1.length := by rw [hk]; congr 1; omega
        match j with
        | 0 | 1 => simp [verdict5]
        | j' + 2 =>
          simp only [List.take_succ_cons, verdict5, hv, hm, if_false, if_true]
          rw [connectReply_prefix_bad s1 hk' j' (by omega)]
          rfl
      · rename_i hm
        split at h
        · rename_i hc
          match s1 with
          | [] | [_] => simp at h
          | av :: st :: s2 =>
            simp only at h
            split at h
            · simp at h
            · rename_i hav
              split at h
              · simp at h
              · rename_i hst
                obtain ⟨k, hk, hlen⟩ := shift_granted_len h
                simp only [List.length_cons] at hlen hj
                have hk' : connectReply s2 = .granted s2.length := by rw [hk]; congr 1; omega
                match j with
                | 0 | 1 => simp [verdict5]
                | 2 | 3 => simp [verdict5, hv, hm, hc]
                | j' + 4 =>
                  simp only [List.take_succ_cons, verdict5, hv, hm, hc, hav, hst, if_false,
                    if_true]
                  rw [connectReply_prefix_bad s2 hk' j' (by omega)]
                  rfl
        · simp at h

end Aiorpcx.C17
