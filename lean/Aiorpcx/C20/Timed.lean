import Aiorpcx.C20.Model
/-! C20 (iii) — a timed model of `_send_concurrent`: WHEN a caller's request is written and WHEN
and HOW its call ends.

The untimed part is `ostep` (Model.lean: limiter + response-time samples + recalibration).  Here
every send operation in flight carries the virtual time at which it was written (= the moment it
got its slot: the write itself is instantaneous in this model — a send buffer that stays full is
C15's subject and outside it), and the environment's operations carry no duration except `wait`:

* `call i n`   — a caller reaches `async with self._outgoing_concurrency` (request_count n);
* `answer i`   — the peer's response to send operation i is delivered now;
* `wait dt`    — virtual time passes; on the way every `timeout_after(sent_request_timeout)` whose
                 deadline is reached fires, earliest deadline first (urgency: time cannot pass a
                 deadline without the timer firing), each firing being a completion that may takeIn
                 queued callers, who are written at that very moment;
* `lose`       — the connection is lost: `connection_lost` cancels every registered future, so
                 every caller — awaiting a response or still queued for a slot — is cancelled now.

No Mathlib imports. -/
namespace Aiorpcx.C20

inductive EndKind where
  | answered      -- result or error: the response arrived in time
  | timedOut      -- TaskTimeout
  | cancelled     -- CancelledError: connection lost
  deriving Repr, DecidableEq

inductive TEv where
  | written (i : Nat) (t : Rat)
  /-- the call of send operation `i` ended at `t`; `w` = when its request was written (`none`: it
  was still queued for a slot) -/
  | ended (i : Nat) (w : Option Rat) (t : Rat) (k : EndKind)
  deriving Repr, DecidableEq

structure TS where
  out : Out
  now : Rat
  /-- send operations in flight: id, time written, request_count -/
  wrote : List (Nat × Rat × Nat)
  /-- request_count of the callers still queued for a slot -/
  queued : List (Nat × Nat)
  lost : Bool
  deriving Repr

inductive TOp where
  | call (i : Nat) (n : Nat)
  | answer (i : Nat)
  | wait (dt : Rat)
  | lose
  deriving Repr

def countOf (q : List (Nat × Nat)) (i : Nat) : Nat :=
  match q.find? (fun p => p.1 = i) with
  | some p => p.2
  | none => 1

/-- the callers let into the limiter by a step are written now -/
def takeIn (s : TS) (evs : List C13.Ev) : TS × List TEv :=
  let ids := evs.filterMap (fun e => match e with | .entered j => some j | _ => none)
  ({ s with wrote := s.wrote ++ ids.map (fun j => (j, s.now, countOf s.queued j)),
            queued := s.queued.filter (fun p => !ids.contains p.1) },
   ids.map (fun j => TEv.written j s.now))

/-- send operation `i`, written at `w`, completes now with outcome `k` (the `finally` block records
`now − w`, possibly recalibrates; then `__aexit__`) -/
def complete (c : OCfg) (s : TS) (i : Nat) (w : Rat) (n : Nat) (k : EndKind) : TS × List TEv :=
  let r := ostep c s.out (.done i (s.now - w) n)
  let s1 := { s with out := r.1, wrote := s.wrote.filter (fun p => p.1 ≠ i) }
  let a := takeIn s1 r.2
  (a.1, TEv.ended i (some w) s.now k :: a.2)

/-- the send operation in flight with the earliest deadline (first written first on ties) -/
def earliest : List (Nat × Rat × Nat) → Option (Nat × Rat × Nat)
  | [] => none
  | p :: r =>
      match earliest r with
      | none => some p
      | some q => if p.2.1 ≤ q.2.1 then some p else some q

/-- let `dt` pass, firing on the way every response-wait timer whose deadline is reached -/
def passTime (c : OCfg) (τ : Rat) : Nat → TS → Rat → TS × List TEv
  | 0, s, _ => (s, [])        -- (out of fuel: never reached, `tstep` supplies enough)
  | fuel + 1, s, dt =>
      match earliest s.wrote with
      | none => ({ s with now := s.now + dt }, [])
      | some (i, w, n) =>
          if w + τ ≤ s.now + dt then
            -- the timer of send operation i fires at its deadline
            let s1 := { s with now := max s.now (w + τ) }
            let r := complete c s1 i w n .timedOut
            let r2 := passTime c τ fuel r.1 (s.now + dt - s1.now)
            (r2.1, r.2 ++ r2.2)
          else ({ s with now := s.now + dt }, [])

def tstep (c : OCfg) (τ : Rat) (s : TS) : TOp → TS × List TEv
  | .call i n =>
      if s.lost then (s, [TEv.ended i none s.now .cancelled])      -- (not modelled further)
      else
        let r := ostep c s.out (.send i)
        takeIn { s with out := r.1, queued := s.queued ++ [(i, n)] } r.2
  | .answer i =>
      match s.wrote.find? (fun p => p.1 = i) with
      | some (_, w, n) => complete c s i w n .answered
      | none => (s, [])         -- a response nobody waits for any more
  | .wait dt =>
      if dt < 0 then (s, [])
      else passTime c τ (s.wrote.length + s.queued.length + 1) s dt
  | .lose =>
      -- every future is cancelled: callers awaiting a response and callers still queued alike
      ({ s with wrote := [], queued := [], lost := true,
                out := { s.out with lim := { s.out.lim with holders := [], waiters := [] } } },
       s.wrote.map (fun p => TEv.ended p.1 (some p.2.1) s.now .cancelled) ++
       s.queued.map (fun p => TEv.ended p.1 none s.now .cancelled))

def trun (c : OCfg) (τ : Rat) (s : TS) : List TOp → TS × List TEv
  | [] => (s, [])
  | op :: ops =>
      let r := tstep c τ s op
      let r2 := trun c τ r.1 ops
      (r2.1, r.2 ++ r2.2)

def tinit (n : Nat) : TS := ⟨oinit n, 0, [], [], false⟩

end Aiorpcx.C20
