import Aiorpcx.C20.Model
import Aiorpcx.C20.TimedProps
import Aiorpcx.C13.Props
import Aiorpcx.C14.Lemmas
import Aiorpcx.C13.Table
import Aiorpcx.Facts.C20
/-!
# C20 — property theorems for the outgoing side (adaptive in-flight cap)

(i) `recalc` = `_recalc_concurrency` (after repair F18) over exact rationals; `recalcPinned` = the
pinned function.  (ii) `ostep`/`orun` = `_send_concurrent` driving the outgoing limiter
`Concurrency(50)` (the C13 model) with the `finally` block that records response times and
recalibrates before `__aexit__`.  All statements are for **all** inputs / all operation lists.
(iii) (timing: which outcome, when) is not modelled in Lean; see props/C20.json — it is checked by
the property oracle on the real session under virtual time.
-/
namespace Aiorpcx.C20

/-! ## (i) recalibration arithmetic -/

theorem pyInt_between {x : Rat} {a b : Int} (ha : 0 ≤ a) (h1 : (a : Rat) ≤ x) (h2 : x ≤ (b : Rat)) :
    a ≤ pyInt (1 / 2 + x) ∧ pyInt (1 / 2 + x) ≤ b := by
  have ha' : (0 : Rat) ≤ (a : Rat) := by exact_mod_cast ha
  have hx : (0 : Rat) ≤ 1 / 2 + x := by grind
  unfold pyInt
  simp only [hx, ↓reduceIte]
  refine ⟨?_, ?_⟩
  · rw [Rat.le_floor_iff]; grind
  · have : (1 / 2 + x).floor < b + 1 := by
      rw [Rat.floor_lt_iff]
      have : ((b + 1 : Int) : Rat) = (b : Rat) + 1 := by simp [Rat.intCast_add]
      rw [this]; grind
    omega

theorem clamp_between {f c y : Rat} (h : f ≤ c) : f ≤ max f (min c y) ∧ max f (min c y) ≤ c := by
  grind

theorem le_div_of_mul_le {a b c : Rat} (hc : 0 < c) (h : a * c ≤ b) : a ≤ b / c := by
  have := C14.div_le_div_right h hc
  rwa [Rat.mul_div_cancel (by grind)] at this


theorem recalc_between (cur : Int) (trt avg : Rat) (h1 : 1 ≤ cur) (h2 : cur ≤ 250) :
    floorOf cur ≤ recalc cur trt avg ∧ recalc cur trt avg ≤ capOf cur := by
  have hfc : floorOf cur ≤ capOf cur := by unfold floorOf capOf; omega
  have hf0 : 0 ≤ floorOf cur := by unfold floorOf; omega
  have hfc' : ((floorOf cur : Int) : Rat) ≤ ((capOf cur : Int) : Rat) := by exact_mod_cast hfc
  unfold recalc preRound
  by_cases ha : avg ≠ 0
  · rw [if_pos ha]
    have := clamp_between (y := (cur : Rat) * trt / avg) hfc'
    exact pyInt_between hf0 this.1 this.2
  · rw [if_neg ha]
    exact pyInt_between hf0 hfc' (Rat.le_refl)

/-- **The limit always stays between 1 and 250**: one recalibration from any limit in [1,250],
for every target response time and every average (zero, tiny, huge, negative). -/
theorem target_range (cur : Int) (trt avg : Rat) (h1 : 1 ≤ cur) (h2 : cur ≤ 250) :
    1 ≤ recalc cur trt avg ∧ recalc cur trt avg ≤ 250 := by
  have := recalc_between cur trt avg h1 h2
  unfold floorOf capOf at this
  omega

/-- … and therefore over any recalibration history. -/
theorem range_invariant (hist : List (Rat × Rat)) : ∀ (cur : Int), 1 ≤ cur → cur ≤ 250 →
    1 ≤ recalcAll cur hist ∧ recalcAll cur hist ≤ 250 := by
  induction hist with
  | nil => intro cur h1 h2; exact ⟨h1, h2⟩
  | cons p r ih =>
    intro cur h1 h2
    obtain ⟨trt, avg⟩ := p
    have := target_range cur trt avg h1 h2
    exact ih _ this.1 this.2

/-- **Bounded step, literal reading** (repaired code): the limit moves up by at most
`max(3, 10 %)` and down by at most `max(1, 20 %)` of the current value.  The step is an integer, so
"≤ max(3, cur/10)" is the same as "≤ max(3, ⌊cur/10⌋)" — that is what is computed. -/
theorem step_bound_literal (cur : Int) (trt avg : Rat) (h1 : 1 ≤ cur) (h2 : cur ≤ 250) :
    recalc cur trt avg - cur ≤ max 3 (cur / 10) ∧ cur - recalc cur trt avg ≤ max 1 (cur / 5) ∧
    ((recalc cur trt avg - cur : Int) : Rat) ≤ max 3 ((cur : Rat) / 10) ∧
    ((cur - recalc cur trt avg : Int) : Rat) ≤ max 1 ((cur : Rat) / 5) := by
  have hb := recalc_between cur trt avg h1 h2
  unfold floorOf capOf at hb
  have a : recalc cur trt avg - cur ≤ max 3 (cur / 10) := by omega
  have b : cur - recalc cur trt avg ≤ max 1 (cur / 5) := by omega
  refine ⟨a, b, ?_, ?_⟩
  · have h10 : ((cur / 10 : Int) : Rat) ≤ (cur : Rat) / 10 := by
      apply le_div_of_mul_le (by decide)
      have : (cur / 10) * 10 ≤ cur := Int.ediv_mul_le cur (by decide)
      exact_mod_cast this
    have a' : ((recalc cur trt avg - cur : Int) : Rat) ≤ ((max 3 (cur / 10) : Int) : Rat) := by
      exact_mod_cast a
    have hm : ((max 3 (cur / 10) : Int) : Rat) ≤ max 3 ((cur : Rat) / 10) := by
      by_cases h : (3 : Int) ≤ cur / 10
      · rw [Int.max_eq_right h]; grind
      · rw [Int.max_eq_left (by omega)]; simp only [Rat.intCast_ofNat]; grind
    exact Rat.le_trans a' hm
  · have h5 : ((cur / 5 : Int) : Rat) ≤ (cur : Rat) / 5 := by
      apply le_div_of_mul_le (by decide)
      have : (cur / 5) * 5 ≤ cur := Int.ediv_mul_le cur (by decide)
      exact_mod_cast this
    have b' : ((cur - recalc cur trt avg : Int) : Rat) ≤ ((max 1 (cur / 5) : Int) : Rat) := by
      exact_mod_cast b
    have hm : ((max 1 (cur / 5) : Int) : Rat) ≤ max 1 ((cur : Rat) / 5) := by
      by_cases h : (1 : Int) ≤ cur / 5
      · rw [Int.max_eq_right h]; grind
      · rw [Int.max_eq_left (by omega)]; simp only [Rat.intCast_ofNat]; grind
    exact Rat.le_trans b' hm

/-! ### the pinned function (F18) -/

theorem pyInt_round {x : Rat} (hx : 0 ≤ x) :
    ((pyInt (1 / 2 + x) : Int) : Rat) ≤ x + 1 / 2 ∧ x - 1 / 2 < ((pyInt (1 / 2 + x) : Int) : Rat) := by
  have h0 : (0 : Rat) ≤ 1 / 2 + x := by grind
  unfold pyInt
  simp only [h0, ↓reduceIte]
  have a := Rat.floor_le (1 / 2 + x)
  have b := Rat.lt_floor_add_one (1 / 2 + x)
  have : (((1 / 2 + x).floor + 1 : Int) : Rat) = ((1 / 2 + x).floor : Rat) + 1 := by
    rw [Rat.intCast_add]; rfl
  rw [this] at b
  grind

/-- **Bounded step with rounding slack** (pinned code): because the clamp is rounded to nearest
afterwards, the pinned function may overstep the literal bounds — by less than one half. -/
theorem step_bound_rounded_pinned (cur : Int) (trt avg : Rat) (h1 : 1 ≤ cur) (h2 : cur ≤ 250) :
    ((recalcPinned cur trt avg : Int) : Rat) - cur ≤ max 3 ((cur : Rat) / 10) + 1 / 2 ∧
    (cur : Rat) - ((recalcPinned cur trt avg : Int) : Rat) < max 1 ((cur : Rat) / 5) + 1 / 2 ∧
    1 ≤ recalcPinned cur trt avg ∧ recalcPinned cur trt avg ≤ 250 := by
  have c1 : (1 : Rat) ≤ (cur : Rat) := by exact_mod_cast h1
  have c2 : (cur : Rat) ≤ 250 := by
    have h : (cur : Rat) ≤ ((250 : Int) : Rat) := Rat.intCast_le_intCast.2 h2
    exact h
  have e10 : (cur : Rat) * (1 / 10) = (cur : Rat) / 10 := by grind
  have e5 : (cur : Rat) * (4 / 5) = (cur : Rat) - (cur : Rat) / 5 := by grind
  -- name the clamped value
  have key : ∃ x : Rat, recalcPinned cur trt avg = pyInt (1 / 2 + x) ∧
      floorPinned cur ≤ x ∧ x ≤ capPinned cur := by
    have hfc : floorPinned cur ≤ capPinned cur := by unfold floorPinned capPinned; grind
    unfold recalcPinned preRoundPinned
    by_cases ha : avg ≠ 0
    · rw [if_pos ha]
      exact ⟨_, rfl, (clamp_between hfc).1, (clamp_between hfc).2⟩
    · rw [if_neg ha]
      exact ⟨_, rfl, hfc, Rat.le_refl⟩
  obtain ⟨x, hx, lo, hi⟩ := key
  unfold floorPinned at lo
  unfold capPinned at hi
  have hx0 : 0 ≤ x := by grind
  obtain ⟨r1, r2⟩ := pyInt_round hx0
  rw [← hx] at r1 r2
  have lo1 : (1 : Rat) ≤ x := by grind
  have hi250 : x ≤ 250 := by grind
  refine ⟨by grind, by grind, ?_, ?_⟩
  · have : ((1 : Int) : Rat) ≤ x := by simpa using lo1
    have := (pyInt_between (a := 1) (b := 250) (by decide) this (by simpa using hi250)).1
    rw [hx]; exact this
  · have : ((1 : Int) : Rat) ≤ x := by simpa using lo1
    have := (pyInt_between (a := 1) (b := 250) (by decide) this (by simpa using hi250)).2
    rw [hx]; exact this

/-- the literal step bound as a proposition about a recalibration function -/
def StepBoundLiteral (f : Int → Rat → Rat → Int) : Prop :=
  ∀ (cur : Int) (trt avg : Rat), 1 ≤ cur → cur ≤ 250 →
    ((f cur trt avg - cur : Int) : Rat) ≤ max 3 ((cur : Rat) / 10) ∧
    ((cur - f cur trt avg : Int) : Rat) ≤ max 1 ((cur : Rat) / 5)

theorem step_bound_literal_repaired : StepBoundLiteral recalc := fun cur trt avg h1 h2 =>
  ⟨(step_bound_literal cur trt avg h1 h2).2.2.1, (step_bound_literal cur trt avg h1 h2).2.2.2⟩

/-- **F18 (pinned tree)**: limit 35 with all response times 0 goes to 39 (+4 > 3.5); limit 8 with
slow responses goes to 6 (−2 > 1.6): the pinned function violates the literal step bound. -/
theorem step_bound_literal_pinned_witness :
    recalcPinned 35 3 0 = 39 ∧ recalcPinned 8 3 1000000000 = 6 ∧ ¬ StepBoundLiteral recalcPinned := by
  have a : recalcPinned 35 3 0 = 39 := by decide +kernel
  have b : recalcPinned 8 3 1000000000 = 6 := by decide +kernel
  refine ⟨a, b, ?_⟩
  intro h
  have := (h 35 3 0 (by decide) (by decide)).1
  rw [a] at this
  exact absurd this (by decide +kernel)

/-! ## (ii) the outgoing limiter -/

/-- limiter theorems at the outgoing initial limit: permits are conserved for any sequence of
sends, completions, cancelled queued callers and limit changes. -/
theorem outgoing_permit_conservation (ops : List C13.Op) :
    let s := (C13.run (C13.init Facts.C20.outgoingInitial) ops).1
    s.S + s.holders.length = s.V ∧ 0 ≤ s.S ∧ 1 ≤ s.V ∧ s.leaked = 0 :=
  C13.permit_conservation _ ops

/-- **A lowered limit takes effect as outstanding requests complete** (= C13
`reduction_takes_effect` on the outgoing limiter). -/
theorem lowered_limit_lazy (s : C13.Lim) (h : C13.Inv s) (n : Int) (hn : n ≤ s.V) (ops : List C13.Op)
    (hno : C13.noSetTarget ops) :
    let s' := (C13.run (C13.step s (.setTarget n)).1 ops).1
    let k := C13.exitsDone (C13.step s (.setTarget n)).1 ops
    s'.V = max (max n 1) (s.V - k) ∧ (s'.holders.length : Int) ≤ max (max n 1) (s.V - k) ∧
    (s.V - n ≤ k → (s'.holders.length : Int) ≤ max n 1) :=
  C13.reduction_takes_effect s h n hn ops hno

/-- **Bounded wait, counted in completions** (= C13 `served_within` on the outgoing limiter): a
caller queued at position `k` is written after at most `k + 1 + (V − max T 1)⁺` completions of
outstanding requests — and each outstanding request completes within `sent_request_timeout` of
being written (that timing half is `outcome_within` below for the modelled wait, and the oracle on
the real session). -/
theorem bounded_wait_in_completions (s : C13.Lim) (h : C13.Inv s) (ops : List C13.Op)
    (he : C13.exitsOnly s ops) (k : Nat) (hk : k < s.waiters.length)
    (hn : k + 1 + (s.V - C13.bound s).toNat ≤ ops.length) :
    ∃ x, s.waiters[k]? = some x ∧ (C13.ids (C13.run s ops).2)[k]? = some x :=
  C13.served_within s h ops he k hk hn

/-- invariant of the composed system -/
structure OInv (m : Int) (o : Out) : Prop where
  inv : C13.Inv o.lim
  T_pos : 1 ≤ o.lim.T
  T_le : o.lim.T ≤ 250
  V_m : o.lim.V ≤ m
  T_m : o.lim.T ≤ m
  m_le : m ≤ 250

/-- largest limit that has been in force along a run of the composed system -/
def omaxT (c : OCfg) (o : Out) (m : Int) : List OOp → Int
  | [] => m
  | op :: ops => omaxT c (ostep c o op).1 (max m (ostep c o op).1.lim.T) ops

theorem record_inv (c : OCfg) (o : Out) (taken : Rat) (count : Nat) (m : Int) (h : OInv m o) :
    OInv (max m (record c o taken count).lim.T) (record c o taken count) := by
  have hT1 := h.T_pos
  have hm := h.m_le; have hTle := h.T_le; have hVm := h.V_m; have hTm := h.T_m
  have r := target_range o.lim.T c.trt (avgOf (newTimes o taken count)) hT1 h.T_le
  unfold record
  by_cases h1 : (newTimes o taken count).length ≥ c.recalibrate
  · rw [if_pos h1]
    by_cases h2 : recalc o.lim.T c.trt (avgOf (newTimes o taken count)) ≠ o.lim.T
    · rw [if_pos h2, C13.step_setTarget]
      exact ⟨⟨h.inv.S_nonneg, h.inv.cons, h.inv.wait_S, h.inv.V_pos, h.inv.no_leak, h.inv.fx⟩, r.1, r.2,
        by first | omega | (dsimp only; omega), by first | omega | (dsimp only; omega), by first | omega | (dsimp only; omega)⟩
    · rw [if_neg h2]
      exact ⟨h.inv, h.T_pos, h.T_le, by first | omega | (dsimp only; omega), by first | omega | (dsimp only; omega), by first | omega | (dsimp only; omega)⟩
  · rw [if_neg h1]
    exact ⟨h.inv, h.T_pos, h.T_le, by first | omega | (dsimp only; omega), by first | omega | (dsimp only; omega), by first | omega | (dsimp only; omega)⟩

theorem lim_step_inv (m : Int) (l : C13.Lim) (op : C13.Op) (hop : op.isSetTarget = false)
    (inv : C13.Inv l) (_hT : l.T ≤ 250) (hV : l.V ≤ m) (hTm : l.T ≤ m) :
    C13.Inv (C13.step l op).1 ∧ (C13.step l op).1.T = l.T ∧ (C13.step l op).1.V ≤ m := by
  have f := C13.step_facts l op inv
  have := f.V_le hop
  exact ⟨f.inv, f.T hop, by omega⟩

theorem ostep_inv (c : OCfg) (o : Out) (op : OOp) (m : Int) (h : OInv m o) :
    OInv (max m (ostep c o op).1.lim.T) (ostep c o op).1 := by
  have plain : ∀ (lop : C13.Op), lop.isSetTarget = false →
      OInv (max m (C13.step o.lim lop).1.T) { o with lim := (C13.step o.lim lop).1 } := by
    intro lop hl
    have s := lim_step_inv m o.lim lop hl h.inv h.T_le h.V_m h.T_m
    have hm := h.m_le; have hTle := h.T_le; have hV := s.2.2; have hT := s.2.1; have hp := h.T_pos
    exact ⟨s.1, by first | omega | (dsimp only; omega), by first | omega | (dsimp only; omega),
      by first | omega | (dsimp only; omega), by first | omega | (dsimp only; omega),
      by first | omega | (dsimp only; omega)⟩
  cases op with
  | send i => simp only [ostep]; exact plain (.enter i) rfl
  | cancelWaiter i => simp only [ostep]; exact plain (.cancelWaiter i) rfl
  | sendFailed i =>
    simp only [ostep]
    split
    · exact plain (.exit i) rfl
    · have hm := h.m_le; have hTle := h.T_le; have hV := h.V_m; have hTm := h.T_m
      exact ⟨h.inv, h.T_pos, h.T_le, by first | omega | (dsimp only; omega), by first | omega | (dsimp only; omega), by first | omega | (dsimp only; omega)⟩
  | done i taken count =>
    simp only [ostep]
    split
    · have r := record_inv c o taken count m h
      have s := lim_step_inv _ (record c o taken count).lim (.exit i) rfl r.inv r.T_le r.V_m r.T_m
      have hm := r.m_le; have hTle := r.T_le; have hV := s.2.2; have hT := s.2.1
      have hTm := r.T_m; have hp := r.T_pos
      exact ⟨s.1, by first | omega | (dsimp only; omega), by first | omega | (dsimp only; omega), by first | omega | (dsimp only; omega), by first | omega | (dsimp only; omega),
        by first | omega | (dsimp only; omega)⟩
    · have hm := h.m_le; have hTle := h.T_le; have hV := h.V_m; have hTm := h.T_m
      exact ⟨h.inv, h.T_pos, h.T_le, by first | omega | (dsimp only; omega), by first | omega | (dsimp only; omega), by first | omega | (dsimp only; omega)⟩

theorem orun_inv (c : OCfg) (ops : List OOp) : ∀ (o : Out) (m : Int), OInv m o →
    OInv (omaxT c o m ops) (orun c o ops).1 := by
  induction ops with
  | nil => intro o m h; exact h
  | cons op ops ih =>
    intro o m h
    exact ih _ _ (ostep_inv c o op m h)

theorem oinit_inv : OInv Facts.C20.outgoingInitial (oinit Facts.C20.outgoingInitial) :=
  ⟨C13.init_inv _, by decide, by decide, by decide, by decide, by decide⟩

/-- **In-flight cap (send operations)**: for every workload (any interleaving of callers reaching
the limiter, completions with any measured response times and request counts, writes that fail
before the wait begins, cancelled queued callers) and any `target_response_time` /
`recalibrate_count`: the number of send operations awaiting a response never exceeds the largest
limit that has been in force, which itself never exceeds 250; the limit stays in [1, 250]; permits
are conserved.  (A batch is ONE send operation holding one permit — for *requests* see
`awaiting_cap_full_fails` / `awaiting_cap_partial`.) -/
theorem in_flight_cap (c : OCfg) (ops : List OOp) :
    let o := (orun c (oinit Facts.C20.outgoingInitial) ops).1
    let m := omaxT c (oinit Facts.C20.outgoingInitial) Facts.C20.outgoingInitial ops
    (o.lim.holders.length : Int) ≤ m ∧ m ≤ 250 ∧ 1 ≤ o.lim.T ∧ o.lim.T ≤ 250 ∧
    o.lim.S + o.lim.holders.length = o.lim.V ∧ 0 ≤ o.lim.S := by
  have h := orun_inv c ops _ _ oinit_inv
  have hc := h.inv.cons; have hs := h.inv.S_nonneg
  have hv := h.V_m
  refine ⟨by omega, h.m_le, h.T_pos, h.T_le, hc, hs⟩

/-- **The text's own statement**: "requests awaiting responses never outnumber the largest
outgoing concurrency limit that has been in force" — counting *requests*, a batch of `k` requests
being `k` of them. -/
def awaiting_cap_full : Prop :=
  ∀ (c : OCfg) (ops : List OOp) (cnt : Nat → Nat),
    (awaiting (orun c (oinit Facts.C20.outgoingInitial) ops).1 cnt : Int) ≤
      omaxT c (oinit Facts.C20.outgoingInitial) Facts.C20.outgoingInitial ops

/-- **It fails** (known finding `c20:batch-requests-exceed-limit`, no small safe repair: a batch
takes one permit by design): one batch of 60 requests on a fresh session — 60 requests await
responses, the limit has never been above 50. -/
theorem awaiting_cap_full_fails : ¬ awaiting_cap_full := by
  intro h
  have := h ⟨3, 30⟩ [.send 0] (fun _ => 60)
  revert this
  decide +kernel

theorem sum_map_one (l : List Nat) (cnt : Nat → Nat) (h : ∀ i ∈ l, cnt i = 1) :
    (l.map cnt).sum = l.length := by
  induction l with
  | nil => rfl
  | cons a r ih =>
    simp only [List.map_cons, List.sum_cons, List.length_cons]
    rw [h a (by simp), ih (fun i hi => h i (by simp [hi]))]; omega

/-- **What does hold**: for single requests the two counts coincide — requests awaiting responses
never outnumber the largest limit so far as long as every send operation in flight is a single
request; in general they are bounded by that limit times the largest batch. -/
theorem awaiting_cap_partial (c : OCfg) (ops : List OOp) (cnt : Nat → Nat) (k : Nat)
    (hk : ∀ i ∈ (orun c (oinit Facts.C20.outgoingInitial) ops).1.lim.holders, cnt i ≤ k) :
    (awaiting (orun c (oinit Facts.C20.outgoingInitial) ops).1 cnt : Int) ≤
      k * omaxT c (oinit Facts.C20.outgoingInitial) Facts.C20.outgoingInitial ops := by
  have cap : ((orun c (oinit Facts.C20.outgoingInitial) ops).1.lim.holders.length : Int) ≤
      omaxT c (oinit Facts.C20.outgoingInitial) Facts.C20.outgoingInitial ops := (in_flight_cap c ops).1
  unfold awaiting
  generalize (orun c (oinit Facts.C20.outgoingInitial) ops).1.lim.holders = l at hk cap ⊢
  generalize omaxT c (oinit Facts.C20.outgoingInitial) Facts.C20.outgoingInitial ops = m at cap ⊢
  have hsum : (l.map cnt).sum ≤ k * l.length := by
    clear cap
    induction l with
    | nil => simp
    | cons a r ih =>
      simp only [List.map_cons, List.sum_cons, List.length_cons]
      have := hk a (by simp)
      have := ih (fun i hi => hk i (by simp [hi]))
      rw [Nat.mul_succ]; omega
  have h1 : ((l.map cnt).sum : Int) ≤ ((k * l.length : Nat) : Int) := by exact_mod_cast hsum
  have h2 : ((k * l.length : Nat) : Int) = (k : Int) * (l.length : Int) := by push_cast; rfl
  have h3 : (k : Int) * (l.length : Int) ≤ (k : Int) * m :=
    Int.mul_le_mul_of_nonneg_left cap (by omega)
  omega

/-! ## tie to the source: behavioural tables regenerated on every run by RUNNING the current tree
(tools/facts/c20.py: a live client session with a scripted peer under virtual time, public API
only).  Nothing below depends on how `_recalc_concurrency` / `_send_concurrent` are written. -/

theorem facts_constants :
    Facts.C20.outgoingInitial = 50 ∧ Facts.C20.sentRequestTimeout = 30 ∧
    Facts.C20.targetResponseTime = 3 ∧ Facts.C20.recalibrateCount = 30 ∧
    Facts.C20.maxSendDelay = 20 := by decide +kernel

open Table in
/-- read `n` steps (request_count, response time numerator, denominator) -/
def takeSteps : Nat → List Int → Option (List (Nat × Rat) × List Int)
  | 0, l => some ([], l)
  | n + 1, k :: a :: b :: l => (takeSteps n l).map (fun r => ((k.toNat, ratOf a b) :: r.1, r.2))
  | _ + 1, _ => none

/-- send operations answered one after the other: after each completion the model's limit must be
the observed one -/
def checkFlow (c : OCfg) : Out → Nat → List (Nat × Rat) → List Int → Bool
  | _, _, [], [] => true
  | o, k, (count, taken) :: steps, t :: obs =>
      let o1 := (ostep c o (.send k)).1
      let o2 := (ostep c o1 (.done k taken count)).1
      decide (o2.lim.T = t) && decide (o2.lim.holders = []) && checkFlow c o2 (k + 1) steps obs
  | _, _, _, _ => false

def flowRowOk (row : List Int) : Bool :=
  match row with
  | tn :: td :: recal :: n :: rest =>
      match takeSteps n.toNat rest with
      | some (steps, obs) => checkFlow ⟨Table.ratOf tn td, recal.toNat⟩ (oinit Facts.C20.outgoingInitial) 0 steps obs
      | none => false
  | _ => false

/-- **`_send_concurrent`'s bookkeeping and `_recalc_concurrency` compute what the model computes**:
on every sequence of send operations the facts extractor ran on a live client session (walks of
the limit from 50 up to 250, down to 1 and back, between the bounds, with several samples per
recalibration, batches contributing their per-request share per member, recalibrate_count 0 and
non-positive target_response_time) the outgoing limit after every completion is the model's.
(This is the normal form of the code **after** F18; delays are chosen so that every float
operation is exact and no rounding tie can occur.) -/
theorem facts_flow_table :
    Facts.C20.flowTable.all flowRowOk = true ∧ 10 ≤ Facts.C20.flowTable.length := by
  decide +kernel

/-! ### (iii) the timed model against what callers get and when -/

open Table in
/-- read `n` environment actions (time num den, kind, id, request_count) as timed operations: wait
until the action's time, then perform it -/
def takeEnv : Nat → Rat → List Int → Option (List TOp × Rat × List Int)
  | 0, now, l => some ([], now, l)
  | n + 1, now, tn :: td :: kind :: i :: cnt :: l =>
      let t := ratOf tn td
      let op : TOp := if kind = 0 then .call i.toNat cnt.toNat else if kind = 1 then .answer i.toNat else .lose
      (takeEnv n t l).map (fun r => (.wait (t - now) :: op :: r.1, r.2))
  | _ + 1, _, _ => none

def writtenAt (i : Nat) : List TEv → Option Rat
  | [] => none
  | .written j t :: r => if j = i then some t else writtenAt i r
  | _ :: r => writtenAt i r

def endOf (i : Nat) : List TEv → Option (Rat × EndKind)
  | [] => none
  | .ended j _ t k :: r => if j = i then some (t, k) else endOf i r
  | _ :: r => endOf i r

def kindCode : EndKind → List Int
  | .answered => [0, 1]
  | .timedOut => [2]
  | .cancelled => [3]

open Table in
/-- per caller: written?, write time, outcome, outcome time — as the model has them -/
def checkCallers (evs : List TEv) : Nat → Nat → List Int → Bool
  | _, 0, [] => true
  | i, n + 1, hw :: wn :: wd :: k :: tn :: td :: rest =>
      (match writtenAt i evs with
       | some w => decide (hw = 1) && decide (w = ratOf wn wd)
       | none => decide (hw = 0)) &&
      (match endOf i evs with
       | some (t, kind) => decide (k ∈ kindCode kind) && decide (t = ratOf tn td)
       | none => false) && checkCallers evs (i + 1) n rest
  | _, _, _ => false

def outcomeRowOk (row : List Int) : Bool :=
  match row with
  | L :: tn :: td :: nenv :: rest =>
      match takeEnv nenv.toNat 0 rest with
      | some (ops, last, n :: obs) =>
          let τ := Table.ratOf tn td
          let r := trun ⟨3, 1000000⟩ τ (tinit L.toNat) (ops ++ [.wait (τ * (n + 3) + last + 1)])
          checkCallers r.2 0 n.toNat obs
      | _ => false
  | _ => false

/-- **What callers get and when** (part iii against the code): on a live client session whose
outgoing limiter was first brought to limit L through the public API, for silent peers, peers that
answer after a delay (all or only some requests) and connections that are lost: every caller's
request is written when the timed model says (the excess over the limit only when a slot frees),
and every call ends when and how the timed model says — `TaskTimeout` exactly
`sent_request_timeout` after the write, the result when the answer arrives, cancellation at the
moment of the loss, also for callers still queued. -/
theorem facts_outcome_table :
    Facts.C20.outcomeTable.all outcomeRowOk = true ∧ 12 ≤ Facts.C20.outcomeTable.length := by
  decide +kernel

/-! ## non-vacuity -/

example : recalc 50 3 1 = 55 ∧ recalc 50 3 3 = 50 ∧ recalc 50 3 30 = 40 ∧ recalc 35 3 0 = 38 ∧
    recalc 8 3 1000000000 = 7 ∧ recalc 250 3 0 = 250 ∧ recalc 1 3 1000000000 = 1 := by
  decide +kernel
example : recalcAll 50 [(3, 30), (3, 30), (3, 1/2)] = 35 := by decide +kernel
-- a workload that queues, records times, recalibrates inside `done`, and admits on the raise
example : ((orun ⟨3, 2⟩ (oinit 2) [.send 0, .send 1, .send 2, .done 0 (1/2) 1, .done 1 0 1,
    .send 3, .send 4]).1.lim.T,
    (orun ⟨3, 2⟩ (oinit 2) [.send 0, .send 1, .send 2, .done 0 (1/2) 1, .done 1 0 1,
    .send 3, .send 4]).1.lim.holders) = (5, [2, 3, 4]) := by decide +kernel

end Aiorpcx.C20
