import Aiorpcx.C20.Timed
/-!
# C20 (iii) — "never an indefinite wait": timing theorems for the modelled response wait

For **every** history of callers, answers, waits, a connection loss, every
`target_response_time` / `recalibrate_count` and every `sent_request_timeout ≥ 0`:
a send operation whose request was written at `w` ends no later than `w + sent_request_timeout`
(`outcome_within`), a `TaskTimeout` happens at exactly that instant, and a caller that was still
queued when its call ended was cancelled by the loss of the connection.
-/
namespace Aiorpcx.C20

/-- nobody in flight is overdue, and every write lies in the past -/
def TInv (τ : Rat) (s : TS) : Prop := ∀ p ∈ s.wrote, p.2.1 ≤ s.now ∧ s.now ≤ p.2.1 + τ

/-- what the property says about one event -/
def EvOK (τ : Rat) : TEv → Prop
  | .written _ _ => True
  | .ended _ (some w) t k => w ≤ t ∧ t ≤ w + τ ∧ (k = .timedOut → t = w + τ)
  | .ended _ none _ k => k = .cancelled

theorem takeIn_ok (τ : Rat) (hτ : 0 ≤ τ) (s : TS) (evs : List C13.Ev) (h : TInv τ s) :
    TInv τ (takeIn s evs).1 ∧ (takeIn s evs).1.now = s.now ∧ ∀ e ∈ (takeIn s evs).2, EvOK τ e := by
  refine ⟨?_, rfl, ?_⟩
  · intro p hp
    simp only [takeIn, List.mem_append, List.mem_map] at hp
    rcases hp with hp | ⟨j, _, rfl⟩
    · exact h p hp
    · show s.now ≤ s.now ∧ s.now ≤ s.now + τ
      exact ⟨Rat.le_refl, by grind⟩
  · intro e he
    simp only [takeIn, List.mem_map] at he
    obtain ⟨j, _, rfl⟩ := he
    trivial

theorem complete_ok (c : OCfg) (τ : Rat) (hτ : 0 ≤ τ) (s : TS) (i : Nat) (w : Rat) (n : Nat)
    (k : EndKind) (h : TInv τ s) (hw : w ≤ s.now ∧ s.now ≤ w + τ) (hk : k = .timedOut → s.now = w + τ) :
    TInv τ (complete c s i w n k).1 ∧ (complete c s i w n k).1.now = s.now ∧
    ∀ e ∈ (complete c s i w n k).2, EvOK τ e := by
  unfold complete
  simp only []
  have h1 : TInv τ { s with out := (ostep c s.out (.done i (s.now - w) n)).1,
                            wrote := s.wrote.filter (fun p => p.1 ≠ i) } := by
    intro p hp
    exact h p (List.mem_filter.1 hp).1
  obtain ⟨a1, a2, a3⟩ := takeIn_ok τ hτ _ (ostep c s.out (.done i (s.now - w) n)).2 h1
  refine ⟨a1, a2, ?_⟩
  intro e he
  rcases List.mem_cons.1 he with rfl | he
  · exact ⟨hw.1, hw.2, hk⟩
  · exact a3 e he

theorem earliest_spec (l : List (Nat × Rat × Nat)) :
    (earliest l = none → l = []) ∧
    (∀ q, earliest l = some q → q ∈ l ∧ ∀ p ∈ l, q.2.1 ≤ p.2.1) := by
  induction l with
  | nil => exact ⟨fun _ => rfl, fun q h => by simp [earliest] at h⟩
  | cons p r ih =>
    refine ⟨?_, ?_⟩
    · intro h
      simp only [earliest] at h
      cases hr : earliest r with
      | none => rw [hr] at h; simp at h
      | some q => rw [hr] at h; by_cases hc : p.2.1 ≤ q.2.1 <;> simp [hc] at h
    · intro q h
      simp only [earliest] at h
      cases hr : earliest r with
      | none =>
        rw [hr] at h
        have hnil := ih.1 hr
        simp only [Option.some.injEq] at h
        subst h; subst hnil
        exact ⟨by simp, fun p' hp' => by simp at hp'; subst hp'; exact Rat.le_refl⟩
      | some q' =>
        rw [hr] at h
        obtain ⟨m1, m2⟩ := ih.2 q' hr
        by_cases hc : p.2.1 ≤ q'.2.1
        · simp only [hc, ↓reduceIte, Option.some.injEq] at h
          subst h
          refine ⟨by simp, ?_⟩
          intro p' hp'
          rcases List.mem_cons.1 hp' with rfl | hp'
          · exact Rat.le_refl
          · exact Rat.le_trans hc (m2 p' hp')
        · simp only [hc, ↓reduceIte, Option.some.injEq] at h
          subst h
          refine ⟨List.mem_cons_of_mem _ m1, ?_⟩
          intro p' hp'
          rcases List.mem_cons.1 hp' with rfl | hp'
          · grind
          · exact m2 p' hp'

theorem passTime_ok (c : OCfg) (τ : Rat) (hτ : 0 ≤ τ) (fuel : Nat) : ∀ (s : TS) (dt : Rat), 0 ≤ dt →
    TInv τ s → TInv τ (passTime c τ fuel s dt).1 ∧ ∀ e ∈ (passTime c τ fuel s dt).2, EvOK τ e := by
  induction fuel with
  | zero => intro s dt _ h; exact ⟨h, by simp [passTime]⟩
  | succ fuel ih =>
    intro s dt hdt h
    simp only [passTime]
    cases he : earliest s.wrote with
    | none =>
      have := (earliest_spec s.wrote).1 he
      refine ⟨?_, by simp⟩
      intro p hp
      rw [show ({ s with now := s.now + dt } : TS).wrote = s.wrote from rfl, this] at hp
      simp at hp
    | some q =>
      obtain ⟨i, w, n⟩ := q
      obtain ⟨m1, m2⟩ := (earliest_spec s.wrote).2 _ he
      have hq := h _ m1
      simp only [] at hq
      by_cases hc : w + τ ≤ s.now + dt
      · simp only [hc, ↓reduceIte]
        -- the timer fires at the deadline w + τ
        have hmax : max s.now (w + τ) = w + τ := by grind
        have h1 : TInv τ { s with now := max s.now (w + τ) } := by
          intro p hp
          have := h p hp
          have := m2 p hp
          simp only [hmax] at *
          exact ⟨by grind, by grind⟩
        obtain ⟨c1, c2, c3⟩ := complete_ok c τ hτ { s with now := max s.now (w + τ) } i w n .timedOut h1
          ⟨by simp only [hmax]; grind, by simp only [hmax]; exact Rat.le_refl⟩
          (fun _ => by simp only [hmax])
        have hrem : 0 ≤ s.now + dt - max s.now (w + τ) := by rw [hmax]; grind
        obtain ⟨r1, r2⟩ := ih _ _ hrem c1
        refine ⟨r1, ?_⟩
        intro e he'
        rcases List.mem_append.1 he' with he' | he'
        · exact c3 e he'
        · exact r2 e he'
      · simp only [hc, ↓reduceIte]
        refine ⟨?_, by simp⟩
        intro p hp
        have := h p hp
        have := m2 p hp
        simp only [] at *
        exact ⟨by grind, by grind⟩

theorem tstep_ok (c : OCfg) (τ : Rat) (hτ : 0 ≤ τ) (s : TS) (op : TOp) (h : TInv τ s) :
    TInv τ (tstep c τ s op).1 ∧ ∀ e ∈ (tstep c τ s op).2, EvOK τ e := by
  cases op with
  | call i n =>
    simp only [tstep]
    split
    · exact ⟨h, by intro e he; simp at he; subst he; rfl⟩
    · have := takeIn_ok τ hτ { s with out := (ostep c s.out (.send i)).1, queued := s.queued ++ [(i, n)] }
        (ostep c s.out (.send i)).2 h
      exact ⟨this.1, this.2.2⟩
  | answer i =>
    simp only [tstep]
    split
    · rename_i x w n hf
      have hm := List.mem_of_find?_eq_some hf
      have hq := h _ hm
      have := complete_ok c τ hτ s i w n .answered h hq (by intro hk; cases hk)
      exact ⟨this.1, this.2.2⟩
    · exact ⟨h, by simp⟩
  | wait dt =>
    simp only [tstep]
    split
    · exact ⟨h, by simp⟩
    · rename_i hdt
      exact passTime_ok c τ hτ _ s dt (by grind) h
  | lose =>
    simp only [tstep]
    refine ⟨by intro p hp; simp at hp, ?_⟩
    intro e he
    rcases List.mem_append.1 he with he | he
    · obtain ⟨p, hp, rfl⟩ := List.mem_map.1 he
      have := h p hp
      exact ⟨this.1, this.2, by intro hk; cases hk⟩
    · obtain ⟨p, _, rfl⟩ := List.mem_map.1 he
      rfl

theorem trun_ok (c : OCfg) (τ : Rat) (hτ : 0 ≤ τ) (ops : List TOp) : ∀ (s : TS), TInv τ s →
    TInv τ (trun c τ s ops).1 ∧ ∀ e ∈ (trun c τ s ops).2, EvOK τ e := by
  induction ops with
  | nil => intro s h; exact ⟨h, by simp [trun]⟩
  | cons op ops ih =>
    intro s h
    obtain ⟨a1, a2⟩ := tstep_ok c τ hτ s op h
    obtain ⟨b1, b2⟩ := ih _ a1
    refine ⟨b1, ?_⟩
    intro e he
    simp only [trun] at he
    rcases List.mem_append.1 he with he | he
    · exact a2 e he
    · exact b2 e he

/-- **Every outcome comes within the response wait limit.**  On a fresh session, for every
history of callers (singles and batches), peer answers, elapsing time and a possible loss of the
connection, every `target_response_time`, `recalibrate_count` and `sent_request_timeout ≥ 0`:
whenever a call ends whose request had been written at `w`, it ends at some `t` with
`w ≤ t ≤ w + sent_request_timeout`; if it ends with `TaskTimeout` then `t` is exactly
`w + sent_request_timeout`; a call that ends while still queued for a slot ends cancelled (the
connection was lost).  And at every moment nobody in flight is overdue. -/
theorem outcome_within (c : OCfg) (τ : Rat) (hτ : 0 ≤ τ) (n : Nat) (ops : List TOp) :
    (∀ e ∈ (trun c τ (tinit n) ops).2, EvOK τ e) ∧
    (∀ p ∈ (trun c τ (tinit n) ops).1.wrote, (trun c τ (tinit n) ops).1.now ≤ p.2.1 + τ) := by
  have h0 : TInv τ (tinit n) := by intro p hp; simp [tinit] at hp
  obtain ⟨a, b⟩ := trun_ok c τ hτ ops _ h0
  exact ⟨b, fun p hp => (a p hp).2⟩

/-! ## non-vacuity -/

-- three callers on a limit of 2, a silent peer, timeout 2: written at 0, 0, 2; TaskTimeout at 2, 2, 4
example : (trun ⟨3, 30⟩ 2 (tinit 2) [.call 0 1, .call 1 1, .call 2 1, .wait 10]).2 =
    [.written 0 0, .written 1 0, .ended 0 (some 0) 2 .timedOut, .written 2 2,
     .ended 1 (some 0) 2 .timedOut, .ended 2 (some 2) 4 .timedOut] := by decide +kernel
-- an answer in time, then the connection is lost with one caller in flight and one queued
example : (trun ⟨3, 30⟩ 30 (tinit 1) [.call 0 1, .call 1 1, .call 2 1, .wait 1, .answer 0, .wait 1, .lose]).2 =
    [.written 0 0, .ended 0 (some 0) 1 .answered, .written 1 1,
     .ended 1 (some 1) 2 .cancelled, .ended 2 none 2 .cancelled] := by decide +kernel

end Aiorpcx.C20
