import Aiorpcx.C13.Model
/-! C20 — model of the outgoing side of `RPCSession` (aiorpcx/session.py):
(i) `_recalc_concurrency` over exact rationals, (ii) the outgoing limiter `Concurrency(50)` (the C13
model) driven by `_send_concurrent`, including the `finally` block that records response times and
recalibrates *inside* the `async with` (i.e. before `__aexit__`).  No Mathlib imports.

`recalc` mirrors the code **after repair F18** (fixes/F18-recalc-round-before-clamp.diff: integer
step bounds, so the final rounding cannot leave them); `recalcPinned` is the pinned function. -/
namespace Aiorpcx.C20

/-- Python `int(x)` on a float: truncation toward zero -/
def pyInt (q : Rat) : Int := if 0 ≤ q then q.floor else q.ceil

/-- `cap = min(current + max(3, current // 10), 250)` (after F18) -/
def capOf (cur : Int) : Int := min (cur + max 3 (cur / 10)) 250
/-- `floor = max(1, current - max(1, current // 5))` (after F18) -/
def floorOf (cur : Int) : Int := max 1 (cur - max 1 (cur / 5))

/-- the value that is rounded: `max(floor, min(cap, current * trt / avg))`, or `cap` when the
average is 0 -/
def preRound (cur : Int) (trt avg : Rat) : Rat :=
  if avg ≠ 0 then max (floorOf cur : Rat) (min (capOf cur : Rat) ((cur : Rat) * trt / avg))
  else (capOf cur : Rat)

/-- `_recalc_concurrency` after F18: `current` → new target, given `target_response_time` and the
average of the recorded response times; `target = int(0.5 + target)` -/
def recalc (cur : Int) (trt avg : Rat) : Int := pyInt (1 / 2 + preRound cur trt avg)

/-- pinned: `cap = min(current + max(3, current * 0.1), 250)` -/
def capPinned (cur : Int) : Rat := min ((cur : Rat) + max 3 ((cur : Rat) * (1 / 10))) 250
/-- pinned: `floor = max(1, min(current * 0.8, current - 1))` -/
def floorPinned (cur : Int) : Rat := max 1 (min ((cur : Rat) * (4 / 5)) ((cur : Rat) - 1))

def preRoundPinned (cur : Int) (trt avg : Rat) : Rat :=
  if avg ≠ 0 then max (floorPinned cur) (min (capPinned cur) ((cur : Rat) * trt / avg))
  else capPinned cur

/-- the pinned `_recalc_concurrency`: the bounds are floats (`current * 0.1`, `current * 0.8`) and
the result is rounded to nearest *after* clamping -/
def recalcPinned (cur : Int) (trt avg : Rat) : Int := pyInt (1 / 2 + preRoundPinned cur trt avg)

/-- a recalibration history: the limit after a list of (target_response_time, average) pairs -/
def recalcAll (cur : Int) : List (Rat × Rat) → Int
  | [] => cur
  | (trt, avg) :: r => recalcAll (recalc cur trt avg) r

/-! ### (ii) the outgoing limiter driven by `_send_concurrent` -/

structure OCfg where
  trt : Rat            -- target_response_time
  recalibrate : Nat    -- recalibrate_count
  deriving Repr

structure Out where
  lim : C13.Lim
  times : List Rat     -- self._req_times
  deriving Repr

def sumQ : List Rat → Rat
  | [] => 0
  | x :: r => x + sumQ r

inductive OOp where
  | send (i : Nat)                                 -- a caller reaches `async with self._outgoing_concurrency`
  | done (i : Nat) (taken : Rat) (count : Nat)     -- the wait of holder i ends (response / error /
                                                   -- timeout / cancellation) `taken` after the send;
                                                   -- `count` = request_count (1, or the batch size)
  | cancelWaiter (i : Nat)                         -- a caller still queued on the limiter is cancelled
  | sendFailed (i : Nat)                           -- `_send_message` of holder i raised (the blocked
                                                   -- write hit `max_send_delay`, or the caller was
                                                   -- cancelled while the write was blocked): the
                                                   -- `try/finally` was never entered, so the limiter
                                                   -- is left WITHOUT a response time being recorded
  deriving Repr

/-- `_req_times` after `append(time_taken)` / `extend([time_taken / n] * n)` -/
def newTimes (o : Out) (taken : Rat) (count : Nat) : List Rat :=
  o.times ++ (if count = 1 then [taken] else List.replicate count (taken / (count : Rat)))

/-- `sum(req_times) / len(req_times)` -/
def avgOf (l : List Rat) : Rat := sumQ l / (l.length : Rat)

/-- the `finally` block of `_send_concurrent` (runs before `__aexit__`) -/
def record (c : OCfg) (o : Out) (taken : Rat) (count : Nat) : Out :=
  if (newTimes o taken count).length ≥ c.recalibrate then
    { lim := if recalc o.lim.T c.trt (avgOf (newTimes o taken count)) ≠ o.lim.T then
               (C13.step o.lim (.setTarget (recalc o.lim.T c.trt (avgOf (newTimes o taken count))))).1
             else o.lim,
      times := [] }
  else { o with times := newTimes o taken count }

def ostep (c : OCfg) (o : Out) : OOp → Out × List C13.Ev
  | .send i => let r := C13.step o.lim (.enter i); ({ o with lim := r.1 }, r.2)
  | .done i taken count =>
      if i ∈ o.lim.holders then
        let o1 := record c o taken count
        let r := C13.step o1.lim (.exit i)
        ({ o1 with lim := r.1 }, r.2)
      else (o, [C13.Ev.bad])
  | .cancelWaiter i => let r := C13.step o.lim (.cancelWaiter i); ({ o with lim := r.1 }, r.2)
  | .sendFailed i =>
      if i ∈ o.lim.holders then
        let r := C13.step o.lim (.exit i)
        ({ o with lim := r.1 }, r.2)
      else (o, [C13.Ev.bad])

def oinit (n : Nat) : Out := ⟨C13.init n, []⟩

/-- requests (not send operations) awaiting a response: a batch of `k` requests holds one permit
but is `k` requests; `cnt i` = request_count of send operation `i` -/
def awaiting (o : Out) (cnt : Nat → Nat) : Nat := (o.lim.holders.map cnt).sum

def orun (c : OCfg) (o : Out) : List OOp → Out × List C13.Ev
  | [] => (o, [])
  | op :: ops =>
      let r := ostep c o op
      let r2 := orun c r.1 ops
      (r2.1, r.2 ++ r2.2)

end Aiorpcx.C20
