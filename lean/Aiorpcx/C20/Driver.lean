import Aiorpcx.Common.Hex
import Aiorpcx.Common.RatIO
import Aiorpcx.C20.Model
import Aiorpcx.C20.Timed
/-! Line-protocol driver for the C20 model.
    `R <current> <trt> <avg>`  → `<new>;<pre-round value>;<pinned new>;<pinned pre-round value>`
    `M <initial> <trt> <recalibrate_count> | op ...` small-step monitor (see below)
    `W <initial> <trt> <recalibrate_count> | op op ...` with ops `s<i>` (send), `d<i>:<taken>:<count>`
       (done), `f<i>` (the write failed: exit without a sample), `c<i>` (cancel a queued caller) → one record per op joined by ` | `:
       `<events>;h=<holders>;w=<queued>;T=<limit>;n=<len(_req_times)>` (events as in drv_c13) -/
open Aiorpcx Aiorpcx.C20 Aiorpcx.RatIO

def showEv : C13.Ev → String
  | .entered i => s!"E{i}"
  | .refused i => s!"R{i}"
  | .cancelled i => s!"C{i}"
  | .bad => "B"

def showList (l : List Nat) : String :=
  if l.isEmpty then "-" else String.intercalate "." (l.map toString)

def sortNat (l : List Nat) : List Nat := (l.toArray.qsort (· < ·)).toList

/-! Small-step monitor for the workload runs: the harness logs what each *task* did, in the order
it happened inside the event loop, so several completions may occur before a woken caller runs.
The state keeps the semaphore's woken-but-not-yet-run tasks between actions; the pieces are the
functions of the C13 model (`finish`/`drain` of the big-step is exactly: `resume` each woken task
in order).
  `s<i>`  caller i reaches `async with` (acquire; admitted at once unless the semaphore is locked —
          `locked()` also counts woken tasks that have not run yet)
  `d<i>:<taken>:<count>`  holder i leaves: `finally` block (record, maybe recalibrate), `__aexit__`
  `f<i>`  holder i leaves because its write failed: `__aexit__` only, nothing recorded
  `r<i>`  the woken caller i runs (must be the first woken task)
  `X<i>`  `cancel()` is called on caller i's task (takes effect on the semaphore at once if the
          caller is still blocked in `acquire()`)
  `c<i>`  a queued caller's task runs and sees the cancellation (also: a woken caller cancelled before it ran — the permit
          goes back and the next waiter is woken) -/
structure SS where
  st : C13.Lim
  woken : List Nat
  times : List Rat
  zombies : List Nat := []   -- queued callers whose future was cancelled; their task has not run yet

inductive SOp where
  | send (i : Nat)
  | done (i : Nat) (taken : Rat) (count : Nat)
  | resume (i : Nat)
  | cancel (i : Nat)
  | cancelCalled (i : Nat)
  | fail (i : Nat)

def parseSOp (s : String) : Option SOp :=
  match s.toList with
  | 's' :: r => (String.ofList r).toNat?.map SOp.send
  | 'c' :: r => (String.ofList r).toNat?.map SOp.cancel
  | 'r' :: r => (String.ofList r).toNat?.map SOp.resume
  | 'X' :: r => (String.ofList r).toNat?.map SOp.cancelCalled
  | 'f' :: r => (String.ofList r).toNat?.map SOp.fail
  | 'd' :: r =>
      match (String.ofList r).splitOn ":" with
      | [i, t, n] =>
          match i.toNat?, parseRat t, n.toNat? with
          | some i, some t, some n => some (SOp.done i t n)
          | _, _, _ => none
      | _ => none
  | _ => none

/-- returns the new state, the events, and the pre-round value if a recalibration happened -/
def sstep (c : OCfg) (s : SS) : SOp → SS × List C13.Ev × Option Rat
  | .send i =>
      if s.st.S = 0 ∨ s.st.waiters ≠ [] ∨ s.woken ≠ [] then
        ({ s with st := { s.st with waiters := s.st.waiters ++ [i] } }, [], none)
      else
        let w := C13.admitTask i ⟨{ s.st with S := s.st.S - 1 }, [], []⟩
        ({ s with st := w.st, woken := w.woken }, w.evs, none)
  | .done i taken count =>
      if i ∈ s.st.holders then
        let times := newTimes ⟨s.st, s.times⟩ taken count
        let pre := if times.length ≥ c.recalibrate then some (preRound s.st.T c.trt (avgOf times)) else none
        let o1 := record c ⟨s.st, s.times⟩ taken count
        let s1 : C13.Lim := { o1.lim with holders := o1.lim.holders.erase i }
        if s1.V > C13.retireBound s1 then ({ s with st := { s1 with V := s1.V - 1 }, times := o1.times }, [], pre)
        else
          let w := C13.release ⟨s1, s.woken, []⟩
          ({ s with st := w.st, woken := w.woken, times := o1.times }, [], pre)
      else (s, [C13.Ev.bad], none)
  | .fail i =>
      -- `_send_message` raised: `__aexit__` without the `finally` block (nothing recorded)
      if i ∈ s.st.holders then
        let s1 : C13.Lim := { s.st with holders := s.st.holders.erase i }
        if s1.V > C13.retireBound s1 then ({ s with st := { s1 with V := s1.V - 1 } }, [], none)
        else
          let w := C13.release ⟨s1, s.woken, []⟩
          ({ s with st := w.st, woken := w.woken }, [], none)
      else (s, [C13.Ev.bad], none)
  | .resume i =>
      match s.woken with
      | j :: rest =>
          if i = j then
            let w := C13.resume i ⟨s.st, rest, []⟩
            ({ s with st := w.st, woken := w.woken }, w.evs, none)
          else (s, [C13.Ev.bad], none)
      | [] => (s, [C13.Ev.bad], none)
  | .cancelCalled i =>
      -- `task.cancel()` on a caller blocked in `acquire()` cancels its future at once: from now
      -- on `_wake_up_next` and `locked()` ignore it; the task notices when it runs (`c<i>`)
      if i ∈ s.st.waiters then
        ({ s with st := { s.st with waiters := s.st.waiters.erase i }, zombies := s.zombies ++ [i] }, [], none)
      else (s, [], none)
  | .cancel i =>
      if i ∈ s.zombies then
        ({ s with zombies := s.zombies.erase i }, [C13.Ev.cancelled i], none)
      else if i ∈ s.st.waiters then
        ({ s with st := { s.st with waiters := s.st.waiters.erase i } }, [C13.Ev.cancelled i], none)
      else
        -- the cancelled caller had already been woken (its future has a result) and runs now:
        -- `except CancelledError: if not fut.cancelled(): self._value += 1; self._wake_up_next()`
        match s.woken with
        | j :: rest =>
            if i = j then
              let w := C13.release ⟨s.st, rest, []⟩
              ({ s with st := w.st, woken := w.woken }, [C13.Ev.cancelled i], none)
            else (s, [C13.Ev.bad], none)
        | [] => (s, [C13.Ev.bad], none)

def srecord (s : SS) (evs : List C13.Ev) (pre : Option Rat) : String :=
  let e := if evs.isEmpty then "-" else String.intercalate "," (evs.map showEv)
  let p := match pre with | some q => showRat q | none => "-"
  s!"{e};h={showList (sortNat s.st.holders)};w={showList s.st.waiters};k={showList s.woken};T={s.st.T};n={s.times.length};p={p}"

def sgo (c : OCfg) (s : SS) : List SOp → List String
  | [] => []
  | op :: ops => let r := sstep c s op; srecord r.1 r.2.1 r.2.2 :: sgo c r.1 ops

def parseOOp (s : String) : Option OOp :=
  match s.toList with
  | 's' :: r => (String.ofList r).toNat?.map OOp.send
  | 'c' :: r => (String.ofList r).toNat?.map OOp.cancelWaiter
  | 'f' :: r => (String.ofList r).toNat?.map OOp.sendFailed
  | 'd' :: r =>
      match (String.ofList r).splitOn ":" with
      | [i, t, n] =>
          match i.toNat?, parseRat t, n.toNat? with
          | some i, some t, some n => some (OOp.done i t n)
          | _, _, _ => none
      | _ => none
  | _ => none

def orecord (o : Out) (evs : List C13.Ev) : String :=
  let e := if evs.isEmpty then "-" else String.intercalate "," (evs.map showEv)
  s!"{e};h={showList (sortNat o.lim.holders)};w={showList o.lim.waiters};T={o.lim.T};n={o.times.length}"

def go (c : OCfg) (o : Out) : List OOp → List String
  | [] => []
  | op :: ops => let r := ostep c o op; orecord r.1 r.2 :: go c r.1 ops

/-! Timed mode: `T <initial> <trt> <recalibrate_count> <sent_request_timeout> | op ...` with ops
`c<i>:<count>` (a caller reaches the limiter), `a<i>` (the peer's answer to i is delivered),
`w<dt>` (time passes), `l` (connection lost) → the events, joined by ` `: `W<i>@<t>` written,
`E<i>@<t>:<A|T|C>` the call ended (answered / TaskTimeout / cancelled). -/
def parseTOp (s : String) : Option TOp :=
  match s.toList with
  | ['l'] => some .lose
  | 'a' :: r => (String.ofList r).toNat?.map TOp.answer
  | 'w' :: r => (parseRat (String.ofList r)).map TOp.wait
  | 'c' :: r =>
      match (String.ofList r).splitOn ":" with
      | [i, n] =>
          match i.toNat?, n.toNat? with
          | some i, some n => some (TOp.call i n)
          | _, _ => none
      | _ => none
  | _ => none

def showKind : EndKind → String
  | .answered => "A"
  | .timedOut => "T"
  | .cancelled => "C"

def showTEv : TEv → String
  | .written i t => s!"W{i}@{showRat t}"
  | .ended i _ t k => s!"E{i}@{showRat t}:{showKind k}"

def handle (line : String) : String :=
  match (line.splitOn " ").filter (· ≠ "") with
  | ["R", cur, trt, avg] =>
      match cur.toInt?, parseRat trt, parseRat avg with
      | some cur, some trt, some avg =>
          s!"{recalc cur trt avg};{showRat (preRound cur trt avg)};{recalcPinned cur trt avg};{showRat (preRoundPinned cur trt avg)}"
      | _, _, _ => "bad-op"
  | "W" :: n :: trt :: rc :: "|" :: ops =>
      match n.toNat?, parseRat trt, rc.toNat?, ops.mapM parseOOp with
      | some n, some trt, some rc, some ops =>
          if ops.isEmpty then "." else String.intercalate " | " (go ⟨trt, rc⟩ (oinit n) ops)
      | _, _, _, _ => "bad-op"
  | "T" :: n :: trt :: rc :: tmo :: "|" :: ops =>
      match n.toNat?, parseRat trt, rc.toNat?, parseRat tmo, ops.mapM parseTOp with
      | some n, some trt, some rc, some tmo, some ops =>
          let r := trun ⟨trt, rc⟩ tmo (tinit n) ops
          if r.2.isEmpty then "." else String.intercalate " " (r.2.map showTEv)
      | _, _, _, _, _ => "bad-op"
  | "M" :: n :: trt :: rc :: "|" :: ops =>
      match n.toNat?, parseRat trt, rc.toNat?, ops.mapM parseSOp with
      | some n, some trt, some rc, some ops =>
          if ops.isEmpty then "." else
            String.intercalate " | " (sgo ⟨trt, rc⟩ ⟨C13.init n, [], [], []⟩ ops)
      | _, _, _, _ => "bad-op"
  | _ => "bad-op"

def main : IO Unit := Hex.lineLoop handle
