import Aiorpcx.C08.Basic
/-! Invariants of the C08 lifecycle model (code with repair F25), in four groups over explicit
parameters (flags + handlers, outgoing requests, tasks inside `close()`, the ghost record of the
loss), and their preservation by the building blocks of the step function. -/
namespace Aiorpcx.C08

/-- flags and handlers -/
structure HI (now : Nat) (down closing lost ce : Bool) (hook pt : Nat) (hs : List Handler) : Prop where
  ptPos : 0 < pt
  hook : hook = if down then 1 else 0
  lostDown : lost = true → down = true
  lostClosing : lost = true → closing = true
  closedThen : ce = true → lost = true ∧ ∀ h ∈ hs, h.status = .done
  ok : ∀ h ∈ hs, HOk now down closing h

/-- `_closed_event` is set as soon as message processing is torn down and every handler is done -/
def Settled (down ce : Bool) (hs : List Handler) : Prop :=
  down = true → (∀ h ∈ hs, h.status = .done) → ce = true

/-- outgoing requests -/
structure TI (now : Nat) (down : Bool) (rt : Nat) (ts : List Ticket) : Prop where
  pos : 0 < rt
  ok : ∀ t ∈ ts, TOk now down t

/-- tasks inside `close()` -/
structure CI (now : Nat) (closing ce : Bool) (ca la : Option Nat) (cs : List Closer) : Prop where
  ok : ∀ c ∈ cs, COk now ce ca la c
  closersClosing : cs ≠ [] → closing = true
  caNone : ca = none → ce = false
  caSome : ∀ T, ca = some T → ce = true ∧ T ≤ now ∧ ∃ t, la = some t ∧ t ≤ T

/-- the ghost record of the loss -/
structure LI (now : Nat) (lost stalled : Bool) (la : Option Nat) (lb : Option Cause)
    (aa : Option Nat) : Prop where
  laNone : la = none → lost = false
  laSome : ∀ t, la = some t → lost = true ∧ t ≤ now
  lbNone : lb = none → lost = false
  lbSome : ∀ w, lb = some w → lost = true
  aborted : ∀ a, aa = some a → la = some a ∧ lb = some .abort
  byAbort : lb = some .abort → aa = la
  byGraceful : lb = some .graceful → stalled = false

/-- everything but `Settled` (holds also just before `settle` runs) -/
structure Inv0 (s : S) : Prop where
  fixed : s.fixed = true
  h : HI s.now s.down s.closing s.lost s.closedEvent s.hookRuns s.procTimeout s.handlers
  t : TI s.now s.down s.reqTimeout s.tickets
  c : CI s.now s.closing s.closedEvent s.closedAt s.lostAt s.closers
  l : LI s.now s.lost s.stalled s.lostAt s.lostBy s.abortedAt

structure Inv (s : S) : Prop extends Inv0 s where
  settled : Settled s.down s.closedEvent s.handlers

/-! ## small consequences -/

theorem HI.closing_mono {now : Nat} {down closing closing' lost ce : Bool} {hook pt : Nat}
    {hs : List Handler}
    (h : HI now down closing lost ce hook pt hs) (hc : closing = true → closing' = true) :
    HI now down closing' lost ce hook pt hs :=
  ⟨h.ptPos, h.hook, h.lostDown, fun x => hc (h.lostClosing x), h.closedThen,
   forall_imp h.ok fun _ hk => hk.closing_mono hc⟩

theorem HI.ce_false {now : Nat} {down closing lost ce : Bool} {hook pt : Nat} {hs : List Handler}
    (h : HI now down closing lost ce hook pt hs) (hl : lost = false) : ce = false := by
  cases hce : ce
  · rfl
  · have := (h.closedThen hce).1; simp [hl] at this

theorem HI.not_lost_of_not_closing {now : Nat} {down closing lost ce : Bool} {hook pt : Nat}
    {hs : List Handler}
    (h : HI now down closing lost ce hook pt hs) (hc : closing = false) : lost = false := by
  cases hl : lost
  · rfl
  · have := h.lostClosing hl; simp [hc] at this

theorem HI.not_lost_of_not_down {now : Nat} {down closing lost ce : Bool} {hook pt : Nat}
    {hs : List Handler}
    (h : HI now down closing lost ce hook pt hs) (hc : down = false) : lost = false := by
  cases hl : lost
  · rfl
  · have := h.lostDown hl; simp [hc] at this

theorem COk.la_mono {n : Nat} {ce : Bool} {ca la la' : Option Nat} {c : Closer}
    (hk : COk n ce ca la c) (hm : ∀ t, la = some t → la' = some t) : COk n ce ca la' c := by
  unfold COk at *
  refine ⟨hk.1, ?_⟩
  cases hs : c.st with
  | waiting => simpa [hs] using hk.2
  | abortedWaiting =>
    simp only [hs] at hk ⊢
    obtain ⟨_, h1, h2, t, ht, h3⟩ := hk
    exact ⟨h1, h2, t, hm t ht, h3⟩
  | returned a =>
    simp only [hs] at hk ⊢
    obtain ⟨_, T, hT, h2, t, ht, h3⟩ := hk
    exact ⟨T, hT, h2, t, hm t ht, h3⟩
  | cancelled a => simpa [hs] using hk.2

theorem LI.aa_none {now : Nat} {lost stalled : Bool} {la : Option Nat} {lb : Option Cause}
    {aa : Option Nat} (l : LI now lost stalled la lb aa) (hl : lost = false) : aa = none := by
  cases ha : aa with
  | none => rfl
  | some a =>
    have := (l.laSome a (l.aborted a ha).1).1
    simp [hl] at this

theorem LI.la_none {now : Nat} {lost stalled : Bool} {la : Option Nat} {lb : Option Cause}
    {aa : Option Nat} (l : LI now lost stalled la lb aa) (hl : lost = false) : la = none := by
  cases ha : la with
  | none => rfl
  | some a => have := (l.laSome a ha).1; simp [hl] at this

theorem LI.la_some {now : Nat} {lost stalled : Bool} {la : Option Nat} {lb : Option Cause}
    {aa : Option Nat} (l : LI now lost stalled la lb aa) (hl : lost = true) :
    ∃ t, la = some t ∧ t ≤ now := by
  cases ha : la with
  | none => have := l.laNone ha; simp [hl] at this
  | some a => exact ⟨a, rfl, (l.laSome a ha).2⟩

/-- the record of a loss that happens now -/
theorem LI.lose {now : Nat} {stalled : Bool} {la : Option Nat} {lb : Option Cause}
    {aa aa' : Option Nat} {why : Cause} (_l : LI now false stalled la lb aa)
    (hw : why = .graceful → stalled = false)
    (ha : (why = .abort ∧ aa' = some now) ∨ (why ≠ .abort ∧ aa' = none)) :
    LI now true stalled (some now) (some why) aa' := by
  refine ⟨by simp, ?_, by simp, by simp, ?_, ?_, ?_⟩
  · intro t ht; simp at ht; subst ht; exact ⟨rfl, Nat.le_refl _⟩
  · intro a h
    rcases ha with ⟨h1, h2⟩ | ⟨_, h2⟩
    · rw [h2] at h; cases h; exact ⟨rfl, by rw [h1]⟩
    · rw [h2] at h; cases h
  · intro h
    rcases ha with ⟨_, h2⟩ | ⟨h1, _⟩
    · exact h2
    · simp at h; exact absurd h h1
  · intro h; simp at h; exact hw h

/-! ## `settle` -/

theorem settle_inv {s : S} (i : Inv0 s) : Inv s.settle := by
  unfold S.settle
  split
  · rename_i hc
    simp only [Bool.and_eq_true, Bool.not_eq_true', all_isDone] at hc
    obtain ⟨⟨hdn, hce⟩, hall⟩ := hc
    have hca : s.closedAt = none := by
      cases h : s.closedAt with
      | none => rfl
      | some T => have := (i.c.caSome T h).1; simp [hce] at this
    split
    · rename_i hl
      simp only [i.fixed, Bool.true_and, Bool.not_eq_true'] at hl
      have hla := i.l.la_none hl
      refine { fixed := i.fixed, h := ?_, t := i.t, c := ?_, l := ?_, settled := fun _ _ => rfl }
      · exact ⟨i.h.ptPos, i.h.hook, fun _ => hdn, fun _ => rfl, fun _ => ⟨rfl, hall⟩,
               forall_imp i.h.ok fun _ hk => hk.closing_mono (fun _ => rfl)⟩
      · refine ⟨?_, fun _ => rfl, by simp, ?_⟩
        · show ∀ c ∈ s.closers.map (returnCloser s.now), COk s.now true (some s.now) (some s.now) c
          refine forall_map i.c.ok ?_
          intro c hk
          rw [hce, hca] at hk
          exact returnCloser_ok (hk.la_mono (by rw [hla]; intro t h; cases h)) ⟨_, rfl, Nat.le_refl _⟩
        · show ∀ T, some s.now = some T → true = true ∧ T ≤ s.now ∧ ∃ t, some s.now = some t ∧ t ≤ T
          intro T hT; simp at hT; subst hT
          exact ⟨rfl, Nat.le_refl _, _, rfl, Nat.le_refl _⟩
      · have l0 := i.l
        rw [hl] at l0
        exact l0.lose (by simp) (Or.inl ⟨rfl, rfl⟩)
    · rename_i hl
      have hl : s.lost = true := by simpa [i.fixed] using hl
      obtain ⟨t, ht, htn⟩ := i.l.la_some hl
      refine { fixed := i.fixed, h := ?_, t := i.t, c := ?_, l := i.l, settled := fun _ _ => rfl }
      · exact ⟨i.h.ptPos, i.h.hook, i.h.lostDown, i.h.lostClosing, fun _ => ⟨hl, hall⟩, i.h.ok⟩
      · refine ⟨?_, ?_, by simp, ?_⟩
        · show ∀ c ∈ s.closers.map (returnCloser s.now), COk s.now true (some s.now) s.lostAt c
          refine forall_map i.c.ok ?_
          intro c hk
          rw [hce, hca] at hk
          exact returnCloser_ok hk ⟨t, ht, htn⟩
        · show s.closers.map (returnCloser s.now) ≠ [] → s.closing = true
          intro hne; exact i.c.closersClosing (by simpa using hne)
        · show ∀ T, some s.now = some T → true = true ∧ T ≤ s.now ∧ ∃ t, s.lostAt = some t ∧ t ≤ T
          intro T hT; simp at hT; subst hT
          exact ⟨rfl, Nat.le_refl _, t, ht, htn⟩
  · rename_i hc
    refine { toInv0 := i, settled := ?_ }
    intro hdn hall
    simp only [Bool.and_eq_true, Bool.not_eq_true', all_isDone, not_and] at hc
    cases hce : s.closedEvent
    · exact absurd hall (hc ⟨hdn, hce⟩)
    · rfl

theorem Inv.resettle {s : S} (i : Inv s) : s.settle = s := by
  unfold S.settle
  split
  · rename_i hc
    simp only [Bool.and_eq_true, Bool.not_eq_true', all_isDone] at hc
    have := i.settled hc.1.1 hc.2
    simp [hc.1.2] at this
  · rfl

/-! ## `lose` -/

/-- the connection is lost now; the caller supplies the groups of the state just before
(`closing` already set, the tasks inside `close()` judged against the new instant of loss) -/
theorem lose_inv_of_not_lost {s : S} {why : Cause} (hl : s.lost = false) (hf : s.fixed = true)
    (h : HI s.now s.down s.closing false s.closedEvent s.hookRuns s.procTimeout s.handlers)
    (hc : s.closing = true)
    (t : TI s.now s.down s.reqTimeout s.tickets)
    (c : CI s.now s.closing s.closedEvent s.closedAt (some s.now) s.closers)
    (l : LI s.now true s.stalled (some s.now) (some why) s.abortedAt) : Inv (s.lose why) := by
  have hce := h.ce_false rfl
  have hct : s.closedEvent = true → True ∧ ∀ x ∈ s.handlers, x.status = .done := by
    rw [hce]; intro x; cases x
  unfold S.lose
  split
  · rename_i h1; rw [hl] at h1; cases h1
  apply settle_inv
  split
  · rename_i hd
    exact { fixed := hf
            h := ⟨h.ptPos, h.hook, fun _ => hd, fun _ => hc,
                  fun x => ⟨rfl, (hct x).2⟩, h.ok⟩
            t := t, c := c, l := l }
  · rename_i hd
    have hd : s.down = false := by simpa using hd
    refine { fixed := hf, h := ?_, t := ?_, c := c, l := l }
    · refine ⟨h.ptPos, ?_, fun _ => rfl, fun _ => hc, ?_, ?_⟩
      · have := h.hook; simp [hd] at this; simp [S.teardown, this]
      · show s.closedEvent = true → _
        rw [hce]; intro x; cases x
      · show ∀ x ∈ s.handlers.map (cancelHandler s.now), HOk s.now true s.closing x
        refine forall_map h.ok ?_
        intro x hk
        rw [hd] at hk
        exact cancelHandler_ok hk
    · refine ⟨t.pos, ?_⟩
      show ∀ x ∈ s.tickets.map cancelTicket, TOk s.now true x
      refine forall_map t.ok ?_
      intro x hk
      rw [hd] at hk
      exact cancelTicket_ok hk

theorem lose_of_lost {s : S} {why : Cause} (hl : s.lost = true) : s.lose why = s := by
  unfold S.lose; simp [hl]

/-- `lose` after the caller has set `closing` -/
theorem lose_inv {s : S} (i : Inv s) (why : Cause) (hw : why = .graceful → s.stalled = false)
    (hna : why ≠ .abort) : Inv (S.lose { s with closing := true } why) := by
  rcases Bool.eq_false_or_eq_true s.lost with hl | hl
  · rw [lose_of_lost (s := { s with closing := true }) hl]
    exact { fixed := i.fixed, h := i.h.closing_mono (fun _ => rfl), t := i.t,
            c := ⟨i.c.ok, fun _ => rfl, i.c.caNone, i.c.caSome⟩, l := i.l, settled := i.settled }
  · have hla := i.l.la_none hl
    have l0 := i.l
    rw [hl] at l0
    have h0 := i.h
    rw [hl] at h0
    exact lose_inv_of_not_lost (s := { s with closing := true }) hl i.fixed
      (h0.closing_mono (fun _ => rfl)) rfl i.t
      ⟨forall_imp i.c.ok fun _ hk => hk.la_mono (by rw [hla]; intro t h; cases h),
       fun _ => rfl, i.c.caNone,
       fun T hT => by have := (i.c.caSome T hT).1; simp [i.h.ce_false hl] at this⟩
      (l0.lose hw (Or.inr ⟨hna, i.l.aa_none hl⟩))

/-! ## `doAbort`, `transportClose` -/

theorem doAbort_of_lost {s : S} (hl : s.lost = true) : s.doAbort = s := by
  unfold S.doAbort; simp [hl]

/-- an abort now, from a state whose groups the caller supplies (tasks inside `close()` judged
against the new instant of loss) -/
theorem doAbort_inv_of_not_lost {s : S} (hl : s.lost = false) (hf : s.fixed = true)
    (h : HI s.now s.down s.closing false s.closedEvent s.hookRuns s.procTimeout s.handlers)
    (t : TI s.now s.down s.reqTimeout s.tickets)
    (c : CI s.now true s.closedEvent s.closedAt (some s.now) s.closers)
    (l : LI s.now false s.stalled s.lostAt s.lostBy s.abortedAt) : Inv s.doAbort := by
  unfold S.doAbort
  split
  · rename_i h1; rw [hl] at h1; cases h1
  exact lose_inv_of_not_lost (s := { s with abortedAt := some s.now, closing := true }) hl hf
    (h.closing_mono (fun _ => rfl)) rfl t c (l.lose (by simp) (Or.inl ⟨rfl, rfl⟩))

theorem doAbort_inv {s : S} (i : Inv s) : Inv s.doAbort := by
  rcases Bool.eq_false_or_eq_true s.lost with hl | hl
  · rw [doAbort_of_lost hl]; exact i
  · have hla := i.l.la_none hl
    have l0 := i.l
    rw [hl] at l0
    have h0 := i.h
    rw [hl] at h0
    exact doAbort_inv_of_not_lost hl i.fixed h0 i.t
      ⟨forall_imp i.c.ok fun _ hk => hk.la_mono (by rw [hla]; intro t h; cases h),
       fun _ => rfl, i.c.caNone,
       fun T hT => by have := (i.c.caSome T hT).1; simp [i.h.ce_false hl] at this⟩ l0

theorem transportClose_cases (s : S) :
    (s.closing = true ∧ s.transportClose = s) ∨
    (s.closing = false ∧ s.stalled = true ∧ s.transportClose = { s with closing := true }) ∨
    (s.closing = false ∧ s.stalled = false ∧
      s.transportClose = S.lose { s with closing := true } .graceful) := by
  unfold S.transportClose
  by_cases hc : s.closing = true
  · left; simp [hc]
  · right
    by_cases hst : s.stalled = true
    · left; simp [hc, hst]
    · right; simp [hc, hst]

theorem Inv.setClosing {s : S} (i : Inv s) : Inv { s with closing := true } :=
  { fixed := i.fixed, h := i.h.closing_mono (fun _ => rfl), t := i.t,
    c := ⟨i.c.ok, fun _ => rfl, i.c.caNone, i.c.caSome⟩, l := i.l, settled := i.settled }

theorem transportClose_inv {s : S} (i : Inv s) : Inv s.transportClose := by
  rcases transportClose_cases s with ⟨_, e⟩ | ⟨_, _, e⟩ | ⟨_, hst, e⟩ <;> rw [e]
  · exact i
  · exact i.setClosing
  · exact lose_inv i .graceful (fun _ => hst) (by simp)

/-! ## the limiter -/

theorem promote_inv0 {s : S} (i : Inv0 s) : Inv0 s.promote :=
  { fixed := i.fixed, h := i.h, t := ⟨i.t.pos, promoteList_ok i.t.pos i.t.ok⟩, c := i.c, l := i.l }

theorem promote_inv {s : S} (i : Inv s) : Inv s.promote :=
  { toInv0 := promote_inv0 i.toInv0, settled := i.settled }

end Aiorpcx.C08
