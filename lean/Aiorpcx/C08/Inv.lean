import Aiorpcx.C08.Model
/-! Invariants of the C08 lifecycle model, in three independent groups (flags + handlers,
tickets, closers), each in a strong form (holds at quiescence) and a weak form (holds in the
middle of a clock tick, when `now` has already moved but the timers due have not fired yet). -/
namespace Aiorpcx.C08

/-! ## element-level facts -/

theorem isDone_iff (h : Handler) : h.isDone = true ↔ h.status = .done := by
  simp [Handler.isDone]

theorem cancelHandler_id (n : Nat) (h : Handler) : (cancelHandler n h).id = h.id := by
  unfold cancelHandler; split
  · split <;> rfl
  · rfl

theorem cancelHandler_kind (n : Nat) (h : Handler) : (cancelHandler n h).kind = h.kind := by
  unfold cancelHandler; split
  · split <;> rfl
  · rfl

theorem cancelHandler_not_run (n : Nat) (h : Handler) : (cancelHandler n h).status ≠ .run := by
  unfold cancelHandler
  split
  · split <;> simp
  · assumption

theorem cancelHandler_reacting (n : Nat) (h : Handler) (u : Nat)
    (hu : (cancelHandler n h).status = .reacting u) :
    h.status = .reacting u ∨ (h.status = .run ∧ n < u) := by
  unfold cancelHandler at hu
  split at hu
  · split at hu
    · simp at hu; right; exact ⟨by assumption, by omega⟩
    · simp at hu
  · left; exact hu

theorem cancelHandler_done (n : Nat) (h : Handler) (hd : h.status = .done) :
    (cancelHandler n h).status = .done := by
  unfold cancelHandler; simp [hd]

theorem finishReaction_kind (n : Nat) (h : Handler) : (finishReaction n h).kind = h.kind := by
  unfold finishReaction; split
  · split <;> rfl
  · rfl

theorem finishReaction_run (n : Nat) (h : Handler) :
    (finishReaction n h).status = .run ↔ h.status = .run := by
  unfold finishReaction
  split
  · split <;> simp_all
  · rfl

theorem finishReaction_reacting (n : Nat) (h : Handler) (u : Nat)
    (hu : (finishReaction n h).status = .reacting u) : h.status = .reacting u ∧ u ≠ n := by
  unfold finishReaction at hu
  split at hu
  · split at hu
    · simp at hu
    · rename_i u' hs hne
      rw [hs] at hu; injection hu with hu; subst hu
      exact ⟨hs, by simpa using hne⟩
  · rename_i hs; exact absurd hu (hs u)

theorem finishReaction_done (n : Nat) (h : Handler) (hd : h.status = .done) :
    (finishReaction n h).status = .done := by
  unfold finishReaction; simp [hd]

theorem finishHandler_kind (i : Nat) (h : Handler) : (finishHandler i h).kind = h.kind := by
  unfold finishHandler; split <;> rfl

theorem finishHandler_status (i : Nat) (h : Handler) :
    (finishHandler i h).status = h.status ∨
      ((finishHandler i h).status = .done ∧ h.status = .run ∧ h.kind.finishable = true) := by
  unfold finishHandler
  split
  · right; simp_all
  · left; rfl

/-! ## group 1: flags and handlers -/

/-- weak form: timers may be due *now* -/
structure HW (s : S) : Prop where
  hook : s.hookRuns = if s.lost then 1 else 0
  lostClosing : s.lost = true → s.closing = true
  loop : s.loopAlive = !s.lost
  closedThen : s.closedEvent = true → s.lost = true ∧ ∀ h ∈ s.handlers, h.status = .done
  noRun : s.lost = true → ∀ h ∈ s.handlers, h.status ≠ .run
  react : ∀ h ∈ s.handlers, ∀ u, h.status = .reacting u → s.now ≤ u ∧ s.lost = true
  closerH : ∀ h ∈ s.handlers, ∀ d, h.kind = .closer d → h.status = .run →
    s.now ≤ d ∧ s.closing = true

/-- strong form (at quiescence): no timer is due, and `_closed_event` is set as soon as the
connection is lost and every handler is done -/
structure HInv (s : S) : Prop extends HW s where
  reactLt : ∀ h ∈ s.handlers, ∀ u, h.status = .reacting u → s.now < u
  closerLt : ∀ h ∈ s.handlers, ∀ d, h.kind = .closer d → h.status = .run → s.now < d
  closedIf : s.lost = true → (∀ h ∈ s.handlers, h.status = .done) → s.closedEvent = true

theorem all_isDone (hs : List Handler) : hs.all Handler.isDone = true ↔ ∀ h ∈ hs, h.status = .done := by
  simp [List.all_eq_true, isDone_iff]

/-- `settle` keeps the weak invariant and establishes `closedIf` -/
theorem settle_hw {s : S} (h : HW s) : HW s.settle ∧
    (s.settle.lost = true → (∀ x ∈ s.settle.handlers, x.status = .done) → s.settle.closedEvent = true) := by
  unfold S.settle
  split
  · rename_i hc
    simp only [Bool.and_eq_true, Bool.not_eq_true', all_isDone] at hc
    refine ⟨⟨h.hook, h.lostClosing, h.loop, fun _ => ⟨hc.1.1, hc.2⟩, h.noRun, h.react, h.closerH⟩, ?_⟩
    intro _ _; rfl
  · rename_i hc
    refine ⟨h, ?_⟩
    intro hl hd
    simp only [Bool.and_eq_true, Bool.not_eq_true', all_isDone, not_and] at hc
    cases hce : s.closedEvent
    · exact absurd hd (hc ⟨hl, hce⟩)
    · rfl

@[simp] theorem settle_now (s : S) : s.settle.now = s.now := by unfold S.settle; split <;> rfl
@[simp] theorem settle_handlers (s : S) : s.settle.handlers = s.handlers := by
  unfold S.settle; split <;> rfl
@[simp] theorem settle_lost (s : S) : s.settle.lost = s.lost := by unfold S.settle; split <;> rfl
@[simp] theorem settle_closing (s : S) : s.settle.closing = s.closing := by
  unfold S.settle; split <;> rfl
@[simp] theorem settle_tickets (s : S) : s.settle.tickets = s.tickets := by
  unfold S.settle; split <;> rfl
@[simp] theorem settle_aborts (s : S) : s.settle.aborts = s.aborts := by
  unfold S.settle; split <;> rfl
@[simp] theorem settle_hookRuns (s : S) : s.settle.hookRuns = s.hookRuns := by
  unfold S.settle; split <;> rfl
@[simp] theorem settle_reqTimeout (s : S) : s.settle.reqTimeout = s.reqTimeout := by
  unfold S.settle; split <;> rfl
@[simp] theorem settle_stalled (s : S) : s.settle.stalled = s.stalled := by
  unfold S.settle; split <;> rfl
@[simp] theorem settle_loopAlive (s : S) : s.settle.loopAlive = s.loopAlive := by
  unfold S.settle; split <;> rfl

/-- from the weak invariant + "no timer due now", `settle` gives the strong one -/
theorem settle_hinv {s : S} (h : HW s)
    (hr : ∀ x ∈ s.handlers, ∀ u, x.status = .reacting u → s.now < u)
    (hc : ∀ x ∈ s.handlers, ∀ d, x.kind = .closer d → x.status = .run → s.now < d) :
    HInv s.settle :=
  { toHW := (settle_hw h).1
    reactLt := by simpa using hr
    closerLt := by simpa using hc
    closedIf := (settle_hw h).2 }

theorem HInv.resettle {s : S} (h : HInv s) : s.settle = s := by
  unfold S.settle
  split
  · rename_i hc
    simp only [Bool.and_eq_true, Bool.not_eq_true', all_isDone] at hc
    have := h.closedIf hc.1.1 hc.2
    simp [hc.1.2] at this
  · rfl

/-- the teardown from a state that is not lost yet -/
theorem teardown_hw {s : S} (h : HW s) (hl : s.lost = false) : HW s.teardown ∧
    (∀ x ∈ s.teardown.handlers, ∀ u, x.status = .reacting u → s.teardown.now < u) ∧
    (∀ x ∈ s.teardown.handlers, x.status ≠ .run) := by
  have hce : s.closedEvent = false := by
    cases hc : s.closedEvent
    · rfl
    · have := (h.closedThen hc).1; simp [hl] at this
  refine ⟨⟨?_, ?_, ?_, ?_, ?_, ?_, ?_⟩, ?_, ?_⟩
  · simp [S.teardown, h.hook, hl]
  · intro _; rfl
  · simp [S.teardown]
  · intro hc; simp [S.teardown, hce] at hc
  · intro _ x hx
    simp only [S.teardown, List.mem_map] at hx
    obtain ⟨y, _, rfl⟩ := hx
    exact cancelHandler_not_run _ _
  · intro x hx u hu
    simp only [S.teardown, List.mem_map] at hx
    obtain ⟨y, hy, rfl⟩ := hx
    refine ⟨?_, rfl⟩
    rcases cancelHandler_reacting _ _ _ hu with h1 | ⟨_, h2⟩
    · have := (h.react y hy u h1).2; simp [hl] at this
    · exact Nat.le_of_lt h2
  · intro x hx d _ hr
    simp only [S.teardown, List.mem_map] at hx
    obtain ⟨y, _, rfl⟩ := hx
    exact absurd hr (cancelHandler_not_run _ _)
  · intro x hx u hu
    simp only [S.teardown, List.mem_map] at hx
    obtain ⟨y, hy, rfl⟩ := hx
    rcases cancelHandler_reacting _ _ _ hu with h1 | ⟨_, h2⟩
    · have := (h.react y hy u h1).2; simp [hl] at this
    · exact h2
  · intro x hx
    simp only [S.teardown, List.mem_map] at hx
    obtain ⟨y, _, rfl⟩ := hx
    exact cancelHandler_not_run _ _

theorem lose_hinv_of_not_lost {s : S} (h : HW s) (hl : s.lost = false) : HInv s.lose := by
  unfold S.lose
  simp only [hl, Bool.false_eq_true, ↓reduceIte]
  obtain ⟨h1, h2, h3⟩ := teardown_hw h hl
  exact settle_hinv h1 h2 (fun x hx d _ hr => absurd hr (h3 x hx))

theorem lose_hinv {s : S} (h : HInv s) : HInv s.lose := by
  rcases Bool.eq_false_or_eq_true s.lost with hl | hl
  · unfold S.lose; simp [hl]; exact h
  · exact lose_hinv_of_not_lost h.toHW hl

/-- after `lose` nothing is left in `run` -/
theorem lose_lost (s : S) : s.lose.lost = true := by
  unfold S.lose
  split
  · assumption
  · simp [S.teardown]

theorem lose_now (s : S) : s.lose.now = s.now := by
  unfold S.lose; split <;> simp [S.teardown]

theorem lose_closing (s : S) (hc : s.closing = true) : s.lose.closing = true := by
  unfold S.lose; split <;> simp [S.teardown, hc]

theorem lose_lost_of_lost {s : S} (hl : s.lost = true) : s.lose = s := by
  unfold S.lose; simp [hl]

theorem lose_hw_run {q : S} (h : HW q) : HW q.lose ∧ ∀ x ∈ q.lose.handlers, x.status ≠ .run := by
  rcases Bool.eq_false_or_eq_true q.lost with hl | hl
  · rw [lose_lost_of_lost hl]; exact ⟨h, h.noRun hl⟩
  · have hi := lose_hinv_of_not_lost h hl
    exact ⟨hi.toHW, hi.noRun (lose_lost _)⟩

/-- the group-1 invariants only read these fields; `closing` only ever appears positively -/
theorem HW.mono {s s' : S} (h : HW s) (hk : s'.hookRuns = s.hookRuns) (hl : s'.lost = s.lost)
    (hc : s.closing = true → s'.closing = true) (hla : s'.loopAlive = s.loopAlive)
    (hce : s'.closedEvent = s.closedEvent) (hh : s'.handlers = s.handlers)
    (hn : s'.now = s.now) : HW s' := by
  refine ⟨?_, ?_, ?_, ?_, ?_, ?_, ?_⟩
  · rw [hk, hl]; exact h.hook
  · rw [hl]; exact fun x => hc (h.lostClosing x)
  · rw [hla, hl]; exact h.loop
  · rw [hce, hl, hh]; exact h.closedThen
  · rw [hl, hh]; exact h.noRun
  · rw [hl, hh, hn]; exact h.react
  · rw [hh, hn]; exact fun x hx d hk hr => ⟨(h.closerH x hx d hk hr).1, hc (h.closerH x hx d hk hr).2⟩

theorem HInv.mono {s s' : S} (h : HInv s) (hk : s'.hookRuns = s.hookRuns) (hl : s'.lost = s.lost)
    (hc : s.closing = true → s'.closing = true) (hla : s'.loopAlive = s.loopAlive)
    (hce : s'.closedEvent = s.closedEvent) (hh : s'.handlers = s.handlers)
    (hn : s'.now = s.now) : HInv s' :=
  { toHW := h.toHW.mono hk hl hc hla hce hh hn
    reactLt := by rw [hh, hn]; exact h.reactLt
    closerLt := by rw [hh, hn]; exact h.closerLt
    closedIf := by rw [hl, hh, hce]; exact h.closedIf }

theorem doAbort_hinv {s : S} (h : HInv s) : HInv s.doAbort := by
  unfold S.doAbort
  exact lose_hinv (h.mono rfl rfl (fun _ => rfl) rfl rfl rfl rfl)

theorem transportClose_hinv {s : S} (h : HInv s) : HInv s.transportClose := by
  unfold S.transportClose
  split
  · exact h
  · split
    · exact h.mono rfl rfl (fun _ => rfl) rfl rfl rfl rfl
    · exact lose_hinv (h.mono rfl rfl (fun _ => rfl) rfl rfl rfl rfl)

theorem HInv.closedEvent_false {s : S} (h : HInv s) (hl : s.lost = false) :
    s.closedEvent = false := by
  cases hc : s.closedEvent
  · rfl
  · have := (h.closedThen hc).1; simp [hl] at this

/-- a new handler that is not blocked in `close()` -/
theorem addHandler_hinv {s : S} (h : HInv s) (hl : s.lost = false) (x : Handler)
    (hx : x.status = .done ∨ (x.status = .run ∧ ∀ d, x.kind ≠ .closer d)) :
    HInv { s with handlers := s.handlers ++ [x] } := by
  have hce := h.closedEvent_false hl
  refine { hook := h.hook, lostClosing := h.lostClosing, loop := h.loop, closedThen := ?_,
           noRun := ?_, react := ?_, closerH := ?_, reactLt := ?_, closerLt := ?_, closedIf := ?_ }
  · intro hc; simp [hce] at hc
  · intro hc; simp [hl] at hc
  · intro y hy u hu
    simp only [List.mem_append, List.mem_singleton] at hy
    rcases hy with hy | rfl
    · exact h.react y hy u hu
    · rcases hx with hx | ⟨hx, _⟩ <;> simp [hx] at hu
  · intro y hy d hk hr
    simp only [List.mem_append, List.mem_singleton] at hy
    rcases hy with hy | rfl
    · exact h.closerH y hy d hk hr
    · rcases hx with hx | ⟨_, hx⟩
      · simp [hx] at hr
      · exact absurd hk (hx d)
  · intro y hy u hu
    simp only [List.mem_append, List.mem_singleton] at hy
    rcases hy with hy | rfl
    · exact h.reactLt y hy u hu
    · rcases hx with hx | ⟨hx, _⟩ <;> simp [hx] at hu
  · intro y hy d hk hr
    simp only [List.mem_append, List.mem_singleton] at hy
    rcases hy with hy | rfl
    · exact h.closerLt y hy d hk hr
    · rcases hx with hx | ⟨_, hx⟩
      · simp [hx] at hr
      · exact absurd hk (hx d)
  · intro hc; simp [hl] at hc

/-- a new handler that has just called `transport.close()` (so `closing` is set) -/
theorem addCloser_hw {s : S} (h : HInv s) (hl : s.lost = false) (i fa : Nat) :
    HW { s with handlers := s.handlers ++ [⟨i, .closer (s.now + fa), .run⟩], closing := true } := by
  have hce := h.closedEvent_false hl
  refine ⟨h.hook, fun _ => rfl, h.loop, ?_, ?_, ?_, ?_⟩
  · intro hc; simp [hce] at hc
  · intro hc; simp [hl] at hc
  · intro y hy u hu
    simp only [List.mem_append, List.mem_singleton] at hy
    rcases hy with hy | rfl
    · exact h.react y hy u hu
    · simp at hu
  · intro y hy d hk hr
    simp only [List.mem_append, List.mem_singleton] at hy
    rcases hy with hy | rfl
    · exact ⟨(h.closerH y hy d hk hr).1, rfl⟩
    · simp at hk; subst hk; exact ⟨Nat.le_add_right _ _, rfl⟩

theorem addCloser_hinv {s : S} (h : HInv s) (hl : s.lost = false) (i fa : Nat) (hfa : 0 < fa) :
    HInv { s with handlers := s.handlers ++ [⟨i, .closer (s.now + fa), .run⟩], closing := true } := by
  refine { toHW := addCloser_hw h hl i fa, reactLt := ?_, closerLt := ?_, closedIf := ?_ }
  · intro y hy u hu
    simp only [List.mem_append, List.mem_singleton] at hy
    rcases hy with hy | rfl
    · exact h.reactLt y hy u hu
    · simp at hu
  · intro y hy d hk hr
    simp only [List.mem_append, List.mem_singleton] at hy
    rcases hy with hy | rfl
    · exact h.closerLt y hy d hk hr
    · simp at hk; subst hk; show s.now < s.now + fa; omega
  · intro hc; simp [hl] at hc

theorem transportClose_cases (s : S) :
    (s.closing = true ∧ s.transportClose = s) ∨
    (s.closing = false ∧ s.stalled = true ∧ s.transportClose = { s with closing := true }) ∨
    (s.closing = false ∧ s.stalled = false ∧
      s.transportClose = S.lose { s with closing := true }) := by
  unfold S.transportClose
  by_cases hc : s.closing = true
  · left; simp [hc]
  · right
    by_cases hst : s.stalled = true
    · left; simp [hc, hst]
    · right; simp [hc, hst]

theorem startHandler_hinv {s : S} (h : HInv s) (hl : s.lost = false) (hc : s.closing = false)
    (i : Nat) (k : HKind) : HInv (s.startHandler i k) := by
  unfold S.startHandler
  cases k with
  | quick => exact addHandler_hinv h hl _ (Or.inl rfl)
  | slow => exact addHandler_hinv h hl _ (Or.inr ⟨rfl, by simp⟩)
  | stubborn r => exact addHandler_hinv h hl _ (Or.inr ⟨rfl, by simp⟩)
  | aborter => exact doAbort_hinv (addHandler_hinv h hl _ (Or.inl rfl))
  | closer fa =>
    simp only []
    rcases transportClose_cases
        { s with handlers := s.handlers ++ [⟨i, .closer (s.now + fa), .run⟩] } with
      ⟨h1, _⟩ | ⟨_, _, e⟩ | ⟨_, _, e⟩
    · exact absurd h1 (by simp [hc])
    · by_cases hfa : fa = 0
      · subst hfa
        simp only [BEq.rfl, ↓reduceIte]
        unfold S.doAbort
        exact lose_hinv_of_not_lost
          ((addCloser_hw h hl i 0).mono rfl rfl (fun _ => rfl) rfl rfl rfl rfl) hl
      · have : (fa == 0) = false := by simp [hfa]
        simp only [this, Bool.false_eq_true, ↓reduceIte]
        rw [e]
        exact addCloser_hinv h hl i fa (by omega)
    · by_cases hfa : fa = 0
      · subst hfa
        simp only [BEq.rfl, ↓reduceIte]
        unfold S.doAbort
        exact lose_hinv_of_not_lost
          ((addCloser_hw h hl i 0).mono rfl rfl (fun _ => rfl) rfl rfl rfl rfl) hl
      · have : (fa == 0) = false := by simp [hfa]
        simp only [this, Bool.false_eq_true, ↓reduceIte]
        rw [e]
        exact lose_hinv_of_not_lost (addCloser_hw h hl i fa) hl

theorem finishHandlers_hinv {s : S} (h : HInv s) (hl : s.lost = false) (i : Nat) :
    HInv { s with handlers := s.handlers.map (finishHandler i) } := by
  have hce := h.closedEvent_false hl
  refine { hook := h.hook, lostClosing := h.lostClosing, loop := h.loop, closedThen := ?_,
           noRun := ?_, react := ?_, closerH := ?_, reactLt := ?_, closerLt := ?_, closedIf := ?_ }
  · intro hc; simp [hce] at hc
  · intro hc; simp [hl] at hc
  · intro y hy u hu
    simp only [List.mem_map] at hy
    obtain ⟨x, hx, rfl⟩ := hy
    rcases finishHandler_status i x with e | ⟨e, _, _⟩
    · exact h.react x hx u (e ▸ hu)
    · simp [e] at hu
  · intro y hy d hk hr
    simp only [List.mem_map] at hy
    obtain ⟨x, hx, rfl⟩ := hy
    rw [finishHandler_kind] at hk
    rcases finishHandler_status i x with e | ⟨e, _, _⟩
    · exact h.closerH x hx d hk (e ▸ hr)
    · simp [e] at hr
  · intro y hy u hu
    simp only [List.mem_map] at hy
    obtain ⟨x, hx, rfl⟩ := hy
    rcases finishHandler_status i x with e | ⟨e, _, _⟩
    · exact h.reactLt x hx u (e ▸ hu)
    · simp [e] at hu
  · intro y hy d hk hr
    simp only [List.mem_map] at hy
    obtain ⟨x, hx, rfl⟩ := hy
    rw [finishHandler_kind] at hk
    rcases finishHandler_status i x with e | ⟨e, _, _⟩
    · exact h.closerLt x hx d hk (e ▸ hr)
    · simp [e] at hr
  · intro hc; simp [hl] at hc

/-! ### the clock tick -/

theorem bump_hw {s : S} (h : HInv s) : HW s.bump := by
  refine ⟨h.hook, h.lostClosing, h.loop, h.closedThen, h.noRun, ?_, ?_⟩
  · intro x hx u hu
    exact ⟨Nat.succ_le_of_lt (h.reactLt x hx u hu), (h.react x hx u hu).2⟩
  · intro x hx d hk hr
    exact ⟨Nat.succ_le_of_lt (h.closerLt x hx d hk hr), (h.closerH x hx d hk hr).2⟩

theorem expire_hw {s : S} (h : HW s) : HW s.expire :=
  h.mono rfl rfl id rfl rfl rfl rfl

theorem fireClosers_now (s : S) : s.fireClosers.now = s.now := by
  unfold S.fireClosers
  simp only []
  split
  · rfl
  · rw [lose_now]

theorem fireClosers_hw {s : S} (h : HW s) : HW s.fireClosers ∧
    ∀ x ∈ s.fireClosers.handlers, x.status = .run → x.kind ≠ .closer s.now := by
  unfold S.fireClosers
  simp only []
  split
  · rename_i h0
    refine ⟨h.mono rfl rfl id rfl rfl rfl rfl, ?_⟩
    intro x hx hr hk
    have : x ∈ s.handlers.filter (handlerDue s.now) := by
      simp [List.mem_filter, hx, handlerDue, hr, hk]
    have hpos : 0 < (s.handlers.filter (handlerDue s.now)).length := List.length_pos_of_mem this
    have h00 : s.dueCount = 0 := by simpa using h0
    unfold S.dueCount at h00
    omega
  · have hw : HW { s with closers := s.closers.map (abortCloser s.now),
                          aborts := s.aborts ++ List.replicate s.dueCount s.now,
                          closing := true } :=
      h.mono rfl rfl (fun _ => rfl) rfl rfl rfl rfl
    obtain ⟨h1, h2⟩ := lose_hw_run hw
    exact ⟨h1, fun x hx hr => absurd hr (h2 x hx)⟩

theorem tick_hinv {s : S} (h : HInv s) : HInv s.tick := by
  unfold S.tick
  have h1 := expire_hw (bump_hw h)
  obtain ⟨h2, h3⟩ := fireClosers_hw h1
  have hn : s.bump.expire.fireClosers.now = s.now + 1 := by rw [fireClosers_now]; rfl
  have hn1 : s.bump.expire.now = s.now + 1 := rfl
  have hw : HW s.bump.expire.fireClosers.endReactions := by
    refine ⟨h2.hook, h2.lostClosing, h2.loop, ?_, ?_, ?_, ?_⟩
    · intro hc
      refine ⟨(h2.closedThen hc).1, ?_⟩
      intro x hx
      simp only [S.endReactions, List.mem_map] at hx
      obtain ⟨y, hy, rfl⟩ := hx
      exact finishReaction_done _ _ ((h2.closedThen hc).2 y hy)
    · intro hl x hx
      simp only [S.endReactions, List.mem_map] at hx
      obtain ⟨y, hy, rfl⟩ := hx
      rw [Ne, finishReaction_run]
      exact h2.noRun hl y hy
    · intro x hx u hu
      simp only [S.endReactions, List.mem_map] at hx
      obtain ⟨y, hy, rfl⟩ := hx
      exact h2.react y hy u (finishReaction_reacting _ _ _ hu).1
    · intro x hx d hk hr
      simp only [S.endReactions, List.mem_map] at hx
      obtain ⟨y, hy, rfl⟩ := hx
      rw [finishReaction_kind] at hk
      rw [finishReaction_run] at hr
      exact h2.closerH y hy d hk hr
  apply settle_hinv hw
  · intro x hx u hu
    simp only [S.endReactions, List.mem_map] at hx
    obtain ⟨y, hy, rfl⟩ := hx
    obtain ⟨e1, e2⟩ := finishReaction_reacting _ _ _ hu
    have := (h2.react y hy u e1).1
    show s.bump.expire.fireClosers.now < u
    omega
  · intro x hx d hk hr
    simp only [S.endReactions, List.mem_map] at hx
    obtain ⟨y, hy, rfl⟩ := hx
    rw [finishReaction_kind] at hk
    rw [finishReaction_run] at hr
    have h4 := (h2.closerH y hy d hk hr).1
    have h5 := h3 y hy hr
    rw [hn1] at h5
    have : d ≠ s.now + 1 := fun e => h5 (e ▸ hk)
    show s.bump.expire.fireClosers.now < d
    omega

theorem advance_hinv (n : Nat) : ∀ {s : S}, HInv s → HInv (s.advance n) := by
  induction n with
  | zero => intro s h; exact h
  | succ n ih => intro s h; exact ih (tick_hinv h)

end Aiorpcx.C08
