import Aiorpcx.C08.Inv
/-! Group 3 of the C08 invariants: tasks inside `close(force_after)` and the abort log. -/
namespace Aiorpcx.C08

theorem returnCloser_st (n : Nat) (c : Closer) : ∃ a, (returnCloser n c).st = .returned a := by
  unfold returnCloser
  split
  · rename_i a h; exact ⟨a, h⟩
  · exact ⟨n, rfl⟩

theorem returnCloser_at (n : Nat) (c : Closer) (a : Nat) (h : (returnCloser n c).st = .returned a) :
    c.st = .returned a ∨ a = n := by
  unfold returnCloser at h
  split at h
  · left; exact h
  · right; simp at h; exact h.symm

theorem returnCloser_id (n : Nat) (c : Closer) : (returnCloser n c).id = c.id := by
  unfold returnCloser; split <;> rfl

theorem abortCloser_deadline (n : Nat) (c : Closer) : (abortCloser n c).deadline = c.deadline := by
  unfold abortCloser; split <;> rfl

theorem abortCloser_id (n : Nat) (c : Closer) : (abortCloser n c).id = c.id := by
  unfold abortCloser; split <;> rfl

theorem abortCloser_start (n : Nat) (c : Closer) : (abortCloser n c).start = c.start := by
  unfold abortCloser; split <;> rfl

theorem returnCloser_start (n : Nat) (c : Closer) : (returnCloser n c).start = c.start := by
  unfold returnCloser; split <;> rfl

theorem returnCloser_of_not_returned (n : Nat) (c : Closer) (h : ∀ a, c.st ≠ .returned a) :
    (returnCloser n c).st = .returned n := by
  unfold returnCloser
  split
  · rename_i a e; exact absurd e (h a)
  · rfl

theorem abortCloser_st (n : Nat) (c : Closer) :
    (c.st = .waiting ∧ c.deadline = n ∧ (abortCloser n c).st = .abortedWaiting) ∨
    ((c.st ≠ .waiting ∨ c.deadline ≠ n) ∧ (abortCloser n c).st = c.st) := by
  unfold abortCloser closerDue
  by_cases h1 : c.st = .waiting
  · by_cases h2 : c.deadline = n
    · left; simp [h1, h2]
    · right; simp [h1, h2]
  · right; simp [h1]

/-- the part that survives between `abort()` and the delivery of `connection_lost` -/
structure CPre (s : S) : Prop where
  closedAll : s.closedEvent = true → ∀ c ∈ s.closers, ∃ a, c.st = .returned a
  openNone : s.closedEvent = false → ∀ c ∈ s.closers, ∀ a, c.st ≠ .returned a
  waitingLe : ∀ c ∈ s.closers, c.st = .waiting → s.now ≤ c.deadline
  /-- a task that is past its `force_after` has called `abort()` at exactly that instant -/
  aborted : ∀ c ∈ s.closers, c.st = .abortedWaiting → c.deadline ≤ s.now ∧ c.deadline ∈ s.aborts
  closersClosing : ∀ c ∈ s.closers, s.closing = true
  returnedAt : ∀ c ∈ s.closers, ∀ a, c.st = .returned a → a ≤ s.now
  abortsPast : ∀ a ∈ s.aborts, a ≤ s.now
  startLe : ∀ c ∈ s.closers, c.start ≤ s.now
  closedAtNone : s.closedAt = none → s.closedEvent = false
  /-- a `close()` returns at the instant `_closed_event` is set, or at once when called later -/
  closedAtSome : ∀ T, s.closedAt = some T →
    s.closedEvent = true ∧ T ≤ s.now ∧ ∀ c ∈ s.closers, c.st = .returned (max c.start T)

structure CW (s : S) : Prop extends CPre s where
  /-- every `abort()` brings `connection_lost` -/
  abortsLost : s.aborts ≠ [] → s.lost = true

structure CInv (s : S) : Prop extends CW s where
  waitingLt : ∀ c ∈ s.closers, c.st = .waiting → s.now < c.deadline

theorem CInv.abortedLost {s : S} (h : CInv s) (c : Closer) (hc : c ∈ s.closers)
    (ha : c.st = .abortedWaiting) : s.lost = true :=
  h.abortsLost (List.ne_nil_of_mem (h.aborted c hc ha).2)

theorem CPre.mono {s s' : S} (h : CPre s) (hca : s'.closedAt = s.closedAt)
    (hce : s'.closedEvent = s.closedEvent)
    (hcl : s'.closers = s.closers) (hn : s'.now = s.now) (hab : s'.aborts = s.aborts)
    (hc : s.closing = true → s'.closing = true) : CPre s' := by
  refine ⟨?_, ?_, ?_, ?_, ?_, ?_, ?_, ?_, ?_, ?_⟩
  · rw [hce, hcl]; exact h.closedAll
  · rw [hce, hcl]; exact h.openNone
  · rw [hcl, hn]; exact h.waitingLe
  · rw [hcl, hn, hab]; exact h.aborted
  · rw [hcl]; exact fun c hx => hc (h.closersClosing c hx)
  · rw [hcl, hn]; exact h.returnedAt
  · rw [hab, hn]; exact h.abortsPast
  · rw [hcl, hn]; exact h.startLe
  · rw [hca, hce]; exact h.closedAtNone
  · rw [hca, hce, hcl, hn]; exact h.closedAtSome

theorem CInv.mono {s s' : S} (h : CInv s) (hca : s'.closedAt = s.closedAt)
    (hce : s'.closedEvent = s.closedEvent)
    (hcl : s'.closers = s.closers) (hn : s'.now = s.now) (hab : s'.aborts = s.aborts)
    (hc : s.closing = true → s'.closing = true) (hl : s.lost = true → s'.lost = true) : CInv s' :=
  { toCPre := h.toCPre.mono hca hce hcl hn hab hc
    abortsLost := by rw [hab]; exact fun x => hl (h.abortsLost x)
    waitingLt := by rw [hcl, hn]; exact h.waitingLt }

/-- `settle` on the closers -/
theorem settle_cpre {s : S} (h : CPre s) : CPre s.settle := by
  unfold S.settle
  split
  · rename_i hcond
    have hce : s.closedEvent = false := by
      simp only [Bool.and_eq_true, Bool.not_eq_true'] at hcond; exact hcond.1.2
    refine ⟨?_, ?_, ?_, ?_, ?_, ?_, h.abortsPast, ?_, ?_, ?_⟩
    · intro _ c hc
      simp only [List.mem_map] at hc
      obtain ⟨y, _, rfl⟩ := hc
      exact returnCloser_st _ _
    · intro hc; simp at hc
    · intro c hc hw
      simp only [List.mem_map] at hc
      obtain ⟨y, _, rfl⟩ := hc
      obtain ⟨a, ha⟩ := returnCloser_st s.now y
      simp [ha] at hw
    · intro c hc hw
      simp only [List.mem_map] at hc
      obtain ⟨y, _, rfl⟩ := hc
      obtain ⟨a, ha⟩ := returnCloser_st s.now y
      simp [ha] at hw
    · intro c hc
      simp only [List.mem_map] at hc
      obtain ⟨y, hy, rfl⟩ := hc
      exact h.closersClosing y hy
    · intro c hc a ha
      simp only [List.mem_map] at hc
      obtain ⟨y, hy, rfl⟩ := hc
      rcases returnCloser_at _ _ _ ha with e | e
      · exact h.returnedAt y hy a e
      · exact Nat.le_of_eq e
    · intro c hc
      simp only [List.mem_map] at hc
      obtain ⟨y, hy, rfl⟩ := hc
      rw [returnCloser_start]; exact h.startLe y hy
    · intro hc; simp at hc
    · intro T hT
      simp only [Option.some.injEq] at hT
      subst hT
      refine ⟨rfl, Nat.le_refl _, ?_⟩
      intro c hc
      simp only [List.mem_map] at hc
      obtain ⟨y, hy, rfl⟩ := hc
      rw [returnCloser_start, returnCloser_of_not_returned _ _ (h.openNone hce y hy),
          Nat.max_eq_right (h.startLe y hy)]
  · exact h

theorem settle_waitingLt {s : S} (h : ∀ c ∈ s.closers, c.st = .waiting → s.now < c.deadline) :
    ∀ c ∈ s.settle.closers, c.st = .waiting → s.settle.now < c.deadline := by
  unfold S.settle
  split
  · intro c hc hw
    simp only [List.mem_map] at hc
    obtain ⟨y, _, rfl⟩ := hc
    obtain ⟨a, ha⟩ := returnCloser_st s.now y
    simp [ha] at hw
  · exact h

theorem settle_cinv {s : S} (h : CInv s) : CInv s.settle :=
  { toCPre := settle_cpre h.toCPre
    abortsLost := by simpa using h.abortsLost
    waitingLt := settle_waitingLt h.waitingLt }

/-- delivering `connection_lost` re-establishes "every abort brought the loss" -/
theorem lose_cinv {s : S} (h : CPre s)
    (hw : ∀ c ∈ s.closers, c.st = .waiting → s.now < c.deadline) : CInv s.lose := by
  rcases Bool.eq_false_or_eq_true s.lost with hl | hl
  · rw [lose_lost_of_lost hl]
    exact { toCPre := h, abortsLost := fun _ => hl, waitingLt := hw }
  · unfold S.lose
    simp only [hl, Bool.false_eq_true, ↓reduceIte]
    have h1 : CPre s.teardown := h.mono rfl rfl rfl rfl rfl (fun _ => rfl)
    exact { toCPre := settle_cpre h1
            abortsLost := by intro _; simp [S.teardown]
            waitingLt := settle_waitingLt (s := s.teardown) hw }

theorem doAbort_cinv {s : S} (h : CInv s) : CInv s.doAbort := by
  unfold S.doAbort
  apply lose_cinv
  · refine ⟨h.closedAll, h.openNone, h.waitingLe, ?_, fun _ _ => rfl, h.returnedAt, ?_,
      h.startLe, h.closedAtNone, h.closedAtSome⟩
    · intro c hc ha
      exact ⟨(h.aborted c hc ha).1, List.mem_append_left _ (h.aborted c hc ha).2⟩
    · intro a ha
      simp only [List.mem_append, List.mem_singleton] at ha
      rcases ha with ha | rfl
      · exact h.abortsPast a ha
      · exact Nat.le_refl _
  · exact h.waitingLt

theorem transportClose_cinv {s : S} (h : CInv s) : CInv s.transportClose := by
  rcases transportClose_cases s with ⟨_, e⟩ | ⟨_, _, e⟩ | ⟨_, _, e⟩ <;> rw [e]
  · exact h
  · exact h.mono rfl rfl rfl rfl rfl (fun _ => rfl) id
  · exact lose_cinv (h.toCPre.mono rfl rfl rfl rfl rfl (fun _ => rfl)) h.waitingLt

theorem startHandler_cinv {s : S} (h : CInv s) (i : Nat) (k : HKind) :
    CInv (s.startHandler i k) := by
  unfold S.startHandler
  cases k with
  | quick => exact h.mono rfl rfl rfl rfl rfl id id
  | slow => exact h.mono rfl rfl rfl rfl rfl id id
  | stubborn r => exact h.mono rfl rfl rfl rfl rfl id id
  | aborter => exact doAbort_cinv (h.mono rfl rfl rfl rfl rfl id id)
  | closer fa =>
    simp only []
    split
    · exact doAbort_cinv (h.mono rfl rfl rfl rfl rfl id id)
    · exact transportClose_cinv (h.mono rfl rfl rfl rfl rfl id id)

/-- `close()` on a connection that is already closed returns at once -/
theorem appClose_closed_cinv {s : S} (h : CInv s) (hce : s.closedEvent = true)
    (hcl : s.closing = true) (c fa : Nat) :
    CInv { s with closers := s.closers ++ [⟨c, s.now, s.now + fa, .returned s.now⟩] } := by
  refine { closedAll := ?_, openNone := ?_, waitingLe := ?_, aborted := ?_, closersClosing := ?_,
           returnedAt := ?_, abortsPast := h.abortsPast, abortsLost := h.abortsLost,
           waitingLt := ?_, startLe := ?_, closedAtNone := h.closedAtNone, closedAtSome := ?_ }
  · intro _ x hx
    simp only [List.mem_append, List.mem_singleton] at hx
    rcases hx with hx | rfl
    · exact h.closedAll hce x hx
    · exact ⟨_, rfl⟩
  · intro hc; simp [hce] at hc
  · intro x hx hw
    simp only [List.mem_append, List.mem_singleton] at hx
    rcases hx with hx | rfl
    · exact h.waitingLe x hx hw
    · simp at hw
  · intro x hx hw
    simp only [List.mem_append, List.mem_singleton] at hx
    rcases hx with hx | rfl
    · exact h.aborted x hx hw
    · simp at hw
  · intro _ _; exact hcl
  · intro x hx a ha
    simp only [List.mem_append, List.mem_singleton] at hx
    rcases hx with hx | rfl
    · exact h.returnedAt x hx a ha
    · simp at ha; exact Nat.le_of_eq ha.symm
  · intro x hx
    simp only [List.mem_append, List.mem_singleton] at hx
    rcases hx with hx | rfl
    · exact h.startLe x hx
    · exact Nat.le_refl _
  · intro T hT
    obtain ⟨h1, h2, h3⟩ := h.closedAtSome T hT
    refine ⟨h1, h2, ?_⟩
    intro x hx
    simp only [List.mem_append, List.mem_singleton] at hx
    rcases hx with hx | rfl
    · exact h3 x hx
    · show CStatus.returned s.now = CStatus.returned (max s.now T)
      rw [Nat.max_eq_left h2]
  · intro x hx hw
    simp only [List.mem_append, List.mem_singleton] at hx
    rcases hx with hx | rfl
    · exact h.waitingLt x hx hw
    · simp at hw

/-- a new task enters `close(force_after)`; `st`/`deadline`/`aborts'`/`closing` describe the
moment just after its `transport.close()` (and, for `force_after = 0`, its `abort()`) -/
theorem addCloser_cpre {s : S} (h : CInv s) (hce : s.closedEvent = false) (x : Closer)
    (ab : List Nat) (hst : x.start ≤ s.now)
    (hx : (x.st = .waiting ∧ s.now < x.deadline ∧ ab = s.aborts) ∨
          (x.st = .abortedWaiting ∧ x.deadline = s.now ∧ ab = s.aborts ++ [s.now])) :
    CPre { s with closers := s.closers ++ [x], aborts := ab, closing := true } ∧
    ∀ c ∈ s.closers ++ [x], c.st = .waiting → s.now < c.deadline := by
  have hsub : ∀ a ∈ s.aborts, a ∈ ab := by
    intro a ha; rcases hx with ⟨_, _, e⟩ | ⟨_, _, e⟩ <;> subst e
    · exact ha
    · exact List.mem_append_left _ ha
  refine ⟨⟨?_, ?_, ?_, ?_, fun _ _ => rfl, ?_, ?_, ?_, fun _ => hce, ?_⟩, ?_⟩
  · intro hc; simp [hce] at hc
  · intro _ y hy a
    simp only [List.mem_append, List.mem_singleton] at hy
    rcases hy with hy | rfl
    · exact h.openNone hce y hy a
    · rcases hx with ⟨e, _⟩ | ⟨e, _⟩ <;> simp [e]
  · intro y hy hw
    simp only [List.mem_append, List.mem_singleton] at hy
    rcases hy with hy | rfl
    · exact h.waitingLe y hy hw
    · rcases hx with ⟨_, e, _⟩ | ⟨e, _⟩
      · exact Nat.le_of_lt e
      · simp [e] at hw
  · intro y hy hw
    simp only [List.mem_append, List.mem_singleton] at hy
    rcases hy with hy | rfl
    · exact ⟨(h.aborted y hy hw).1, hsub _ (h.aborted y hy hw).2⟩
    · rcases hx with ⟨e, _⟩ | ⟨_, e1, e2⟩
      · simp [e] at hw
      · subst e2; exact ⟨Nat.le_of_eq e1, by simp [e1]⟩
  · intro y hy a ha
    simp only [List.mem_append, List.mem_singleton] at hy
    rcases hy with hy | rfl
    · exact h.returnedAt y hy a ha
    · rcases hx with ⟨e, _⟩ | ⟨e, _⟩ <;> simp [e] at ha
  · intro a ha
    rcases hx with ⟨_, _, e⟩ | ⟨_, _, e⟩ <;> subst e
    · exact h.abortsPast a ha
    · simp only [List.mem_append, List.mem_singleton] at ha
      rcases ha with ha | rfl
      · exact h.abortsPast a ha
      · exact Nat.le_refl _
  · intro y hy
    simp only [List.mem_append, List.mem_singleton] at hy
    rcases hy with hy | rfl
    · exact h.startLe y hy
    · exact hst
  · intro T hT
    have := (h.closedAtSome T hT).1
    simp [hce] at this
  · intro y hy hw
    simp only [List.mem_append, List.mem_singleton] at hy
    rcases hy with hy | rfl
    · exact h.waitingLt y hy hw
    · rcases hx with ⟨_, e, _⟩ | ⟨e, _⟩
      · exact e
      · simp [e] at hw

/-! ### the clock tick -/

theorem bump_cw {s : S} (h : CInv s) : CW s.bump := by
  refine { closedAll := h.closedAll, openNone := h.openNone, waitingLe := ?_, aborted := ?_,
           closersClosing := h.closersClosing, returnedAt := ?_, abortsPast := ?_,
           abortsLost := h.abortsLost, startLe := ?_, closedAtNone := h.closedAtNone,
           closedAtSome := ?_ }
  · intro c hc hw; exact Nat.succ_le_of_lt (h.waitingLt c hc hw)
  · intro c hc ha
    exact ⟨Nat.le_succ_of_le (h.aborted c hc ha).1, (h.aborted c hc ha).2⟩
  · intro c hc a ha; exact Nat.le_succ_of_le (h.returnedAt c hc a ha)
  · intro a ha; exact Nat.le_succ_of_le (h.abortsPast a ha)
  · intro c hc; exact Nat.le_succ_of_le (h.startLe c hc)
  · intro T hT
    exact ⟨(h.closedAtSome T hT).1, Nat.le_succ_of_le (h.closedAtSome T hT).2.1,
           (h.closedAtSome T hT).2.2⟩

theorem expire_cw {s : S} (h : CW s) : CW s.expire :=
  { toCPre := h.toCPre.mono rfl rfl rfl rfl rfl id, abortsLost := h.abortsLost }

theorem dueCount_pos_of_closer {s : S} (c : Closer) (hc : c ∈ s.closers)
    (hd : closerDue s.now c = true) : 0 < s.dueCount := by
  have : c ∈ s.closers.filter (closerDue s.now) := by simp [List.mem_filter, hc, hd]
  have := List.length_pos_of_mem this
  unfold S.dueCount; omega

theorem fireClosers_cinv {s : S} (h : CW s) : CInv s.fireClosers := by
  unfold S.fireClosers
  simp only []
  have hpre : ∀ cl : Bool, (s.closing = true → cl = true) →
      CPre { s with closers := s.closers.map (abortCloser s.now),
                    aborts := s.aborts ++ List.replicate s.dueCount s.now, closing := cl } := by
    intro cl hcl
    refine ⟨?_, ?_, ?_, ?_, ?_, ?_, ?_, ?_, h.closedAtNone, ?_⟩
    · intro hce c hc
      simp only [List.mem_map] at hc
      obtain ⟨y, hy, rfl⟩ := hc
      obtain ⟨a, ha⟩ := h.closedAll hce y hy
      rcases abortCloser_st s.now y with ⟨e, _⟩ | ⟨_, e⟩
      · simp [ha] at e
      · exact ⟨a, e ▸ ha⟩
    · intro hce c hc a
      simp only [List.mem_map] at hc
      obtain ⟨y, hy, rfl⟩ := hc
      rcases abortCloser_st s.now y with ⟨_, _, e⟩ | ⟨_, e⟩
      · simp [e]
      · rw [e]; exact h.openNone hce y hy a
    · intro c hc hw
      simp only [List.mem_map] at hc
      obtain ⟨y, hy, rfl⟩ := hc
      rw [abortCloser_deadline]
      rcases abortCloser_st s.now y with ⟨_, _, e⟩ | ⟨_, e⟩
      · simp [e] at hw
      · exact h.waitingLe y hy (e ▸ hw)
    · intro c hc ha
      simp only [List.mem_map] at hc
      obtain ⟨y, hy, rfl⟩ := hc
      rw [abortCloser_deadline]
      rcases abortCloser_st s.now y with ⟨e1, e2, _⟩ | ⟨_, e⟩
      · refine ⟨Nat.le_of_eq e2, ?_⟩
        have hpos := dueCount_pos_of_closer y hy (by simp [closerDue, e1, e2])
        apply List.mem_append_right
        rw [e2]
        exact List.mem_replicate.mpr ⟨by omega, rfl⟩
      · exact ⟨(h.aborted y hy (e ▸ ha)).1, List.mem_append_left _ (h.aborted y hy (e ▸ ha)).2⟩
    · intro c hc
      simp only [List.mem_map] at hc
      obtain ⟨y, hy, rfl⟩ := hc
      exact hcl (h.closersClosing y hy)
    · intro c hc a ha
      simp only [List.mem_map] at hc
      obtain ⟨y, hy, rfl⟩ := hc
      rcases abortCloser_st s.now y with ⟨_, _, e⟩ | ⟨_, e⟩
      · simp [e] at ha
      · exact h.returnedAt y hy a (e ▸ ha)
    · intro a ha
      simp only [List.mem_append] at ha
      rcases ha with ha | ha
      · exact h.abortsPast a ha
      · exact Nat.le_of_eq (List.eq_of_mem_replicate ha)
    · intro c hc
      simp only [List.mem_map] at hc
      obtain ⟨y, hy, rfl⟩ := hc
      rw [abortCloser_start]; exact h.startLe y hy
    · intro T hT
      obtain ⟨h1, h2, h3⟩ := h.closedAtSome T hT
      refine ⟨h1, h2, ?_⟩
      intro c hc
      simp only [List.mem_map] at hc
      obtain ⟨y, hy, rfl⟩ := hc
      rw [abortCloser_start]
      rcases abortCloser_st s.now y with ⟨e, _⟩ | ⟨_, e⟩
      · simp [h3 y hy] at e
      · rw [e]; exact h3 y hy
  have hlt : ∀ c ∈ s.closers.map (abortCloser s.now), c.st = .waiting → s.now < c.deadline := by
    intro c hc hw
    simp only [List.mem_map] at hc
    obtain ⟨y, hy, rfl⟩ := hc
    rw [abortCloser_deadline]
    rcases abortCloser_st s.now y with ⟨_, _, e⟩ | ⟨e0, e⟩
    · simp [e] at hw
    · have h1 := h.waitingLe y hy (e ▸ hw)
      rcases e0 with e0 | e0
      · exact absurd (e ▸ hw) e0
      · omega
  split
  · rename_i h0
    have h00 : s.dueCount = 0 := by simpa using h0
    refine { toCPre := hpre s.closing id, abortsLost := ?_, waitingLt := hlt }
    intro hne
    simp only [h00, List.replicate_zero, List.append_nil] at hne
    exact h.abortsLost hne
  · exact lose_cinv (hpre true (fun _ => rfl)) hlt

theorem tick_cinv {s : S} (h : CInv s) : CInv s.tick := by
  unfold S.tick
  have h1 := fireClosers_cinv (expire_cw (bump_cw h))
  exact settle_cinv (h1.mono rfl rfl rfl rfl rfl id id)

theorem advance_cinv (n : Nat) : ∀ {s : S}, CInv s → CInv (s.advance n) := by
  induction n with
  | zero => intro s h; exact h
  | succ n ih => intro s h; exact ih (tick_cinv h)

end Aiorpcx.C08
