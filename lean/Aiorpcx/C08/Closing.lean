import Aiorpcx.C08.Live
/-! Group 4: a connection is never left half closed.  While the asyncio transport is closing
but `connection_lost` has not been delivered (a graceful close that does not complete), somebody
is inside `close(force_after)` with the timer still armed - an application task or a handler -
so the forced abort is on its way. -/
namespace Aiorpcx.C08

def Handler.inClose (h : Handler) : Prop := h.status = .run ∧ ∃ d, h.kind = .closer d

def GInv (s : S) : Prop :=
  s.closing = true → s.lost = false →
    (∃ c ∈ s.closers, c.st = .waiting) ∨ (∃ h ∈ s.handlers, h.inClose)

theorem GInv.of_lost {s : S} (hl : s.lost = true) : GInv s := by
  intro _ h; rw [hl] at h; cases h

theorem GInv.of_not_closing {s : S} (hc : s.closing = false) : GInv s := by
  intro h; rw [hc] at h; cases h

theorem lose_ginv (s : S) : GInv s.lose := GInv.of_lost (lose_lost s)

theorem doAbort_ginv (s : S) : GInv s.doAbort := by unfold S.doAbort; exact lose_ginv _

theorem finishHandler_inClose (i : Nat) (h : Handler) (hc : h.inClose) : finishHandler i h = h := by
  obtain ⟨_, d, hk⟩ := hc
  unfold finishHandler
  simp [hk, HKind.finishable]

theorem finishReaction_of_run (n : Nat) (h : Handler) (hr : h.status = .run) :
    finishReaction n h = h := by
  unfold finishReaction; simp [hr]

theorem abortCloser_of_not_due (n : Nat) (c : Closer) (h : closerDue n c = false) :
    abortCloser n c = c := by
  unfold abortCloser; simp [h]

theorem fireClosers_not_lost {s : S} (hl : s.fireClosers.lost = false) :
    s.dueCount = 0 ∧ s.fireClosers.handlers = s.handlers ∧
    s.fireClosers.closers = s.closers.map (abortCloser s.now) ∧
    s.fireClosers.closing = s.closing ∧ s.lost = false := by
  unfold S.fireClosers at hl ⊢
  simp only [] at hl ⊢
  split
  · rename_i h0
    simp only [h0, ↓reduceIte] at hl
    exact ⟨by simpa using h0, rfl, rfl, rfl, hl⟩
  · rename_i h0
    simp only [h0, Bool.false_eq_true, ↓reduceIte] at hl
    rw [lose_lost] at hl; cases hl

theorem tick_not_lost {s : S} (hl : s.tick.lost = false) :
    s.lost = false ∧ s.bump.expire.dueCount = 0 ∧
    s.tick.handlers = s.handlers.map (finishReaction (s.now + 1)) ∧
    s.tick.closers = s.closers.map (abortCloser (s.now + 1)) ∧ s.tick.closing = s.closing := by
  unfold S.tick at hl ⊢
  rw [settle_lost] at hl
  have hl' : s.bump.expire.fireClosers.lost = false := hl
  obtain ⟨h0, hh, hc, hcl, hl0⟩ := fireClosers_not_lost hl'
  have hset : s.bump.expire.fireClosers.endReactions.settle = s.bump.expire.fireClosers.endReactions := by
    unfold S.settle
    have : s.bump.expire.fireClosers.endReactions.lost = false := hl'
    simp [this]
  rw [hset]
  refine ⟨hl0, h0, ?_, hc, hcl⟩
  show s.bump.expire.fireClosers.handlers.map (finishReaction s.bump.expire.fireClosers.now) = _
  rw [hh, fireClosers_now]; rfl

theorem tick_ginv {s : S} (g : GInv s) : GInv s.tick := by
  intro hc hl
  obtain ⟨hl0, h0, hh, hcl, hclo⟩ := tick_not_lost hl
  rw [hclo] at hc
  have hnow : s.bump.expire.now = s.now + 1 := rfl
  unfold S.dueCount at h0
  rcases g hc hl0 with ⟨c, hcm, hw⟩ | ⟨h, hhm, hin⟩
  · left
    have hnd : closerDue (s.now + 1) c = false := by
      cases hd : closerDue (s.now + 1) c with
      | false => rfl
      | true =>
        have : c ∈ s.bump.expire.closers.filter (closerDue s.bump.expire.now) := by
          rw [hnow]; exact List.mem_filter.mpr ⟨hcm, hd⟩
        have := List.length_pos_of_mem this
        omega
    refine ⟨c, ?_, hw⟩
    rw [hcl]
    exact List.mem_map.mpr ⟨c, hcm, abortCloser_of_not_due _ _ hnd⟩
  · right
    refine ⟨h, ?_, hin⟩
    rw [hh]
    exact List.mem_map.mpr ⟨h, hhm, finishReaction_of_run _ _ hin.1⟩

theorem advance_ginv (n : Nat) : ∀ {s : S}, GInv s → GInv (s.advance n) := by
  induction n with
  | zero => intro s g; exact g
  | succ n ih => intro s g; exact ih (tick_ginv g)

theorem transportClose_ginv {s : S} (hw : (∃ c ∈ s.closers, c.st = .waiting) ∨ (∃ h ∈ s.handlers, h.inClose)) :
    GInv s.transportClose := by
  rcases transportClose_cases s with ⟨_, e⟩ | ⟨_, _, e⟩ | ⟨_, _, e⟩ <;> rw [e]
  · exact fun _ _ => hw
  · exact fun _ _ => hw
  · exact lose_ginv _

theorem step_ginv {s : S} (i : Inv s) (g : GInv s) (e : Event) : GInv (step s e) := by
  cases e with
  | request j k =>
    unfold step; simp only []
    split
    · exact g
    · rename_i hc
      simp only [Bool.or_eq_true, not_or, Bool.not_eq_true] at hc
      unfold S.startHandler
      cases k with
      | quick => exact GInv.of_not_closing hc.1.1
      | slow => exact GInv.of_not_closing hc.1.1
      | stubborn r => exact GInv.of_not_closing hc.1.1
      | aborter => exact doAbort_ginv _
      | closer fa =>
        simp only []
        split
        · exact doAbort_ginv _
        · apply transportClose_ginv
          right
          exact ⟨⟨j, .closer (s.now + fa), .run⟩, by simp, rfl, _, rfl⟩
  | handlerFinish j =>
    unfold step; simp only []
    split
    · exact g
    · intro hc hl
      rcases g hc hl with hw | ⟨h, hhm, hin⟩
      · left; exact hw
      · right
        exact ⟨h, List.mem_map.mpr ⟨h, hhm, finishHandler_inClose _ _ hin⟩, hin⟩
  | outgoing k =>
    unfold step; simp only []
    split
    · exact g
    · exact fun hc hl => g hc hl
  | answer k =>
    unfold step; simp only []
    split
    · exact g
    · exact fun hc hl => g hc hl
  | drop => unfold step; exact lose_ginv _
  | appClose c fa =>
    unfold step; simp only []
    split
    · exact g
    · split
      · rename_i hce
        exact GInv.of_lost (i.h.closedThen hce).1
      · split
        · exact doAbort_ginv _
        · apply transportClose_ginv
          left
          exact ⟨⟨c, s.now, s.now + fa, .waiting⟩, by simp, rfl⟩
  | abort => exact doAbort_ginv s
  | advance dt => exact advance_ginv dt g

theorem run_ginv (es : List Event) : ∀ {s : S}, Inv s → GInv s → GInv (run s es) := by
  induction es with
  | nil => intro s _ g; exact g
  | cons e es ih => intro s i g; exact ih (step_inv i e) (step_ginv i g e)

theorem init_ginv (rt : Nat) (st : Bool) : GInv (init rt st) := GInv.of_not_closing rfl

/-! ### a handler inside `close()` forces the loss by its deadline, like an application task -/

theorem lost_by_handler_deadline (n : Nat) : ∀ {s : S}, Inv s →
    (∃ h ∈ s.handlers, h.status = .run ∧ ∃ d, h.kind = .closer d ∧ d ≤ s.now + n) →
    (s.advance n).lost = true := by
  induction n with
  | zero =>
    intro s i ⟨h, hh, hr, d, hk, hd⟩
    have := i.h.closerLt h hh d hk hr
    omega
  | succ n ih =>
    intro s i ⟨h, hh, hr, d, hk, hd⟩
    show (s.tick.advance n).lost = true
    rcases Bool.eq_false_or_eq_true s.tick.lost with hl | hl
    · exact advance_lost n hl
    · apply ih (tick_inv i)
      obtain ⟨_, _, hhs, _, _⟩ := tick_not_lost hl
      refine ⟨h, ?_, hr, d, hk, by rw [tick_now]; omega⟩
      rw [hhs]
      exact List.mem_map.mpr ⟨h, hh, finishReaction_of_run _ _ hr⟩

/-- once the connection is lost after `a` seconds, `_closed_event` is set after `a` + the
longest reaction, and stays set -/
theorem closed_after_lost_by {s : S} (i : Inv s) (a : Nat) (hl : (s.advance a).lost = true)
    (m : Nat) (hm : a + reactBound s ≤ m) : (s.advance m).closedEvent = true := by
  obtain ⟨k, rfl⟩ : ∃ k, m = a + k := ⟨m - a, by omega⟩
  rw [advance_add]
  have hrb : RB (s.advance a) k :=
    advance_RB a (fun x hx => Nat.le_trans (RB_reactBound s x hx) (by omega))
  exact closed_after k (advance_inv a i).h hl (RB_reacting hrb)

end Aiorpcx.C08
