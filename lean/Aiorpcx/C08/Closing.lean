import Aiorpcx.C08.Step
/-! A connection is never left half closed.  While the asyncio transport is closing but
`connection_lost` has not been delivered (a graceful close that does not complete), somebody is
inside `close(force_after)` with the timer still armed - an application task or a handler - so
the forced abort is on its way. -/
namespace Aiorpcx.C08

def GInv (s : S) : Prop :=
  s.closing = true → s.lost = false →
    (∃ c ∈ s.closers, c.st = .waiting) ∨ (∃ h ∈ s.handlers, h.inClose = true)

theorem GInv.of_lost {s : S} (hl : s.lost = true) : GInv s := by
  intro _ h; rw [hl] at h; cases h

theorem GInv.of_not_closing {s : S} (hc : s.closing = false) : GInv s := by
  intro h; rw [hc] at h; cases h

/-! ### what stays lost -/

theorem settle_lost {s : S} (hl : s.lost = true) : s.settle.lost = true := by
  unfold S.settle
  split
  · split
    · rfl
    · exact hl
  · exact hl

theorem settle_lost_or {s : S} (hf : s.fixed = true) :
    s.settle.lost = true ∨ s.settle = s := by
  unfold S.settle
  split
  · left
    split
    · rfl
    · rename_i h; simpa [hf] using h
  · right; rfl

theorem settle_now (s : S) : s.settle.now = s.now := by
  unfold S.settle; split
  · split <;> rfl
  · rfl

theorem settle_handlers (s : S) : s.settle.handlers = s.handlers := by
  unfold S.settle; split
  · split <;> rfl
  · rfl

theorem settle_down (s : S) : s.settle.down = s.down := by
  unfold S.settle; split
  · split <;> rfl
  · rfl

theorem settle_fixed (s : S) : s.settle.fixed = s.fixed := by
  unfold S.settle; split
  · split <;> rfl
  · rfl

theorem settle_tickets (s : S) : s.settle.tickets = s.tickets := by
  unfold S.settle; split
  · split <;> rfl
  · rfl

theorem lose_lost (s : S) (why : Cause) : (s.lose why).lost = true := by
  unfold S.lose
  split
  · assumption
  · apply settle_lost
    split <;> rfl

theorem doAbort_lost (s : S) : s.doAbort.lost = true := by
  unfold S.doAbort
  split
  · assumption
  · exact lose_lost _ _

theorem settle_ginv {s : S} (hf : s.fixed = true) (g : GInv s) : GInv s.settle := by
  rcases settle_lost_or hf with h | h
  · exact GInv.of_lost h
  · rw [h]; exact g

theorem transportClose_ginv {s : S}
    (hw : (∃ c ∈ s.closers, c.st = .waiting) ∨ (∃ h ∈ s.handlers, h.inClose = true)) :
    GInv s.transportClose := by
  rcases transportClose_cases s with ⟨_, e⟩ | ⟨_, _, e⟩ | ⟨_, _, e⟩ <;> rw [e]
  · exact fun _ _ => hw
  · exact fun _ _ => hw
  · exact GInv.of_lost (lose_lost _ _)

/-! ### the clock tick -/

theorem abortCloser_of_not_due {n : Nat} {c : Closer} (h : ¬ (c.st = .waiting ∧ c.deadline ≤ n)) :
    abortCloser n c = c := by
  unfold abortCloser closerDue
  grind

theorem fireHandler_inClose {n : Nat} {dn c : Bool} {h : Handler} (hk : HOk n dn c h)
    (hin : h.inClose = true) (hnd : handlerDue (n + 1) h = false) : fireHandler (n + 1) h = h := by
  unfold fireHandler handlerDue Handler.inClose HOk at *
  grind

theorem anyDue_false_handlers {s : S} (h : s.anyDue = false) :
    ∀ x ∈ s.handlers, handlerDue s.now x = false := by
  unfold S.anyDue at h
  simp only [Bool.or_eq_false_iff, List.any_eq_false] at h
  intro x hx
  have := h.2 x hx
  simpa using this

theorem fired_closing (s : S) : s.fired.closing = s.closing := rfl
theorem fired_fixed (s : S) : s.fired.fixed = s.fixed := rfl
theorem fired_down (s : S) : s.fired.down = s.down := rfl

/-- nobody's wait is cut short in this tick: whoever was inside `close()` still is -/
theorem fired_witness {s : S} (i : Inv s) (hnd : ({ s with now := s.now + 1 } : S).anyDue = false)
    (hw : (∃ c ∈ s.closers, c.st = .waiting) ∨ (∃ h ∈ s.handlers, h.inClose = true)) :
    (∃ c ∈ s.fired.closers, c.st = .waiting) ∨ (∃ h ∈ s.fired.handlers, h.inClose = true) := by
  rcases hw with ⟨c, hc, hw⟩ | ⟨h, hh, hin⟩
  · left
    refine ⟨c, ?_, hw⟩
    rw [fired_closers]
    exact List.mem_map.mpr ⟨c, hc, abortCloser_of_not_due (anyDue_false hnd c hc)⟩
  · right
    refine ⟨h, ?_, hin⟩
    rw [fired_handlers]
    exact List.mem_map.mpr ⟨h, hh, fireHandler_inClose (i.h.ok h hh) hin
      (anyDue_false_handlers hnd h hh)⟩

theorem tick_ginv {s : S} (i : Inv s) (g : GInv s) : GInv s.tick := by
  rw [tick_eq]
  split
  · exact GInv.of_lost (settle_lost (doAbort_lost _))
  · rename_i hnd
    have hnd : ({ s with now := s.now + 1 } : S).anyDue = false := by simpa using hnd
    apply settle_ginv (by rw [fired_fixed]; exact i.fixed)
    intro hc hl
    rw [fired_closing] at hc
    rw [fired_lost] at hl
    exact fired_witness i hnd (g hc hl)

theorem advance_ginv (n : Nat) : ∀ {s : S}, Inv s → GInv s → GInv (s.advance n) := by
  induction n with
  | zero => intro s _ g; exact g
  | succ n ih => intro s i g; exact ih (tick_inv i) (tick_ginv i g)

/-! ### events -/

theorem startCloser_ginv {s : S} (_hc : s.closing = false) (j d pdl : Nat) (im : Bool) :
    GInv (s.startCloser j d pdl im) := by
  unfold S.startCloser
  cases im with
  | true => exact GInv.of_lost (doAbort_lost _)
  | false =>
    simp only [Bool.false_eq_true, ↓reduceIte]
    apply transportClose_ginv
    right
    exact ⟨⟨j, .closer d, .run, pdl⟩, by simp, by simp [Handler.inClose]⟩

theorem finishHandler_inClose {i : Nat} {h : Handler} (hin : h.inClose = true) :
    finishHandler i h = h := by
  unfold finishHandler Handler.inClose HKind.finishable at *
  grind

theorem crashHandler_inClose_iff (i : Nat) (h : Handler) :
    (crashHandler i h).inClose = h.inClose := by
  unfold crashHandler Handler.inClose
  split
  · rename_i hc
    simp only [Bool.and_eq_true, beq_iff_eq] at hc
    simp [hc.1.2, hc.2]
  · rfl

theorem crash_ginv {s : S} (i : Inv s) (g : GInv s) (j : Nat) : GInv (s.crash j) := by
  unfold S.crash
  split
  · exact g
  · dsimp only
    split
    · exact GInv.of_lost (settle_lost (doAbort_lost _))
    · rename_i hb
      apply settle_ginv (by exact i.fixed)
      intro hc hl
      have hc : s.closing = true := hc
      have hl : s.lost = false := hl
      rcases g hc hl with hw | ⟨h, hh, hin⟩
      · left; exact hw
      · exfalso
        apply hb
        simp only [i.fixed, Bool.true_and, List.any_eq_true]
        exact ⟨crashHandler j h, List.mem_map.mpr ⟨h, hh, rfl⟩, by rw [crashHandler_inClose_iff]; exact hin⟩

theorem cancelCloser_other {n c : Nat} {x : Closer} (h : ¬ (x.id = c ∧ x.st = .waiting))
    (hw : x.st = .waiting) : cancelCloser n c x = x := by
  unfold cancelCloser
  grind

theorem cancelClose_ginv {s : S} (i : Inv s) (g : GInv s) (c : Nat) : GInv (s.cancelClose c) := by
  unfold S.cancelClose
  simp only []
  split
  · exact GInv.of_lost (doAbort_lost _)
  · rename_i hb
    simp only [i.fixed, Bool.true_and, List.any_eq_true, not_exists, not_and] at hb
    intro hc hl
    rcases g hc hl with ⟨x, hx, hw⟩ | hw
    · left
      refine ⟨x, ?_, hw⟩
      have : cancelCloser s.now c x = x := by
        apply cancelCloser_other _ hw
        intro ⟨h1, h2⟩
        exact hb x hx (by simp [h1, h2])
      exact List.mem_map.mpr ⟨x, hx, this⟩
    · right; exact hw

theorem step_ginv {s : S} (i : Inv s) (g : GInv s) (e : Event) : GInv (step s e) := by
  cases e with
  | request j k =>
    unfold step; simp only []
    split
    · exact g
    · rename_i hg
      simp only [Bool.or_eq_true, not_or, Bool.not_eq_true] at hg
      unfold S.startHandler
      cases k with
      | quick => exact GInv.of_not_closing hg.1.1
      | slow => exact GInv.of_not_closing hg.1.1
      | stubborn r => exact GInv.of_not_closing hg.1.1
      | aborter => exact GInv.of_lost (doAbort_lost _)
      | thenClose fa => exact GInv.of_not_closing hg.1.1
      | closer fa => exact startCloser_ginv hg.1.1 _ _ _ _
  | replyClose j fa =>
    unfold step; simp only []
    split
    · exact g
    · rename_i hg
      simp only [Bool.or_eq_true, not_or, Bool.not_eq_true] at hg
      exact startCloser_ginv hg.1.1 _ _ _ _
  | handlerFinish j =>
    unfold step; simp only []
    split
    · intro hc hl
      rcases g hc hl with hw | ⟨h, hh, hin⟩
      · left; exact hw
      · right
        exact ⟨h, List.mem_map.mpr ⟨h, hh, finishHandler_inClose hin⟩, hin⟩
    · rename_i fa hfs
      obtain ⟨h0, hh0, hr0⟩ := List.exists_of_findSome?_eq_some hfs
      split
      · exact GInv.of_lost (doAbort_lost _)
      · rename_i hfa
        apply transportClose_ginv
        right
        exact ⟨toCloser s.fixed s.now j h0, List.mem_map.mpr ⟨h0, hh0, rfl⟩,
               toCloser_resuming hr0 (by simpa using hfa)⟩
  | handlerCancel j => exact crash_ginv i g j
  | outgoing k =>
    unfold step; simp only []
    split
    · exact g
    · split <;> exact fun hc hl => g hc hl
  | answer k =>
    unfold step; simp only []
    split
    · exact g
    · exact fun hc hl => g hc hl
  | drop => exact GInv.of_lost (lose_lost _ _)
  | appClose c fa =>
    unfold step; simp only []
    split
    · exact g
    · split
      · rename_i hce
        have hl := (i.h.closedThen hce).1
        have hcl := i.h.lostClosing hl
        rcases transportClose_cases
            { s with closers := s.closers ++ [⟨c, s.now, s.now + fa, .returned s.now⟩] } with
          ⟨_, e⟩ | ⟨h, _⟩ | ⟨h, _⟩
        · rw [e]; exact GInv.of_lost hl
        · rw [hcl] at h; cases h
        · rw [hcl] at h; cases h
      · split
        · exact GInv.of_lost (doAbort_lost _)
        · apply transportClose_ginv
          left
          exact ⟨⟨c, s.now, s.now + fa, .waiting⟩, by simp, rfl⟩
  | cancelClose c => exact cancelClose_ginv i g c
  | abort => exact GInv.of_lost (doAbort_lost _)
  | advance dt => exact advance_ginv dt i g

theorem run_ginv (es : List Event) : ∀ {s : S}, Inv s → GInv s → GInv (run s es) := by
  induction es with
  | nil => intro s _ g; exact g
  | cons e es ih => intro s i g; exact ih (step_inv i e) (step_ginv i g e)

theorem init_ginv (rt pt ol : Nat) (st : Bool) : GInv (init rt pt ol st) := GInv.of_not_closing rfl

end Aiorpcx.C08
