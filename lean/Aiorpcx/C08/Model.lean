/-!
# C08 — lifecycle of a connection: loss / close / abort release every waiter, leave no task

Reactive model (a labelled transition system observed *at quiescence*, integer virtual time) of

* `rawsocket.py` / `unixsocket.py`: `connection_made`, `connection_lost`, `process_messages`
  (`finally: _closed_event.set()`), `close(force_after)`, `abort`, `is_closing`;
* `session.py`: `SessionBase._process_messages` (hook in `finally`), `process_messages`
  (`async with self._group`: the TaskGroup exit cancels and awaits every handler), `close`,
  `abort`, `RPCSession.connection_lost` -> `JSONRPCConnection.cancel_pending_requests`,
  `send_request` (`timeout_after(sent_request_timeout)` around the future);
* `curio.py`: TaskGroup exit (C09), `timeout_after` (C11) as used above.

One environment event = one thing the application / peer / network / clock does, followed by
running everything runnable (the model's step function mirrors the code's order of effects).

Teardown after the asyncio transport delivered `connection_lost` (which it does exactly once:
after `close()` unless the send buffer never drains - `stalled` -, after `abort()`, or when the
link drops):

    framer.fail(ConnectionLostError)  ->  the message loop ends  ->  `finally:` hook
    (RPCSession: every pending request future is cancelled)  ->  the TaskGroup exit cancels every
    handler (a prompt one ends at once, a stubborn one after `react` more seconds, one blocked in
    `close()` is cancelled there)  ->  when the last handler is done `_closed_event` is set  ->
    every task waiting in `close()` returns.

No Mathlib imports (the driver links this file).
-/
namespace Aiorpcx.C08

inductive HKind where
  /-- returns at once (never seen running at quiescence) -/
  | quick
  /-- runs until the application lets it finish (`handlerFinish`) or it is cancelled -/
  | slow
  /-- like `slow`, but when cancelled it works `react` more seconds before giving in -/
  | stubborn (react : Nat)
  /-- calls `session.close(force_after)` from inside the handler; `deadline` = the instant its
      `timeout_after(force_after)` fires -/
  | closer (deadline : Nat)
  /-- calls `session.abort()` and returns -/
  | aborter
  deriving Repr, DecidableEq

inductive HStatus where
  | run
  | reacting (until_ : Nat)
  | done
  deriving Repr, DecidableEq

structure Handler where
  id : Nat
  kind : HKind
  status : HStatus
  deriving Repr, DecidableEq

inductive TStatus where
  | pending
  | answered
  | cancelled
  | timedOut (at_ : Nat)
  deriving Repr, DecidableEq

/-- an outgoing request: the caller awaits the future under
`timeout_after(sent_request_timeout)` -/
structure Ticket where
  id : Nat
  status : TStatus
  deadline : Nat
  /-- registered after the connection_lost hook had already run -/
  afterLoss : Bool
  deriving Repr, DecidableEq

inductive CStatus where
  | waiting
  /-- `force_after` passed: `abort()` was called, now waiting for `_closed_event` without limit -/
  | abortedWaiting
  | returned (at_ : Nat)
  deriving Repr, DecidableEq

/-- an application task inside `close(force_after)` -/
structure Closer where
  id : Nat
  /-- the instant `close()` was called -/
  start : Nat
  deadline : Nat
  st : CStatus
  deriving Repr, DecidableEq

structure S where
  /-- `RPCSession.sent_request_timeout` -/
  reqTimeout : Nat := 30
  /-- a graceful `close()` of the asyncio transport never completes (the peer does not read):
      `connection_lost` comes only with `abort()` or when the link drops -/
  stalled : Bool := false
  now : Nat := 0
  /-- the asyncio transport's `is_closing()` -/
  closing : Bool := false
  /-- `connection_lost` has been delivered to the protocol -/
  lost : Bool := false
  /-- the `_process_messages` task is running -/
  loopAlive : Bool := true
  /-- how often the session's `connection_lost` hook has run -/
  hookRuns : Nat := 0
  handlers : List Handler := []
  tickets : List Ticket := []
  closers : List Closer := []
  /-- `_closed_event.is_set()` -/
  closedEvent : Bool := false
  /-- ghost: the instant `_closed_event` was set -/
  closedAt : Option Nat := none
  /-- the instants at which `abort()` was called on the asyncio transport -/
  aborts : List Nat := []
  deriving Repr, DecidableEq

/-- `RSTransport.is_closing()` -/
def S.isClosing (s : S) : Bool := s.closedEvent || s.closing

inductive Event where
  /-- the peer's request `i` arrives; its handler is of kind `k` (`arg` = react / force_after) -/
  | request (i : Nat) (k : HKind)
  | handlerFinish (i : Nat)
  /-- an application task calls `send_request` -/
  | outgoing (k : Nat)
  /-- the peer answers outgoing request `k` -/
  | answer (k : Nat)
  /-- link lost / peer closed -/
  | drop
  /-- an application task calls `close(force_after)` -/
  | appClose (c : Nat) (forceAfter : Nat)
  | abort
  | advance (dt : Nat)
  deriving Repr, DecidableEq

/-! ## pieces of the teardown -/

def Handler.isDone (h : Handler) : Bool := h.status == HStatus.done

/-- `task.cancel()` reaches a handler (TaskGroup exit) at time `now` -/
def cancelHandler (now : Nat) (h : Handler) : Handler :=
  match h.status with
  | .run =>
    match h.kind with
    | .stubborn (r + 1) => { h with status := .reacting (now + (r + 1)) }
    | _ => { h with status := .done }
  | _ => h

/-- `cancel_pending_requests`: `future.cancel()` for every future not yet done -/
def cancelTicket (t : Ticket) : Ticket :=
  match t.status with
  | .pending => { t with status := .cancelled }
  | _ => t

def returnCloser (now : Nat) (c : Closer) : Closer :=
  match c.st with
  | .returned _ => c
  | _ => { c with st := .returned now }

/-- `connection_lost` delivered: the message loop ends, the hook runs, every handler is
cancelled -/
def S.teardown (s : S) : S :=
  { s with closing := true, lost := true, loopAlive := false, hookRuns := s.hookRuns + 1,
           tickets := s.tickets.map cancelTicket,
           handlers := s.handlers.map (cancelHandler s.now) }

/-- once the connection is lost and the last handler is done the TaskGroup exit completes,
`process_messages` runs its `finally: self._closed_event.set()` and every `close()` returns -/
def S.settle (s : S) : S :=
  if s.lost && !s.closedEvent && s.handlers.all Handler.isDone then
    { s with closedEvent := true, closedAt := some s.now,
             closers := s.closers.map (returnCloser s.now) }
  else s

/-- the asyncio transport delivers `connection_lost` - exactly once -/
def S.lose (s : S) : S :=
  if s.lost then s else s.teardown.settle

/-- `transport.abort()` -/
def S.doAbort (s : S) : S :=
  S.lose { s with aborts := s.aborts ++ [s.now], closing := true }

/-- `self._asyncio_transport.close()` -/
def S.transportClose (s : S) : S :=
  if s.closing then s
  else if s.stalled then { s with closing := true }
  else S.lose { s with closing := true }

def usedHandler (s : S) (i : Nat) : Bool := s.handlers.any (·.id == i)
def usedTicket (s : S) (k : Nat) : Bool := s.tickets.any (·.id == k)
def usedCloser (s : S) (c : Nat) : Bool := s.closers.any (·.id == c)

/-! ## timers -/

/-- `timeout_after(sent_request_timeout)` fires: the caller gets TaskTimeout -/
def expireTicket (now : Nat) (t : Ticket) : Ticket :=
  match t.status with
  | .pending => if t.deadline == now then { t with status := .timedOut now } else t
  | _ => t

def closerDue (now : Nat) (c : Closer) : Bool :=
  c.st == CStatus.waiting && c.deadline == now

/-- `except TaskTimeout: await self.abort(); await self._closed_event.wait()` -/
def abortCloser (now : Nat) (c : Closer) : Closer :=
  if closerDue now c then { c with st := .abortedWaiting } else c

/-- a handler blocked in `close(force_after)` whose timer fires now (it aborts and keeps
waiting; the teardown that follows cancels it there) -/
def handlerDue (now : Nat) (h : Handler) : Bool :=
  h.status == HStatus.run && h.kind == HKind.closer now

/-- a stubborn handler's reaction to its cancellation ends -/
def finishReaction (now : Nat) (h : Handler) : Handler :=
  match h.status with
  | .reacting u => if u == now then { h with status := .done } else h
  | _ => h

/-- one second passes -/
def S.bump (s : S) : S := { s with now := s.now + 1 }

/-- request timeouts due now (their futures are cancelled inside the timer callbacks) -/
def S.expire (s : S) : S := { s with tickets := s.tickets.map (expireTicket s.now) }

/-- how many tasks sit in `close()` with their `force_after` timer due now -/
def S.dueCount (s : S) : Nat :=
  (s.closers.filter (closerDue s.now)).length + (s.handlers.filter (handlerDue s.now)).length

/-- the `force_after` timers due now: each such task calls `abort()` and keeps waiting; the
asyncio transport delivers `connection_lost` one loop iteration later -/
def S.fireClosers (s : S) : S :=
  let s2 : S := { s with closers := s.closers.map (abortCloser s.now),
                         aborts := s.aborts ++ List.replicate s.dueCount s.now }
  if s.dueCount == 0 then s2 else S.lose { s2 with closing := true }

/-- stubborn handlers whose reaction ends now -/
def S.endReactions (s : S) : S := { s with handlers := s.handlers.map (finishReaction s.now) }

/-- one second passes and the timers due at the new instant fire: request timeouts first, then
the `force_after` timers, then reactions end; then the TaskGroup exit may complete -/
def S.tick (s : S) : S := s.bump.expire.fireClosers.endReactions.settle

def S.advance (s : S) : Nat → S
  | 0 => s
  | n + 1 => S.advance s.tick n

/-! ## the step function -/

/-- the handler kinds that return when the application releases them -/
def HKind.finishable : HKind → Bool
  | .slow => true
  | .stubborn _ => true
  | _ => false

def finishHandler (i : Nat) (h : Handler) : Handler :=
  if h.id == i && h.status == HStatus.run && h.kind.finishable
  then { h with status := .done } else h

def answerTicket (k : Nat) (t : Ticket) : Ticket :=
  if t.id == k && t.status == TStatus.pending then { t with status := .answered } else t

/-- the handler of request `i` starts and runs until it first blocks -/
def S.startHandler (s : S) (i : Nat) (k : HKind) : S :=
  match k with
  | .quick => { s with handlers := s.handlers ++ [⟨i, .quick, .done⟩] }
  | .slow => { s with handlers := s.handlers ++ [⟨i, .slow, .run⟩] }
  | .stubborn r => { s with handlers := s.handlers ++ [⟨i, .stubborn r, .run⟩] }
  | .aborter => S.doAbort { s with handlers := s.handlers ++ [⟨i, .aborter, .done⟩] }
  | .closer fa =>
    -- `fa` is the force_after argument here; the record stores the absolute deadline
    let s1 : S := { s with handlers := s.handlers ++ [⟨i, .closer (s.now + fa), .run⟩] }
    -- timeout_after(0): the timer is due at once, before a graceful close can complete, so
    -- `abort()` follows the `close()` in the same instant (the pair acts like the abort alone)
    if fa == 0 then s1.doAbort else S.transportClose s1

def step (s : S) : Event → S
  | .request i k =>
    -- asyncio delivers no data once the transport is closing
    if s.closing || s.lost || usedHandler s i then s else s.startHandler i k
  | .handlerFinish i =>
    if s.lost then s else { s with handlers := s.handlers.map (finishHandler i) }
  | .outgoing k =>
    if usedTicket s k then s
    else { s with tickets := s.tickets ++ [⟨k, .pending, s.now + s.reqTimeout, s.lost⟩] }
  | .answer k =>
    if s.closing || s.lost then s else { s with tickets := s.tickets.map (answerTicket k) }
  | .drop => S.lose { s with closing := true }
  | .appClose c fa =>
    if usedCloser s c then s
    else if s.closedEvent then
      -- `_closed_event.wait()` returns without suspending
      { s with closers := s.closers ++ [⟨c, s.now, s.now + fa, .returned s.now⟩] }
    else if fa == 0 then
      -- timeout_after(0): the timer is due at once, before a graceful close can complete
      -- (close() and abort() in the same instant act like the abort alone)
      S.doAbort { s with closers := s.closers ++ [⟨c, s.now, s.now, .abortedWaiting⟩] }
    else S.transportClose { s with closers := s.closers ++ [⟨c, s.now, s.now + fa, .waiting⟩] }
  | .abort => s.doAbort
  | .advance dt => s.advance dt

def run (s : S) : List Event → S
  | [] => s
  | e :: es => run (step s e) es

def init (reqTimeout : Nat) (stalled : Bool) : S := { reqTimeout := reqTimeout, stalled := stalled }

end Aiorpcx.C08
